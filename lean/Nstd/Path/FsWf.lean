import Nstd.Path.FsRename
/-
  Every operation of the model keeps the world well-formed (and keeps the working directory):
  `Inv` is an invariant of all histories (`wf_run`).
-/
namespace Nstd.Path

/-- the invariant of all histories: well-formed, and the working directory is a directory -/
def Inv (fs : Fs) : Prop := WF fs ∧ fs.get cwd = some .dir

/-- `p` is a directory of the world (the root always is) -/
def Present (fs : Fs) (p : CPath) : Prop := p = [] ∨ fs.get p = some .dir

theorem take_ne_nil {α} (l : List α) (k : Nat) (hk : 0 < k) (hl : l ≠ []) : l.take k ≠ [] := by
  cases l with
  | nil => exact absurd rfl hl
  | cons a as => cases k with
    | zero => omega
    | succ k => simp

theorem present_prefix (fs : Fs) (hwf : WF fs) (p : CPath) (hp : Present fs p) (k : Nat) (hk : k ≤ p.length) :
    Present fs (p.take k) := by
  rcases hp with rfl | hg
  · left; simp
  · by_cases hk0 : k = 0
    · left; simp [hk0]
    · by_cases hkl : k = p.length
      · right; rw [hkl, List.take_length]; exact hg
      · right
        have hpne : p ≠ [] := by intro h; subst h; simp at hk; exact hk0 hk
        have hm := get_some_mem fs p .dir hpne hg
        obtain ⟨y, hy, hy1, hy2⟩ := hwf.parents (p, .dir) hm k (by simp; omega) (by omega)
        have hne : p.take k ≠ [] := take_ne_nil p k (by omega) hpne
        simp only at hy1
        have := get_of_mem fs hwf.nodup (p.take k) .dir hne (by rw [← hy1, ← hy2]; exact hy)
        exact this

theorem present_dropLast (fs : Fs) (hwf : WF fs) (p : CPath) (hp : Present fs p) : Present fs p.dropLast := by
  rw [List.dropLast_eq_take]
  exact present_prefix fs hwf p hp _ (by omega)

theorem present_names (fs : Fs) (hwf : WF fs) (p : CPath) (hp : Present fs p) : ∀ c ∈ p, KName c := by
  rcases hp with rfl | hg
  · intro c hc; simp at hc
  · intro c hc
    have hpne : p ≠ [] := by intro h; subst h; simp at hc
    exact hwf.names (p, .dir) (get_some_mem fs p .dir hpne hg) c hc

/-- what a walk in a well-formed world can answer -/
def ResOk (fs : Fs) : Res → Prop
  | .found p e => (p = [] ∧ e = .dir) ∨ fs.get p = some e
  | .missing parent name => Present fs parent ∧ KName name
  | .err _ => True

theorem walk_resOk (fs : Fs) (hwf : WF fs) (fuel : Nat) : ∀ (cur : CPath) (comps : List Name) (fo : Bool),
    Present fs cur → (∀ c ∈ comps, KItemOk c) → ResOk fs (walk fs fuel cur comps fo) := by
  apply walk_lift fs (fun k => ∀ (cur : CPath) (comps : List Name) (fo : Bool),
    Present fs cur → (∀ c ∈ comps, KItemOk c) → ResOk fs (k cur comps fo))
  · intro _ _ _ _ _; trivial
  · intro k hk cur comps
    induction comps generalizing cur with
    | nil =>
      intro fo hc _
      simp only [walkAux, ResOk]
      rcases hc with h | h
      · exact Or.inl ⟨h, trivial⟩
      · exact Or.inr h
    | cons c rest ih =>
      intro fo hc hcomps
      have hrest : ∀ x ∈ rest, KItemOk x := fun x hx => hcomps x (List.mem_cons_of_mem _ hx)
      have hcok := hcomps c (List.mem_cons_self)
      rw [walkAux_cons]
      by_cases h1 : c = [46]
      · rw [if_pos h1]; exact ih _ _ hc hrest
      · rw [if_neg h1]
        by_cases h2 : c = dotdot
        · rw [if_pos h2]; exact ih _ _ (present_dropLast fs hwf cur hc) hrest
        · rw [if_neg h2]
          cases hg : fs.get (cur ++ [c]) with
          | none =>
            simp only
            by_cases hr : rest = []
            · simp only [hr, if_true, ResOk]; exact ⟨hc, hcok.1, hcok.2, h1, h2⟩
            · simp only [hr, if_false, ResOk]
          | some e0 =>
            cases e0 with
            | dir => simp only; exact ih _ _ (Or.inr hg) hrest
            | file d =>
              simp only
              by_cases hr : rest = []
              · simp only [hr, if_true, ResOk]; exact Or.inr hg
              · simp only [hr, if_false, ResOk]
            | link t =>
              simp only
              by_cases hr : rest = [] ∧ fo = false
              · rw [if_pos hr]; simp only [ResOk]; exact Or.inr hg
              · rw [if_neg hr]
                apply hk
                · by_cases hs : startsWith47 t = true
                  · rw [if_pos hs]; exact Or.inl rfl
                  · rw [if_neg hs]; exact hc
                · intro x hx
                  simp only [List.mem_append] at hx
                  rcases hx with hx | hx
                  · exact kchunks_spec t x hx
                  · exact hrest x hx

theorem resolve_resOk (fs : Fs) (hinv : Inv fs) (path : Bytes) (fo : Bool) : ResOk fs (resolve fs path fo) := by
  unfold resolve
  by_cases hne : path = []
  · rw [if_pos hne]; trivial
  · rw [if_neg hne]
    apply walk_resOk fs hinv.1
    · by_cases hs : startsWith47 path = true
      · rw [if_pos hs]; exact Or.inl rfl
      · rw [if_neg hs]; exact Or.inr hinv.2
    · exact kchunks_spec path

theorem lookup_none_not_mem (l : List (CPath × Entry)) (p : CPath) (h : lookup p l = none) : p ∉ l.map (·.1) := by
  induction l with
  | nil => simp
  | cons x rest ih =>
    obtain ⟨k, v⟩ := x
    simp only [lookup] at h
    by_cases hk : k = p
    · simp [hk] at h
    · simp only [hk, if_false] at h
      simp only [List.map_cons, List.mem_cons, not_or]
      exact ⟨fun hh => hk hh.symm, ih h⟩

/-- a new entry below an existing directory keeps the world well-formed -/
theorem set_new_wf (fs : Fs) (hwf : WF fs) (pa : CPath) (n : Name) (e : Entry) (hpa : Present fs pa) (hn : KName n)
    (hnone : fs.get (pa ++ [n]) = none) : WF (fs.set (pa ++ [n]) e) := by
  have hPne := append_singleton_ne_nil pa n
  have hlk : lookup (pa ++ [n]) fs.ents = none := by
    unfold Fs.get at hnone; rw [if_neg hPne] at hnone; exact hnone
  have hnot := lookup_none_not_mem fs.ents _ hlk
  have hdel : (fs.del (pa ++ [n])).ents = fs.ents := by
    simp only [Fs.del]
    apply List.filter_eq_self.mpr
    intro x hx
    simp only [ne_eq, decide_eq_true_eq]
    intro hxe
    exact hnot (List.mem_map.mpr ⟨x, hx, hxe⟩)
  refine ⟨?_, ?_, ?_⟩
  · intro x hx
    simp only [Fs.set, hdel, List.mem_cons] at hx
    rcases hx with rfl | hx
    · intro c hc
      simp only [List.mem_append, List.mem_singleton] at hc
      rcases hc with hc | rfl
      · exact present_names fs hwf pa hpa c hc
      · exact hn
    · exact hwf.names x hx
  · simp only [NoDupKeys, Fs.set, hdel, List.map_cons, List.nodup_cons]
    exact ⟨hnot, hwf.nodup⟩
  · intro x hx k hk2 hk1
    simp only [Fs.set, hdel, List.mem_cons] at hx
    rcases hx with rfl | hx
    · simp only [List.length_append, List.length_cons, List.length_nil] at hk2
      have hk3 : k ≤ pa.length := by omega
      have hpre := present_prefix fs hwf pa hpa k hk3
      have htake : (pa ++ [n]).take k = pa.take k := List.take_append_of_le_length hk3
      have hpane : pa ≠ [] := by intro h; subst h; simp at hk3; omega
      have hne : pa.take k ≠ [] := take_ne_nil pa k hk1 hpane
      rcases hpre with h0 | hg
      · exact absurd h0 hne
      · skip
        refine ⟨(pa.take k, .dir), ?_, by simp only [htake], rfl⟩
        simp only [Fs.set, hdel, List.mem_cons]
        exact Or.inr (get_some_mem fs _ .dir hne hg)
    · obtain ⟨y, hy, hy1, hy2⟩ := hwf.parents x hx k hk2 hk1
      exact ⟨y, by simp only [Fs.set, hdel, List.mem_cons]; exact Or.inr hy, hy1, hy2⟩


/-- replacing the bytes of a file keeps the world well-formed -/
theorem set_file_wf (fs : Fs) (hwf : WF fs) (p : CPath) (d d' : Bytes) (hp : p ≠ []) (hg : fs.get p = some (.file d)) :
    WF (fs.set p (.file d')) := by
  have hm := get_some_mem fs p (.file d) hp hg
  have hmemf : ∀ y, y ∈ fs.ents → y.1 ≠ p → y ∈ (fs.del p).ents := by
    intro y hy hne
    simp only [Fs.del, List.mem_filter, ne_eq, decide_eq_true_eq]
    exact ⟨hy, hne⟩
  have hnotdir : ∀ y ∈ fs.ents, y.2 = .dir → y.1 ≠ p := by
    intro y hy hd hyp
    have := nodup_unique fs.ents hwf.nodup y hy (p, .file d) hm hyp
    rw [this] at hd
    simp at hd
  refine ⟨?_, ?_, ?_⟩
  · intro x hx
    simp only [Fs.set, List.mem_cons] at hx
    rcases hx with rfl | hx
    · exact hwf.names (p, .file d) hm
    · exact hwf.names x (del_sub fs p x hx)
  · simp only [NoDupKeys, Fs.set, List.map_cons, List.nodup_cons]
    refine ⟨?_, List.Nodup.sublist ((List.filter_sublist).map _) hwf.nodup⟩
    intro hmem
    obtain ⟨y, hy, hyp⟩ := List.mem_map.mp hmem
    simp only [Fs.del, List.mem_filter, ne_eq, decide_eq_true_eq] at hy
    exact hy.2 hyp
  · intro x hx k hk2 hk1
    simp only [Fs.set, List.mem_cons] at hx
    have key : ∀ x0 ∈ fs.ents, k < x0.1.length → ∃ y ∈ (fs.set p (.file d')).ents, y.1 = x0.1.take k ∧ y.2 = .dir := by
      intro x0 hx0 hk
      obtain ⟨y, hy, hy1, hy2⟩ := hwf.parents x0 hx0 k hk hk1
      exact ⟨y, by simp only [Fs.set, List.mem_cons]; exact Or.inr (hmemf y hy (hnotdir y hy hy2)), hy1, hy2⟩
    rcases hx with rfl | hx
    · exact key (p, .file d) hm hk2
    · exact key x (del_sub fs p x hx) hk2

theorem get_set_other (fs : Fs) (p q : CPath) (e : Entry) (hp : p ≠ []) (hq : q ≠ p) : (fs.set p e).get q = fs.get q := by
  rw [get_set fs p q e hp, if_neg hq]

/-! ### the system calls keep the invariant -/

theorem inv_set_new (fs : Fs) (hinv : Inv fs) (pa : CPath) (n : Name) (e : Entry)
    (hres : ResOk fs (.missing pa n)) (hnone : fs.get (pa ++ [n]) = none) : Inv (fs.set (pa ++ [n]) e) := by
  refine ⟨set_new_wf fs hinv.1 pa n e hres.1 hres.2 hnone, ?_⟩
  rw [get_set_other fs _ _ _ (append_singleton_ne_nil pa n)]
  · exact hinv.2
  · intro h; have h2 := hinv.2; rw [h, hnone] at h2; simp at h2

theorem inv_set_file (fs : Fs) (hinv : Inv fs) (p : CPath) (d d' : Bytes) (hp : p ≠ []) (hg : fs.get p = some (.file d)) :
    Inv (fs.set p (.file d')) := by
  refine ⟨set_file_wf fs hinv.1 p d d' hp hg, ?_⟩
  rw [get_set_other fs _ _ _ hp]
  · exact hinv.2
  · intro h; have h2 := hinv.2; rw [h, hg] at h2; simp at h2

theorem sysMkdir_inv (fs : Fs) (hinv : Inv fs) (path : Bytes) : Inv (sysMkdir fs path).1 := by
  unfold sysMkdir
  have hok := resolve_resOk fs hinv path false
  cases hr : resolve fs path false with
  | found _ _ => exact hinv
  | err _ => exact hinv
  | missing pa n =>
    rw [hr] at hok
    exact inv_set_new fs hinv pa n _ hok (resolve_missing_get fs path false pa n hr)

theorem sysSymlink_inv (fs : Fs) (hinv : Inv fs) (target path : Bytes) : Inv (sysSymlink fs target path).1 := by
  unfold sysSymlink
  by_cases ht : target = []
  · rw [if_pos ht]; exact hinv
  · rw [if_neg ht]
    have hok := resolve_resOk fs hinv path false
    cases hr : resolve fs path false with
    | found _ _ => exact hinv
    | err _ => exact hinv
    | missing pa n =>
      rw [hr] at hok
      exact inv_set_new fs hinv pa n _ hok (resolve_missing_get fs path false pa n hr)

theorem sysOpen_inv (fs : Fs) (hinv : Inv fs) (path : Bytes) (fl : OFlags) : Inv (sysOpen fs path fl).1 := by
  unfold sysOpen
  by_cases hx : fl.creat = true ∧ fl.excl = true
  · rw [if_pos hx]
    have hok := resolve_resOk fs hinv path false
    cases hr : resolve fs path false with
    | found _ _ => exact hinv
    | err _ => exact hinv
    | missing pa n =>
      rw [hr] at hok
      exact inv_set_new fs hinv pa n _ hok (resolve_missing_get fs path false pa n hr)
  · rw [if_neg hx]
    have hok := resolve_resOk fs hinv path true
    cases hr : resolve fs path true with
    | found p e0 =>
      cases e0 with
      | dir => simp only; by_cases ha : fl.acc = .rdonly <;> simp [ha] <;> exact hinv
      | link t => exact hinv
      | file d =>
        simp only
        by_cases ht : fl.trunc = true ∧ fl.acc ≠ .rdonly
        · rw [if_pos ht]
          obtain ⟨hp, hg⟩ := resolve_found_nondir fs path true p (.file d) hr (by simp)
          exact inv_set_file fs hinv p d [] hp hg
        · rw [if_neg ht]; exact hinv
    | err _ => exact hinv
    | missing pa n =>
      rw [hr] at hok
      simp only
      by_cases hc : fl.creat = true
      · rw [if_pos hc]
        exact inv_set_new fs hinv pa n _ hok (resolve_missing_get fs path true pa n hr)
      · rw [if_neg hc]; exact hinv

/-- an open file description that came from `sysOpen` refers to a regular file of the world, or is a directory -/
def FdOk (fs : Fs) (fd : Fd) : Prop := fd.isDir = true ∨ (fd.path ≠ [] ∧ ∃ d, fs.get fd.path = some (.file d))

theorem sysWrite_inv (fs : Fs) (hinv : Inv fs) (fd : Fd) (hfd : FdOk fs fd) (data : Bytes) :
    Inv (sysWrite fs fd data).1 ∧ FdOk (sysWrite fs fd data).1 (sysWrite fs fd data).2.1 := by
  unfold sysWrite
  by_cases h1 : fd.acc = .rdonly ∨ fd.isDir = true
  · rw [if_pos h1]; exact ⟨hinv, hfd⟩
  · rw [if_neg h1]
    by_cases h2 : data = []
    · rw [if_pos h2]; exact ⟨hinv, hfd⟩
    · rw [if_neg h2]
      rcases hfd with hd | ⟨hp, d, hg⟩
      · exact absurd (Or.inr hd) h1
      · refine ⟨inv_set_file fs hinv fd.path d _ hp hg, Or.inr ⟨hp, writeAt (fileData fs fd.path) fd.pos data, ?_⟩⟩
        simp only
        rw [get_set fs _ _ _ hp]; simp


theorem sysOpen_fdOk (fs fs1 : Fs) (path : Bytes) (fl : OFlags) (fd : Fd) (h : sysOpen fs path fl = (fs1, .ok fd)) :
    FdOk fs1 fd := by
  unfold sysOpen at h
  by_cases hx : fl.creat = true ∧ fl.excl = true
  · rw [if_pos hx] at h
    cases hr : resolve fs path false with
    | found _ _ => simp [hr] at h
    | err _ => simp [hr] at h
    | missing pa n =>
      simp only [hr, Prod.mk.injEq, Except.ok.injEq] at h
      obtain ⟨h1, h2⟩ := h
      subst h1; subst h2
      exact Or.inr ⟨by simp, [], by rw [get_set fs _ _ _ (append_singleton_ne_nil pa n)]; simp⟩
  · rw [if_neg hx] at h
    cases hr : resolve fs path true with
    | found p e0 =>
      cases e0 with
      | dir =>
        simp only [hr] at h
        by_cases ha : fl.acc = .rdonly
        · simp [ha] at h; rw [← h.2]; exact Or.inl rfl
        · simp [ha] at h
      | link t => simp [hr] at h
      | file d =>
        simp only [hr, Prod.mk.injEq, Except.ok.injEq] at h
        obtain ⟨h1, h2⟩ := h
        subst h2
        obtain ⟨hp, hg⟩ := resolve_found_nondir fs path true p (.file d) hr (by simp)
        by_cases ht : fl.trunc = true ∧ fl.acc ≠ .rdonly
        · rw [if_pos ht] at h1; subst h1
          exact Or.inr ⟨hp, [], by rw [get_set fs _ _ _ hp]; simp⟩
        · rw [if_neg ht] at h1; subst h1
          exact Or.inr ⟨hp, d, hg⟩
    | err _ => simp [hr] at h
    | missing pa n =>
      simp only [hr] at h
      by_cases hc : fl.creat = true
      · simp only [hc, if_true, Prod.mk.injEq, Except.ok.injEq] at h
        obtain ⟨h1, h2⟩ := h
        subst h1; subst h2
        exact Or.inr ⟨by simp, [], by rw [get_set fs _ _ _ (append_singleton_ne_nil pa n)]; simp⟩
      · simp [hc] at h

theorem inv_del (fs : Fs) (hinv : Inv fs) (p : CPath) (hp : p ≠ []) (hleaf : Leaf fs p) (hne : p ≠ cwd) : Inv (fs.del p) := by
  refine ⟨del_wf fs p hinv.1 hleaf, ?_⟩
  rw [get_del fs p cwd hp, if_neg (fun h => hne h.symm)]
  exact hinv.2

theorem sysUnlink_inv (fs : Fs) (hinv : Inv fs) (path : Bytes) : Inv (sysUnlink fs path).1 := by
  unfold sysUnlink
  cases hr : resolve fs path false with
  | found p e =>
    have key : e ≠ .dir → Inv (fs.del p) := by
      intro he
      obtain ⟨hp, hg⟩ := resolve_found_nondir fs path false p e hr he
      apply inv_del fs hinv p hp (leaf_of_nondir fs hinv.1 p e hp hg he)
      intro h; rw [h, hinv.2] at hg; exact he (Option.some.inj hg).symm
    cases e with
    | dir => exact hinv
    | file d => exact key (by simp)
    | link t => exact key (by simp)
  | missing _ _ => exact hinv
  | err _ => exact hinv

theorem sysRmdirCore_inv (fs : Fs) (hinv : Inv fs) (path : Bytes) : Inv (sysRmdirCore fs path).1 := by
  unfold sysRmdirCore
  cases resolve fs path false with
  | found p e =>
    cases e with
    | dir =>
      simp only
      by_cases h1 : p.isPrefixOf cwd = true
      · simp [h1]; exact hinv
      · by_cases h2 : fs.children p ≠ []
        · simp [h1, h2]; exact hinv
        · simp only [h1, h2, if_false]
          apply inv_del fs hinv p
          · intro h; apply h1; rw [h]; rfl
          · exact leaf_of_no_children fs hinv.1 p (by simpa using h2)
          · intro h; apply h1; rw [h]; exact List.isPrefixOf_iff_prefix.mpr (List.prefix_refl _)
    | file _ => exact hinv
    | link _ => exact hinv
  | missing _ _ => exact hinv
  | err _ => exact hinv


theorem sysRmdir_inv (fs : Fs) (hinv : Inv fs) (path : Bytes) : Inv (sysRmdir fs path).1 := by
  rcases sysRmdir_cases fs path with h | ⟨e, h⟩
  · rw [h]; exact sysRmdirCore_inv fs hinv path
  · rw [h]; exact hinv

theorem sysSendfile_inv (fs : Fs) (hinv : Inv fs) (out inp : Fd) (hout : FdOk fs out) (count : Nat) :
    Inv (sysSendfile fs out inp count).1 := by
  unfold sysSendfile
  by_cases h1 : inp.isDir = true ∨ inp.acc = .wronly ∨ out.acc = .rdonly ∨ out.isDir = true
  · rw [if_pos h1]; exact hinv
  · rw [if_neg h1]
    exact (sysWrite_inv fs hinv out hout _).1

/-! ### library operations -/

theorem mkfile_inv (fs : Fs) (hinv : Inv fs) (path data : Bytes) : Inv (mkfile fs path data).1 := by
  unfold mkfile
  have h1 := sysOpen_inv fs hinv path { acc := .wronly, creat := true, trunc := true }
  cases ho : sysOpen fs path { acc := .wronly, creat := true, trunc := true } with
  | mk fs1 r =>
    rw [ho] at h1
    cases r with
    | error _ => exact h1
    | ok fd => exact (sysWrite_inv fs1 h1 fd (sysOpen_fdOk fs fs1 path _ fd ho) data).1

theorem createHere_inv (fs : Fs) (hinv : Inv fs) (dir : Bytes) (fault : Option Nat) (fired : Nat) :
    Inv (createHere fs dir fault fired).1 := by
  unfold createHere mkdirF
  have hm := sysMkdir_inv fs hinv dir
  cases fault with
  | none =>
    simp only
    cases hs : sysMkdir fs dir with
    | mk fs' r => rw [hs] at hm; cases r <;> simpa [isOk] using hm
  | some k =>
    cases k with
    | zero => simpa using hinv
    | succ k =>
      simp only
      cases hs : sysMkdir fs dir with
      | mk fs' r => rw [hs] at hm; cases r <;> simpa [isOk] using hm

theorem dirCreate_inv : ∀ (fuel : Nat) (fs : Fs), Inv fs → ∀ (dir : Bytes) (fault : Option Nat) (fired : Nat),
    Inv (dirCreate fuel fs dir fault fired).1 := by
  intro fuel
  induction fuel with
  | zero => intro fs h _ _ _; exact h
  | succ fuel ih =>
    intro fs hinv dir fault fired
    simp only [dirCreate]
    by_cases hc : getDirectoryNameK dir ≠ [46] ∧ getDirectoryNameK dir ≠ [] ∧ dirExists fs (getDirectoryNameK dir) = false
    · rw [if_pos hc]
      have ihp := ih fs hinv (getDirectoryNameK dir) fault fired
      cases hrec : dirCreate fuel fs (getDirectoryNameK dir) fault fired with
      | mk fs' rest =>
        obtain ⟨r, fault', fired'⟩ := rest
        rw [hrec] at ihp
        cases r with
        | true => exact createHere_inv fs' ihp dir fault' fired'
        | false => exact ihp
    · rw [if_neg hc]; exact createHere_inv fs hinv dir fault fired

theorem fileUnlink_inv (fs : Fs) (hinv : Inv fs) (path : Bytes) : Inv (fileUnlink fs path).1 := by
  unfold fileUnlink; exact sysUnlink_inv fs hinv path

theorem unlinkEntries_inv (rec : Fs → Bytes → Fs × Bool) (hrec : ∀ fs p, Inv fs → Inv (rec fs p).1) (pre_ : Bytes) :
    ∀ (ents : List (Name × Entry)) (fs : Fs), Inv fs → Inv (unlinkEntries rec pre_ fs ents).1 := by
  intro ents
  induction ents with
  | nil => intro fs h; exact h
  | cons x rest ih =>
    intro fs hinv
    obtain ⟨n, e⟩ := x
    have hfile := fileUnlink_inv fs hinv (pre_ ++ n)
    cases e with
    | dir =>
      simp only [unlinkEntries]
      have := hrec fs (pre_ ++ n) hinv
      cases hr : rec fs (pre_ ++ n) with
      | mk fs' ok => rw [hr] at this; cases ok with
        | false => exact this
        | true => exact ih fs' this
    | file d =>
      simp only [unlinkEntries]
      cases hr : fileUnlink fs (pre_ ++ n) with
      | mk fs' ok => rw [hr] at hfile; cases ok with
        | false => exact hfile
        | true => exact ih fs' hfile
    | link t =>
      simp only [unlinkEntries]
      cases hr : fileUnlink fs (pre_ ++ n) with
      | mk fs' ok => rw [hr] at hfile; cases ok with
        | false => exact hfile
        | true => exact ih fs' hfile

theorem dirUnlink_inv : ∀ (fuel : Nat) (recursive : Bool) (fs : Fs) (dir : Bytes), Inv fs →
    Inv (dirUnlink fuel recursive fs dir).1 := by
  intro fuel
  induction fuel with
  | zero => intro _ fs _ h; exact h
  | succ fuel ih =>
    intro recursive fs dir hinv
    simp only [dirUnlink]
    have h1 := sysRmdir_inv fs hinv dir
    cases hr : sysRmdir fs dir with
    | mk fs' r =>
      rw [hr] at h1
      cases r with
      | ok _ => exact h1
      | error e =>
        simp only
        by_cases hc : recursive = false ∨ e ≠ .enotempty
        · rw [if_pos hc]; exact h1
        · rw [if_neg hc]
          cases hd : sysReaddir fs' dir with
          | error _ => exact h1
          | ok pe =>
            obtain ⟨p, ents⟩ := pe
            simp only
            have h2 := unlinkEntries_inv (dirUnlink fuel true) (fun a b => ih true a b) (dir ++ [47]) ents fs' h1
            cases hu : unlinkEntries (dirUnlink fuel true) (dir ++ [47]) fs' ents with
            | mk fs'' ok =>
              rw [hu] at h2
              cases ok with
              | false => exact h2
              | true => exact sysRmdir_inv fs'' h2 dir

theorem purgeUp_inv : ∀ (n : Nat) (fs : Fs) (i : Bytes), Inv fs → Inv (purgeUp n fs i) := by
  intro n
  induction n with
  | zero => intro fs _ h; exact h
  | succ n ih =>
    intro fs i hinv
    simp only [purgeUp]
    by_cases hi : i = [46]
    · rw [if_pos hi]; exact hinv
    · rw [if_neg hi]
      have := sysRmdir_inv fs hinv i
      cases hr : sysRmdir fs i with
      | mk fs' r => rw [hr] at this; cases r with
        | ok _ => exact ih fs' _ this
        | error _ => exact this

theorem dirPurge_inv (fs : Fs) (hinv : Inv fs) (path : Bytes) (recursive : Bool) : Inv (dirPurge fs path recursive).1 := by
  unfold dirPurge dirUnlinkTop
  have := dirUnlink_inv (maxDepth fs + 2) recursive fs path hinv
  cases hr : dirUnlink (maxDepth fs + 2) recursive fs path with
  | mk fs' ok => rw [hr] at this; cases ok with
    | false => exact this
    | true => exact purgeUp_inv _ fs' _ this

theorem sysLseek_fd (fs : Fs) (fd : Fd) (off : Int) (w : Whence) :
    (sysLseek fs fd off w).1.path = fd.path ∧ (sysLseek fs fd off w).1.isDir = fd.isDir := by
  unfold sysLseek
  simp only
  constructor <;> (split <;> (split <;> rfl))

theorem sysRead_fd (fs : Fs) (fd : Fd) (len : Nat) :
    (sysRead fs fd len).1.path = fd.path ∧ (sysRead fs fd len).1.isDir = fd.isDir := by
  unfold sysRead
  by_cases h1 : fd.acc = .wronly
  · rw [if_pos h1]; exact ⟨rfl, rfl⟩
  · rw [if_neg h1]
    by_cases h2 : fd.isDir = true
    · rw [if_pos h2]; exact ⟨rfl, rfl⟩
    · rw [if_neg h2]; exact ⟨rfl, rfl⟩

theorem fdOk_of_same (fs : Fs) (fd fd' : Fd) (h : FdOk fs fd) (h1 : fd'.path = fd.path) (h2 : fd'.isDir = fd.isDir) :
    FdOk fs fd' := by
  unfold FdOk at h ⊢; rw [h1, h2]; exact h

theorem fileStep_inv (fs : Fs) (hinv : Inv fs) (fd : Fd) (hfd : FdOk fs fd) (op : FileOp) :
    Inv (fileStep fs fd op).1 ∧ FdOk (fileStep fs fd op).1 (fileStep fs fd op).2.1 := by
  cases op with
  | write d =>
    simp only [fileStep, fileWrite]
    have := sysWrite_inv fs hinv fd hfd d
    cases hw : sysWrite fs fd d with
    | mk fs' rest => obtain ⟨fd', r⟩ := rest; rw [hw] at this; cases r <;> exact this
  | seek off w =>
    have hl := sysLseek_fd fs fd off w
    simp only [fileStep, fileSeek]
    cases hs : sysLseek fs fd off w with
    | mk fd' r =>
      rw [hs] at hl
      cases r <;> exact ⟨hinv, fdOk_of_same fs fd fd' hfd hl.1 hl.2⟩
  | readAll =>
    simp only [fileStep, fileReadAll, fileSize_eq]
    have hl := sysRead_fd fs fd (fileData fs fd.path).length
    cases hs : sysRead fs fd (fileData fs fd.path).length with
    | mk fd' r =>
      rw [hs] at hl
      cases r <;> exact ⟨hinv, fdOk_of_same fs fd fd' hfd hl.1 hl.2⟩
  | size =>
    simp only [fileStep, fileSize_eq]
    exact ⟨hinv, hfd⟩
  | read n =>
    simp only [fileStep, fileRead]
    have hl := sysRead_fd fs fd n
    cases hs : sysRead fs fd n with
    | mk fd' r =>
      rw [hs] at hl
      cases r <;> exact ⟨hinv, fdOk_of_same fs fd fd' hfd hl.1 hl.2⟩
  | seekF off w => exact ⟨hinv, hfd⟩
  | sizeF k =>
    simp only [fileStep, fileSizeF_eq]
    refine ⟨hinv, ?_⟩
    split
    · exact hfd
    · split
      · exact fdOk_of_same fs fd _ hfd rfl rfl
      · exact hfd
  | readAllF k =>
    simp only [fileStep, fileReadAllF, fileSizeF_eq]
    refine ⟨hinv, ?_⟩
    by_cases h1 : k ≤ 1
    · rw [if_pos h1]; exact hfd
    · by_cases h2 : k = 2 ∧ fd.pos ≠ (fileData fs fd.path).length
      · rw [if_neg h1, if_pos h2]; exact fdOk_of_same fs fd _ hfd rfl rfl
      · rw [if_neg h1, if_neg h2]
        simp only
        have hl := sysRead_fd fs fd (fileData fs fd.path).length
        cases hs : sysRead fs fd (fileData fs fd.path).length with
        | mk fd' r =>
          rw [hs] at hl
          cases r <;> exact fdOk_of_same fs fd fd' hfd hl.1 hl.2

theorem runOps_inv : ∀ (ops : List FileOp) (fs : Fs) (fd : Fd), Inv fs → FdOk fs fd → Inv (runOps fs fd ops).1 := by
  intro ops
  induction ops with
  | nil => intro fs fd h _; exact h
  | cons op rest ih =>
    intro fs fd hinv hfd
    have := fileStep_inv fs hinv fd hfd op
    simp only [runOps]
    exact ih _ _ this.1 this.2

theorem fileOpen_inv (fs : Fs) (hinv : Inv fs) (path : Bytes) (flags : Nat) :
    Inv (fileOpen fs path flags).1 ∧ ∀ fd, (fileOpen fs path flags).2 = some fd → FdOk (fileOpen fs path flags).1 fd := by
  unfold fileOpen
  have h1 := sysOpen_inv fs hinv path (openFlags flags)
  cases ho : sysOpen fs path (openFlags flags) with
  | mk fs1 r =>
    rw [ho] at h1
    cases r with
    | error _ => exact ⟨h1, fun fd h => by simp at h⟩
    | ok fd0 =>
      have hok := sysOpen_fdOk fs fs1 path _ fd0 ho
      simp only
      by_cases hd : fd0.isDir = true
      · rw [if_pos hd]; exact ⟨h1, fun fd h => by simp at h⟩
      · rw [if_neg hd]
        by_cases ha : hasFlag flags appendFlag = true
        · rw [if_pos ha]
          have hl := sysLseek_fd fs1 fd0 0 .end_
          cases hs : sysLseek fs1 fd0 0 .end_ with
          | mk fd' r =>
            rw [hs] at hl
            cases r with
            | ok _ =>
              refine ⟨h1, fun fd h => ?_⟩
              simp only [Option.some.injEq] at h
              subst h
              exact fdOk_of_same fs1 fd0 fd' hok hl.1 hl.2
            | error _ => exact ⟨h1, fun fd h => by simp at h⟩
        · rw [if_neg ha]
          refine ⟨h1, fun fd h => ?_⟩
          simp only [Option.some.injEq] at h
          subst h; exact hok

theorem fileSession_inv (fs : Fs) (hinv : Inv fs) (path : Bytes) (flags : Nat) (script : List FileOp) :
    Inv (fileSession fs path flags script).1 := by
  unfold fileSession
  have := fileOpen_inv fs hinv path flags
  cases ho : fileOpen fs path flags with
  | mk fs1 r =>
    rw [ho] at this
    cases r with
    | none => exact this.1
    | some fd => exact runOps_inv script fs1 fd this.1 (this.2 fd rfl)

theorem fileCopy_inv (fs : Fs) (hinv : Inv fs) (src dst : Bytes) (fie : Bool) (fault : SfFault) :
    Inv (fileCopy fs src dst fie fault).1 := by
  unfold fileCopy
  have h0 := sysOpen_inv fs hinv src { acc := .rdonly }
  cases ho : sysOpen fs src { acc := .rdonly } with
  | mk fs0 r =>
    rw [ho] at h0
    cases r with
    | error _ => exact h0
    | ok fd =>
      simp only
      by_cases hd : fd.isDir = true
      · rw [if_pos hd]; exact h0
      · rw [if_neg hd]
        by_cases hsame : sameFile fs0 fd dst = true
        · rw [if_pos hsame]; exact h0
        rw [if_neg hsame]
        have h1 := sysOpen_inv fs0 h0 dst { acc := .wronly, creat := true, excl := fie, trunc := true }
        cases ho2 : sysOpen fs0 dst { acc := .wronly, creat := true, excl := fie, trunc := true } with
        | mk fs1 r2 =>
          rw [ho2] at h1
          cases r2 with
          | error _ => exact h1
          | ok dest =>
            simp only
            unfold copyData
            simp only
            have h2 := sysSendfile_inv fs1 h1 dest fd (sysOpen_fdOk fs0 fs1 dst _ dest ho2)
              (copyCount fault (fileData fs0 fd.path).length)
            split
            · exact sysUnlink_inv _ h2 dst
            · exact h2


/-! ### rename: moving a subtree keeps the world well-formed -/

theorem renKey_fst_moved (pf pt : CPath) (x : CPath × Entry) (h : pf <+: x.1) :
    (renKey pf pt x) = (pt ++ x.1.drop pf.length, x.2) := by
  unfold renKey; rw [if_pos (List.isPrefixOf_iff_prefix.mpr h)]

theorem renKey_not_moved (pf pt : CPath) (x : CPath × Entry) (h : ¬ pf <+: x.1) : renKey pf pt x = x := by
  unfold renKey; rw [if_neg (fun hh => h (List.isPrefixOf_iff_prefix.mp hh))]

theorem eq_append_drop (pf k : CPath) (h : pf <+: k) : k = pf ++ k.drop pf.length :=
  (List.prefix_iff_eq_append.mp h).symm

theorem moveTree_wf (fs : Fs) (hwf : WF fs) (pf pt : CPath) (ef : Entry)
    (hpf : fs.get pf = some ef) (hpfne : pf ≠ []) (hnp : ¬ pf <+: pt)
    (hleafpt : Leaf fs pt) (hptne : pt ≠ []) (hparent : Present fs pt.dropLast) (hname : ∀ c ∈ pt, KName c) :
    WF (fs.moveTree pf pt) := by
  have hX : WF (fs.del pt) := del_wf fs pt hwf hleafpt
  -- facts about X = fs.del pt
  have hx1 : ∀ x ∈ (fs.del pt).ents, ¬ pt <+: x.1 := by
    intro x hx hp
    have hx' := del_sub fs pt x hx
    simp only [Fs.del, List.mem_filter, ne_eq, decide_eq_true_eq] at hx
    exact hleafpt x hx' ⟨hp, hx.2⟩
  have hchain : ∀ k, 0 < k → k < pt.length → (pt.take k, Entry.dir) ∈ (fs.del pt).ents := by
    intro k hk1 hk2
    have hk3 : k ≤ pt.dropLast.length := by simp; omega
    have hpre := present_prefix fs hwf pt.dropLast hparent k hk3
    have htk : pt.dropLast.take k = pt.take k := by
      rw [List.dropLast_eq_take, List.take_take]; congr 1; omega
    rw [htk] at hpre
    have hne : pt.take k ≠ [] := take_ne_nil pt k hk1 hptne
    rcases hpre with h0 | hg
    · exact absurd h0 hne
    · have hm := get_some_mem fs _ .dir hne hg
      simp only [Fs.del, List.mem_filter, ne_eq, decide_eq_true_eq]
      refine ⟨hm, ?_⟩
      intro h
      have := congrArg List.length h
      simp [List.length_take] at this
      omega
  have hpfmem : (pf, ef) ∈ (fs.del pt).ents := by
    have hm := get_some_mem fs pf ef hpfne hpf
    simp only [Fs.del, List.mem_filter, ne_eq, decide_eq_true_eq]
    exact ⟨hm, fun h => hnp (by rw [h]; exact List.prefix_refl _)⟩
  rw [show (fs.moveTree pf pt) = ⟨(fs.del pt).ents.map (renKey pf pt)⟩ from rfl]
  refine ⟨?_, ?_, ?_⟩
  · -- names
    intro y hy c hc
    obtain ⟨x, hx, rfl⟩ := List.mem_map.mp hy
    by_cases hm : pf <+: x.1
    · rw [renKey_fst_moved pf pt x hm] at hc
      simp only [List.mem_append] at hc
      rcases hc with hc | hc
      · exact hname c hc
      · exact hX.names x hx c (List.mem_of_mem_drop hc)
    · rw [renKey_not_moved pf pt x hm] at hc
      exact hX.names x hx c hc
  · -- no key twice
    unfold NoDupKeys
    simp only [List.map_map]
    have hn := hX.nodup
    unfold NoDupKeys List.Nodup at hn
    rw [List.pairwise_map] at hn
    unfold List.Nodup
    rw [List.pairwise_map]
    apply List.Pairwise.imp_of_mem _ hn
    intro x y hx hy hxy heq
    apply hxy
    simp only [Function.comp] at heq
    by_cases hmx : pf <+: x.1
    · by_cases hmy : pf <+: y.1
      · rw [renKey_fst_moved pf pt x hmx, renKey_fst_moved pf pt y hmy] at heq
        simp only at heq
        have := List.append_cancel_left heq
        rw [eq_append_drop pf x.1 hmx, eq_append_drop pf y.1 hmy, this]
      · rw [renKey_fst_moved pf pt x hmx, renKey_not_moved pf pt y hmy] at heq
        simp only at heq
        exact absurd ⟨_, heq⟩ (hx1 y hy)
    · by_cases hmy : pf <+: y.1
      · rw [renKey_not_moved pf pt x hmx, renKey_fst_moved pf pt y hmy] at heq
        simp only at heq
        exact absurd ⟨_, heq.symm⟩ (hx1 x hx)
      · rw [renKey_not_moved pf pt x hmx, renKey_not_moved pf pt y hmy] at heq
        exact heq
  · -- parents
    intro y hy k hk2 hk1
    obtain ⟨x, hx, rfl⟩ := List.mem_map.mp hy
    by_cases hm : pf <+: x.1
    · rw [renKey_fst_moved pf pt x hm] at hk2 ⊢
      simp only at hk2 ⊢
      have hxeq := eq_append_drop pf x.1 hm
      generalize hr : x.1.drop pf.length = r at hk2 hxeq ⊢
      by_cases hlt : k < pt.length
      · -- a proper prefix of pt: the chain of pt's parents, not moved
        have hmem := hchain k hk1 hlt
        refine ⟨(pt.take k, .dir), ?_, ?_, rfl⟩
        · apply List.mem_map.mpr
          refine ⟨(pt.take k, .dir), hmem, ?_⟩
          apply renKey_not_moved
          intro hp
          exact hnp (List.IsPrefix.trans hp (List.take_prefix k pt))
        · simp only
          rw [List.take_append_of_le_length (by omega)]
      · -- pt itself or below: the image of the corresponding entry below pf
        have hj : ∃ j, k = pt.length + j := ⟨k - pt.length, by omega⟩
        obtain ⟨j, rfl⟩ := hj
        simp only [List.length_append] at hk2
        have hjr : j < r.length := by omega
        -- witness in X: the entry with key pf ++ r.take j (pf itself when j = 0)
        have hw : ∃ w ∈ (fs.del pt).ents, w.1 = pf ++ r.take j ∧ w.2 = .dir := by
          have hxl : pf.length + j < x.1.length := by rw [hxeq]; simp; omega
          have hpos : 0 < pf.length + j := by
            have := List.length_pos_iff.mpr hpfne; omega
          obtain ⟨w, hw, hw1, hw2⟩ := hX.parents x hx (pf.length + j) hxl hpos
          refine ⟨w, hw, ?_, hw2⟩
          rw [hw1, hxeq, List.take_length_add_append]
        obtain ⟨w, hw, hw1, hw2⟩ := hw
        refine ⟨renKey pf pt w, List.mem_map.mpr ⟨w, hw, rfl⟩, ?_, ?_⟩
        · have hmw : pf <+: w.1 := by rw [hw1]; exact List.prefix_append _ _
          rw [renKey_fst_moved pf pt w hmw]
          simp only
          rw [hw1, List.drop_left, List.take_length_add_append]
        · have hmw : pf <+: w.1 := by rw [hw1]; exact List.prefix_append _ _
          rw [renKey_fst_moved pf pt w hmw]; exact hw2
    · rw [renKey_not_moved pf pt x hm] at hk2 ⊢
      obtain ⟨w, hw, hw1, hw2⟩ := hX.parents x hx k hk2 hk1
      refine ⟨w, List.mem_map.mpr ⟨w, hw, ?_⟩, hw1, hw2⟩
      apply renKey_not_moved
      intro hp
      apply hm
      rw [hw1] at hp
      exact List.IsPrefix.trans hp (List.take_prefix k x.1)


theorem leaf_of_none (fs : Fs) (hwf : WF fs) (p : CPath) (hp : p ≠ []) (hn : fs.get p = none) : Leaf fs p := by
  intro x hx hh
  obtain ⟨⟨t, ht⟩, hne⟩ := hh
  have hlen : p.length < x.1.length := by
    have := congrArg List.length ht
    simp at this
    cases t with
    | nil => simp at ht; exact absurd ht.symm hne
    | cons a b => simp at this; omega
  obtain ⟨y, hy, hy1, hy2⟩ := hwf.parents x hx p.length hlen (List.length_pos_iff.mpr hp)
  have hyp : y.1 = p := by rw [hy1, ← ht]; simp
  have := get_of_mem fs hwf.nodup p y.2 hp (by rw [← hyp]; exact hy)
  rw [hn] at this; simp at this

theorem parent_present (fs : Fs) (hwf : WF fs) (p : CPath) (e : Entry) (hp : p ≠ []) (hg : fs.get p = some e) :
    Present fs p.dropLast := by
  by_cases h1 : p.length = 1
  · left
    have : p.dropLast.length = 0 := by simp [h1]
    exact List.length_eq_zero_iff.mp this
  · right
    have hm := get_some_mem fs p e hp hg
    have hl : 0 < p.length := List.length_pos_iff.mpr hp
    obtain ⟨y, hy, hy1, hy2⟩ := hwf.parents (p, e) hm (p.length - 1) (by simp; omega) (by omega)
    simp only at hy1
    rw [List.dropLast_eq_take]
    have hne : p.take (p.length - 1) ≠ [] := take_ne_nil p _ (by omega) hp
    exact get_of_mem fs hwf.nodup _ .dir hne (by rw [← hy1, ← hy2]; exact hy)

theorem moveTree_inv (fs : Fs) (hinv : Inv fs) (pf pt : CPath) (ef : Entry)
    (hpf : fs.get pf = some ef) (hpfne : pf ≠ []) (hcw : ¬ pf <+: cwd) (hnp : ¬ pf <+: pt)
    (hleafpt : Leaf fs pt) (hptne : pt ≠ []) (hparent : Present fs pt.dropLast) (hname : ∀ c ∈ pt, KName c)
    (hcwd : pt = cwd → ef = .dir) : Inv (fs.moveTree pf pt) := by
  have hwfY := moveTree_wf fs hinv.1 pf pt ef hpf hpfne hnp hleafpt hptne hparent hname
  refine ⟨hwfY, ?_⟩
  apply get_of_mem _ hwfY.nodup cwd .dir (by decide)
  rw [show (fs.moveTree pf pt).ents = (fs.del pt).ents.map (renKey pf pt) from rfl]
  apply List.mem_map.mpr
  by_cases hpc : pt = cwd
  · have hed := hcwd hpc
    subst hed
    refine ⟨(pf, .dir), ?_, ?_⟩
    · simp only [Fs.del, List.mem_filter, ne_eq, decide_eq_true_eq]
      exact ⟨get_some_mem fs pf _ hpfne hpf, fun h => hnp (by rw [h]; exact List.prefix_refl _)⟩
    · rw [renKey_fst_moved pf pt (pf, .dir) (List.prefix_refl _)]
      simp [hpc]
  · refine ⟨(cwd, .dir), ?_, renKey_not_moved pf pt _ hcw⟩
    simp only [Fs.del, List.mem_filter, ne_eq, decide_eq_true_eq]
    exact ⟨get_some_mem fs cwd _ (by decide) hinv.2, fun h => hpc h.symm⟩

theorem sysRename_inv (fs : Fs) (hinv : Inv fs) (frm to : Bytes) : Inv (sysRename fs frm to).1 := by
  unfold sysRename
  have hokf := resolve_resOk fs hinv frm false
  cases hrf : resolve fs frm false with
  | err _ => exact hinv
  | missing _ _ => exact hinv
  | found pf ef =>
    rw [hrf] at hokf
    simp only
    by_cases hcwb : pf.isPrefixOf cwd = true
    · rw [if_pos hcwb]; exact hinv
    · rw [if_neg hcwb]
      have hcw : ¬ pf <+: cwd := fun h => hcwb (List.isPrefixOf_iff_prefix.mpr h)
      have hpfne : pf ≠ [] := by intro h; apply hcw; rw [h]; exact List.nil_prefix
      have hpf : fs.get pf = some ef := by
        rcases hokf with ⟨h, _⟩ | h
        · exact absurd h hpfne
        · exact h
      have hokt := resolve_resOk fs hinv to false
      cases hrt : resolve fs to false with
      | err _ => exact hinv
      | missing pa n =>
        rw [hrt] at hokt
        simp only
        by_cases hc : ef = Entry.dir ∧ pf.isPrefixOf (pa ++ [n]) = true
        · rw [if_pos hc]; exact hinv
        · rw [if_neg hc]
          have hnone := resolve_missing_get fs to false pa n hrt
          have hPne := append_singleton_ne_nil pa n
          apply moveTree_inv fs hinv pf (pa ++ [n]) ef hpf hpfne hcw
          · intro hp
            by_cases hed : ef = .dir
            · exact hc ⟨hed, List.isPrefixOf_iff_prefix.mpr hp⟩
            · -- a non-directory cannot be a prefix of a path below a directory
              have hne : pf ≠ pa ++ [n] := by intro h; rw [h, hnone] at hpf; simp at hpf
              obtain ⟨t, ht⟩ := hp
              have hpa : pf <+: pa := by
                cases ht' : t.reverse with
                | nil => simp at ht'; subst ht'; simp at ht; exact absurd ht hne
                | cons a b =>
                  have : t = b.reverse ++ [a] := by
                    have := congrArg List.reverse ht'; simpa using this
                  rw [this, ← List.append_assoc] at ht
                  have := List.append_inj_left' ht rfl
                  exact ⟨b.reverse, this⟩
              have hpre := present_prefix fs hinv.1 pa hokt.1 pf.length (List.IsPrefix.length_le hpa)
              rw [← List.prefix_iff_eq_take.mp hpa] at hpre
              rcases hpre with h0 | hg
              · exact hpfne h0
              · rw [hpf] at hg; exact hed (Option.some.inj hg)
          · exact leaf_of_none fs hinv.1 _ hPne hnone
          · exact hPne
          · rw [List.dropLast_concat]; exact hokt.1
          · intro c hc'
            simp only [List.mem_append, List.mem_singleton] at hc'
            rcases hc' with hc' | rfl
            · exact present_names fs hinv.1 pa hokt.1 c hc'
            · exact hokt.2
          · intro hpc; rw [hpc, hinv.2] at hnone; simp at hnone
      | found pt et =>
        rw [hrt] at hokt
        simp only
        by_cases h1 : pt = pf
        · rw [if_pos h1]; exact hinv
        · rw [if_neg h1]
          by_cases h2 : ef = Entry.dir
          · rw [if_pos h2]
            by_cases h3 : et ≠ Entry.dir
            · rw [if_pos h3]; exact hinv
            · rw [if_neg h3]
              by_cases h4 : pf.isPrefixOf pt = true
              · rw [if_pos h4]; exact hinv
              · rw [if_neg h4]
                by_cases h5 : fs.children pt ≠ [] ∨ pt = []
                · rw [if_pos h5]; exact hinv
                · rw [if_neg h5]
                  have hptne : pt ≠ [] := fun h => h5 (Or.inr h)
                  have hgt : fs.get pt = some et := by
                    rcases hokt with ⟨h, _⟩ | h
                    · exact absurd h hptne
                    · exact h
                  apply moveTree_inv fs hinv pf pt ef hpf hpfne hcw
                  · exact fun h => h4 (List.isPrefixOf_iff_prefix.mpr h)
                  · exact leaf_of_no_children fs hinv.1 pt (by
                      cases hch : fs.children pt with
                      | nil => rfl
                      | cons a b => exact absurd (Or.inl (by rw [hch]; simp)) h5)
                  · exact hptne
                  · exact parent_present fs hinv.1 pt et hptne hgt
                  · exact hinv.1.names (pt, et) (get_some_mem fs pt et hptne hgt)
                  · intro _; exact h2
          · rw [if_neg h2]
            by_cases h3 : et = Entry.dir
            · rw [if_pos h3]; exact hinv
            · rw [if_neg h3]
              have hptne : pt ≠ [] := by
                intro h
                rcases hokt with ⟨_, hd⟩ | hg
                · exact h3 hd
                · subst h; simp [Fs.get] at hg; exact h3 hg.symm
              have hgt : fs.get pt = some et := by
                rcases hokt with ⟨h, _⟩ | h
                · exact absurd h hptne
                · exact h
              have hleafpf := leaf_of_nondir fs hinv.1 pf ef hpfne hpf h2
              apply moveTree_inv fs hinv pf pt ef hpf hpfne hcw
              · intro hp
                exact hleafpf (pt, et) (get_some_mem fs pt et hptne hgt) ⟨hp, h1⟩
              · exact leaf_of_nondir fs hinv.1 pt et hptne hgt h3
              · exact hptne
              · exact parent_present fs hinv.1 pt et hptne hgt
              · exact hinv.1.names (pt, et) (get_some_mem fs pt et hptne hgt)
              · intro hpc; rw [hpc, hinv.2] at hgt; exact absurd (Option.some.inj hgt).symm h3

theorem fileRename_inv (fs : Fs) (hinv : Inv fs) (frm to : Bytes) (fie : Bool) : Inv (fileRename fs frm to fie).1 := by
  unfold fileRename
  cases fie with
  | false => simp only [Bool.false_eq_true, if_false]; exact sysRename_inv fs hinv frm to
  | true =>
    simp only [if_true]
    by_cases hs : isOk (sysStat fs frm false) = false
    · rw [if_pos hs]; exact hinv
    · rw [if_neg hs]
      have h1 := sysOpen_inv fs hinv to { acc := .rdonly, creat := true, excl := true }
      cases ho : sysOpen fs to { acc := .rdonly, creat := true, excl := true } with
      | mk fs1 r =>
        rw [ho] at h1
        cases r with
        | error _ => exact h1
        | ok fd =>
          simp only
          have h2 := sysRename_inv fs1 h1 frm to
          cases hr : sysRename fs1 frm to with
          | mk fs2 r2 =>
            rw [hr] at h2
            cases r2 with
            | error _ => exact sysUnlink_inv fs2 h2 to
            | ok _ => exact h2

/-- every operation keeps the invariant -/
theorem fsApply_inv (fs : Fs) (hinv : Inv fs) (op : FsOp) : Inv (fsApply fs op) := by
  cases op with
  | mkdir p => exact sysMkdir_inv fs hinv p
  | mkfile p d => exact mkfile_inv fs hinv p d
  | symlink t p => exact sysSymlink_inv fs hinv t p
  | create p fault =>
    simp only [fsApply, dirCreateTop]
    exact dirCreate_inv _ fs hinv p fault 0
  | rmdir p r => exact dirUnlink_inv _ r fs p hinv
  | purge p r => exact dirPurge_inv fs hinv p r
  | unlink p => exact fileUnlink_inv fs hinv p
  | rename a b f => exact fileRename_inv fs hinv a b f
  | copy a b f ft => exact fileCopy_inv fs hinv a b f ft
  | file p fl sc => exact fileSession_inv fs hinv p fl sc

/-- … hence every history -/
theorem fsRun_inv : ∀ (ops : List FsOp) (fs : Fs), Inv fs → Inv (fsRun fs ops) := by
  intro ops
  induction ops with
  | nil => intro fs h; exact h
  | cons op rest ih => intro fs h; exact ih _ (fsApply_inv fs h op)

end Nstd.Path
