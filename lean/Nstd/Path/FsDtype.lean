import Nstd.Path.FsMore
import Nstd.Path.FsUnlinkGen
/-
  Directory::unlink on a file system that reports DT_UNKNOWN for arbitrary entries (`unk`; repaired code: the
  type then comes from lstat): whatever the oracle says, the call only removes entries, only inside the directory
  the path resolves to, and keeps the world well-formed.  With a file system that always reports the type it IS
  the Directory::unlink of Nstd/Path/FsLib.lean.
-/
namespace Nstd.Path

/-- whatever branch the loop takes for an entry, it calls `rec` or File::unlink on `prefix ++ name`: a predicate on
    worlds kept by both is kept by the loop -/
theorem unlinkEntriesU_keeps (unk : Bytes → Bool) (rec : Fs → Bytes → Fs × Bool) (pre_ : Bytes) (P : Fs → Prop) :
    ∀ (ents : List (Name × Entry)),
    (∀ fs x, x ∈ ents → P fs → P (rec fs (pre_ ++ x.1)).1) →
    (∀ fs x, x ∈ ents → P fs → P (fileUnlink fs (pre_ ++ x.1)).1) →
    ∀ fs, P fs → P (unlinkEntriesU unk rec pre_ fs ents).1 := by
  intro ents
  induction ents with
  | nil => intro _ _ fs h; exact h
  | cons x rest ih =>
    intro hrec hfile fs hp
    obtain ⟨n, e⟩ := x
    have ih' := ih (fun fs y hy => hrec fs y (List.mem_cons_of_mem _ hy))
      (fun fs y hy => hfile fs y (List.mem_cons_of_mem _ hy))
    simp only [unlinkEntriesU]
    by_cases hb : entryIsDirU fs (pre_ ++ n) e (unk (pre_ ++ n)) = true
    · rw [if_pos hb]
      have h1 := hrec fs (n, e) List.mem_cons_self hp
      cases hr : rec fs (pre_ ++ n) with
      | mk fs' ok =>
        rw [hr] at h1
        cases ok with
        | false => exact h1
        | true => exact ih' fs' h1
    · rw [if_neg hb]
      have h1 := hfile fs (n, e) List.mem_cons_self hp
      cases hr : fileUnlink fs (pre_ ++ n) with
      | mk fs' ok =>
        rw [hr] at h1
        cases ok with
        | false => exact h1
        | true => exact ih' fs' h1

/-- one shape for the three facts below: a predicate kept by rmdir, File::unlink (on any path) is kept by
    Directory::unlink under any `d_type` oracle -/
theorem dirUnlinkU_keeps (unk : Bytes → Bool) (P : Fs → Prop)
    (hrm : ∀ fs p, P fs → P (sysRmdir fs p).1) (hfile : ∀ fs p, P fs → P (fileUnlink fs p).1) :
    ∀ (fuel : Nat) (recursive : Bool) (fs : Fs) (dir : Bytes), P fs → P (dirUnlinkU unk fuel recursive fs dir).1 := by
  intro fuel
  induction fuel with
  | zero => intro _ fs _ h; exact h
  | succ fuel ih =>
    intro recursive fs dir hp
    simp only [dirUnlinkU]
    have h1 := hrm fs dir hp
    cases hr : sysRmdir fs dir with
    | mk fs' r =>
      rw [hr] at h1
      cases r with
      | ok _ => exact h1
      | error e =>
        simp only
        by_cases hc : recursive = false ∨ e ≠ .enotempty
        · rw [if_pos hc]; exact h1
        · rw [if_neg hc]
          cases hd : sysReaddir fs' dir with
          | error _ => exact h1
          | ok pe =>
            obtain ⟨p, ents⟩ := pe
            simp only
            have h2 := unlinkEntriesU_keeps unk (dirUnlinkU unk fuel true) (dir ++ [47]) P ents
              (fun a x _ ha => ih true a _ ha) (fun a x _ ha => hfile a _ ha) fs' h1
            cases hu : unlinkEntriesU unk (dirUnlinkU unk fuel true) (dir ++ [47]) fs' ents with
            | mk fs'' ok =>
              rw [hu] at h2
              cases ok with
              | false => exact h2
              | true => exact hrm fs'' dir h2

theorem dirUnlinkU_inv (unk : Bytes → Bool) (fuel : Nat) (recursive : Bool) (fs : Fs) (dir : Bytes) (h : Inv fs) :
    Inv (dirUnlinkU unk fuel recursive fs dir).1 :=
  dirUnlinkU_keeps unk Inv (fun a p ha => sysRmdir_inv a ha p) (fun a p ha => fileUnlink_inv a ha p) fuel recursive fs dir h

theorem dirUnlinkU_shrinks (unk : Bytes → Bool) (fuel : Nat) (recursive : Bool) (fs : Fs) (dir : Bytes) :
    Shrinks fs (dirUnlinkU unk fuel recursive fs dir).1 :=
  dirUnlinkU_keeps unk (fun x => Shrinks fs x) (fun a p ha => ha.trans (sysRmdir_shrinks a p))
    (fun a p ha => ha.trans (by unfold fileUnlink; exact sysUnlink_shrinks a p)) fuel recursive fs dir (Shrinks.refl fs)

/-- Directory::unlink under ANY `d_type` oracle, on ANY path string: every entry that changes lies in the directory
    the path resolves to (last component not followed) -/
theorem dirUnlinkU_loc (unk : Bytes → Bool) : ∀ (fuel : Nat) (recursive : Bool) (fs : Fs) (dir : Bytes) (q : CPath),
    NamesOk fs → (dirUnlinkU unk fuel recursive fs dir).1.get q ≠ fs.get q →
    ∃ d, resolve fs dir false = .found d .dir ∧ d <+: q := by
  intro fuel
  induction fuel with
  | zero => intro _ fs _ q _ h; exact absurd rfl h
  | succ fuel ih =>
    intro recursive fs dir q hok hq
    simp only [dirUnlinkU] at hq
    cases hr : sysRmdir fs dir with
    | mk fs' r =>
      rw [hr] at hq
      cases r with
      | ok u =>
        simp only at hq
        have := sysRmdir_loc fs dir q (by rw [hr]; exact hq)
        exact ⟨q, this, List.prefix_refl _⟩
      | error e =>
        obtain ⟨hfs', hen⟩ := sysRmdir_err fs fs' dir e hr
        subst hfs'
        simp only at hq
        by_cases hc : recursive = false ∨ e ≠ .enotempty
        · rw [if_pos hc] at hq; exact absurd rfl hq
        · rw [if_neg hc] at hq
          have he : e = .enotempty := by
            cases e <;> simp at hc ⊢
          cases hd : sysReaddir fs' dir with
          | error _ => rw [hd] at hq; exact absurd rfl hq
          | ok pe =>
            obtain ⟨p, ents⟩ := pe
            rw [hd] at hq
            simp only at hq
            have hrd : resolve fs' dir true = .found p .dir ∧ ents = fs'.children p := by
              unfold sysReaddir at hd
              cases hrr : resolve fs' dir true with
              | found p0 e0 =>
                rw [hrr] at hd
                cases e0 with
                | dir => simp at hd; obtain ⟨h1, h2⟩ := hd; subst h1; exact ⟨rfl, h2.symm⟩
                | file _ => simp at hd
                | link _ => simp at hd
              | missing _ _ => rw [hrr] at hd; simp at hd
              | err _ => rw [hrr] at hd; simp at hd
            have hdirne : dir ≠ [] := by
              intro h0; subst h0; simp [resolve] at hrd
            have hnof : resolve fs' dir false = .found p .dir := by
              rcases hen he with hdd | ⟨d, hdres⟩
              · rw [resolve_dotdot_modes fs' dir hdd]; exact hrd.1
              · have := resolve_dir_follow fs' dir d hdres
                rw [hrd.1] at this
                simp only [Res.found.injEq, and_true] at this
                rw [this]; exact hdres
            have hentsn : ∀ x ∈ ents, KName x.1 := by rw [hrd.2]; exact children_names fs' hok p
            -- the loop keeps: names are names, only removals, every change below `p`
            let P : Fs → Prop := fun x => NamesOk x ∧ Shrinks fs' x ∧ ∀ q, x.get q ≠ fs'.get q → p <+: q
            have hchild : ∀ (x : Fs), Shrinks fs' x → ∀ (n : Name), KName n → ∀ pp e',
                resolve x (dir ++ [47] ++ n) false = .found pp e' → pp = p ++ [n] := by
              intro x hsx n hn pp e' hres
              have hr0 := resolve_found_mono fs' x hsx.2 _ false pp e' hres
              obtain ⟨d, hd1, hd2⟩ := resolve_child fs' dir n hdirne hn pp e' hr0
              rw [hrd.1] at hd1
              simp only [Res.found.injEq, and_true] at hd1
              rw [hd2, hd1]
            have hstep : ∀ (x y : Fs), P x → Shrinks x y → (∀ q, y.get q ≠ x.get q → p <+: q) → P y := by
              intro x y ⟨hx1, hx2, hx3⟩ hxy hl
              refine ⟨hx1.sub hxy.1, hx2.trans hxy, fun q hq => ?_⟩
              by_cases hcq : y.get q = x.get q
              · exact hx3 q (by rw [← hcq]; exact hq)
              · exact hl q hcq
            have hloop := unlinkEntriesU_keeps unk (dirUnlinkU unk fuel true) (dir ++ [47]) P ents
              (fun a x hx ha => by
                apply hstep a _ ha (dirUnlinkU_shrinks unk fuel true a _)
                intro q hq
                obtain ⟨d, hd1, hd2⟩ := ih true a _ q ha.1 hq
                rw [hchild a ha.2.1 x.1 (hentsn x hx) d .dir hd1] at hd2
                exact List.IsPrefix.trans (List.prefix_append _ _) hd2)
              (fun a x hx ha => by
                apply hstep a _ ha (by unfold fileUnlink; exact sysUnlink_shrinks a _)
                intro q hq
                unfold fileUnlink at hq
                obtain ⟨e', hr'⟩ := sysUnlink_loc a _ q hq
                rw [hchild a ha.2.1 x.1 (hentsn x hx) q e' hr']
                exact List.prefix_append _ _)
              fs' ⟨hok, Shrinks.refl fs', fun q hq => absurd rfl hq⟩
            cases hu : unlinkEntriesU unk (dirUnlinkU unk fuel true) (dir ++ [47]) fs' ents with
            | mk fs2 ok =>
              rw [hu] at hq hloop
              obtain ⟨_, hloops, hloopl⟩ := hloop
              cases ok with
              | false => exact ⟨p, hnof, hloopl q hq⟩
              | true =>
                simp only at hq
                by_cases hc2 : fs2.get q = fs'.get q
                · have hq2 : (sysRmdir fs2 dir).1.get q ≠ fs2.get q := by rw [hc2]; exact hq
                  have hl2 := sysRmdir_loc fs2 dir q hq2
                  have := resolve_found_mono fs' fs2 hloops.2 dir false q .dir hl2
                  rw [hnof] at this
                  simp only [Res.found.injEq, and_true] at this
                  exact ⟨p, hnof, by rw [this]; exact List.prefix_refl _⟩
                · exact ⟨p, hnof, hloopl q hc2⟩

/-! a file system that always reports the type: the Directory::unlink of FsLib.lean -/

theorem unlinkEntriesU_known (rec : Fs → Bytes → Fs × Bool) (pre_ : Bytes) :
    ∀ (ents : List (Name × Entry)) (fs : Fs),
    unlinkEntriesU (fun _ => false) rec pre_ fs ents = unlinkEntries rec pre_ fs ents := by
  intro ents
  induction ents with
  | nil => intro fs; rfl
  | cons x rest ih =>
    intro fs
    obtain ⟨n, e⟩ := x
    cases e with
    | dir =>
      simp only [unlinkEntriesU, unlinkEntries, entryIsDirU, Bool.false_eq_true, if_false, decide_true, if_true]
      cases rec fs (pre_ ++ n) with
      | mk fs' ok => cases ok <;> simp [ih]
    | file d =>
      simp only [unlinkEntriesU, unlinkEntries, entryIsDirU, Bool.false_eq_true, if_false, reduceCtorEq, decide_false]
      cases fileUnlink fs (pre_ ++ n) with
      | mk fs' ok => cases ok <;> simp [ih]
    | link t =>
      simp only [unlinkEntriesU, unlinkEntries, entryIsDirU, Bool.false_eq_true, if_false, reduceCtorEq, decide_false]
      cases fileUnlink fs (pre_ ++ n) with
      | mk fs' ok => cases ok <;> simp [ih]

theorem dirUnlinkU_known : ∀ (fuel : Nat) (recursive : Bool) (fs : Fs) (dir : Bytes),
    dirUnlinkU (fun _ => false) fuel recursive fs dir = dirUnlink fuel recursive fs dir := by
  intro fuel
  induction fuel with
  | zero => intro _ _ _; rfl
  | succ fuel ih =>
    intro recursive fs dir
    have hrec : dirUnlinkU (fun _ => false) fuel true = dirUnlink fuel true := by
      funext a b; exact ih true a b
    simp only [dirUnlinkU, dirUnlink, hrec, unlinkEntriesU_known]
    cases sysRmdir fs dir with
    | mk fs' r =>
      cases r with
      | ok _ => rfl
      | error e =>
        simp only
        by_cases hc : recursive = false ∨ e ≠ .enotempty
        · rw [if_pos hc, if_pos hc]
        · rw [if_neg hc, if_neg hc]
          cases sysReaddir fs' dir with
          | error _ => rfl
          | ok pe =>
            obtain ⟨p, ents⟩ := pe
            simp only
            cases unlinkEntries (dirUnlink fuel true) (dir ++ [47]) fs' ents with
            | mk fs'' ok => cases ok <;> rfl

end Nstd.Path
