import Nstd.Path.ScanSimp
/-
  Property C19, tie by translation: the bodies of the path scanners of the CURRENT src/File.cpp, translated by
  tools/gen_path.py into Nstd/Generated/PathScan.lean, compute the functions of the hand-written model
  (Nstd/Path/Model.lean) that all path theorems are about - for every string and every fuel above a linear bound.
-/
namespace Nstd.Path.Scan
open Nstd.Path Nstd.Path.Cxx Nstd.Generated.PathScan

/-- the translated body of File::getDirectoryName computes the model function -/
theorem getDirectoryName_translated (file : Bytes) (fuel : Nat) (hf : file.length + 1 ≤ fuel) :
    Nstd.Generated.PathScan.getDirectoryName fuel file = some (Nstd.Path.getDirectoryName file) := by
  unfold Nstd.Generated.PathScan.getDirectoryName Nstd.Path.getDirectoryName
  cases h : splitLast isSep file with
  | none =>
    have hb := splitLast_none.mp h
    have e : (0 : Int) + ((file.length : Int) - 1) = (file.length : Int) - 1 := by omega
    simp only [e, gdn_miss fuel file hb [] file.length (Nat.le_refl _) fuel hf]
  | some t =>
    obtain ⟨d, s, b⟩ := t
    obtain ⟨h1, h2, h3⟩ := splitLast_some h
    subst h1
    have e : (0 : Int) + (((d ++ s :: b).length : Int) - 1) = ((d.length + b.length : Nat) : Int) := by
      rw [len_app]; omega
    simp only [e, gdn_hit fuel d s b h2 h3 [] b.length (Nat.le_refl _) fuel (by rw [len_app] at hf; omega)]

/-- the translated body of File::getExtension computes the model function -/
theorem getExtension_translated (file : Bytes) (fuel : Nat) (hf : file.length + 1 ≤ fuel) :
    Nstd.Generated.PathScan.getExtension fuel file = some (Nstd.Path.getExtension file) := by
  unfold Nstd.Path.getExtension afterLastSep
  cases h : splitLast isSep file with
  | none =>
    have hb := splitLast_none.mp h
    simp only
    cases h' : splitLast isDot file with
    | none =>
      have hd := splitLast_none.mp h'
      exact ext_none file (fun y hy => ⟨hd y hy, hb y hy⟩) fuel hf
    | some t =>
      obtain ⟨d', c, e⟩ := t
      obtain ⟨h1, h2, h3⟩ := splitLast_some h'
      subst h1
      exact ext_dot d' c e h2 (fun y hy => ⟨h3 y hy, hb y (by simp [hy])⟩) fuel hf
  | some t =>
    obtain ⟨d, s, b⟩ := t
    obtain ⟨h1, h2, h3⟩ := splitLast_some h
    subst h1
    simp only
    cases h' : splitLast isDot b with
    | none =>
      have hd := splitLast_none.mp h'
      exact ext_sep d s b h2 (fun y hy => ⟨hd y hy, h3 y hy⟩) fuel hf
    | some t =>
      obtain ⟨d', c, e⟩ := t
      obtain ⟨h1, h2', h3'⟩ := splitLast_some h'
      subst h1
      have := ext_dot (d ++ s :: d') c e h2' (fun y hy => ⟨h3' y hy, h3 y (by simp [hy])⟩) fuel (by simpa using hf)
      simpa using this

/-- the translated body of File::getBaseName (loop, `goto removeExtension`, both extension branches) computes the
    model function, for every file name and every extension -/
theorem getBaseName_translated (file ext : Bytes) (fuel : Nat) (hf : file.length + 1 ≤ fuel) :
    Nstd.Generated.PathScan.getBaseName fuel file ext = some (Nstd.Path.getBaseName file ext) := by
  rw [getBaseName_eq_stripExt]
  unfold afterLastSep
  cases h : splitLast isSep file with
  | none => exact base_none file ext (splitLast_none.mp h) fuel hf
  | some t =>
    obtain ⟨d, s, b⟩ := t
    obtain ⟨h1, h2, h3⟩ := splitLast_some h
    subst h1
    exact base_some d s b ext h2 h3 fuel hf

/-- the translated body of File::getStem (call of getBaseName for a given extension; otherwise the scan that notes the
    first dot met from the end and stops at a separator) computes the model function -/
theorem getStem_translated (file ext : Bytes) (fuel : Nat) (hf : file.length + 1 ≤ fuel) :
    Nstd.Generated.PathScan.getStem fuel file ext = some (Nstd.Path.getStem file ext) := by
  by_cases hx : ext = []
  · subst hx
    simp only [Nstd.Path.getStem, ne_eq, not_true_eq_false, if_false]
    unfold afterLastSep
    cases h : splitLast isSep file with
    | none =>
      have hb := splitLast_none.mp h
      simp only
      cases h' : splitLast isDot file with
      | none =>
        have hd := splitLast_none.mp h'
        exact stem_b2 file (fun y hy => ⟨hb y hy, hd y hy⟩) fuel hf
      | some t =>
        obtain ⟨d', c, e⟩ := t
        obtain ⟨h1, h2, h3⟩ := splitLast_some h'
        subst h1
        exact stem_b1 d' c e h2 (fun y hy => hb y (by simp [hy])) (fun y hy => ⟨hb y (by simp [hy]), h3 y hy⟩) fuel hf
    | some t =>
      obtain ⟨d, s, b⟩ := t
      obtain ⟨h1, h2, h3⟩ := splitLast_some h
      subst h1
      simp only
      cases h' : splitLast isDot b with
      | none =>
        have hd := splitLast_none.mp h'
        exact stem_a2 d s b h2 (fun y hy => ⟨h3 y hy, hd y hy⟩) fuel hf
      | some t =>
        obtain ⟨d', c, e⟩ := t
        obtain ⟨h1, h2', h3'⟩ := splitLast_some h'
        subst h1
        exact stem_a1 d s d' c e h2 h2' (fun y hy => h3 y (by simp [hy]))
          (fun y hy => ⟨h3 y (by simp [hy]), h3' y hy⟩) fuel hf
  · have hne : ext.isEmpty = false := by cases ext with | nil => exact absurd rfl hx | cons _ _ => rfl
    unfold Nstd.Generated.PathScan.getStem
    simp only [hne, Bool.not_false, if_true, getBaseName_translated file ext fuel hf, Nstd.Path.getStem, ne_eq, hx,
      not_false_eq_true]

/-- the translated body of File::isAbsolutePath computes the model function (no read outside the buffer: the
    terminator is what `data[1]`/`data[2]` read on short strings) -/
theorem isAbsolutePath_translated (path : Bytes) (fuel : Nat) :
    Nstd.Generated.PathScan.isAbsolutePath fuel path = some (Nstd.Path.isAbsolutePath path) := by
  unfold Nstd.Generated.PathScan.isAbsolutePath Nstd.Path.isAbsolutePath
  match path with
  | [] => simp [cAt, inb, startsWithSlash]
  | [a] => simp [cAt, inb, startsWithSlash, sep_test']
  | [a, b] => simp [cAt, inb, startsWithSlash, sep_test']
  | a :: b :: c :: t =>
    have h3 : inb (a :: b :: c :: t) (0 + 2) = true := by simp [inb]; omega
    have h2 : inb (a :: b :: c :: t) (0 + 1) = true := by simp [inb]; omega
    have h1 : inb (a :: b :: c :: t) 0 = true := by simp [inb]; omega
    simp only [h1, h2, h3]
    simp [cAt, startsWithSlash, sep_test']
    have h4 : decide ((2 : Int) < (t.length : Int) + 1 + 1 + 1) = true := by apply decide_eq_true; omega
    have h5 : decide (b = 58) = (b == 58) := by rw [Bool.eq_iff_iff]; simp
    rw [h4, h5]
    simp

/-- the translated body of File::simplifyPath (the component loop with its two skipping loops, the look-back loop of the
    `..` branch with `goto cont` / `break`, the two appends, the final root repair) computes the model function: the fold of
    `sstep` over `chunks` — for every string and every fuel ≥ length + 1 -/
theorem simplifyPath_translated (path : Bytes) (fuel : Nat) (hf : path.length + 1 ≤ fuel) :
    Nstd.Generated.PathScan.simplifyPath fuel path = some (Nstd.Path.simplifyPath path) := by
  unfold Nstd.Generated.PathScan.simplifyPath Nstd.Path.simplifyPath
  have hab : (decide (cAt path 0 = 47) || decide (cAt path 0 = 92)) = startsWithSlash path := by
    rw [sep_test']
    cases path with
    | nil => simp [cAt, startsWithSlash, isSep]
    | cons c t => simp [cAt, startsWithSlash]
  have hin : inb path 0 = true := by simp [inb]
  obtain ⟨e', ch', cl', d2', p', s', h⟩ := simp_loop1 fuel path (startsWithSlash path) hf path.length path (Nat.le_refl _)
    [] [] rfl (by simp) 0 0 0 0 0 0 [] fuel hf
  simp only [List.length_nil, Int.natCast_zero] at h
  simp only [hin, hab, Int.zero_add]
  bool_norm
  rw [h]
  generalize List.foldl (sstep (startsWithSlash path)) [] (chunks path) = Rf
  generalize startsWithSlash path = ab
  cases Rf <;> cases ab <;> simp

end Nstd.Path.Scan
