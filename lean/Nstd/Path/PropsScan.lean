import Nstd.Path.ScanBack
/-
  Property C19, tie by translation: the bodies of the path scanners of the CURRENT src/File.cpp, translated by
  tools/gen_path.py into Nstd/Generated/PathScan.lean, compute the functions of the hand-written model
  (Nstd/Path/Model.lean) that all path theorems are about - for every string and every fuel above a linear bound.
-/
namespace Nstd.Path.Scan
open Nstd.Path Nstd.Path.Cxx Nstd.Generated.PathScan

/-- the translated body of File::getDirectoryName computes the model function -/
theorem getDirectoryName_translated (file : Bytes) (fuel : Nat) (hf : file.length + 1 ≤ fuel) :
    Nstd.Generated.PathScan.getDirectoryName fuel file = some (Nstd.Path.getDirectoryName file) := by
  unfold Nstd.Generated.PathScan.getDirectoryName Nstd.Path.getDirectoryName
  cases h : splitLast isSep file with
  | none =>
    have hb := splitLast_none.mp h
    have e : (0 : Int) + ((file.length : Int) - 1) = (file.length : Int) - 1 := by omega
    simp only [e, gdn_miss fuel file hb [] file.length (Nat.le_refl _) fuel hf]
  | some t =>
    obtain ⟨d, s, b⟩ := t
    obtain ⟨h1, h2, h3⟩ := splitLast_some h
    subst h1
    have e : (0 : Int) + (((d ++ s :: b).length : Int) - 1) = ((d.length + b.length : Nat) : Int) := by
      rw [len_app]; omega
    simp only [e, gdn_hit fuel d s b h2 h3 [] b.length (Nat.le_refl _) fuel (by rw [len_app] at hf; omega)]

/-- the translated body of File::getExtension computes the model function -/
theorem getExtension_translated (file : Bytes) (fuel : Nat) (hf : file.length + 1 ≤ fuel) :
    Nstd.Generated.PathScan.getExtension fuel file = some (Nstd.Path.getExtension file) := by
  unfold Nstd.Path.getExtension afterLastSep
  cases h : splitLast isSep file with
  | none =>
    have hb := splitLast_none.mp h
    simp only
    cases h' : splitLast isDot file with
    | none =>
      have hd := splitLast_none.mp h'
      exact ext_none file (fun y hy => ⟨hd y hy, hb y hy⟩) fuel hf
    | some t =>
      obtain ⟨d', c, e⟩ := t
      obtain ⟨h1, h2, h3⟩ := splitLast_some h'
      subst h1
      exact ext_dot d' c e h2 (fun y hy => ⟨h3 y hy, hb y (by simp [hy])⟩) fuel hf
  | some t =>
    obtain ⟨d, s, b⟩ := t
    obtain ⟨h1, h2, h3⟩ := splitLast_some h
    subst h1
    simp only
    cases h' : splitLast isDot b with
    | none =>
      have hd := splitLast_none.mp h'
      exact ext_sep d s b h2 (fun y hy => ⟨hd y hy, h3 y hy⟩) fuel hf
    | some t =>
      obtain ⟨d', c, e⟩ := t
      obtain ⟨h1, h2', h3'⟩ := splitLast_some h'
      subst h1
      have := ext_dot (d ++ s :: d') c e h2' (fun y hy => ⟨h3' y hy, h3 y (by simp [hy])⟩) fuel (by simpa using hf)
      simpa using this

end Nstd.Path.Scan
