import Nstd.Path.FsDtype
/-
  Directory::unlink with ANY `d_type` reporting (repaired code: DT_UNKNOWN → lstat) on a plain path of a well-formed
  world IS the Directory::unlink of FsLib.lean: lstat of `dir/name` finds exactly the entry readdir listed, so the loop
  takes the same branch for every entry.  Hence all exact-removal theorems hold for every oracle.
-/
namespace Nstd.Path

theorem entryIsDirU_plain (fs : Fs) (path : Bytes) (c : CPath) (e : Entry) (u : Bool)
    (hpp : PlainParent fs path c) (hg : fs.get c = some e) : entryIsDirU fs path e u = decide (e = .dir) := by
  unfold entryIsDirU
  cases u with
  | false => simp
  | true =>
    simp only [if_true, sysStat]
    rw [resolve_plainParent fs path c hpp, hg]
    cases e <;> simp

theorem unlinkEntriesU_eq (unk : Bytes → Bool) (recU rec : Fs → Bytes → Fs × Bool) (dir : Bytes) (d : CPath)
    (hframe : ∀ fs path d, NamesOk fs → PlainParent fs path d → Frame d fs (rec fs path).1)
    (hwfr : ∀ fs p, WF fs → WF (rec fs p).1)
    (heq : ∀ fs path c, WF fs → PlainParent fs path c → recU fs path = rec fs path) :
    ∀ (ents : List (Name × Entry)) (fs : Fs), WF fs → PlainParent fs dir d → fs.get d = some .dir →
      (∀ x ∈ ents, KName x.1) → List.Pairwise (fun a b : Name × Entry => a.1 ≠ b.1) ents →
      (∀ x ∈ ents, fs.get (d ++ [x.1]) = some x.2) →
      unlinkEntriesU unk recU (dir ++ [47]) fs ents = unlinkEntries rec (dir ++ [47]) fs ents := by
  intro ents
  induction ents with
  | nil => intro fs _ _ _ _ _ _; rfl
  | cons x rest ih =>
    intro fs hwf hpp hg hnames hpw hpres
    obtain ⟨n, e⟩ := x
    have hn : KName n := hnames (n, e) (List.mem_cons_self)
    have hcp := plainParent_child fs dir d n hpp hg hn
    have hge : fs.get (d ++ [n]) = some e := hpres (n, e) (List.mem_cons_self)
    rw [List.pairwise_cons] at hpw
    have hdec := entryIsDirU_plain fs (dir ++ [47] ++ n) (d ++ [n]) e (unk (dir ++ [47] ++ n)) hcp hge
    have step : ∀ fs1 : Fs, Frame (d ++ [n]) fs fs1 → WF fs1 →
        unlinkEntriesU unk recU (dir ++ [47]) fs1 rest = unlinkEntries rec (dir ++ [47]) fs1 rest := by
      intro fs1 hf hwf1
      have hag : ∀ q, NotInside d q → fs1.get q = fs.get q := fun q hq => hf.out q (not_prefix_child d q n hq)
      have hnd : NotInside d d := fun hh => hh.2 rfl
      have hpp1 := plainParent_transfer fs fs1 dir d hag hpp
      have hother : ∀ y ∈ rest, fs1.get (d ++ [y.1]) = fs.get (d ++ [y.1]) := by
        intro y hy
        apply hf.out
        intro hpre
        have hne := hpw.1 y hy
        obtain ⟨t, ht⟩ := hpre
        have h1 := congrArg List.length ht
        simp at h1
        have ht0 : t = [] := by cases t with | nil => rfl | cons a b => simp at h1
        subst ht0
        simp at ht
        exact hne ht
      exact ih fs1 hwf1 hpp1 (by rw [hag d hnd]; exact hg)
        (fun y hy => hnames y (List.mem_cons_of_mem _ hy)) hpw.2
        (fun y hy => by rw [hother y hy]; exact hpres y (List.mem_cons_of_mem _ hy))
    have hfilew : WF (fileUnlink fs (dir ++ [47] ++ n)).1 := by unfold fileUnlink; exact sysUnlink_wf fs _ hwf
    have hfilef := fileUnlink_plain_frame fs (dir ++ [47] ++ n) (d ++ [n]) hcp
    simp only [unlinkEntriesU]
    rw [hdec]
    cases e with
    | dir =>
      simp only [decide_true, if_true, unlinkEntries]
      rw [heq fs (dir ++ [47] ++ n) (d ++ [n]) hwf hcp]
      have hf := hframe fs (dir ++ [47] ++ n) (d ++ [n]) hwf.names hcp
      have hw1 := hwfr fs (dir ++ [47] ++ n) hwf
      cases hr : rec fs (dir ++ [47] ++ n) with
      | mk fs1 ok =>
        rw [hr] at hf hw1
        cases ok with
        | false => rfl
        | true => exact step fs1 hf hw1
    | file dd =>
      simp only [reduceCtorEq, decide_false, Bool.false_eq_true, if_false, unlinkEntries]
      cases hr : fileUnlink fs (dir ++ [47] ++ n) with
      | mk fs1 ok =>
        rw [hr] at hfilew hfilef
        cases ok with
        | false => rfl
        | true => exact step fs1 hfilef hfilew
    | link t =>
      simp only [reduceCtorEq, decide_false, Bool.false_eq_true, if_false, unlinkEntries]
      cases hr : fileUnlink fs (dir ++ [47] ++ n) with
      | mk fs1 ok =>
        rw [hr] at hfilew hfilef
        cases ok with
        | false => rfl
        | true => exact step fs1 hfilef hfilew

theorem dirUnlinkU_eq (unk : Bytes → Bool) : ∀ (fuel : Nat) (recursive : Bool) (fs : Fs) (dir : Bytes) (d : CPath),
    WF fs → PlainParent fs dir d → dirUnlinkU unk fuel recursive fs dir = dirUnlink fuel recursive fs dir := by
  intro fuel
  induction fuel with
  | zero => intro _ _ _ _ _ _; rfl
  | succ fuel ih =>
    intro recursive fs dir d hwf hpp
    simp only [dirUnlinkU, dirUnlink]
    cases hr : sysRmdir fs dir with
    | mk fs' r =>
      cases r with
      | ok _ => rfl
      | error e =>
        simp only
        by_cases hc : recursive = false ∨ e ≠ .enotempty
        · rw [if_pos hc, if_pos hc]
        · rw [if_neg hc, if_neg hc]
          have he : e = .enotempty := by
            cases e <;> simp at hc ⊢
          have hfs' : fs' = fs := (sysRmdir_err fs fs' dir e hr).1
          subst hfs'
          have hg : fs'.get d = some .dir := by
            rw [rmdir_plain fs' dir d hpp] at hr
            cases hgd : fs'.get d with
            | none => rw [hgd] at hr; simp at hr; rw [he] at hr; simp at hr
            | some e0 =>
              cases e0 with
              | dir => rfl
              | file _ => rw [hgd] at hr; simp at hr; rw [he] at hr; simp at hr
              | link _ => rw [hgd] at hr; simp at hr; rw [he] at hr; simp at hr
          rw [readdir_plain fs' dir d hpp hg]
          simp only
          have hloop := unlinkEntriesU_eq unk (dirUnlinkU unk fuel true) (dirUnlink fuel true) dir d
            (fun a b c h1 h2 => dirUnlink_frame fuel true a b c h1 h2) (fun a b h => dirUnlink_wf fuel true a b h)
            (fun a b c h1 h2 => ih true a b c h1 h2) (fs'.children d) fs' hwf hpp hg
            (children_names fs' hwf.names d) (children_distinct fs' hwf.nodup d)
            (fun x hx => get_of_mem fs' hwf.nodup _ x.2 (by simp) ((mem_children fs' d x.1 x.2).mp hx))
          rw [hloop]
          cases unlinkEntries (dirUnlink fuel true) (dir ++ [47]) fs' (fs'.children d) with
          | mk fs'' ok => cases ok <;> rfl

end Nstd.Path
