import Nstd.Path.FsFail
/-
  File::copy: a copy that reports success has put exactly the source's bytes into the destination file
  and changed nothing else.
-/
namespace Nstd.Path

theorem sysOpen_rdonly_resolve (fs fs0 : Fs) (src : Bytes) (fd : Fd) (h : sysOpen fs src { acc := .rdonly } = (fs0, .ok fd))
    (hd : fd.isDir = false) : ∃ d, resolve fs src true = .found fd.path (.file d) := by
  unfold sysOpen at h
  simp only [Bool.false_eq_true, and_self, if_false] at h
  cases hr : resolve fs src true with
  | found p e0 =>
    rw [hr] at h
    cases e0 with
    | dir => simp at h; rw [← h.2] at hd; simp at hd
    | file d => simp at h; rw [← h.2]; exact ⟨d, rfl⟩
    | link t => simp at h
  | missing pa n => rw [hr] at h; simp at h
  | err e0 => rw [hr] at h; simp at h

theorem take_length_eq (d : Bytes) (count : Nat) (h : (d.take count).length = d.length) : d.take count = d := by
  apply List.take_of_length_le
  simp only [List.length_take] at h
  omega

/-- the data phase when it succeeds: the destination holds the source's bytes -/
theorem copyData_success (fs1 : Fs) (dest fd : Fd) (dst : Bytes) (fault : SfFault) (d : Bytes) (P : CPath)
    (hP : P ≠ []) (hdp : dest.path = P) (hd1 : dest.acc = .wronly) (hd2 : dest.isDir = false) (hd3 : dest.pos = 0)
    (hf1 : fd.pos = 0) (hf2 : fd.acc = .rdonly) (hf3 : fd.isDir = false)
    (hPe : fs1.get P = some (.file []))
    (hsrc : fd.path ≠ P → fs1.get fd.path = some (.file d))
    (h : (copyData fs1 dest fd d.length dst fault).2.1 = true) :
    (copyData fs1 dest fd d.length dst fault).1.get P = some (.file d) ∧
    ∀ q, q ≠ P → (copyData fs1 dest fd d.length dst fault).1.get q = fs1.get q := by
  unfold copyData at h ⊢
  simp only at h ⊢
  by_cases hc : copySent fault (sysSendfile fs1 dest fd (copyCount fault d.length)).2.2.2 ≠ some d.length
  · rw [if_pos hc] at h; simp at h
  · rw [if_neg hc]
    simp only
    have hc' : copySent fault (sysSendfile fs1 dest fd (copyCount fault d.length)).2.2.2 = some d.length := by
      simpa using hc
    unfold sysSendfile sysWrite at hc' ⊢
    simp only [hf3, hf2, hd1, hd2, hf1, hd3, hdp, List.drop_zero, Bool.false_eq_true, or_self, if_false,
      reduceCtorEq] at hc' ⊢
    generalize hdat : List.take (copyCount fault d.length) (fileData fs1 fd.path) = dat at hc' ⊢
    by_cases hde : dat = []
    · simp only [hde, if_true] at hc' ⊢
      have hlen : d.length = 0 := by
        cases fault <;> simp [copySent] at hc' <;> omega
      have hd0 : d = [] := List.length_eq_zero_iff.mp hlen
      subst hd0
      exact ⟨hPe, fun _ _ => trivial⟩
    · simp only [hde, if_false] at hc' ⊢
      have hlen : dat.length = d.length := by
        cases fault <;> simp [copySent] at hc' <;> omega
      have hPd : fileData fs1 P = [] := by simp [fileData, hPe]
      have hne : fd.path ≠ P := by
        intro heq
        rw [heq, hPd] at hdat
        simp at hdat
        exact hde hdat
      have hsd : fileData fs1 fd.path = d := by simp [fileData, hsrc hne]
      rw [hsd] at hdat
      have hdd : dat = d := by
        rw [← hdat] at hlen ⊢
        exact take_length_eq d _ hlen
      subst hdd
      rw [hPd]
      refine ⟨?_, ?_⟩
      · rw [get_set fs1 P P _ hP]
        simp [writeAt]
      · intro q hq
        rw [get_set fs1 P q _ hP, if_neg hq]

/-- File::copy that reports success: the destination file (at canonical path `P`, an existing file or a
    file created where the path was missing) holds exactly the bytes of the source file; no other entry
    of the world changed. -/
theorem fileCopy_exact (fs : Fs) (src dst : Bytes) (fie : Bool) (fault : SfFault)
    (h : (fileCopy fs src dst fie fault).2.1 = true) :
    ∃ ps d P, resolve fs src true = .found ps (.file d) ∧ P ≠ [] ∧
      (fileCopy fs src dst fie fault).1.get P = some (.file d) ∧
      (∀ q, q ≠ P → (fileCopy fs src dst fie fault).1.get q = fs.get q) ∧
      ((∃ d0, fs.get P = some (.file d0)) ∨ (∃ pa n, resolve fs dst (!fie) = .missing pa n ∧ P = pa ++ [n])) := by
  unfold fileCopy at h ⊢
  cases ho : sysOpen fs src { acc := .rdonly } with
  | mk fs0 r =>
    rw [ho] at h
    cases r with
    | error e => simp at h
    | ok fd =>
      obtain ⟨hfs0, hpos, hacc, hfile⟩ := sysOpen_rdonly fs fs0 src fd ho
      subst hfs0
      simp only at h ⊢
      by_cases hdir : fd.isDir = true
      · rw [if_pos hdir] at h; simp at h
      · rw [if_neg hdir] at h ⊢
        by_cases hsame : sameFile fs0 fd dst = true
        · rw [if_pos hsame] at h; simp at h
        rw [if_neg hsame] at h ⊢
        have hdir' : fd.isDir = false := by simpa using hdir
        obtain ⟨d, hget, hpne⟩ := hfile hdir'
        obtain ⟨d', hres⟩ := sysOpen_rdonly_resolve fs0 fs0 src fd ho hdir'
        have hdd : d' = d := by
          unfold resolve at hres
          by_cases hne : src = []
          · simp [hne] at hres
          · rw [if_neg hne] at hres
            have := (walk_found_nondir fs0 _ _ _ _ _ _ hres (by simp)).2
            rw [hget] at this
            simpa using this.symm
        subst hdd
        have hsize : (fileData fs0 fd.path).length = d'.length := by rw [fileData_of_get fs0 _ d' hget]
        cases ho2 : sysOpen fs0 dst { acc := .wronly, creat := true, excl := fie, trunc := true } with
        | mk fs1 r2 =>
          rw [ho2] at h
          cases r2 with
          | error e => simp at h
          | ok dest =>
            simp only at h ⊢
            rw [hsize] at h ⊢
            obtain ⟨hd1, hd2, hd3, hcase⟩ := sysOpen_wr fs0 fs1 dst fie dest ho2
            rcases hcase with ⟨hg, hp, hfs1⟩ | ⟨pa, n, hpath, hfs1, hresd⟩
            · -- existing destination file, truncated
              subst hfs1
              have hPe : (fs0.set dest.path (.file [])).get dest.path = some (.file []) := by
                rw [get_set fs0 _ _ _ hp]; simp
              have hsrc : fd.path ≠ dest.path → (fs0.set dest.path (.file [])).get fd.path = some (.file d') := by
                intro hne; rw [get_set fs0 _ _ _ hp, if_neg hne]; exact hget
              have := copyData_success _ dest fd dst fault d' dest.path hp rfl hd1 hd2 hd3 hpos hacc hdir' hPe hsrc h
              refine ⟨fd.path, d', dest.path, hres, hp, this.1, ?_, Or.inl ?_⟩
              · intro q hq
                rw [this.2 q hq, get_set fs0 _ _ _ hp, if_neg hq]
              · -- it was a file before: sysOpen only opens files for writing
                unfold sysOpen at ho2
                cases fie with
                | true =>
                  simp only [and_self, if_true] at ho2
                  cases hr : resolve fs0 dst false with
                  | found p e0 => simp [hr] at ho2
                  | err e0 => simp [hr] at ho2
                  | missing pa n =>
                    simp only [hr, Prod.mk.injEq, Except.ok.injEq] at ho2
                    exfalso
                    apply hg
                    rw [← ho2.2]
                    simp only
                    unfold resolve at hr
                    by_cases hne : dst = []
                    · simp [hne] at hr
                    · rw [if_neg hne] at hr
                      exact walk_missing_get fs0 _ _ _ _ _ _ hr
                | false =>
                  simp only [Bool.false_eq_true, and_false, if_false] at ho2
                  cases hr : resolve fs0 dst true with
                  | found p e0 =>
                    cases e0 with
                    | dir => simp [hr] at ho2
                    | link t => simp [hr] at ho2
                    | file dd =>
                      simp [hr] at ho2
                      rw [← ho2.2]
                      simp only
                      unfold resolve at hr
                      by_cases hne : dst = []
                      · simp [hne] at hr
                      · rw [if_neg hne] at hr
                        exact ⟨dd, (walk_found_nondir fs0 _ _ _ _ _ _ hr (by simp)).2⟩
                  | err e0 => simp [hr] at ho2
                  | missing pa n =>
                    simp [hr] at ho2
                    exfalso
                    apply hg
                    rw [← ho2.2]
                    simp only
                    unfold resolve at hr
                    by_cases hne : dst = []
                    · simp [hne] at hr
                    · rw [if_neg hne] at hr
                      exact walk_missing_get fs0 _ _ _ _ _ _ hr
            · -- destination created
              subst hfs1
              have hPne := append_singleton_ne_nil pa n
              have hPnone : fs0.get (pa ++ [n]) = none := by
                unfold resolve at hresd
                by_cases hne : dst = []
                · simp [hne] at hresd
                · rw [if_neg hne] at hresd
                  exact walk_missing_get fs0 _ _ _ _ _ _ hresd
              have hPe : (fs0.set (pa ++ [n]) (.file [])).get (pa ++ [n]) = some (.file []) := by
                rw [get_set fs0 _ _ _ hPne]; simp
              have hsrc : fd.path ≠ pa ++ [n] → (fs0.set (pa ++ [n]) (.file [])).get fd.path = some (.file d') := by
                intro hne; rw [get_set fs0 _ _ _ hPne, if_neg hne]; exact hget
              have := copyData_success _ dest fd dst fault d' (pa ++ [n]) hPne hpath hd1 hd2 hd3 hpos hacc hdir' hPe hsrc h
              refine ⟨fd.path, d', pa ++ [n], hres, hPne, this.1, ?_, Or.inr ⟨pa, n, hresd, rfl⟩⟩
              intro q hq
              rw [this.2 q hq, get_set fs0 _ _ _ hPne, if_neg hq]

end Nstd.Path
