import Nstd.Path.FsDtype
import Nstd.Path.FsDtypeExact
import Nstd.Path.FsTruth
import Nstd.Path.FsProps
import Nstd.Path.FsListPat
import Nstd.Path.Glob
/-
  Property C19, file-system part, extension round: truthfulness of exists/time/getAbsolutePath/change against the
  world model, Directory::unlink on file systems that do not report `d_type`.
-/
namespace Nstd.Path

/-- File::exists, Directory::exists and File::time are truthful: in every world a history can reach (`Inv`),
    File::exists(p) is true exactly when the path — last symbolic link NOT followed — leads to an entry `e` that the world
    has at the canonical place `q`; Directory::exists(p) exactly when the path — links followed — leads to a
    directory of the world; File::time(p) succeeds exactly when the path — links followed — leads to an entry. -/
theorem exists_truthful (fs : Fs) (hinv : WF fs ∧ fs.get cwd = some .dir) (p : Bytes) :
    (fileExists fs p = true ↔ ∃ q e, resolve fs p false = .found q e ∧ fs.get q = some e) ∧
    (dirExists fs p = true ↔ ∃ q, resolve fs p true = .found q .dir ∧ fs.get q = some .dir) ∧
    (fileTime fs p = true ↔ ∃ q e, resolve fs p true = .found q e ∧ fs.get q = some e) := by
  refine ⟨?_, ?_, ?_⟩
  · rw [fileExists_iff]
    exact ⟨fun ⟨q, e, h⟩ => ⟨q, e, h, found_in_world fs hinv p false q e h⟩, fun ⟨q, e, h, _⟩ => ⟨q, e, h⟩⟩
  · rw [dirExists_iff]
    exact ⟨fun ⟨q, h⟩ => ⟨q, h, found_in_world fs hinv p true q .dir h⟩, fun ⟨q, h, _⟩ => ⟨q, h⟩⟩
  · rw [fileTime_iff]
    exact ⟨fun ⟨q, e, h⟩ => ⟨q, e, h, found_in_world fs hinv p true q e h⟩, fun ⟨q, e, h, _⟩ => ⟨q, e, h⟩⟩

/-- … after any history of operations (hypothesis discharged by `wf_run`). -/
theorem history_exists_truthful (ops : List FsOp) (p : Bytes) :
    (fileExists (fsRun initFs ops) p = true ↔ ∃ q e, resolve (fsRun initFs ops) p false = .found q e ∧ (fsRun initFs ops).get q = some e) ∧
    (dirExists (fsRun initFs ops) p = true ↔ ∃ q, resolve (fsRun initFs ops) p true = .found q .dir ∧ (fsRun initFs ops).get q = some .dir) :=
  ⟨(exists_truthful _ (wf_run ops) p).1, (exists_truthful _ (wf_run ops) p).2.1⟩

/-- For a plain path (parent chain of real directories) File::exists says exactly whether the world has an entry at
    that canonical place — whatever kind, a dangling symbolic link included; a directory there makes
    Directory::exists true. -/
theorem exists_plain (fs : Fs) (path : Bytes) (d : CPath) (h : PlainParent fs path d) :
    fileExists fs path = (fs.get d).isSome ∧ (fs.get d = some .dir → dirExists fs path = true) := by
  constructor
  · unfold fileExists sysStat
    rw [resolve_plainParent fs path d h]
    cases fs.get d <;> simp [isOk]
  · intro hg
    rw [dirExists_iff]
    have := resolve_plainParent fs path d h
    rw [hg] at this
    exact ⟨d, resolve_dir_follow fs path d this⟩

/-- the three answers are consistent: whatever Directory::exists or File::time finds (following links),
    File::exists finds something too -/
theorem exists_consistent (fs : Fs) (p : Bytes) :
    (dirExists fs p = true → fileExists fs p = true) ∧ (fileTime fs p = true → fileExists fs p = true) ∧
    (dirExists fs p = true → fileTime fs p = true) := by
  refine ⟨fun h => ?_, fun h => ?_, fun h => ?_⟩
  · obtain ⟨q, hq⟩ := (dirExists_iff fs p).mp h
    exact (fileExists_iff fs p).mpr (resolve_follow_nofollow fs p q .dir hq)
  · obtain ⟨q, e, hq⟩ := (fileTime_iff fs p).mp h
    exact (fileExists_iff fs p).mpr (resolve_follow_nofollow fs p q e hq)
  · obtain ⟨q, hq⟩ := (dirExists_iff fs p).mp h
    exact (fileTime_iff fs p).mpr ⟨q, .dir, hq⟩

/-- File::getAbsolutePath is truthful: the absolute path names what the argument names — resolving it gives the
    same entry / missing name / error, with and without following a final link — for every non-empty path string,
    in every world a history can reach. -/
theorem absolute_path_truthful (fs : Fs) (hinv : WF fs ∧ fs.get cwd = some .dir) (p : Bytes) (hne : p ≠ []) (fo : Bool) :
    resolve fs (getAbsolutePath p) fo = resolve fs p fo := by
  have := getAbsolutePathAt_same fs hinv.1 cwd (Or.inr hinv.2) p hne fo
  exact this

/-- … and after a successful Directory::change(dir) the same holds relative to the NEW working directory `wd` (the
    directory `dir` resolved to, links followed): getAbsolutePath(p) = getCurrentDirectory() + "/" + p names what `p`
    names from there; a failed change leaves the working directory as it was. -/
theorem change_then_absolute_truthful (fs : Fs) (hinv : WF fs ∧ fs.get cwd = some .dir) (dir : Bytes) :
    (∀ wd, dirChange fs cwd dir = some wd →
      resolve fs dir true = .found wd .dir ∧
      ∀ p fo, p ≠ [] → resolveAt fs wd (getAbsolutePathAt wd p) fo = resolveAt fs wd p fo) ∧
    (dirChange fs cwd dir = none → dirExists fs dir = false) := by
  constructor
  · intro wd h
    have hres : resolve fs dir true = .found wd .dir := by
      unfold dirChange at h
      show resolveAt fs cwd dir true = _
      cases hr : resolveAt fs cwd dir true with
      | found q e => rw [hr] at h; cases e <;> simp at h; rw [h]
      | missing _ _ => rw [hr] at h; simp at h
      | err _ => rw [hr] at h; simp at h
    refine ⟨hres, fun p fo hne => ?_⟩
    have hpres : Present fs wd := by
      have := found_in_world fs hinv dir true wd .dir hres
      by_cases h0 : wd = []
      · exact Or.inl h0
      · exact Or.inr this
    exact getAbsolutePathAt_same fs hinv.1 wd hpres p hne fo
  · intro h
    cases hd : dirExists fs dir with
    | false => rfl
    | true =>
      obtain ⟨q, hq⟩ := (dirExists_iff fs dir).mp hd
      unfold dirChange at h
      have : resolveAt fs cwd dir true = .found q .dir := hq
      rw [this] at h; simp at h

/-- Recursive unlink never follows a symbolic link out of its tree ON ANY FILE SYSTEM: whatever entries `readdir`
    reports as DT_UNKNOWN (`unk`; the repaired code asks lstat then), for EVERY path string, recursive or not, whatever
    the result: every entry that changes lies in the directory the path resolves to (last component not followed),
    entries are only removed, and the world stays well-formed. -/
theorem unlink_any_dtype_stays_in_resolved_tree (unk : Bytes → Bool) (fs : Fs) (hinv : WF fs ∧ fs.get cwd = some .dir)
    (dir : Bytes) (recursive : Bool) :
    (∀ q, (dirUnlinkTopU unk fs dir recursive).1.get q ≠ fs.get q → ∃ d, resolve fs dir false = .found d .dir ∧ d <+: q) ∧
    (∀ q, (dirUnlinkTopU unk fs dir recursive).1.get q = fs.get q ∨ (dirUnlinkTopU unk fs dir recursive).1.get q = none) ∧
    (WF (dirUnlinkTopU unk fs dir recursive).1 ∧ (dirUnlinkTopU unk fs dir recursive).1.get cwd = some .dir) :=
  ⟨fun q h => dirUnlinkU_loc unk _ recursive fs dir q hinv.1.names h,
   (dirUnlinkU_shrinks unk _ recursive fs dir).2,
   dirUnlinkU_inv unk _ recursive fs dir hinv⟩

/-- … after any history, no hypothesis left. -/
theorem history_unlink_any_dtype_stays_in_resolved_tree (unk : Bytes → Bool) (ops : List FsOp) (dir : Bytes)
    (recursive : Bool) (q : CPath)
    (h : (dirUnlinkTopU unk (fsRun initFs ops) dir recursive).1.get q ≠ (fsRun initFs ops).get q) :
    ∃ d, resolve (fsRun initFs ops) dir false = .found d .dir ∧ d <+: q :=
  (unlink_any_dtype_stays_in_resolved_tree unk _ (wf_run ops) dir recursive).1 q h

/-- On a file system that reports every `d_type` the function is the Directory::unlink all other theorems speak about. -/
theorem unlink_known_dtype_is_unlink (fs : Fs) (dir : Bytes) (recursive : Bool) :
    dirUnlinkTopU (fun _ => false) fs dir recursive = dirUnlinkTop fs dir recursive :=
  dirUnlinkU_known _ recursive fs dir

/-- Whatever `readdir` reports as `d_type`: on a plain path of a well-formed world Directory::unlink (recursive or not)
    does exactly what it does on a file system that reports every type — `lstat` of `dir/name` finds the very entry
    `readdir` listed, so every entry takes the same branch (a symbolic link is a non-directory for lstat: it is
    removed as a link, its target is never touched). -/
theorem unlink_any_dtype_is_unlink (unk : Bytes → Bool) (fs : Fs) (hwf : WF fs) (dir : Bytes) (d : CPath)
    (hpp : PlainParent fs dir d) (recursive : Bool) :
    dirUnlinkTopU unk fs dir recursive = dirUnlinkTop fs dir recursive :=
  dirUnlinkU_eq unk _ recursive fs dir d hwf hpp

/-- Recursive unlink removes exactly the given tree ON ANY FILE SYSTEM: for every `d_type` reporting, in a well-formed
    world, recursive Directory::unlink of an existing directory given by a plain path (not the working directory or
    an ancestor of it) succeeds; afterwards no path of the tree at `d` exists and every other path — the targets of
    the symbolic links of the tree included — is unchanged. -/
theorem unlink_any_dtype_removes_exactly_tree (unk : Bytes → Bool) (fs : Fs) (dir : Bytes) (d : CPath)
    (hwf : WF fs) (hpp : PlainParent fs dir d) (hg : fs.get d = some .dir) (hcw : d.isPrefixOf cwd = false) :
    (dirUnlinkTopU unk fs dir true).2 = true ∧
    ∀ q, (d <+: q → (dirUnlinkTopU unk fs dir true).1.get q = none) ∧
         (¬ (d <+: q) → (dirUnlinkTopU unk fs dir true).1.get q = fs.get q) := by
  rw [unlink_any_dtype_is_unlink unk fs hwf dir d hpp true]
  exact unlink_removes_exactly_tree fs dir d hwf hpp hg hcw

/-- … after any history of operations. -/
theorem history_unlink_any_dtype_removes_exactly_tree (unk : Bytes → Bool) (ops : List FsOp) (dir : Bytes) (d : CPath)
    (hpp : PlainParent (fsRun initFs ops) dir d) (hg : (fsRun initFs ops).get d = some .dir)
    (hcw : d.isPrefixOf cwd = false) :
    (dirUnlinkTopU unk (fsRun initFs ops) dir true).2 = true ∧
    ∀ q, (d <+: q → (dirUnlinkTopU unk (fsRun initFs ops) dir true).1.get q = none) ∧
         (¬ (d <+: q) → (dirUnlinkTopU unk (fsRun initFs ops) dir true).1.get q = (fsRun initFs ops).get q) :=
  unlink_any_dtype_removes_exactly_tree unk _ dir d (wf_run ops).1 hpp hg hcw

/-- Directory::open(dir, pattern, dirsOnly) + Directory::read, on a file system with ANY `d_type` reporting (`unk`), for
    every path string in every well-formed world: the listing is the full listing (no pattern, dirsOnly = false, all
    types reported) with exactly the entries kept whose name the pattern matches and — with dirsOnly — whose
    directory flag is set; in particular it does not depend on what `readdir` reports as `d_type`, and a failed open
    fails in both. -/
theorem listing_is_filtered_full_listing (fs : Fs) (hwf : WF fs) (dir pat : Bytes) (dirsOnly : Bool) (unk : Bytes → Bool) :
    dirListPat fs dir pat dirsOnly unk = (dirList fs dir).map (fun l => l.filter (keepEntry pat dirsOnly)) :=
  dirListPat_filters fs hwf dir pat dirsOnly unk

/-- … hence, for a plain directory: the listing with a pattern contains exactly the entries of the directory whose
    name matches the pattern in the declarative sense (`Glob`: `*` any byte string, `?` one byte, other bytes
    themselves) — all entries for the empty pattern —, with dirsOnly only those reported as directories (real
    directories and symbolic links that `stat` resolves to a directory), every name once. -/
theorem listing_pattern_exact (fs : Fs) (hwf : WF fs) (dir : Bytes) (d : CPath) (hpp : PlainParent fs dir d)
    (hg : fs.get d = some .dir) (pat : Bytes) (dirsOnly : Bool) (unk : Bytes → Bool) :
    ∃ l, dirListPat fs dir pat dirsOnly unk = some l ∧
      (∀ n b, (n, b) ∈ l ↔ ∃ e, fs.get (d ++ [n]) = some e ∧ b = listedAsDir fs dir n e ∧
        (pat = [] ∨ Glob (fun a b => a = b) pat n) ∧ (dirsOnly = true → b = true)) ∧
      List.Pairwise (fun a b : Name × Bool => a.1 ≠ b.1) l := by
  obtain ⟨l0, h0, hmem, hpw⟩ := listing_exact fs hwf dir d hpp hg
  refine ⟨l0.filter (keepEntry pat dirsOnly), by rw [listing_is_filtered_full_listing fs hwf, h0]; rfl, ?_,
    hpw.sublist List.filter_sublist⟩
  intro n b
  rw [List.mem_filter, hmem]
  have hk : keepEntry pat dirsOnly (n, b) = true ↔
      (pat = [] ∨ Glob (fun a b => a = b) pat n) ∧ (dirsOnly = true → b = true) := by
    simp only [keepEntry, Bool.and_eq_true, Bool.or_eq_true, decide_eq_true_eq, Bool.not_eq_true']
    rw [fnmatchM_iff]
    constructor
    · rintro ⟨h1, h2⟩
      refine ⟨h1, fun hd => ?_⟩
      rcases h2 with h2 | h2
      · rw [hd] at h2; simp at h2
      · exact h2
    · rintro ⟨h1, h2⟩
      refine ⟨h1, ?_⟩
      cases dirsOnly with
      | false => exact Or.inl rfl
      | true => exact Or.inr (h2 rfl)
  rw [hk]
  constructor
  · rintro ⟨⟨e, h1, h2⟩, h3, h4⟩; exact ⟨e, h1, h2, h3, h4⟩
  · rintro ⟨e, h1, h2, h3, h4⟩; exact ⟨⟨e, h1, h2⟩, h3, h4⟩

/-- Environment choice "an lseek fails" (the error returns of File::size / seek / readAll, File.cpp:180-189, are part of the
    File script of `file_bytes_exact`: `FileOp.sizeF k`, `.readAllF k`, `.seekF`).  What they do, spelled out: a failing
    File::seek answers -1 and moves nothing; File::size whose 1st or 2nd lseek fails answers -1 and moves nothing; when
    the 3rd (restoring) lseek fails it answers -1 and the position STAYS at the end of the file; a later failure never fires. -/
theorem size_with_failing_lseek (fs : Fs) (fd : Fd) (k : Nat) :
    fileSizeF fs fd k =
      if k ≤ 1 then (fd, none)
      else if k = 2 ∧ fd.pos ≠ (fileData fs fd.path).length then ({ fd with pos := (fileData fs fd.path).length }, none)
      else (fd, some (fileData fs fd.path).length) :=
  fileSizeF_eq fs fd k

/-- Environment choice "the lseek of File::open's append branch fails" (File.cpp:130-137): the world is what the same
    open without the failure leaves (nothing is removed again — a file that O_CREAT made STAYS although open answers
    false: the one way a failed open can leave a new, empty file); the failure fires exactly when that open would have
    succeeded with appendFlag, and then the answer is "failed"; otherwise the answer is the usual one. -/
theorem open_with_failing_append_seek (fs : Fs) (path : Bytes) (flags : Nat) :
    (fileOpenF fs path flags).1 = (fileOpen fs path flags).1 ∧
    ((fileOpenF fs path flags).2.2 = true →
      (fileOpenF fs path flags).2.1 = none ∧ (fileOpen fs path flags).2.isSome = true ∧ hasFlag flags appendFlag = true) ∧
    ((fileOpenF fs path flags).2.2 = false → (fileOpenF fs path flags).2.1.isSome = (fileOpen fs path flags).2.isSome) := by
  unfold fileOpenF fileOpen
  cases ho : sysOpen fs path (openFlags flags) with
  | mk fs1 r =>
    cases r with
    | error _ => simp
    | ok fd =>
      simp only
      by_cases hd : fd.isDir = true
      · simp [hd]
      · by_cases ha : hasFlag flags appendFlag = true
        · have hl : sysLseek fs1 fd 0 .end_ = ({ fd with pos := (fileData fs1 fd.path).length }, .ok (fileData fs1 fd.path).length) :=
            sysLseek_end0 fs1 fd
          simp [hd, ha, hl]
        · simp [hd, ha]

/-- Directory::getCurrentDirectory terminates and answers the working directory whatever buffer size `getcwd` demands
    (ERANGE loop, Directory.cpp:440-454): starting with any non-empty buffer, doubling it, `fuel` rounds suffice as soon as
    start + fuel - 1 reaches the demanded size. -/
theorem getcwd_loop_answers (text : Bytes) (need : Nat) : ∀ (fuel size : Nat), 1 ≤ size → 1 ≤ fuel →
    text.length + 1 ≤ size + (fuel - 1) → need ≤ size + (fuel - 1) → getcwdLoop text need fuel size = some text := by
  intro fuel
  induction fuel with
  | zero => intro _ _ h; omega
  | succ fuel ih =>
    intro size hs _ h1 h2
    simp only [getcwdLoop, sysGetcwd]
    by_cases hfit : text.length + 1 ≤ size ∧ need ≤ size
    · simp [hfit]
    · simp only [hfit, if_false]
      have hf : 1 ≤ fuel := by
        by_cases h0 : fuel = 0
        · subst h0; simp at h1 h2; exact absurd ⟨h1, h2⟩ hfit
        · omega
      exact ih (size * 2) (by omega) hf (by omega) (by omega)

/-- File::isExecutable in the closed world of the library (directories 0755, files 0644, no chmod): it answers what
    Directory::exists answers. -/
theorem isExecutable_closed_world (fs : Fs) (path : Bytes) : fileIsExecutable fs path = dirExists fs path := rfl

/-! non-vacuity -/
example : getcwdLoop [47, 115] 70000 64 4096 = some [47, 115] := by decide
example : (fileOpenF ⟨[([[115]], .dir)]⟩ [104] 6).2.2 = true ∧ (fileOpenF ⟨[([[115]], .dir)]⟩ [104] 6).1.get [[115], [104]] = some (.file []) := by decide
example : dirListPat exWorld [97] [] true (fun _ => true) = some [([98], true), ([108], true)] := by decide
example : (dirUnlinkTopU (fun _ => true) exWorld [97] true).2 = true := by decide
example : (dirUnlinkTopU (fun _ => true) exWorld [97] true).1.get [[111], [111, 100], [120]] = some (.file [88]) := by decide
example : dirChange exWorld cwd [97, 47, 98] = some [[115], [97], [98]] := by decide
example : getAbsolutePathAt [[115], [97], [98]] [103] = [47, 115, 47, 97, 47, 98, 47, 103] := by decide
example : fileExists exWorld [97, 47, 108] = true ∧ dirExists exWorld [97, 47, 108] = true := by decide
example : (runOps exWorld ⟨[[115], [97], [102]], .rdonly, false, 0⟩ [.read 1, .read 5]).2.2 = [.data (some [1]), .data (some [])] := by decide

end Nstd.Path
