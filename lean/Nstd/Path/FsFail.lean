import Nstd.Path.FsLemmas
/-
  Failed operations leave no new entries behind (NoNew): File::open, File::rename, File::copy,
  File::unlink, Directory::unlink.
-/
namespace Nstd.Path

theorem NoNew.refl (fs : Fs) : NoNew fs fs := fun _ h => h

theorem NoNew.trans {a b c : Fs} (h1 : NoNew a b) (h2 : NoNew b c) : NoNew a c := fun q h => h2 q (h1 q h)

theorem del_noNew (fs : Fs) (p : CPath) : NoNew fs (fs.del p) := by
  intro q h
  unfold Fs.get Fs.del at *
  by_cases hq : q = []
  · simp [hq] at h
  · simp only [hq, if_false] at h ⊢
    rw [lookup_filter_ne]
    by_cases hqp : q = p <;> simp [hqp, h]

theorem set_noNew (fs : Fs) (p : CPath) (e : Entry) (hp : p ≠ []) (h : fs.get p ≠ none) : NoNew fs (fs.set p e) := by
  intro q hq
  rw [get_set fs p q e hp]
  by_cases hqp : q = p
  · subst hqp; exact absurd hq h
  · simp [hqp, hq]

/-- the walk only looks at `get` -/
theorem walk_congr (fs fs' : Fs) (h : ∀ q, fs.get q = fs'.get q) : ∀ (fuel : Nat) (cur : CPath) (comps : List Name) (fo : Bool),
    walk fs fuel cur comps fo = walk fs' fuel cur comps fo := by
  have aux : ∀ k k' : CPath → List Name → Bool → Res, (∀ a b c, k a b c = k' a b c) →
      ∀ cur comps fo, walkAux fs k cur comps fo = walkAux fs' k' cur comps fo := by
    intro k k' hk cur comps
    induction comps generalizing cur with
    | nil => intro fo; simp [walkAux]
    | cons c rest ih =>
      intro fo
      rw [walkAux_cons, walkAux_cons, ← h (cur ++ [c])]
      simp only [ih, hk]
  intro fuel
  induction fuel with
  | zero => exact aux _ _ (fun _ _ _ => rfl)
  | succ fuel ih => exact aux _ _ ih

theorem resolve_congr (fs fs' : Fs) (h : ∀ q, fs.get q = fs'.get q) (path : Bytes) (fo : Bool) :
    resolve fs path fo = resolve fs' path fo := by
  unfold resolve
  rw [walk_congr fs fs' h]

/-- a non-directory is found at a non-root canonical path, and it is the entry stored there -/
theorem walk_found_nondir (fs : Fs) (fuel : Nat) : ∀ (cur : CPath) (comps : List Name) (fo : Bool) (p : CPath) (e : Entry),
    walk fs fuel cur comps fo = .found p e → e ≠ .dir → p ≠ [] ∧ fs.get p = some e := by
  apply walk_lift fs (fun k => ∀ (cur : CPath) (comps : List Name) (fo : Bool) (p : CPath) (e : Entry),
    k cur comps fo = .found p e → e ≠ .dir → p ≠ [] ∧ fs.get p = some e)
  · intro _ _ _ _ _ h; simp at h
  · intro k hk cur comps
    induction comps generalizing cur with
    | nil => intro fo p e h he; simp [walkAux] at h; exact absurd h.2.symm he
    | cons c rest ih =>
      intro fo p e h he
      rw [walkAux_cons] at h
      by_cases h1 : c = [46]
      · rw [if_pos h1] at h; exact ih _ _ _ _ h he
      · rw [if_neg h1] at h
        by_cases h2 : c = dotdot
        · rw [if_pos h2] at h; exact ih _ _ _ _ h he
        · rw [if_neg h2] at h
          cases hg : fs.get (cur ++ [c]) with
          | none =>
            simp only [hg] at h
            by_cases hr : rest = [] <;> simp [hr] at h
          | some e0 =>
            simp only [hg] at h
            cases e0 with
            | dir => (try dsimp only at h); exact ih _ _ _ _ h he
            | file d =>
              (try dsimp only at h)
              by_cases hr : rest = []
              · simp [hr] at h; rw [← h.1, ← h.2]; exact ⟨by simp, hg⟩
              · simp [hr] at h
            | link t =>
              (try dsimp only at h)
              by_cases hr : rest = [] ∧ fo = false
              · simp [hr] at h; rw [← h.1, ← h.2]; exact ⟨by simp, hg⟩
              · rw [if_neg hr] at h; exact hk _ _ _ _ _ h he

theorem walk_found_ne_nil (fs : Fs) (fuel : Nat) (cur : CPath) (comps : List Name) (fo : Bool) (p : CPath) (e : Entry)
    (h : walk fs fuel cur comps fo = .found p e) (he : e ≠ .dir) : p ≠ [] :=
  (walk_found_nondir fs fuel cur comps fo p e h he).1

theorem sysUnlink_noNew (fs : Fs) (path : Bytes) : NoNew fs (sysUnlink fs path).1 := by
  unfold sysUnlink
  cases resolve fs path false with
  | found p e => cases e <;> first | exact NoNew.refl fs | exact del_noNew fs p
  | missing _ _ => exact NoNew.refl fs
  | err _ => exact NoNew.refl fs

theorem sysRmdirCore_noNew (fs : Fs) (path : Bytes) : NoNew fs (sysRmdirCore fs path).1 := by
  unfold sysRmdirCore
  cases resolve fs path false with
  | found p e =>
    cases e with
    | dir =>
      simp only
      by_cases h1 : p.isPrefixOf cwd = true
      · simp [h1]; exact NoNew.refl fs
      · by_cases h2 : fs.children p ≠ []
        · simp [h1, h2]; exact NoNew.refl fs
        · simp only [h1, h2, if_false]; exact del_noNew fs p
    | file _ => exact NoNew.refl fs
    | link _ => exact NoNew.refl fs
  | missing _ _ => exact NoNew.refl fs
  | err _ => exact NoNew.refl fs

/-- File::unlink never leaves anything new behind -/

theorem sysRmdir_noNew (fs : Fs) (path : Bytes) : NoNew fs (sysRmdir fs path).1 := by
  rcases sysRmdir_cases fs path with h | ⟨e, h⟩
  · rw [h]; exact sysRmdirCore_noNew fs path
  · rw [h]; exact NoNew.refl fs

theorem fileUnlink_noNew (fs : Fs) (path : Bytes) : NoNew fs (fileUnlink fs path).1 := by
  unfold fileUnlink; exact sysUnlink_noNew fs path

theorem unlinkEntries_noNew (rec : Fs → Bytes → Fs × Bool) (hrec : ∀ fs p, NoNew fs (rec fs p).1) (pre_ : Bytes) :
    ∀ (ents : List (Name × Entry)) (fs : Fs), NoNew fs (unlinkEntries rec pre_ fs ents).1 := by
  intro ents
  induction ents with
  | nil => intro fs; exact NoNew.refl fs
  | cons x rest ih =>
    intro fs
    obtain ⟨n, e⟩ := x
    cases e with
    | dir =>
      simp only [unlinkEntries]
      have := hrec fs (pre_ ++ n)
      cases hr : rec fs (pre_ ++ n) with
      | mk fs' ok =>
        rw [hr] at this
        cases ok with
        | false => exact this
        | true => exact this.trans (ih fs')
    | file d =>
      simp only [unlinkEntries]
      have := fileUnlink_noNew fs (pre_ ++ n)
      cases hr : fileUnlink fs (pre_ ++ n) with
      | mk fs' ok =>
        rw [hr] at this
        cases ok with
        | false => exact this
        | true => exact this.trans (ih fs')
    | link t =>
      simp only [unlinkEntries]
      have := fileUnlink_noNew fs (pre_ ++ n)
      cases hr : fileUnlink fs (pre_ ++ n) with
      | mk fs' ok =>
        rw [hr] at this
        cases ok with
        | false => exact this
        | true => exact this.trans (ih fs')

/-- Directory::unlink never leaves anything new behind -/
theorem dirUnlink_noNew : ∀ (fuel : Nat) (recursive : Bool) (fs : Fs) (dir : Bytes),
    NoNew fs (dirUnlink fuel recursive fs dir).1 := by
  intro fuel
  induction fuel with
  | zero => intro _ fs _; exact NoNew.refl fs
  | succ fuel ih =>
    intro recursive fs dir
    simp only [dirUnlink]
    have h1 := sysRmdir_noNew fs dir
    cases hr : sysRmdir fs dir with
    | mk fs' r =>
      rw [hr] at h1
      cases r with
      | ok _ => exact h1
      | error e =>
        simp only
        by_cases hc : recursive = false ∨ e ≠ .enotempty
        · rw [if_pos hc]; exact h1
        · rw [if_neg hc]
          cases hd : sysReaddir fs' dir with
          | error _ => exact h1
          | ok pe =>
            obtain ⟨p, ents⟩ := pe
            simp only
            have h2 := unlinkEntries_noNew (dirUnlink fuel true) (fun a b => ih true a b) (dir ++ [47]) ents fs'
            cases hu : unlinkEntries (dirUnlink fuel true) (dir ++ [47]) fs' ents with
            | mk fs'' ok =>
              rw [hu] at h2
              cases ok with
              | false => exact h1.trans h2
              | true => exact (h1.trans h2).trans (sysRmdir_noNew fs'' dir)


/-! ### rename / copy / open -/

theorem sysOpen_error (fs fs1 : Fs) (path : Bytes) (fl : OFlags) (e : Errno)
    (h : sysOpen fs path fl = (fs1, .error e)) : fs1 = fs := by
  unfold sysOpen at h
  by_cases hx : fl.creat = true ∧ fl.excl = true
  · rw [if_pos hx] at h
    cases hr : resolve fs path false with
    | found p e0 => simp [hr] at h; exact h.1.symm
    | missing pa n => simp [hr] at h
    | err e0 => simp [hr] at h; exact h.1.symm
  · rw [if_neg hx] at h
    cases hr : resolve fs path true with
    | found p e0 =>
      cases e0 with
      | dir =>
        simp only [hr] at h
        by_cases ha : fl.acc = .rdonly
        · simp [ha] at h
        · simp [ha] at h; exact h.1.symm
      | file d => simp [hr] at h
      | link t => simp [hr] at h; exact h.1.symm
    | missing pa n =>
      simp only [hr] at h
      by_cases hc : fl.creat = true
      · simp [hc] at h
      · simp [hc] at h; exact h.1.symm
    | err e0 => simp [hr] at h; exact h.1.symm

/-- an entry made where `path` was missing is removed again by `unlink(path)` -/
theorem created_then_unlinked (fs : Fs) (path : Bytes) (parent : CPath) (name : Name) (d : Bytes)
    (hr : resolve fs path false = .missing parent name) :
    NoNew fs (sysUnlink (fs.set (parent ++ [name]) (.file d)) path).1 := by
  unfold resolve at hr
  by_cases hne : path = []
  · simp [hne] at hr
  · rw [if_neg hne] at hr
    have hw := walk_after_create fs (.file d) (by intro t; simp) _ _ _ false false _ _ (Or.inl rfl) hr
    unfold sysUnlink resolve
    rw [if_neg hne, hw]
    simp only
    intro q hq
    rw [get_del _ _ _ (append_singleton_ne_nil parent name)]
    by_cases hqp : q = parent ++ [name]
    · simp [hqp]
    · rw [if_neg hqp, get_set fs _ _ _ (append_singleton_ne_nil parent name), if_neg hqp]
      exact hq

theorem sysRename_error (fs fs1 : Fs) (a b : Bytes) (e : Errno) (h : sysRename fs a b = (fs1, .error e)) : fs1 = fs := by
  unfold sysRename at h
  cases hra : resolve fs a false with
  | err e0 => simp [hra] at h; exact h.1.symm
  | missing _ _ => simp [hra] at h; exact h.1.symm
  | found pf ef =>
    simp only [hra] at h
    by_cases hp : pf.isPrefixOf cwd = true
    · simp [hp] at h; exact h.1.symm
    · rw [if_neg hp] at h
      cases hrb : resolve fs b false with
      | err e0 => simp [hrb] at h; exact h.1.symm
      | missing pa n =>
        simp only [hrb] at h
        by_cases hc : ef = Entry.dir ∧ pf.isPrefixOf (pa ++ [n]) = true
        · rw [if_pos hc] at h; simp at h; exact h.1.symm
        · rw [if_neg hc] at h; simp at h
      | found pt et =>
        simp only [hrb] at h
        by_cases h1 : pt = pf
        · simp [h1] at h
        · rw [if_neg h1] at h
          by_cases h2 : ef = Entry.dir
          · rw [if_pos h2] at h
            by_cases h3 : et ≠ Entry.dir
            · rw [if_pos h3] at h; simp at h; exact h.1.symm
            · rw [if_neg h3] at h
              by_cases h4 : pf.isPrefixOf pt = true
              · rw [if_pos h4] at h; simp at h; exact h.1.symm
              · rw [if_neg h4] at h
                by_cases h5 : fs.children pt ≠ [] ∨ pt = []
                · rw [if_pos h5] at h; simp at h; exact h.1.symm
                · rw [if_neg h5] at h; simp at h
          · rw [if_neg h2] at h
            by_cases h3 : et = Entry.dir
            · rw [if_pos h3] at h; simp at h; exact h.1.symm
            · rw [if_neg h3] at h; simp at h

/-- a File::rename that reports failure leaves no new entry behind -/
theorem fileRename_failed_noNew (fs : Fs) (frm to : Bytes) (fie : Bool)
    (h : (fileRename fs frm to fie).2 = false) : NoNew fs (fileRename fs frm to fie).1 := by
  unfold fileRename at h ⊢
  cases fie with
  | false =>
    simp only [Bool.false_eq_true, if_false] at h ⊢
    cases hr : sysRename fs frm to with
    | mk fs1 r =>
      rw [hr] at h
      cases r with
      | ok _ => simp [isOk] at h
      | error e => simp only; rw [sysRename_error fs fs1 frm to e hr]; exact NoNew.refl fs
  | true =>
    simp only [if_true] at h ⊢
    by_cases hs : isOk (sysStat fs frm false) = false
    · rw [if_pos hs]; exact NoNew.refl fs
    · rw [if_neg hs] at h ⊢
      cases ho : sysOpen fs to { acc := .rdonly, creat := true, excl := true } with
      | mk fs1 r =>
        cases r with
        | error e => simp only; rw [sysOpen_error fs fs1 to _ e ho]; exact NoNew.refl fs
        | ok fd =>
          simp only
          -- the placeholder was created where `to` was missing
          have ho' := ho
          unfold sysOpen at ho
          simp only [and_self, if_true] at ho
          cases hres : resolve fs to false with
          | found p e0 => simp [hres] at ho
          | err e0 => simp [hres] at ho
          | missing pa n =>
            simp only [hres, Prod.mk.injEq] at ho
            obtain ⟨hfs1, _⟩ := ho
            subst hfs1
            cases hrn : sysRename (fs.set (pa ++ [n]) (.file [])) frm to with
            | mk fs2 r2 =>
              cases r2 with
              | ok _ => rw [ho'] at h; simp only [hrn] at h; simp at h
              | error e =>
                simp only
                rw [sysRename_error _ fs2 frm to e hrn]
                exact created_then_unlinked fs to pa n [] hres


theorem walk_follow_missing_cases (fs : Fs) (fuel : Nat) : ∀ (cur : CPath) (comps : List Name) (parent : CPath) (name : Name),
    walk fs fuel cur comps true = .missing parent name →
    walk fs fuel cur comps false = .missing parent name ∨ ∃ q t, walk fs fuel cur comps false = .found q (.link t) := by
  apply walk_lift fs (fun k => ∀ (cur : CPath) (comps : List Name) (parent : CPath) (name : Name),
    k cur comps true = .missing parent name →
    k cur comps false = .missing parent name ∨ ∃ q t, k cur comps false = .found q (.link t))
  · intro _ _ _ _ h; simp at h
  · intro k hk cur comps
    induction comps generalizing cur with
    | nil => intro parent name h; simp [walkAux] at h
    | cons c rest ih =>
      intro parent name h
      rw [walkAux_cons] at h ⊢
      by_cases h1 : c = [46]
      · rw [if_pos h1] at h ⊢; exact ih _ _ _ h
      · rw [if_neg h1] at h ⊢
        by_cases h2 : c = dotdot
        · rw [if_pos h2] at h ⊢; exact ih _ _ _ h
        · rw [if_neg h2] at h ⊢
          cases hg : fs.get (cur ++ [c]) with
          | none => simp only [hg] at h ⊢; exact Or.inl h
          | some e0 =>
            simp only [hg] at h
            cases e0 with
            | dir => (try dsimp only at h); (try dsimp only); exact ih _ _ _ h
            | file d => (try dsimp only at h); (try dsimp only); exact Or.inl h
            | link t =>
              (try dsimp only at h); (try dsimp only)
              by_cases hr : rest = []
              · right; exact ⟨cur ++ [c], t, by simp [hr]⟩
              · simp only [hr, false_and, if_false] at h ⊢
                exact hk _ _ _ _ h

theorem sysOpen_rdonly (fs fs0 : Fs) (src : Bytes) (fd : Fd) (h : sysOpen fs src { acc := .rdonly } = (fs0, .ok fd)) :
    fs0 = fs ∧ fd.pos = 0 ∧ fd.acc = .rdonly ∧ (fd.isDir = false → ∃ d, fs.get fd.path = some (.file d) ∧ fd.path ≠ []) := by
  unfold sysOpen at h
  simp only [Bool.false_eq_true, and_self, if_false] at h
  unfold resolve at h
  by_cases hne : src = []
  · simp [hne] at h
  · rw [if_neg hne] at h
    cases hw : walk fs walkFuel (if startsWith47 src = true then [] else cwd) (kchunks src) true with
    | found p e0 =>
      rw [hw] at h
      cases e0 with
      | dir => simp at h; obtain ⟨h1, h2⟩ := h; subst h2; exact ⟨h1.symm, rfl, rfl, by simp⟩
      | file d =>
        simp at h
        obtain ⟨h1, h2⟩ := h
        subst h2
        have := walk_found_nondir fs _ _ _ _ _ _ hw (by simp)
        exact ⟨h1.symm, rfl, rfl, fun _ => ⟨d, this.2, this.1⟩⟩
      | link t => simp at h
    | missing pa n => rw [hw] at h; simp at h
    | err e0 => rw [hw] at h; simp at h


/-- opening the destination of File::copy: either an existing file (possibly truncated) or a file
    created where the path was missing -/
theorem sysOpen_wr (fs0 fs1 : Fs) (dst : Bytes) (fie : Bool) (dest : Fd)
    (h : sysOpen fs0 dst { acc := .wronly, creat := true, excl := fie, trunc := true } = (fs1, .ok dest)) :
    dest.acc = .wronly ∧ dest.isDir = false ∧ dest.pos = 0 ∧
    ((fs0.get dest.path ≠ none ∧ dest.path ≠ [] ∧ fs1 = fs0.set dest.path (.file [])) ∨
     (∃ pa n, dest.path = pa ++ [n] ∧ fs1 = fs0.set (pa ++ [n]) (.file []) ∧
        resolve fs0 dst (!fie) = .missing pa n)) := by
  unfold sysOpen at h
  cases fie with
  | true =>
    simp only [and_self, if_true] at h
    cases hr : resolve fs0 dst false with
    | found p e0 => simp [hr] at h
    | err e0 => simp [hr] at h
    | missing pa n =>
      simp only [hr, Prod.mk.injEq, Except.ok.injEq] at h
      obtain ⟨h1, h2⟩ := h
      subst h2
      exact ⟨rfl, rfl, rfl, Or.inr ⟨pa, n, rfl, h1.symm, by simpa using hr⟩⟩
  | false =>
    simp only [Bool.false_eq_true, and_false, if_false] at h
    cases hr : resolve fs0 dst true with
    | found p e0 =>
      cases e0 with
      | dir => simp [hr] at h
      | link t => simp [hr] at h
      | file d =>
        simp [hr] at h
        obtain ⟨h1, h2⟩ := h
        subst h2
        unfold resolve at hr
        by_cases hne : dst = []
        · simp [hne] at hr
        · rw [if_neg hne] at hr
          have := walk_found_nondir fs0 _ _ _ _ _ _ hr (by simp)
          exact ⟨rfl, rfl, rfl, Or.inl ⟨by rw [this.2]; simp, this.1, h1.symm⟩⟩
    | err e0 => simp [hr] at h
    | missing pa n =>
      simp [hr] at h
      obtain ⟨h1, h2⟩ := h
      subst h2
      exact ⟨rfl, rfl, rfl, Or.inr ⟨pa, n, rfl, h1.symm, by simpa using hr⟩⟩

theorem sysWrite_fs (fs : Fs) (fd : Fd) (data : Bytes) :
    (sysWrite fs fd data).1 = fs ∨ ∃ d', (sysWrite fs fd data).1 = fs.set fd.path (.file d') := by
  unfold sysWrite
  by_cases h1 : fd.acc = .rdonly ∨ fd.isDir = true
  · rw [if_pos h1]; exact Or.inl rfl
  · rw [if_neg h1]
    by_cases h2 : data = []
    · rw [if_pos h2]; exact Or.inl rfl
    · rw [if_neg h2]; exact Or.inr ⟨_, rfl⟩

theorem sysSendfile_fs (fs : Fs) (out inp : Fd) (count : Nat) :
    (sysSendfile fs out inp count).1 = fs ∨ ∃ d', (sysSendfile fs out inp count).1 = fs.set out.path (.file d') := by
  unfold sysSendfile
  by_cases h1 : inp.isDir = true ∨ inp.acc = .wronly ∨ out.acc = .rdonly ∨ out.isDir = true
  · rw [if_pos h1]; exact Or.inl rfl
  · rw [if_neg h1]
    exact sysWrite_fs fs out _

theorem set_set_get (fs : Fs) (p : CPath) (e1 e2 : Entry) (hp : p ≠ []) (q : CPath) :
    ((fs.set p e1).set p e2).get q = (fs.set p e2).get q := by
  rw [get_set _ p q e2 hp, get_set _ p q e2 hp, get_set _ p q e1 hp]
  by_cases h : q = p <;> simp [h]

/-- with no injected fault the data transfer of File::copy into a freshly created file succeeds -/
theorem sendfile_complete (fs0 : Fs) (fd dest : Fd) (P : CPath) (d : Bytes)
    (hfd1 : fd.pos = 0) (hfd2 : fd.acc = .rdonly) (hfd3 : fd.isDir = false)
    (hget : fs0.get fd.path = some (.file d)) (hP : P ≠ []) (hne : fd.path ≠ P)
    (hd1 : dest.acc = .wronly) (hd2 : dest.isDir = false) (_hd3 : dest.path = P) :
    (sysSendfile (fs0.set P (.file [])) dest fd d.length).2.2.2 = .ok d.length := by
  have hdata : fileData (fs0.set P (.file [])) fd.path = d := by
    simp [fileData, get_set fs0 P fd.path _ hP, hne, hget]
  unfold sysSendfile sysWrite
  simp only [hfd3, hfd2, hd1, hd2, hdata, hfd1, List.drop_zero, List.take_length]
  by_cases hd : d = []
  · simp [hd]
  · simp [hd]


theorem created_then_unlinked' (fs X : Fs) (path : Bytes) (parent : CPath) (name : Name) (d : Bytes)
    (hX : ∀ q, X.get q = (fs.set (parent ++ [name]) (.file d)).get q)
    (hr : resolve fs path false = .missing parent name) :
    NoNew fs (sysUnlink X path).1 := by
  have h0 := created_then_unlinked fs path parent name d hr
  unfold sysUnlink at h0 ⊢
  rw [resolve_congr X _ hX]
  cases hres : resolve (fs.set (parent ++ [name]) (.file d)) path false with
  | found p e =>
    rw [hres] at h0
    cases e with
    | dir => simp only at h0 ⊢; intro q hq; rw [hX q]; exact h0 q hq
    | file d2 =>
      simp only at h0 ⊢
      intro q hq
      have := h0 q hq
      unfold Fs.get Fs.del at this ⊢
      by_cases hq0 : q = []
      · simp [hq0] at this
      · simp only [hq0, if_false, lookup_filter_ne] at this ⊢
        by_cases hqp : q = p
        · simp [hqp]
        · simp only [hqp, if_false] at this ⊢
          have hx := hX q
          unfold Fs.get at hx
          simp only [hq0, if_false] at hx
          rw [hx]; exact this
    | link t =>
      simp only at h0 ⊢
      intro q hq
      have := h0 q hq
      unfold Fs.get Fs.del at this ⊢
      by_cases hq0 : q = []
      · simp [hq0] at this
      · simp only [hq0, if_false, lookup_filter_ne] at this ⊢
        by_cases hqp : q = p
        · simp [hqp]
        · simp only [hqp, if_false] at this ⊢
          have hx := hX q
          unfold Fs.get at hx
          simp only [hq0, if_false] at hx
          rw [hx]; exact this
  | missing _ _ => rw [hres] at h0; simp only at h0 ⊢; intro q hq; rw [hX q]; exact h0 q hq
  | err _ => rw [hres] at h0; simp only at h0 ⊢; intro q hq; rw [hX q]; exact h0 q hq

/-- the data phase of File::copy on an existing destination file never adds an entry -/
theorem copyData_existing_noNew (fs : Fs) (dest fd : Fd) (size : Nat) (dst : Bytes) (fault : SfFault)
    (hp : dest.path ≠ []) (hg : fs.get dest.path ≠ none) :
    NoNew fs (copyData (fs.set dest.path (.file [])) dest fd size dst fault).1 := by
  have h1 : NoNew fs (fs.set dest.path (.file [])) := set_noNew fs _ _ hp hg
  have h2 : NoNew (fs.set dest.path (.file [])) (sysSendfile (fs.set dest.path (.file [])) dest fd (copyCount fault size)).1 := by
    rcases sysSendfile_fs (fs.set dest.path (.file [])) dest fd (copyCount fault size) with h | ⟨d', h⟩
    · rw [h]; exact NoNew.refl _
    · rw [h]; exact set_noNew _ _ _ hp (by rw [get_set fs _ _ _ hp]; simp)
  unfold copyData
  simp only
  by_cases hc : copySent fault (sysSendfile (fs.set dest.path (.file [])) dest fd (copyCount fault size)).2.2.2 ≠ some size
  · rw [if_pos hc]; exact (h1.trans h2).trans (sysUnlink_noNew _ dst)
  · rw [if_neg hc]; exact h1.trans h2

/-- a File::copy that reports failure leaves no new entry behind — unless an injected transfer fault
    hits a destination whose last component is a symbolic link (then the link, not its freshly created
    target, is what gets removed) -/
theorem fileCopy_failed_noNew (fs : Fs) (src dst : Bytes) (fie : Bool) (fault : SfFault)
    (hl : fault = .none ∨ ∀ p t, resolve fs dst false ≠ .found p (.link t))
    (h : (fileCopy fs src dst fie fault).2.1 = false) : NoNew fs (fileCopy fs src dst fie fault).1 := by
  unfold fileCopy at h ⊢
  cases ho : sysOpen fs src { acc := .rdonly } with
  | mk fs0 r =>
    cases r with
    | error e => simp only; rw [sysOpen_error fs fs0 src _ e ho]; exact NoNew.refl fs
    | ok fd =>
      obtain ⟨hfs0, hpos, hacc, hfile⟩ := sysOpen_rdonly fs fs0 src fd ho
      subst hfs0
      rw [ho] at h
      simp only at h ⊢
      by_cases hdir : fd.isDir = true
      · rw [if_pos hdir]; exact NoNew.refl _
      · rw [if_neg hdir] at h ⊢
        by_cases hsame : sameFile fs0 fd dst = true
        · rw [if_pos hsame]; exact NoNew.refl _
        rw [if_neg hsame] at h ⊢
        have hdir' : fd.isDir = false := by simpa using hdir
        obtain ⟨d, hget, hpne⟩ := hfile hdir'
        cases ho2 : sysOpen fs0 dst { acc := .wronly, creat := true, excl := fie, trunc := true } with
        | mk fs1 r2 =>
          cases r2 with
          | error e => simp only; rw [sysOpen_error fs0 fs1 dst _ e ho2]; exact NoNew.refl _
          | ok dest =>
            rw [ho2] at h
            simp only at h ⊢
            obtain ⟨hd1, hd2, hd3, hcase⟩ := sysOpen_wr fs0 fs1 dst fie dest ho2
            rcases hcase with ⟨hg, hp, hfs1⟩ | ⟨pa, n, hpath, hfs1, hres⟩
            · subst hfs1
              exact copyData_existing_noNew fs0 dest fd _ dst fault hp hg
            · subst hfs1
              have hsize : (fileData fs0 fd.path).length = d.length := by rw [fileData_of_get fs0 _ d hget]
              have hPnone : fs0.get (pa ++ [n]) = none := by
                unfold resolve at hres
                by_cases hne : dst = []
                · simp [hne] at hres
                · rw [if_neg hne] at hres
                  exact walk_missing_get fs0 _ _ _ _ _ _ hres
              unfold copyData at h ⊢
              simp only at h ⊢
              by_cases hc : copySent fault (sysSendfile (fs0.set (pa ++ [n]) (.file [])) dest fd
                  (copyCount fault (fileData fs0 fd.path).length)).2.2.2 ≠ some (fileData fs0 fd.path).length
              · rw [if_pos hc]
                simp only
                -- the transfer fell short: the created destination is unlinked again
                have hcomplete : fault = .none → False := by
                  intro hf
                  apply hc
                  subst hf
                  simp only [copyCount, copySent, hsize]
                  rw [sendfile_complete fs0 fd dest (pa ++ [n]) d hpos hacc hdir' hget
                    (append_singleton_ne_nil pa n) (by intro hh; rw [hh, hPnone] at hget; simp at hget) hd1 hd2 hpath]
                have hnof : resolve fs0 dst false = .missing pa n := by
                  cases fie with
                  | true => simpa using hres
                  | false =>
                    simp only [Bool.not_false] at hres
                    unfold resolve at hres ⊢
                    by_cases hne : dst = []
                    · simp [hne] at hres
                    · rw [if_neg hne] at hres ⊢
                      rcases walk_follow_missing_cases fs0 _ _ _ _ _ hres with hm | ⟨q, t, hlk⟩
                      · exact hm
                      · exfalso
                        rcases hl with hf | hnl
                        · exact hcomplete hf
                        · apply hnl q t
                          unfold resolve
                          rw [if_neg hne]; exact hlk
                rcases sysSendfile_fs (fs0.set (pa ++ [n]) (.file [])) dest fd
                    (copyCount fault (fileData fs0 fd.path).length) with hs | ⟨d', hs⟩
                · rw [hs]
                  exact created_then_unlinked fs0 dst pa n [] hnof
                · rw [hs, hpath]
                  exact created_then_unlinked' fs0 _ dst pa n d'
                    (set_set_get fs0 _ _ _ (append_singleton_ne_nil pa n)) hnof
              · rw [if_neg hc] at h
                simp at h

theorem sysOpen_dir_unchanged (fs fs1 : Fs) (path : Bytes) (fl : OFlags) (fd : Fd)
    (h : sysOpen fs path fl = (fs1, .ok fd)) (hd : fd.isDir = true) : fs1 = fs := by
  unfold sysOpen at h
  by_cases hx : fl.creat = true ∧ fl.excl = true
  · rw [if_pos hx] at h
    cases hr : resolve fs path false with
    | found p e0 => simp [hr] at h
    | missing pa n => simp [hr] at h; rw [← h.2] at hd; simp at hd
    | err e0 => simp [hr] at h
  · rw [if_neg hx] at h
    cases hr : resolve fs path true with
    | found p e0 =>
      cases e0 with
      | dir =>
        simp only [hr] at h
        by_cases ha : fl.acc = .rdonly
        · simp [ha] at h; exact h.1.symm
        · simp [ha] at h
      | file d => simp [hr] at h; rw [← h.2] at hd; simp at hd
      | link t => simp [hr] at h
    | missing pa n =>
      simp only [hr] at h
      by_cases hc : fl.creat = true
      · simp [hc] at h; rw [← h.2] at hd; simp at hd
      · simp [hc] at h
    | err e0 => simp [hr] at h

/-- a File::open that reports failure leaves no new entry behind -/
theorem fileOpen_failed_noNew (fs : Fs) (path : Bytes) (flags : Nat)
    (h : (fileOpen fs path flags).2 = none) : NoNew fs (fileOpen fs path flags).1 := by
  unfold fileOpen at h ⊢
  cases ho : sysOpen fs path (openFlags flags) with
  | mk fs1 r =>
    cases r with
    | error e => simp only; rw [sysOpen_error fs fs1 path _ e ho]; exact NoNew.refl fs
    | ok fd =>
      rw [ho] at h
      simp only at h ⊢
      by_cases hd : fd.isDir = true
      · rw [if_pos hd]; simp only; rw [sysOpen_dir_unchanged fs fs1 path _ fd ho hd]; exact NoNew.refl fs
      · rw [if_neg hd] at h ⊢
        by_cases ha : hasFlag flags appendFlag = true
        · rw [if_pos ha] at h
          exfalso
          unfold sysLseek at h
          simp only [Int.add_zero] at h
          have : ¬ (((fileData fs1 fd.path).length : Int) < 0) := by omega
          simp [this] at h
        · rw [if_neg ha] at h; simp at h


/-! ### failed operations leave the tree unchanged (no injected I/O fault) -/

theorem fileOpen_failed_same (fs : Fs) (path : Bytes) (flags : Nat) (h : (fileOpen fs path flags).2 = none) :
    (fileOpen fs path flags).1 = fs := by
  unfold fileOpen at h ⊢
  cases ho : sysOpen fs path (openFlags flags) with
  | mk fs1 r =>
    cases r with
    | error e => exact sysOpen_error fs fs1 path _ e ho
    | ok fd =>
      rw [ho] at h
      simp only at h ⊢
      by_cases hd : fd.isDir = true
      · rw [if_pos hd]; exact sysOpen_dir_unchanged fs fs1 path _ fd ho hd
      · rw [if_neg hd] at h ⊢
        by_cases ha : hasFlag flags appendFlag = true
        · rw [if_pos ha] at h
          exfalso
          unfold sysLseek at h
          simp only [Int.add_zero] at h
          have : ¬ (((fileData fs1 fd.path).length : Int) < 0) := by omega
          simp [this] at h
        · rw [if_neg ha] at h; simp at h

theorem created_then_unlinked_get (fs : Fs) (path : Bytes) (parent : CPath) (name : Name) (d : Bytes)
    (hr : resolve fs path false = .missing parent name) :
    ∀ q, (sysUnlink (fs.set (parent ++ [name]) (.file d)) path).1.get q = fs.get q := by
  have hnone : fs.get (parent ++ [name]) = none := by
    unfold resolve at hr
    by_cases hne : path = []
    · simp [hne] at hr
    · rw [if_neg hne] at hr; exact walk_missing_get fs _ _ _ _ _ _ hr
  unfold resolve at hr
  by_cases hne : path = []
  · simp [hne] at hr
  · rw [if_neg hne] at hr
    have hw := walk_after_create fs (.file d) (by intro t; simp) _ _ _ false false _ _ (Or.inl rfl) hr
    unfold sysUnlink resolve
    rw [if_neg hne, hw]
    simp only
    intro q
    rw [get_del _ _ _ (append_singleton_ne_nil parent name)]
    by_cases hqp : q = parent ++ [name]
    · rw [if_pos hqp, hqp, hnone]
    · rw [if_neg hqp, get_set fs _ _ _ (append_singleton_ne_nil parent name), if_neg hqp]

/-- a File::rename that reports failure leaves every entry as it was -/
theorem fileRename_failed_same (fs : Fs) (frm to : Bytes) (fie : Bool)
    (h : (fileRename fs frm to fie).2 = false) : ∀ q, (fileRename fs frm to fie).1.get q = fs.get q := by
  unfold fileRename at h ⊢
  cases fie with
  | false =>
    simp only [Bool.false_eq_true, if_false] at h ⊢
    cases hr : sysRename fs frm to with
    | mk fs1 r =>
      rw [hr] at h
      cases r with
      | ok _ => simp [isOk] at h
      | error e => simp only; rw [sysRename_error fs fs1 frm to e hr]; intro q; rfl
  | true =>
    simp only [if_true] at h ⊢
    by_cases hs : isOk (sysStat fs frm false) = false
    · rw [if_pos hs]; intro q; rfl
    · rw [if_neg hs] at h ⊢
      cases ho : sysOpen fs to { acc := .rdonly, creat := true, excl := true } with
      | mk fs1 r =>
        cases r with
        | error e => simp only; rw [sysOpen_error fs fs1 to _ e ho]; intro q; rfl
        | ok fd =>
          simp only
          have ho' := ho
          unfold sysOpen at ho
          simp only [and_self, if_true] at ho
          cases hres : resolve fs to false with
          | found p e0 => simp [hres] at ho
          | err e0 => simp [hres] at ho
          | missing pa n =>
            simp only [hres, Prod.mk.injEq] at ho
            obtain ⟨hfs1, _⟩ := ho
            subst hfs1
            cases hrn : sysRename (fs.set (pa ++ [n]) (.file [])) frm to with
            | mk fs2 r2 =>
              cases r2 with
              | ok _ => rw [ho'] at h; simp only [hrn] at h; simp at h
              | error e =>
                simp only
                rw [sysRename_error _ fs2 frm to e hrn]
                exact created_then_unlinked_get fs to pa n [] hres

theorem sysOpen_wr_existing (fs0 fs1 : Fs) (dst : Bytes) (fie : Bool) (dest : Fd)
    (h : sysOpen fs0 dst { acc := .wronly, creat := true, excl := fie, trunc := true } = (fs1, .ok dest))
    (hex : fs0.get dest.path ≠ none) : ∃ d0, resolve fs0 dst true = .found dest.path (.file d0) := by
  unfold sysOpen at h
  cases fie with
  | true =>
    simp only [and_self, if_true] at h
    cases hr : resolve fs0 dst false with
    | found p e0 => simp [hr] at h
    | err e0 => simp [hr] at h
    | missing pa n =>
      simp only [hr, Prod.mk.injEq, Except.ok.injEq] at h
      exfalso; apply hex; rw [← h.2]
      unfold resolve at hr
      by_cases hne : dst = []
      · simp [hne] at hr
      · rw [if_neg hne] at hr; exact walk_missing_get fs0 _ _ _ _ _ _ hr
  | false =>
    simp only [Bool.false_eq_true, and_false, if_false] at h
    cases hr : resolve fs0 dst true with
    | found p e0 =>
      cases e0 with
      | dir => simp [hr] at h
      | link t => simp [hr] at h
      | file d => simp [hr] at h; rw [← h.2]; exact ⟨d, rfl⟩
    | err e0 => simp [hr] at h
    | missing pa n =>
      simp [hr] at h
      exfalso; apply hex; rw [← h.2]
      unfold resolve at hr
      by_cases hne : dst = []
      · simp [hne] at hr
      · rw [if_neg hne] at hr; exact walk_missing_get fs0 _ _ _ _ _ _ hr

/-- without an injected transfer fault the data phase of File::copy succeeds (source ≠ destination) -/
theorem copyData_none_succeeds (fs0 : Fs) (fd dest : Fd) (dst : Bytes) (P : CPath) (d : Bytes)
    (hfd1 : fd.pos = 0) (hfd2 : fd.acc = .rdonly) (hfd3 : fd.isDir = false)
    (hget : fs0.get fd.path = some (.file d)) (hP : P ≠ []) (hne : fd.path ≠ P)
    (hd1 : dest.acc = .wronly) (hd2 : dest.isDir = false) (hd3 : dest.path = P) :
    (copyData (fs0.set P (.file [])) dest fd d.length dst .none).2.1 = true := by
  have hc := sendfile_complete fs0 fd dest P d hfd1 hfd2 hfd3 hget hP hne hd1 hd2 hd3
  unfold copyData
  simp only
  split
  · rename_i hcnd
    exfalso
    apply hcnd
    show copySent .none (sysSendfile (fs0.set P (.file [])) dest fd d.length).2.2.2 = some d.length
    rw [hc]; rfl
  · rfl

/-- a File::copy that reports failure — no injected fault — leaves every entry as it was -/
theorem fileCopy_failed_same (fs : Fs) (src dst : Bytes) (fie : Bool)
    (h : (fileCopy fs src dst fie .none).2.1 = false) : (fileCopy fs src dst fie .none).1 = fs := by
  unfold fileCopy at h ⊢
  cases ho : sysOpen fs src { acc := .rdonly } with
  | mk fs0 r =>
    cases r with
    | error e => exact sysOpen_error fs fs0 src _ e ho
    | ok fd =>
      obtain ⟨hfs0, hpos, hacc, hfile⟩ := sysOpen_rdonly fs fs0 src fd ho
      subst hfs0
      rw [ho] at h
      simp only at h ⊢
      by_cases hdir : fd.isDir = true
      · rw [if_pos hdir]
      · rw [if_neg hdir] at h ⊢
        by_cases hsame : sameFile fs0 fd dst = true
        · rw [if_pos hsame]
        rw [if_neg hsame] at h ⊢
        have hdir' : fd.isDir = false := by simpa using hdir
        obtain ⟨d, hget, hpne⟩ := hfile hdir'
        cases ho2 : sysOpen fs0 dst { acc := .wronly, creat := true, excl := fie, trunc := true } with
        | mk fs1 r2 =>
          cases r2 with
          | error e => exact sysOpen_error fs0 fs1 dst _ e ho2
          | ok dest =>
            rw [ho2] at h
            simp only at h
            exfalso
            have hsize : (fileData fs0 fd.path).length = d.length := by rw [fileData_of_get fs0 _ d hget]
            rw [hsize] at h
            obtain ⟨hd1, hd2, hd3, hcase⟩ := sysOpen_wr fs0 fs1 dst fie dest ho2
            rcases hcase with ⟨hg, hp, hfs1⟩ | ⟨pa, n, hpath, hfs1, hres⟩
            · subst hfs1
              obtain ⟨d0, hrd⟩ := sysOpen_wr_existing fs0 _ dst fie dest ho2 hg
              have hne : fd.path ≠ dest.path := by
                intro heq
                apply hsame
                unfold sameFile
                rw [hrd]; simp [heq]
              rw [copyData_none_succeeds fs0 fd dest dst dest.path d hpos hacc hdir' hget hp hne hd1 hd2 rfl] at h
              simp at h
            · subst hfs1
              have hPnone : fs0.get (pa ++ [n]) = none := by
                unfold resolve at hres
                by_cases hne : dst = []
                · simp [hne] at hres
                · rw [if_neg hne] at hres; exact walk_missing_get fs0 _ _ _ _ _ _ hres
              have hne : fd.path ≠ pa ++ [n] := by intro hh; rw [hh, hPnone] at hget; simp at hget
              rw [copyData_none_succeeds fs0 fd dest dst (pa ++ [n]) d hpos hacc hdir' hget
                (append_singleton_ne_nil pa n) hne hd1 hd2 hpath] at h
              simp at h

end Nstd.Path
