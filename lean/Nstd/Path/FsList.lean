import Nstd.Path.FsWf
/-
  Directory::open + Directory::read (no pattern): the listing of a plain directory names exactly its entries,
  each once, with the is-directory flag of File.cpp (a symbolic link counts as directory when stat says so).
-/
namespace Nstd.Path

/-- the `isDir` flag Directory::read reports for an entry `n` of directory `dir` -/
def listedAsDir (fs : Fs) (dir : Bytes) (n : Name) : Entry → Bool
  | .dir => true
  | .link _ => dirExists fs (dir ++ [47] ++ n)
  | .file _ => false

theorem dirList_plain (fs : Fs) (hwf : WF fs) (dir : Bytes) (d : CPath) (hpp : PlainParent fs dir d)
    (hg : fs.get d = some .dir) :
    ∃ l, dirList fs dir = some l ∧
      (∀ n b, (n, b) ∈ l ↔ ∃ e, fs.get (d ++ [n]) = some e ∧ b = listedAsDir fs dir n e) ∧
      List.Pairwise (fun a b : Name × Bool => a.1 ≠ b.1) l := by
  have hne : dir ≠ [] := hpp.1
  unfold dirList
  rw [if_neg hne, readdir_plain fs dir d hpp hg]
  simp only [if_neg hne]
  refine ⟨_, rfl, ?_, ?_⟩
  · intro n b
    simp only [List.mem_map]
    constructor
    · rintro ⟨⟨n', e⟩, hmem, heq⟩
      have hm := (mem_children fs d n' e).mp hmem
      have hge := get_of_mem fs hwf.nodup _ e (by simp) hm
      cases e with
      | dir => simp at heq; obtain ⟨rfl, rfl⟩ := heq; exact ⟨.dir, hge, rfl⟩
      | file dd => simp at heq; obtain ⟨rfl, rfl⟩ := heq; exact ⟨.file dd, hge, rfl⟩
      | link t => simp at heq; obtain ⟨rfl, rfl⟩ := heq; exact ⟨.link t, hge, by simp [listedAsDir]⟩
    · rintro ⟨e, hge, rfl⟩
      have hm := (mem_children fs d n e).mpr (get_some_mem fs _ e (by simp) hge)
      refine ⟨(n, e), hm, ?_⟩
      cases e <;> simp [listedAsDir]
  · have hd := children_distinct fs hwf.nodup d
    rw [List.pairwise_map]
    apply List.Pairwise.imp _ hd
    intro a b hab
    obtain ⟨n1, e1⟩ := a
    obtain ⟨n2, e2⟩ := b
    cases e1 <;> cases e2 <;> simpa using hab


/-! ### rename of a directory: the subtree moves -/

theorem option_ext {α} (a b : Option α) (h : ∀ e, a = some e ↔ b = some e) : a = b := by
  cases a with
  | none =>
    cases b with
    | none => rfl
    | some y => exact absurd ((h y).mpr rfl) (by simp)
  | some x => exact ((h x).mp rfl).symm

theorem get_iff_mem (fs : Fs) (hwf : WF fs) (q : CPath) (e : Entry) (hq : q ≠ []) :
    fs.get q = some e ↔ (q, e) ∈ fs.ents :=
  ⟨get_some_mem fs q e hq, get_of_mem fs hwf.nodup q e hq⟩

/-- where everything is after a subtree has been moved -/
theorem moveTree_get_tree (fs : Fs) (hwf : WF fs) (pf pt : CPath) (ef : Entry)
    (hpf : fs.get pf = some ef) (hpfne : pf ≠ []) (hnp : ¬ pf <+: pt)
    (hleafpt : Leaf fs pt) (hptne : pt ≠ []) (hparent : Present fs pt.dropLast) (hname : ∀ c ∈ pt, KName c)
    (q : CPath) :
    (fs.moveTree pf pt).get q =
      if pt <+: q then fs.get (pf ++ q.drop pt.length) else if pf <+: q then none else fs.get q := by
  have hwfY := moveTree_wf fs hwf pf pt ef hpf hpfne hnp hleafpt hptne hparent hname
  by_cases hq : q = []
  · subst hq
    have h1 : ¬ pt <+: ([] : CPath) := fun h => hptne (List.prefix_nil.mp h)
    have h2 : ¬ pf <+: ([] : CPath) := fun h => hpfne (List.prefix_nil.mp h)
    rw [if_neg h1, if_neg h2]; simp [Fs.get]
  · have hmemY : ∀ e, (q, e) ∈ (fs.moveTree pf pt).ents ↔ ∃ x ∈ (fs.del pt).ents, renKey pf pt x = (q, e) := by
      intro e
      rw [show (fs.moveTree pf pt).ents = (fs.del pt).ents.map (renKey pf pt) from rfl, List.mem_map]
    have hmemX : ∀ x, x ∈ (fs.del pt).ents ↔ x ∈ fs.ents ∧ x.1 ≠ pt := by
      intro x; simp [Fs.del, List.mem_filter]
    have hx1 : ∀ x ∈ (fs.del pt).ents, ¬ pt <+: x.1 := by
      intro x hx hp
      have := (hmemX x).mp hx
      exact hleafpt x this.1 ⟨hp, this.2⟩
    apply option_ext
    intro e
    rw [get_iff_mem _ hwfY q e hq, hmemY]
    by_cases h1 : pt <+: q
    · rw [if_pos h1]
      have hqe := eq_append_drop pt q h1
      have hne2 : pf ++ q.drop pt.length ≠ [] := by simp [hpfne]
      rw [get_iff_mem fs hwf _ e hne2]
      constructor
      · rintro ⟨x, hx, hk⟩
        by_cases hm : pf <+: x.1
        · rw [renKey_fst_moved pf pt x hm] at hk
          simp only [Prod.mk.injEq] at hk
          have hd : x.1.drop pf.length = q.drop pt.length := by
            have : pt ++ x.1.drop pf.length = pt ++ q.drop pt.length := by rw [hk.1]; exact hqe
            exact List.append_cancel_left this
          have hx' := ((hmemX x).mp hx).1
          rw [← hd, ← eq_append_drop pf x.1 hm, ← hk.2]
          exact hx'
        · rw [renKey_not_moved pf pt x hm] at hk
          exfalso
          apply hx1 x hx
          rw [hk]; exact h1
      · intro hm
        refine ⟨(pf ++ q.drop pt.length, e), (hmemX _).mpr ⟨hm, ?_⟩, ?_⟩
        · intro h; apply hnp; rw [← h]; exact List.prefix_append _ _
        · rw [renKey_fst_moved pf pt _ (List.prefix_append _ _)]
          simp only [List.drop_left, Prod.mk.injEq, and_true]
          exact hqe.symm
    · rw [if_neg h1]
      by_cases h2 : pf <+: q
      · rw [if_pos h2]
        simp only [reduceCtorEq, iff_false, not_exists, not_and]
        intro x hx hk
        by_cases hm : pf <+: x.1
        · rw [renKey_fst_moved pf pt x hm] at hk
          simp only [Prod.mk.injEq] at hk
          apply h1; rw [← hk.1]; exact List.prefix_append _ _
        · rw [renKey_not_moved pf pt x hm] at hk
          apply hm; rw [hk]; exact h2
      · rw [if_neg h2, get_iff_mem fs hwf q e hq]
        constructor
        · rintro ⟨x, hx, hk⟩
          by_cases hm : pf <+: x.1
          · rw [renKey_fst_moved pf pt x hm] at hk
            simp only [Prod.mk.injEq] at hk
            exfalso; apply h1; rw [← hk.1]; exact List.prefix_append _ _
          · rw [renKey_not_moved pf pt x hm] at hk
            rw [← hk]; exact ((hmemX x).mp hx).1
        · intro hm
          refine ⟨(q, e), (hmemX _).mpr ⟨hm, fun h => h1 (by simp only at h; rw [h]; exact List.prefix_refl _)⟩, ?_⟩
          exact renKey_not_moved pf pt _ h2


/-- the hypotheses under which rename(2) moves a subtree -/
structure MoveOk (fs : Fs) (pf pt : CPath) (ef : Entry) : Prop where
  src : fs.get pf = some ef
  srcne : pf ≠ []
  notin : ¬ pf <+: pt
  leaf : Leaf fs pt
  dstne : pt ≠ []
  parent : Present fs pt.dropLast
  names : ∀ c ∈ pt, KName c

/-- a successful rename(2) either leaves the world as it is (source and destination are the same entry) or
    moves the subtree of the source to a destination below an existing directory -/
theorem sysRename_ok_cases (fs fs' : Fs) (hinv : Inv fs) (frm to : Bytes) (pf : CPath) (ef : Entry)
    (hrf : resolve fs frm false = .found pf ef) (h : sysRename fs frm to = (fs', .ok ())) :
    (fs' = fs ∧ resolve fs to false = .found pf ef) ∨ ∃ pt, fs' = fs.moveTree pf pt ∧ MoveOk fs pf pt ef := by
  unfold sysRename at h
  have hokf := resolve_resOk fs hinv frm false
  rw [hrf] at hokf h
  simp only at h
  by_cases hcwb : pf.isPrefixOf cwd = true
  · simp [hcwb] at h
  · rw [if_neg hcwb] at h
    have hcw : ¬ pf <+: cwd := fun hh => hcwb (List.isPrefixOf_iff_prefix.mpr hh)
    have hpfne : pf ≠ [] := by intro hh; apply hcw; rw [hh]; exact List.nil_prefix
    have hpf : fs.get pf = some ef := by
      rcases hokf with ⟨hh, _⟩ | hh
      · exact absurd hh hpfne
      · exact hh
    have hokt := resolve_resOk fs hinv to false
    cases hrt : resolve fs to false with
    | err _ => simp [hrt] at h
    | missing pa n =>
      rw [hrt] at hokt
      simp only [hrt] at h
      by_cases hc : ef = Entry.dir ∧ pf.isPrefixOf (pa ++ [n]) = true
      · simp [hc] at h
      · rw [if_neg hc] at h
        simp only [Prod.mk.injEq, and_true] at h
        have hnone := resolve_missing_get fs to false pa n hrt
        have hPne := append_singleton_ne_nil pa n
        right
        refine ⟨pa ++ [n], h.symm, hpf, hpfne, ?_, leaf_of_none fs hinv.1 _ hPne hnone, hPne,
          by rw [List.dropLast_concat]; exact hokt.1, ?_⟩
        · intro hp
          by_cases hed : ef = .dir
          · exact hc ⟨hed, List.isPrefixOf_iff_prefix.mpr hp⟩
          · have hne : pf ≠ pa ++ [n] := by intro hh; rw [hh, hnone] at hpf; simp at hpf
            obtain ⟨t, ht⟩ := hp
            have hpa : pf <+: pa := by
              cases ht' : t.reverse with
              | nil => simp at ht'; subst ht'; simp at ht; exact absurd ht hne
              | cons a b =>
                have : t = b.reverse ++ [a] := by
                  have := congrArg List.reverse ht'; simpa using this
                rw [this, ← List.append_assoc] at ht
                have := List.append_inj_left' ht rfl
                exact ⟨b.reverse, this⟩
            have hpre := present_prefix fs hinv.1 pa hokt.1 pf.length (List.IsPrefix.length_le hpa)
            rw [← List.prefix_iff_eq_take.mp hpa] at hpre
            rcases hpre with h0 | hg
            · exact hpfne h0
            · rw [hpf] at hg; exact hed (Option.some.inj hg)
        · intro c hc'
          simp only [List.mem_append, List.mem_singleton] at hc'
          rcases hc' with hc' | rfl
          · exact present_names fs hinv.1 pa hokt.1 c hc'
          · exact hokt.2
    | found pt et =>
      rw [hrt] at hokt
      simp only [hrt] at h
      by_cases h1 : pt = pf
      · rw [if_pos h1] at h
        simp only [Prod.mk.injEq, and_true] at h
        left
        refine ⟨h.symm, ?_⟩
        subst h1
        have : et = ef := by
          rcases hokt with ⟨hh, _⟩ | hh
          · exact absurd hh hpfne
          · rw [hpf] at hh; exact (Option.some.inj hh).symm
        rw [this]
      · rw [if_neg h1] at h
        right
        by_cases h2 : ef = Entry.dir
        · rw [if_pos h2] at h
          by_cases h3 : et ≠ Entry.dir
          · simp [h3] at h
          · rw [if_neg h3] at h
            by_cases h4 : pf.isPrefixOf pt = true
            · simp [h4] at h
            · rw [if_neg h4] at h
              by_cases h5 : fs.children pt ≠ [] ∨ pt = []
              · simp [h5] at h
              · rw [if_neg h5] at h
                simp only [Prod.mk.injEq, and_true] at h
                have hptne : pt ≠ [] := fun hh => h5 (Or.inr hh)
                have hgt : fs.get pt = some et := by
                  rcases hokt with ⟨hh, _⟩ | hh
                  · exact absurd hh hptne
                  · exact hh
                refine ⟨pt, h.symm, hpf, hpfne, fun hh => h4 (List.isPrefixOf_iff_prefix.mpr hh), ?_, hptne,
                  parent_present fs hinv.1 pt et hptne hgt, hinv.1.names (pt, et) (get_some_mem fs pt et hptne hgt)⟩
                exact leaf_of_no_children fs hinv.1 pt (by
                  cases hch : fs.children pt with
                  | nil => rfl
                  | cons a b => exact absurd (Or.inl (by rw [hch]; simp)) h5)
        · rw [if_neg h2] at h
          by_cases h3 : et = Entry.dir
          · simp [h3] at h
          · rw [if_neg h3] at h
            simp only [Prod.mk.injEq, and_true] at h
            have hptne : pt ≠ [] := by
              intro hh
              rcases hokt with ⟨_, hd⟩ | hg
              · exact h3 hd
              · subst hh; simp [Fs.get] at hg; exact h3 hg.symm
            have hgt : fs.get pt = some et := by
              rcases hokt with ⟨hh, _⟩ | hh
              · exact absurd hh hptne
              · exact hh
            have hleafpf := leaf_of_nondir fs hinv.1 pf ef hpfne hpf h2
            refine ⟨pt, h.symm, hpf, hpfne, ?_, leaf_of_nondir fs hinv.1 pt et hptne hgt h3, hptne,
              parent_present fs hinv.1 pt et hptne hgt, hinv.1.names (pt, et) (get_some_mem fs pt et hptne hgt)⟩
            intro hp
            exact hleafpf (pt, et) (get_some_mem fs pt et hptne hgt) ⟨hp, h1⟩

/-- File::rename(from, to, false) of a directory that reports success: the whole subtree now hangs at the
    destination `pt`, nothing is left at the source, every other path is unchanged -/
theorem rename_directory_exact (fs : Fs) (hinv : Inv fs) (frm to : Bytes) (pf : CPath)
    (hrf : resolve fs frm false = .found pf .dir) (h : (fileRename fs frm to false).2 = true) :
    (fileRename fs frm to false).1 = fs ∨
    ∃ pt, ¬ pf <+: pt ∧ ∀ q, (fileRename fs frm to false).1.get q =
      if pt <+: q then fs.get (pf ++ q.drop pt.length) else if pf <+: q then none else fs.get q := by
  unfold fileRename at h ⊢
  simp only [Bool.false_eq_true, if_false] at h ⊢
  cases hr : sysRename fs frm to with
  | mk fs1 r =>
    rw [hr] at h
    cases r with
    | error _ => simp [isOk] at h
    | ok u =>
      simp only
      rcases sysRename_ok_cases fs fs1 hinv frm to pf .dir hrf hr with ⟨h1, _⟩ | ⟨pt, h1, hm⟩
      · exact Or.inl h1
      · right
        refine ⟨pt, hm.notin, fun q => ?_⟩
        rw [h1]
        exact moveTree_get_tree fs hinv.1 pf pt .dir hm.src hm.srcne hm.notin hm.leaf hm.dstne hm.parent hm.names q


theorem purgeUp_noNew : ∀ (n : Nat) (fs : Fs) (i : Bytes), NoNew fs (purgeUp n fs i) := by
  intro n
  induction n with
  | zero => intro fs _; exact NoNew.refl fs
  | succ n ih =>
    intro fs i
    simp only [purgeUp]
    by_cases hi : i = [46]
    · rw [if_pos hi]; exact NoNew.refl fs
    · rw [if_neg hi]
      have := sysRmdir_noNew fs i
      cases hr : sysRmdir fs i with
      | mk fs' r => rw [hr] at this; cases r with
        | ok _ => exact this.trans (ih fs' _)
        | error _ => exact this

theorem dirPurge_spec (fs : Fs) (path : Bytes) (recursive : Bool) :
    (dirPurge fs path recursive).2 = (dirUnlinkTop fs path recursive).2 ∧ NoNew fs (dirPurge fs path recursive).1 := by
  unfold dirPurge
  have h := dirUnlink_noNew (maxDepth fs + 2) recursive fs path
  unfold dirUnlinkTop
  cases hr : dirUnlink (maxDepth fs + 2) recursive fs path with
  | mk fs' ok =>
    rw [hr] at h
    cases ok with
    | false => exact ⟨rfl, h⟩
    | true => exact ⟨rfl, h.trans (purgeUp_noNew _ fs' _)⟩

end Nstd.Path
