import Nstd.Path.FsMore
import Nstd.Generated.PathUnlink
/-
  Property C19, tie by translation of the entry-type decision of the recursive Directory::unlink: the statements of the
  readdir loop of the CURRENT src/Directory.cpp that decide whether an entry is descended into or removed as a file
  (tools/gen_path_unlink.py -> Nstd/Generated/PathUnlink.lean) are the decision of the model (`entryIsDirU`, used by
  `unlinkEntriesU`/`dirUnlinkU`, which the never-follows-symlinks theorems of FsProps2.lean are about).  The type test of
  a DT_UNKNOWN entry must NOT follow a symbolic link (`statFollows = false`, i.e. `lstat`).
-/
namespace Nstd.Path
open Nstd.Generated.PathUnlink

/-- what readdir reports for an entry of the world: its type, or DT_UNKNOWN when the oracle says so -/
def dtypeOf (e : Entry) (u : Bool) : DType :=
  if u then .unknown else match e with
    | .dir => .dir
    | .file _ => .reg
    | .link _ => .lnk

/-- the answer of the type test the translated code makes (`lstat`/`stat` as the source says) -/
def statSaysDir (fs : Fs) (path : Bytes) : Bool :=
  match sysStat fs path statFollows with
  | .ok .dir => true
  | _ => false

/-- the translated decision of Directory::unlink IS the model's decision, for every world, path, entry and d_type reporting -/
theorem unlink_decision_translated (fs : Fs) (path : Bytes) (e : Entry) (u : Bool) :
    entryIsDirU fs path e u = isDirDecision (dtypeOf e u) (statSaysDir fs path) := by
  unfold entryIsDirU isDirDecision dtypeOf statSaysDir statFollows
  cases u with
  | true => cases h : sysStat fs path false with
    | error _ => simp
    | ok en => cases en <;> simp
  | false => cases e <;> simp

/-- the type test does not follow symbolic links -/
theorem unlink_type_test_is_lstat : statFollows = false := rfl

/-- an entry that readdir reports as a symbolic link is never descended into: it is removed as a file -/
theorem reported_link_is_unlinked_as_file (name : Bytes) (s : Bool) :
    action (isDirDecision .lnk s) name = .unlinkFile := by
  simp [action, isDirDecision]

/-- the model's loop step, written with the translated decision and action: an entry the translated code descends
    into is exactly one the model descends into (the model's readdir never lists `.`/`..`, which the code skips) -/
theorem unlink_action_translated (fs : Fs) (path : Bytes) (name : Bytes) (e : Entry) (u : Bool)
    (hn : name ≠ [46] ∧ name ≠ [46, 46]) :
    action (isDirDecision (dtypeOf e u) (statSaysDir fs path)) name
      = (if entryIsDirU fs path e u = true then Action.recurse else Action.unlinkFile) := by
  rw [← unlink_decision_translated]
  cases h : entryIsDirU fs path e u <;> simp [action, hn.1, hn.2]

end Nstd.Path
