import Nstd.Path.FsMore
import Nstd.Path.FsList
import Nstd.Path.FsUnlinkGen
import Nstd.Path.FsTruth
/-
  Directory::open(dir, pattern, dirsOnly) + Directory::read on a file system with any `d_type` reporting:
  the listing is the full listing (`dirList`: no pattern, dirsOnly = false, every type reported) filtered by the
  pattern and — with dirsOnly — by the directory flag.  For every world that is well-formed and every path string.
-/
namespace Nstd.Path

/-- forward direction of `walk_child`: a name that is no link in the directory the components lead to is found there -/
theorem walk_child_fwd (fs : Fs) (n : Name) (hn1 : n ≠ [46]) (hn2 : n ≠ dotdot) (fo : Bool) (e : Entry)
    (hnl : isLinkEntry e = false) (fuel : Nat) :
    ∀ (cur : CPath) (xs : List Name) (d : CPath),
    walk fs fuel cur xs true = .found d .dir → fs.get (d ++ [n]) = some e →
    walk fs fuel cur (xs ++ [n]) fo = .found (d ++ [n]) e := by
  apply walk_lift fs (fun k => ∀ (cur : CPath) (xs : List Name) (d : CPath),
    k cur xs true = .found d .dir → fs.get (d ++ [n]) = some e → k cur (xs ++ [n]) fo = .found (d ++ [n]) e)
  · intro _ _ _ hh; simp at hh
  · intro k hk cur xs
    induction xs generalizing cur with
    | nil =>
      intro d hh hg
      simp only [walkAux, Res.found.injEq, and_true] at hh
      subst hh
      simp only [List.nil_append]
      rw [walkAux_cons, if_neg hn1, if_neg hn2]
      simp only [hg]
      cases e with
      | dir => simp [walkAux]
      | file dd => simp
      | link t => simp [isLinkEntry] at hnl
    | cons c rest ih =>
      intro d hh hg
      rw [walkAux_cons] at hh
      rw [List.cons_append, walkAux_cons]
      by_cases h1 : c = [46]
      · rw [if_pos h1] at hh ⊢; exact ih _ _ hh hg
      · rw [if_neg h1] at hh ⊢
        by_cases h2 : c = dotdot
        · rw [if_pos h2] at hh ⊢; exact ih _ _ hh hg
        · rw [if_neg h2] at hh ⊢
          cases hgc : fs.get (cur ++ [c]) with
          | none =>
            simp only [hgc] at hh
            by_cases hr : rest = [] <;> simp [hr] at hh
          | some e0 =>
            simp only [hgc] at hh ⊢
            cases e0 with
            | dir => (try dsimp only at hh); (try dsimp only); exact ih _ _ hh hg
            | file dd =>
              (try dsimp only at hh)
              by_cases hr : rest = [] <;> simp [hr] at hh
            | link t =>
              (try dsimp only at hh); (try dsimp only)
              have hr' : ¬ (rest = [] ∧ true = false) := by simp
              rw [if_neg hr'] at hh
              have hr : ¬ (rest ++ [n] = [] ∧ fo = false) := by simp
              rw [if_neg hr, ← List.append_assoc]
              exact hk _ _ _ hh hg

/-- `stat`/`lstat` of the path Directory::read builds for an entry that is no link: it finds that entry -/
theorem resolve_entryPath (fs : Fs) (dir : Bytes) (n : Name) (hn : KName n) (p : CPath) (e : Entry) (fo : Bool)
    (hrd : resolve fs (if dir = [] then [46] else dir) true = .found p .dir)
    (hg : fs.get (p ++ [n]) = some e) (hnl : isLinkEntry e = false) :
    resolve fs (entryPath dir n) fo = .found (p ++ [n]) e := by
  unfold entryPath
  by_cases hd : dir = []
  · subst hd
    simp only [if_true, List.nil_append] at hrd ⊢
    unfold resolve at hrd ⊢
    rw [if_neg hn.1]
    rw [if_neg (by decide)] at hrd
    have hk : kchunks [46] = [[46]] := by decide
    have hs : startsWith47 [46] = false := by decide
    rw [hk, hs] at hrd
    simp only [Bool.false_eq_true, if_false] at hrd
    have hs2 : startsWith47 n = false := by
      cases n with
      | nil => rfl
      | cons a as =>
        have := hn.2.1 a (by simp)
        simp only [isSlash, beq_eq_false_iff_ne] at this
        simp [startsWith47, this]
    rw [hs2, kchunks_of_sepfree n hn.1 hn.2.1]
    simp only [Bool.false_eq_true, if_false]
    have hrd' : walk fs walkFuel cwd [] true = .found p .dir := by
      cases hf : walkFuel with
      | zero => rw [hf] at hrd; simpa [walk, walkAux_cons] using hrd
      | succ f => rw [hf] at hrd; simpa [walk, walkAux_cons] using hrd
    have := walk_child_fwd fs n hn.2.2.1 hn.2.2.2 fo e hnl walkFuel cwd [] p hrd' hg
    simpa using this
  · simp only [if_neg hd] at hrd ⊢
    unfold resolve at hrd ⊢
    rw [if_neg hd] at hrd
    rw [if_neg (by simp)]
    rw [List.append_assoc, List.singleton_append, kchunks_append_sep dir 47 n (by decide),
      kchunks_of_sepfree n hn.1 hn.2.1, startsWith47_append dir _ hd]
    exact walk_child_fwd fs n hn.2.2.1 hn.2.2.2 fo e hnl walkFuel _ _ p hrd hg

theorem filterMap_ite_map {α β} (f : α → β) (g : β → Bool) : ∀ (l : List α),
    l.filterMap (fun x => if g (f x) = true then some (f x) else none) = (l.map f).filter g := by
  intro l
  induction l with
  | nil => rfl
  | cons a l ih =>
    simp only [List.filterMap_cons, List.map_cons, List.filter_cons]
    by_cases h : g (f a) = true
    · simp [h, ih]
    · simp [h, ih]

theorem filterMap_congr' {α β} {f g : α → Option β} : ∀ (l : List α), (∀ x ∈ l, f x = g x) →
    l.filterMap f = l.filterMap g := by
  intro l
  induction l with
  | nil => intro _; rfl
  | cons a l ih =>
    intro h
    simp only [List.filterMap_cons]
    rw [h a List.mem_cons_self, ih (fun x hx => h x (List.mem_cons_of_mem _ hx))]

/-- which entries of the full listing a pattern / dirsOnly listing keeps -/
def keepEntry (pat : Bytes) (dirsOnly : Bool) (x : Name × Bool) : Bool :=
  (decide (pat = []) || fnmatchM pat x.1) && (!dirsOnly || x.2)

/-- what Directory::read reports for an entry when every `d_type` is reported and there is no filter -/
def fullEntry (fs : Fs) (dir : Bytes) (x : Name × Entry) : Name × Bool :=
  match x.2 with
  | .dir => (x.1, true)
  | .link _ => (x.1, dirExists fs ((if dir = [] then [] else dir ++ [47]) ++ x.1))
  | .file _ => (x.1, false)

theorem dirList_eq_map (fs : Fs) (dir : Bytes) :
    dirList fs dir = match sysReaddir fs (if dir = [] then [46] else dir) with
      | .error _ => none
      | .ok (_, ents) => some (ents.map (fullEntry fs dir)) := by
  unfold dirList
  cases sysReaddir fs (if dir = [] then [46] else dir) with
  | error _ => rfl
  | ok pe =>
    obtain ⟨p, ents⟩ := pe
    simp only [Option.some.injEq]
    apply List.map_congr_left
    intro x _
    obtain ⟨n, e⟩ := x
    cases e <;> rfl

theorem dirListPat_filters (fs : Fs) (hwf : WF fs) (dir pat : Bytes) (dirsOnly : Bool) (unk : Bytes → Bool) :
    dirListPat fs dir pat dirsOnly unk = (dirList fs dir).map (fun l => l.filter (keepEntry pat dirsOnly)) := by
  rw [dirList_eq_map]
  unfold dirListPat
  cases hd : sysReaddir fs (if dir = [] then [46] else dir) with
  | error _ => rfl
  | ok pe =>
    obtain ⟨p, ents⟩ := pe
    simp only [Option.map_some, Option.some.injEq]
    have hrd : resolve fs (if dir = [] then [46] else dir) true = .found p .dir ∧ ents = fs.children p := by
      unfold sysReaddir at hd
      cases hrr : resolve fs (if dir = [] then [46] else dir) true with
      | found p0 e0 =>
        rw [hrr] at hd
        cases e0 with
        | dir => simp at hd; obtain ⟨h1, h2⟩ := hd; subst h1; exact ⟨rfl, h2.symm⟩
        | file _ => simp at hd
        | link _ => simp at hd
      | missing _ _ => rw [hrr] at hd; simp at hd
      | err _ => rw [hrr] at hd; simp at hd
    rw [← filterMap_ite_map]
    apply filterMap_congr'
    intro x hx
    obtain ⟨n, e⟩ := x
    rw [hrd.2] at hx
    have hn : KName n := children_names fs hwf.names p (n, e) hx
    have hg : fs.get (p ++ [n]) = some e :=
      get_of_mem fs hwf.nodup _ e (by simp) ((mem_children fs p n e).mp hx)
    have hep : entryPath dir n = (if dir = [] then [] else dir ++ [47]) ++ n := rfl
    simp only [readEntry, keepEntry, fullEntry]
    by_cases hp : pat ≠ [] ∧ fnmatchM pat n = false
    · rw [if_pos hp]
      have : (decide (pat = []) || fnmatchM pat n) = false := by simp [hp.1, hp.2]
      cases e <;> simp [this]
    · rw [if_neg hp]
      have hpk : (decide (pat = []) || fnmatchM pat n) = true := by
        by_cases h0 : pat = []
        · simp [h0]
        · have : fnmatchM pat n ≠ false := fun h => hp ⟨h0, h⟩
          simp [h0]; cases hf : fnmatchM pat n <;> simp_all
      cases e with
      | dir =>
        have hs : dirExists fs (entryPath dir n) = true := by
          rw [dirExists_iff]
          exact ⟨_, resolve_entryPath fs dir n hn p .dir true hrd.1 hg rfl⟩
        cases hu : unk (entryPath dir n) <;> simp [hs, hpk, isLinkEntry]
      | file dd =>
        have hs : dirExists fs (entryPath dir n) = false := by
          unfold dirExists sysStat
          rw [resolve_entryPath fs dir n hn p (.file dd) true hrd.1 hg rfl]
        cases hu : unk (entryPath dir n) <;> cases dirsOnly <;> simp [hs, hpk, isLinkEntry]
      | link t =>
        simp only [← hep]
        cases hu : unk (entryPath dir n) <;> cases dirsOnly <;>
          cases hs : dirExists fs (entryPath dir n) <;> simp [hpk, isLinkEntry]

end Nstd.Path
