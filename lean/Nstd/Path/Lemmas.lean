import Nstd.Path.Spec
/-
  Helper lemmas for the path theorems of C19: the backward scan `splitLast`, the piece
  splitter `splitSep`/`chunks`, and the simulation of the component loop of simplifyPath
  by the stack machine.
-/
namespace Nstd.Path

/-! ### splitLast -/

theorem splitLast_none {p : Nat → Bool} : ∀ {l : Bytes}, splitLast p l = none ↔ ∀ x ∈ l, p x = false := by
  intro l
  induction l with
  | nil => simp [splitLast]
  | cons c cs ih =>
    simp only [splitLast]
    cases hr : splitLast p cs with
    | some t => 
      obtain ⟨d', s', b'⟩ := t
      simp only [reduceCtorEq, false_iff]
      intro h
      have := (ih.mpr (fun x hx => h x (List.mem_cons_of_mem _ hx)))
      simp [hr] at this
    | none =>
      have hcs := ih.mp hr
      by_cases hc : p c = true
      · simp only [hc, if_true, reduceCtorEq, false_iff]
        intro h
        have := h c (List.mem_cons_self)
        simp [hc] at this
      · simp only [hc, Bool.false_eq_true, if_false, true_iff]
        intro x hx
        simp only [List.mem_cons] at hx
        rcases hx with rfl | hx
        · simpa using hc
        · exact hcs x hx

theorem splitLast_some {p : Nat → Bool} : ∀ {l d b : Bytes} {s : Nat},
    splitLast p l = some (d, s, b) → l = d ++ s :: b ∧ p s = true ∧ ∀ x ∈ b, p x = false := by
  intro l
  induction l with
  | nil => intro d b s h; simp [splitLast] at h
  | cons c cs ih =>
    intro d b s h
    simp only [splitLast] at h
    cases hr : splitLast p cs with
    | some t =>
      obtain ⟨d', s', b'⟩ := t
      simp only [hr, Option.some.injEq, Prod.mk.injEq] at h
      obtain ⟨rfl, rfl, rfl⟩ := h
      obtain ⟨h1, h2, h3⟩ := ih hr
      exact ⟨by simp [h1], h2, h3⟩
    | none =>
      simp only [hr] at h
      by_cases hc : p c = true
      · simp only [hc, if_true, Option.some.injEq, Prod.mk.injEq] at h
        obtain ⟨rfl, rfl, rfl⟩ := h
        refine ⟨rfl, hc, ?_⟩
        exact splitLast_none.mp hr
      · simp [hc] at h

/-- the scan finds the separator in front of a `p`-free tail -/
theorem splitLast_append {p : Nat → Bool} (d : Bytes) (s : Nat) (b : Bytes)
    (hs : p s = true) (hb : ∀ x ∈ b, p x = false) : splitLast p (d ++ s :: b) = some (d, s, b) := by
  induction d with
  | nil =>
    simp only [List.nil_append, splitLast]
    rw [splitLast_none.mpr hb]
    simp [hs]
  | cons c cs ih =>
    simp only [List.cons_append, splitLast, ih]


/-! ### splitSep / chunks -/

theorem splitSep_ne_nil (p : Bytes) : splitSep p ≠ [] := by
  cases p with
  | nil => simp [splitSep]
  | cons c cs =>
    simp only [splitSep]
    by_cases hc : isSep c = true
    · simp [hc]
    · simp only [hc, Bool.false_eq_true, if_false]
      cases splitSep cs <;> simp

theorem splitSep_sepfree : ∀ (p : Bytes), ∀ c ∈ splitSep p, ∀ x ∈ c, isSep x = false := by
  intro p
  induction p with
  | nil => intro c hc x hx; simp [splitSep] at hc; subst hc; simp at hx
  | cons a as ih =>
    intro c hc x hx
    simp only [splitSep] at hc
    by_cases ha : isSep a = true
    · simp only [ha, if_true, List.mem_cons] at hc
      rcases hc with rfl | hc
      · simp at hx
      · exact ih c hc x hx
    · simp only [ha, Bool.false_eq_true, if_false] at hc
      cases hs : splitSep as with
      | nil => exact absurd hs (splitSep_ne_nil as)
      | cons h t =>
        simp only [hs, List.mem_cons] at hc
        rcases hc with rfl | hc
        · simp only [List.mem_cons] at hx
          rcases hx with rfl | hx
          · simpa using ha
          · exact ih h (by simp [hs]) x hx
        · exact ih c (by simp [hs, hc]) x hx

theorem splitSep_of_sepfree : ∀ (c : Bytes), (∀ x ∈ c, isSep x = false) → splitSep c = [c] := by
  intro c
  induction c with
  | nil => intro _; simp [splitSep]
  | cons a as ih =>
    intro h
    have ha : isSep a = false := h a (List.mem_cons_self)
    have := ih (fun x hx => h x (List.mem_cons_of_mem _ hx))
    simp [splitSep, ha, this]

/-- pieces of `a ++ sep :: b` -/
theorem splitSep_append_sep (a : Bytes) (s : Nat) (b : Bytes) (hs : isSep s = true) :
    splitSep (a ++ s :: b) = splitSep a ++ splitSep b := by
  induction a with
  | nil => simp [splitSep, hs]
  | cons c cs ih =>
    simp only [List.cons_append, splitSep]
    by_cases hc : isSep c = true
    · simp [hc, ih]
    · simp only [hc, Bool.false_eq_true, if_false, ih]
      cases hcs : splitSep cs with
      | nil => exact absurd hcs (splitSep_ne_nil cs)
      | cons h t => simp

theorem chunks_nil : chunks [] = [] := by simp [chunks, splitSep]

theorem chunks_append_sep (a : Bytes) (s : Nat) (b : Bytes) (hs : isSep s = true) :
    chunks (a ++ s :: b) = chunks a ++ chunks b := by
  simp [chunks, splitSep_append_sep a s b hs]

theorem chunks_of_sepfree (c : Bytes) (hne : c ≠ []) (h : ∀ x ∈ c, isSep x = false) : chunks c = [c] := by
  simp only [chunks, splitSep_of_sepfree c h, List.filter_cons, List.filter_nil]
  cases c with
  | nil => exact absurd rfl hne
  | cons a as => simp

theorem chunks_spec (p : Bytes) : ∀ c ∈ chunks p, c ≠ [] ∧ ∀ x ∈ c, isSep x = false := by
  intro c hc
  simp only [chunks, List.mem_filter] at hc
  refine ⟨?_, splitSep_sepfree p c hc.1⟩
  intro h; subst h; simp at hc


/-! ### the component loop of simplifyPath simulates the stack machine -/

/-- text of a denotation before the final root repair -/
def raw (d : Den) : Bytes := renderItems d.abs (d.comps ++ List.replicate d.ups dotdot)

theorem render_eq (d : Den) : render d = if raw d = [] ∧ d.abs = true then [47] else raw d := rfl

theorem push_ne_nil (abs : Bool) (r c : Bytes) (hc : c ≠ []) : push abs r c ≠ [] := by
  unfold push
  intro h
  have := List.append_eq_nil_iff.mp h
  exact hc this.2

theorem dotdot_sepfree : ∀ x ∈ dotdot, isSep x = false := by decide

theorem lookBack_push (abs : Bool) (r c : Bytes) (hsf : ∀ x ∈ c, isSep x = false) :
    lookBack (push abs r c) = if c = dotdot then none else some r := by
  unfold push lookBack
  by_cases h : r ≠ [] ∨ abs = true
  · simp only [h, if_true, List.append_assoc, List.singleton_append]
    rw [splitLast_append r 47 c (by decide) hsf]
  · simp only [h, if_false]
    have hr : r = [] := by
      by_cases hr : r = []
      · exact hr
      · exact absurd (Or.inl hr) h
    subst hr
    simp only [List.nil_append]
    rw [splitLast_none.mpr hsf]

theorem raw_eq_nil (d : Den) (hv : d.Valid) : raw d = [] ↔ d.comps = [] ∧ d.ups = 0 := by
  unfold raw
  constructor
  · intro h
    cases hc : d.comps with
    | nil =>
      cases hu : d.ups with
      | zero => exact ⟨rfl, rfl⟩
      | succ n =>
        rw [hc, hu] at h
        simp only [List.nil_append, List.replicate_succ, renderItems] at h
        exact absurd h (push_ne_nil _ _ _ (by decide))
    | cons top rest =>
      rw [hc] at h
      simp only [List.cons_append, renderItems] at h
      have : top ≠ [] := (hv top (by simp [hc])).1
      exact absurd h (push_ne_nil _ _ _ this)
  · rintro ⟨h1, h2⟩
    simp [h1, h2, renderItems]

theorem dstep_valid (d : Den) (hv : d.Valid) (c : Bytes) (hne : c ≠ []) (hsf : ∀ x ∈ c, isSep x = false) :
    (dstep d c).Valid := by
  unfold dstep
  by_cases h1 : c = [46]
  · simp only [h1, if_true]; exact hv
  · simp only [h1, if_false]
    by_cases h2 : c = dotdot
    · simp only [h2, if_true]
      cases hc : d.comps with
      | nil => intro x hx; simp at hx
      | cons top rest =>
        intro x hx
        exact hv x (by simp only [hc]; exact List.mem_cons_of_mem _ hx)
    · simp only [h2, if_false]
      intro x hx
      simp only [List.mem_cons] at hx
      rcases hx with rfl | hx
      · exact ⟨hne, hsf, h1, h2⟩
      · exact hv x hx

theorem dstep_abs (d : Den) (c : Bytes) : (dstep d c).abs = d.abs := by
  unfold dstep
  by_cases h1 : c = [46]
  · simp [h1]
  · by_cases h2 : c = dotdot
    · simp only [h2, if_true]; cases d.comps <;> rfl
    · simp [h1, h2]

theorem sstep_raw (d : Den) (hv : d.Valid) (c : Bytes) (hsf : ∀ x ∈ c, isSep x = false) :
    sstep d.abs (raw d) c = raw (dstep d c) := by
  unfold sstep dstep
  by_cases h1 : c = [46]
  · subst h1
    simp [dotdot]
  · by_cases h2 : c = dotdot
    · subst h2
      rw [if_neg h1, if_pos rfl]
      cases hc : d.comps with
      | nil =>
        cases hu : d.ups with
        | zero =>
          have hr0 : raw d = [] := (raw_eq_nil d hv).mpr ⟨hc, hu⟩
          rw [if_neg (by simp [hr0]), if_neg h1, hr0]
          simp [raw, renderItems]
        | succ n =>
          have hr : raw d = push d.abs (renderItems d.abs (List.replicate n dotdot)) dotdot := by
            simp [raw, hc, hu, List.replicate_succ, renderItems]
          have hne : raw d ≠ [] := by rw [hr]; exact push_ne_nil _ _ _ (by decide)
          rw [if_pos ⟨rfl, hne⟩]
          rw [hr, lookBack_push _ _ _ dotdot_sepfree, if_pos rfl]
          simp [raw, h1, List.replicate_succ, renderItems]
      | cons top rest =>
        have hn : IsName top := hv top (by simp [hc])
        have hr : raw d = push d.abs (renderItems d.abs (rest ++ List.replicate d.ups dotdot)) top := by
          simp [raw, hc, renderItems]
        have hne : raw d ≠ [] := by rw [hr]; exact push_ne_nil _ _ _ hn.1
        rw [if_pos ⟨rfl, hne⟩]
        rw [hr, lookBack_push _ _ _ hn.2.1, if_neg hn.2.2.2]
        simp [raw, h1]
    · simp [h1, h2, raw, renderItems]

theorem foldl_sstep_raw (abs : Bool) : ∀ (cs : List Bytes) (d : Den), d.abs = abs → d.Valid →
    (∀ c ∈ cs, c ≠ [] ∧ ∀ x ∈ c, isSep x = false) →
    cs.foldl (sstep abs) (raw d) = raw (cs.foldl dstep d) ∧ (cs.foldl dstep d).Valid ∧ (cs.foldl dstep d).abs = abs := by
  intro cs
  induction cs with
  | nil => intro d ha hv _; exact ⟨rfl, hv, ha⟩
  | cons c cs ih =>
    intro d ha hv hcs
    have hc := hcs c (List.mem_cons_self)
    simp only [List.foldl_cons]
    have h1 := sstep_raw d hv c hc.2
    rw [ha] at h1
    rw [h1]
    exact ih (dstep d c) (by rw [dstep_abs, ha]) (dstep_valid d hv c hc.1 hc.2)
      (fun x hx => hcs x (List.mem_cons_of_mem _ hx))

theorem denote_valid (p : Bytes) : (denote p).Valid ∧ (denote p).abs = startsWithSlash p := by
  have := foldl_sstep_raw (startsWithSlash p) (chunks p) ⟨startsWithSlash p, 0, []⟩ rfl
    (by intro c hc; simp at hc) (chunks_spec p)
  exact ⟨this.2.1, this.2.2⟩

/-- simplifyPath computes the canonical text of the denotation -/
theorem simplifyPath_eq_render (p : Bytes) : simplifyPath p = render (denote p) := by
  have := foldl_sstep_raw (startsWithSlash p) (chunks p) ⟨startsWithSlash p, 0, []⟩ rfl
    (by intro c hc; simp at hc) (chunks_spec p)
  have h0 : raw ⟨startsWithSlash p, 0, []⟩ = [] := by simp [raw, renderItems]
  rw [h0] at this
  unfold simplifyPath
  simp only [this.1, render_eq]
  have ha : (denote p).abs = startsWithSlash p := this.2.2
  unfold denote at ha ⊢
  rw [ha]


/-! ### reading the canonical text back -/

def ItemOk (c : Bytes) : Prop := c ≠ [] ∧ ∀ x ∈ c, isSep x = false

theorem chunks_push (abs : Bool) (r c : Bytes) (hc : ItemOk c) : chunks (push abs r c) = chunks r ++ [c] := by
  unfold push
  by_cases h : r ≠ [] ∨ abs = true
  · simp only [h, if_true, List.append_assoc, List.singleton_append]
    rw [chunks_append_sep r 47 c (by decide), chunks_of_sepfree c hc.1 hc.2]
  · simp only [h, if_false]
    have hr : r = [] := by
      by_cases hr : r = []
      · exact hr
      · exact absurd (Or.inl hr) h
    subst hr
    simp [chunks_nil, chunks_of_sepfree c hc.1 hc.2]

theorem chunks_renderItems (abs : Bool) : ∀ (its : List Bytes), (∀ c ∈ its, ItemOk c) →
    chunks (renderItems abs its) = its.reverse := by
  intro its
  induction its with
  | nil => intro _; simp [renderItems, chunks_nil]
  | cons c rest ih =>
    intro h
    simp only [renderItems]
    rw [chunks_push abs _ c (h c (List.mem_cons_self)), ih (fun x hx => h x (List.mem_cons_of_mem _ hx))]
    simp

theorem renderItems_ne_nil (abs : Bool) (its : List Bytes) (h : ∀ c ∈ its, ItemOk c) (hne : its ≠ []) :
    renderItems abs its ≠ [] := by
  cases its with
  | nil => exact absurd rfl hne
  | cons c rest => simp only [renderItems]; exact push_ne_nil _ _ _ (h c (List.mem_cons_self)).1

theorem startsWithSlash_append (r t : Bytes) (hr : r ≠ []) : startsWithSlash (r ++ t) = startsWithSlash r := by
  cases r with
  | nil => exact absurd rfl hr
  | cons a as => rfl

theorem startsWithSlash_renderItems (abs : Bool) : ∀ (its : List Bytes), (∀ c ∈ its, ItemOk c) → its ≠ [] →
    startsWithSlash (renderItems abs its) = abs := by
  intro its
  induction its with
  | nil => intro _ h; exact absurd rfl h
  | cons c rest ih =>
    intro h _
    have hc := h c (List.mem_cons_self)
    have hrest : ∀ x ∈ rest, ItemOk x := fun x hx => h x (List.mem_cons_of_mem _ hx)
    simp only [renderItems, push]
    by_cases hr : rest = []
    · subst hr
      simp only [renderItems]
      cases abs with
      | true => simp [startsWithSlash, isSep]
      | false =>
        simp only [ne_eq, not_true_eq_false, Bool.false_eq_true, or_self, if_false, List.nil_append]
        cases c with
        | nil => exact absurd rfl hc.1
        | cons a as => simp only [startsWithSlash]; exact hc.2 a (List.mem_cons_self)
    · have hne := renderItems_ne_nil abs rest hrest hr
      simp only [hne, ne_eq, not_false_eq_true, true_or, if_true, List.append_assoc]
      rw [startsWithSlash_append _ _ hne]
      exact ih hrest hr

theorem foldl_dstep_ups (a : Bool) : ∀ (n u : Nat),
    (List.replicate n dotdot).foldl dstep ⟨a, u, []⟩ = ⟨a, u + n, []⟩ := by
  intro n
  induction n with
  | zero => intro u; rfl
  | succ n ih =>
    intro u
    simp only [List.replicate_succ, List.foldl_cons]
    have : dstep ⟨a, u, []⟩ dotdot = ⟨a, u + 1, []⟩ := by simp [dstep, dotdot]
    rw [this, ih]
    congr 1
    omega

theorem foldl_dstep_names (a : Bool) (u : Nat) : ∀ (cs st : List Bytes), (∀ c ∈ cs, IsName c) →
    cs.foldl dstep ⟨a, u, st⟩ = ⟨a, u, cs.reverse ++ st⟩ := by
  intro cs
  induction cs with
  | nil => intro st _; rfl
  | cons c cs ih =>
    intro st h
    have hc := h c (List.mem_cons_self)
    simp only [List.foldl_cons]
    have : dstep ⟨a, u, st⟩ c = ⟨a, u, c :: st⟩ := by simp [dstep, hc.2.2.1, hc.2.2.2]
    rw [this, ih (c :: st) (fun x hx => h x (List.mem_cons_of_mem _ hx))]
    simp

theorem items_ok (d : Den) (hv : d.Valid) : ∀ c ∈ d.comps ++ List.replicate d.ups dotdot, ItemOk c := by
  intro c hc
  simp only [List.mem_append, List.mem_replicate] at hc
  rcases hc with hc | ⟨_, rfl⟩
  · exact ⟨(hv c hc).1, (hv c hc).2.1⟩
  · exact ⟨by decide, dotdot_sepfree⟩

/-- the canonical text denotes what it was rendered from -/
theorem denote_render (d : Den) (hv : d.Valid) : denote (render d) = d := by
  obtain ⟨a, u, cs⟩ := d
  rw [render_eq]
  by_cases h0 : raw ⟨a, u, cs⟩ = []
  · have := (raw_eq_nil _ hv).mp h0
    simp only at this
    obtain ⟨rfl, rfl⟩ := this
    cases a with
    | true => simp only [h0, and_self, if_true]; decide
    | false => simp only [h0]; decide
  · rw [if_neg (fun h => h0 h.1)]
    have hok := items_ok ⟨a, u, cs⟩ hv
    have hne : cs ++ List.replicate u dotdot ≠ [] := by
      intro h
      apply h0
      simp [raw, h, renderItems]
    unfold denote
    simp only [raw] at h0 ⊢
    rw [startsWithSlash_renderItems a _ hok hne, chunks_renderItems a _ hok]
    simp only [List.reverse_append, List.reverse_replicate, List.foldl_append]
    rw [foldl_dstep_ups a u 0, foldl_dstep_names a (0 + u) cs.reverse [] (by
      intro c hc; exact hv c (by simpa using hc))]
    simp

end Nstd.Path
