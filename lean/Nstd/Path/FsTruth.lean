import Nstd.Path.FsMore
import Nstd.Path.FsUnlinkGen
/-
  Truthfulness of the query functions against the world: File::exists (lstat), Directory::exists (stat + S_ISDIR),
  File::time (stat); File::getAbsolutePath / Directory::change / getCurrentDirectory name the same objects.
-/
namespace Nstd.Path

theorem found_in_world (fs : Fs) (hinv : Inv fs) (path : Bytes) (fo : Bool) (q : CPath) (e : Entry)
    (h : resolve fs path fo = .found q e) : fs.get q = some e := by
  have := resolve_resOk fs hinv path fo
  rw [h] at this
  rcases this with ⟨rfl, rfl⟩ | hg
  · simp [Fs.get]
  · exact hg

theorem fileExists_iff (fs : Fs) (path : Bytes) :
    fileExists fs path = true ↔ ∃ q e, resolve fs path false = .found q e := by
  unfold fileExists sysStat
  cases hr : resolve fs path false with
  | found q e => simp [isOk]
  | missing _ _ => simp [isOk]
  | err _ => simp [isOk]

theorem dirExists_iff (fs : Fs) (path : Bytes) :
    dirExists fs path = true ↔ ∃ q, resolve fs path true = .found q .dir := by
  unfold dirExists sysStat
  cases hr : resolve fs path true with
  | found q e => cases e <;> simp
  | missing _ _ => simp
  | err _ => simp

theorem fileTime_iff (fs : Fs) (path : Bytes) :
    fileTime fs path = true ↔ ∃ q e, resolve fs path true = .found q e := by
  unfold fileTime sysStat
  cases hr : resolve fs path true with
  | found q e => simp [isOk]
  | missing _ _ => simp [isOk]
  | err _ => simp [isOk]

/-- what `stat` finds, `lstat` finds too (possibly the link instead of its target) -/
theorem walk_follow_nofollow (fs : Fs) (fuel : Nat) : ∀ (cur : CPath) (comps : List Name) (q : CPath) (e : Entry),
    walk fs fuel cur comps true = .found q e → ∃ q' e', walk fs fuel cur comps false = .found q' e' := by
  apply walk_lift fs (fun k => ∀ (cur : CPath) (comps : List Name) (q : CPath) (e : Entry),
    k cur comps true = .found q e → ∃ q' e', k cur comps false = .found q' e')
  · intro _ _ _ _ hh; simp at hh
  · intro k hk cur comps
    induction comps generalizing cur with
    | nil => intro q e hh; exact ⟨cur, .dir, by simp [walkAux]⟩
    | cons c rest ih =>
      intro q e hh
      rw [walkAux_cons] at hh ⊢
      by_cases h1 : c = [46]
      · rw [if_pos h1] at hh ⊢; exact ih _ _ _ hh
      · rw [if_neg h1] at hh ⊢
        by_cases h2 : c = dotdot
        · rw [if_pos h2] at hh ⊢; exact ih _ _ _ hh
        · rw [if_neg h2] at hh ⊢
          cases hg : fs.get (cur ++ [c]) with
          | none =>
            simp only [hg] at hh
            by_cases hr : rest = [] <;> simp [hr] at hh
          | some e0 =>
            simp only [hg] at hh ⊢
            cases e0 with
            | dir => (try dsimp only at hh); (try dsimp only); exact ih _ _ _ hh
            | file d =>
              (try dsimp only at hh); (try dsimp only)
              by_cases hr : rest = []
              · simp [hr]
              · simp [hr] at hh
            | link t =>
              (try dsimp only at hh); (try dsimp only)
              by_cases hr : rest = []
              · simp [hr]
              · simp only [hr, false_and, if_false] at hh ⊢
                exact hk _ _ _ _ hh

theorem resolve_follow_nofollow (fs : Fs) (path : Bytes) (q : CPath) (e : Entry)
    (h : resolve fs path true = .found q e) : ∃ q' e', resolve fs path false = .found q' e' := by
  unfold resolve at h ⊢
  by_cases hne : path = []
  · simp [hne] at h
  · rw [if_neg hne] at h ⊢; exact walk_follow_nofollow fs _ _ _ _ _ h

/-! ### working directory -/

theorem kchunks_slash (b : Bytes) : kchunks (47 :: b) = kchunks b := by
  have := kchunks_append_sep [] 47 b (by decide)
  simpa [kchunks_nil] using this

/-- the text getcwd + "/" + path splits into the components of the working directory and those of the path -/
theorem kchunks_cwdString (p : Bytes) : ∀ (wd : CPath), (∀ c ∈ wd, KName c) →
    kchunks (cwdString wd ++ 47 :: p) = wd ++ kchunks p := by
  intro wd
  induction wd with
  | nil => intro _; simp [cwdString, kchunks_slash]
  | cons c wd ih =>
    intro hn
    have hc := hn c List.mem_cons_self
    have ih' := ih (fun x hx => hn x (List.mem_cons_of_mem _ hx))
    have hS : ∃ X, cwdString wd ++ 47 :: p = 47 :: X := by
      cases wd with
      | nil => exact ⟨p, by simp [cwdString]⟩
      | cons a as => exact ⟨a ++ (cwdString as ++ 47 :: p), by simp [cwdString]⟩
    obtain ⟨X, hX⟩ := hS
    have h1 : cwdString (c :: wd) ++ 47 :: p = 47 :: (c ++ (cwdString wd ++ 47 :: p)) := by
      simp [cwdString]
    rw [h1, kchunks_slash, hX, kchunks_append_sep c 47 X (by decide), kchunks_of_sepfree c hc.1 hc.2.1]
    rw [hX, kchunks_slash] at ih'
    rw [ih']; simp

theorem walkAux_plain_prefix (fs : Fs) (k : CPath → List Name → Bool → Res) (comps : List Name) (fo : Bool) :
    ∀ (wd : CPath) (start : CPath), PlainDirs fs start wd →
    walkAux fs k start (wd ++ comps) fo = walkAux fs k (start ++ wd) comps fo := by
  intro wd
  induction wd with
  | nil => intro start _; simp
  | cons c rest ih =>
    intro start hp
    obtain ⟨hc1, hc2, hg, hrest⟩ := hp
    rw [List.cons_append, walkAux_cons, if_neg hc1, if_neg hc2]
    simp only [hg]
    rw [ih (start ++ [c]) hrest]
    simp [List.append_assoc]

theorem plainDirs_of_present (fs : Fs) : ∀ (cs : List Name) (start : CPath),
    (∀ k, 1 ≤ k → k ≤ cs.length → fs.get (start ++ cs.take k) = some .dir) → (∀ c ∈ cs, KName c) →
    PlainDirs fs start cs := by
  intro cs
  induction cs with
  | nil => intro _ _ _; trivial
  | cons c rest ih =>
    intro start hg hn
    have hc := hn c List.mem_cons_self
    refine ⟨hc.2.2.1, hc.2.2.2, by simpa using hg 1 (by omega) (by simp), ih (start ++ [c]) ?_ (fun x hx => hn x (List.mem_cons_of_mem _ hx))⟩
    intro k hk1 hk2
    have := hg (k + 1) (by omega) (by simp; omega)
    simpa [List.append_assoc] using this

/-- a directory of a well-formed world is reached from the root through real directories only -/
theorem plainDirs_root (fs : Fs) (hwf : WF fs) (wd : CPath) (hp : Present fs wd) :
    PlainDirs fs [] wd ∧ ∀ c ∈ wd, KName c := by
  have hn := present_names fs hwf wd hp
  refine ⟨plainDirs_of_present fs wd [] ?_ hn, hn⟩
  intro k hk1 hk2
  rcases present_prefix fs hwf wd hp k hk2 with h0 | hg
  · exfalso
    have : (wd.take k).length = 0 := by rw [h0]; rfl
    rw [List.length_take] at this; omega
  · simpa using hg

/-- File::getAbsolutePath names what its argument names: in a process whose working directory `wd` is a directory of
    the (well-formed) world, resolving getAbsolutePath(p) gives exactly what resolving `p` gives (found entry, missing
    name or error; with and without following a final link) — for every non-empty path string -/
theorem getAbsolutePathAt_same (fs : Fs) (hwf : WF fs) (wd : CPath) (hp : Present fs wd) (p : Bytes) (hne : p ≠ [])
    (fo : Bool) : resolveAt fs wd (getAbsolutePathAt wd p) fo = resolveAt fs wd p fo := by
  unfold getAbsolutePathAt
  by_cases ha : isAbsolutePath p = true
  · rw [if_pos ha]
  · rw [if_neg ha]
    have hns : startsWith47 p = false := by
      cases p with
      | nil => rfl
      | cons a as =>
        simp only [isAbsolutePath, startsWithSlash, Bool.or_eq_true, not_or] at ha
        have h1 := ha.1
        simp only [isSep, Bool.or_eq_true, beq_iff_eq, not_or] at h1
        simp [startsWith47, h1.1]
    obtain ⟨hpl, hn⟩ := plainDirs_root fs hwf wd hp
    have hs : startsWith47 (cwdString wd ++ [47] ++ p) = true := by
      cases wd with
      | nil => simp [cwdString, startsWith47]
      | cons a as => simp [cwdString, startsWith47]
    unfold resolveAt
    rw [if_neg (by simp), if_neg hne, hs, hns]
    simp only [if_true, Bool.false_eq_true, if_false]
    rw [List.append_assoc, List.singleton_append, kchunks_cwdString p wd hn]
    cases walkFuel with
    | zero => simpa [walk] using walkAux_plain_prefix fs _ (kchunks p) fo wd [] hpl
    | succ f => simpa [walk] using walkAux_plain_prefix fs _ (kchunks p) fo wd [] hpl

end Nstd.Path
