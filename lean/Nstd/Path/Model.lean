/-
  Model of the path scanners of libnstd `src/File.cpp` (property C19) over byte lists:
  `getDirectoryName`, `getBaseName(ext)`, `getStem`, `getExtension`, `simplifyPath`
  (component loop with the look-back for `..`), `isAbsolutePath`, `getRelativePath`
  (prefix walk).  The model mirrors the *repaired* code (fixes/path/*.patch).
  Strings are lists of byte values; they never contain the NUL byte (C strings).
  Core Lean only.
-/
namespace Nstd.Path

abbrev Bytes := List Nat

/-- `'/'` or `'\\'` -/
def isSep (c : Nat) : Bool := c == 47 || c == 92
def isDot (c : Nat) : Bool := c == 46
def isSlash (c : Nat) : Bool := c == 47

def dotdot : Bytes := [46, 46]

/-- The backward scans of File.cpp (`for(pos = end - 1; pos >= start; --pos) if(p(*pos)) …`):
    position of the LAST byte satisfying `p`, as (bytes before, that byte, bytes after). -/
def splitLast (p : Nat → Bool) : Bytes → Option (Bytes × Nat × Bytes)
  | [] => none
  | c :: cs =>
    match splitLast p cs with
    | some (d, s, b) => some (c :: d, s, b)
    | none => if p c then some ([], c, cs) else none

/-- File::getDirectoryName -/
def getDirectoryName (file : Bytes) : Bytes :=
  match splitLast isSep file with
  | some (d, _, _) => d
  | none => [46]

/-- `result`/`resultLen` of getBaseName / getStem: what follows the last separator -/
def afterLastSep (file : Bytes) : Bytes :=
  match splitLast isSep file with
  | some (_, _, b) => b
  | none => file

/-- File::getBaseName(file, extension) -/
def getBaseName (file ext : Bytes) : Bytes :=
  let result := afterLastSep file
  let rl := result.length
  let el := ext.length
  if el = 0 then result
  else if ext.head? = some 46 then
    if rl ≥ el ∧ result.drop (rl - el) = ext then result.take (rl - el) else result
  else
    if rl ≥ el + 1 ∧ result[rl - (el + 1)]? = some 46 ∧ result.drop (rl - el) = ext
    then result.take (rl - (el + 1)) else result

/-- File::getStem(file, extension) (repaired: the LAST dot of the base name, as getExtension) -/
def getStem (file ext : Bytes) : Bytes :=
  if ext ≠ [] then getBaseName file ext
  else
    let b := afterLastSep file
    match splitLast isDot b with
    | some (d, _, _) => d
    | none => b

/-- File::getExtension -/
def getExtension (file : Bytes) : Bytes :=
  match splitLast isDot (afterLastSep file) with
  | some (_, _, e) => e
  | none => []

/-! ### simplifyPath -/

/-- split at every separator (empty pieces included) -/
def splitSep : Bytes → List Bytes
  | [] => [[]]
  | c :: cs =>
    if isSep c then [] :: splitSep cs
    else match splitSep cs with
      | [] => [[c]]
      | h :: t => (c :: h) :: t

/-- the chunks the component loop of simplifyPath visits: maximal separator-free, non-empty pieces -/
def chunks (p : Bytes) : List Bytes := (splitSep p).filter (fun c => !c.isEmpty)

/-- `*data == '/' || *data == '\\'` -/
def startsWithSlash : Bytes → Bool
  | c :: _ => isSep c
  | [] => false

/-- `if(!result.isEmpty() || startsWithSlash) result.append('/'); result.append(chunck)` -/
def push (abs : Bool) (r chunk : Bytes) : Bytes :=
  (if r ≠ [] ∨ abs = true then r ++ [47] else r) ++ chunk

/-- the look-back loop: `some r'` = result truncated before its last component,
    `none` = the last component of result is `..` (fall through to the append) -/
def lookBack (r : Bytes) : Option Bytes :=
  match splitLast isSep r with
  | some (d, _, b) => if b = dotdot then none else some d
  | none => if r = dotdot then none else some []

/-- one round of the component loop -/
def sstep (abs : Bool) (r chunk : Bytes) : Bytes :=
  if chunk = dotdot ∧ r ≠ [] then
    match lookBack r with
    | some r' => r'
    | none => push abs r chunk
  else if chunk = [46] then r
  else push abs r chunk

/-- File::simplifyPath (repaired: an absolute path never becomes the empty relative one) -/
def simplifyPath (p : Bytes) : Bytes :=
  let abs := startsWithSlash p
  let r := (chunks p).foldl (sstep abs) []
  if r = [] ∧ abs = true then [47] else r

/-- File::isAbsolutePath -/
def isAbsolutePath (p : Bytes) : Bool :=
  startsWithSlash p ||
    (decide (p.length > 2) && p[1]? == some 58 && (match p[2]? with | some c => isSep c | none => false))

/-! ### getRelativePath (repaired) -/

def startsWith47 : Bytes → Bool
  | c :: _ => c == 47
  | [] => false

/-- `if(!s.isEmpty() && !s.endsWith("/")) s.append('/')` -/
def ensureSlash (s : Bytes) : Bytes :=
  if s ≠ [] ∧ s.getLast? ≠ some 47 then s ++ [47] else s

/-- `simFrom.resize(len - 1); newEnd = simFrom.findLast('/'); newLen = newEnd ? newEnd - simFrom + 1 : 0`:
    (the new simFrom, the component that is dropped) -/
def stripLast (s : Bytes) : Bytes × Bytes :=
  let t := s.dropLast
  match splitLast isSlash t with
  | some (d, _, b) => (d ++ [47], b)
  | none => ([], t)

/-- the `while(simFrom.length() > 0)` loop; `fuel` ≥ length of simFrom is enough -/
def relLoop : Nat → Bytes → Bytes → Bytes → Bytes → Bytes
  | 0, _, _, _, _ => []
  | fuel + 1, simFrom, simTo, simToDir, result =>
    if simFrom = [] then []
    else
      let (f', comp) := stripLast simFrom
      if comp = dotdot then []
      else
        let result := result ++ [46, 46, 47]
        if f'.isPrefixOf simToDir then
          if simTo.length > f'.length then result ++ simTo.drop f'.length else result.dropLast
        else relLoop fuel f' simTo simToDir result

/-- File::getRelativePath(from, to); `[]` = there is no relative path -/
def getRelativePath (frm to : Bytes) : Bytes :=
  let f := simplifyPath frm
  let t := simplifyPath to
  if f = t then [46]
  else if startsWith47 f ≠ startsWith47 t then []
  else
    let f := ensureSlash f
    let td := ensureSlash t
    if f.isPrefixOf td then t.drop f.length
    else relLoop f.length f t td []

end Nstd.Path
