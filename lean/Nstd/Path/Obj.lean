/-
  Closed-world model of the File / Directory OBJECT life cycle of libnstd (property C19, anchor "descriptor stored in a
  pointer-sized field with 0 meaning closed", File.cpp:21-160; Directory.cpp: Directory/~Directory/open/close) and of the
  descriptors File::copy holds inside the call.  The process owns a set of open descriptors (besides 0, 1, 2, which stay
  open — ASSUMED: `::open`/`opendir` never return descriptor 0); an object is a slot with the field `fp` (`dp`).
  What the system calls inside an operation answer is an environment choice (`OpenEnv`, `CopyEnv`), so the theorems
  (Nstd/Path/PropsObj.lean) hold for every file system and every fault.  Mirrors the POSIX branches, with
  fixes/path/0014 (File::copy closes the source when an lseek fails).  Core Lean only.
-/
namespace Nstd.Path.Obj

/-- what `::open` + `fstat` + the append `lseek` inside File::open answer (Directory::open: `opendir` = fail | ok) -/
inductive OpenEnv where
  | fail        -- ::open == -1
  | isDir       -- a descriptor, but fstat says directory (repaired File::open: EISDIR)
  | seekFail    -- a descriptor, lseek(fd, 0, SEEK_END) == -1 (only asked with appendFlag)
  | ok
  deriving DecidableEq, Repr

/-- the system calls inside File::copy, in their order -/
inductive CopyEnv where
  | srcFail | srcDir | sameFile | sizeSeekFail | rewindSeekFail | destFail | sendFail | ok
  deriving DecidableEq, Repr

inductive Op where
  | openF (i : Nat) (env : OpenEnv) (append : Bool)   -- File::open / Directory::open on object i
  | close (i : Nat)
  | isOpen (i : Nat)
  | destroy (i : Nat)                                  -- destructor, then a fresh object in the slot
  | copy (env : CopyEnv)                               -- static File::copy
  deriving Repr

structure St where
  /-- open descriptors of the process besides 0, 1, 2 -/
  fds : List Nat
  /-- the pointer-sized field of object i; 0 = closed -/
  fp : Nat → Nat

def init : St := { fds := [], fp := fun _ => 0 }

def upd (f : Nat → Nat) (i v : Nat) : Nat → Nat := fun j => if j = i then v else f j

/-- the descriptor `::open` hands out: one that is not open, never 0, 1, 2 -/
def fresh (fds : List Nat) : Nat := fds.foldl max 2 + 1

/-- `::open` succeeded: the descriptor is in the table -/
def sysOpen (st : St) : St × Nat := ({ st with fds := fresh st.fds :: st.fds }, fresh st.fds)
/-- `::close(fd)` -/
def sysClose (st : St) (fd : Nat) : St := { st with fds := st.fds.erase fd }

/-- File::open (POSIX branch), as far as descriptors and the field are concerned -/
def fileOpen (st : St) (i : Nat) (env : OpenEnv) (append : Bool) : St × Bool :=
  if st.fp i ≠ 0 then (st, false)                       -- `if(fp) { errno = EINVAL; return false; }`
  else
    match env with
    | .fail => ({ st with fp := upd st.fp i 0 }, false) -- `fp = 0; return false;`
    | .isDir =>
      let (st, fd) := sysOpen st
      let st := { st with fp := upd st.fp i fd }
      let st := sysClose st (st.fp i)
      ({ st with fp := upd st.fp i 0 }, false)
    | .seekFail =>
      let (st, fd) := sysOpen st
      let st := { st with fp := upd st.fp i fd }
      if append then
        let st := sysClose st (st.fp i)
        ({ st with fp := upd st.fp i 0 }, false)
      else (st, true)
    | .ok =>
      let (st, fd) := sysOpen st
      ({ st with fp := upd st.fp i fd }, true)

/-- File::close / Directory::close -/
def close (st : St) (i : Nat) : St :=
  if st.fp i ≠ 0 then
    let st := sysClose st (st.fp i)
    { st with fp := upd st.fp i 0 }
  else st

/-- File::copy (repaired by fixes/path/0014: both lseek failure returns close the source) -/
def copy (st : St) (env : CopyEnv) : St × Bool :=
  match env with
  | .srcFail => (st, false)
  | .srcDir | .sameFile | .sizeSeekFail | .rewindSeekFail =>
    let (st, fd) := sysOpen st
    (sysClose st fd, false)
  | .destFail =>
    let (st, fd) := sysOpen st
    (sysClose st fd, false)
  | .sendFail =>
    let (st, fd) := sysOpen st
    let (st, dest) := sysOpen st
    (sysClose (sysClose st fd) dest, false)
  | .ok =>
    let (st, fd) := sysOpen st
    let (st, dest) := sysOpen st
    (sysClose (sysClose st fd) dest, true)

/-- one operation: new state and the Boolean it answers -/
def step (st : St) : Op → St × Bool
  | .openF i env a => fileOpen st i env a
  | .close i => (close st i, true)
  | .isOpen i => (st, decide (st.fp i ≠ 0))
  | .destroy i => (close st i, true)          -- `~File() { close(); }`, `~Directory() { if(dp) closedir(dp); }`; fresh object: field 0
  | .copy env => copy st env

def run (st : St) : List Op → St
  | [] => st
  | op :: ops => run (step st op).1 ops

/-- number of descriptors the process holds -/
def held (st : St) : Nat := st.fds.length

end Nstd.Path.Obj
