import Nstd.Path.FsLib
/-
  Second part of the library model of src/File.cpp / src/Directory.cpp (POSIX branches, repaired code):
  * Directory::open(dir, pattern, dirsOnly) + Directory::read with the pattern test, the dirsOnly filter and
    the `d_type` the kernel reports (a file system may answer DT_UNKNOWN for any entry: oracle `unk`);
  * the wildcard matchers: `fnmatchM` = the ASSUMED behaviour of libc `fnmatch(pattern, name, 0)` for
    patterns without `[` and `\`; `wildF` = `PatternMatcher::szWildMatch7` of Directory.cpp (the hand
    written matcher of the _WIN32 branch of Directory::read, goto structure kept);
  * Directory::unlink with the `d_type` oracle (repaired: DT_UNKNOWN → lstat);
  * Directory::change / getCurrentDirectory / File::getAbsolutePath / exists relative to a working directory;
  * File::time (the answer, not the time stamps).
-/
namespace Nstd.Path

/-! ### wildcard matching -/

/-- ASSUMED libc: `fnmatch(pattern, name, 0) == 0` for patterns over `*`, `?` and ordinary bytes
    (flags = 0: a leading dot and `/` are ordinary) -/
def fnmatchM : Bytes → Bytes → Bool
  | [], [] => true
  | [], _ :: _ => false
  | c :: p, [] => if c = 42 then fnmatchM p [] else false
  | c :: p, x :: s =>
    if c = 42 then fnmatchM p (x :: s) || fnmatchM (c :: p) s
    else if c = 63 then fnmatchM p s
    else c == x && fnmatchM p s
termination_by p s => p.length + s.length

/-- patterns inside the modelled fragment of fnmatch: no bracket expression, no escape character -/
def patOk (p : Bytes) : Bool := p.all (fun c => c != 91 && c != 92)

/-- `do { ++pat; } while(*pat == '*')` / `while(*p == '*') ++p` -/
def dropStars : Bytes → Bytes
  | [] => []
  | c :: p => if c = 42 then dropStars p else c :: p

/-- how the `for(s = str, p = pat; *s; ++s, ++p)` loop of szWildMatch7 ends -/
inductive ScanRes
  | ret (b : Bool)                  -- `return`
  | restart (pat str : Bytes)       -- case '*': new anchors, `goto loopStart`
  | mismatch                        -- `goto starCheck`
deriving Repr, DecidableEq

/-- one run of the inner loop from the anchors (`pat`, `str`).  `lower` = String::toLowerCase(char)
    (assumed: `lower x ≠ lower 0` for the non-NUL bytes of a C string, so a name byte never equals the
    pattern's terminator) -/
def wscan (lower : Nat → Nat) : Bytes → Bytes → ScanRes
  | p, [] => .ret (dropStars p == [])
  | [], _ :: _ => .mismatch
  | c :: p, x :: s =>
    if c = 63 then wscan lower p s
    else if c = 42 then (if dropStars p = [] then .ret true else .restart (dropStars p) (x :: s))
    else if lower x ≠ lower c then .mismatch
    else wscan lower p s

/-- PatternMatcher::szWildMatch7(pat, str): `star` = a `*` has been seen (one back-track point: the last one);
    each round either returns, moves the anchors behind a `*` (pattern gets shorter) or advances the string
    anchor by one (`str++`).  `fuel` > |pat| + |str| is enough (`wild_fuel_enough`). -/
def wildF (lower : Nat → Nat) : Nat → Bool → Bytes → Bytes → Bool
  | 0, _, _, _ => false
  | fuel + 1, star, pat, str =>
    match wscan lower pat str with
    | .ret b => b
    | .restart pat' str' => wildF lower fuel true pat' str'
    | .mismatch =>
      if star = false then false
      else match str with
        | [] => false
        | _ :: t => wildF lower fuel true pat t

/-- szWildMatch7 as called by Directory::read -/
def szWildMatch7 (lower : Nat → Nat) (pat str : Bytes) : Bool :=
  wildF lower (pat.length + str.length + 1) false pat str

/-- ASCII instance of String::toLowerCase(char) used by the driver -/
def lowerAscii (c : Nat) : Nat := if 65 ≤ c ∧ c ≤ 90 then c + 32 else c

/-! ### Directory::open(dir, pattern, dirsOnly) + Directory::read until the end -/

/-- the path string Directory::read builds for `stat`: `dirpath.isEmpty() ? name : dirpath + "/" + name` -/
def entryPath (dir : Bytes) (n : Name) : Bytes := (if dir = [] then [] else dir ++ [47]) ++ n

def isLinkEntry : Entry → Bool
  | .link _ => true
  | _ => false

/-- one `dirent` in Directory::read (repaired: the dirsOnly test comes after the stat of links / DT_UNKNOWN
    entries): `none` = skipped, `some (name, isDir)` = returned.  `unk path` = the file system reports
    DT_UNKNOWN for that entry. -/
def readEntry (fs : Fs) (dir pat : Bytes) (dirsOnly : Bool) (unk : Bytes → Bool) (n : Name) (e : Entry) :
    Option (Name × Bool) :=
  if pat ≠ [] ∧ fnmatchM pat n = false then none
  else
    let u := unk (entryPath dir n)
    let dtDir : Bool := decide (e = .dir) && !u
    let isDir : Bool := dtDir || ((u || isLinkEntry e) && dirExists fs (entryPath dir n))
    if dirsOnly && !isDir then none else some (n, isDir)

def dirListPat (fs : Fs) (dir pat : Bytes) (dirsOnly : Bool) (unk : Bytes → Bool) : Option (List (Name × Bool)) :=
  match sysReaddir fs (if dir = [] then [46] else dir) with
  | .error _ => none
  | .ok (_, ents) => some (ents.filterMap (fun x => readEntry fs dir pat dirsOnly unk x.1 x.2))

/-! ### Directory::unlink on a file system that may report DT_UNKNOWN -/

/-- `isDir` of the loop in Directory::unlink (repaired): `d_type == DT_DIR`, and for DT_UNKNOWN what `lstat` says -/
def entryIsDirU (fs : Fs) (path : Bytes) (e : Entry) (u : Bool) : Bool :=
  if u then (match sysStat fs path false with | .ok .dir => true | _ => false)
  else decide (e = .dir)

def unlinkEntriesU (unk : Bytes → Bool) (rec : Fs → Bytes → Fs × Bool) (prefix_ : Bytes) :
    Fs → List (Name × Entry) → Fs × Bool
  | fs, [] => (fs, true)
  | fs, (n, e) :: rest =>
    if entryIsDirU fs (prefix_ ++ n) e (unk (prefix_ ++ n)) = true then
      match rec fs (prefix_ ++ n) with
      | (fs', false) => (fs', false)
      | (fs', true) => unlinkEntriesU unk rec prefix_ fs' rest
    else
      match fileUnlink fs (prefix_ ++ n) with
      | (fs', false) => (fs', false)
      | (fs', true) => unlinkEntriesU unk rec prefix_ fs' rest

def dirUnlinkU (unk : Bytes → Bool) : Nat → Bool → Fs → Bytes → Fs × Bool
  | 0, _, fs, _ => (fs, false)
  | fuel + 1, recursive, fs, dir =>
    match sysRmdir fs dir with
    | (fs', .ok _) => (fs', true)
    | (fs', .error e) =>
      if recursive = false ∨ e ≠ .enotempty then (fs', false)
      else
        match sysReaddir fs' dir with
        | .error _ => (fs', false)
        | .ok (_, ents) =>
          match unlinkEntriesU unk (dirUnlinkU unk fuel true) (dir ++ [47]) fs' ents with
          | (fs'', false) => (fs'', false)
          | (fs'', true) => let (fs3, r) := sysRmdir fs'' dir; (fs3, isOk r)

def dirUnlinkTopU (unk : Bytes → Bool) (fs : Fs) (dir : Bytes) (recursive : Bool) : Fs × Bool :=
  dirUnlinkU unk (maxDepth fs + 2) recursive fs dir

/-! ### working directory -/

/-- path resolution of a process whose working directory is `wd` (`resolve` = `resolveAt cwd`) -/
def resolveAt (fs : Fs) (wd : CPath) (path : Bytes) (follow : Bool) : Res :=
  if path = [] then .err .enoent
  else walk fs walkFuel (if startsWith47 path then [] else wd) (kchunks path) follow

/-- Directory::change = chdir: the new working directory, `none` = failed (working directory unchanged) -/
def dirChange (fs : Fs) (wd : CPath) (dir : Bytes) : Option CPath :=
  match resolveAt fs wd dir true with
  | .found p .dir => some p
  | _ => none

/-- Directory::getCurrentDirectory = getcwd, as text below the world root (the world root itself is the scratch
    directory of the run, whose own name is stripped: it prints as the empty string) -/
def cwdString (wd : CPath) : Bytes := wd.flatMap (fun c => 47 :: c)

/-- File::getAbsolutePath in a process with working directory `wd` -/
def getAbsolutePathAt (wd : CPath) (path : Bytes) : Bytes :=
  if isAbsolutePath path then path else cwdString wd ++ [47] ++ path

/-- File::exists (lstat) / Directory::exists (stat + S_ISDIR) / File::time (stat) relative to `wd` -/
def fileExistsAt (fs : Fs) (wd : CPath) (path : Bytes) : Bool :=
  match resolveAt fs wd path false with
  | .found _ _ => true
  | _ => false

def dirExistsAt (fs : Fs) (wd : CPath) (path : Bytes) : Bool :=
  match resolveAt fs wd path true with
  | .found _ .dir => true
  | _ => false

/-- File::time: true iff `stat` (following links) finds something -/
def fileTime (fs : Fs) (path : Bytes) : Bool := isOk (sysStat fs path true)

/-- File::isExecutable (stat + any x bit) in the closed world of the library: Directory::create makes directories with
    mode 0755, File::open / File::copy / the rename placeholder make files with 0644, nothing changes a mode afterwards
    (ASSUMED: the umask leaves these bits) — so the answer is "stat finds a directory" -/
def fileIsExecutable (fs : Fs) (path : Bytes) : Bool :=
  match sysStat fs path true with
  | .ok .dir => true
  | _ => false

/-! ### environment choices: failing lseek in File::open, short buffers in getcwd -/

/-- File::open when the environment lets the lseek of the append branch fail (File.cpp:130-137): the descriptor is
    closed and `false` returned; what ::open did to the world before (O_CREAT) stays.  Third component: did the failure
    fire (it does not without appendFlag, or when ::open fails or finds a directory) -/
def fileOpenF (fs : Fs) (path : Bytes) (flags : Nat) : Fs × Option Fd × Bool :=
  match sysOpen fs path (openFlags flags) with
  | (fs', .error _) => (fs', none, false)
  | (fs', .ok fd) =>
    if fd.isDir = true then (fs', none, false)
    else if hasFlag flags appendFlag then (fs', none, true)
    else (fs', some fd, false)

/-- ASSUMED getcwd(buf, size): ERANGE unless the text with its terminator fits — and unless `size` reaches what the
    environment demands (`need`: a longer real path than the model's text, e.g. a deep scratch directory) -/
def sysGetcwd (text : Bytes) (need size : Nat) : Option Bytes :=
  if text.length + 1 ≤ size ∧ need ≤ size then some text else none

/-- Directory::getCurrentDirectory: `result.resize(PATH_MAX); for(;;) { if(getcwd(...)) return …; if(errno == ERANGE)
    { result.resize(result.length() * 2); continue; } return String(); }` -/
def getcwdLoop (text : Bytes) (need : Nat) : Nat → Nat → Option Bytes
  | 0, _ => none
  | fuel + 1, size =>
    match sysGetcwd text need size with
    | some t => some t
    | none => getcwdLoop text need fuel (size * 2)

end Nstd.Path
