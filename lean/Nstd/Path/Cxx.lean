import Nstd.Path.Model
/-
  Run-time definitions of the translated path scanners (property C19).

  `tools/gen_path.py` reads the bodies of File::getDirectoryName / getBaseName / getStem / getExtension /
  isAbsolutePath / simplifyPath out of the CURRENT `src/File.cpp` and writes them, statement by statement, as Lean
  functions into `Nstd/Generated/PathScan.lean`.  The generated code only uses what is defined here:

  * a `const char*` into a String `s` is an `Int` offset relative to `s` (a pointer that is initialised with `0` is an
    `Option Int`);  `cAt s i` = `s[i]` of the C string (the NUL terminator at `i = length`), reading is DEFINED only for
    `0 ≤ i ≤ length` (`inb`) — the generated code answers `none` (= outside the modelled behaviour) before it evaluates an
    undefined read, a `usize` that would be negative, a `String(p, n)` outside the buffer, a growing `resize`;
  * `Exit` = how a statement sequence is left (fall through / `return` / `goto` of a label outside the loop);
  * String members with their documented behaviour (ASSUMED here; they are the subject of the Str area, C06):
    `String(p, n)`, `substr(start, length)`, `String::compare(p, q) == 0` on C strings (no NUL inside), `append`, `resize`
    to a smaller length.
  Core Lean only.
-/
namespace Nstd.Path.Cxx

open Nstd.Path

inductive Exit where
  | fall
  | ret
  | jump (label : Nat)
  deriving DecidableEq, Repr

/-- `s[i]` of the C string `s` (`i = length`: the terminator) -/
def cAt (s : Bytes) (i : Int) : Nat := if 0 ≤ i then s.getD i.toNat 0 else 0

/-- reading `s[i]` is defined -/
def inb (s : Bytes) (i : Int) : Bool := decide (0 ≤ i) && decide (i ≤ s.length)

/-- `String(s + off, len)` -/
def mk (s : Bytes) (off len : Int) : Bytes := (s.drop off.toNat).take len.toNat

/-- … reads inside the buffer -/
def mkOk (s : Bytes) (off len : Int) : Bool := decide (0 ≤ off) && decide (0 ≤ len) && decide (off + len ≤ s.length)

/-- `String::substr(start, length)` (String.hpp: negative start counts from the end, the end is clipped,
    negative length = up to the end) -/
def substr (s : Bytes) (start length : Int) : Bytes :=
  let n : Int := s.length
  let start := if start < 0 then (if n + start < 0 then 0 else n + start) else if start > n then n else start
  let e := if length ≥ 0 then (if start + length > n then n else start + length) else n
  (s.drop start.toNat).take (e - start).toNat

/-- `String::compare(s + i, t + j) == 0`: the C strings from there on are equal (strings hold no NUL) -/
def cstrEq (s : Bytes) (i : Int) (t : Bytes) (j : Int) : Bool := decide (s.drop i.toNat = t.drop j.toNat)

/-- `s.findLast(c)`: pointer to the last occurrence of the byte, or null -/
def findLast (s : Bytes) (c : Nat) : Option Int :=
  match splitLast (fun x => x == c) s with
  | some (d, _, _) => some (d.length : Int)
  | none => none

/-- `s.resize(n)` for `n ≤ length` -/
def resize (s : Bytes) (n : Int) : Bytes := s.take n.toNat

theorem cAt_of_lt (s : Bytes) (i : Nat) (h : i < s.length) : cAt s (i : Int) = s[i] := by
  simp [cAt, List.getD_eq_getElem?_getD, h]

theorem cAt_append_right (a : Bytes) (c : Nat) (b : Bytes) : cAt (a ++ c :: b) (a.length : Int) = c := by
  simp [cAt, List.getD_eq_getElem?_getD]

theorem inb_of_le (s : Bytes) (i : Nat) (h : i ≤ s.length) : inb s (i : Int) = true := by
  simp [inb]; omega

end Nstd.Path.Cxx
