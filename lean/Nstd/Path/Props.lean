import Nstd.Path.Lemmas
import Nstd.Path.LemmasRel
/-
  Property C19, path part: theorems about the model of the path functions of File.cpp
  (Nstd/Path/Model.lean) for ALL byte strings.  Spec: Nstd/Path/Spec.lean (`denote`, `render`, `join`).
-/
namespace Nstd.Path

/-- simplifyPath returns the canonical text of what the path denotes. -/
theorem simplify_canonical (p : Bytes) : simplifyPath p = render (denote p) :=
  simplifyPath_eq_render p

/-- simplifyPath is lexically equivalent to its input: same (absolute?, leading `..`, components). -/
theorem simplify_equiv (p : Bytes) : denote (simplifyPath p) = denote p := by
  rw [simplifyPath_eq_render, denote_render _ (denote_valid p).1]

/-- simplifyPath is idempotent. -/
theorem simplify_idem (p : Bytes) : simplifyPath (simplifyPath p) = simplifyPath p := by
  rw [simplifyPath_eq_render (simplifyPath p), simplify_equiv, ← simplifyPath_eq_render]

/-- equivalent paths have the same simplified text (simplifyPath decides lexical equivalence) -/
theorem simplify_eq_iff (p q : Bytes) : simplifyPath p = simplifyPath q ↔ denote p = denote q := by
  constructor
  · intro h
    have := congrArg denote h
    rwa [simplify_equiv, simplify_equiv] at this
  · intro h
    rw [simplifyPath_eq_render, simplifyPath_eq_render, h]

/-- directory name + the separator that was there + base name give back the path, byte for byte;
    a path without separator has directory `.` and is its own base name. -/
theorem dir_base_recompose (p : Bytes) :
    (∃ s, isSep s = true ∧ p = getDirectoryName p ++ s :: getBaseName p [] ∧
        ∀ x ∈ getBaseName p [], isSep x = false) ∨
    ((∀ x ∈ p, isSep x = false) ∧ getDirectoryName p = [46] ∧ getBaseName p [] = p) := by
  have hb : getBaseName p [] = afterLastSep p := by simp [getBaseName]
  rw [hb]
  unfold getDirectoryName afterLastSep
  cases h : splitLast isSep p with
  | some t =>
    obtain ⟨d, s, b⟩ := t
    obtain ⟨h1, h2, h3⟩ := splitLast_some h
    exact Or.inl ⟨s, h2, h1, h3⟩
  | none => exact Or.inr ⟨splitLast_none.mp h, rfl, rfl⟩

/-- … and `dir / base` denotes the same path, for every string. -/
theorem dir_base_denote (p : Bytes) : denote (getDirectoryName p ++ 47 :: getBaseName p []) = denote p := by
  have hb : getBaseName p [] = afterLastSep p := by simp [getBaseName]
  rw [hb]
  unfold getDirectoryName afterLastSep
  cases h : splitLast isSep p with
  | some t =>
    obtain ⟨d, s, b⟩ := t
    obtain ⟨h1, h2, _⟩ := splitLast_some h
    simp only
    unfold denote
    rw [h1, chunks_append_sep d 47 b (by decide), chunks_append_sep d s b h2]
    cases d with
    | nil =>
      have : startsWithSlash ([] ++ s :: b) = true := h2
      rw [this]; rfl
    | cons a as => rfl
  | none =>
    have hp := splitLast_none.mp h
    simp only
    unfold denote
    rw [chunks_append_sep [46] 47 p (by decide)]
    have h1 : chunks [46] = [[46]] := by decide
    have h2 : startsWithSlash (([46] : Bytes) ++ 47 :: p) = false := rfl
    have h3 : startsWithSlash p = false := by
      cases p with
      | nil => rfl
      | cons a as => exact hp a (List.mem_cons_self)
    rw [h1, h2, h3]
    simp [dstep]

/-- stem + "." + extension give back the base name whenever it contains a dot; otherwise the stem is
    the base name and the extension is empty.  The extension never contains a dot. -/
theorem stem_ext_recompose (p : Bytes) :
    (46 ∈ getBaseName p [] → getBaseName p [] = getStem p [] ++ 46 :: getExtension p) ∧
    (46 ∉ getBaseName p [] → getStem p [] = getBaseName p [] ∧ getExtension p = []) ∧
    46 ∉ getExtension p := by
  have hb : getBaseName p [] = afterLastSep p := by simp [getBaseName]
  rw [hb]
  simp only [getStem, getExtension, ne_eq, not_true_eq_false, if_false]
  cases h : splitLast isDot (afterLastSep p) with
  | some t =>
    obtain ⟨d, s, e⟩ := t
    obtain ⟨h1, h2, h3⟩ := splitLast_some h
    have hs : s = 46 := by simpa [isDot] using h2
    subst hs
    refine ⟨fun _ => h1, fun hn => absurd (by rw [h1]; simp) hn, ?_⟩
    intro hm
    have := h3 46 hm
    simp [isDot] at this
  | none =>
    have hn := splitLast_none.mp h
    refine ⟨fun hm => ?_, fun _ => ⟨rfl, rfl⟩, by simp⟩
    have := hn 46 hm
    simp [isDot] at this

/-- with an explicit extension getStem is getBaseName (as File.cpp says) and it strips exactly a
    matching suffix: the result is a prefix of the base name, and when something was stripped the
    stripped text is `.`+extension (or the extension itself when that starts with a dot). -/
theorem base_ext_prefix (p e : Bytes) : ∃ t, getBaseName p [] = getBaseName p e ++ t ∧
    (t = [] ∨ t = e ∨ t = 46 :: e) := by
  have hb : getBaseName p [] = afterLastSep p := by simp [getBaseName]
  rw [hb]
  unfold getBaseName
  simp only
  by_cases h0 : e.length = 0
  · exact ⟨[], by simp [h0], Or.inl rfl⟩
  · simp only [h0, if_false]
    by_cases h1 : e.head? = some 46
    · simp only [h1, if_true]
      by_cases h2 : (afterLastSep p).length ≥ e.length ∧
          List.drop ((afterLastSep p).length - e.length) (afterLastSep p) = e
      · rw [if_pos h2]
        refine ⟨e, ?_, Or.inr (Or.inl rfl)⟩
        conv => lhs; rw [← List.take_append_drop ((afterLastSep p).length - e.length) (afterLastSep p)]
        rw [h2.2]
      · rw [if_neg h2]; exact ⟨[], by simp, Or.inl rfl⟩
    · simp only [h1, if_false]
      by_cases h2 : (afterLastSep p).length ≥ e.length + 1 ∧
          (afterLastSep p)[(afterLastSep p).length - (e.length + 1)]? = some 46 ∧
          List.drop ((afterLastSep p).length - e.length) (afterLastSep p) = e
      · rw [if_pos h2]
        refine ⟨46 :: e, ?_, Or.inr (Or.inr rfl)⟩
        obtain ⟨h3, h4, h5⟩ := h2
        conv => lhs; rw [← List.take_append_drop ((afterLastSep p).length - (e.length + 1)) (afterLastSep p)]
        congr 1
        have hlt : (afterLastSep p).length - (e.length + 1) < (afterLastSep p).length := by omega
        rw [List.drop_eq_getElem_cons hlt]
        have : (afterLastSep p)[(afterLastSep p).length - (e.length + 1)] = 46 := by
          have := List.getElem?_eq_getElem hlt
          rw [this] at h4
          exact Option.some.inj h4
        rw [this]
        congr 1
        have : (afterLastSep p).length - (e.length + 1) + 1 = (afterLastSep p).length - e.length := by omega
        rw [this, h5]
      · rw [if_neg h2]; exact ⟨[], by simp, Or.inl rfl⟩

/-- getRelativePath(from, to) appended to `from` denotes `to` — whenever a relative path exists at all
    (`RelExists`: both absolute or both relative, and `from` does not begin with more `..` than `to`). -/
theorem relative_correct (f t : Bytes) (h : RelExists f t) :
    denote (join f (getRelativePath f t)) = denote t :=
  (getRelativePath_spec f t).1 h

/-- … and when none exists getRelativePath says so by returning the empty string. -/
theorem relative_none (f t : Bytes) (h : ¬ RelExists f t) : getRelativePath f t = [] :=
  (getRelativePath_spec f t).2 h

/-- the hypothesis of `relative_correct` is the weakest possible: without it NO string appended to a
    non-empty `from` denotes `to`. -/
theorem relative_hypothesis_necessary (f t r : Bytes) (hf : f ≠ []) (h : ¬ RelExists f t) :
    denote (join f r) ≠ denote t := by
  intro heq
  apply h
  rw [denote_join_ne f r hf] at heq
  have := foldl_dstep_mono (chunks r) (denote f)
  rw [heq] at this
  exact ⟨this.2.symm, this.1⟩

/-- a relative path that exists is never reported as the empty string -/
theorem relative_nonempty (f t : Bytes) (h : RelExists f t) (hne : f ≠ []) : getRelativePath f t ≠ [] := by
  intro he
  have h1 := relative_correct f t h
  rw [he] at h1
  have h2 : denote (join f []) = denote f := by
    rw [denote_join_ne f [] hne]; simp [chunks_nil]
  rw [h2] at h1
  -- then from and to denote the same, and getRelativePath answers "."
  have : simplifyPath f = simplifyPath t := (simplify_eq_iff f t).mpr h1
  have h3 : getRelativePath f t = [46] := by
    unfold getRelativePath
    simp [this]
  rw [h3] at he
  exact absurd he (by decide)

/-- isAbsolutePath is true exactly for paths whose denotation is absolute, or that carry a drive prefix
    `x:/` / `x:\` -/
theorem absolute_spec (p : Bytes) :
    isAbsolutePath p = ((denote p).abs ||
      (decide (p.length > 2) && p[1]? == some 58 && (match p[2]? with | some c => isSep c | none => false))) := by
  rw [(denote_valid p).2]; rfl

/-- What the POSIX build does with `\`: the path functions of File.cpp treat it as a separator on every
    platform (there is no `#ifdef`), so a path written with backslashes denotes the same as the one written
    with slashes … -/
theorem backslash_is_separator (p : Bytes) :
    denote (p.map (fun c => if c = 92 then 47 else c)) = denote p := by
  have hsplit : ∀ q : Bytes, splitSep (q.map (fun c => if c = 92 then 47 else c)) = splitSep q := by
    intro q
    induction q with
    | nil => rfl
    | cons c cs ih =>
      simp only [List.map_cons, splitSep, ih]
      by_cases h : c = 92
      · subst h; simp [isSep]
      · simp only [h, if_false]
  unfold denote chunks
  rw [hsplit]
  cases p with
  | nil => rfl
  | cons c cs =>
    by_cases h : c = 92
    · subst h; rfl
    · simp only [List.map_cons, h, if_false]; rfl

/-- … and simplifyPath never returns a backslash (it rewrites every separator to `/`). -/
theorem simplify_no_backslash (p : Bytes) : 92 ∉ simplifyPath p := by
  rw [simplifyPath_eq_render, render_eq_joinS _ (denote_valid p).1]
  have hok := outItems_ok (denote p) (denote_valid p).1
  have hj : ∀ (B : List Bytes), (∀ c ∈ B, ItemOk c) → 92 ∉ joinS B := by
    intro B
    induction B with
    | nil => intro _; simp [joinS]
    | cons c rest ih =>
      intro h
      have hc : 92 ∉ c := fun hm => by
        have := (h c (List.mem_cons_self)).2 92 hm
        simp [isSep] at this
      have hr := ih (fun x hx => h x (List.mem_cons_of_mem _ hx))
      cases rest with
      | nil => simpa [joinS] using hc
      | cons d r =>
        simp only [joinS, List.mem_append, List.mem_cons, not_or] at hr ⊢
        exact ⟨hc, by decide, hr⟩
  intro hm
  simp only [List.mem_append] at hm
  rcases hm with hm | hm
  · cases (denote p).abs <;> simp [pre] at hm
  · exact hj _ hok hm

/-! non-vacuity / sanity -/
example : simplifyPath [47, 97, 47, 46, 46] = [47] := by decide
example : RelExists [97, 47, 98] [97] ∧ getRelativePath [97, 47, 98] [97] = [46, 46] := by decide
example : RelExists [97] [46, 46, 47, 98] ∧ getRelativePath [97] [46, 46, 47, 98] = [46, 46, 47, 46, 46, 47, 98] := by decide
example : ¬ RelExists [46, 46] [97] ∧ ¬ RelExists [47, 97] [97] := by decide
example : getStem [97, 46, 116, 46, 103] [] ++ 46 :: getExtension [97, 46, 116, 46, 103] = [97, 46, 116, 46, 103] := by decide

end Nstd.Path
