import Nstd.Path.Model
namespace Nstd.Path
theorem placeholder : simplifyPath [47, 97, 47, 46, 46] = [47] := by decide
end Nstd.Path
