import Nstd.Path.FsWf
/-
  Directory::unlink for ARBITRARY path strings (through symbolic links, with `.`/`..`): whatever it does, it only
  removes entries, and only inside the directory the path resolves to.
-/
namespace Nstd.Path

/-- `fs'` arose from `fs` by removing entries -/
def OnlyDel (fs fs' : Fs) : Prop := ∀ q, fs'.get q = fs.get q ∨ fs'.get q = none

theorem OnlyDel.refl (fs : Fs) : OnlyDel fs fs := fun _ => Or.inl rfl

theorem OnlyDel.trans {a b c : Fs} (h1 : OnlyDel a b) (h2 : OnlyDel b c) : OnlyDel a c := by
  intro q
  rcases h2 q with h | h
  · rcases h1 q with h' | h'
    · exact Or.inl (h.trans h')
    · exact Or.inr (h.trans h')
  · exact Or.inr h

theorem onlyDel_del (fs : Fs) (p : CPath) (hp : p ≠ []) : OnlyDel fs (fs.del p) := by
  intro q
  rw [get_del fs p q hp]
  by_cases h : q = p
  · exact Or.inr (by simp [h])
  · exact Or.inl (by simp [h])

/-- what is found in a world with fewer entries is found, identically, in the bigger one -/
theorem walk_found_mono (fs fs' : Fs) (h : OnlyDel fs fs') (fuel : Nat) :
    ∀ (cur : CPath) (comps : List Name) (fo : Bool) (p : CPath) (e : Entry),
    walk fs' fuel cur comps fo = .found p e → walk fs fuel cur comps fo = .found p e := by
  apply walk_lift2 fs' fs (fun k' k => ∀ (cur : CPath) (comps : List Name) (fo : Bool) (p : CPath) (e : Entry),
    k' cur comps fo = .found p e → k cur comps fo = .found p e)
  · intro _ _ _ _ _ hh; simp at hh
  · intro k' k hk cur comps
    induction comps generalizing cur with
    | nil => intro fo p e hh; simpa [walkAux] using hh
    | cons c rest ih =>
      intro fo p e hh
      rw [walkAux_cons] at hh ⊢
      by_cases h1 : c = [46]
      · rw [if_pos h1] at hh ⊢; exact ih _ _ _ _ hh
      · rw [if_neg h1] at hh ⊢
        by_cases h2 : c = dotdot
        · rw [if_pos h2] at hh ⊢; exact ih _ _ _ _ hh
        · rw [if_neg h2] at hh ⊢
          cases hg' : fs'.get (cur ++ [c]) with
          | none =>
            simp only [hg'] at hh
            by_cases hr : rest = [] <;> simp [hr] at hh
          | some e0 =>
            have hg : fs.get (cur ++ [c]) = some e0 := by
              rcases h (cur ++ [c]) with h' | h'
              · rw [← h', hg']
              · rw [hg'] at h'; simp at h'
            simp only [hg'] at hh
            simp only [hg]
            cases e0 with
            | dir => (try dsimp only at hh); (try dsimp only); exact ih _ _ _ _ hh
            | file d => (try dsimp only at hh); (try dsimp only); exact hh
            | link t =>
              (try dsimp only at hh); (try dsimp only)
              by_cases hr : rest = [] ∧ fo = false
              · rw [if_pos hr] at hh ⊢; exact hh
              · rw [if_neg hr] at hh ⊢; exact hk _ _ _ _ _ hh

/-- resolving `xs ++ [n]` (n a name, last component not followed) = resolving `xs` to a directory and looking `n` up there -/
theorem walk_child (fs : Fs) (n : Name) (hn1 : n ≠ [46]) (hn2 : n ≠ dotdot) (fuel : Nat) :
    ∀ (cur : CPath) (xs : List Name) (p : CPath) (e : Entry),
    walk fs fuel cur (xs ++ [n]) false = .found p e →
    ∃ d, walk fs fuel cur xs true = .found d .dir ∧ p = d ++ [n] := by
  apply walk_lift fs (fun k => ∀ (cur : CPath) (xs : List Name) (p : CPath) (e : Entry),
    k cur (xs ++ [n]) false = .found p e → ∃ d, k cur xs true = .found d .dir ∧ p = d ++ [n])
  · intro _ _ _ _ hh; simp at hh
  · intro k hk cur xs
    induction xs generalizing cur with
    | nil =>
      intro p e hh
      simp only [List.nil_append] at hh
      rw [walkAux_cons, if_neg hn1, if_neg hn2] at hh
      refine ⟨cur, by simp [walkAux], ?_⟩
      cases hg : fs.get (cur ++ [n]) with
      | none => simp [hg] at hh
      | some e0 =>
        simp only [hg] at hh
        cases e0 with
        | dir => simp [walkAux] at hh; exact hh.1.symm
        | file d => simp at hh; exact hh.1.symm
        | link t => simp at hh; exact hh.1.symm
    | cons c rest ih =>
      intro p e hh
      rw [List.cons_append, walkAux_cons] at hh
      rw [walkAux_cons]
      by_cases h1 : c = [46]
      · rw [if_pos h1] at hh ⊢; exact ih _ _ _ hh
      · rw [if_neg h1] at hh ⊢
        by_cases h2 : c = dotdot
        · rw [if_pos h2] at hh ⊢; exact ih _ _ _ hh
        · rw [if_neg h2] at hh ⊢
          cases hg : fs.get (cur ++ [c]) with
          | none =>
            simp only [hg] at hh
            by_cases hr : rest ++ [n] = [] <;> simp [hr] at hh
          | some e0 =>
            simp only [hg] at hh ⊢
            cases e0 with
            | dir => (try dsimp only at hh); (try dsimp only); exact ih _ _ _ hh
            | file d =>
              (try dsimp only at hh)
              have hr : rest ++ [n] ≠ [] := by simp
              simp [hr] at hh
            | link t =>
              (try dsimp only at hh); (try dsimp only)
              have hr : ¬ (rest ++ [n] = [] ∧ True) := by simp
              rw [if_neg hr] at hh
              have hr' : ¬ (rest = [] ∧ true = false) := by simp
              rw [if_neg hr']
              rw [← List.append_assoc] at hh
              exact hk _ _ _ _ hh

/-- a directory found without following the last component is found when following it, too -/
theorem walk_dir_follow (fs : Fs) (fuel : Nat) : ∀ (cur : CPath) (comps : List Name) (d : CPath),
    walk fs fuel cur comps false = .found d .dir → walk fs fuel cur comps true = .found d .dir := by
  apply walk_lift fs (fun k => ∀ (cur : CPath) (comps : List Name) (d : CPath),
    k cur comps false = .found d .dir → k cur comps true = .found d .dir)
  · intro _ _ _ hh; simp at hh
  · intro k hk cur comps
    induction comps generalizing cur with
    | nil => intro d hh; simpa [walkAux] using hh
    | cons c rest ih =>
      intro d hh
      rw [walkAux_cons] at hh ⊢
      by_cases h1 : c = [46]
      · rw [if_pos h1] at hh ⊢; exact ih _ _ hh
      · rw [if_neg h1] at hh ⊢
        by_cases h2 : c = dotdot
        · rw [if_pos h2] at hh ⊢; exact ih _ _ hh
        · rw [if_neg h2] at hh ⊢
          cases hg : fs.get (cur ++ [c]) with
          | none => simp only [hg] at hh ⊢; exact hh
          | some e0 =>
            simp only [hg] at hh ⊢
            cases e0 with
            | dir => (try dsimp only at hh); (try dsimp only); exact ih _ _ hh
            | file dd => (try dsimp only at hh); (try dsimp only); exact hh
            | link t =>
              (try dsimp only at hh); (try dsimp only)
              by_cases hr : rest = []
              · simp [hr] at hh
              · simp only [hr, false_and, if_false] at hh ⊢
                exact hk _ _ _ hh


/-- a path whose last component is `..` resolves the same with and without following the last component -/
theorem walk_dotdot_modes (fs : Fs) (fuel : Nat) : ∀ (cur : CPath) (comps : List Name),
    comps.getLast? = some dotdot → walk fs fuel cur comps false = walk fs fuel cur comps true := by
  apply walk_lift fs (fun k => ∀ (cur : CPath) (comps : List Name),
    comps.getLast? = some dotdot → k cur comps false = k cur comps true)
  · intro _ _ _; rfl
  · intro k hk cur comps
    induction comps generalizing cur with
    | nil => intro h; simp at h
    | cons c rest ih =>
      intro hl
      have hrest : rest ≠ [] → rest.getLast? = some dotdot := by
        intro hne
        cases rest with
        | nil => exact absurd rfl hne
        | cons a b => rw [List.getLast?_cons_cons] at hl; exact hl
      rw [walkAux_cons, walkAux_cons]
      by_cases hr : rest = []
      · subst hr
        have hc : c = dotdot := by simpa using hl
        have h1 : c ≠ [46] := by rw [hc]; decide
        rw [if_neg h1, if_pos hc, if_neg h1, if_pos hc]
        simp [walkAux]
      · have hrl := hrest hr
        by_cases h1 : c = [46]
        · rw [if_pos h1, if_pos h1]; exact ih _ hrl
        · rw [if_neg h1, if_neg h1]
          by_cases h2 : c = dotdot
          · rw [if_pos h2, if_pos h2]; exact ih _ hrl
          · rw [if_neg h2, if_neg h2]
            cases hg : fs.get (cur ++ [c]) with
            | none => simp [hr]
            | some e0 =>
              cases e0 with
              | dir => simp only; exact ih _ hrl
              | file d => simp [hr]
              | link t =>
                simp only [hr, false_and, if_false]
                apply hk
                rw [List.getLast?_append, hrl]; simp

theorem resolve_found_mono (fs fs' : Fs) (h : OnlyDel fs fs') (path : Bytes) (fo : Bool) (p : CPath) (e : Entry)
    (hr : resolve fs' path fo = .found p e) : resolve fs path fo = .found p e := by
  unfold resolve at hr ⊢
  by_cases hne : path = []
  · simp [hne] at hr
  · rw [if_neg hne] at hr ⊢
    exact walk_found_mono fs fs' h _ _ _ _ _ _ hr

theorem resolve_child (fs : Fs) (dir : Bytes) (n : Name) (hdir : dir ≠ []) (hn : KName n) (pp : CPath) (e : Entry)
    (hr : resolve fs (dir ++ [47] ++ n) false = .found pp e) :
    ∃ d, resolve fs dir true = .found d .dir ∧ pp = d ++ [n] := by
  unfold resolve at hr ⊢
  have hne : dir ++ [47] ++ n ≠ [] := by simp
  rw [if_neg hne] at hr
  rw [if_neg hdir]
  rw [List.append_assoc, List.singleton_append, kchunks_append_sep dir 47 n (by decide),
    kchunks_of_sepfree n hn.1 hn.2.1, startsWith47_append dir _ hdir] at hr
  exact walk_child fs n hn.2.2.1 hn.2.2.2 _ _ _ _ _ hr

/-- removing entries only: as lists and as maps -/
def Shrinks (fs fs' : Fs) : Prop := Sub fs' fs ∧ OnlyDel fs fs'

theorem Shrinks.refl (fs : Fs) : Shrinks fs fs := ⟨Sub.refl fs, OnlyDel.refl fs⟩
theorem Shrinks.trans {a b c : Fs} (h1 : Shrinks a b) (h2 : Shrinks b c) : Shrinks a c :=
  ⟨h2.1.trans h1.1, h1.2.trans h2.2⟩

theorem get_del_any (fs : Fs) (p q : CPath) : (fs.del p).get q = fs.get q ∨ (fs.del p).get q = none := by
  unfold Fs.get Fs.del
  by_cases hq : q = []
  · simp [hq]
  · simp only [hq, if_false, lookup_filter_ne]
    by_cases h : q = p <;> simp [h]

theorem shrinks_del (fs : Fs) (p : CPath) : Shrinks fs (fs.del p) := ⟨del_sub fs p, get_del_any fs p⟩

theorem sysUnlink_shrinks (fs : Fs) (path : Bytes) : Shrinks fs (sysUnlink fs path).1 := by
  unfold sysUnlink
  cases resolve fs path false with
  | found p e => cases e <;> first | exact Shrinks.refl fs | exact shrinks_del fs p
  | missing _ _ => exact Shrinks.refl fs
  | err _ => exact Shrinks.refl fs

theorem sysRmdirCore_shrinks (fs : Fs) (path : Bytes) : Shrinks fs (sysRmdirCore fs path).1 := by
  unfold sysRmdirCore
  cases resolve fs path false with
  | found p e =>
    cases e with
    | dir =>
      simp only
      by_cases h1 : p.isPrefixOf cwd = true
      · simp [h1]; exact Shrinks.refl fs
      · by_cases h2 : fs.children p ≠ []
        · simp [h1, h2]; exact Shrinks.refl fs
        · simp only [h1, h2, if_false]; exact shrinks_del fs p
    | file _ => exact Shrinks.refl fs
    | link _ => exact Shrinks.refl fs
  | missing _ _ => exact Shrinks.refl fs
  | err _ => exact Shrinks.refl fs

theorem sysRmdir_shrinks (fs : Fs) (path : Bytes) : Shrinks fs (sysRmdir fs path).1 := by
  rcases sysRmdir_cases fs path with h | ⟨e, h⟩
  · rw [h]; exact sysRmdirCore_shrinks fs path
  · rw [h]; exact Shrinks.refl fs

theorem unlinkEntries_shrinks (rec : Fs → Bytes → Fs × Bool) (hrec : ∀ fs p, Shrinks fs (rec fs p).1) (pre_ : Bytes) :
    ∀ (ents : List (Name × Entry)) (fs : Fs), Shrinks fs (unlinkEntries rec pre_ fs ents).1 := by
  intro ents
  induction ents with
  | nil => intro fs; exact Shrinks.refl fs
  | cons x rest ih =>
    intro fs
    obtain ⟨n, e⟩ := x
    have hfile : Shrinks fs (fileUnlink fs (pre_ ++ n)).1 := by unfold fileUnlink; exact sysUnlink_shrinks fs _
    cases e with
    | dir =>
      simp only [unlinkEntries]
      have := hrec fs (pre_ ++ n)
      cases hr : rec fs (pre_ ++ n) with
      | mk fs' ok => rw [hr] at this; cases ok with
        | false => exact this
        | true => exact this.trans (ih fs')
    | file d =>
      simp only [unlinkEntries]
      cases hr : fileUnlink fs (pre_ ++ n) with
      | mk fs' ok => rw [hr] at hfile; cases ok with
        | false => exact hfile
        | true => exact hfile.trans (ih fs')
    | link t =>
      simp only [unlinkEntries]
      cases hr : fileUnlink fs (pre_ ++ n) with
      | mk fs' ok => rw [hr] at hfile; cases ok with
        | false => exact hfile
        | true => exact hfile.trans (ih fs')

theorem dirUnlink_shrinks : ∀ (fuel : Nat) (recursive : Bool) (fs : Fs) (dir : Bytes),
    Shrinks fs (dirUnlink fuel recursive fs dir).1 := by
  intro fuel
  induction fuel with
  | zero => intro _ fs _; exact Shrinks.refl fs
  | succ fuel ih =>
    intro recursive fs dir
    simp only [dirUnlink]
    have h1 := sysRmdir_shrinks fs dir
    cases hr : sysRmdir fs dir with
    | mk fs' r =>
      rw [hr] at h1
      cases r with
      | ok _ => exact h1
      | error e =>
        simp only
        by_cases hc : recursive = false ∨ e ≠ .enotempty
        · rw [if_pos hc]; exact h1
        · rw [if_neg hc]
          cases hd : sysReaddir fs' dir with
          | error _ => exact h1
          | ok pe =>
            obtain ⟨p, ents⟩ := pe
            simp only
            have h2 := unlinkEntries_shrinks (dirUnlink fuel true) (fun a b => ih true a b) (dir ++ [47]) ents fs'
            cases hu : unlinkEntries (dirUnlink fuel true) (dir ++ [47]) fs' ents with
            | mk fs'' ok =>
              rw [hu] at h2
              cases ok with
              | false => exact h1.trans h2
              | true => exact (h1.trans h2).trans (sysRmdir_shrinks fs'' dir)


theorem del_changes_only (fs : Fs) (p q : CPath) (h : (fs.del p).get q ≠ fs.get q) : q = p := by
  by_cases hqp : q = p
  · exact hqp
  · exfalso; apply h
    unfold Fs.get Fs.del
    by_cases hq : q = []
    · simp [hq]
    · simp only [hq, if_false, lookup_filter_ne, hqp]

theorem sysUnlink_loc (fs : Fs) (path : Bytes) (q : CPath) (h : (sysUnlink fs path).1.get q ≠ fs.get q) :
    ∃ e, resolve fs path false = .found q e := by
  unfold sysUnlink at h
  cases hr : resolve fs path false with
  | found p e =>
    rw [hr] at h
    cases e with
    | dir => exact absurd rfl h
    | file d => simp only at h; rw [del_changes_only fs p q h]; exact ⟨_, rfl⟩
    | link t => simp only at h; rw [del_changes_only fs p q h]; exact ⟨_, rfl⟩
  | missing _ _ => rw [hr] at h; exact absurd rfl h
  | err _ => rw [hr] at h; exact absurd rfl h

theorem sysRmdirCore_loc (fs : Fs) (path : Bytes) (q : CPath) (h : (sysRmdirCore fs path).1.get q ≠ fs.get q) :
    resolve fs path false = .found q .dir := by
  unfold sysRmdirCore at h
  cases hr : resolve fs path false with
  | found p e =>
    rw [hr] at h
    cases e with
    | dir =>
      simp only at h
      by_cases h1 : p.isPrefixOf cwd = true
      · simp [h1] at h
      · by_cases h2 : fs.children p ≠ []
        · simp [h1, h2] at h
        · simp only [h1, h2, if_false] at h
          rw [del_changes_only fs p q h]
    | file _ => exact absurd rfl h
    | link _ => exact absurd rfl h
  | missing _ _ => rw [hr] at h; exact absurd rfl h
  | err _ => rw [hr] at h; exact absurd rfl h

theorem sysRmdir_loc (fs : Fs) (path : Bytes) (q : CPath) (h : (sysRmdir fs path).1.get q ≠ fs.get q) :
    resolve fs path false = .found q .dir := by
  rcases sysRmdir_cases fs path with hh | ⟨e, hh⟩
  · rw [hh] at h; exact sysRmdirCore_loc fs path q h
  · rw [hh] at h; exact absurd rfl h

theorem walk_not_enotempty (fs : Fs) (fuel : Nat) : ∀ (cur : CPath) (comps : List Name) (fo : Bool),
    walk fs fuel cur comps fo ≠ .err .enotempty := by
  apply walk_lift fs (fun k => ∀ (cur : CPath) (comps : List Name) (fo : Bool), k cur comps fo ≠ .err .enotempty)
  · intro _ _ _ h; simp at h
  · intro k hk cur comps
    induction comps generalizing cur with
    | nil => intro fo h; simp [walkAux] at h
    | cons c rest ih =>
      intro fo
      rw [walkAux_cons]
      by_cases h1 : c = [46]
      · rw [if_pos h1]; exact ih _ _
      · rw [if_neg h1]
        by_cases h2 : c = dotdot
        · rw [if_pos h2]; exact ih _ _
        · rw [if_neg h2]
          cases hg : fs.get (cur ++ [c]) with
          | none => simp only; by_cases hr : rest = [] <;> simp [hr]
          | some e0 =>
            cases e0 with
            | dir => simp only; exact ih _ _
            | file d => simp only; by_cases hr : rest = [] <;> simp [hr]
            | link t =>
              simp only
              by_cases hr : rest = [] ∧ fo = false
              · rw [if_pos hr]; simp
              · rw [if_neg hr]; exact hk _ _ _

theorem resolve_not_enotempty (fs : Fs) (path : Bytes) (fo : Bool) : resolve fs path fo ≠ .err .enotempty := by
  unfold resolve
  by_cases hne : path = []
  · rw [if_pos hne]; simp
  · rw [if_neg hne]; exact walk_not_enotempty fs _ _ _ _

theorem sysRmdirCore_err (fs fs' : Fs) (path : Bytes) (e : Errno) (h : sysRmdirCore fs path = (fs', .error e)) :
    fs' = fs ∧ (e = .enotempty → ∃ d, resolve fs path false = .found d .dir) := by
  unfold sysRmdirCore at h
  cases hr : resolve fs path false with
  | found p e0 =>
    rw [hr] at h
    cases e0 with
    | dir =>
      simp only at h
      by_cases h1 : p.isPrefixOf cwd = true
      · simp [h1] at h; exact ⟨h.1.symm, fun he => ⟨p, rfl⟩⟩
      · by_cases h2 : fs.children p ≠ []
        · simp [h1, h2] at h; exact ⟨h.1.symm, fun _ => ⟨p, rfl⟩⟩
        · simp [h1, h2] at h
    | file _ => simp at h; exact ⟨h.1.symm, fun he => by rw [← h.2] at he; simp at he⟩
    | link _ => simp at h; exact ⟨h.1.symm, fun he => by rw [← h.2] at he; simp at he⟩
  | missing _ _ => rw [hr] at h; simp at h; exact ⟨h.1.symm, fun he => by rw [← h.2] at he; simp at he⟩
  | err e0 =>
    rw [hr] at h; simp at h
    refine ⟨h.1.symm, fun he => ?_⟩
    -- resolution errors are ENOENT / ENOTDIR / ELOOP, never ENOTEMPTY
    exfalso
    apply resolve_not_enotempty fs path false
    rw [hr, ← he, h.2]


theorem sysRmdir_err (fs fs' : Fs) (path : Bytes) (e : Errno) (h : sysRmdir fs path = (fs', .error e)) :
    fs' = fs ∧ (e = .enotempty → (kchunks path).getLast? = some dotdot ∨ ∃ d, resolve fs path false = .found d .dir) := by
  unfold sysRmdir at h
  cases hl : lastDot path with
  | none =>
    rw [hl] at h
    have := sysRmdirCore_err fs fs' path e h
    exact ⟨this.1, fun he => Or.inr (this.2 he)⟩
  | some e0 =>
    rw [hl] at h
    simp only [Prod.mk.injEq, Except.error.injEq] at h
    refine ⟨h.1.symm, fun he => Or.inl ?_⟩
    unfold lastDot at hl
    cases hg : (kchunks path).getLast? with
    | none => simp [hg] at hl
    | some c =>
      simp only [hg] at hl
      by_cases h1 : c = [46]
      · simp [h1] at hl; rw [← h.2, ← hl] at he; simp at he
      · by_cases h2 : c = dotdot
        · rw [h2]
        · simp [h1, h2] at hl

theorem resolve_dotdot_modes (fs : Fs) (path : Bytes) (h : (kchunks path).getLast? = some dotdot) :
    resolve fs path false = resolve fs path true := by
  unfold resolve
  by_cases hne : path = []
  · rw [if_pos hne, if_pos hne]
  · rw [if_neg hne, if_neg hne]; exact walk_dotdot_modes fs _ _ _ h

theorem resolve_dir_follow (fs : Fs) (path : Bytes) (d : CPath) (h : resolve fs path false = .found d .dir) :
    resolve fs path true = .found d .dir := by
  unfold resolve at h ⊢
  by_cases hne : path = []
  · simp [hne] at h
  · rw [if_neg hne] at h ⊢; exact walk_dir_follow fs _ _ _ _ h

/-- the loop over the entries read from directory `p` (= where `dir` resolved to in the world `fs0` at readdir time):
    whatever it changes lies below `p` -/
theorem unlinkEntries_loc (rec : Fs → Bytes → Fs × Bool) (hshr : ∀ fs cp, Shrinks fs (rec fs cp).1)
    (hloc : ∀ fs cp q, NamesOk fs → (rec fs cp).1.get q ≠ fs.get q → ∃ d, resolve fs cp false = .found d .dir ∧ d <+: q)
    (fs0 : Fs) (dir : Bytes) (p : CPath) (hdir : dir ≠ []) (hres : resolve fs0 dir true = .found p .dir) :
    ∀ (ents : List (Name × Entry)) (fs : Fs), (∀ x ∈ ents, KName x.1) → NamesOk fs → Shrinks fs0 fs →
      ∀ q, (unlinkEntries rec (dir ++ [47]) fs ents).1.get q ≠ fs.get q → p <+: q := by
  intro ents
  induction ents with
  | nil => intro fs _ _ _ q h; exact absurd rfl h
  | cons x rest ih =>
    intro fs hnames hok hsh q hq
    obtain ⟨n, e⟩ := x
    have hn : KName n := hnames (n, e) (List.mem_cons_self)
    have hrestn : ∀ y ∈ rest, KName y.1 := fun y hy => hnames y (List.mem_cons_of_mem _ hy)
    -- where a path `dir/n` that is found in the current world points
    have hchild : ∀ pp e', resolve fs (dir ++ [47] ++ n) false = .found pp e' → pp = p ++ [n] := by
      intro pp e' hr
      have hr0 := resolve_found_mono fs0 fs hsh.2 _ false pp e' hr
      obtain ⟨d, hd1, hd2⟩ := resolve_child fs0 dir n hdir hn pp e' hr0
      rw [hres] at hd1
      simp only [Res.found.injEq, and_true] at hd1
      rw [hd2, hd1]
    -- one step (world fs1), then the rest
    have step : ∀ fs1 : Fs, Shrinks fs fs1 → (∀ q, fs1.get q ≠ fs.get q → p <+: q) →
        ∀ q, (unlinkEntries rec (dir ++ [47]) fs1 rest).1.get q ≠ fs.get q → p <+: q := by
      intro fs1 hs1 hl1 q hq
      by_cases hc : fs1.get q = fs.get q
      · apply ih fs1 hrestn (hok.sub hs1.1) (hsh.trans hs1) q
        rw [hc]; exact hq
      · exact hl1 q hc
    have hfileloc : ∀ q, (fileUnlink fs (dir ++ [47] ++ n)).1.get q ≠ fs.get q → p <+: q := by
      intro q hq
      unfold fileUnlink at hq
      obtain ⟨e', hr⟩ := sysUnlink_loc fs _ q hq
      rw [hchild q e' hr]; exact List.prefix_append _ _
    have hfileshr : Shrinks fs (fileUnlink fs (dir ++ [47] ++ n)).1 := by
      unfold fileUnlink; exact sysUnlink_shrinks fs _
    cases e with
    | dir =>
      simp only [unlinkEntries] at hq
      have hs1 := hshr fs (dir ++ [47] ++ n)
      have hl1 : ∀ q, (rec fs (dir ++ [47] ++ n)).1.get q ≠ fs.get q → p <+: q := by
        intro q hq
        obtain ⟨d, hd1, hd2⟩ := hloc fs _ q hok hq
        rw [hchild d .dir hd1] at hd2
        exact List.IsPrefix.trans (List.prefix_append _ _) hd2
      cases hr : rec fs (dir ++ [47] ++ n) with
      | mk fs1 ok =>
        rw [hr] at hq hs1 hl1
        cases ok with
        | false => exact hl1 q hq
        | true => exact step fs1 hs1 hl1 q hq
    | file dd =>
      simp only [unlinkEntries] at hq
      cases hr : fileUnlink fs (dir ++ [47] ++ n) with
      | mk fs1 ok =>
        rw [hr] at hq hfileloc hfileshr
        cases ok with
        | false => exact hfileloc q hq
        | true => exact step fs1 hfileshr hfileloc q hq
    | link t =>
      simp only [unlinkEntries] at hq
      cases hr : fileUnlink fs (dir ++ [47] ++ n) with
      | mk fs1 ok =>
        rw [hr] at hq hfileloc hfileshr
        cases ok with
        | false => exact hfileloc q hq
        | true => exact step fs1 hfileshr hfileloc q hq

/-- Directory::unlink on ANY path string: every entry that changes lies in the directory the path resolves to
    (last component not followed) — in particular nothing changes when the path does not resolve to a directory -/
theorem dirUnlink_loc : ∀ (fuel : Nat) (recursive : Bool) (fs : Fs) (dir : Bytes) (q : CPath), NamesOk fs →
    (dirUnlink fuel recursive fs dir).1.get q ≠ fs.get q → ∃ d, resolve fs dir false = .found d .dir ∧ d <+: q := by
  intro fuel
  induction fuel with
  | zero => intro _ fs _ q _ h; exact absurd rfl h
  | succ fuel ih =>
    intro recursive fs dir q hok hq
    simp only [dirUnlink] at hq
    cases hr : sysRmdir fs dir with
    | mk fs' r =>
      rw [hr] at hq
      cases r with
      | ok u =>
        simp only at hq
        have := sysRmdir_loc fs dir q (by rw [hr]; exact hq)
        exact ⟨q, this, List.prefix_refl _⟩
      | error e =>
        obtain ⟨hfs', hen⟩ := sysRmdir_err fs fs' dir e hr
        subst hfs'
        simp only at hq
        by_cases hc : recursive = false ∨ e ≠ .enotempty
        · rw [if_pos hc] at hq; exact absurd rfl hq
        · rw [if_neg hc] at hq
          have he : e = .enotempty := by
            cases e <;> simp at hc ⊢
          cases hd : sysReaddir fs' dir with
          | error _ => rw [hd] at hq; exact absurd rfl hq
          | ok pe =>
            obtain ⟨p, ents⟩ := pe
            rw [hd] at hq
            simp only at hq
            -- readdir: dir resolves (following) to p, the entries are p's children
            have hrd : resolve fs' dir true = .found p .dir ∧ ents = fs'.children p := by
              unfold sysReaddir at hd
              cases hrr : resolve fs' dir true with
              | found p0 e0 =>
                rw [hrr] at hd
                cases e0 with
                | dir => simp at hd; obtain ⟨h1, h2⟩ := hd; subst h1; exact ⟨rfl, h2.symm⟩
                | file _ => simp at hd
                | link _ => simp at hd
              | missing _ _ => rw [hrr] at hd; simp at hd
              | err _ => rw [hrr] at hd; simp at hd
            have hdirne : dir ≠ [] := by
              intro h0; subst h0; simp [resolve] at hrd
            -- … and without following the last component it is the same directory
            have hnof : resolve fs' dir false = .found p .dir := by
              rcases hen he with hdd | ⟨d, hdres⟩
              · rw [resolve_dotdot_modes fs' dir hdd]; exact hrd.1
              · have := resolve_dir_follow fs' dir d hdres
                rw [hrd.1] at this
                simp only [Res.found.injEq, and_true] at this
                rw [this]; exact hdres
            have hentsn : ∀ x ∈ ents, KName x.1 := by rw [hrd.2]; exact children_names fs' hok p
            have hloop := unlinkEntries_loc (dirUnlink fuel true) (fun a b => dirUnlink_shrinks fuel true a b)
              (fun a b c hn hc => ih true a b c hn hc) fs' dir p hdirne hrd.1 ents fs' hentsn hok (Shrinks.refl fs')
            have hloops := unlinkEntries_shrinks (dirUnlink fuel true) (fun a b => dirUnlink_shrinks fuel true a b)
              (dir ++ [47]) ents fs'
            cases hu : unlinkEntries (dirUnlink fuel true) (dir ++ [47]) fs' ents with
            | mk fs2 ok =>
              rw [hu] at hq hloop hloops
              cases ok with
              | false => exact ⟨p, hnof, hloop q hq⟩
              | true =>
                simp only at hq
                by_cases hc2 : fs2.get q = fs'.get q
                · -- the change happened in the final rmdir
                  have hq2 : (sysRmdir fs2 dir).1.get q ≠ fs2.get q := by rw [hc2]; exact hq
                  have hl2 := sysRmdir_loc fs2 dir q hq2
                  have := resolve_found_mono fs' fs2 hloops.2 dir false q .dir hl2
                  rw [hnof] at this
                  simp only [Res.found.injEq, and_true] at this
                  exact ⟨p, hnof, by rw [this]; exact List.prefix_refl _⟩
                · exact ⟨p, hnof, hloop q hc2⟩

end Nstd.Path
