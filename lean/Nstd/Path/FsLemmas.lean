import Nstd.Path.FsSpec
/-
  Lemmas about the flat world map (get/set/del) and the File-object refinement.
-/
namespace Nstd.Path

theorem lookup_filter_ne (p q : CPath) : ∀ (l : List (CPath × Entry)),
    lookup q (l.filter (fun x => x.1 ≠ p)) = if q = p then none else lookup q l := by
  intro l
  induction l with
  | nil => simp [lookup]
  | cons x rest ih =>
    obtain ⟨k, e⟩ := x
    by_cases hk : k = p
    · subst hk
      simp only [List.filter_cons, ne_eq, not_true_eq_false, decide_false, Bool.false_eq_true, if_false, lookup]
      rw [ih]
      by_cases hq : q = k
      · simp [hq]
      · have : ¬ k = q := fun h => hq h.symm
        simp [hq, this]
    · simp only [List.filter_cons, ne_eq, hk, not_false_eq_true, decide_true, if_true, lookup]
      rw [ih]
      by_cases hq : q = p
      · subst hq
        simp [hk]
      · simp [hq]

theorem get_del (fs : Fs) (p q : CPath) (hp : p ≠ []) :
    (fs.del p).get q = if q = p then none else fs.get q := by
  unfold Fs.get Fs.del
  by_cases hq : q = []
  · subst hq
    have : ¬ ([] : CPath) = p := fun h => hp h.symm
    simp [this]
  · simp only [hq, if_false]
    exact lookup_filter_ne p q fs.ents

theorem get_set (fs : Fs) (p q : CPath) (e : Entry) (hp : p ≠ []) :
    (fs.set p e).get q = if q = p then some e else fs.get q := by
  unfold Fs.set
  by_cases hq : q = []
  · subst hq
    have : ¬ ([] : CPath) = p := fun h => hp h.symm
    simp [Fs.get, this]
  · have hd := get_del fs p q hp
    unfold Fs.get at hd ⊢
    simp only [hq, if_false] at hd ⊢
    simp only [lookup]
    by_cases h : p = q
    · subst h; simp
    · have h' : ¬ q = p := fun x => h x.symm
      simp only [h, if_false, h']
      rw [hd]
      simp [h']

theorem fileData_set_same (fs : Fs) (p : CPath) (d : Bytes) (hp : p ≠ []) :
    fileData (fs.set p (.file d)) p = d := by
  simp [fileData, get_set fs p p _ hp]

/-! ### File object = byte array with a position -/

theorem take_drop_all (c : Bytes) (pos : Nat) : ((c.drop pos).take c.length) = c.drop pos := by
  apply List.take_of_length_le
  simp

theorem fileSize_eq (fs : Fs) (fd : Fd) : fileSize fs fd = (fd, some (fileData fs fd.path).length) := by
  unfold fileSize sysLseek
  simp only [Int.add_zero, Int.zero_add]
  have h1 : ¬ ((fd.pos : Int) < 0) := by omega
  have h2 : ¬ (((fileData fs fd.path).length : Int) < 0) := by omega
  simp only [h1, h2, if_false, Int.toNat_natCast]
  by_cases h : fd.pos = (fileData fs fd.path).length
  · simp only [h, ne_eq, not_true_eq_false, if_false]
    cases fd
    simp_all
  · simp only [ne_eq, h, not_false_eq_true, if_true]

theorem sysLseek_cur0 (fs : Fs) (fd : Fd) : sysLseek fs fd 0 .cur = (fd, .ok fd.pos) := by
  unfold sysLseek
  have h1 : ¬ ((fd.pos : Int) + 0 < 0) := by omega
  simp only [h1, if_false]
  cases fd; simp

theorem sysLseek_end0 (fs : Fs) (fd : Fd) :
    sysLseek fs fd 0 .end_ = ({ fd with pos := (fileData fs fd.path).length }, .ok (fileData fs fd.path).length) := by
  unfold sysLseek
  have h2 : ¬ (((fileData fs fd.path).length : Int) + 0 < 0) := by omega
  simp only [h2, if_false]
  simp

theorem sysLseek_set (fs : Fs) (fd : Fd) (n : Nat) : sysLseek fs fd n .set = ({ fd with pos := n }, .ok n) := by
  unfold sysLseek
  have h2 : ¬ ((0 : Int) + (n : Int) < 0) := by omega
  simp only [h2, if_false]
  simp

/-- File::size with a failing lseek, in closed form -/
theorem fileSizeF_eq (fs : Fs) (fd : Fd) (k : Nat) :
    fileSizeF fs fd k =
      if k ≤ 1 then (fd, none)
      else if k = 2 ∧ fd.pos ≠ (fileData fs fd.path).length then ({ fd with pos := (fileData fs fd.path).length }, none)
      else (fd, some (fileData fs fd.path).length) := by
  match k with
  | 0 => simp [fileSizeF, lseekF]
  | 1 => simp [fileSizeF, lseekF, sysLseek_cur0]
  | 2 =>
    simp only [fileSizeF, lseekF, sysLseek_cur0, sysLseek_end0]
    by_cases h : fd.pos = (fileData fs fd.path).length
    · simp [h]; cases fd; simp_all
    · simp [h]
  | k + 3 =>
    simp only [fileSizeF, lseekF, sysLseek_cur0, sysLseek_end0, sysLseek_set]
    by_cases h : fd.pos = (fileData fs fd.path).length
    · simp [h]; cases fd; simp_all
    · simp [h]

theorem fileData_of_get (fs : Fs) (p : CPath) (c : Bytes) (h : fs.get p = some (.file c)) : fileData fs p = c := by
  simp [fileData, h]

/-- one operation on an open File object does what the byte-array specification says, and touches
    nothing but that file -/
theorem fileStep_refines (fs : Fs) (fd : Fd) (op : FileOp) (c : Bytes)
    (hdir : fd.isDir = false) (hp : fd.path ≠ []) (hget : fs.get fd.path = some (.file c)) :
    (fileStep fs fd op).2.2 = (specStep fd.acc ⟨c, fd.pos⟩ op).2 ∧
    (fileStep fs fd op).1.get fd.path = some (.file (specStep fd.acc ⟨c, fd.pos⟩ op).1.content) ∧
    (fileStep fs fd op).2.1.pos = (specStep fd.acc ⟨c, fd.pos⟩ op).1.pos ∧
    (fileStep fs fd op).2.1.path = fd.path ∧ (fileStep fs fd op).2.1.acc = fd.acc ∧
    (fileStep fs fd op).2.1.isDir = false ∧
    ∀ q, q ≠ fd.path → (fileStep fs fd op).1.get q = fs.get q := by
  have hfd := fileData_of_get fs fd.path c hget
  cases op with
  | write d =>
    simp only [fileStep, fileWrite, sysWrite, specStep, hdir, hfd]
    by_cases hacc : fd.acc = .rdonly
    · simp [hacc, hget, hdir]
    · by_cases hd : d = []
      · simp [hacc, hd, hget, hdir]
      · simp only [hacc, Bool.false_eq_true, or_self, if_false, hd]
        refine ⟨?_, ?_, ?_, ?_, ?_, ?_, ?_⟩
        · simp
        · simp [get_set fs fd.path fd.path _ hp]
        · simp
        · simp
        · simp
        · simp
        · intro q hq; simp [get_set fs fd.path q _ hp, hq]
  | seek off w =>
    simp only [fileStep, fileSeek, sysLseek, specStep, hfd]
    cases w with
    | set =>
      simp only [Int.zero_add]
      by_cases hneg : off < 0 <;> simp [hneg, hget, hdir]
    | cur =>
      simp only
      by_cases hneg : (fd.pos : Int) + off < 0 <;> simp [hneg, hget, hdir]
    | end_ =>
      simp only
      by_cases hneg : (c.length : Int) + off < 0 <;> simp [hneg, hget, hdir]
  | readAll =>
    simp only [fileStep, fileReadAll, fileSize_eq, sysRead, specStep, hdir, hfd]
    by_cases hacc : fd.acc = .wronly
    · simp [hacc, hget, hdir]
    · simp [hacc, take_drop_all, hget]
  | size =>
    simp [fileStep, fileSize_eq, specStep, hfd, hget, hdir]
  | read n =>
    simp only [fileStep, fileRead, sysRead, specStep, hdir, hfd]
    by_cases hacc : fd.acc = .wronly
    · simp [hacc, hget, hdir]
    · simp [hacc, hget]
  | seekF off w => simp [fileStep, specStep, hget, hdir]
  | sizeF k =>
    simp only [fileStep, fileSizeF_eq, specStep, specSizeF, hfd]
    by_cases h1 : k ≤ 1
    · simp [h1, hget, hdir]
    · by_cases h2 : k = 2 ∧ fd.pos ≠ c.length
      · simp [h2, hget, hdir]
      · simp [h1, h2, hget, hdir]
  | readAllF k =>
    simp only [fileStep, fileReadAllF, fileSizeF_eq, specStep, specSizeF, hfd]
    by_cases h1 : k ≤ 1
    · simp [h1, hget, hdir]
    · by_cases h2 : k = 2 ∧ fd.pos ≠ c.length
      · simp [h2, hget, hdir]
      · simp only [h1, h2, if_false, sysRead, hdir, hfd]
        by_cases hacc : fd.acc = .wronly
        · simp [hacc, hget, hdir]
        · simp [hacc, take_drop_all, hget]

/-- a whole script on one File object refines the byte-array specification -/
theorem runOps_refines : ∀ (ops : List FileOp) (fs : Fs) (fd : Fd) (c : Bytes),
    fd.isDir = false → fd.path ≠ [] → fs.get fd.path = some (.file c) →
    (runOps fs fd ops).2.2 = (specRun fd.acc ⟨c, fd.pos⟩ ops).2 ∧
    (runOps fs fd ops).1.get fd.path = some (.file (specRun fd.acc ⟨c, fd.pos⟩ ops).1.content) ∧
    (runOps fs fd ops).2.1.pos = (specRun fd.acc ⟨c, fd.pos⟩ ops).1.pos ∧
    ∀ q, q ≠ fd.path → (runOps fs fd ops).1.get q = fs.get q := by
  intro ops
  induction ops with
  | nil => intro fs fd c _ _ hget; exact ⟨rfl, hget, rfl, fun _ _ => rfl⟩
  | cons op rest ih =>
    intro fs fd c hdir hp hget
    obtain ⟨h1, h2, h3, h4, h5, h6, h7⟩ := fileStep_refines fs fd op c hdir hp hget
    simp only [runOps, specRun]
    have ih' := ih (fileStep fs fd op).1 (fileStep fs fd op).2.1 (specStep fd.acc ⟨c, fd.pos⟩ op).1.content
      h6 (by rw [h4]; exact hp) (by rw [h4]; exact h2)
    rw [h4, h5, h3] at ih'
    obtain ⟨i1, i2, i3, i4⟩ := ih'
    refine ⟨by rw [h1, i1], i2, i3, ?_⟩
    intro q hq
    rw [i4 q hq, h7 q hq]


/-! ### the kernel's splitting of path strings (at `/` only) -/

theorem ksplit_ne_nil (p : Bytes) : ksplit p ≠ [] := by
  cases p with
  | nil => simp [ksplit]
  | cons c cs =>
    simp only [ksplit]
    by_cases hc : isSlash c = true
    · simp [hc]
    · simp only [hc, Bool.false_eq_true, if_false]
      cases ksplit cs <;> simp

theorem ksplit_sepfree : ∀ (p : Bytes), ∀ c ∈ ksplit p, ∀ x ∈ c, isSlash x = false := by
  intro p
  induction p with
  | nil => intro c hc x hx; simp [ksplit] at hc; subst hc; simp at hx
  | cons a as ih =>
    intro c hc x hx
    simp only [ksplit] at hc
    by_cases ha : isSlash a = true
    · simp only [ha, if_true, List.mem_cons] at hc
      rcases hc with rfl | hc
      · simp at hx
      · exact ih c hc x hx
    · simp only [ha, Bool.false_eq_true, if_false] at hc
      cases hs : ksplit as with
      | nil => exact absurd hs (ksplit_ne_nil as)
      | cons h t =>
        simp only [hs, List.mem_cons] at hc
        rcases hc with rfl | hc
        · simp only [List.mem_cons] at hx
          rcases hx with rfl | hx
          · simpa using ha
          · exact ih h (by simp [hs]) x hx
        · exact ih c (by simp [hs, hc]) x hx

theorem ksplit_of_sepfree : ∀ (c : Bytes), (∀ x ∈ c, isSlash x = false) → ksplit c = [c] := by
  intro c
  induction c with
  | nil => intro _; simp [ksplit]
  | cons a as ih =>
    intro h
    have ha : isSlash a = false := h a (List.mem_cons_self)
    have := ih (fun x hx => h x (List.mem_cons_of_mem _ hx))
    simp [ksplit, ha, this]

/-- pieces of `a ++ sep :: b` -/
theorem ksplit_append_sep (a : Bytes) (s : Nat) (b : Bytes) (hs : isSlash s = true) :
    ksplit (a ++ s :: b) = ksplit a ++ ksplit b := by
  induction a with
  | nil => simp [ksplit, hs]
  | cons c cs ih =>
    simp only [List.cons_append, ksplit]
    by_cases hc : isSlash c = true
    · simp [hc, ih]
    · simp only [hc, Bool.false_eq_true, if_false, ih]
      cases hcs : ksplit cs with
      | nil => exact absurd hcs (ksplit_ne_nil cs)
      | cons h t => simp

theorem kchunks_nil : kchunks [] = [] := by simp [kchunks, ksplit]

theorem kchunks_append_sep (a : Bytes) (s : Nat) (b : Bytes) (hs : isSlash s = true) :
    kchunks (a ++ s :: b) = kchunks a ++ kchunks b := by
  simp [kchunks, ksplit_append_sep a s b hs]

theorem kchunks_of_sepfree (c : Bytes) (hne : c ≠ []) (h : ∀ x ∈ c, isSlash x = false) : kchunks c = [c] := by
  simp only [kchunks, ksplit_of_sepfree c h, List.filter_cons, List.filter_nil]
  cases c with
  | nil => exact absurd rfl hne
  | cons a as => simp

theorem kchunks_spec (p : Bytes) : ∀ c ∈ kchunks p, c ≠ [] ∧ ∀ x ∈ c, isSlash x = false := by
  intro c hc
  simp only [kchunks, List.mem_filter] at hc
  refine ⟨?_, ksplit_sepfree p c hc.1⟩
  intro h; subst h; simp at hc



theorem dotdot_kfree : ∀ x ∈ dotdot, isSlash x = false := by decide

theorem sysRmdir_cases (fs : Fs) (path : Bytes) :
    sysRmdir fs path = sysRmdirCore fs path ∨ ∃ e, sysRmdir fs path = (fs, .error e) := by
  unfold sysRmdir
  cases lastDot path with
  | none => exact Or.inl rfl
  | some e => exact Or.inr ⟨e, rfl⟩

/-! ### the kernel path walk -/

theorem walkAux_cons (fs : Fs) (k : CPath → List Name → Bool → Res) (cur : CPath) (c : Name) (rest : List Name) (fo : Bool) :
    walkAux fs k cur (c :: rest) fo =
      if c = [46] then walkAux fs k cur rest fo
      else if c = dotdot then walkAux fs k cur.dropLast rest fo
      else
        match fs.get (cur ++ [c]) with
        | none => if rest = [] then .missing cur c else .err .enoent
        | some .dir => walkAux fs k (cur ++ [c]) rest fo
        | some (.file d) => if rest = [] then .found (cur ++ [c]) (.file d) else .err .enotdir
        | some (.link t) =>
          if rest = [] ∧ fo = false then .found (cur ++ [c]) (.link t)
          else k (if startsWith47 t then [] else cur) (kchunks t ++ rest) fo := by
  simp only [walkAux]
  split <;> rfl

theorem append_singleton_ne_nil (cur : CPath) (c : Name) : cur ++ [c] ≠ [] := by simp

/-- lift a property of the continuation through the ELOOP budget -/
theorem walk_lift (fs : Fs) (P : (CPath → List Name → Bool → Res) → Prop)
    (h0 : P (fun _ _ _ => .err .eloop)) (hstep : ∀ k, P k → P (walkAux fs k)) : ∀ fuel, P (walk fs fuel) := by
  intro fuel
  induction fuel with
  | zero => exact hstep _ h0
  | succ fuel ih => exact hstep _ ih

/-- where the walk reports a missing last component there is nothing -/
theorem walk_missing_get (fs : Fs) (fuel : Nat) : ∀ (cur : CPath) (comps : List Name) (fo : Bool) (parent : CPath) (name : Name),
    walk fs fuel cur comps fo = .missing parent name → fs.get (parent ++ [name]) = none := by
  apply walk_lift fs (fun k => ∀ (cur : CPath) (comps : List Name) (fo : Bool) (parent : CPath) (name : Name),
    k cur comps fo = .missing parent name → fs.get (parent ++ [name]) = none)
  · intro _ _ _ _ _ h; simp at h
  · intro k hk cur comps
    induction comps generalizing cur with
    | nil => intro fo parent name h; simp [walkAux] at h
    | cons c rest ih =>
      intro fo parent name h
      rw [walkAux_cons] at h
      by_cases h1 : c = [46]
      · rw [if_pos h1] at h; exact ih _ _ _ _ h
      · rw [if_neg h1] at h
        by_cases h2 : c = dotdot
        · rw [if_pos h2] at h; exact ih _ _ _ _ h
        · rw [if_neg h2] at h
          cases hg : fs.get (cur ++ [c]) with
          | none =>
            simp only [hg] at h
            by_cases hr : rest = []
            · simp only [hr, if_true, Res.missing.injEq] at h
              rw [← h.1, ← h.2]; exact hg
            · simp [hr] at h
          | some e =>
            simp only [hg] at h
            cases e with
            | dir => (try dsimp only at h); exact ih _ _ _ _ h
            | file d =>
              (try dsimp only at h)
              by_cases hr : rest = [] <;> simp [hr] at h
            | link t =>
              (try dsimp only at h)
              by_cases hr : rest = [] ∧ fo = false
              · simp [hr] at h
              · rw [if_neg hr] at h; exact hk _ _ _ _ _ h

/-- after an entry (no link) has been made where the walk reported a missing last component, the same path
    finds it — when the first walk did not follow a final link, or both walks use the same mode -/
theorem walk_after_create (fs : Fs) (e : Entry) (he : ∀ t, e ≠ .link t) (fuel : Nat) :
    ∀ (cur : CPath) (comps : List Name) (fo fo' : Bool) (parent : CPath) (name : Name),
    (fo = false ∨ fo' = fo) →
    walk fs fuel cur comps fo = .missing parent name →
    walk (fs.set (parent ++ [name]) e) fuel cur comps fo' = .found (parent ++ [name]) e := by
  induction fuel with
  | zero =>
    intro cur comps
    show ∀ fo fo' parent name, _ → walkAux fs _ cur comps fo = _ → walkAux _ _ cur comps fo' = _
    induction comps generalizing cur with
    | nil => intro fo fo' parent name _ h; simp [walkAux] at h
    | cons c rest ih =>
      intro fo fo' parent name hfo h
      have hnone := walk_missing_get fs 0 _ _ _ _ _ h
      rw [walkAux_cons] at h ⊢
      by_cases h1 : c = [46]
      · rw [if_pos h1] at h ⊢; exact ih _ _ _ _ _ hfo h
      · rw [if_neg h1] at h ⊢
        by_cases h2 : c = dotdot
        · rw [if_pos h2] at h ⊢; exact ih _ _ _ _ _ hfo h
        · rw [if_neg h2] at h ⊢
          rw [get_set fs _ _ _ (append_singleton_ne_nil parent name)]
          cases hg : fs.get (cur ++ [c]) with
          | none =>
            simp only [hg] at h
            by_cases hr : rest = []
            · simp only [hr, if_true, Res.missing.injEq] at h
              obtain ⟨rfl, rfl⟩ := h
              subst hr
              simp only [if_true]
              cases e with
              | dir => simp [walkAux]
              | file d => simp
              | link t => exact absurd rfl (he t)
            · simp [hr] at h
          | some e0 =>
            simp only [hg] at h
            have hne : cur ++ [c] ≠ parent ++ [name] := by
              intro heq; rw [heq, hnone] at hg; simp at hg
            rw [if_neg hne]
            cases e0 with
            | dir => (try dsimp only at h); (try dsimp only); exact ih _ _ _ _ _ hfo h
            | file d => (try dsimp only at h); (try dsimp only); by_cases hr : rest = [] <;> simp [hr] at h
            | link t =>
              (try dsimp only at h); (try dsimp only)
              by_cases hr : rest = [] ∧ fo = false
              · simp [hr] at h
              · rw [if_neg hr] at h; simp at h
  | succ fuel ihf =>
    intro cur comps
    show ∀ fo fo' parent name, _ → walkAux fs _ cur comps fo = _ → walkAux _ _ cur comps fo' = _
    induction comps generalizing cur with
    | nil => intro fo fo' parent name _ h; simp [walkAux] at h
    | cons c rest ih =>
      intro fo fo' parent name hfo h
      have hnone := walk_missing_get fs (fuel + 1) _ _ _ _ _ h
      rw [walkAux_cons] at h ⊢
      by_cases h1 : c = [46]
      · rw [if_pos h1] at h ⊢; exact ih _ _ _ _ _ hfo h
      · rw [if_neg h1] at h ⊢
        by_cases h2 : c = dotdot
        · rw [if_pos h2] at h ⊢; exact ih _ _ _ _ _ hfo h
        · rw [if_neg h2] at h ⊢
          rw [get_set fs _ _ _ (append_singleton_ne_nil parent name)]
          cases hg : fs.get (cur ++ [c]) with
          | none =>
            simp only [hg] at h
            by_cases hr : rest = []
            · simp only [hr, if_true, Res.missing.injEq] at h
              obtain ⟨rfl, rfl⟩ := h
              subst hr
              simp only [if_true]
              cases e with
              | dir => simp [walkAux]
              | file d => simp
              | link t => exact absurd rfl (he t)
            · simp [hr] at h
          | some e0 =>
            simp only [hg] at h
            have hne : cur ++ [c] ≠ parent ++ [name] := by
              intro heq; rw [heq, hnone] at hg; simp at hg
            rw [if_neg hne]
            cases e0 with
            | dir => (try dsimp only at h); (try dsimp only); exact ih _ _ _ _ _ hfo h
            | file d => (try dsimp only at h); (try dsimp only); by_cases hr : rest = [] <;> simp [hr] at h
            | link t =>
              (try dsimp only at h); (try dsimp only)
              by_cases hr : rest = [] ∧ fo = false
              · simp [hr] at h
              · rw [if_neg hr] at h
                have hr' : ¬ (rest = [] ∧ fo' = false) := by
                  rcases hfo with hf | hf
                  · intro hh; exact hr ⟨hh.1, hf⟩
                  · rw [hf]; exact hr
                rw [if_neg hr']
                exact ihf _ _ _ _ _ _ hfo h

/-- a walk that ends in "missing" without following a final link ends the same way when it may follow one -/
theorem walk_missing_follow (fs : Fs) (fuel : Nat) : ∀ (cur : CPath) (comps : List Name) (parent : CPath) (name : Name),
    walk fs fuel cur comps false = .missing parent name → walk fs fuel cur comps true = .missing parent name := by
  apply walk_lift fs (fun k => ∀ (cur : CPath) (comps : List Name) (parent : CPath) (name : Name),
    k cur comps false = .missing parent name → k cur comps true = .missing parent name)
  · intro _ _ _ _ h; simp at h
  · intro k hk cur comps
    induction comps generalizing cur with
    | nil => intro parent name h; simp [walkAux] at h
    | cons c rest ih =>
      intro parent name h
      rw [walkAux_cons] at h ⊢
      by_cases h1 : c = [46]
      · rw [if_pos h1] at h ⊢; exact ih _ _ _ h
      · rw [if_neg h1] at h ⊢
        by_cases h2 : c = dotdot
        · rw [if_pos h2] at h ⊢; exact ih _ _ _ h
        · rw [if_neg h2] at h ⊢
          cases hg : fs.get (cur ++ [c]) with
          | none => simp only [hg] at h ⊢; exact h
          | some e0 =>
            simp only [hg] at h
            cases e0 with
            | dir => (try dsimp only at h); (try dsimp only); exact ih _ _ _ h
            | file d => (try dsimp only at h); (try dsimp only); exact h
            | link t =>
              (try dsimp only at h); (try dsimp only)
              by_cases hr : rest = []
              · simp [hr] at h
              · simp only [hr, false_and, if_false] at h ⊢
                exact hk _ _ _ _ h

end Nstd.Path
