import Nstd.Generated.PathScan
import Nstd.Path.Lemmas
/-
  Lemmas about the translated path scanners (Nstd/Generated/PathScan.lean, written by tools/gen_path.py from the
  current src/File.cpp): every loop of the translation, run from a state that the function reaches, leaves through the
  exit and with the values the hand-written model (Nstd/Path/Model.lean) computes.
-/
namespace Nstd.Path.Scan
open Nstd.Path Nstd.Path.Cxx Nstd.Generated.PathScan

/-! ### run-time definitions on in-range offsets -/

@[simp] theorem cAt_nat (s : Bytes) (i : Nat) : cAt s (i : Int) = s.getD i 0 := by
  simp [cAt]

@[simp] theorem inb_nat (s : Bytes) (i : Nat) : inb s (i : Int) = decide (i ≤ s.length) := by
  simp [inb]

theorem sep_test (c : Nat) : (decide (c = 92) || decide (c = 47)) = isSep c := by
  rw [Bool.eq_iff_iff]; simp [isSep, or_comm]

theorem sep_test' (c : Nat) : (decide (c = 47) || decide (c = 92)) = isSep c := by
  rw [Bool.eq_iff_iff]; simp [isSep]

theorem getD_append_at (d : Bytes) (s : Nat) (b : Bytes) : (d ++ s :: b).getD d.length 0 = s := by
  simp [List.getD_eq_getElem?_getD]

theorem getD_append_after (d : Bytes) (s : Nat) (b : Bytes) (k : Nat) :
    (d ++ s :: b).getD (d.length + (k + 1)) 0 = b.getD k 0 := by
  simp [List.getD_eq_getElem?_getD, List.getElem?_append_right]

theorem getD_mem (b : Bytes) (k : Nat) (h : k < b.length) : b.getD k 0 ∈ b := by
  simp [List.getD_eq_getElem?_getD, h]

theorem substr_nat (s : Bytes) (a n : Nat) (h : a + n ≤ s.length) :
    substr s (a : Int) (n : Int) = (s.drop a).take n := by
  have h1 : ¬ ((a : Int) < 0) := by omega
  have h2 : ¬ ((a : Int) > (s.length : Int)) := by omega
  have h3 : (n : Int) ≥ 0 := by omega
  have h4 : ¬ ((a : Int) + (n : Int) > (s.length : Int)) := by omega
  simp only [substr, h1, h2, h3, h4, if_false, if_true]
  have h5 : ((a : Int) + (n : Int) - (a : Int)).toNat = n := by omega
  simp [h5]

theorem substr_prefix (d t : Bytes) : substr (d ++ t) 0 (d.length : Int) = d := by
  have := substr_nat (d ++ t) 0 d.length (by simp)
  simpa using this

@[simp] theorem mk_nat (s : Bytes) (a n : Nat) : mk s (a : Int) (n : Int) = (s.drop a).take n := by
  simp [mk]

@[simp] theorem mkOk_nat (s : Bytes) (a n : Nat) : mkOk s (a : Int) (n : Int) = decide (a + n ≤ s.length) := by
  simp [mkOk]; omega

macro "bool_norm" : tactic => `(tactic| simp only [decide_true, decide_false, Bool.or_true, Bool.true_or, Bool.and_true,
  Bool.true_and, Bool.not_true, Bool.not_false, Bool.false_eq_true, if_true, if_false, Bool.or_false, Bool.false_or,
  Bool.and_false, Bool.false_and, ite_true, ite_false, Bool.or_self, Bool.and_self])

theorem len_app (d : Bytes) (s : Nat) (b : Bytes) : (d ++ s :: b).length = d.length + b.length + 1 := by
  simp; omega

theorem dot_test (c : Nat) : decide (c = 46) = isDot c := by
  rw [Bool.eq_iff_iff]; simp [isDot]

theorem after_hyp (x : Bytes) (c : Nat) (e : Bytes) (P : Nat → Prop) (he : ∀ y ∈ e, P y) :
    ∀ i, x.length + 1 ≤ i → i < x.length + 1 + e.length → P ((x ++ c :: e).getD i 0) := by
  intro i h1 h2
  obtain ⟨j, rfl⟩ : ∃ j, i = x.length + (j + 1) := ⟨i - x.length - 1, by omega⟩
  rw [getD_append_after]
  exact he _ (getD_mem e j (by omega))

theorem all_hyp (e : Bytes) (P : Nat → Prop) (he : ∀ y ∈ e, P y) :
    ∀ i, 0 ≤ i → i < 0 + e.length → P (e.getD i 0) := by
  intro i _ h2
  exact he _ (getD_mem e i (by omega))

theorem mk_after (x : Bytes) (c : Nat) (e : Bytes) :
    mk (x ++ c :: e) ((x.length : Int) + 1) (((x ++ c :: e).length : Int) - (((x.length : Int) - 0) + 1)) = e := by
  rw [len_app]
  have e1 : (x.length : Int) + 1 = ((x.length + 1 : Nat) : Int) := by omega
  have e2 : ((x.length + e.length + 1 : Nat) : Int) - (((x.length : Int) - 0) + 1) = ((e.length : Nat) : Int) := by omega
  rw [e1, e2, mk_nat]
  simp

theorem mkOk_after (x : Bytes) (c : Nat) (e : Bytes) :
    mkOk (x ++ c :: e) ((x.length : Int) + 1) (((x ++ c :: e).length : Int) - (((x.length : Int) - 0) + 1)) = true := by
  have := len_app x c e
  simp only [mkOk, Bool.and_eq_true, decide_eq_true_eq]
  omega

theorem sep_not_dot (c : Nat) (h : isSep c = true) : isDot c = false := by
  simp only [isSep, Bool.or_eq_true, beq_iff_eq] at h
  rcases h with rfl | rfl <;> decide

end Nstd.Path.Scan
