import Nstd.Generated.PathScanCur
import Nstd.Path.Model
/-
  Property C19, second tier of the tie by translation.  Nstd/Generated/PathScanCur.lean holds the translation of the
  CURRENT bodies of the path scanners whenever tools/gen_path.py understands them — also when a body is not (any more)
  the program text the equality proofs of PropsScan.lean were written for (then Generated/PathScan.lean keeps the proved
  text, `<function>_isCurrent = false`, and the evidence of the check says so).  The statements below are BOUNDED checks
  evaluated by the kernel (tests of the current translation on all small strings, not theorems over all strings); for a
  body the translator refuses, the model function stands in and the statement is void (evidence: "correspondence run only").
-/
namespace Nstd.Path.ScanCur
open Nstd.Path Nstd.Generated

/-- all strings of length ≤ n over {a, '.', '/', '\\'} -/
def smallStrings : Nat → List Bytes
  | 0 => [[]]
  | n + 1 => [] :: ((smallStrings n).flatMap fun s => [97 :: s, 46 :: s, 47 :: s, 92 :: s])

def smallExts : List Bytes := [[], [97], [46, 97], [46], [97, 46, 97]]

theorem getDirectoryName_current_small :
    (smallStrings 4).all (fun p => PathScanCur.getDirectoryName 8 p == some (getDirectoryName p)) = true := by decide +kernel

theorem getExtension_current_small :
    (smallStrings 4).all (fun p => PathScanCur.getExtension 8 p == some (getExtension p)) = true := by decide +kernel

theorem isAbsolutePath_current_small :
    (smallStrings 4).all (fun p => PathScanCur.isAbsolutePath 8 p == some (isAbsolutePath p)) = true := by decide +kernel

theorem getBaseName_current_small :
    (smallStrings 3).all (fun p => smallExts.all fun e => PathScanCur.getBaseName 8 p e == some (getBaseName p e)) = true := by
  decide +kernel

theorem getStem_current_small :
    (smallStrings 3).all (fun p => smallExts.all fun e => PathScanCur.getStem 8 p e == some (getStem p e)) = true := by
  decide +kernel

theorem simplifyPath_current_small :
    (smallStrings 4).all (fun p => PathScanCur.simplifyPath 10 p == some (simplifyPath p)) = true := by decide +kernel

end Nstd.Path.ScanCur
