import Nstd.Path.Model
/-
  ASSUMED semantics of the POSIX calls File.cpp / Directory.cpp use (property C19, file-system part).
  The world is one tree, stored flat: canonical component path ↦ entry (directory | regular file with
  bytes | symbolic link with target text).  The world root `[]` always is a directory.  Path strings are
  resolved as the kernel does (`.`/`..`, split at `/` only, symbolic links with a step budget, final link followed or not).
  Everything here is a Lean *definition* of what the kernel is assumed to do; it is compared with the
  real kernel by the snapshots of the correspondence run only.
  Outside: permissions, hard links, open files that are unlinked/renamed, concurrent modification.
-/
namespace Nstd.Path

/-- the kernel splits a path string at `/` ONLY (a backslash is an ordinary byte of a name) -/
def ksplit : Bytes → List Bytes
  | [] => [[]]
  | c :: cs =>
    if isSlash c then [] :: ksplit cs
    else match ksplit cs with
      | [] => [[c]]
      | h :: t => (c :: h) :: t

/-- the components the kernel walks: the non-empty pieces between slashes -/
def kchunks (p : Bytes) : List Bytes := (ksplit p).filter (fun c => !c.isEmpty)

/-- a component the kernel can look up: non-empty, no `/` -/
def KItemOk (c : Bytes) : Prop := c ≠ [] ∧ ∀ x ∈ c, isSlash x = false

/-- a name an entry can have: non-empty, no `/`, neither `.` nor `..` (a backslash is allowed) -/
def KName (c : Bytes) : Prop := c ≠ [] ∧ (∀ x ∈ c, isSlash x = false) ∧ c ≠ [46] ∧ c ≠ dotdot

abbrev Name := Bytes
abbrev CPath := List Name

inductive Entry
  | dir
  | file (data : Bytes)
  | link (target : Bytes)
deriving DecidableEq, Repr

inductive Errno
  | enoent | enotdir | eloop | eexist | eisdir | enotempty | einval | eio | ebadf
deriving DecidableEq, Repr

structure Fs where
  ents : List (CPath × Entry)
deriving Repr

def lookup (p : CPath) : List (CPath × Entry) → Option Entry
  | [] => none
  | (q, e) :: rest => if q = p then some e else lookup p rest

def Fs.get (fs : Fs) (p : CPath) : Option Entry :=
  if p = [] then some .dir else lookup p fs.ents

def Fs.del (fs : Fs) (p : CPath) : Fs := ⟨fs.ents.filter (fun x => x.1 ≠ p)⟩

def Fs.set (fs : Fs) (p : CPath) (e : Entry) : Fs := ⟨(p, e) :: (fs.del p).ents⟩

/-- names (with entries) directly inside directory `p` -/
def Fs.children (fs : Fs) (p : CPath) : List (Name × Entry) :=
  fs.ents.filterMap (fun x =>
    if p.isPrefixOf x.1 then
      match x.1.drop p.length with
      | [n] => some (n, x.2)
      | _ => none
    else none)

/-- move the subtree at `pf` to `pt` (`pt` itself absent or deleted first) -/
def Fs.moveTree (fs : Fs) (pf pt : CPath) : Fs :=
  ⟨(fs.del pt).ents.map (fun x => if pf.isPrefixOf x.1 then (pt ++ x.1.drop pf.length, x.2) else x)⟩

/-- current working directory of the process: the scratch directory `/s` -/
def cwd : CPath := [[115]]

inductive Res
  | found (p : CPath) (e : Entry)
  | missing (parent : CPath) (name : Name)
  | err (e : Errno)
deriving Repr

/-- kernel path walk over the remaining components: `cur` is a directory; `follow` = follow a symbolic
    link in the final position; `k` continues after a symbolic link has been expanded -/
def walkAux (fs : Fs) (k : CPath → List Name → Bool → Res) : CPath → List Name → Bool → Res
  | cur, [], _ => .found cur .dir
  | cur, c :: rest, follow =>
    if c = [46] then walkAux fs k cur rest follow
    else if c = dotdot then walkAux fs k cur.dropLast rest follow
    else
      match fs.get (cur ++ [c]) with
      | none => if rest = [] then .missing cur c else .err .enoent
      | some .dir => walkAux fs k (cur ++ [c]) rest follow
      | some (.file d) => if rest = [] then .found (cur ++ [c]) (.file d) else .err .enotdir
      | some (.link t) =>
        if rest = [] ∧ follow = false then .found (cur ++ [c]) (.link t)
        else k (if startsWith47 t then [] else cur) (kchunks t ++ rest) follow

/-- what happens after a link expansion: one unit of the ELOOP budget is used -/
def walk (fs : Fs) : Nat → CPath → List Name → Bool → Res
  | 0 => walkAux fs (fun _ _ _ => .err .eloop)
  | fuel + 1 => walkAux fs (walk fs fuel)

/-- number of symbolic links one resolution may expand (ELOOP beyond; Linux: 40) -/
def walkFuel : Nat := 40

def resolve (fs : Fs) (path : Bytes) (follow : Bool) : Res :=
  if path = [] then .err .enoent
  else walk fs walkFuel (if startsWith47 path then [] else cwd) (kchunks path) follow

/-! ### system calls: `Except Errno` results, new world -/

def sysMkdir (fs : Fs) (path : Bytes) : Fs × Except Errno Unit :=
  match resolve fs path false with
  | .found _ _ => (fs, .error .eexist)
  | .missing parent name => (fs.set (parent ++ [name]) .dir, .ok ())
  | .err e => (fs, .error e)

def sysSymlink (fs : Fs) (target path : Bytes) : Fs × Except Errno Unit :=
  if target = [] then (fs, .error .enoent) else
  match resolve fs path false with
  | .found _ _ => (fs, .error .eexist)
  | .missing parent name => (fs.set (parent ++ [name]) (.link target), .ok ())
  | .err e => (fs, .error e)

def sysRmdirCore (fs : Fs) (path : Bytes) : Fs × Except Errno Unit :=
  match resolve fs path false with
  | .found p .dir =>
    if p.isPrefixOf cwd then (fs, .error .einval)      -- the root, the working directory and its ancestors stay (assumption)
    else if fs.children p ≠ [] then (fs, .error .enotempty)
    else (fs.del p, .ok ())
  | .found _ _ => (fs, .error .enotdir)
  | .missing _ _ => (fs, .error .enoent)
  | .err e => (fs, .error e)

/-- rmdir refuses a path whose last component is `.` (EINVAL) or `..` (ENOTEMPTY), whatever it resolves to -/
def lastDot (path : Bytes) : Option Errno :=
  match (kchunks path).getLast? with
  | some c => if c = [46] then some .einval else if c = dotdot then some .enotempty else none
  | none => none

def sysRmdir (fs : Fs) (path : Bytes) : Fs × Except Errno Unit :=
  match lastDot path with
  | some e => (fs, .error e)
  | none => sysRmdirCore fs path

def sysUnlink (fs : Fs) (path : Bytes) : Fs × Except Errno Unit :=
  match resolve fs path false with
  | .found _ .dir => (fs, .error .eisdir)
  | .found p _ => (fs.del p, .ok ())
  | .missing _ _ => (fs, .error .enoent)
  | .err e => (fs, .error e)

/-- `stat` (follow = true) / `lstat` (follow = false): the entry found -/
def sysStat (fs : Fs) (path : Bytes) (follow : Bool) : Except Errno Entry :=
  match resolve fs path follow with
  | .found _ e => .ok e
  | .missing _ _ => .error .enoent
  | .err e => .error e

inductive Access | rdonly | wronly | rdwr
deriving DecidableEq, Repr

structure OFlags where
  acc : Access
  creat : Bool := false
  excl : Bool := false
  trunc : Bool := false
deriving Repr

/-- an open file description: the entry it refers to, its access mode and position -/
structure Fd where
  path : CPath
  acc : Access
  isDir : Bool
  pos : Nat
deriving Repr

def sysOpen (fs : Fs) (path : Bytes) (fl : OFlags) : Fs × Except Errno Fd :=
  if fl.creat ∧ fl.excl then
    match resolve fs path false with
    | .found _ _ => (fs, .error .eexist)
    | .missing parent name => (fs.set (parent ++ [name]) (.file []), .ok ⟨parent ++ [name], fl.acc, false, 0⟩)
    | .err e => (fs, .error e)
  else
    match resolve fs path true with
    | .found p (.file _) =>
      ((if fl.trunc ∧ fl.acc ≠ .rdonly then fs.set p (.file []) else fs), .ok ⟨p, fl.acc, false, 0⟩)
    | .found p .dir => if fl.acc = .rdonly then (fs, .ok ⟨p, fl.acc, true, 0⟩) else (fs, .error .eisdir)
    | .found _ (.link _) => (fs, .error .eloop)
    | .missing parent name =>
      if fl.creat then (fs.set (parent ++ [name]) (.file []), .ok ⟨parent ++ [name], fl.acc, false, 0⟩)
      else (fs, .error .enoent)
    | .err e => (fs, .error e)

def fileData (fs : Fs) (p : CPath) : Bytes :=
  match fs.get p with
  | some (.file d) => d
  | _ => []

/-- bytes of a file after `write(fd, data)` at offset `pos` (a gap is filled with zero bytes) -/
def writeAt (old : Bytes) (pos : Nat) (data : Bytes) : Bytes :=
  (old ++ List.replicate (pos - old.length) 0).take pos ++ data ++ old.drop (pos + data.length)

def sysWrite (fs : Fs) (fd : Fd) (data : Bytes) : Fs × Fd × Except Errno Nat :=
  if fd.acc = .rdonly ∨ fd.isDir = true then (fs, fd, .error .ebadf)
  else if data = [] then (fs, fd, .ok 0)
  else (fs.set fd.path (.file (writeAt (fileData fs fd.path) fd.pos data)),
        { fd with pos := fd.pos + data.length }, .ok data.length)

def sysRead (fs : Fs) (fd : Fd) (len : Nat) : Fd × Except Errno Bytes :=
  if fd.acc = .wronly then (fd, .error .ebadf)
  else if fd.isDir = true then (fd, .error .eisdir)
  else
    let d := ((fileData fs fd.path).drop fd.pos).take len
    ({ fd with pos := fd.pos + d.length }, .ok d)

inductive Whence | set | cur | end_
deriving DecidableEq, Repr

/-- lseek on a regular file (offsets may be negative; a negative result is EINVAL) -/
def sysLseek (fs : Fs) (fd : Fd) (off : Int) (w : Whence) : Fd × Except Errno Nat :=
  let base : Int := match w with
    | .set => 0
    | .cur => fd.pos
    | .end_ => (fileData fs fd.path).length
  let np := base + off
  if np < 0 then (fd, .error .einval) else ({ fd with pos := np.toNat }, .ok np.toNat)

/-- sendfile(out, in, NULL, count): copies from the position of `inp`; EINVAL when `inp` is a directory -/
def sysSendfile (fs : Fs) (out inp : Fd) (count : Nat) : Fs × Fd × Fd × Except Errno Nat :=
  if inp.isDir = true ∨ inp.acc = .wronly ∨ out.acc = .rdonly ∨ out.isDir = true then (fs, out, inp, .error .einval)
  else
    let d := ((fileData fs inp.path).drop inp.pos).take count
    let (fs', out', _) := sysWrite fs out d
    (fs', out', { inp with pos := inp.pos + d.length }, .ok d.length)

def sysRename (fs : Fs) (frm to : Bytes) : Fs × Except Errno Unit :=
  match resolve fs frm false with
  | .err e => (fs, .error e)
  | .missing _ _ => (fs, .error .enoent)
  | .found pf ef =>
    if pf.isPrefixOf cwd then (fs, .error .einval) else      -- the working directory and its ancestors are not moved (assumption)
    match resolve fs to false with
    | .err e => (fs, .error e)
    | .missing parent name =>
      let pt := parent ++ [name]
      if ef = .dir ∧ pf.isPrefixOf pt then (fs, .error .einval)
      else (fs.moveTree pf pt, .ok ())
    | .found pt et =>
      if pt = pf then (fs, .ok ())
      else if ef = .dir then
        if et ≠ .dir then (fs, .error .enotdir)
        else if pf.isPrefixOf pt then (fs, .error .einval)
        else if fs.children pt ≠ [] ∨ pt = [] then (fs, .error .enotempty)
        else (fs.moveTree pf pt, .ok ())
      else
        if et = .dir then (fs, .error .eisdir)
        else (fs.moveTree pf pt, .ok ())

/-- opendir + readdir until the end: names with their `d_type` (entry kind), `.`/`..` not listed here -/
def sysReaddir (fs : Fs) (path : Bytes) : Except Errno (CPath × List (Name × Entry)) :=
  match resolve fs path true with
  | .found p .dir => .ok (p, fs.children p)
  | .found _ _ => .error .enotdir
  | .missing _ _ => .error .enoent
  | .err e => .error e

end Nstd.Path
