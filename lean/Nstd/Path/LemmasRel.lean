import Nstd.Path.Lemmas
/-
  getRelativePath: the prefix walk over the simplified texts corresponds to a walk over item lists
  (outermost first), and the item-level result makes the stack machine arrive at `to`.
-/
namespace Nstd.Path

/-- items joined by `/` -/
def joinS : List Bytes → Bytes
  | [] => []
  | [c] => c
  | c :: rest => c ++ 47 :: joinS rest

/-- every item followed by `/` -/
def flat : List Bytes → Bytes
  | [] => []
  | c :: rest => c ++ 47 :: flat rest

def pre (a : Bool) : Bytes := if a then [47] else []

/-- outermost-first items of a denotation -/
def outItems (d : Den) : List Bytes := List.replicate d.ups dotdot ++ d.comps.reverse

theorem flat_append (X Y : List Bytes) : flat (X ++ Y) = flat X ++ flat Y := by
  induction X with
  | nil => rfl
  | cons c rest ih => simp [flat, ih]

theorem flat_eq_joinS (R : List Bytes) (h : R ≠ []) : flat R = joinS R ++ [47] := by
  induction R with
  | nil => exact absurd rfl h
  | cons c rest ih =>
    cases rest with
    | nil => simp [flat, joinS]
    | cons d rest' =>
      have := ih (by simp)
      simp only [flat, joinS] at this ⊢
      rw [this]
      simp

theorem joinS_append (X R : List Bytes) (h : R ≠ []) : joinS (X ++ R) = flat X ++ joinS R := by
  induction X with
  | nil => rfl
  | cons c rest ih =>
    cases hr : rest ++ R with
    | nil => exact absurd (List.append_eq_nil_iff.mp hr).2 h
    | cons d more =>
      simp only [List.cons_append, hr, joinS, flat]
      rw [← hr, ih]
      simp

theorem joinS_eq_nil (R : List Bytes) (hok : ∀ c ∈ R, ItemOk c) : joinS R = [] ↔ R = [] := by
  constructor
  · intro h
    cases R with
    | nil => rfl
    | cons c rest =>
      have hc := (hok c (List.mem_cons_self)).1
      cases rest with
      | nil => simp [joinS] at h; exact absurd h hc
      | cons d r => simp [joinS] at h
  · intro h; subst h; rfl

theorem outItems_ok (d : Den) (hv : d.Valid) : ∀ c ∈ outItems d, ItemOk c := by
  intro c hc
  have := items_ok d hv c
  apply this
  simp only [outItems, List.mem_append, List.mem_replicate, List.mem_reverse] at hc
  simp only [List.mem_append, List.mem_replicate]
  rcases hc with h | h
  · exact Or.inr h
  · exact Or.inl h

/-- renderItems in terms of joinS -/
theorem renderItems_eq (a : Bool) : ∀ (its : List Bytes), (∀ c ∈ its, ItemOk c) → its ≠ [] →
    renderItems a its = pre a ++ joinS its.reverse := by
  intro its
  induction its with
  | nil => intro _ h; exact absurd rfl h
  | cons c rest ih =>
    intro hok _
    have hrest : ∀ x ∈ rest, ItemOk x := fun x hx => hok x (List.mem_cons_of_mem _ hx)
    simp only [renderItems, push, List.reverse_cons]
    by_cases hr : rest = []
    · subst hr
      cases a <;> simp [renderItems, pre, joinS]
    · have hne : renderItems a rest ≠ [] := renderItems_ne_nil a rest hrest hr
      rw [if_pos (Or.inl hne), ih hrest hr, joinS_append _ [c] (by simp)]
      have hrr : rest.reverse ≠ [] := by simpa using hr
      rw [flat_eq_joinS _ hrr]
      simp [joinS]

theorem render_eq_joinS (d : Den) (hv : d.Valid) : render d = pre d.abs ++ joinS (outItems d) := by
  rw [render_eq]
  by_cases h0 : raw d = []
  · have := (raw_eq_nil d hv).mp h0
    simp only [h0, true_and, outItems, this.1, this.2, List.replicate_zero, List.reverse_nil, List.append_nil, joinS]
    cases d.abs <;> simp [pre]
  · rw [if_neg (fun h => h0 h.1)]
    have hne : d.comps ++ List.replicate d.ups dotdot ≠ [] := by
      intro h; apply h0; simp [raw, h, renderItems]
    unfold raw
    rw [renderItems_eq d.abs _ (items_ok d hv) hne]
    simp [outItems]


theorem joinS_getLast (B : List Bytes) (hok : ∀ c ∈ B, ItemOk c) (hne : B ≠ []) :
    ∃ x, (joinS B).getLast? = some x ∧ isSep x = false := by
  induction B with
  | nil => exact absurd rfl hne
  | cons c rest ih =>
    have hc := hok c (List.mem_cons_self)
    cases rest with
    | nil =>
      simp only [joinS]
      cases hl : c.getLast? with
      | none => simp at hl; exact absurd hl hc.1
      | some x => exact ⟨x, rfl, hc.2 x (List.mem_of_getLast? hl)⟩
    | cons d r =>
      obtain ⟨x, hx1, hx2⟩ := ih (fun y hy => hok y (List.mem_cons_of_mem _ hy)) (by simp)
      refine ⟨x, ?_, hx2⟩
      simp only [joinS] at hx1 ⊢
      rw [List.getLast?_append]
      have : (47 :: joinS (d :: r)).getLast? = some x := by
        cases hj : joinS (d :: r) with
        | nil => rw [hj] at hx1; simp at hx1
        | cons y ys => rw [hj] at hx1; rw [List.getLast?_cons_cons]; exact hx1
      simp [this]


/-- text with a slash after every item -/
def dirText (a : Bool) (X : List Bytes) : Bytes := pre a ++ flat X

theorem ensureSlash_render (d : Den) (hv : d.Valid) : ensureSlash (render d) = dirText d.abs (outItems d) := by
  rw [render_eq_joinS d hv]
  unfold ensureSlash dirText
  by_cases hB : outItems d = []
  · rw [hB]
    cases d.abs <;> simp [pre, joinS, flat]
  · obtain ⟨x, hx1, hx2⟩ := joinS_getLast (outItems d) (outItems_ok d hv) hB
    have hne : joinS (outItems d) ≠ [] := by
      intro h; rw [h] at hx1; simp at hx1
    have h1 : pre d.abs ++ joinS (outItems d) ≠ [] := by
      intro h; exact hne (List.append_eq_nil_iff.mp h).2
    have h2 : (pre d.abs ++ joinS (outItems d)).getLast? ≠ some 47 := by
      rw [List.getLast?_append, hx1]
      simp only [Option.some_or, ne_eq, Option.some.injEq]
      intro h; subst h; simp [isSep] at hx2
    rw [if_pos ⟨h1, h2⟩, flat_eq_joinS _ hB]
    simp

theorem startsWith47_render (d : Den) (hv : d.Valid) : startsWith47 (render d) = d.abs := by
  rw [render_eq_joinS d hv]
  cases ha : d.abs with
  | true => simp [pre, startsWith47]
  | false =>
    simp only [pre, Bool.false_eq_true, if_false, List.nil_append]
    cases hB : outItems d with
    | nil => simp [joinS, startsWith47]
    | cons c rest =>
      have hc := outItems_ok d hv c (by simp [hB])
      cases c with
      | nil => exact absurd rfl hc.1
      | cons y ys =>
        have hy : isSep y = false := hc.2 y (List.mem_cons_self)
        have : (y == 47) = false := by
          simp only [isSep, Bool.or_eq_false_iff] at hy; exact hy.1
        cases rest <;> simp [joinS, startsWith47, this]


def NoSlash (c : Bytes) : Prop := ∀ x ∈ c, isSlash x = false

theorem ItemOk.noSlash {c : Bytes} (h : ItemOk c) : NoSlash c := by
  intro x hx
  have := h.2 x hx
  simp only [isSep, Bool.or_eq_false_iff] at this
  simpa [isSlash] using this.1

theorem split_unique : ∀ (x y u v : Bytes), NoSlash x → NoSlash y → x ++ 47 :: u = y ++ 47 :: v → x = y ∧ u = v := by
  intro x
  induction x with
  | nil =>
    intro y u v _ hy h
    cases y with
    | nil => simp at h; exact ⟨rfl, h⟩
    | cons b y' =>
      simp only [List.nil_append, List.cons_append, List.cons.injEq] at h
      have := hy b (List.mem_cons_self)
      rw [← h.1] at this
      simp [isSlash] at this
  | cons a x' ih =>
    intro y u v hx hy h
    cases y with
    | nil =>
      simp only [List.nil_append, List.cons_append, List.cons.injEq] at h
      have := hx a (List.mem_cons_self)
      rw [h.1] at this
      simp [isSlash] at this
    | cons b y' =>
      simp only [List.cons_append, List.cons.injEq] at h
      obtain ⟨r1, r2⟩ := ih y' u v (fun z hz => hx z (List.mem_cons_of_mem _ hz))
        (fun z hz => hy z (List.mem_cons_of_mem _ hz)) h.2
      exact ⟨by rw [h.1, r1], r2⟩

theorem flat_prefix : ∀ (X Y : List Bytes), (∀ c ∈ X, NoSlash c) → (∀ c ∈ Y, NoSlash c) →
    (flat X <+: flat Y ↔ X <+: Y) := by
  intro X
  induction X with
  | nil => intro Y _ _; simp [flat]
  | cons x X' ih =>
    intro Y hX hY
    constructor
    · rintro ⟨w, hw⟩
      cases Y with
      | nil =>
        simp only [flat, List.append_assoc, List.cons_append] at hw
        have := congrArg List.length hw
        simp at this
      | cons y Y' =>
        simp only [flat, List.append_assoc, List.cons_append] at hw
        obtain ⟨r1, r2⟩ := split_unique x y _ _ (hX x (List.mem_cons_self)) (hY y (List.mem_cons_self)) hw
        subst r1
        have : X' <+: Y' := (ih Y' (fun c hc => hX c (List.mem_cons_of_mem _ hc))
          (fun c hc => hY c (List.mem_cons_of_mem _ hc))).mp ⟨w, r2⟩
        exact (List.cons_prefix_cons).mpr ⟨rfl, this⟩
    · rintro ⟨Z, hZ⟩
      rw [← hZ, flat_append]
      exact List.prefix_append _ _

theorem dirText_prefix (a : Bool) (X Y : List Bytes) (hX : ∀ c ∈ X, NoSlash c) (hY : ∀ c ∈ Y, NoSlash c) :
    (dirText a X).isPrefixOf (dirText a Y) = true ↔ X <+: Y := by
  rw [List.isPrefixOf_iff_prefix]
  unfold dirText
  rw [List.prefix_append_right_inj]
  exact flat_prefix X Y hX hY

theorem dirText_ends (a : Bool) (Y : List Bytes) (h : dirText a Y ≠ []) : ∃ P, dirText a Y = P ++ [47] := by
  unfold dirText at *
  by_cases hY : Y = []
  · subst hY
    cases a with
    | true => exact ⟨[], by simp [pre, flat]⟩
    | false => simp [pre, flat] at h
  · exact ⟨pre a ++ joinS Y, by rw [flat_eq_joinS Y hY]; simp⟩

theorem stripLast_dirText (a : Bool) (Y : List Bytes) (c : Bytes) (hc : NoSlash c) :
    stripLast (dirText a (Y ++ [c])) = (dirText a Y, c) := by
  have h1 : dirText a (Y ++ [c]) = (dirText a Y ++ c) ++ [47] := by
    simp [dirText, flat_append, flat]
  unfold stripLast
  rw [h1, List.dropLast_concat]
  by_cases h0 : dirText a Y = []
  · rw [h0, List.nil_append]
    simp only [splitLast_none.mpr hc]
  · obtain ⟨P, hP⟩ := dirText_ends a Y h0
    rw [hP, List.append_assoc, List.singleton_append]
    simp only [splitLast_append P 47 c (by decide) hc]


/-! ### the prefix walk at item level -/

/-- `Yr` = remaining items of `from`, INNERMOST first; `B` = items of `to`, outermost first; `j` = `../` so far.
    `none` = a `..` item of `from` would have to be left. -/
def relItems : List Bytes → List Bytes → Nat → Option (Nat × List Bytes)
  | [], _, _ => none
  | c :: Yr, B, j =>
    if c = dotdot then none
    else if Yr.reverse.isPrefixOf B then some (j + 1, B.drop Yr.length)
    else relItems Yr B (j + 1)

def upsText (j : Nat) : Bytes := flat (List.replicate j dotdot)

def relOut (o : Nat × List Bytes) : Bytes :=
  if o.2 ≠ [] then upsText o.1 ++ joinS o.2 else (upsText o.1).dropLast

theorem upsText_succ (j : Nat) : upsText j ++ [46, 46, 47] = upsText (j + 1) := by
  unfold upsText
  rw [List.replicate_succ', flat_append]
  simp [flat, dotdot]

theorem dirText_ne_nil (a : Bool) (Y : List Bytes) (c : Bytes) : dirText a (Y ++ [c]) ≠ [] := by
  simp [dirText, flat_append, flat]

theorem relLoop_eq (a : Bool) (t' : Bytes) (B : List Bytes) (hB : ∀ c ∈ B, ItemOk c)
    (ht : t' = pre a ++ joinS B) :
    ∀ (Yr : List Bytes) (fuel j : Nat), (∀ c ∈ Yr, ItemOk c) → Yr ≠ [] → Yr.length ≤ fuel →
      relLoop fuel (dirText a Yr.reverse) t' (dirText a B) (upsText j) =
        match relItems Yr B j with
        | none => []
        | some o => relOut o := by
  intro Yr
  induction Yr with
  | nil => intro _ _ _ h; exact absurd rfl h
  | cons c Yr' ih =>
    intro fuel j hok _ hfuel
    have hc := hok c (List.mem_cons_self)
    have hok' : ∀ x ∈ Yr', ItemOk x := fun x hx => hok x (List.mem_cons_of_mem _ hx)
    cases fuel with
    | zero => simp at hfuel
    | succ fuel' =>
      simp only [List.reverse_cons, relLoop, relItems]
      rw [if_neg (dirText_ne_nil a _ c), stripLast_dirText a _ c hc.noSlash]
      simp only
      by_cases hdd : c = dotdot
      · simp [hdd]
      · rw [if_neg hdd, if_neg hdd, upsText_succ]
        have hpre := dirText_prefix a Yr'.reverse B
          (fun x hx => (hok' x (by simpa using hx)).noSlash) (fun x hx => (hB x hx).noSlash)
        by_cases hp : Yr'.reverse <+: B
        · have hp1 : (dirText a Yr'.reverse).isPrefixOf (dirText a B) = true := hpre.mpr hp
          have hp2 : Yr'.reverse.isPrefixOf B = true := List.isPrefixOf_iff_prefix.mpr hp
          rw [if_pos hp1, if_pos hp2]
          obtain ⟨R, hR⟩ := hp
          have hdrop : B.drop Yr'.length = R := by
            rw [← hR]
            have : Yr'.length = Yr'.reverse.length := by simp
            rw [this, List.drop_left]
          simp only [relOut, hdrop]
          by_cases hRn : R = []
          · subst hRn
            simp only [List.append_nil] at hR
            have hlen : ¬ t'.length > (dirText a Yr'.reverse).length := by
              rw [ht, ← hR]
              unfold dirText
              by_cases hY : Yr'.reverse = []
              · rw [hY]; simp [joinS, flat]
              · rw [flat_eq_joinS _ hY]; simp
            rw [if_neg hlen, if_neg (show ¬ ([] : List Bytes) ≠ [] by simp)]
          · rw [if_pos hRn]
            have ht2 : t' = dirText a Yr'.reverse ++ joinS R := by
              rw [ht, ← hR, joinS_append _ _ hRn]
              simp [dirText]
            have hj : joinS R ≠ [] := by
              intro h
              have hRok : ∀ x ∈ R, ItemOk x := fun x hx => hB x (by rw [← hR]; simp [hx])
              exact hRn ((joinS_eq_nil R hRok).mp h)
            have hlen : t'.length > (dirText a Yr'.reverse).length := by
              rw [ht2, List.length_append]
              have : (joinS R).length > 0 := List.length_pos_iff.mpr hj
              omega
            rw [if_pos hlen, ht2, List.drop_left]
        · have hp1 : ¬ (dirText a Yr'.reverse).isPrefixOf (dirText a B) = true := fun h => hp (hpre.mp h)
          have hp2 : ¬ Yr'.reverse.isPrefixOf B = true := fun h => hp (List.isPrefixOf_iff_prefix.mp h)
          rw [if_neg hp1, if_neg hp2]
          have hne : Yr' ≠ [] := by
            intro h; subst h; exact hp (by simp)
          exact ih fuel' (j + 1) hok' hne (by simp at hfuel; omega)


theorem relItems_some : ∀ (Yr B : List Bytes) (j j' : Nat) (R : List Bytes),
    relItems Yr B j = some (j', R) →
    ∃ C S, Yr.reverse = C ++ S ∧ B = C ++ R ∧ j' = j + S.length ∧ ∀ c ∈ S, c ≠ dotdot := by
  intro Yr
  induction Yr with
  | nil => intro B j j' R h; simp [relItems] at h
  | cons c Yr' ih =>
    intro B j j' R h
    simp only [relItems] at h
    by_cases hdd : c = dotdot
    · simp [hdd] at h
    · rw [if_neg hdd] at h
      by_cases hp : Yr'.reverse.isPrefixOf B = true
      · rw [if_pos hp] at h
        simp only [Option.some.injEq, Prod.mk.injEq] at h
        obtain ⟨Z, hZ⟩ := List.isPrefixOf_iff_prefix.mp hp
        refine ⟨Yr'.reverse, [c], by simp, ?_, by simp [← h.1], by simpa using hdd⟩
        rw [← h.2, ← hZ]
        have : Yr'.length = Yr'.reverse.length := by simp
        rw [this, List.drop_left]
      · rw [if_neg hp] at h
        obtain ⟨C, S, h1, h2, h3, h4⟩ := ih B (j + 1) j' R h
        refine ⟨C, S ++ [c], by simp [h1], h2, by simp [h3]; omega, ?_⟩
        intro x hx
        simp only [List.mem_append, List.mem_singleton] at hx
        rcases hx with hx | hx
        · exact h4 x hx
        · rw [hx]; exact hdd

theorem relItems_ne_none (B rep : List Bytes) (hrep : rep.reverse <+: B) :
    ∀ (comps : List Bytes) (j : Nat), (∀ c ∈ comps, c ≠ dotdot) → ¬ ((comps ++ rep).reverse <+: B) →
      relItems (comps ++ rep) B j ≠ none := by
  intro comps
  induction comps with
  | nil => intro j _ h; exact absurd hrep (by simpa using h)
  | cons c comps' ih =>
    intro j hc hnp
    simp only [List.cons_append, relItems]
    rw [if_neg (hc c (List.mem_cons_self))]
    by_cases hp : (comps' ++ rep).reverse.isPrefixOf B = true
    · rw [if_pos hp]; simp
    · rw [if_neg hp]
      exact ih (j + 1) (fun x hx => hc x (List.mem_cons_of_mem _ hx))
        (fun h => hp (List.isPrefixOf_iff_prefix.mpr h))

theorem not_prefix_of_more_ups (uf ut : Nat) (h : ut < uf) (Z N : List Bytes) (hN : ∀ c ∈ N, c ≠ dotdot) :
    ¬ (List.replicate uf dotdot ++ Z <+: List.replicate ut dotdot ++ N) := by
  intro hp
  have : uf = ut + (uf - ut - 1 + 1) := by omega
  rw [this, ← List.replicate_append_replicate, List.append_assoc, List.prefix_append_right_inj, List.replicate_succ] at hp
  obtain ⟨W, hW⟩ := hp
  cases N with
  | nil => simp at hW
  | cons n N' =>
    simp only [List.cons_append, List.cons.injEq] at hW
    exact hN n (List.mem_cons_self) hW.1.symm

theorem relItems_none (uf ut : Nat) (h : ut < uf) (N : List Bytes) (hN : ∀ c ∈ N, c ≠ dotdot) :
    ∀ (comps : List Bytes) (j : Nat), (∀ c ∈ comps, c ≠ dotdot) →
      relItems (comps ++ List.replicate uf dotdot) (List.replicate ut dotdot ++ N) j = none := by
  intro comps
  induction comps with
  | nil =>
    intro j _
    have : uf = (uf - 1) + 1 := by omega
    rw [this, List.replicate_succ]
    simp [relItems]
  | cons c comps' ih =>
    intro j hc
    simp only [List.cons_append, relItems]
    rw [if_neg (hc c (List.mem_cons_self))]
    have hnp : ¬ ((comps' ++ List.replicate uf dotdot).reverse.isPrefixOf (List.replicate ut dotdot ++ N) = true) := by
      intro hp
      have := List.isPrefixOf_iff_prefix.mp hp
      rw [List.reverse_append, List.reverse_replicate] at this
      exact not_prefix_of_more_ups uf ut h _ N hN this
    rw [if_neg hnp]
    exact ih (j + 1) (fun x hx => hc x (List.mem_cons_of_mem _ hx))

/-! ### the stack machine on the result -/

def run (a : Bool) (Y : List Bytes) : Den := Y.foldl dstep ⟨a, 0, []⟩

theorem den_eq_run (d : Den) (hv : d.Valid) : d = run d.abs (outItems d) := by
  obtain ⟨a, u, cs⟩ := d
  unfold run outItems
  simp only [List.foldl_append]
  rw [foldl_dstep_ups a u 0, foldl_dstep_names a (0 + u) cs.reverse [] (by
    intro c hc; exact hv c (by simpa using hc))]
  simp

theorem pop_names : ∀ (S : List Bytes), (∀ c ∈ S, IsName c) → ∀ (e : Den),
    (List.replicate S.length dotdot).foldl dstep (S.reverse.foldl dstep e) = e := by
  intro S
  induction S with
  | nil => intro _ e; rfl
  | cons c S' ih =>
    intro h e
    have hc := h c (List.mem_cons_self)
    simp only [List.reverse_cons, List.foldl_append, List.foldl_cons, List.foldl_nil, List.length_cons,
      List.replicate_succ]
    have h1 : dstep (List.foldl dstep e S'.reverse) c =
        { List.foldl dstep e S'.reverse with comps := c :: (List.foldl dstep e S'.reverse).comps } := by
      simp [dstep, hc.2.2.1, hc.2.2.2]
    rw [h1]
    have h2 : dstep { List.foldl dstep e S'.reverse with comps := c :: (List.foldl dstep e S'.reverse).comps } dotdot
        = List.foldl dstep e S'.reverse := by
      simp [dstep, dotdot]
    rw [h2]
    exact ih (fun x hx => h x (List.mem_cons_of_mem _ hx)) e

theorem chunks_flat : ∀ (Y : List Bytes), (∀ c ∈ Y, ItemOk c) → chunks (flat Y) = Y := by
  intro Y
  induction Y with
  | nil => intro _; simp [flat, chunks_nil]
  | cons c rest ih =>
    intro h
    have hc := h c (List.mem_cons_self)
    simp only [flat]
    rw [chunks_append_sep c 47 _ (by decide), chunks_of_sepfree c hc.1 hc.2,
      ih (fun x hx => h x (List.mem_cons_of_mem _ hx))]
    simp

theorem chunks_joinS (Y : List Bytes) (h : ∀ c ∈ Y, ItemOk c) : chunks (joinS Y) = Y := by
  by_cases hY : Y = []
  · subst hY; simp [joinS, chunks_nil]
  · have := chunks_flat Y h
    rw [flat_eq_joinS Y hY] at this
    have h2 : chunks (joinS Y ++ [47]) = chunks (joinS Y) ++ chunks [] :=
      chunks_append_sep (joinS Y) 47 [] (by decide)
    rw [h2, chunks_nil, List.append_nil] at this
    exact this

theorem relOut_eq (j : Nat) (R : List Bytes) : relOut (j, R) = joinS (List.replicate j dotdot ++ R) := by
  unfold relOut upsText
  by_cases hR : R = []
  · subst hR
    simp only [ne_eq, not_true_eq_false, if_false, List.append_nil]
    cases j with
    | zero => simp [flat, joinS]
    | succ n =>
      rw [flat_eq_joinS _ (by simp [List.replicate_succ]), List.dropLast_concat]
  · simp only [ne_eq, hR, not_false_eq_true, if_true]
    rw [joinS_append _ _ hR]

theorem startsWithSlash_joinS (Y : List Bytes) (h : ∀ c ∈ Y, ItemOk c) : startsWithSlash (joinS Y) = false := by
  cases Y with
  | nil => rfl
  | cons c rest =>
    have hc := h c (List.mem_cons_self)
    cases c with
    | nil => exact absurd rfl hc.1
    | cons y ys =>
      have hy : isSep y = false := hc.2 y (List.mem_cons_self)
      cases rest <;> simp [joinS, startsWithSlash, hy]

theorem denote_join (frm r : Bytes) (hr : startsWithSlash r = false) :
    denote (join frm r) = (chunks r).foldl dstep (denote frm) := by
  unfold join
  by_cases h : frm = []
  · subst h
    simp only [if_true]
    unfold denote
    rw [hr]
    simp [chunks_nil, startsWithSlash]
  · rw [if_neg h]
    unfold denote
    rw [chunks_append_sep frm 47 r (by decide), List.foldl_append]
    cases frm with
    | nil => exact absurd rfl h
    | cons x xs => rfl


theorem length_le_flat : ∀ (Y : List Bytes), Y.length ≤ (flat Y).length := by
  intro Y
  induction Y with
  | nil => simp
  | cons c rest ih => simp only [flat, List.length_cons, List.length_append]; omega

theorem name_of_outItem (d : Den) (hv : d.Valid) (c : Bytes) (hc : c ∈ outItems d) (hd : c ≠ dotdot) : IsName c := by
  simp only [outItems, List.mem_append, List.mem_replicate, List.mem_reverse] at hc
  rcases hc with h | h
  · exact absurd h.2 hd
  · exact hv c h

theorem run_append (a : Bool) (X Y : List Bytes) : run a (X ++ Y) = Y.foldl dstep (run a X) := by
  simp [run, List.foldl_append]

theorem comps_ne_dotdot (d : Den) (hv : d.Valid) : ∀ c ∈ d.comps, c ≠ dotdot := fun c hc => (hv c hc).2.2.2

theorem getRelativePath_spec (frm to : Bytes) :
    (RelExists frm to → denote (join frm (getRelativePath frm to)) = denote to) ∧
    (¬ RelExists frm to → getRelativePath frm to = []) := by
  have hvf := (denote_valid frm).1
  have hvt := (denote_valid to).1
  unfold RelExists
  generalize hdf : denote frm = df at *
  generalize hdt : denote to = dt at *
  unfold getRelativePath
  simp only [simplifyPath_eq_render, hdf, hdt]
  by_cases heq : render df = render dt
  · have hd : df = dt := by
      have := congrArg denote heq
      rwa [denote_render df hvf, denote_render dt hvt] at this
    rw [if_pos heq]
    subst hd
    constructor
    · intro _
      rw [denote_join frm [46] rfl, hdf]
      have : chunks [46] = [[46]] := by decide
      rw [this]
      simp [dstep]
    · intro h; exact absurd ⟨rfl, Nat.le_refl _⟩ h
  · rw [if_neg heq, startsWith47_render df hvf, startsWith47_render dt hvt]
    by_cases habs : df.abs = dt.abs
    · rw [if_neg (by simpa using habs)]
      rw [ensureSlash_render df hvf, ensureSlash_render dt hvt, ← habs]
      have hAok := outItems_ok df hvf
      have hBok := outItems_ok dt hvt
      have hpre := dirText_prefix df.abs (outItems df) (outItems dt)
        (fun c hc => (hAok c hc).noSlash) (fun c hc => (hBok c hc).noSlash)
      have htr : render dt = pre df.abs ++ joinS (outItems dt) := by rw [render_eq_joinS dt hvt, habs]
      have hrunf : df = run df.abs (outItems df) := den_eq_run df hvf
      have hrunt : dt = run df.abs (outItems dt) := by rw [habs]; exact den_eq_run dt hvt
      by_cases hp : outItems df <+: outItems dt
      · rw [if_pos (hpre.mpr hp)]
        obtain ⟨R, hR⟩ := hp
        have hRn : R ≠ [] := by
          intro h; subst h
          simp only [List.append_nil] at hR
          apply heq
          rw [render_eq_joinS df hvf, htr, hR]
        have hdrop : (render dt).drop (dirText df.abs (outItems df)).length = joinS R := by
          rw [htr, ← hR, joinS_append _ _ hRn]
          have : pre df.abs ++ (flat (outItems df) ++ joinS R) = dirText df.abs (outItems df) ++ joinS R := by
            simp [dirText]
          rw [this, List.drop_left]
        rw [hdrop]
        have hRok : ∀ c ∈ R, ItemOk c := fun c hc => hBok c (by rw [← hR]; simp [hc])
        constructor
        · intro _
          rw [denote_join frm _ (startsWithSlash_joinS R hRok), chunks_joinS R hRok, hdf]
          conv => lhs; rw [hrunf]
          rw [← run_append, hR, ← hrunt]
        · intro hne
          exfalso
          apply hne
          refine ⟨rfl, ?_⟩
          by_cases hle : df.ups ≤ dt.ups
          · exact hle
          · exfalso
            have hlt : dt.ups < df.ups := by omega
            apply not_prefix_of_more_ups df.ups dt.ups hlt df.comps.reverse dt.comps.reverse
              (fun c hc => comps_ne_dotdot dt hvt c (by simpa using hc))
            exact ⟨R, hR⟩
      · rw [if_neg (fun h => hp (hpre.mp h))]
        have hAne : outItems df ≠ [] := by
          intro h; apply hp; rw [h]; exact List.nil_prefix
        have hloop := relLoop_eq df.abs (render dt) (outItems dt) hBok htr (outItems df).reverse
          (dirText df.abs (outItems df)).length 0
          (fun c hc => hAok c (by simpa using hc)) (by simpa using hAne)
          (by
            simp only [List.length_reverse, dirText, List.length_append]
            have := length_le_flat (outItems df)
            omega)
        have hu0 : upsText 0 = [] := rfl
        rw [List.reverse_reverse, hu0] at hloop
        rw [hloop]
        have hArev : (outItems df).reverse = df.comps ++ List.replicate df.ups dotdot := by
          simp [outItems]
        by_cases hle : df.ups ≤ dt.ups
        · have hnn : relItems (outItems df).reverse (outItems dt) 0 ≠ none := by
            rw [hArev]
            apply relItems_ne_none (outItems dt) (List.replicate df.ups dotdot)
            · rw [List.reverse_replicate]
              have : dt.ups = df.ups + (dt.ups - df.ups) := by omega
              unfold outItems
              rw [this, ← List.replicate_append_replicate, List.append_assoc]
              exact List.prefix_append _ _
            · exact comps_ne_dotdot df hvf
            · rw [← hArev, List.reverse_reverse]; exact hp
          cases hri : relItems (outItems df).reverse (outItems dt) 0 with
          | none => exact absurd hri hnn
          | some o =>
            obtain ⟨j', R⟩ := o
            obtain ⟨C, S, h1, h2, h3, h4⟩ := relItems_some _ _ _ _ _ hri
            rw [List.reverse_reverse] at h1
            simp only [Nat.zero_add] at h3
            subst h3
            simp only
            rw [relOut_eq]
            have hSname : ∀ c ∈ S, IsName c := fun c hc =>
              name_of_outItem df hvf c (by rw [h1]; simp [hc]) (h4 c hc)
            have hRok : ∀ c ∈ R, ItemOk c := fun c hc => hBok c (by rw [h2]; simp [hc])
            have hallok : ∀ c ∈ List.replicate S.length dotdot ++ R, ItemOk c := by
              intro c hc
              simp only [List.mem_append, List.mem_replicate] at hc
              rcases hc with hc | hc
              · rw [hc.2]; exact ⟨by decide, dotdot_sepfree⟩
              · exact hRok c hc
            constructor
            · intro _
              rw [denote_join frm _ (startsWithSlash_joinS _ hallok), chunks_joinS _ hallok, hdf,
                List.foldl_append]
              have hpop : (List.replicate S.length dotdot).foldl dstep df = run df.abs C := by
                conv => lhs; rw [hrunf, h1, run_append]
                have := pop_names S.reverse (fun c hc => hSname c (by simpa using hc)) (run df.abs C)
                simpa using this
              rw [hpop, ← run_append, ← h2, ← hrunt]
            · intro hne; exact absurd ⟨trivial, hle⟩ hne
        · have hlt : dt.ups < df.ups := by omega
          have hnone : relItems (outItems df).reverse (outItems dt) 0 = none := by
            rw [hArev]
            unfold outItems
            exact relItems_none df.ups dt.ups hlt dt.comps.reverse
              (fun c hc => comps_ne_dotdot dt hvt c (by simpa using hc)) df.comps 0 (comps_ne_dotdot df hvf)
          rw [hnone]
          constructor
          · intro h; exact absurd h.2 hle
          · intro _; rfl
    · rw [if_pos (by simpa using habs)]
      constructor
      · intro h; exact absurd h.1 habs
      · intro _; rfl


theorem denote_join_ne (frm r : Bytes) (h : frm ≠ []) :
    denote (join frm r) = (chunks r).foldl dstep (denote frm) := by
  unfold join
  rw [if_neg h]
  unfold denote
  rw [chunks_append_sep frm 47 r (by decide), List.foldl_append]
  cases frm with
  | nil => exact absurd rfl h
  | cons x xs => rfl

theorem dstep_ups_le (d : Den) (c : Bytes) : d.ups ≤ (dstep d c).ups := by
  unfold dstep
  by_cases h1 : c = [46]
  · simp [h1]
  · by_cases h2 : c = dotdot
    · subst h2
      rw [if_neg h1, if_pos rfl]
      cases d.comps <;> simp
    · simp [h1, h2]

theorem foldl_dstep_mono : ∀ (cs : List Bytes) (d : Den),
    d.ups ≤ (cs.foldl dstep d).ups ∧ (cs.foldl dstep d).abs = d.abs := by
  intro cs
  induction cs with
  | nil => intro d; exact ⟨Nat.le_refl _, rfl⟩
  | cons c cs ih =>
    intro d
    simp only [List.foldl_cons]
    have := ih (dstep d c)
    exact ⟨Nat.le_trans (dstep_ups_le d c) this.1, by rw [this.2, dstep_abs]⟩

end Nstd.Path
