import Nstd.Path.ScanBase
/-
  The loops of the translated File::simplifyPath (Nstd/Generated/PathScan.lean): the two skipping `while` loops, the
  look-back loop of the `..` branch (= the model's `lookBack`), one round of the component loop (= the model's `sstep` on
  the next chunk) and the whole loop (= the fold over `chunks`).
-/
namespace Nstd.Path.Scan
open Nstd.Path Nstd.Path.Cxx Nstd.Generated.PathScan


theorem nsep_test (c : Nat) : (decide (c ≠ 47) && decide (c ≠ 92)) = !isSep c := by
  rw [Bool.eq_iff_iff]; simp [isSep]

open simplifyPath in
/-- the first `while` of the component loop passes the separators -/
theorem simp_loop4 (f0 : Nat) (path R : Bytes) (dt e ch cl : Int) (ab : Bool) (d2 p : Int) (r : Bytes) :
    ∀ (k lo : Nat), lo + k ≤ path.length →
      (∀ i, lo ≤ i → i < lo + k → isSep (path.getD i 0) = true) →
      (lo + k = path.length ∨ isSep (path.getD (lo + k) 0) = false) →
      ∀ fuel, k + 1 ≤ fuel →
      simplifyPath_loop4 f0 fuel ⟨path, R, dt, (lo : Int), (path.length : Int), e, ch, cl, ab, d2, p, r⟩
        = some (Exit.fall, ⟨path, R, dt, ((lo + k : Nat) : Int), (path.length : Int), e, ch, cl, ab, d2, p, r⟩) := by
  intro k
  induction k with
  | zero =>
    intro lo hk _ hend fuel hf
    obtain ⟨fuel, rfl⟩ : ∃ n, fuel = n + 1 := ⟨fuel - 1, by omega⟩
    have h1 : lo ≤ path.length := by omega
    simp only [simplifyPath_loop4, cAt_nat, inb_nat, sep_test', h1, Nat.add_zero]
    rcases hend with hend | hend
    · have : ¬ ((lo : Int) < (path.length : Int)) := by omega
      simp only [this]
      bool_norm
    · simp only [Nat.add_zero] at hend
      simp only [hend]
      bool_norm
  | succ k ih =>
    intro lo hk hs hend fuel hf
    obtain ⟨fuel, rfl⟩ : ∃ n, fuel = n + 1 := ⟨fuel - 1, by omega⟩
    have h1 : lo ≤ path.length := by omega
    have h2 : ((lo : Int) < (path.length : Int)) := by omega
    have h3 := hs lo (by omega) (by omega)
    have e1 : (lo : Int) + 1 = ((lo + 1 : Nat) : Int) := by omega
    simp only [simplifyPath_loop4, cAt_nat, inb_nat, sep_test', h1, h2, h3, e1]
    bool_norm
    have := ih (lo + 1) (by omega) (fun i a b => hs i (by omega) (by omega))
      (by rcases hend with h | h
          · left; omega
          · right; rw [show lo + 1 + k = lo + (k + 1) by omega]; exact h) fuel (by omega)
    rw [this, show lo + 1 + k = lo + (k + 1) by omega]

open simplifyPath in
/-- the second `while` passes the component -/
theorem simp_loop3 (f0 : Nat) (path R : Bytes) (dt st0 ch cl : Int) (ab : Bool) (d2 p : Int) (r : Bytes) :
    ∀ (k lo : Nat), lo + k ≤ path.length →
      (∀ i, lo ≤ i → i < lo + k → isSep (path.getD i 0) = false) →
      (lo + k = path.length ∨ isSep (path.getD (lo + k) 0) = true) →
      ∀ fuel, k + 1 ≤ fuel →
      simplifyPath_loop3 f0 fuel ⟨path, R, dt, st0, (path.length : Int), (lo : Int), ch, cl, ab, d2, p, r⟩
        = some (Exit.fall, ⟨path, R, dt, st0, (path.length : Int), ((lo + k : Nat) : Int), ch, cl, ab, d2, p, r⟩) := by
  intro k
  induction k with
  | zero =>
    intro lo hk _ hend fuel hf
    obtain ⟨fuel, rfl⟩ : ∃ n, fuel = n + 1 := ⟨fuel - 1, by omega⟩
    have h1 : lo ≤ path.length := by omega
    simp only [simplifyPath_loop3, cAt_nat, inb_nat, Bool.and_assoc, nsep_test, h1, Nat.add_zero]
    rcases hend with hend | hend
    · have : ¬ ((lo : Int) < (path.length : Int)) := by omega
      simp only [this]
      bool_norm
    · simp only [Nat.add_zero] at hend
      simp only [hend]
      bool_norm
  | succ k ih =>
    intro lo hk hs hend fuel hf
    obtain ⟨fuel, rfl⟩ : ∃ n, fuel = n + 1 := ⟨fuel - 1, by omega⟩
    have h1 : lo ≤ path.length := by omega
    have h2 : ((lo : Int) < (path.length : Int)) := by omega
    have h3 := hs lo (by omega) (by omega)
    have e1 : (lo : Int) + 1 = ((lo + 1 : Nat) : Int) := by omega
    simp only [simplifyPath_loop3, cAt_nat, inb_nat, Bool.and_assoc, nsep_test, h1, h2, h3, e1]
    bool_norm
    have := ih (lo + 1) (by omega) (fun i a b => hs i (by omega) (by omega))
      (by rcases hend with h | h
          · left; omega
          · right; rw [show lo + 1 + k = lo + (k + 1) by omega]; exact h) fuel (by omega)
    rw [this, show lo + 1 + k = lo + (k + 1) by omega]



open simplifyPath in
theorem simp_loop2_skip (f0 : Nat) (path R : Bytes) (dt s se e ch cl : Int) (ab : Bool) (r : Bytes) (lo : Nat) :
    ∀ (k : Nat), lo + k ≤ R.length →
      (∀ i, lo ≤ i → i < lo + k → isSep (R.getD i 0) = false) →
      ∀ fuel, simplifyPath_loop2 f0 (fuel + k) ⟨path, R, dt, s, se, e, ch, cl, ab, 0, ((lo + k : Nat) : Int) - 1, r⟩
        = simplifyPath_loop2 f0 fuel ⟨path, R, dt, s, se, e, ch, cl, ab, 0, (lo : Int) - 1, r⟩ := by
  intro k
  induction k with
  | zero => intro _ _ fuel; rfl
  | succ k ih =>
    intro hk hs fuel
    have hp := hs (lo + k) (by omega) (by omega)
    have e1 : ((lo + (k + 1) : Nat) : Int) - 1 = ((lo + k : Nat) : Int) := by omega
    have h0 : (((lo + k : Nat) : Int) ≥ 0) := by omega
    have h1 : lo + k ≤ R.length := by omega
    rw [show fuel + (k + 1) = (fuel + k) + 1 by omega]
    simp only [e1, simplifyPath_loop2, cAt_nat, inb_nat, h0, h1, Bool.and_assoc, nsep_test, hp]
    bool_norm
    exact ih (by omega) (fun i h1 h2 => hs i h1 (by omega)) fuel

theorem cstrEq_lit (R : Bytes) (n : Nat) (l : Bytes) : cstrEq R (n : Int) l 0 = decide (R.drop n = l) := by
  simp [cstrEq]

open simplifyPath in
/-- the look-back loop of the `..` branch stops in front of the last component of the result; the comparison and the
    `resize` that follow it decide and do what the model's `lookBack` says -/
theorem simp_loop2 (f0 : Nat) (path R : Bytes) (dt s se e ch cl : Int) (ab : Bool) (r : Bytes) (fuel : Nat)
    (hf : R.length + 1 ≤ fuel) :
    ∃ P, simplifyPath_loop2 f0 fuel ⟨path, R, dt, s, se, e, ch, cl, ab, 0, (0 + (R.length : Int)) - 1, r⟩
        = some (Exit.fall, ⟨path, R, dt, s, se, e, ch, cl, ab, 0, P, r⟩) ∧
      inb R (P + 1) = true ∧
      (match lookBack R with
        | some R' => cstrEq R (P + 1) [46, 46] 0 = false ∧
            ((P < 0 ∧ resize R 0 = R') ∨ (¬ P < 0 ∧ 0 ≤ P - 0 ∧ P - 0 ≤ (R.length : Int) ∧ resize R (P - 0) = R'))
        | none => cstrEq R (P + 1) [46, 46] 0 = true) := by
  unfold lookBack
  cases h : splitLast isSep R with
  | none =>
    have hb := splitLast_none.mp h
    obtain ⟨g, rfl⟩ : ∃ g, fuel = (g + 1) + R.length := ⟨fuel - 1 - R.length, by omega⟩
    have hpos : (0 + (R.length : Int)) - 1 = ((0 + R.length : Nat) : Int) - 1 := by omega
    rw [hpos, simp_loop2_skip _ _ _ _ _ _ _ _ _ _ _ 0 R.length (by omega) (all_hyp R _ hb) (g + 1)]
    refine ⟨((0 : Nat) : Int) - 1, ?_, ?_, ?_⟩
    · have h0 : ¬ (((0 : Nat) : Int) - 1 ≥ 0) := by omega
      simp only [simplifyPath_loop2, h0]
      bool_norm
    · simp [inb]
    · have e1 : ((0 : Nat) : Int) - 1 + 1 = ((0 : Nat) : Int) := by omega
      rw [e1, cstrEq_lit, List.drop_zero]
      by_cases hd : R = dotdot
      · have : R = [46, 46] := hd
        simp [this, dotdot]
      · have : ¬ (R = [46, 46]) := hd
        simp only [hd, if_false, this, decide_false, true_and]
        left
        exact ⟨by omega, by simp [resize]⟩
  | some t =>
    obtain ⟨d, sp, b⟩ := t
    obtain ⟨h1, h2, h3⟩ := splitLast_some h
    subst h1
    have hl := len_app d sp b
    obtain ⟨g, rfl⟩ : ∃ g, fuel = (g + 1) + b.length := ⟨fuel - 1 - b.length, by omega⟩
    have hpos : (0 + ((d ++ sp :: b).length : Int)) - 1 = (((d.length + 1) + b.length : Nat) : Int) - 1 := by omega
    rw [hpos, simp_loop2_skip _ _ _ _ _ _ _ _ _ _ _ (d.length + 1) b.length (by omega) (after_hyp d sp b _ h3) (g + 1)]
    have e0 : ((d.length + 1 : Nat) : Int) - 1 = (d.length : Int) := by omega
    have e1 : (d.length : Int) + 1 = ((d.length + 1 : Nat) : Int) := by omega
    refine ⟨(d.length : Int), ?_, ?_, ?_⟩
    · have h0 : ((d.length : Int) ≥ 0) := by omega
      have i1 : d.length ≤ (d ++ sp :: b).length := by omega
      have hns : (!isSep sp) = false := by simp [h2]
      simp only [e0, simplifyPath_loop2, h0, inb_nat, cAt_nat, i1, getD_append_at, Bool.and_assoc, nsep_test, hns]
      bool_norm
    · rw [e1, inb_nat]; apply decide_eq_true; omega
    · have hdrop : (d ++ sp :: b).drop (d.length + 1) = b := by simp
      rw [e1, cstrEq_lit, hdrop]
      by_cases hd : b = dotdot
      · have : b = [46, 46] := hd
        simp [this, dotdot]
      · have : ¬ (b = [46, 46]) := hd
        simp only [hd, if_false, this, decide_false, true_and]
        right
        refine ⟨by omega, by omega, by omega, ?_⟩
        simp [resize]

theorem span_split (p : Nat → Bool) : ∀ (l : Bytes), ∃ a b, l = a ++ b ∧ (∀ x ∈ a, p x = true) ∧
    (b = [] ∨ ∃ y t, b = y :: t ∧ p y = false) := by
  intro l
  induction l with
  | nil => exact ⟨[], [], rfl, by simp, Or.inl rfl⟩
  | cons c cs ih =>
    cases hc : p c with
    | false => exact ⟨[], c :: cs, rfl, by simp, Or.inr ⟨c, cs, rfl, hc⟩⟩
    | true =>
      obtain ⟨a, b, h1, h2, h3⟩ := ih
      refine ⟨c :: a, b, by simp [h1], ?_, h3⟩
      intro x hx
      simp only [List.mem_cons] at hx
      rcases hx with rfl | hx
      · exact hc
      · exact h2 x hx

theorem chunks_sep_cons (s : Nat) (t : Bytes) (hs : isSep s = true) : chunks (s :: t) = chunks t := by
  have := chunks_append_sep [] s t hs
  simpa [chunks_nil] using this

theorem chunks_seps (seps t : Bytes) (h : ∀ x ∈ seps, isSep x = true) : chunks (seps ++ t) = chunks t := by
  induction seps with
  | nil => rfl
  | cons s ss ih =>
    rw [List.cons_append, chunks_sep_cons s _ (h s List.mem_cons_self)]
    exact ih (fun x hx => h x (List.mem_cons_of_mem _ hx))

/-- what the component loop sees from a position on: separators, one component, the rest -/
theorem next_chunk (rest : Bytes) : ∃ seps c rest2, rest = seps ++ (c ++ rest2) ∧ (∀ x ∈ seps, isSep x = true) ∧
    (∀ x ∈ c, isSep x = false) ∧ (rest2 = [] ∨ ∃ sp r3, rest2 = sp :: r3 ∧ isSep sp = true) ∧ (c = [] → rest2 = []) ∧
    chunks rest = (if c = [] then [] else c :: chunks rest2.tail) := by
  obtain ⟨seps, r1, h1, h2, h3⟩ := span_split isSep rest
  obtain ⟨c, rest2, h4, h5, h6⟩ := span_split (fun x => !isSep x) r1
  have h5' : ∀ x ∈ c, isSep x = false := by intro x hx; simpa using h5 x hx
  have h6' : rest2 = [] ∨ ∃ sp r3, rest2 = sp :: r3 ∧ isSep sp = true := by
    rcases h6 with h | ⟨y, t, h, hy⟩
    · exact Or.inl h
    · exact Or.inr ⟨y, t, h, by simpa using hy⟩
  have h7 : c = [] → rest2 = [] := by
    intro hc
    subst hc
    simp only [List.nil_append] at h4
    subst h4
    rcases h3 with h | ⟨y, t, h, hy⟩
    · exact h
    · rcases h6' with h' | ⟨sp, r3, h', hsp⟩
      · exact h'
      · rw [h] at h'
        injection h' with e1 e2
        subst e1
        rw [hy] at hsp
        exact absurd hsp (by decide)
  refine ⟨seps, c, rest2, by rw [h1, h4], h2, h5', h6', h7, ?_⟩
  rw [h1, h4, chunks_seps _ _ h2]
  by_cases hc : c = []
  · have := h7 hc
    subst hc; subst this
    simp [chunks_nil]
  · simp only [hc, if_false]
    rcases h6' with h | ⟨sp, r3, h, hsp⟩
    · subst h
      simp [chunks_of_sepfree c hc h5', chunks_nil]
    · subst h
      rw [chunks_append_sep c sp r3 hsp, chunks_of_sepfree c hc h5']
      rfl

theorem isdd_test (A c t : Bytes) :
    (decide ((((A.length + c.length : Nat) : Int) - (A.length : Int)) = 2) &&
      decide ((A ++ (c ++ t)).getD A.length 0 = 46) && decide ((A ++ (c ++ t)).getD (A.length + 1) 0 = 46))
      = decide (c = dotdot) := by
  have hlen : (((A.length + c.length : Nat) : Int) - (A.length : Int)) = (c.length : Int) := by omega
  have e2 : decide ((c.length : Int) = 2) = decide (c.length = 2) := by
    rw [Bool.eq_iff_iff]; simp only [decide_eq_true_eq]; omega
  rw [hlen, e2]
  match c with
  | [] => simp [dotdot]
  | [x] => simp [dotdot]
  | [x, y] =>
    rw [Bool.eq_iff_iff]
    simp [dotdot, List.getD_eq_getElem?_getD]
  | x :: y :: z :: w => simp [dotdot]

theorem is1dot_test (A c t : Bytes) :
    (decide ((((A.length + c.length : Nat) : Int) - (A.length : Int)) = 1) &&
      decide ((A ++ (c ++ t)).getD A.length 0 = 46)) = decide (c = [46]) := by
  have hlen : (((A.length + c.length : Nat) : Int) - (A.length : Int)) = (c.length : Int) := by omega
  have e2 : decide ((c.length : Int) = 1) = decide (c.length = 1) := by
    rw [Bool.eq_iff_iff]; simp only [decide_eq_true_eq]; omega
  rw [hlen, e2]
  match c with
  | [] => simp
  | [x] =>
    rw [Bool.eq_iff_iff]
    simp [List.getD_eq_getElem?_getD]
  | x :: y :: w => simp

open simplifyPath in
/-- the component loop stops when only separators are left -/
theorem simp_iter_end (f0 : Nat) (pre seps R : Bytes) (dt e ch cl : Int) (ab : Bool) (d2 p : Int) (r : Bytes)
    (hs : ∀ x ∈ seps, isSep x = true) (hf0 : (pre ++ seps).length + 1 ≤ f0) (fuel : Nat) :
    simplifyPath_loop1 f0 (fuel + 1) ⟨pre ++ seps, R, dt, (pre.length : Int), ((pre ++ seps).length : Int), e, ch, cl, ab, d2, p, r⟩
      = some (Exit.fall, ⟨pre ++ seps, R, dt, ((pre.length + seps.length : Nat) : Int), ((pre ++ seps).length : Int),
          ((pre.length + seps.length : Nat) : Int), ch, cl, ab, d2, p, r⟩) := by
  have hl : (pre ++ seps).length = pre.length + seps.length := by simp
  have h4 := simp_loop4 f0 (pre ++ seps) R dt e ch cl ab d2 p r seps.length pre.length (by omega)
    (by
      intro i h1 h2
      obtain ⟨j, rfl⟩ : ∃ j, i = pre.length + j := ⟨i - pre.length, by omega⟩
      have : (pre ++ seps).getD (pre.length + j) 0 = seps.getD j 0 := by
        simp [List.getD_eq_getElem?_getD, List.getElem?_append_right]
      rw [this]
      exact hs _ (getD_mem seps j (by omega)))
    (Or.inl hl.symm) f0 (by omega)
  have h3 := simp_loop3 f0 (pre ++ seps) R dt ((pre.length + seps.length : Nat) : Int) ch cl ab d2 p r 0
    (pre.length + seps.length) (by omega) (by intro i a b; omega) (Or.inl (by omega)) f0 (by omega)
  simp only [simplifyPath_loop1, h4, Nat.add_zero] at h3 ⊢
  simp only [h3]
  bool_norm

theorem getD_mid (A c t : Bytes) (j : Nat) (hj : j < c.length) : (A ++ (c ++ t)).getD (A.length + j) 0 = c.getD j 0 := by
  simp [List.getD_eq_getElem?_getD, List.getElem?_append_right, List.getElem?_append_left hj]

open simplifyPath in
theorem simp_iter (f0 : Nat) (pre seps c rest2 R : Bytes) (dt e ch cl : Int) (ab : Bool) (d2 p : Int) (r : Bytes)
    (hs : ∀ x ∈ seps, isSep x = true) (hc : ∀ x ∈ c, isSep x = false) (hne : c ≠ [])
    (hr2 : rest2 = [] ∨ ∃ sp r3, rest2 = sp :: r3 ∧ isSep sp = true)
    (hR : R.length + 1 ≤ f0) (hf0 : ((pre ++ seps) ++ (c ++ rest2)).length + 1 ≤ f0) (fuel : Nat) :
    ∃ e' ch' cl' d2' p', simplifyPath_loop1 f0 (fuel + 1)
        ⟨(pre ++ seps) ++ (c ++ rest2), R, dt, (pre.length : Int), (((pre ++ seps) ++ (c ++ rest2)).length : Int), e, ch, cl, ab, d2, p, r⟩
      = if rest2 = [] then
          some (Exit.fall, ⟨(pre ++ seps) ++ (c ++ rest2), sstep ab R c, dt, ((pre.length + seps.length : Nat) : Int),
            (((pre ++ seps) ++ (c ++ rest2)).length : Int), e', ch', cl', ab, d2', p', r⟩)
        else
          simplifyPath_loop1 f0 fuel ⟨(pre ++ seps) ++ (c ++ rest2), sstep ab R c, dt,
            ((pre.length + seps.length + c.length + 1 : Nat) : Int),
            (((pre ++ seps) ++ (c ++ rest2)).length : Int), e', ch', cl', ab, d2', p', r⟩ := by
  generalize hpath : (pre ++ seps) ++ (c ++ rest2) = path at *
  have hl : path.length = pre.length + seps.length + c.length + rest2.length := by subst hpath; simp; omega
  have hcl : 0 < c.length := by cases c with | nil => exact absurd rfl hne | cons _ _ => simp
  have hA : (pre ++ seps).length = pre.length + seps.length := by simp
  have h4 := simp_loop4 f0 path R dt e ch cl ab d2 p r seps.length pre.length (by omega)
    (by
      intro i h1 h2
      obtain ⟨j, rfl⟩ : ∃ j, i = pre.length + j := ⟨i - pre.length, by omega⟩
      have : path.getD (pre.length + j) 0 = seps.getD j 0 := by
        subst hpath
        simp [List.getD_eq_getElem?_getD, List.getElem?_append_right, List.getElem?_append_left (show j < seps.length by omega)]
      rw [this]
      exact hs _ (getD_mem seps j (by omega)))
    (Or.inr (by
      have := getD_mid (pre ++ seps) c rest2 0 hcl
      rw [hpath, hA, Nat.add_zero] at this
      rw [this]; exact hc _ (getD_mem c 0 hcl))) f0 (by omega)
  have h3 := simp_loop3 f0 path R dt ((pre.length + seps.length : Nat) : Int) ch cl ab d2 p r c.length
    (pre.length + seps.length) (by omega)
    (by
      intro i h1 h2
      obtain ⟨j, rfl⟩ : ∃ j, i = (pre.length + seps.length) + j := ⟨i - (pre.length + seps.length), by omega⟩
      have := getD_mid (pre ++ seps) c rest2 j (by omega)
      rw [hpath, hA] at this
      rw [this]; exact hc _ (getD_mem c j (by omega)))
    (by
      rcases hr2 with h | ⟨sp, r3, h, hsp⟩
      · left; subst h; simp at hl; omega
      · right
        have : path.getD (pre.length + seps.length + c.length) 0 = sp := by
          subst hpath; subst h
          have := getD_append_at ((pre ++ seps) ++ c) sp r3
          simpa [List.append_assoc, Nat.add_assoc] using this
        rw [this]; exact hsp) f0 (by omega)
  simp only [simplifyPath_loop1, h4, h3]
  have g0 : decide (((pre.length + seps.length + c.length : Nat) : Int) = ((pre.length + seps.length : Nat) : Int)) = false := by
    apply decide_eq_false; omega
  have g1 : decide ((0 : Int) ≤ ((pre.length + seps.length + c.length : Nat) : Int) - ((pre.length + seps.length : Nat) : Int)) = true := by
    apply decide_eq_true; omega
  have e1 : ((pre.length + seps.length : Nat) : Int) + 1 = ((pre.length + seps.length + 1 : Nat) : Int) := by omega
  have i1 : pre.length + seps.length ≤ path.length := by omega
  have i2 : pre.length + seps.length + 1 ≤ path.length := by omega
  have hdd := isdd_test (pre ++ seps) c rest2
  have h1d := is1dot_test (pre ++ seps) c rest2
  rw [hpath, hA] at hdd h1d
  have hmk : mk path ((pre.length + seps.length : Nat) : Int)
      (((pre.length + seps.length + c.length : Nat) : Int) - ((pre.length + seps.length : Nat) : Int)) = c := by
    have : ((pre.length + seps.length + c.length : Nat) : Int) - ((pre.length + seps.length : Nat) : Int) = ((c.length : Nat) : Int) := by omega
    rw [this, mk_nat, ← hpath, ← hA]
    simp
  have hmkOk : mkOk path ((pre.length + seps.length : Nat) : Int)
      (((pre.length + seps.length + c.length : Nat) : Int) - ((pre.length + seps.length : Nat) : Int)) = true := by
    have : ((pre.length + seps.length + c.length : Nat) : Int) - ((pre.length + seps.length : Nat) : Int) = ((c.length : Nat) : Int) := by omega
    rw [this, mkOk_nat]; apply decide_eq_true; omega
  have hend : decide (((pre.length + seps.length + c.length : Nat) : Int) ≥ (path.length : Int)) = decide (rest2 = []) := by
    rw [Bool.eq_iff_iff]; simp only [decide_eq_true_eq]
    constructor
    · intro h; apply List.eq_nil_of_length_eq_zero; omega
    · intro h; subst h; simp at hl; omega
  have enext : ((pre.length + seps.length + c.length : Nat) : Int) + 1 = ((pre.length + seps.length + c.length + 1 : Nat) : Int) := by omega
  simp only [g0, g1, e1, inb_nat, cAt_nat, i1, i2]
  bool_norm
  simp only [hdd, h1d]
  by_cases hcd : c = dotdot
  · have hcdd : decide (c = dotdot) = true := by apply decide_eq_true; exact hcd
    have hn1 : ¬ (c = [46]) := by rw [hcd]; decide
    simp only [hcdd]
    bool_norm
    by_cases hRe : R = []
    · subst hRe
      have hss : sstep ab [] c = push ab [] c := by simp [sstep, hn1]
      have hn1' : decide (c = [46]) = false := by apply decide_eq_false; exact hn1
      simp only [List.isEmpty_nil, hn1']
      bool_norm
      simp only [hmkOk, hmk, hend, enext, hss, push]
      bool_norm
      refine ⟨((pre.length + seps.length + c.length : Nat) : Int), ((pre.length + seps.length : Nat) : Int), ((pre.length + seps.length + c.length : Nat) : Int) - ((pre.length + seps.length : Nat) : Int), d2, p, ?_⟩
      cases ab <;> by_cases hr2e : rest2 = [] <;> simp [hr2e]
    · have hRi : R.isEmpty = false := by cases R with | nil => exact absurd rfl hRe | cons _ _ => rfl
      obtain ⟨P, h2, hin, hlk⟩ := simp_loop2 f0 path R dt ((pre.length + seps.length : Nat) : Int) (path.length : Int)
        ((pre.length + seps.length + c.length : Nat) : Int) ((pre.length + seps.length : Nat) : Int)
        (((pre.length + seps.length + c.length : Nat) : Int) - ((pre.length + seps.length : Nat) : Int)) ab r f0 hR
      simp only [hRi]
      bool_norm
      rw [h2]
      simp only [hin]
      bool_norm
      cases hlb : lookBack R with
      | none =>
        rw [hlb] at hlk
        have hss : sstep ab R c = R ++ [47] ++ c := by simp [sstep, hcd, hRe, hlb, push]
        simp only [hlk, hRi, hmkOk, hmk, hend, enext, hss]
        bool_norm
        refine ⟨((pre.length + seps.length + c.length : Nat) : Int), ((pre.length + seps.length : Nat) : Int), ((pre.length + seps.length + c.length : Nat) : Int) - ((pre.length + seps.length : Nat) : Int), 0, P, ?_⟩
        by_cases hr2e : rest2 = [] <;> simp [hr2e]
      | some R' =>
        rw [hlb] at hlk
        obtain ⟨hce, hrs⟩ := hlk
        have hss : sstep ab R c = R' := by simp [sstep, hcd, hRe, hlb]
        simp only [hce, hss]
        bool_norm
        rcases hrs with ⟨hneg, hr0⟩ | ⟨hneg, g1, g2, hr1⟩
        · have g3 : decide ((0 : Int) ≤ (R.length : Int)) = true := by apply decide_eq_true; omega
          have g4 : decide ((0 : Int) ≤ (0 : Int)) = true := by decide
          simp only [hneg, g3, g4, hr0, hend, enext]
          bool_norm
          refine ⟨((pre.length + seps.length + c.length : Nat) : Int), ((pre.length + seps.length : Nat) : Int), ((pre.length + seps.length + c.length : Nat) : Int) - ((pre.length + seps.length : Nat) : Int), 0, P, ?_⟩
          by_cases hr2e : rest2 = [] <;> simp [hr2e]
        · have g3 : decide ((0 : Int) ≤ P - 0) = true := by apply decide_eq_true; exact g1
          have g4 : decide (P - 0 ≤ (R.length : Int)) = true := by apply decide_eq_true; exact g2
          simp only [hneg, g3, g4, hr1, hend, enext]
          bool_norm
          refine ⟨((pre.length + seps.length + c.length : Nat) : Int), ((pre.length + seps.length : Nat) : Int), ((pre.length + seps.length + c.length : Nat) : Int) - ((pre.length + seps.length : Nat) : Int), 0, P, ?_⟩
          by_cases hr2e : rest2 = [] <;> simp [hr2e]
  · have hcd' : decide (c = dotdot) = false := by apply decide_eq_false; exact hcd
    simp only [hcd']
    bool_norm
    by_cases h1 : c = [46]
    · have hnd : ¬ (([46] : Bytes) = dotdot) := by decide
      have hss : sstep ab R c = R := by simp [sstep, h1, hnd]
      have h1' : decide (c = [46]) = true := by apply decide_eq_true; exact h1
      simp only [h1', hss]
      bool_norm
      simp only [hend, enext]
      refine ⟨((pre.length + seps.length + c.length : Nat) : Int), ((pre.length + seps.length : Nat) : Int), ((pre.length + seps.length + c.length : Nat) : Int) - ((pre.length + seps.length : Nat) : Int), d2, p, ?_⟩
      by_cases hr2e : rest2 = [] <;> simp [hr2e]
    · have h1' : decide (c = [46]) = false := by apply decide_eq_false; exact h1
      have hss : sstep ab R c = push ab R c := by simp [sstep, hcd, h1]
      simp only [h1', hss]
      bool_norm
      by_cases hp : (!R.isEmpty || ab) = true
      · have hpp : push ab R c = R ++ [47] ++ c := by
          have : R ≠ [] ∨ ab = true := by
            cases R with
            | nil => simp at hp; exact Or.inr hp
            | cons _ _ => exact Or.inl (by simp)
          simp [push, this]
        simp only [hp, hmkOk, hmk, hend, enext, hpp]
        bool_norm
        refine ⟨((pre.length + seps.length + c.length : Nat) : Int), ((pre.length + seps.length : Nat) : Int), ((pre.length + seps.length + c.length : Nat) : Int) - ((pre.length + seps.length : Nat) : Int), d2, p, ?_⟩
        by_cases hr2e : rest2 = [] <;> simp [hr2e]
      · have hpp : push ab R c = R ++ c := by
          have : ¬ (R ≠ [] ∨ ab = true) := by
            cases R with
            | nil => simp at hp; simp [hp]
            | cons _ _ => simp at hp
          simp [push, this]
        simp only [hp, hmkOk, hmk, hend, enext, hpp]
        bool_norm
        refine ⟨((pre.length + seps.length + c.length : Nat) : Int), ((pre.length + seps.length : Nat) : Int), ((pre.length + seps.length + c.length : Nat) : Int) - ((pre.length + seps.length : Nat) : Int), d2, p, ?_⟩
        by_cases hr2e : rest2 = [] <;> simp [hr2e]

theorem lookBack_length (R R' : Bytes) (h : lookBack R = some R') : R'.length ≤ R.length := by
  unfold lookBack at h
  cases hs : splitLast isSep R with
  | none =>
    simp only [hs] at h
    by_cases hd : R = dotdot
    · simp [hd] at h
    · simp only [hd, if_false, Option.some.injEq] at h
      subst h; simp
  | some t =>
    obtain ⟨d, sp, b⟩ := t
    obtain ⟨h1, _, _⟩ := splitLast_some hs
    simp only [hs] at h
    by_cases hd : b = dotdot
    · simp [hd] at h
    · simp only [hd, if_false, Option.some.injEq] at h
      subst h; subst h1; simp

theorem sstep_length (ab : Bool) (R c : Bytes) : (sstep ab R c).length ≤ R.length + 1 + c.length := by
  unfold sstep
  have hpush : (push ab R c).length ≤ R.length + 1 + c.length := by
    unfold push
    by_cases h : R ≠ [] ∨ ab = true
    · simp only [h, if_true, List.length_append, List.length_singleton]; omega
    · simp only [h, if_false, List.length_append]; omega
  by_cases h1 : c = dotdot ∧ R ≠ []
  · simp only [h1, and_self, ne_eq, not_false_eq_true, if_true]
    cases hl : lookBack R with
    | none => simp only; rw [← h1.1]; exact hpush
    | some r' => have := lookBack_length R r' hl; simp only; omega
  · simp only [h1, if_false]
    by_cases h2 : c = [46]
    · simp only [h2, if_true]; omega
    · simp only [h2, if_false]; exact hpush

open simplifyPath in
/-- the component loop of the translated simplifyPath folds the model's `sstep` over the chunks that are left -/
theorem simp_loop1 (f0 : Nat) (path : Bytes) (ab : Bool) (hf0 : path.length + 1 ≤ f0) :
    ∀ (n : Nat) (rest : Bytes), rest.length ≤ n → ∀ (pre R : Bytes), pre ++ rest = path → R.length ≤ pre.length →
      ∀ (dt e ch cl d2 p : Int) (r : Bytes) (fuel : Nat), n + 1 ≤ fuel →
      ∃ e' ch' cl' d2' p' s', simplifyPath_loop1 f0 fuel ⟨path, R, dt, (pre.length : Int), (path.length : Int), e, ch, cl, ab, d2, p, r⟩
        = some (Exit.fall, ⟨path, (chunks rest).foldl (sstep ab) R, dt, s', (path.length : Int), e', ch', cl', ab, d2', p', r⟩) := by
  intro n
  induction n with
  | zero =>
    intro rest hrest pre R hpath hR dt e ch cl d2 p r fuel hfuel
    have : rest = [] := List.eq_nil_of_length_eq_zero (by omega)
    subst this
    obtain ⟨fuel, rfl⟩ : ∃ k, fuel = k + 1 := ⟨fuel - 1, by omega⟩
    simp only [List.append_nil] at hpath
    subst hpath
    have := simp_iter_end f0 pre [] R dt e ch cl ab d2 p r (by simp) (by simpa using hf0) fuel
    simp only [List.append_nil] at this
    rw [this]
    simp only [chunks_nil, List.foldl_nil]
    exact ⟨_, _, _, _, _, _, rfl⟩
  | succ n ih =>
    intro rest hrest pre R hpath hR dt e ch cl d2 p r fuel hfuel
    obtain ⟨fuel, rfl⟩ : ∃ k, fuel = k + 1 := ⟨fuel - 1, by omega⟩
    obtain ⟨seps, c, rest2, hdec, hs, hc, hr2, hc0, hch⟩ := next_chunk rest
    subst hdec
    by_cases hcn : c = []
    · have h2 := hc0 hcn
      subst hcn; subst h2
      simp only [List.nil_append, List.append_nil] at hpath hch ⊢
      subst hpath
      rw [simp_iter_end f0 pre seps R dt e ch cl ab d2 p r hs hf0 fuel, hch]
      exact ⟨_, _, _, _, _, _, rfl⟩
    · have hpath' : (pre ++ seps) ++ (c ++ rest2) = path := by rw [← hpath]; simp
      subst hpath'
      have hlen : ((pre ++ seps) ++ (c ++ rest2)).length = pre.length + seps.length + c.length + rest2.length := by
        simp; omega
      obtain ⟨e', ch', cl', d2', p', hit⟩ := simp_iter f0 pre seps c rest2 R dt e ch cl ab d2 p r hs hc hcn hr2
        (by omega) hf0 fuel
      rw [hit, hch]
      simp only [hcn, if_false]
      rcases hr2 with h | ⟨sp, r3, h, hsp⟩
      · subst h
        simp only [if_true, List.tail_nil, chunks_nil, List.foldl_cons, List.foldl_nil]
        exact ⟨_, _, _, _, _, _, rfl⟩
      · subst h
        simp only [reduceCtorEq, if_false, List.tail_cons, List.foldl_cons]
        have hpre : (((pre ++ seps) ++ c) ++ [sp]).length = pre.length + seps.length + c.length + 1 := by simp; omega
        have := ih r3 (by simp at hrest; omega) (((pre ++ seps) ++ c) ++ [sp]) (sstep ab R c) (by simp)
          (by rw [hpre]; have := sstep_length ab R c; omega) dt e' ch' cl' d2' p' r fuel (by omega)
        rw [hpre] at this
        exact this

end Nstd.Path.Scan
