import Nstd.Path.Obj
/-
  Property C19, File / Directory object life cycle (Nstd/Path/Obj.lean): for every history of open (with every answer
  of the system calls inside it) / close / isOpen / destructor on any number of objects, interleaved with File::copy under
  every fault, an object is open exactly when it holds a descriptor of the process, every descriptor of the process is held
  by exactly one object (no leak), close is idempotent, a second open is refused without touching anything.
-/
namespace Nstd.Path.Obj

theorem le_foldl_max (l : List Nat) : ∀ (a : Nat), a ≤ l.foldl max a ∧ ∀ x ∈ l, x ≤ l.foldl max a := by
  induction l with
  | nil => intro a; simp
  | cons c cs ih =>
    intro a
    simp only [List.foldl_cons, List.mem_cons]
    obtain ⟨h1, h2⟩ := ih (max a c)
    refine ⟨by omega, ?_⟩
    intro x hx
    rcases hx with rfl | hx
    · omega
    · exact h2 x hx

theorem fresh_not_mem (fds : List Nat) : fresh fds ∉ fds := by
  intro h
  have := (le_foldl_max fds 2).2 _ h
  unfold fresh at this
  omega

theorem fresh_ge (fds : List Nat) : 3 ≤ fresh fds := by
  have := (le_foldl_max fds 2).1
  unfold fresh
  omega

theorem upd_same (f : Nat → Nat) (i v : Nat) : upd f i v i = v := by simp [upd]
theorem upd_other (f : Nat → Nat) (i v j : Nat) (h : j ≠ i) : upd f i v j = f j := by simp [upd, h]
theorem upd_self (f : Nat → Nat) (i v : Nat) (h : f i = v) : upd f i v = f := by
  funext j; by_cases hj : j = i
  · subst hj; simp [upd, h]
  · simp [upd, hj]
theorem upd_upd (f : Nat → Nat) (i v w : Nat) : upd (upd f i v) i w = upd f i w := by
  funext j; by_cases hj : j = i <;> simp [upd, hj]

/-- the invariant: objects and the descriptor table of the process agree -/
structure Inv (st : St) : Prop where
  own : ∀ i, st.fp i ≠ 0 → st.fp i ∈ st.fds
  inj : ∀ i j, st.fp i ≠ 0 → st.fp i = st.fp j → i = j
  noleak : ∀ fd ∈ st.fds, ∃ i, st.fp i = fd
  nodup : st.fds.Nodup
  pos : ∀ fd ∈ st.fds, 3 ≤ fd

theorem inv_init : Inv init := by
  constructor <;> simp [init]

/-- an obtained descriptor that is closed again leaves the table as it was -/
theorem open_close_fds (st : St) : (sysClose (sysOpen st).1 (sysOpen st).2).fds = st.fds := by
  simp [sysOpen, sysClose]

theorem inv_open_ok (st : St) (h : Inv st) (i : Nat) (hi : st.fp i = 0) :
    Inv { fds := fresh st.fds :: st.fds, fp := upd st.fp i (fresh st.fds) } := by
  have hf := fresh_not_mem st.fds
  have hg := fresh_ge st.fds
  constructor
  · intro j hj
    by_cases e : j = i
    · subst e; simp [upd_same]
    · simp only [upd_other _ _ _ _ e] at hj ⊢
      exact List.mem_cons_of_mem _ (h.own j hj)
  · intro j k hj hjk
    by_cases e : j = i
    · subst e
      simp only [upd_same] at hjk
      by_cases e' : k = j
      · exact e'.symm
      · simp only [upd_other _ _ _ _ e'] at hjk
        have hk : st.fp k ≠ 0 := by omega
        exact absurd (hjk ▸ h.own k hk) hf
    · simp only [upd_other _ _ _ _ e] at hj hjk
      by_cases e' : k = i
      · subst e'
        simp only [upd_same] at hjk
        exact absurd (hjk ▸ h.own j hj) hf
      · simp only [upd_other _ _ _ _ e'] at hjk
        exact h.inj j k hj hjk
  · intro fd hfd
    simp only [List.mem_cons] at hfd
    rcases hfd with rfl | hfd
    · exact ⟨i, upd_same _ _ _⟩
    · obtain ⟨j, hj⟩ := h.noleak fd hfd
      have : j ≠ i := by
        intro e; subst e
        have := h.pos fd hfd
        omega
      exact ⟨j, by show upd st.fp i _ j = fd; rw [upd_other _ _ _ _ this]; exact hj⟩
  · exact List.nodup_cons.mpr ⟨hf, h.nodup⟩
  · intro fd hfd
    simp only [List.mem_cons] at hfd
    rcases hfd with rfl | hfd
    · exact hg
    · exact h.pos fd hfd

theorem inv_close (st : St) (h : Inv st) (i : Nat) : Inv (close st i) := by
  unfold close
  by_cases hi : st.fp i ≠ 0
  · simp only [hi, ne_eq, not_false_eq_true, if_true, sysClose]
    constructor
    · intro j hj
      by_cases e : j = i
      · subst e; simp [upd_same] at hj
      · simp only [upd_other _ _ _ _ e] at hj ⊢
        have hne : st.fp j ≠ st.fp i := fun heq => e (h.inj j i hj heq)
        exact (List.mem_erase_of_ne hne).mpr (h.own j hj)
    · intro j k hj hjk
      by_cases e : j = i
      · subst e; simp [upd_same] at hj
      · simp only [upd_other _ _ _ _ e] at hj hjk
        by_cases e' : k = i
        · subst e'; simp only [upd_same] at hjk; omega
        · simp only [upd_other _ _ _ _ e'] at hjk
          exact h.inj j k hj hjk
    · intro fd hfd
      have hmem := List.mem_of_mem_erase hfd
      obtain ⟨j, hj⟩ := h.noleak fd hmem
      have hne : fd ≠ st.fp i := by
        intro e
        subst e
        exact (List.Nodup.not_mem_erase h.nodup) hfd
      have : j ≠ i := by intro e; subst e; exact hne hj.symm
      exact ⟨j, by show upd st.fp i _ j = fd; rw [upd_other _ _ _ _ this]; exact hj⟩
    · exact h.nodup.erase _
    · intro fd hfd
      exact h.pos fd (List.mem_of_mem_erase hfd)
  · simp only [hi, if_false]
    exact h

/-- a failed open on a closed object leaves the state exactly as it was: the descriptor obtained on the way is closed -/
theorem fileOpen_failed_unchanged (st : St) (i : Nat) (env : OpenEnv) (a : Bool) :
    (fileOpen st i env a).2 = false → fileOpen st i env a = (st, false) := by
  unfold fileOpen
  by_cases hi : st.fp i ≠ 0
  · simp [hi]
  · have h0 : st.fp i = 0 := by omega
    simp only [hi, if_false]
    cases env with
    | fail => intro _; simp [upd_self _ _ _ h0]
    | isDir =>
      intro _
      simp [sysOpen, sysClose, upd_same, upd_upd, upd_self _ _ _ h0]
    | seekFail =>
      cases a with
      | true => intro _; simp [sysOpen, sysClose, upd_same, upd_upd, upd_self _ _ _ h0]
      | false => intro h; simp [sysOpen] at h
    | ok => intro h; simp [sysOpen] at h

/-- File::copy never keeps a descriptor, whatever fails inside it -/
theorem copy_holds_nothing (st : St) (env : CopyEnv) : (copy st env).1 = st := by
  have hne : fresh (fresh st.fds :: st.fds) ≠ fresh st.fds := by
    intro e
    have := fresh_not_mem (fresh st.fds :: st.fds)
    rw [e] at this
    exact this List.mem_cons_self
  cases env <;> simp [copy, sysOpen, sysClose, hne, Ne.symm hne]

theorem inv_step (st : St) (h : Inv st) (op : Op) : Inv (step st op).1 := by
  cases op with
  | openF i env a =>
    simp only [step]
    cases hr : (fileOpen st i env a).2 with
    | false => rw [fileOpen_failed_unchanged st i env a hr]; exact h
    | true =>
      have hi : st.fp i = 0 := by
        by_cases hi : st.fp i ≠ 0
        · simp [fileOpen, hi] at hr
        · omega
      have : (fileOpen st i env a).1 = { fds := fresh st.fds :: st.fds, fp := upd st.fp i (fresh st.fds) } := by
        unfold fileOpen at hr ⊢
        simp only [hi, ne_eq, not_true_eq_false, if_false] at hr ⊢
        cases env with
        | fail => simp at hr
        | isDir => simp [sysOpen, sysClose] at hr
        | seekFail => cases a with
          | true => simp [sysOpen, sysClose] at hr
          | false => simp [sysOpen]
        | ok => simp [sysOpen]
      rw [this]
      exact inv_open_ok st h i hi
  | close i => exact inv_close st h i
  | isOpen i => exact h
  | destroy i => exact inv_close st h i
  | copy env => simp only [step, copy_holds_nothing]; exact h

/-- every history, with every answer of the system calls, keeps objects and descriptor table in agreement -/
theorem lifecycle_invariant (ops : List Op) : Inv (run init ops) := by
  suffices ∀ st, Inv st → Inv (run st ops) from this init inv_init
  induction ops with
  | nil => intro st h; exact h
  | cons op ops ih => intro st h; exact ih _ (inv_step st h op)

/-- after any history: isOpen() answers true exactly when the object holds a descriptor that is open in the process -/
theorem isOpen_iff_holds_descriptor (ops : List Op) (i : Nat) :
    (step (run init ops) (.isOpen i)).2 = true ↔ (run init ops).fp i ∈ (run init ops).fds := by
  have h := lifecycle_invariant ops
  simp only [step, decide_eq_true_eq]
  constructor
  · exact h.own i
  · intro hm hz
    have := h.pos _ hm
    omega

/-- no descriptor leak: after any history every open descriptor of the process belongs to exactly one object, so the
    process holds exactly as many descriptors as there are open objects, and none once every object is closed or destroyed -/
theorem no_descriptor_leak (ops : List Op) :
    (∀ fd ∈ (run init ops).fds, ∃ i, (run init ops).fp i = fd ∧ ∀ j, (run init ops).fp j = fd → j = i) ∧
    (run init ops).fds.Nodup ∧
    ((∀ i, (run init ops).fp i = 0) → held (run init ops) = 0) := by
  have h := lifecycle_invariant ops
  refine ⟨?_, h.nodup, ?_⟩
  · intro fd hfd
    obtain ⟨i, hi⟩ := h.noleak fd hfd
    refine ⟨i, hi, ?_⟩
    intro j hj
    have hp := h.pos fd hfd
    exact h.inj j i (by omega) (by omega)
  · intro hall
    unfold held
    cases hf : (run init ops).fds with
    | nil => rfl
    | cons fd t =>
      have hm : fd ∈ (run init ops).fds := by rw [hf]; exact List.mem_cons_self
      obtain ⟨i, hi⟩ := h.noleak fd hm
      have := h.pos fd hm
      have := hall i
      omega

/-- close is idempotent (any state) -/
theorem close_idempotent (st : St) (i : Nat) : close (close st i) i = close st i := by
  have : (close st i).fp i = 0 := by
    unfold close
    by_cases hi : st.fp i ≠ 0
    · simp [hi, sysClose, upd_same]
    · simp only [hi, if_false]; omega
  generalize close st i = t at this ⊢
  simp [close, this]

/-- open on an open object is refused and touches nothing (no second descriptor) -/
theorem open_on_open_refused (st : St) (i : Nat) (env : OpenEnv) (a : Bool) (h : st.fp i ≠ 0) :
    fileOpen st i env a = (st, false) := by
  simp [fileOpen, h]

/-- a successful open makes the object open with a descriptor nobody else holds; a failed one changes nothing -/
theorem open_result (st : St) (hinv : Inv st) (i : Nat) (env : OpenEnv) (a : Bool) :
    ((fileOpen st i env a).2 = true → (fileOpen st i env a).1.fp i ≠ 0 ∧ (fileOpen st i env a).1.fp i ∉ st.fds ∧
        held (fileOpen st i env a).1 = held st + 1) ∧
    ((fileOpen st i env a).2 = false → (fileOpen st i env a).1 = st) := by
  constructor
  · intro hr
    have hi : st.fp i = 0 := by
      by_cases hi : st.fp i ≠ 0
      · simp [fileOpen, hi] at hr
      · omega
    have hg := fresh_ge st.fds
    have hf := fresh_not_mem st.fds
    unfold fileOpen at hr ⊢
    simp only [hi, ne_eq, not_true_eq_false, if_false] at hr ⊢
    cases env with
    | fail => simp at hr
    | isDir => simp [sysOpen, sysClose] at hr
    | seekFail => cases a with
      | true => simp [sysOpen, sysClose] at hr
      | false => simp only [sysOpen, Bool.false_eq_true, if_false, upd_same, held, List.length_cons]; exact ⟨by omega, hf, trivial⟩
    | ok => simp only [sysOpen, upd_same, held, List.length_cons]; exact ⟨by omega, hf, trivial⟩
  · intro hr
    rw [fileOpen_failed_unchanged st i env a hr]

/-- non-vacuity: two objects, a refused second open, a failing append open, a copy with a failing transfer -/
example : let st := run init [.openF 0 .ok false, .openF 0 .ok false, .openF 1 .seekFail true, .openF 1 .ok true,
                             .copy .sendFail, .close 0, .close 0]
    held st = 1 ∧ st.fp 0 = 0 ∧ st.fp 1 ≠ 0 := by decide

end Nstd.Path.Obj
