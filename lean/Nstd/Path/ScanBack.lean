import Nstd.Path.ScanLemmas
/-
  The loops of the translated backward scanners (getDirectoryName, getExtension, getStem, getBaseName of
  Nstd/Generated/PathScan.lean): skipping lemmas (`*_skip`: the bytes behind the position that none of the tests
  of the loop body reacts to are passed, one unit of fuel each) and the result of the whole translated function for
  every shape of the argument.
-/
namespace Nstd.Path.Scan
open Nstd.Path Nstd.Path.Cxx Nstd.Generated.PathScan

open getDirectoryName in
theorem gdn_hit (f0 : Nat) (d : Bytes) (s : Nat) (b : Bytes) (hs : isSep s = true)
    (hb : ∀ x ∈ b, isSep x = false) (r : Bytes) :
    ∀ (k : Nat), k ≤ b.length → ∀ fuel, k + 1 ≤ fuel →
      getDirectoryName_loop1 f0 fuel ⟨d ++ s :: b, 0, ((d.length + k : Nat) : Int), r⟩
        = some (Exit.ret, ⟨d ++ s :: b, 0, (d.length : Int), d⟩) := by
  intro k
  induction k with
  | zero =>
    intro _ fuel hf
    obtain ⟨fuel, rfl⟩ : ∃ n, fuel = n + 1 := ⟨fuel - 1, by omega⟩
    have h0 : ((d.length + 0 : Nat) : Int) ≥ 0 := by omega
    have h1 : d.length + 0 ≤ (d ++ s :: b).length := by rw [len_app]; omega
    simp only [getDirectoryName_loop1, cAt_nat, inb_nat, sep_test, h0, h1]
    simp only [Nat.add_zero, getD_append_at, hs]
    bool_norm
    simp [substr_prefix]
  | succ k ih =>
    intro hk fuel hf
    obtain ⟨fuel, rfl⟩ : ∃ n, fuel = n + 1 := ⟨fuel - 1, by omega⟩
    have hns : isSep (b.getD k 0) = false := hb _ (getD_mem b k (by omega))
    have h0 : ((d.length + (k + 1) : Nat) : Int) ≥ 0 := by omega
    have h1 : d.length + (k + 1) ≤ (d ++ s :: b).length := by rw [len_app]; omega
    have e : (((d.length + (k + 1) : Nat) : Int) - (1 : Int)) = ((d.length + k : Nat) : Int) := by omega
    simp only [getDirectoryName_loop1, cAt_nat, inb_nat, sep_test, getD_append_after, hns, h0, h1, e]
    bool_norm
    exact ih (by omega) fuel (by omega)

open getDirectoryName in
theorem gdn_miss (f0 : Nat) (file : Bytes) (hb : ∀ x ∈ file, isSep x = false) (r : Bytes) :
    ∀ (n : Nat), n ≤ file.length → ∀ fuel, n + 1 ≤ fuel →
      getDirectoryName_loop1 f0 fuel ⟨file, 0, (n : Int) - 1, r⟩ = some (Exit.fall, ⟨file, 0, -1, r⟩) := by
  intro n
  induction n with
  | zero =>
    intro _ fuel hf
    obtain ⟨fuel, rfl⟩ : ∃ n, fuel = n + 1 := ⟨fuel - 1, by omega⟩
    have h0 : ¬ (((0 : Nat) : Int) - 1 ≥ 0) := by omega
    simp only [getDirectoryName_loop1, h0]
    bool_norm
    rfl
  | succ k ih =>
    intro hk fuel hf
    obtain ⟨fuel, rfl⟩ : ∃ n, fuel = n + 1 := ⟨fuel - 1, by omega⟩
    have hns : isSep (file.getD k 0) = false := hb _ (getD_mem file k (by omega))
    have e : ((k + 1 : Nat) : Int) - 1 = (k : Int) := by omega
    have h0 : (k : Int) ≥ 0 := by omega
    have h1 : k ≤ file.length := by omega
    simp only [e, getDirectoryName_loop1, cAt_nat, inb_nat, sep_test, hns, h0, h1]
    bool_norm
    exact ih (by omega) fuel (by omega)

open getExtension in
theorem ext_skip (f0 : Nat) (file : Bytes) (L : Int) (r : Bytes) (lo : Nat) :
    ∀ (k : Nat), lo + k ≤ file.length →
      (∀ i, lo ≤ i → i < lo + k → isDot (file.getD i 0) = false ∧ isSep (file.getD i 0) = false) →
      ∀ fuel, getExtension_loop1 f0 (fuel + k) ⟨file, 0, L, ((lo + k : Nat) : Int) - 1, r⟩
        = getExtension_loop1 f0 fuel ⟨file, 0, L, (lo : Int) - 1, r⟩ := by
  intro k
  induction k with
  | zero => intro _ _ fuel; rfl
  | succ k ih =>
    intro hk hs fuel
    obtain ⟨hd, hp⟩ := hs (lo + k) (by omega) (by omega)
    have e : ((lo + (k + 1) : Nat) : Int) - 1 = ((lo + k : Nat) : Int) := by omega
    have h0 : ((lo + k : Nat) : Int) ≥ 0 := by omega
    have h1 : lo + k ≤ file.length := by omega
    rw [show fuel + (k + 1) = (fuel + k) + 1 by omega]
    simp only [e, getExtension_loop1, cAt_nat, inb_nat, sep_test, dot_test, hd, hp, h0, h1]
    bool_norm
    exact ih (by omega) (fun i h1 h2 => hs i h1 (by omega)) fuel

open getExtension in
theorem ext_dot (x : Bytes) (c : Nat) (e : Bytes) (hc : isDot c = true)
    (he : ∀ y ∈ e, isDot y = false ∧ isSep y = false) (fuel : Nat) (hf : (x ++ c :: e).length + 1 ≤ fuel) :
    Nstd.Generated.PathScan.getExtension fuel (x ++ c :: e) = some e := by
  unfold Nstd.Generated.PathScan.getExtension
  obtain ⟨g, rfl⟩ : ∃ g, fuel = (g + 1) + e.length := ⟨fuel - 1 - e.length, by rw [len_app] at hf; omega⟩
  have hpos : (0 : Int) + (((x ++ c :: e).length : Int) - 1) = (((x.length + 1) + e.length : Nat) : Int) - 1 := by
    rw [len_app]; omega
  have hlen : decide ((0 : Int) ≤ ((x ++ c :: e).length : Int)) = true := by apply decide_eq_true; omega
  simp only [hlen, hpos]
  bool_norm
  rw [ext_skip _ _ _ _ (x.length + 1) e.length (by rw [len_app]; omega) (after_hyp x c e _ he) (g + 1)]
  have e1 : ((x.length + 1 : Nat) : Int) - 1 = (x.length : Int) := by omega
  have h0 : (x.length : Int) ≥ 0 := by omega
  have h1 : x.length ≤ (x ++ c :: e).length := by rw [len_app]; omega
  simp only [e1, getExtension_loop1, cAt_nat, inb_nat, dot_test, getD_append_at, hc, h0, h1]
  bool_norm
  have h2 : decide ((0 : Int) ≤ (x.length : Int) - 0) = true := by apply decide_eq_true; omega
  simp only [h2, mkOk_after, mk_after]
  bool_norm

open getExtension in
theorem ext_sep (x : Bytes) (c : Nat) (e : Bytes) (hc : isSep c = true)
    (he : ∀ y ∈ e, isDot y = false ∧ isSep y = false) (fuel : Nat) (hf : (x ++ c :: e).length + 1 ≤ fuel) :
    Nstd.Generated.PathScan.getExtension fuel (x ++ c :: e) = some [] := by
  unfold Nstd.Generated.PathScan.getExtension
  obtain ⟨g, rfl⟩ : ∃ g, fuel = (g + 1) + e.length := ⟨fuel - 1 - e.length, by rw [len_app] at hf; omega⟩
  have hpos : (0 : Int) + (((x ++ c :: e).length : Int) - 1) = (((x.length + 1) + e.length : Nat) : Int) - 1 := by
    rw [len_app]; omega
  have hlen : decide ((0 : Int) ≤ ((x ++ c :: e).length : Int)) = true := by apply decide_eq_true; omega
  simp only [hlen, hpos]
  bool_norm
  rw [ext_skip _ _ _ _ (x.length + 1) e.length (by rw [len_app]; omega) (after_hyp x c e _ he) (g + 1)]
  have e1 : ((x.length + 1 : Nat) : Int) - 1 = (x.length : Int) := by omega
  have h0 : (x.length : Int) ≥ 0 := by omega
  have h1 : x.length ≤ (x ++ c :: e).length := by rw [len_app]; omega
  simp only [e1, getExtension_loop1, cAt_nat, inb_nat, dot_test, sep_test, getD_append_at, hc, sep_not_dot c hc, h0, h1]
  bool_norm

open getExtension in
theorem ext_none (e : Bytes)
    (he : ∀ y ∈ e, isDot y = false ∧ isSep y = false) (fuel : Nat) (hf : e.length + 1 ≤ fuel) :
    Nstd.Generated.PathScan.getExtension fuel e = some [] := by
  unfold Nstd.Generated.PathScan.getExtension
  obtain ⟨g, rfl⟩ : ∃ g, fuel = (g + 1) + e.length := ⟨fuel - 1 - e.length, by omega⟩
  have hpos : (0 : Int) + ((e.length : Int) - 1) = ((0 + e.length : Nat) : Int) - 1 := by omega
  have hlen : decide ((0 : Int) ≤ (e.length : Int)) = true := by apply decide_eq_true; omega
  simp only [hlen, hpos]
  bool_norm
  rw [ext_skip _ _ _ _ 0 e.length (by omega) (all_hyp e _ he) (g + 1)]
  have h0 : ¬ (((0 : Nat) : Int) - 1 ≥ 0) := by omega
  simp only [getExtension_loop1, h0]
  bool_norm

open getStem in
theorem stem_skip (f0 : Nat) (file ext : Bytes) (L : Int) (D : Option Int) (R RL : Int) (r : Bytes) (lo : Nat) :
    ∀ (k : Nat), lo + k ≤ file.length →
      (∀ i, lo ≤ i → i < lo + k → isSep (file.getD i 0) = false ∧ (isDot (file.getD i 0) = false ∨ D.isSome = true)) →
      ∀ fuel, getStem_loop1 f0 (fuel + k) ⟨file, ext, 0, L, ((lo + k : Nat) : Int) - 1, D, R, RL, r⟩
        = getStem_loop1 f0 fuel ⟨file, ext, 0, L, (lo : Int) - 1, D, R, RL, r⟩ := by
  intro k
  induction k with
  | zero => intro _ _ fuel; rfl
  | succ k ih =>
    intro hk hs fuel
    obtain ⟨hp, hd⟩ := hs (lo + k) (by omega) (by omega)
    have e : ((lo + (k + 1) : Nat) : Int) - 1 = ((lo + k : Nat) : Int) := by omega
    have h0 : ((lo + k : Nat) : Int) ≥ 0 := by omega
    have h1 : lo + k ≤ file.length := by omega
    rw [show fuel + (k + 1) = (fuel + k) + 1 by omega]
    rcases hd with hd | hd
    · simp only [e, getStem_loop1, cAt_nat, inb_nat, sep_test, dot_test, hd, hp, h0, h1]
      bool_norm
      exact ih (by omega) (fun i h1 h2 => hs i h1 (by omega)) fuel
    · obtain ⟨dv, rfl⟩ := Option.isSome_iff_exists.mp hd
      cases hdd : isDot (file.getD (lo + k) 0)
      · simp only [e, getStem_loop1, cAt_nat, inb_nat, sep_test, dot_test, hdd, hp, h0, h1]
        bool_norm
        exact ih (by omega) (fun i h1 h2 => hs i h1 (by omega)) fuel
      · simp only [e, getStem_loop1, cAt_nat, inb_nat, sep_test, dot_test, hdd, hp, h0, h1, Option.isNone_some]
        bool_norm
        exact ih (by omega) (fun i h1 h2 => hs i h1 (by omega)) fuel

/-- the scan from the end passes a dot-free, separator-free tail and notes the dot in front of it -/
theorem stem_dot_phase (f0 : Nat) (y : Bytes) (c : Nat) (e ext : Bytes) (hc : isDot c = true)
    (he : ∀ z ∈ e, isSep z = false ∧ isDot z = false) (L R RL : Int) (r : Bytes) (fuel : Nat) :
    getStem.getStem_loop1 f0 ((fuel + 1) + e.length)
        ⟨y ++ c :: e, ext, 0, L, (((y ++ c :: e).length : Nat) : Int) - 1, none, R, RL, r⟩
      = getStem.getStem_loop1 f0 fuel ⟨y ++ c :: e, ext, 0, L, (y.length : Int) - 1, some (y.length : Int), R, RL, r⟩ := by
  have hlen : (y ++ c :: e).length = (y.length + 1) + e.length := by rw [len_app]; omega
  rw [hlen, stem_skip f0 _ ext L none R RL r (y.length + 1) e.length (by rw [len_app]; omega)
    (after_hyp y c e (fun z => isSep z = false ∧ (isDot z = false ∨ (none : Option Int).isSome = true)) (fun z hz => ⟨(he z hz).1, Or.inl (he z hz).2⟩)) (fuel + 1)]
  have e1 : ((y.length + 1 : Nat) : Int) - 1 = (y.length : Int) := by omega
  have h0 : (y.length : Int) ≥ 0 := by omega
  have h1 : y.length ≤ (y ++ c :: e).length := by rw [len_app]; omega
  simp only [e1, getStem.getStem_loop1, cAt_nat, inb_nat, dot_test, getD_append_at, hc, h0, h1, Option.isNone_none]
  bool_norm


open getStem in
theorem stem_a1 (x : Bytes) (s : Nat) (d' : Bytes) (c : Nat) (e : Bytes) (hs : isSep s = true) (hc : isDot c = true)
    (hd : ∀ z ∈ d', isSep z = false) (he : ∀ z ∈ e, isSep z = false ∧ isDot z = false) (fuel : Nat)
    (hf : (x ++ s :: (d' ++ c :: e)).length + 1 ≤ fuel) :
    Nstd.Generated.PathScan.getStem fuel (x ++ s :: (d' ++ c :: e)) [] = some d' := by
  unfold Nstd.Generated.PathScan.getStem
  have hfile : x ++ s :: (d' ++ c :: e) = (x ++ s :: d') ++ c :: e := by simp
  have hl : (x ++ s :: (d' ++ c :: e)).length = x.length + d'.length + e.length + 2 := by simp; omega
  obtain ⟨g, rfl⟩ : ∃ g, fuel = (((g + 1) + d'.length) + 1) + e.length :=
    ⟨fuel - 2 - d'.length - e.length, by omega⟩
  have hlen : decide ((0 : Int) ≤ ((x ++ s :: (d' ++ c :: e)).length : Int)) = true := by apply decide_eq_true; omega
  have hpos : (0 : Int) + (((x ++ s :: (d' ++ c :: e)).length : Int) - 1)
      = ((((x ++ s :: d') ++ c :: e).length : Nat) : Int) - 1 := by rw [hfile]; omega
  simp only [List.isEmpty_nil, hlen, hpos]
  bool_norm
  rw [hfile, stem_dot_phase _ (x ++ s :: d') c e [] hc he _ _ _ _ ((g + 1) + d'.length)]
  have e2 : (((x ++ s :: d').length : Nat) : Int) - 1 = (((x.length + 1) + d'.length : Nat) : Int) - 1 := by
    rw [len_app]; omega
  rw [e2, ← hfile, stem_skip _ _ _ _ (some _) _ _ _ (x.length + 1) d'.length (by omega)
    (by
      have := after_hyp x s (d' ++ c :: e) (fun z => True) (fun _ _ => trivial)
      intro i h1 h2
      obtain ⟨j, rfl⟩ : ∃ j, i = x.length + (j + 1) := ⟨i - x.length - 1, by omega⟩
      rw [getD_append_after]
      have hj : j < d'.length := by omega
      have : (d' ++ c :: e).getD j 0 = d'.getD j 0 := by
        simp [List.getD_eq_getElem?_getD, List.getElem?_append_left hj]
      rw [this]
      exact ⟨hd _ (getD_mem d' j hj), Or.inr rfl⟩) (g + 1)]
  have e1 : ((x.length + 1 : Nat) : Int) - 1 = (x.length : Int) := by omega
  have h0 : (x.length : Int) ≥ 0 := by omega
  have h1 : x.length ≤ (x ++ s :: (d' ++ c :: e)).length := by omega
  simp only [e1, getStem_loop1, cAt_nat, inb_nat, dot_test, sep_test, getD_append_at, hs, sep_not_dot s hs, h0, h1]
  bool_norm
  simp only [getStem_at_removeExtension, Option.isSome_some, Option.getD_some]
  bool_norm
  have q1 : ((x ++ s :: d').length : Int) - 0 - ((x.length : Int) + 1 - 0) = ((d'.length : Nat) : Int) := by
    rw [len_app]; omega
  have q2 : (x.length : Int) + 1 = ((x.length + 1 : Nat) : Int) := by omega
  have q3 : decide ((0 : Int) ≤ ((x ++ s :: d').length : Int) - 0) = true := by apply decide_eq_true; omega
  have q4 : decide ((0 : Int) ≤ ((x.length + 1 : Nat) : Int) - 0) = true := by apply decide_eq_true; omega
  have q5 : decide ((0 : Int) ≤ ((d'.length : Nat) : Int)) = true := by apply decide_eq_true; omega
  have q6 : x.length + 1 + d'.length ≤ (x ++ s :: (d' ++ c :: e)).length := by omega
  simp only [q1]
  simp only [q2, q3, q4, q5, q6, mkOk_nat, mk_nat]
  bool_norm
  simp

open getStem in
theorem stem_a2 (x : Bytes) (s : Nat) (b : Bytes) (hs : isSep s = true)
    (hb : ∀ z ∈ b, isSep z = false ∧ isDot z = false) (fuel : Nat) (hf : (x ++ s :: b).length + 1 ≤ fuel) :
    Nstd.Generated.PathScan.getStem fuel (x ++ s :: b) [] = some b := by
  unfold Nstd.Generated.PathScan.getStem
  have hl := len_app x s b
  obtain ⟨g, rfl⟩ : ∃ g, fuel = (g + 1) + b.length := ⟨fuel - 1 - b.length, by omega⟩
  have hlen : decide ((0 : Int) ≤ ((x ++ s :: b).length : Int)) = true := by apply decide_eq_true; omega
  have hpos : (0 : Int) + (((x ++ s :: b).length : Int) - 1) = (((x.length + 1) + b.length : Nat) : Int) - 1 := by omega
  simp only [List.isEmpty_nil, hlen, hpos]
  bool_norm
  rw [stem_skip _ _ _ _ none _ _ _ (x.length + 1) b.length (by omega)
    (after_hyp x s b (fun z => isSep z = false ∧ (isDot z = false ∨ (none : Option Int).isSome = true))
      (fun z hz => ⟨(hb z hz).1, Or.inl (hb z hz).2⟩)) (g + 1)]
  have e1 : ((x.length + 1 : Nat) : Int) - 1 = (x.length : Int) := by omega
  have h0 : (x.length : Int) ≥ 0 := by omega
  have h1 : x.length ≤ (x ++ s :: b).length := by omega
  simp only [e1, getStem_loop1, cAt_nat, inb_nat, dot_test, sep_test, getD_append_at, hs, sep_not_dot s hs, h0, h1]
  bool_norm
  simp only [getStem_at_removeExtension, Option.isSome_none]
  bool_norm
  have q1 : ((x ++ s :: b).length : Int) - ((x.length : Int) + 1 - 0) = ((b.length : Nat) : Int) := by omega
  have q2 : (x.length : Int) + 1 = ((x.length + 1 : Nat) : Int) := by omega
  have q4 : decide ((0 : Int) ≤ ((x.length + 1 : Nat) : Int) - 0) = true := by apply decide_eq_true; omega
  have q5 : decide ((0 : Int) ≤ ((b.length : Nat) : Int)) = true := by apply decide_eq_true; omega
  have q6 : x.length + 1 + b.length ≤ (x ++ s :: b).length := by omega
  simp only [q1]
  simp only [q2, q4, q5, q6, mkOk_nat, mk_nat]
  bool_norm
  simp

open getStem in
theorem stem_b1 (d' : Bytes) (c : Nat) (e : Bytes) (hc : isDot c = true)
    (hd : ∀ z ∈ d', isSep z = false) (he : ∀ z ∈ e, isSep z = false ∧ isDot z = false) (fuel : Nat)
    (hf : (d' ++ c :: e).length + 1 ≤ fuel) :
    Nstd.Generated.PathScan.getStem fuel (d' ++ c :: e) [] = some d' := by
  unfold Nstd.Generated.PathScan.getStem
  have hl := len_app d' c e
  obtain ⟨g, rfl⟩ : ∃ g, fuel = (((g + 1) + d'.length) + 1) + e.length := ⟨fuel - 2 - d'.length - e.length, by omega⟩
  have hlen : decide ((0 : Int) ≤ ((d' ++ c :: e).length : Int)) = true := by apply decide_eq_true; omega
  have hpos : (0 : Int) + (((d' ++ c :: e).length : Int) - 1) = ((((d' ++ c :: e).length) : Nat) : Int) - 1 := by omega
  simp only [List.isEmpty_nil, hlen, hpos]
  bool_norm
  rw [stem_dot_phase _ d' c e [] hc he _ _ _ _ ((g + 1) + d'.length)]
  have e2 : ((d'.length : Nat) : Int) - 1 = ((0 + d'.length : Nat) : Int) - 1 := by omega
  rw [e2, stem_skip _ _ _ _ (some _) _ _ _ 0 d'.length (by omega)
    (by
      intro i _ h2
      have hj : i < d'.length := by omega
      have : (d' ++ c :: e).getD i 0 = d'.getD i 0 := by
        simp [List.getD_eq_getElem?_getD, List.getElem?_append_left hj]
      rw [this]
      exact ⟨hd _ (getD_mem d' i hj), Or.inr rfl⟩) (g + 1)]
  have h0 : ¬ (((0 : Nat) : Int) - 1 ≥ 0) := by omega
  simp only [getStem_loop1, h0]
  bool_norm
  simp only [getStem_at_removeExtension, Option.isSome_some, Option.getD_some]
  bool_norm
  have q1 : ((d'.length : Nat) : Int) - 0 - ((0 : Int) - 0) = ((d'.length : Nat) : Int) := by omega
  have q2 : (0 : Int) = ((0 : Nat) : Int) := by omega
  have q3 : decide ((0 : Int) ≤ ((d'.length : Nat) : Int) - 0) = true := by apply decide_eq_true; omega
  have q4 : decide ((0 : Int) ≤ (0 : Int) - 0) = true := by decide
  have q5 : decide ((0 : Int) ≤ ((d'.length : Nat) : Int)) = true := by apply decide_eq_true; omega
  have q6 : 0 + d'.length ≤ (d' ++ c :: e).length := by omega
  simp only [q1, q3, q4, q5]
  bool_norm
  rw [q2, mkOk_nat, mk_nat]
  simp only [q6]
  bool_norm
  simp

open getStem in
theorem stem_b2 (file : Bytes) (hb : ∀ z ∈ file, isSep z = false ∧ isDot z = false) (fuel : Nat)
    (hf : file.length + 1 ≤ fuel) :
    Nstd.Generated.PathScan.getStem fuel file [] = some file := by
  unfold Nstd.Generated.PathScan.getStem
  obtain ⟨g, rfl⟩ : ∃ g, fuel = (g + 1) + file.length := ⟨fuel - 1 - file.length, by omega⟩
  have hlen : decide ((0 : Int) ≤ (file.length : Int)) = true := by apply decide_eq_true; omega
  have hpos : (0 : Int) + ((file.length : Int) - 1) = ((0 + file.length : Nat) : Int) - 1 := by omega
  simp only [List.isEmpty_nil, hlen, hpos]
  bool_norm
  rw [stem_skip _ _ _ _ none _ _ _ 0 file.length (by omega)
    (all_hyp file (fun z => isSep z = false ∧ (isDot z = false ∨ (none : Option Int).isSome = true))
      (fun z hz => ⟨(hb z hz).1, Or.inl (hb z hz).2⟩)) (g + 1)]
  have h0 : ¬ (((0 : Nat) : Int) - 1 ≥ 0) := by omega
  simp only [getStem_loop1, h0]
  bool_norm
  simp only [getStem_at_removeExtension, Option.isSome_none]
  bool_norm
  have q1 : (file.length : Int) - ((0 : Int) - 0) = ((file.length : Nat) : Int) := by omega
  have q2 : (0 : Int) = ((0 : Nat) : Int) := by omega
  have q4 : decide ((0 : Int) ≤ (0 : Int) - 0) = true := by decide
  have q5 : decide ((0 : Int) ≤ ((file.length : Nat) : Int)) = true := by apply decide_eq_true; omega
  have q6 : 0 + file.length ≤ file.length := by omega
  simp only [q1, q4, q5]
  bool_norm
  rw [q2, mkOk_nat, mk_nat]
  simp only [q6]
  bool_norm
  simp

end Nstd.Path.Scan
