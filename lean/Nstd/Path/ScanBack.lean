import Nstd.Path.ScanLemmas
/-
  The loops of the translated backward scanners (getDirectoryName, getExtension, getStem, getBaseName of
  Nstd/Generated/PathScan.lean): skipping lemmas (`*_skip`: the bytes behind the position that none of the tests
  of the loop body reacts to are passed, one unit of fuel each) and the result of the whole translated function for
  every shape of the argument.
-/
namespace Nstd.Path.Scan
open Nstd.Path Nstd.Path.Cxx Nstd.Generated.PathScan

open getDirectoryName in
theorem gdn_hit (f0 : Nat) (d : Bytes) (s : Nat) (b : Bytes) (hs : isSep s = true)
    (hb : ∀ x ∈ b, isSep x = false) (r : Bytes) :
    ∀ (k : Nat), k ≤ b.length → ∀ fuel, k + 1 ≤ fuel →
      getDirectoryName_loop1 f0 fuel ⟨d ++ s :: b, 0, ((d.length + k : Nat) : Int), r⟩
        = some (Exit.ret, ⟨d ++ s :: b, 0, (d.length : Int), d⟩) := by
  intro k
  induction k with
  | zero =>
    intro _ fuel hf
    obtain ⟨fuel, rfl⟩ : ∃ n, fuel = n + 1 := ⟨fuel - 1, by omega⟩
    have h0 : ((d.length + 0 : Nat) : Int) ≥ 0 := by omega
    have h1 : d.length + 0 ≤ (d ++ s :: b).length := by rw [len_app]; omega
    simp only [getDirectoryName_loop1, cAt_nat, inb_nat, sep_test, h0, h1]
    simp only [Nat.add_zero, getD_append_at, hs]
    bool_norm
    simp [substr_prefix]
  | succ k ih =>
    intro hk fuel hf
    obtain ⟨fuel, rfl⟩ : ∃ n, fuel = n + 1 := ⟨fuel - 1, by omega⟩
    have hns : isSep (b.getD k 0) = false := hb _ (getD_mem b k (by omega))
    have h0 : ((d.length + (k + 1) : Nat) : Int) ≥ 0 := by omega
    have h1 : d.length + (k + 1) ≤ (d ++ s :: b).length := by rw [len_app]; omega
    have e : (((d.length + (k + 1) : Nat) : Int) - (1 : Int)) = ((d.length + k : Nat) : Int) := by omega
    simp only [getDirectoryName_loop1, cAt_nat, inb_nat, sep_test, getD_append_after, hns, h0, h1, e]
    bool_norm
    exact ih (by omega) fuel (by omega)

open getDirectoryName in
theorem gdn_miss (f0 : Nat) (file : Bytes) (hb : ∀ x ∈ file, isSep x = false) (r : Bytes) :
    ∀ (n : Nat), n ≤ file.length → ∀ fuel, n + 1 ≤ fuel →
      getDirectoryName_loop1 f0 fuel ⟨file, 0, (n : Int) - 1, r⟩ = some (Exit.fall, ⟨file, 0, -1, r⟩) := by
  intro n
  induction n with
  | zero =>
    intro _ fuel hf
    obtain ⟨fuel, rfl⟩ : ∃ n, fuel = n + 1 := ⟨fuel - 1, by omega⟩
    have h0 : ¬ (((0 : Nat) : Int) - 1 ≥ 0) := by omega
    simp only [getDirectoryName_loop1, h0]
    bool_norm
    rfl
  | succ k ih =>
    intro hk fuel hf
    obtain ⟨fuel, rfl⟩ : ∃ n, fuel = n + 1 := ⟨fuel - 1, by omega⟩
    have hns : isSep (file.getD k 0) = false := hb _ (getD_mem file k (by omega))
    have e : ((k + 1 : Nat) : Int) - 1 = (k : Int) := by omega
    have h0 : (k : Int) ≥ 0 := by omega
    have h1 : k ≤ file.length := by omega
    simp only [e, getDirectoryName_loop1, cAt_nat, inb_nat, sep_test, hns, h0, h1]
    bool_norm
    exact ih (by omega) fuel (by omega)

open getExtension in
theorem ext_skip (f0 : Nat) (file : Bytes) (L : Int) (r : Bytes) (lo : Nat) :
    ∀ (k : Nat), lo + k ≤ file.length →
      (∀ i, lo ≤ i → i < lo + k → isDot (file.getD i 0) = false ∧ isSep (file.getD i 0) = false) →
      ∀ fuel, getExtension_loop1 f0 (fuel + k) ⟨file, 0, L, ((lo + k : Nat) : Int) - 1, r⟩
        = getExtension_loop1 f0 fuel ⟨file, 0, L, (lo : Int) - 1, r⟩ := by
  intro k
  induction k with
  | zero => intro _ _ fuel; rfl
  | succ k ih =>
    intro hk hs fuel
    obtain ⟨hd, hp⟩ := hs (lo + k) (by omega) (by omega)
    have e : ((lo + (k + 1) : Nat) : Int) - 1 = ((lo + k : Nat) : Int) := by omega
    have h0 : ((lo + k : Nat) : Int) ≥ 0 := by omega
    have h1 : lo + k ≤ file.length := by omega
    rw [show fuel + (k + 1) = (fuel + k) + 1 by omega]
    simp only [e, getExtension_loop1, cAt_nat, inb_nat, sep_test, dot_test, hd, hp, h0, h1]
    bool_norm
    exact ih (by omega) (fun i h1 h2 => hs i h1 (by omega)) fuel

open getExtension in
theorem ext_dot (x : Bytes) (c : Nat) (e : Bytes) (hc : isDot c = true)
    (he : ∀ y ∈ e, isDot y = false ∧ isSep y = false) (fuel : Nat) (hf : (x ++ c :: e).length + 1 ≤ fuel) :
    Nstd.Generated.PathScan.getExtension fuel (x ++ c :: e) = some e := by
  unfold Nstd.Generated.PathScan.getExtension
  obtain ⟨g, rfl⟩ : ∃ g, fuel = (g + 1) + e.length := ⟨fuel - 1 - e.length, by rw [len_app] at hf; omega⟩
  have hpos : (0 : Int) + (((x ++ c :: e).length : Int) - 1) = (((x.length + 1) + e.length : Nat) : Int) - 1 := by
    rw [len_app]; omega
  have hlen : decide ((0 : Int) ≤ ((x ++ c :: e).length : Int)) = true := by apply decide_eq_true; omega
  simp only [hlen, hpos]
  bool_norm
  rw [ext_skip _ _ _ _ (x.length + 1) e.length (by rw [len_app]; omega) (after_hyp x c e _ he) (g + 1)]
  have e1 : ((x.length + 1 : Nat) : Int) - 1 = (x.length : Int) := by omega
  have h0 : (x.length : Int) ≥ 0 := by omega
  have h1 : x.length ≤ (x ++ c :: e).length := by rw [len_app]; omega
  simp only [e1, getExtension_loop1, cAt_nat, inb_nat, dot_test, getD_append_at, hc, h0, h1]
  bool_norm
  have h2 : decide ((0 : Int) ≤ (x.length : Int) - 0) = true := by apply decide_eq_true; omega
  simp only [h2, mkOk_after, mk_after]
  bool_norm

open getExtension in
theorem ext_sep (x : Bytes) (c : Nat) (e : Bytes) (hc : isSep c = true)
    (he : ∀ y ∈ e, isDot y = false ∧ isSep y = false) (fuel : Nat) (hf : (x ++ c :: e).length + 1 ≤ fuel) :
    Nstd.Generated.PathScan.getExtension fuel (x ++ c :: e) = some [] := by
  unfold Nstd.Generated.PathScan.getExtension
  obtain ⟨g, rfl⟩ : ∃ g, fuel = (g + 1) + e.length := ⟨fuel - 1 - e.length, by rw [len_app] at hf; omega⟩
  have hpos : (0 : Int) + (((x ++ c :: e).length : Int) - 1) = (((x.length + 1) + e.length : Nat) : Int) - 1 := by
    rw [len_app]; omega
  have hlen : decide ((0 : Int) ≤ ((x ++ c :: e).length : Int)) = true := by apply decide_eq_true; omega
  simp only [hlen, hpos]
  bool_norm
  rw [ext_skip _ _ _ _ (x.length + 1) e.length (by rw [len_app]; omega) (after_hyp x c e _ he) (g + 1)]
  have e1 : ((x.length + 1 : Nat) : Int) - 1 = (x.length : Int) := by omega
  have h0 : (x.length : Int) ≥ 0 := by omega
  have h1 : x.length ≤ (x ++ c :: e).length := by rw [len_app]; omega
  simp only [e1, getExtension_loop1, cAt_nat, inb_nat, dot_test, sep_test, getD_append_at, hc, sep_not_dot c hc, h0, h1]
  bool_norm

open getExtension in
theorem ext_none (e : Bytes)
    (he : ∀ y ∈ e, isDot y = false ∧ isSep y = false) (fuel : Nat) (hf : e.length + 1 ≤ fuel) :
    Nstd.Generated.PathScan.getExtension fuel e = some [] := by
  unfold Nstd.Generated.PathScan.getExtension
  obtain ⟨g, rfl⟩ : ∃ g, fuel = (g + 1) + e.length := ⟨fuel - 1 - e.length, by omega⟩
  have hpos : (0 : Int) + ((e.length : Int) - 1) = ((0 + e.length : Nat) : Int) - 1 := by omega
  have hlen : decide ((0 : Int) ≤ (e.length : Int)) = true := by apply decide_eq_true; omega
  simp only [hlen, hpos]
  bool_norm
  rw [ext_skip _ _ _ _ 0 e.length (by omega) (all_hyp e _ he) (g + 1)]
  have h0 : ¬ (((0 : Nat) : Int) - 1 ≥ 0) := by omega
  simp only [getExtension_loop1, h0]
  bool_norm

end Nstd.Path.Scan
