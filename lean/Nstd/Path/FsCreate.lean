import Nstd.Path.FsLemmas
import Nstd.Path.Lemmas
/-
  Directory::create: the result says whether the directory exists afterwards; all parents exist then;
  only directories are added.
-/
namespace Nstd.Path

/-- when a walk over `xs ++ ys` ends at a directory, the walk over `xs` alone (following a final link) does too -/
theorem walk_prefix_dir (fs : Fs) (fuel : Nat) : ∀ (cur : CPath) (xs ys : List Name) (fo : Bool) (p : CPath),
    walk fs fuel cur (xs ++ ys) fo = .found p .dir → ∃ q, walk fs fuel cur xs true = .found q .dir := by
  apply walk_lift fs (fun k => ∀ (cur : CPath) (xs ys : List Name) (fo : Bool) (p : CPath),
    k cur (xs ++ ys) fo = .found p .dir → ∃ q, k cur xs true = .found q .dir)
  · intro _ _ _ _ _ h; simp at h
  · intro k hk cur xs
    induction xs generalizing cur with
    | nil => intro ys fo p _; exact ⟨cur, by simp [walkAux]⟩
    | cons c rest ih =>
      intro ys fo p h
      rw [List.cons_append, walkAux_cons] at h
      rw [walkAux_cons]
      by_cases h1 : c = [46]
      · rw [if_pos h1] at h ⊢; exact ih _ _ _ _ h
      · rw [if_neg h1] at h ⊢
        by_cases h2 : c = dotdot
        · rw [if_pos h2] at h ⊢; exact ih _ _ _ _ h
        · rw [if_neg h2] at h ⊢
          cases hg : fs.get (cur ++ [c]) with
          | none =>
            simp only [hg] at h
            by_cases hr : rest ++ ys = [] <;> simp [hr] at h
          | some e0 =>
            simp only [hg] at h
            cases e0 with
            | dir => (try dsimp only at h); (try dsimp only); exact ih _ _ _ _ h
            | file d =>
              (try dsimp only at h)
              by_cases hr : rest ++ ys = [] <;> simp [hr] at h
            | link t =>
              (try dsimp only at h); (try dsimp only)
              by_cases hr : rest ++ ys = [] ∧ fo = false
              · simp [hr] at h
              · rw [if_neg hr] at h
                have : ¬ (rest = [] ∧ true = false) := fun hh => by simp at hh
                rw [if_neg this]
                rw [← List.append_assoc] at h
                exact hk _ _ _ _ _ h

theorem startsWith47_append (d t : Bytes) (hd : d ≠ []) : startsWith47 (d ++ t) = startsWith47 d := by
  cases d with
  | nil => exact absurd rfl hd
  | cons a as => rfl

/-- a directory that exists has an existing parent directory (parent = File::getDirectoryName) -/
theorem dirExists_parent (fs : Fs) (dir d b : Bytes) (s : Nat) (hs : splitLast isSlash dir = some (d, s, b))
    (hd : d ≠ []) (h : dirExists fs dir = true) : dirExists fs d = true := by
  obtain ⟨h1, h2, _⟩ := splitLast_some hs
  unfold dirExists sysStat resolve at h ⊢
  have hne : dir ≠ [] := by rw [h1]; simp
  rw [if_neg hne] at h
  rw [if_neg hd]
  rw [h1, kchunks_append_sep d s b h2, startsWith47_append d _ hd] at h
  cases hw : walk fs walkFuel (if startsWith47 d = true then [] else cwd) (kchunks d ++ kchunks b) true with
  | found p e =>
    rw [hw] at h
    cases e with
    | dir =>
      obtain ⟨q, hq⟩ := walk_prefix_dir fs _ _ _ _ _ _ hw
      rw [hq]
    | file _ => simp at h
    | link _ => simp at h
  | missing _ _ => rw [hw] at h; simp at h
  | err _ => rw [hw] at h; simp at h

theorem dirExists_after_mkdir (fs fs' : Fs) (dir : Bytes) (h : sysMkdir fs dir = (fs', .ok ())) :
    dirExists fs' dir = true := by
  unfold sysMkdir at h
  cases hr : resolve fs dir false with
  | found p e => simp [hr] at h
  | err e => simp [hr] at h
  | missing parent name =>
    simp only [hr, Prod.mk.injEq, and_true] at h
    subst h
    unfold resolve at hr
    by_cases hne : dir = []
    · simp [hne] at hr
    · rw [if_neg hne] at hr
      have := walk_after_create fs .dir (by intro t; simp) _ _ _ false true _ _ (Or.inl rfl) hr
      unfold dirExists sysStat resolve
      rw [if_neg hne, this]

/-- Directory::create returns true exactly when the directory exists afterwards
    (for every world, path string, injected mkdir fault) -/
theorem createHere_iff (fs : Fs) (dir : Bytes) (fault : Option Nat) (fired : Nat) :
    (createHere fs dir fault fired).2.1 = dirExists (createHere fs dir fault fired).1 dir := by
  unfold createHere mkdirF
  cases fault with
  | none =>
    simp only
    cases hm : sysMkdir fs dir with
    | mk fs' r =>
      cases r with
      | ok u => simp only [isOk]; exact (dirExists_after_mkdir fs fs' dir (by rw [hm])).symm
      | error e => simp [isOk]
  | some k =>
    cases k with
    | zero => simp
    | succ k =>
      simp only
      cases hm : sysMkdir fs dir with
      | mk fs' r =>
        cases r with
        | ok u => simp only [isOk]; exact (dirExists_after_mkdir fs fs' dir (by rw [hm])).symm
        | error e => simp [isOk]

theorem getDirectoryNameK_shorter (dir : Bytes) (h : getDirectoryNameK dir ≠ [46]) :
    (getDirectoryNameK dir).length < dir.length := by
  unfold getDirectoryNameK at h ⊢
  cases hs : splitLast isSlash dir with
  | none => simp [hs] at h
  | some t =>
    obtain ⟨d, s, b⟩ := t
    obtain ⟨h1, _, _⟩ := splitLast_some hs
    simp only
    rw [h1]
    simp

theorem dirCreate_iff : ∀ (fuel : Nat) (fs : Fs) (dir : Bytes) (fault : Option Nat) (fired : Nat),
    dir.length < fuel →
    (dirCreate fuel fs dir fault fired).2.1 = dirExists (dirCreate fuel fs dir fault fired).1 dir := by
  intro fuel
  induction fuel with
  | zero => intro fs dir fault fired h; omega
  | succ fuel ih =>
    intro fs dir fault fired hf
    simp only [dirCreate]
    by_cases hc : getDirectoryNameK dir ≠ [46] ∧ getDirectoryNameK dir ≠ [] ∧ dirExists fs (getDirectoryNameK dir) = false
    · rw [if_pos hc]
      have hlen := getDirectoryNameK_shorter dir hc.1
      have ihp := ih fs (getDirectoryNameK dir) fault fired (by omega)
      cases hrec : dirCreate fuel fs (getDirectoryNameK dir) fault fired with
      | mk fs' rest =>
        obtain ⟨r, fault', fired'⟩ := rest
        rw [hrec] at ihp
        simp only at ihp
        cases r with
        | true => simp only; exact createHere_iff fs' dir fault' fired'
        | false =>
          simp only
          -- the parent does not exist afterwards, hence neither does dir
          cases hex : dirExists fs' dir with
          | false => rfl
          | true =>
            exfalso
            unfold getDirectoryNameK at hc ihp
            cases hs : splitLast isSlash dir with
            | none => simp [hs] at hc
            | some t =>
              obtain ⟨d, s, b⟩ := t
              simp only [hs] at hc ihp
              have := dirExists_parent fs' dir d b s hs hc.2.1 hex
              rw [this] at ihp
              simp at ihp
    · rw [if_neg hc]
      exact createHere_iff fs dir fault fired


/-- the strings Directory::create recurses through: `dir`, its directory name, … (down to, not including, "." or "") -/
inductive Ancestor : Bytes → Bytes → Prop
  | self (dir : Bytes) : Ancestor dir dir
  | parent {a dir d b : Bytes} {s : Nat} : Ancestor a dir → splitLast isSlash a = some (d, s, b) → d ≠ [] → Ancestor d dir

theorem ancestors_exist (fs : Fs) (dir a : Bytes) (h : dirExists fs dir = true) (ha : Ancestor a dir) :
    dirExists fs a = true := by
  induction ha with
  | self => exact h
  | parent _ hs hd ih => exact dirExists_parent fs _ _ _ _ hs hd (ih h)

/-- `fs'` differs from `fs` only by directories that were missing -/
def OnlyAddsDirs (fs fs' : Fs) : Prop := ∀ q, fs'.get q = fs.get q ∨ (fs.get q = none ∧ fs'.get q = some .dir)

theorem OnlyAddsDirs.refl (fs : Fs) : OnlyAddsDirs fs fs := fun _ => Or.inl rfl

theorem OnlyAddsDirs.trans {a b c : Fs} (h1 : OnlyAddsDirs a b) (h2 : OnlyAddsDirs b c) : OnlyAddsDirs a c := by
  intro q
  rcases h1 q with e1 | ⟨n1, d1⟩
  · rcases h2 q with e2 | ⟨n2, d2⟩
    · exact Or.inl (e2.trans e1)
    · exact Or.inr ⟨by rw [← e1]; exact n2, d2⟩
  · rcases h2 q with e2 | ⟨n2, _⟩
    · exact Or.inr ⟨n1, by rw [e2]; exact d1⟩
    · rw [d1] at n2; simp at n2

theorem sysMkdir_adds (fs : Fs) (dir : Bytes) : OnlyAddsDirs fs (sysMkdir fs dir).1 := by
  unfold sysMkdir
  cases hr : resolve fs dir false with
  | found p e => exact OnlyAddsDirs.refl fs
  | err e => exact OnlyAddsDirs.refl fs
  | missing parent name =>
    simp only
    intro q
    rw [get_set fs _ q _ (append_singleton_ne_nil parent name)]
    by_cases hq : q = parent ++ [name]
    · right
      subst hq
      unfold resolve at hr
      by_cases hne : dir = []
      · simp [hne] at hr
      · rw [if_neg hne] at hr
        exact ⟨walk_missing_get fs _ _ _ _ _ _ hr, by simp⟩
    · left; simp [hq]

theorem createHere_adds (fs : Fs) (dir : Bytes) (fault : Option Nat) (fired : Nat) :
    OnlyAddsDirs fs (createHere fs dir fault fired).1 := by
  unfold createHere mkdirF
  cases fault with
  | none =>
    simp only
    have := sysMkdir_adds fs dir
    cases hm : sysMkdir fs dir with
    | mk fs' r => rw [hm] at this; cases r <;> simpa [isOk] using this
  | some k =>
    cases k with
    | zero => simp only; exact OnlyAddsDirs.refl fs
    | succ k =>
      simp only
      have := sysMkdir_adds fs dir
      cases hm : sysMkdir fs dir with
      | mk fs' r => rw [hm] at this; cases r <;> simpa [isOk] using this

theorem dirCreate_adds : ∀ (fuel : Nat) (fs : Fs) (dir : Bytes) (fault : Option Nat) (fired : Nat),
    OnlyAddsDirs fs (dirCreate fuel fs dir fault fired).1 := by
  intro fuel
  induction fuel with
  | zero => intro fs _ _ _; exact OnlyAddsDirs.refl fs
  | succ fuel ih =>
    intro fs dir fault fired
    simp only [dirCreate]
    by_cases hc : getDirectoryNameK dir ≠ [46] ∧ getDirectoryNameK dir ≠ [] ∧ dirExists fs (getDirectoryNameK dir) = false
    · rw [if_pos hc]
      have ihp := ih fs (getDirectoryNameK dir) fault fired
      cases hrec : dirCreate fuel fs (getDirectoryNameK dir) fault fired with
      | mk fs' rest =>
        obtain ⟨r, fault', fired'⟩ := rest
        rw [hrec] at ihp
        cases r with
        | true => exact ihp.trans (createHere_adds fs' dir fault' fired')
        | false => exact ihp
    · rw [if_neg hc]
      exact createHere_adds fs dir fault fired

end Nstd.Path
