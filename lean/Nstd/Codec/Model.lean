import Nstd.Codec.Mem
import Nstd.Generated.CodecTables
/-!
  Executable model of the text codecs and numeric conversions of libnstd (property C18):
  `Unicode::append/toString`, `Unicode::length`, `Unicode::fromString`, `Unicode::isValid`
  (include/nstd/Unicode.hpp) and `String::fromHex`, `String::fromBase64`,
  `String::fromInt/fromUInt/fromInt64/fromUInt64`, `String::toInt/toUInt/toInt64/toUInt64`
  (src/String.cpp).

  Bytes are `Nat`s; memory handed to a decoder is a byte list `mem` together with the
  length `len` of the range the caller passes; every read goes through `rdR`/`rd`/`rdTable`
  and yields `.oob` when it falls outside the range / the table.  The control flow of the
  C++ functions is mirrored (switch fall-through unrolled per case, pointer + remaining
  length in `isValid`, the four-way switch of `fromBase64` writing into the reserved
  output buffer).  Tables, masks and the range tests of the encoder are the *generated*
  definitions of `Nstd.Generated.Codec` (tools/gen_codec.py, regenerated from the sources
  on every run).  libc (`vsnprintf`, `strtol`, `strtoul`, `strtoll`, `strtoull`, `atoi`,
  `atoll`) is given as Lean definitions of the documented behaviour: assumptions.
-/
namespace Nstd.Codec
open Nstd.Generated.Codec

/-! ## UTF-8 encoder: `Unicode::append(uint32 ch, String& str)`, `Unicode::toString(uint32)` -/

/-- the bytes appended, `none` when the function returns `false` (nothing appended) -/
def append (ch : Nat) : Option (List Nat) :=
  if encCond1 ch then some (encBytes1 ch)
  else if encCond2 ch then some (encBytes2 ch)
  else if encCond3 ch then some (encBytes3 ch)
  else if encCond4 ch then some (encBytes4 ch)
  else none

/-- `String result(4); append(ch, result); return result;` -/
def toString (ch : Nat) : List Nat :=
  match append ch with
  | some bs => bs
  | none => []

/-- `append(const uint32* data, usize size, String& str)`: (result flag, appended bytes) -/
def appendAll : List Nat → Bool × List Nat
  | [] => (true, [])
  | ch :: rest =>
    let r := appendAll rest
    match append ch with
    | some bs => (r.1, bs ++ r.2)
    | none => (false, r.2)

/-! ## UTF-8 decoder: `Unicode::fromString(const char* ch, usize len)` -/

/-- `result -= utf8Offsets[reqLen]` on `uint32` -/
def sub32 (a b : Nat) : Nat := (a + 4294967296 - b) % 4294967296

def fromString (mem : List Nat) (len : Nat) : Res Nat :=
  if len = 0 then .ok 0
  else (rdR mem len 0).bind fun b0 =>
    if utf8IsAscii b0 then .ok b0
    else
      let reqLen := utf8Length b0
      if len < reqLen then .ok 0
      else (rd utf8Offsets reqLen).bind fun off =>
        if reqLen = 4 then
          (rdR mem len 1).bind fun b1 => (rdR mem len 2).bind fun b2 => (rdR mem len 3).bind fun b3 =>
            .ok (sub32 ((((((b0 <<< 6) + b1) <<< 6) + b2) <<< 6) + b3) off)
        else if reqLen = 3 then
          (rdR mem len 1).bind fun b1 => (rdR mem len 2).bind fun b2 =>
            .ok (sub32 ((((b0 <<< 6) + b1) <<< 6) + b2) off)
        else if reqLen = 2 then
          (rdR mem len 1).bind fun b1 =>
            .ok (sub32 ((b0 <<< 6) + b1) off)
        else .ok (sub32 b0 off)

/-! ## the `String` overloads: `fromString(const String&)`, `isValid(const String&)`

  `fromString(str, str.length())` / `isValid(str, str.length())`: the argument converts through
  `String::operator const char*`, whose result is the C-string view of the value (area Str / C06, `cview`):
  the `len` chars followed by the terminator, i.e. a block of `len + 1` bytes of which the pointer form is
  handed the range `[0, len)`. -/
def cview (s : List Nat) : List Nat := s ++ [0]

/-! ## validator: `Unicode::isValid(const char* ch, usize len)` -/

/-- loop state: position `p` of `ch` relative to the start, remaining `len`; `end_` is the
    initial `ch + len`.  Reads are checked against the range `[0, end_)`; the continuation-byte tests
    are the generated `validBad2/3/4`. -/
def isValidLoop (mem : List Nat) (end_ : Nat) (p len : Nat) : Res Bool :=
  if h : p < end_ then
    (rdR mem end_ p).bind fun b =>
      let minLen := utf8Length b
      if len < minLen then .ok false
      else if minLen = 4 then
        (rdR mem end_ (p + 1)).bind fun b1 => (rdR mem end_ (p + 2)).bind fun b2 =>
          (rdR mem end_ (p + 3)).bind fun b3 =>
            if validBad4 b1 b2 b3 then .ok false
            else isValidLoop mem end_ (p + 4) (len - 4)
      else if minLen = 3 then
        (rdR mem end_ (p + 1)).bind fun b1 => (rdR mem end_ (p + 2)).bind fun b2 =>
          if validBad3 b1 b2 then .ok false
          else isValidLoop mem end_ (p + 3) (len - 3)
      else if minLen = 2 then
        (rdR mem end_ (p + 1)).bind fun b1 =>
          if validBad2 b1 then .ok false
          else isValidLoop mem end_ (p + 2) (len - 2)
      else if minLen = 1 then isValidLoop mem end_ (p + 1) (len - 1)
      else .ok false
  else .ok true
termination_by end_ - p
decreasing_by all_goals omega

def isValid (mem : List Nat) (len : Nat) : Res Bool := isValidLoop mem len 0 len

def fromStringS (s : List Nat) : Res Nat := fromString (cview s) s.length
def isValidS (s : List Nat) : Res Bool := isValid (cview s) s.length

/-- `toString(const uint32* data, usize size)`: `String result(size + 200); append(data, size, result);` -/
def toStringArr (cps : List Nat) : List Nat := (appendAll cps).2

/-! ## `String::fromHex(const byte* data, usize size)` -/

/-- the loop over the source bytes (the source range is the list itself); `d` is the offset of
    `dest` in the result buffer `out` (`result.resize(size * 2)`); alphabet reads and the two
    stores per byte are checked -/
def fromHexLoop : List Nat → Nat → List Nat → Res (List Nat)
  | [], _, out => .ok out
  | b :: rest, d, out =>
    (rd hexAlphabet (hexHi b)).bind fun h => (wr out d h).bind fun o1 =>
      (rd hexAlphabet (hexLo b)).bind fun l => (wr o1 (d + 1) l).bind fun o2 =>
        fromHexLoop rest (d + 2) o2

def fromHex (data : List Nat) : Res (List Nat) :=
  fromHexLoop data 0 (List.replicate (data.length * 2) 0)

/-! ## `String::fromBase64(const String& data)` -/

/-- the `switch (i & 0x3)` for the symbol value `c` (selector and the stored / or-ed expressions are the
    generated `b64Phase`, `b64Set*`, `b64Or*`); `out` is the reserved output buffer -/
def b64Switch (i c j : Nat) (out : List Nat) : Res (Nat × List Nat) :=
  if b64Phase i = 0 then
    (wr out j (b64Set0 c)).bind fun o => .ok (j, o)
  else if b64Phase i = 1 then
    (rd out j).bind fun x => (wr out j (x ||| b64Or1 c)).bind fun o =>
      (wr o (j + 1) (b64Set1 c)).bind fun o2 => .ok (j + 1, o2)
  else if b64Phase i = 2 then
    (rd out j).bind fun x => (wr out j (x ||| b64Or2 c)).bind fun o =>
      (wr o (j + 1) (b64Set2 c)).bind fun o2 => .ok (j + 1, o2)
  else
    (rd out j).bind fun x => (wr out j (x ||| b64Or3 c)).bind fun o => .ok (j + 1, o)

/-- the `for` loop over the remaining input bytes; the per-byte tests are the generated `b64Byte` (source
    order of guard / table read / marker / pad tests); `none` = `return String()` (rejected),
    `some (j, out)` = loop left by `break` or exhaustion -/
def b64Loop : List Nat → Nat → Nat → List Nat → Res (Option (Nat × List Nat))
  | [], _, j, out => .ok (some (j, out))
  | b :: rest, i, j, out =>
    (b64Byte b).bind fun s =>
      match s with
      | .stop => .ok (some (j, out))
      | .reject => .ok none
      | .val c => (b64Switch i c j out).bind fun r => b64Loop rest (i + 1) r.1 r.2

/-- `result.reserve(E)` gives a buffer of at least `b64Reserve inlen` bytes (+ terminator); the model
    checks every `out[j]` access against exactly that many.  `result.resize(j)` keeps the first `j` stored
    bytes only when it stays in place (`detach(j, j)` fast path: `ref == 1 && j <= capacity`, which stores
    nothing but the terminator at index `j`; the reallocating path would copy `min(len, j) = 0` chars because
    the raw stores did not touch `len`): `j` beyond the reserved bytes is a fault of the model.
    BUFFER PROTOCOL ASSUMED (String's side, area Str / C06, `Nstd.Str.detach`): `reserve(n)` on the fresh String
    yields an unshared block of capacity >= n; `(char*)result` is `detach(len, len)` on that block (in place);
    stores through that pointer below the capacity change exactly the addressed chars. -/
def fromBase64 (inp : List Nat) : Res (List Nat) :=
  if b64LenRejects inp.length then .ok []
  else (b64Loop inp 0 0 (List.replicate (b64Reserve inp.length) 0)).bind fun r =>
    match r with
    | none => .ok []
    | some (j, out) => if j ≤ out.length then .ok (out.take j) else .oob

/-! ## libc as assumed (C11 7.21.6.5 vsnprintf; 7.22.1.4 strtol family; glibc atoi/atoll) -/

/-- decimal digits of `n`, most significant first, as ASCII codes (`%u`, `%llu`) -/
def decDigits (n : Nat) : List Nat :=
  if h : n < 10 then [48 + n] else decDigits (n / 10) ++ [48 + n % 10]
termination_by n
decreasing_by omega

/-- `%d`, `%lld` -/
def fmtSigned (v : Int) : List Nat :=
  if v < 0 then 45 :: decDigits (-v).toNat else decDigits v.toNat

/-- `vsnprintf(buf, cap, ..)` for a conversion producing `text`: (bytes stored before the
    terminator, return value) -/
def vsnprintf (cap : Nat) (text : List Nat) : List Nat × Nat :=
  (text.take (cap - 1), text.length)

def isSpace (c : Nat) : Bool := c = 32 || (9 ≤ c && c ≤ 13)
def isDigit (c : Nat) : Bool := 48 ≤ c && c ≤ 57

def skipSpace : List Nat → List Nat
  | [] => []
  | c :: cs => if isSpace c then skipSpace cs else c :: cs

/-- value of the longest digit prefix, base 10 -/
def parseDigits (acc : Nat) : List Nat → Nat
  | [] => acc
  | c :: cs => if isDigit c then parseDigits (acc * 10 + (c - 48)) cs else acc

/-- sign and magnitude of the subject sequence (white space, optional sign, digits);
    an empty digit sequence converts to 0 -/
def strtoMag (s : List Nat) : Bool × Nat :=
  match skipSpace s with
  | [] => (false, 0)
  | c :: cs =>
    if c = 45 then (true, parseDigits 0 cs)            -- '-'
    else if c = 43 then (false, parseDigits 0 cs)      -- '+'
    else (false, parseDigits 0 (c :: cs))

/-- `strtoll(s, 0, 10)`: the value, clamped to `LLONG_MIN`/`LLONG_MAX` -/
def strtoll (s : List Nat) : Int :=
  let m := strtoMag s
  if m.1 then (if m.2 > 9223372036854775808 then -9223372036854775808 else -(m.2 : Int))
  else (if m.2 > 9223372036854775807 then 9223372036854775807 else (m.2 : Int))

/-- `strtoull(s, 0, 10)`: `ULLONG_MAX` when the magnitude is out of range, otherwise the
    value, negated in the unsigned type when a minus sign was given -/
def strtoull (s : List Nat) : Nat :=
  let m := strtoMag s
  if m.2 > 18446744073709551615 then 18446744073709551615
  else if m.1 then (18446744073709551616 - m.2) % 18446744073709551616 else m.2

/-- LP64: `long` = `long long` -/
def strtol (s : List Nat) : Int := strtoll s
def strtoul (s : List Nat) : Nat := strtoull s

/-- conversion to `int` (two's complement, modulo 2^32) -/
def wrapInt32 (v : Int) : Int := (v + 2147483648) % 4294967296 - 2147483648

/-- ISO C11 7.22.1.2: `atoi(s)` is `(int)strtol(s, NULL, 10)` "except for the behavior on error. If the value of
    the result cannot be represented, the behavior is undefined": `none` = undefined by ISO C -/
def atoiC11 (s : List Nat) : Option Int :=
  let v := strtol s
  if -2147483648 ≤ v ∧ v ≤ 2147483647 then some v else none

/-- glibc: `atoi(s) = (int) strtol(s, NULL, 10)` (the `long` is converted to `int` modulo 2^32: this is what the
    undefined case of ISO C does on the platform the check runs on), `atoll(s) = strtoll(s, NULL, 10)` -/
def atoi (s : List Nat) : Int := wrapInt32 (strtol s)
def atoll (s : List Nat) : Int := strtoll s

/-! ## `String::printf` on a fresh String and the integer conversions of String -/

/-- `String::printf`: `detach(0, 200)` gives capacity `cap >= 200`; first attempt into that
    buffer, when the result does not fit: measure, `detach(0, result)`, print again -/
def printf (cap : Nat) (text : List Nat) : List Nat :=
  let r := vsnprintf cap text
  if r.2 < cap then r.1.take r.2
  else (vsnprintf (r.2 + 1) text).1

/-- which of the two branches of `String::printf` runs: `true` = the first `vsnprintf` sufficed -/
def printfFirstTry (cap : Nat) (text : List Nat) : Bool := decide ((vsnprintf cap text).2 < cap)

/-- capacity of a default constructed String after `detach(0, 200)`: `200 | 0x3` -/
def printfCap : Nat := 203

/-- `String::fromPrintf(format, ...)`: the same two attempts on `String s(200)` (capacity `200 | 0x3`), a separate
    function body in String.cpp (lines 58-97) -/
def fromPrintf (text : List Nat) : List Nat :=
  let r := vsnprintf printfCap text
  if r.2 < printfCap then r.1.take r.2
  else (vsnprintf (r.2 + 1) text).1

def fromInt (v : Int) : List Nat := printf printfCap (fmtSigned v)        -- "%d"
def fromUInt (v : Nat) : List Nat := printf printfCap (decDigits v)       -- "%u"
def fromInt64 (v : Int) : List Nat := printf printfCap (fmtSigned v)      -- "%lld"
def fromUInt64 (v : Nat) : List Nat := printf printfCap (decDigits v)     -- "%llu"

/-- what a `const char*` consumer (libc) sees of a String value / of the pointer handed to a static overload:
    the chars up to the first NUL (`operator const char*` yields the NUL terminated block; a value holding an
    embedded NUL ends there for libc) -/
def cstr (s : List Nat) : List Nat := s.takeWhile (fun c => c != 0)

/-- member overloads: `atoi(*this)`, `strtoul(*this, 0, 10)`, `atoll(*this)`, `strtoull(*this, 0, 10)` -/
def toInt (s : List Nat) : Int := atoi (cstr s)
def toUInt (s : List Nat) : Nat := strtoul (cstr s) % 4294967296          -- (uint) of unsigned long
def toInt64 (s : List Nat) : Int := atoll (cstr s)
def toUInt64 (s : List Nat) : Nat := strtoull (cstr s)

/-- static overloads `String::toInt(const char* s)` ...: separate function bodies in String.cpp (lines 161-164) -/
def toIntS (s : List Nat) : Int := atoi (cstr s)
def toUIntS (s : List Nat) : Nat := strtoul (cstr s) % 4294967296
def toInt64S (s : List Nat) : Int := atoll (cstr s)
def toUInt64S (s : List Nat) : Nat := strtoull (cstr s)

/-! ## `String::isSpace` (String.hpp) and the `<cctype>` wrappers (String.cpp:168-175), "C" locale

  `isSpace(char c)` is nstd's own expression on a (signed) `char` (taken by execution, like `Unicode::length`);
  the others call libc with `(uchar&)c`. -/

/-- `String::isSpace((char)b)`: the 256 values obtained by executing the current source (generated table) -/
def strIsSpace (b : Nat) : Bool := strIsSpaceTable.getD (b % 256) 0 != 0

/-- `<cctype>` in the "C" locale (ISO C11 7.4.1), on the `unsigned char` value: assumptions about libc -/
def cIsUpper (b : Nat) : Bool := 65 ≤ b && b ≤ 90
def cIsLower (b : Nat) : Bool := 97 ≤ b && b ≤ 122
def cIsAlpha (b : Nat) : Bool := cIsUpper b || cIsLower b
def cIsDigit (b : Nat) : Bool := 48 ≤ b && b ≤ 57
def cIsAlnum (b : Nat) : Bool := cIsAlpha b || cIsDigit b
def cIsXDigit (b : Nat) : Bool := cIsDigit b || (65 ≤ b && b ≤ 70) || (97 ≤ b && b ≤ 102)
def cIsPrint (b : Nat) : Bool := 32 ≤ b && b ≤ 126
def cIsPunct (b : Nat) : Bool := cIsPrint b && !(b == 32) && !cIsAlnum b

/-- `lowerCaseMap[(uchar&)c]` / `upperCaseMap[(uchar&)c]`: checked reads of the generated 256-entry tables -/
def toLowerCase (b : Nat) : Res Nat := rd lowerCaseMap b
def toUpperCase (b : Nat) : Res Nat := rd upperCaseMap b

/-! ## `String::fromDouble` (`printf("%f")`) and `String::toDouble` (`atof`)

  A `double` is its IEEE-754 binary64 content: a finite value `(-1)^neg * m * 2^e`, an infinity or a NaN.
  `%f` is a Lean DEFINITION of what ISO C11 7.21.6.1 (conversion `f`, default precision 6) and IEC 60559
  (correct rounding, ties to even in the default rounding mode; glibc is exact) say: an assumption, compared
  with the real libc by the correspondence run.  `strtod` is a PARAMETER of `toDouble`. -/

inductive Dbl where
  | fin (neg : Bool) (m : Nat) (e : Int)
  | inf (neg : Bool)
  | nan (neg : Bool)
deriving Repr, DecidableEq

/-- `q / d` rounded to the nearest integer, ties to even -/
def roundHalfEven (q d : Nat) : Nat :=
  let n := q / d
  let r := q % d
  if 2 * r < d then n else if 2 * r > d then n + 1 else if n % 2 = 0 then n else n + 1

/-- the value times 10^6, rounded to an integer (exact when `e >= -6`) -/
def scaled6 (m : Nat) (e : Int) : Nat :=
  if 0 ≤ e then m * 2 ^ e.toNat * 1000000 else roundHalfEven (m * 1000000) (2 ^ (-e).toNat)

/-- six decimal digits of `n < 10^6`, zero padded -/
def pad6 (n : Nat) : List Nat :=
  [48 + n / 100000 % 10, 48 + n / 10000 % 10, 48 + n / 1000 % 10, 48 + n / 100 % 10, 48 + n / 10 % 10, 48 + n % 10]

/-- `%f` -/
def fmtF : Dbl → List Nat
  | .fin neg m e =>
    let n := scaled6 m e
    (if neg then [45] else []) ++ decDigits (n / 1000000) ++ [46] ++ pad6 (n % 1000000)
  | .inf neg => (if neg then [45] else []) ++ [105, 110, 102]        -- "inf"
  | .nan neg => (if neg then [45] else []) ++ [110, 97, 110]         -- "nan"

def fromDouble (x : Dbl) : List Nat := printf printfCap (fmtF x)

/-- `atof(s) = strtod(s, NULL)` (C11 7.22.1.1), member `atof(*this)` and static `atof(s)` -/
def toDouble (strtod : List Nat → Dbl) (s : List Nat) : Dbl := strtod (cstr s)
def toDoubleS (strtod : List Nat → Dbl) (s : List Nat) : Dbl := strtod (cstr s)

/-- `num / 10^k = m * 2^e` exactly (cross-multiplied, natural numbers only) -/
def exactValue (num k m : Nat) (e : Int) : Prop :=
  if 0 ≤ e then num = m * 2 ^ e.toNat * 10 ^ k else num * 2 ^ (-e).toNat = m * 10 ^ k

/-- same sign and same value (a bit pattern has exactly one canonical `(m, e)`; this compares values so that
    `5 * 2^0` and `10 * 2^-1` are the same double) -/
def Dbl.eqv : Dbl → Dbl → Prop
  | .fin n1 m1 e1, .fin n2 m2 e2 =>
    n1 = n2 ∧ m1 * 2 ^ (e1 - min e1 e2).toNat = m2 * 2 ^ (e2 - min e1 e2).toNat
  | .inf n1, .inf n2 => n1 = n2
  | .nan n1, .nan n2 => n1 = n2
  | _, _ => False

/-- ASSUMPTION about `strtod` used by the round-trip theorem (C11 7.22.1.3p5 with IEC 60559 / Annex F.5: the
    decimal form is correctly rounded; a correctly rounded result of a value that IS a double is that double):
    for a text `[-]digits.digits` whose decimal value equals `m * 2^e` with `m < 2^53`, `-1074 <= e <= 971`
    the result is that double -/
def StrtodExact (strtod : List Nat → Dbl) : Prop :=
  ∀ (neg : Bool) (ip fp : List Nat) (m : Nat) (e : Int),
    (∀ d ∈ ip, isDigit d = true) → ip ≠ [] → (∀ d ∈ fp, isDigit d = true) →
    exactValue ((ip ++ fp).foldl (fun acc d => acc * 10 + (d - 48)) 0) fp.length m e →
    m < 9007199254740992 → -1074 ≤ e → e ≤ 971 →
    Dbl.eqv (strtod ((if neg then [45] else []) ++ (ip ++ (46 :: fp)))) (.fin neg m e)

/-! ### an executable, correctly rounding `strtod` for the decimal / `inf` / `nan` forms (`strtodM`)

  Used by the driver on every `pd`/`fd` line (compared with the real `atof`) and - being a definition - it discharges
  `StrtodExact` (`strtodM_exact` in PropsNum.lean).  The hexadecimal form (`0x1p3`) is answered `none`: nstd never
  produces it (`%f` prints decimal digits) and the generators do not feed it. -/

/-- `num / den` scaled by `2^-e`: numerator and denominator -/
def qNum (num : Nat) (e : Int) : Nat := if 0 ≤ e then num else num * 2 ^ (-e).toNat
def qDen (den : Nat) (e : Int) : Nat := if 0 ≤ e then den * 2 ^ e.toNat else den
/-- `floor (num / den / 2^e)` -/
def qOf (num den : Nat) (e : Int) : Nat := qNum num e / qDen den e

/-- `e` is the exponent of the binary64 grid at `num/den`: the integer part of the scaled value has at most 53 bits, and
    either `e` is the smallest exponent (subnormal grid) or one binade lower it would have more -/
def expOk (num den : Nat) (e : Int) : Bool :=
  decide (-1074 ≤ e) && decide (qOf num den e < 9007199254740992) &&
    (decide (e = -1074) || decide (9007199254740992 ≤ qOf num den (e - 1)))

/-- linear search upwards for the first exponent whose scaled value has at most 53 bits (fallback, never taken in practice) -/
def findExp (num den : Nat) : Nat → Int → Int
  | 0, e => e
  | f + 1, e => if qOf num den e < 9007199254740992 then e else findExp num den f (e + 1)

/-- the estimate from the bit lengths; it is CHECKED by `expOk` before it is used -/
def expHint (num den : Nat) : Int :=
  let e0 : Int := (Nat.log2 num : Int) - (Nat.log2 den : Int) - 53
  let e1 : Int := if qOf num den e0 < 9007199254740992 then e0 else e0 + 1
  if e1 < -1074 then -1074 else e1

def pickExp (num den : Nat) : Int :=
  if expOk num den (expHint num den) then expHint num den else findExp num den 2048 (-1074)

/-- nearest binary64 value (ties to even) of `num / den`, `num, den > 0` -/
def roundToDbl (neg : Bool) (num den : Nat) : Dbl :=
  let e := pickExp num den
  if 971 < e then .inf neg
  else
    let m := roundHalfEven (qNum num e) (qDen den e)
    if m = 9007199254740992 then (if 971 < e + 1 then .inf neg else .fin neg 4503599627370496 (e + 1))
    else .fin neg m e

def lowerAscii (c : Nat) : Nat := if 65 ≤ c ∧ c ≤ 90 then c + 32 else c

/-- case-insensitive prefix test against a lower-case word -/
def startsCI : List Nat → List Nat → Bool
  | _, [] => true
  | [], _ :: _ => false
  | c :: cs, w :: ws => lowerAscii c == w && startsCI cs ws

def isHexDigitC (c : Nat) : Bool := isDigit c || (97 ≤ lowerAscii c && lowerAscii c ≤ 102)

/-- `0x` / `0X` followed by a hexadecimal digit or `.`: the hexadecimal floating form -/
def isHexPrefix : List Nat → Bool
  | z :: c :: c2 :: _ => z == 48 && lowerAscii c == 120 && (isHexDigitC c2 || c2 == 46)
  | _ => false

def takeDigits : List Nat → List Nat × List Nat
  | [] => ([], [])
  | c :: cs => if isDigit c then ((takeDigits cs).1.cons c, (takeDigits cs).2) else ([], c :: cs)

def decVal (ds : List Nat) : Nat := ds.foldl (fun a d => a * 10 + (d - 48)) 0

/-- the exponent part `e[+-]digits` (only when at least one digit follows) -/
def expPart (r : List Nat) : Int :=
  match r with
  | c :: t =>
    if c == 101 || c == 69 then
      let st : Bool × List Nat := match t with
        | sc :: u => if sc = 45 then (true, u) else if sc = 43 then (false, u) else (false, t)
        | [] => (false, [])
      let eds := (takeDigits st.2).1
      if eds.isEmpty then 0 else (if st.1 then -((decVal eds : Nat) : Int) else ((decVal eds : Nat) : Int))
    else 0
  | [] => 0

/-- the decimal form behind the sign: digits, optional `.digits`, optional exponent -/
def strtodDecimal (neg : Bool) (r : List Nat) : Dbl :=
  let ip := (takeDigits r).1
  let r1 := (takeDigits r).2
  let fr : List Nat × List Nat := match r1 with
    | c :: t => if c = 46 then takeDigits t else ([], r1)
    | [] => ([], [])
  let fp := fr.1
  if ip.isEmpty ∧ fp.isEmpty then .fin false 0 0          -- no conversion: +0.0
  else
    let d := decVal (ip ++ fp)
    let p : Int := expPart fr.2 - (fp.length : Int)
    if d = 0 then .fin neg 0 0
    else if 400 < p then .inf neg
    else if p + ((ip ++ fp).length : Int) < -400 then .fin neg 0 0
    else if 0 ≤ p then roundToDbl neg (d * 10 ^ p.toNat) 1
    else roundToDbl neg d (10 ^ (-p).toNat)

/-- optional sign in front of the number: (negative?, rest) -/
def signSplit (r0 : List Nat) : Bool × List Nat :=
  match r0 with
  | c :: t => if c = 45 then (true, t) else if c = 43 then (false, t) else (false, c :: t)
  | [] => (false, [])

/-- `strtod(s, NULL)`; `none` = hexadecimal form (not modelled) -/
def strtodM (s : List Nat) : Option Dbl :=
  let sg := signSplit (skipSpace s)
  if isHexPrefix sg.2 then none
  else if startsCI sg.2 [105, 110, 102] then some (.inf sg.1)
  else if startsCI sg.2 [110, 97, 110] then some (.nan sg.1)
  else some (strtodDecimal sg.1 sg.2)

/-- total version used where a `List Nat → Dbl` is wanted -/
def strtodT (s : List Nat) : Dbl := (strtodM s).getD (.nan false)

/-- an IDEAL `strtod` on the texts `[-]digits.digits` (no rounding: the value `num / 10^k` written as
    `(num / 5^k) * 2^-k`, which is the value itself whenever it is dyadic): witness that `StrtodExact` is satisfiable -/
def strtodIdeal (text : List Nat) : Dbl :=
  let neg := text.head? == some 45
  let r := if neg then text.drop 1 else text
  let ip := r.takeWhile isDigit
  let fp := ((r.dropWhile isDigit).drop 1).takeWhile isDigit
  .fin neg ((ip ++ fp).foldl (fun acc d => acc * 10 + (d - 48)) 0 / 5 ^ fp.length) (-(fp.length : Int))

end Nstd.Codec
