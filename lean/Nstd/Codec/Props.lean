import Nstd.Codec.LemmasUtf8
import Nstd.Codec.LemmasValid
import Nstd.Codec.LemmasStr
import Nstd.Codec.LemmasB64
import Nstd.Codec.LemmasInt
import Nstd.Codec.LemmasNum
/-!
  Property C18 — text codecs and numeric conversions are exact inverses and bounds-safe.
  Only the property theorems (and non-vacuity examples); every `theorem` here is an
  obligation and is axiom-audited on every run.  All statements are over the model of
  `Nstd/Codec/Model.lean`, whose tables / masks / range tests are the definitions generated
  from the current sources (`Nstd.Generated.Codec`).
-/
namespace Nstd.Codec
open Nstd.Generated.Codec

/-! ## UTF-8 -/

/-- `Unicode::toString(cp)` is the RFC 3629 encoding of `cp`, for every code point up to U+10FFFF
    (surrogates D800..DFFF: the generalized three byte form, which is what the code emits). -/
theorem utf8_agrees (cp : Nat) (h : cp < 0x110000) : toString cp = Spec.utf8 cp := by
  unfold toString
  rw [append_eq cp h]

/-- above U+10FFFF nothing is appended (`append` returns false), for every `uint32` value -/
theorem utf8_rejects_above (cp : Nat) (h : 0x110000 ≤ cp) (h32 : cp < 2 ^ 32) : toString cp = [] := by
  unfold toString
  rw [append_none cp h (Nat.lt_trans h32 (by decide))]

/-- `Unicode::fromString(Unicode::toString(cp)) = cp` for all 1,114,112 code points
    (by range lemmas, not by enumeration); no read leaves the string. -/
theorem utf8_roundtrip (cp : Nat) (h : cp < 0x110000) :
    fromString (toString cp) (toString cp).length = .ok cp := by
  rw [utf8_agrees cp h]
  exact decode_spec cp h

/-- more generally `fromString` decodes the first code point of any longer text, whatever follows and
    whatever length (at least the sequence) the caller passes -/
theorem utf8_decodes_first (cp : Nat) (h : cp < 0x110000) (tl : List Nat) (len : Nat)
    (hl : (toString cp).length ≤ len) : fromString (toString cp ++ tl) len = .ok cp := by
  rw [utf8_agrees cp h] at hl ⊢
  exact decode_spec_prefix cp h tl len hl

/-- the encoder is injective and its code is prefix-free, for ALL pairs of code points and ALL continuations: if the encoding of
    `a` followed by any bytes equals the encoding of `b` followed by any bytes then `a = b` and the continuations are equal - so a
    concatenation of encoded code points can be cut back into them in exactly one way (no encoding is a proper prefix of another,
    two code points never share an encoding) -/
theorem utf8_injective_and_prefix_free (a b : Nat) (ha : a < 0x110000) (hb : b < 0x110000) (ta tb : List Nat)
    (h : toString a ++ ta = toString b ++ tb) : a = b ∧ ta = tb := by
  have h1 := utf8_decodes_first a ha ta ((toString a).length + (toString b).length) (by omega)
  have h2 := utf8_decodes_first b hb tb ((toString a).length + (toString b).length) (by omega)
  rw [h, h2] at h1
  have hab : a = b := by injection h1 with h1; exact h1.symm
  subst hab
  exact ⟨rfl, List.append_cancel_left h⟩

example : toString 0x41 ++ [0x80] = toString 0x41 ++ [0x80] ∧ 0x41 < 0x110000 := by decide

/-- `Unicode::length` of the first byte the encoder emits is the number of bytes it emits -/
theorem length_of_encoded (cp : Nat) (h : cp < 0x110000) :
    ∃ b tl, toString cp = b :: tl ∧ utf8Length b = (toString cp).length := by
  rw [utf8_agrees cp h]
  exact utf8_nonempty_len cp h

/-- `append(data, size, str)` of code points that are all <= U+10FFFF returns true, appends the
    concatenated RFC 3629 encodings, and `Unicode::isValid` accepts the result (any number of code points) -/
theorem isValid_encoded (cps : List Nat) (h : ∀ c ∈ cps, c < 0x110000) :
    appendAll cps = (true, (cps.map Spec.utf8).flatten) ∧
      isValid (appendAll cps).2 (appendAll cps).2.length = .ok true := by
  refine ⟨appendAll_valid cps h, ?_⟩
  rw [appendAll_valid cps h]
  have := valid_all cps h []
  simpa [isValid] using this

/-- `Unicode::length(char)` touches no memory; its value is 0..4 for EVERY byte value, hence the
    read `utf8Offsets[reqLen]` of `fromString` is inside the 5-entry table. -/
theorem length_no_oob (b : Nat) : utf8Length b ≤ 4 ∧ ∃ v, rd utf8Offsets (utf8Length b) = .ok v :=
  ⟨utf8Length_le b, offsets_ok _ (utf8Length_le b)⟩

/-- the same over the TRANSLATED table of `Unicode::length` (256 values obtained by executing the current source): every
    entry is a valid index of the 5-entry `utf8Offsets` (the seeded change C18-5 - 5/6 for F8..FD - makes exactly this fail) -/
theorem length_table_indexes_offsets : ∀ b, b < 256 → utf8LengthTable.getD b 0 < utf8Offsets.length := by
  decide +kernel

/-- for EVERY lead byte 0x00..0xFF, every tail and every length available to the caller: the index `fromString` uses for
    `utf8Offsets` is below 5, and neither `fromString` nor `isValid` reads outside the range -/
theorem lead_byte_bounds (b : UInt8) (tail : List Nat) (len : Nat) (hl : len ≤ tail.length + 1) :
    utf8Length b.toNat < utf8Offsets.length ∧ fromString (b.toNat :: tail) len ≠ .oob ∧
      isValid (b.toNat :: tail) len ≠ .oob := by
  refine ⟨?_, ?_, ?_⟩
  · have := utf8Length_le b.toNat
    have h5 : utf8Offsets.length = 5 := by decide
    omega
  · obtain ⟨v, hv⟩ := fromString_ok (b.toNat :: tail) len (by simpa using hl)
    rw [hv]; intro h; cases h
  · obtain ⟨v, hv⟩ := isValidLoop_ok (b.toNat :: tail) len (by simpa using hl) len 0 len (by omega) (by omega)
    unfold isValid
    rw [hv]; intro h; cases h

/-- `Unicode::fromString(ch, len)` never reads outside `[ch, ch+len)` (nor outside `utf8Offsets`),
    for ARBITRARY bytes and every range lying inside the memory block. -/
theorem fromString_no_oob (mem : List Nat) (len : Nat) (hl : len ≤ mem.length) :
    fromString mem len ≠ .oob := by
  obtain ⟨v, hv⟩ := fromString_ok mem len hl
  rw [hv]; intro h; cases h

/-- the model computes the `switch` of `fromString` in unbounded `Nat`; for bytes (< 256) the
    intermediate `uint32` value never exceeds 32 bits, so only the final subtraction wraps -/
theorem fromString_no_wrap (b0 b1 b2 b3 : Nat) (h0 : b0 < 256) (h1 : b1 < 256) (h2 : b2 < 256) (h3 : b3 < 256) :
    ((((((b0 <<< 6) + b1) <<< 6) + b2) <<< 6) + b3) < 4294967296 := by
  rw [shl6, shl6, shl6]
  omega

/-- `Unicode::isValid(ch, len)` never reads outside `[ch, ch+len)`, for ARBITRARY bytes and every range. -/
theorem isValid_no_oob (mem : List Nat) (len : Nat) (hl : len ≤ mem.length) :
    isValid mem len ≠ .oob := by
  obtain ⟨v, hv⟩ := isValidLoop_ok mem len hl len 0 len (by omega) (by omega)
  unfold isValid
  rw [hv]; intro h; cases h

/-- for EVERY byte string `Unicode::isValid` decides exactly the structural well-formedness
    `Spec.wellFormed` (lead byte class + continuation bytes; the code does not reject over-long forms,
    surrogates or values above U+10FFFF, and neither does the specification) -/
theorem isValid_spec (bs : List UInt8) :
    isValid (bs.map UInt8.toNat) (bs.map UInt8.toNat).length = .ok (Spec.wellFormed (bs.map UInt8.toNat)) := by
  have hb : ∀ b ∈ bs.map UInt8.toNat, b < 256 := by
    intro b hb
    obtain ⟨x, _, rfl⟩ := List.mem_map.mp hb
    exact x.toNat_lt
  have := isValidLoop_spec _ hb (bs.map UInt8.toNat).length 0 (bs.map UInt8.toNat).length (by omega) (by omega)
  simpa [isValid] using this

/-- the `String` overloads `fromString(const String&)` / `isValid(const String&)` are the pointer forms applied
    to the C-string view of the value (the chars followed by the terminator) with `len = length()`: for EVERY
    value they return what the pointer form returns on the exact range, and they never read outside the view -
    in fact never the terminator - so every theorem about the pointer forms holds for them -/
theorem string_overloads (s : List Nat) :
    fromStringS s = fromString s s.length ∧ isValidS s = isValid s s.length ∧
      fromStringS s ≠ .oob ∧ isValidS s ≠ .oob := by
  have e1 : fromStringS s = fromString s s.length := fromString_append s [0] s.length (Nat.le_refl _)
  have e2 : isValidS s = isValid s s.length := isValid_append s [0] s.length (Nat.le_refl _)
  exact ⟨e1, e2, by rw [e1]; exact fromString_no_oob s s.length (Nat.le_refl _),
    by rw [e2]; exact isValid_no_oob s s.length (Nat.le_refl _)⟩

/-- `toString(const uint32*, usize)` is `append(data, size, str)` on an empty string: for valid code points the
    concatenated RFC 3629 encodings (see `isValid_encoded`), and the String round trip of one code point -/
theorem string_forms_roundtrip (cp : Nat) (h : cp < 0x110000) :
    toStringArr [cp] = toString cp ∧ fromStringS (toString cp) = .ok cp ∧ isValidS (toString cp) = .ok true := by
  have ha : toStringArr [cp] = toString cp := by
    unfold toStringArr
    rw [(isValid_encoded [cp] (by simpa using h)).1, utf8_agrees cp h]
    simp
  refine ⟨ha, ?_, ?_⟩
  · rw [(string_overloads _).1]; exact utf8_roundtrip cp h
  · rw [(string_overloads _).2.1]
    have := (isValid_encoded [cp] (by simpa using h)).2
    rw [show (appendAll [cp]).2 = toStringArr [cp] from rfl, ha] at this
    exact this

/- non-vacuity / the model does fault when a read leaves the range -/
example : fromString [0xE2, 0x82, 0xAC] 3 = .ok 0x20AC := by decide
example : fromString [0xE2, 0x82] 3 = .oob := by decide          -- a caller lying about the length faults
example : isValid [0xF0, 0x9F, 0x98, 0x80, 0x41] 5 = .ok true := by
  have a : utf8Length 0xF0 = 4 := len4 0 (by decide)
  have b : utf8Length 0x41 = 1 := len_ascii 0x41 (by decide)
  simp [isValid, isValidLoop, rdR, rd, a, b, validBad4]
example : isValid [0xF0, 0x9F, 0x98] 3 = .ok false := by  -- truncated: rejected without reading on
  have a : utf8Length 0xF0 = 4 := len4 0 (by decide)
  simp [isValid, isValidLoop, rdR, rd, a]
example : toString 0x20AC = [0xE2, 0x82, 0xAC] := by decide

/-! ## fromHex -/

/-- `String::fromHex` of EVERY byte string is its upper-case hexadecimal text (two digits per byte,
    high nibble first); in particular both alphabet reads stay inside the 16-entry alphabet and both stores
    per byte inside the `2 * size` bytes of the result (the model checks them: `.ok`, never `.oob`). -/
theorem hex_upper (bs : List UInt8) :
    fromHex (bs.map UInt8.toNat) = .ok (Spec.upperHex (bs.map UInt8.toNat)) := by
  apply fromHex_upper
  intro b hb
  obtain ⟨x, _, rfl⟩ := List.mem_map.mp hb
  exact x.toNat_lt

/-- libnstd has no hex decoder; against the specification decoder `Spec.unhex` the text `fromHex` produces denotes
    exactly the input bytes, for EVERY byte string (so `fromHex` loses no information: it is injective), and its
    length is twice the input length -/
theorem hex_roundtrip (bs : List UInt8) :
    ∃ t, fromHex (bs.map UInt8.toNat) = .ok t ∧ Spec.unhex t = some (bs.map UInt8.toNat) ∧ t.length = 2 * bs.length := by
  refine ⟨_, hex_upper bs, ?_, ?_⟩
  · induction bs with
    | nil => rfl
    | cons b rest ih =>
      have hd : ∀ n, n < 16 → Spec.hexDigitVal? (Spec.upperHexDigit n) = some n := by decide
      have hb := b.toNat_lt
      simp only [List.map_cons, Spec.upperHex, Spec.unhex, hd (b.toNat / 16) (by omega), hd (b.toNat % 16) (Nat.mod_lt _ (by decide)), ih]
      congr 2
      omega
  · induction bs with
    | nil => rfl
    | cons b rest ih => simp only [List.map_cons, Spec.upperHex, List.length_cons, ih]; omega

example : Spec.unhex [48, 48, 70, 70, 49, 65] = some [0x00, 0xFF, 0x1A] := by decide
example : Spec.unhex [48, 48, 70] = none ∧ Spec.unhex [48, 71] = none := by decide   -- odd length / non-digit
example : fromHex [0x00, 0xFF, 0x1A] = .ok [48, 48, 70, 70, 49, 65] := by decide   -- "00FF1A"

/-- consequences of `hex_upper`/`hex_roundtrip` stated outright, for EVERY pair of byte strings: `String::fromHex` is injective
    (two different byte strings never get the same text) and a homomorphism for concatenation (the text of `a ++ b` is the text of
    `a` followed by the text of `b`: no byte's digits depend on its neighbours or on its position) -/
theorem hex_injective_and_concatenates (a b : List UInt8) :
    (fromHex (a.map UInt8.toNat) = fromHex (b.map UInt8.toNat) → a = b) ∧
    (∃ ta tb, fromHex (a.map UInt8.toNat) = .ok ta ∧ fromHex (b.map UInt8.toNat) = .ok tb ∧
      fromHex ((a ++ b).map UInt8.toNat) = .ok (ta ++ tb)) := by
  constructor
  · intro h
    obtain ⟨ta, h1, h2, _⟩ := hex_roundtrip a
    obtain ⟨tb, h3, h4, _⟩ := hex_roundtrip b
    rw [h1, h3] at h
    have : ta = tb := by injection h
    rw [this, h4] at h2
    have h5 : a.map UInt8.toNat = b.map UInt8.toNat := by injection h2 with h2; exact h2.symm
    exact map_toNat_inj a b h5
  · refine ⟨_, _, hex_upper a, hex_upper b, ?_⟩
    rw [hex_upper (a ++ b), List.map_append, upperHex_append]

example : fromHex (([0x00, 0xFF] ++ [0x1A] : List UInt8).map UInt8.toNat) = .ok ([48, 48, 70, 70] ++ [49, 65]) := by decide

/-- every character of the text `String::fromHex` returns is one of `0-9A-F` (never lower case, never anything else), for EVERY byte string -/
theorem hex_text_is_upper_case_digits (bs : List UInt8) (t : List Nat) (h : fromHex (bs.map UInt8.toNat) = .ok t) :
    ∀ c ∈ t, (48 ≤ c ∧ c ≤ 57) ∨ (65 ≤ c ∧ c ≤ 70) := by
  rw [hex_upper bs] at h
  injection h with h
  subst h
  apply upperHex_chars
  intro b hb
  obtain ⟨x, _, rfl⟩ := List.mem_map.mp hb
  exact x.toNat_lt

/-! ## fromBase64 -/

/-- `String::fromBase64` returns the original bytes for the RFC 4648 encoding (with padding) of EVERY
    byte string. -/
theorem base64_decodes_rfc4648 (bs : List UInt8) :
    fromBase64 (Spec.rfc4648Encode (bs.map UInt8.toNat)) = .ok (bs.map UInt8.toNat) := by
  apply fromBase64_rfc
  intro b hb
  obtain ⟨x, _, rfl⟩ := List.mem_map.mp hb
  exact x.toNat_lt

/-- For EVERY input (arbitrary bytes, arbitrary length) `fromBase64` reads its decode table only at
    indices below the table size, accesses `out[j]` only inside the bytes it reserved
    (`result.reserve(E)`, `E` taken from the source) and ends with `j` inside them, so that `result.resize(j)`
    stays in place (the model faults otherwise).  (This is defect D26: with the signed comparison
    `in[i] > 'z'` bytes >= 0x80 pass the generated per-byte tests and this theorem does not check.) -/
theorem base64_no_oob (inp : List UInt8) : fromBase64 (inp.map UInt8.toNat) ≠ .oob := by
  obtain ⟨r, hr⟩ := fromBase64_ok _ (bytes_lt inp)
  rw [hr]; intro h; cases h

/-- full functional specification for ARBITRARY input: `fromBase64` returns `Spec.b64Decode` of its
    argument - empty when the length is not a multiple of four or a byte outside the alphabet comes
    before the first `=`, otherwise the complete bytes of the symbols in front of the first `=`
    (whatever follows that `=` is ignored); never a fault -/
theorem base64_spec (inp : List UInt8) :
    fromBase64 (inp.map UInt8.toNat) = .ok (Spec.b64Decode (inp.map UInt8.toNat)) :=
  fromBase64_spec _ (bytes_lt inp)

/-- the table-index part of `base64_no_oob` on its own: whatever the input byte, the per-byte tests of the
    source (in their source order) never read `base64de` outside its 123 entries -/
theorem base64_table_read_in_bounds (b : UInt8) : b64Byte b.toNat ≠ .oob :=
  b64Byte_no_oob _ b.toNat_lt

/-- the output-buffer part: the capacity requested by the source suffices for 3 bytes per 4 symbols -/
theorem base64_reserve_suffices (inlen : Nat) (h : inlen % 4 = 0) : 3 * (inlen / 4) ≤ b64Reserve inlen :=
  reserve_enough inlen h

/-! ### the accepted language of `fromBase64`, case by case (all are corollaries of `base64_spec`)

  "Rejected" = the function returns the empty String (`return String()`); that is also the result for the empty
  input and for inputs that encode no complete byte (`"A=AA"`), so acceptance is observable only through the bytes. -/

/-- the translated per-byte tests over ALL 256 byte values: `=` leaves the loop, an alphabet character yields its RFC 4648
    value, every other byte - in particular every byte >= 0x80 and `{`..DEL, the region of C18-6 / D26 - rejects; the table
    read is never out of bounds (it is `.ok`) -/
theorem base64_byte_classification (b : UInt8) :
    b64Byte b.toNat = .ok (if b.toNat = 61 then .stop else
      match Spec.b64Val? b.toNat with | some v => .val v | none => .reject) ∧
    (123 ≤ b.toNat → b64Byte b.toNat = .ok .reject) := by
  refine ⟨b64Byte_classifies _ b.toNat_lt, ?_⟩
  intro h
  rw [b64Byte_classifies _ b.toNat_lt, if_neg (by omega), high_not_alphabet _ h]

/-- rejected: every input whose length is not a multiple of four -/
theorem base64_rejects_length (inp : List Nat) (hb : ∀ b ∈ inp, b < 256) (h : inp.length % 4 ≠ 0) :
    fromBase64 inp = .ok [] := by
  rw [fromBase64_spec inp hb]; unfold Spec.b64Decode; rw [if_pos h]

/-- rejected: every input with a byte outside the alphabet (any control char, space, `-`, `_`, `{`..DEL, EVERY byte >= 0x80)
    in front of the first `=`, whatever precedes (alphabet characters) and follows it -/
theorem base64_rejects_outside_alphabet (pre : List Nat) (b : Nat) (rest : List Nat)
    (hb : ∀ x ∈ pre ++ b :: rest, x < 256) (hpre : ∀ c ∈ pre, (Spec.b64Val? c).isSome = true)
    (hbad : Spec.b64Val? b = none) (h61 : b ≠ 61) : fromBase64 (pre ++ b :: rest) = .ok [] := by
  rw [fromBase64_spec _ hb]; unfold Spec.b64Decode
  by_cases h : (pre ++ b :: rest).length % 4 ≠ 0
  · rw [if_pos h]
  · rw [if_neg h, scan_prefix pre hpre, scan_bad b rest hbad h61]; rfl

/-- `=` is accepted at ANY position (misplaced padding is not rejected): decoding stops at the first `=`, everything
    behind it (more symbols, more `=`, garbage, bytes >= 0x80) is ignored, the result is the complete bytes of the
    symbols in front of it -/
theorem base64_stops_at_first_pad (pre rest : List Nat) (hb : ∀ x ∈ pre ++ 61 :: rest, x < 256)
    (hpre : ∀ c ∈ pre, (Spec.b64Val? c).isSome = true) (hlen : (pre ++ 61 :: rest).length % 4 = 0) :
    fromBase64 (pre ++ 61 :: rest) = .ok (Spec.decodeVals (b64Vals pre)) := by
  rw [fromBase64_spec _ hb]; unfold Spec.b64Decode
  rw [if_neg (by omega), scan_prefix pre hpre, scan_pad]
  simp

/-- an input of alphabet characters only (length a multiple of four) decodes to three bytes per four symbols -/
theorem base64_unpadded (inp : List Nat) (hb : ∀ x ∈ inp, x < 256)
    (hin : ∀ c ∈ inp, (Spec.b64Val? c).isSome = true) (hlen : inp.length % 4 = 0) :
    fromBase64 inp = .ok (Spec.decodeVals (b64Vals inp)) := by
  rw [fromBase64_spec _ hb]; unfold Spec.b64Decode
  have := scan_prefix inp hin []
  rw [List.append_nil] at this
  rw [if_neg (by omega), this]
  simp [Spec.b64Scan]

/-- non-canonical trailing bits are NOT rejected: in a final group `x y z =` the two low bits of `z` (and in `x y = =` the
    four low bits of `y`) are dropped, so symbols that differ only there decode alike (RFC 4648 section 3.5 lets a decoder
    reject them; this one does not) -/
theorem base64_trailing_bits_ignored (x y z z' : Nat) (vx vy vz vz' : Nat)
    (hx : Spec.b64Val? x = some vx) (hy : Spec.b64Val? y = some vy) (hz : Spec.b64Val? z = some vz)
    (hz' : Spec.b64Val? z' = some vz') (hsame : vz / 4 = vz' / 4) :
    fromBase64 [x, y, z, 61] = fromBase64 [x, y, z', 61] ∧
      fromBase64 [x, y, z, 61] = .ok [vx * 4 + vy / 16, vy % 16 * 16 + vz / 4] := by
  have lt : ∀ c v, Spec.b64Val? c = some v → c < 256 := by
    intro c v h
    have := (val_is_char c v h)
    by_cases hc : c < 123
    · omega
    · rw [high_not_alphabet c (by omega)] at h; cases h
  have e : ∀ w vw, Spec.b64Val? w = some vw → fromBase64 [x, y, w, 61] = .ok [vx * 4 + vy / 16, vy % 16 * 16 + vw / 4] := by
    intro w vw hw
    have hb : ∀ q ∈ [x, y, w, 61], q < 256 := by
      intro q hq
      simp only [List.mem_cons, List.not_mem_nil, or_false] at hq
      rcases hq with rfl | rfl | rfl | rfl
      · exact lt _ _ hx
      · exact lt _ _ hy
      · exact lt _ _ hw
      · decide
    have := base64_stops_at_first_pad [x, y, w] [] hb (by
      intro c hc
      simp only [List.mem_cons, List.not_mem_nil, or_false] at hc
      rcases hc with rfl | rfl | rfl <;> simp [hx, hy, hw]) (by simp)
    simp only [List.cons_append, List.nil_append] at this
    rw [this]
    simp [b64Vals, hx, hy, hw, Spec.decodeVals]
  rw [e z vz hz, e z' vz' hz', hsame]
  exact ⟨rfl, rfl⟩

example : fromBase64 [90, 109, 57, 61] = .ok [0x66, 0x6F] := by decide             -- "Zm9=": non-canonical form of "Zm8="
example : fromBase64 [65, 61, 65, 65] = .ok [] ∧ fromBase64 [90, 109, 61, 65] = .ok [0x66] := by decide   -- misplaced `=`
example : fromBase64 [90, 109, 56, 0x80] = .ok [] ∧ fromBase64 [90, 109, 56, 45] = .ok [] := by decide  -- byte >= 0x80, '-'
example : b64Byte 65 = .ok (.val 0) ∧ b64Byte 0x80 = .ok .reject ∧ b64Byte 61 = .ok .stop := by decide
example : Spec.rfc4648Encode [0x66, 0x6F] = [90, 109, 56, 61] := by decide           -- "fo" -> "Zm8="
example : fromBase64 [90, 109, 56, 61] = .ok [0x66, 0x6F] := by decide
example : fromBase64 [0xFF, 0xFF, 0xFF, 0xFF] = .ok [] := by decide                   -- D26 input: rejected, no fault
example : fromBase64 [123, 65, 65, 65] = .ok [] := by decide                          -- '{' = 'z' + 1

/-! ## integer conversions (relative to the libc behaviour stated in Model.lean) -/

/-- `String::printf` yields the formatted text whatever the capacity of the first buffer is -/
theorem printf_text (cap : Nat) (text : List Nat) : printf cap text = text := printf_eq cap text

/-- the digits `%u`/`%llu` are assumed to print are the decimal numeral of the value -/
theorem decimal_text_value (n : Nat) : Spec.decimalValue (decDigits n) = n := by
  unfold Spec.decimalValue
  rw [decimalValue_decDigits_aux, shiftIn_zero]

/-- `toInt(fromInt(v)) = v` for every `int` -/
theorem int_roundtrip_int (v : Int) (h1 : -2147483648 ≤ v) (h2 : v ≤ 2147483647) : toInt (fromInt v) = v := by
  unfold toInt fromInt atoi strtol
  rw [printf_eq, cstr_fmtSigned, strtoll_fmt v (by omega) (by omega)]
  unfold wrapInt32
  omega

/-- `toUInt(fromUInt(v)) = v` for every `uint` -/
theorem int_roundtrip_uint (v : Nat) (h : v ≤ 4294967295) : toUInt (fromUInt v) = v := by
  unfold toUInt fromUInt strtoul
  rw [printf_eq, cstr_decDigits, strtoull_dec v (by omega)]
  omega

/-- `toInt64(fromInt64(v)) = v` for every `int64` -/
theorem int_roundtrip_int64 (v : Int) (h1 : -9223372036854775808 ≤ v) (h2 : v ≤ 9223372036854775807) :
    toInt64 (fromInt64 v) = v := by
  unfold toInt64 fromInt64 atoll
  rw [printf_eq, cstr_fmtSigned, strtoll_fmt v h1 h2]

/-- `toUInt64(fromUInt64(v)) = v` for every `uint64` -/
theorem int_roundtrip_uint64 (v : Nat) (h : v ≤ 18446744073709551615) : toUInt64 (fromUInt64 v) = v := by
  unfold toUInt64 fromUInt64
  rw [printf_eq, cstr_decDigits, strtoull_dec v h]

/-- stated outright (consequence of the four round trips): the decimal texts are injective on the whole range of each type -
    two different `int`/`uint`/`int64`/`uint64` values never print the same text -/
theorem int_texts_injective :
    (∀ v w : Int, -2147483648 ≤ v → v ≤ 2147483647 → -2147483648 ≤ w → w ≤ 2147483647 → fromInt v = fromInt w → v = w) ∧
    (∀ v w : Nat, v ≤ 4294967295 → w ≤ 4294967295 → fromUInt v = fromUInt w → v = w) ∧
    (∀ v w : Int, -9223372036854775808 ≤ v → v ≤ 9223372036854775807 → -9223372036854775808 ≤ w → w ≤ 9223372036854775807 →
      fromInt64 v = fromInt64 w → v = w) ∧
    (∀ v w : Nat, v ≤ 18446744073709551615 → w ≤ 18446744073709551615 → fromUInt64 v = fromUInt64 w → v = w) := by
  refine ⟨?_, ?_, ?_, ?_⟩
  · intro v w a b c d h
    have := congrArg toInt h
    rwa [int_roundtrip_int v a b, int_roundtrip_int w c d] at this
  · intro v w a b h
    have := congrArg toUInt h
    rwa [int_roundtrip_uint v a, int_roundtrip_uint w b] at this
  · intro v w a b c d h
    have := congrArg toInt64 h
    rwa [int_roundtrip_int64 v a b, int_roundtrip_int64 w c d] at this
  · intro v w a b h
    have := congrArg toUInt64 h
    rwa [int_roundtrip_uint64 v a, int_roundtrip_uint64 w b] at this

example : fromInt (-2147483648) = [45, 50, 49, 52, 55, 52, 56, 51, 54, 52, 56] := by
  simp [fromInt, printf_eq, fmtSigned, decDigits]
example : toInt [45, 50, 49, 52, 55, 52, 56, 51, 54, 52, 56] = -2147483648 := by decide

/-! ## parsing arbitrary numerals: white space, optional sign, digits (leading zeros allowed), junk -/

/-- `toUInt64` / `toUInt` of `ws ++ ["+"] ++ digits ++ junk` is the value of the digit string whenever it
    fits the type (any white space prefix, any junk that does not start with a digit) -/
theorem parse_unsigned (ws sign ds junk : List Nat) (hws : ∀ c ∈ ws, isSpace c = true)
    (hsign : sign = [] ∨ sign = [43]) (hds : ∀ d ∈ ds, isDigit d = true) (hne : ds ≠ [])
    (hj : ∀ c tl, junk = c :: tl → isDigit c = false) :
    (Spec.decimalValue ds ≤ 18446744073709551615 →
      toUInt64 (ws ++ (sign ++ (ds ++ junk))) = Spec.decimalValue ds) ∧
    (Spec.decimalValue ds ≤ 4294967295 →
      toUInt (ws ++ (sign ++ (ds ++ junk))) = Spec.decimalValue ds) := by
  have hsign' : sign = [] ∨ sign = [43] ∨ sign = [45] := by rcases hsign with h | h <;> simp [h]
  have hm := strtoMag_numeral ws sign ds (cstr junk) hws hsign' hds hne (cstr_junk junk hj)
  rw [← cstr_numeral ws sign ds junk hws hsign' hds] at hm
  have hneg : decide (sign = [45]) = false := by rcases hsign with h | h <;> simp [h]
  rw [hneg] at hm
  constructor
  · intro h
    unfold toUInt64 strtoull
    rw [hm]
    simp only [Bool.false_eq_true, if_false]
    rw [if_neg (by omega)]
  · intro h
    unfold toUInt strtoul strtoull
    rw [hm]
    simp only [Bool.false_eq_true, if_false]
    rw [if_neg (by omega)]
    omega

/-- `toInt64` / `toInt` of `ws ++ [sign] ++ digits ++ junk` is the signed value of the numeral whenever
    it fits the type -/
theorem parse_signed (ws sign ds junk : List Nat) (hws : ∀ c ∈ ws, isSpace c = true)
    (hsign : sign = [] ∨ sign = [43] ∨ sign = [45]) (hds : ∀ d ∈ ds, isDigit d = true) (hne : ds ≠ [])
    (hj : ∀ c tl, junk = c :: tl → isDigit c = false) (v : Int)
    (hv : v = if sign = [45] then -(Spec.decimalValue ds : Int) else (Spec.decimalValue ds : Int)) :
    (-9223372036854775808 ≤ v ∧ v ≤ 9223372036854775807 → toInt64 (ws ++ (sign ++ (ds ++ junk))) = v) ∧
    (-2147483648 ≤ v ∧ v ≤ 2147483647 → toInt (ws ++ (sign ++ (ds ++ junk))) = v) := by
  have hm := strtoMag_numeral ws sign ds (cstr junk) hws hsign hds hne (cstr_junk junk hj)
  rw [← cstr_numeral ws sign ds junk hws hsign hds] at hm
  have key : -9223372036854775808 ≤ v ∧ v ≤ 9223372036854775807 →
      strtoll (cstr (ws ++ (sign ++ (ds ++ junk)))) = v := by
    intro h
    unfold strtoll
    rw [hm]
    by_cases hs : sign = [45]
    · simp only [hs, decide_true, if_true] at hv ⊢
      rw [if_neg (by omega)]; omega
    · simp only [hs, decide_false, if_false, Bool.false_eq_true] at hv ⊢
      rw [if_neg (by omega)]; omega
  constructor
  · intro h
    unfold toInt64 atoll
    exact key h
  · intro h
    unfold toInt atoi strtol
    rw [key ⟨by omega, by omega⟩]
    unfold wrapInt32
    omega

example : toInt64 [32, 9, 45, 48, 48, 52, 50, 120] = -42 := by decide      -- " \t-0042x"

end Nstd.Codec
