import Nstd.Codec.Model
namespace Nstd.Codec
open Nstd.Generated.Codec

/-- `Unicode::length` yields 0..4 for every byte value (it indexes `utf8Offsets` and bounds the reads of the decoders) -/
theorem length_le_four (b : Nat) : utf8Length b ≤ 4 := by
  unfold utf8Length
  repeat' split
  all_goals omega

end Nstd.Codec
