import Nstd.Codec.LemmasUtf8
/-!
  Property C18 — text codecs and numeric conversions are exact inverses and bounds-safe.
  Only the property theorems (and non-vacuity examples); every `theorem` here is an
  obligation and is axiom-audited on every run.  All statements are over the model of
  `Nstd/Codec/Model.lean`, whose tables / masks / range tests are the definitions generated
  from the current sources (`Nstd.Generated.Codec`).
-/
namespace Nstd.Codec
open Nstd.Generated.Codec

/-! ## UTF-8 -/

/-- `Unicode::toString(cp)` is the RFC 3629 encoding of `cp`, for every code point up to U+10FFFF
    (surrogates D800..DFFF: the generalized three byte form, which is what the code emits). -/
theorem utf8_agrees (cp : Nat) (h : cp < 0x110000) : toString cp = Spec.utf8 cp := by
  unfold toString
  rw [append_eq cp h]

/-- above U+10FFFF nothing is appended (`append` returns false), for every `uint32` value -/
theorem utf8_rejects_above (cp : Nat) (h : 0x110000 ≤ cp) (h32 : cp < 2 ^ 32) : toString cp = [] := by
  unfold toString
  rw [append_none cp h (Nat.lt_trans h32 (by decide))]

/-- `Unicode::fromString(Unicode::toString(cp)) = cp` for all 1,114,112 code points
    (by range lemmas, not by enumeration); no read leaves the string. -/
theorem utf8_roundtrip (cp : Nat) (h : cp < 0x110000) :
    fromString (toString cp) (toString cp).length = .ok cp := by
  rw [utf8_agrees cp h]
  exact decode_spec cp h

/-- `Unicode::length(char)` touches no memory; its value is 0..4 for EVERY byte value, hence the
    read `utf8Offsets[reqLen]` of `fromString` is inside the 5-entry table. -/
theorem length_no_oob (b : Nat) : utf8Length b ≤ 4 ∧ ∃ v, rd utf8Offsets (utf8Length b) = .ok v :=
  ⟨utf8Length_le b, offsets_ok _ (utf8Length_le b)⟩

/-- `Unicode::fromString(ch, len)` never reads outside `[ch, ch+len)` (nor outside `utf8Offsets`),
    for ARBITRARY bytes and every range lying inside the memory block. -/
theorem fromString_no_oob (mem : List Nat) (len : Nat) (hl : len ≤ mem.length) :
    fromString mem len ≠ .oob := by
  obtain ⟨v, hv⟩ := fromString_ok mem len hl
  rw [hv]; intro h; cases h

/-- `Unicode::isValid(ch, len)` never reads outside `[ch, ch+len)`, for ARBITRARY bytes and every range. -/
theorem isValid_no_oob (mem : List Nat) (len : Nat) (hl : len ≤ mem.length) :
    isValid mem len ≠ .oob := by
  obtain ⟨v, hv⟩ := isValidLoop_ok mem len hl len 0 len (by omega) (by omega)
  unfold isValid
  rw [hv]; intro h; cases h

/- non-vacuity / the model does fault when a read leaves the range -/
example : fromString [0xE2, 0x82, 0xAC] 3 = .ok 0x20AC := by decide
example : fromString [0xE2, 0x82] 3 = .oob := by decide          -- a caller lying about the length faults
example : isValid [0xF0, 0x9F, 0x98, 0x80, 0x41] 5 = .ok true := by
  simp [isValid, isValidLoop, rdR, rd, utf8Length]
example : isValid [0xF0, 0x9F, 0x98] 3 = .ok false := by simp [isValid, isValidLoop, rdR, rd, utf8Length]  -- truncated: rejected without reading on
example : toString 0x20AC = [0xE2, 0x82, 0xAC] := by decide

end Nstd.Codec
