/-!
  Checked memory of the Codec area (C18): `Res` (a value or an out-of-range access), checked reads of
  tables / ranges, checked stores into a block of fixed extent, and the classification of one base64
  input byte.  Imported by the generated definitions (`Nstd.Generated.CodecTables`) and by the model.
-/
namespace Nstd.Codec

/-- result of a computation on checked memory -/
inductive Res (α : Type) where
  | ok (a : α)
  | oob                    -- an access outside the given range / table / buffer
deriving Repr, DecidableEq

def Res.bind {α β : Type} (r : Res α) (f : α → Res β) : Res β :=
  match r with
  | .ok a => f a
  | .oob => .oob

@[simp] theorem Res.bind_ok {α β : Type} (a : α) (f : α → Res β) : (Res.ok a).bind f = f a := rfl
@[simp] theorem Res.bind_oob {α β : Type} (f : α → Res β) : (Res.oob : Res α).bind f = .oob := rfl

/-- checked read of element `i` of a block / table -/
def rd (bs : List Nat) (i : Nat) : Res Nat :=
  match bs[i]? with
  | some b => .ok b
  | none => .oob

/-- checked read of byte `k` of the range `[0, len)` the caller handed over (inside `mem`) -/
def rdR (mem : List Nat) (len k : Nat) : Res Nat :=
  if k < len then rd mem k else .oob

/-- checked table read with a C `int` index (may be negative when a signed char is used) -/
def rdTable (t : List Nat) (i : Int) : Res Nat :=
  if 0 ≤ i then rd t i.toNat else .oob

/-- checked write into a buffer of fixed extent -/
def wr (out : List Nat) (j v : Nat) : Res (List Nat) :=
  if j < out.length then .ok (out.set j v) else .oob

/-- what the per-byte tests of `fromBase64` decide for one input byte: leave the loop (`break`),
    reject the whole input (`return String()`), or hand the 6-bit table value to the switch -/
inductive B64Sym where
  | stop
  | reject
  | val (c : Nat)
deriving Repr, DecidableEq

end Nstd.Codec
