import Nstd.Codec.Model
import Nstd.Generated.CodecBody
import Nstd.Codec.LemmasValid
/-!
  Property C18, the tie by TRANSLATION.  `Nstd.Generated.CodecBody` holds the BODIES of the functions of
  include/nstd/Unicode.hpp (and of `String::fromHex` / `String::fromBase64`) as tools/gen_codec.py (part 2: tokenizer +
  recursive-descent parser + statement compiler of the C++ subset these bodies use) reads them off the CURRENT sources on
  every run: every `if`, `switch` (fall-through unrolled), `for` loop (a recursive function on a fuel argument), pointer
  step, checked read / store, `uint32` / `usize` wrap-around.  The theorems below state that each translated function IS
  the hand-written model function of Nstd/Codec/Model.lean (about which Props.lean / PropsUtf8.lean speak) on EVERY input
  that is a model input: byte lists (`b < 256`), lengths below 2^64 (`usize`), any fuel above the length.  A change of a
  body that alters what it computes makes one of these theorems fail (a broken obligation; the check then searches for a
  failing input); a rewrite that computes the same is re-proved by the same scripts where they are robust
  (masks vs comparisons, renamed locals, `Unicode::length` in any spelling: `body_length` is `decide` over all 256 bytes).
-/
namespace Nstd.Codec
open Nstd.Generated.Codec
open Nstd.Generated

theorem and_or_mod (a m c : Nat) (hm : m < 256) (hc : c < 256) : (a &&& m ||| c) % 256 = a &&& m ||| c :=
  Nat.mod_eq_of_lt (Nat.or_lt_two_pow (n := 8) (Nat.lt_of_le_of_lt Nat.and_le_right hm) hc)

theorem body_length : ∀ b, b < 256 → CodecBody.length b = .ok (utf8Length b) := by decide +kernel

theorem body_append (ch : Nat) (str : List Nat) :
    CodecBody.append ch str = .ok (match append ch with
      | some bs => (true, str ++ bs)
      | none => (false, str)) := by
  unfold CodecBody.append append encCond1 encCond2 encCond3 encCond4 encBytes1 encBytes2 encBytes3 encBytes4
  simp only [decide_eq_true_eq]
  repeat' split
  all_goals simp_all [and_or_mod]

theorem body_toString (ch : Nat) : CodecBody.toString ch = .ok (toString ch) := by
  unfold CodecBody.toString toString
  rw [body_append]
  cases append ch <;> simp

theorem rdR_lt {mem : List Nat} {len k b : Nat} (hb : ∀ b ∈ mem, b < 256) (h : rdR mem len k = .ok b) : b < 256 := by
  unfold rdR rd at h
  split at h
  · split at h
    · rename_i x hx
      injection h with h
      subst h
      exact hb _ (List.mem_of_getElem? hx)
    · cases h
  · cases h

theorem body_fromString (mem : List Nat) (len : Nat) (hb : ∀ b ∈ mem, b < 256) :
    CodecBody.fromString mem len 0 len = fromString mem len := by
  unfold CodecBody.fromString fromString
  by_cases h0 : len = 0
  · simp [h0]
  · simp only [h0, if_false]
    cases hr : rdR mem len 0 with
    | oob => simp
    | ok b0 =>
      have hb0 := rdR_lt hb hr
      simp only [Res.bind_ok, body_length b0 hb0, CodecBody.fromString_tab1, utf8Offsets, sub32]
      by_cases ha : utf8IsAscii b0 = true
      · have ha' := ha
        simp only [utf8IsAscii, decide_eq_true_eq] at ha'
        simp only [ha, ha', if_true]
      · have ha' := ha
        simp only [utf8IsAscii, decide_eq_true_eq] at ha'
        simp only [ha, ha', if_false, Bool.false_eq_true]
        by_cases hl : len < utf8Length b0
        · simp only [hl, if_true]
        · simp only [hl, if_false]
          by_cases h4 : utf8Length b0 = 4
          · simp only [h4]
            cases rdR mem len 1 <;> cases rdR mem len 2 <;> cases rdR mem len 3 <;> simp [rd]
          · by_cases h3 : utf8Length b0 = 3
            · simp only [h3]
              cases rdR mem len 1 <;> cases rdR mem len 2 <;> simp [rd]
            · by_cases h2 : utf8Length b0 = 2
              · simp only [h2]
                cases rdR mem len 1 <;> simp [rd]
              · simp only [h4, h3, h2, if_false]

theorem body_fromStringS (s : List Nat) (hb : ∀ b ∈ s, b < 256) : CodecBody.fromStringS s = fromStringS s := by
  unfold CodecBody.fromStringS fromStringS cview
  rw [body_fromString _ _ (by intro b hm; rcases List.mem_append.mp hm with h | h; exact hb b h; simp at h; omega)]
  cases fromString (s ++ [0]) s.length <;> rfl

theorem body_isValid_loop (mem : List Nat) (end_ : Nat) (hb : ∀ b ∈ mem, b < 256) :
    ∀ (fuel p len : Nat), end_ - p < fuel → len < 18446744073709551616 →
      CodecBody.isValid_loop1 mem end_ fuel p end_ len = isValidLoop mem end_ p len := by
  intro fuel
  induction fuel with
  | zero => intro p len h; omega
  | succ n ih =>
    intro p len hf hl
    rw [isValidLoop]
    unfold CodecBody.isValid_loop1
    by_cases hp : p < end_
    · simp only [hp, if_true, dite_true]
      cases hr : rdR mem end_ p with
      | oob => simp
      | ok b0 =>
        have hb0 := rdR_lt hb hr
        simp only [Res.bind_ok, body_length b0 hb0, validBad2, validBad3, validBad4, decide_eq_true_eq]
        by_cases hlt : len < utf8Length b0
        · simp only [hlt, if_true]
        · simp only [hlt, if_false]
          by_cases h4 : utf8Length b0 = 4
          · simp only [h4] at hlt ⊢
            have e : (len + 18446744073709551616 - 4) % 18446744073709551616 = len - 4 := by omega
            simp only [e, if_true]
            rw [ih (p + 4) (len - 4) (by omega) (by omega)]
          · by_cases h3 : utf8Length b0 = 3
            · simp only [h3] at hlt ⊢
              have e : (len + 18446744073709551616 - 3) % 18446744073709551616 = len - 3 := by omega
              simp only [e, if_true]
              rw [ih (p + 3) (len - 3) (by omega) (by omega)]
              simp
            · by_cases h2 : utf8Length b0 = 2
              · simp only [h2] at hlt ⊢
                have e : (len + 18446744073709551616 - 2) % 18446744073709551616 = len - 2 := by omega
                simp only [e, if_true]
                rw [ih (p + 2) (len - 2) (by omega) (by omega)]
                simp
              · by_cases h1 : utf8Length b0 = 1
                · simp only [h1] at hlt ⊢
                  have e : (len + 18446744073709551616 - 1) % 18446744073709551616 = len - 1 := by omega
                  simp only [e, if_true]
                  rw [ih (p + 1) (len - 1) (by omega) (by omega)]
                  simp
                · simp only [h4, h3, h2, h1, if_false]
    · simp only [hp, if_false, dite_false]

theorem body_isValid (mem : List Nat) (len fuel : Nat) (hb : ∀ b ∈ mem, b < 256) (hl : len < 18446744073709551616)
    (hf : len < fuel) : CodecBody.isValid fuel mem len 0 len = isValid mem len := by
  unfold CodecBody.isValid isValid
  rw [Nat.zero_add, body_isValid_loop mem len hb fuel 0 len (by omega) hl]

theorem body_isValidS (s : List Nat) (fuel : Nat) (hb : ∀ b ∈ s, b < 256) (hl : s.length < 18446744073709551616)
    (hf : s.length < fuel) : CodecBody.isValidS fuel s = isValidS s := by
  unfold CodecBody.isValidS isValidS cview
  rw [body_isValid _ _ _ (by intro b hm; rcases List.mem_append.mp hm with h | h; exact hb b h; simp at h; omega) hl hf]
  cases isValid (s ++ [0]) s.length <;> rfl

/-- `append(data, size, str)`: the loop over the code point array -/
theorem body_appendArr_loop :
    ∀ (cps : List Nat) (pre : List Nat) (fuel : Nat) (str : List Nat) (res : Bool), cps.length < fuel →
      CodecBody.appendArr_loop1 (pre ++ cps) (pre ++ cps).length fuel pre.length (pre ++ cps).length str res =
        .ok (res && (appendAll cps).1, str ++ (appendAll cps).2) := by
  intro cps
  induction cps with
  | nil =>
    intro pre fuel str res hf
    cases fuel with
    | zero => simp at hf
    | succ n => simp [CodecBody.appendArr_loop1, appendAll]
  | cons c rest ih =>
    intro pre fuel str res hf
    cases fuel with
    | zero => simp at hf
    | succ n =>
      unfold CodecBody.appendArr_loop1
      have hlt : pre.length < (pre ++ c :: rest).length := by simp
      have hrd : rdR (pre ++ c :: rest) (pre ++ c :: rest).length pre.length = .ok c := by
        simp [rdR, rd]
      simp only [hlt, if_true, hrd, Res.bind_ok, body_append]
      have e : pre ++ c :: rest = (pre ++ [c]) ++ rest := by simp
      have e2 : pre.length + 1 = (pre ++ [c]).length := by simp
      rw [e, e2, ih (pre ++ [c]) n _ _ (by simpa using hf)]
      have ea : appendAll (c :: rest) = (match append c with
          | some bs => ((appendAll rest).1, bs ++ (appendAll rest).2)
          | none => (false, (appendAll rest).2)) := by rw [appendAll]; cases append c <;> rfl
      rw [ea]
      cases append c <;> simp

theorem body_appendArr (cps : List Nat) (fuel : Nat) (str : List Nat) (hf : cps.length < fuel) :
    CodecBody.appendArr fuel cps cps.length 0 cps.length str = .ok ((appendAll cps).1, str ++ (appendAll cps).2) := by
  unfold CodecBody.appendArr
  have := body_appendArr_loop cps [] fuel str true hf
  simpa using this

theorem body_toStringArr (cps : List Nat) (fuel : Nat) (hf : cps.length < fuel) :
    CodecBody.toStringArr fuel cps cps.length 0 cps.length = .ok (toStringArr cps) := by
  unfold CodecBody.toStringArr toStringArr
  rw [body_appendArr cps fuel [] hf]
  simp

end Nstd.Codec
