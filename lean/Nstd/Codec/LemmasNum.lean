import Nstd.Codec.LemmasInt
/-!
  Lemmas for the numeric conversions of String (C18), second part: the C-string view `cstr`, the full
  functional description of `strtoll`/`strtoull` on every text (numeral with clamping / no number), the shape
  of the printed numerals, `%f` and the case/ctype tables.
-/
namespace Nstd.Codec
open Nstd.Generated.Codec

/-! ### `cstr` -/
theorem cstr_nil : cstr [] = [] := rfl

theorem cstr_cons (c : Nat) (tl : List Nat) : cstr (c :: tl) = if c = 0 then [] else c :: cstr tl := by
  unfold cstr
  by_cases h : c = 0
  · simp [h, List.takeWhile]
  · have hb : (c != 0) = true := by simp [h]
    rw [if_neg h, List.takeWhile, hb]

theorem cstr_append (a b : List Nat) (h : ∀ c ∈ a, c ≠ 0) : cstr (a ++ b) = a ++ cstr b := by
  induction a with
  | nil => rfl
  | cons c cs ih =>
    have hc : c ≠ 0 := h c (List.mem_cons_self ..)
    rw [List.cons_append, cstr_cons, if_neg hc, ih (fun x hx => h x (List.mem_cons_of_mem _ hx))]
    rfl

theorem cstr_nonzero (a : List Nat) (h : ∀ c ∈ a, c ≠ 0) : cstr a = a := by
  have := cstr_append a [] h
  rwa [List.append_nil, cstr_nil, List.append_nil] at this

/-- an embedded NUL ends the text for libc -/
theorem cstr_nul (a b : List Nat) (h : ∀ c ∈ a, c ≠ 0) : cstr (a ++ 0 :: b) = a := by
  rw [cstr_append a _ h, cstr_cons, if_pos rfl, List.append_nil]

theorem cstr_idem (s : List Nat) : cstr (cstr s) = cstr s := by
  induction s with
  | nil => rfl
  | cons c tl ih =>
    rw [cstr_cons]
    by_cases h : c = 0
    · rw [if_pos h]; rfl
    · rw [if_neg h, cstr_cons, if_neg h, ih]

theorem cstr_nonzero_mem (s : List Nat) : ∀ c ∈ cstr s, c ≠ 0 := by
  induction s with
  | nil => intro c hc; cases hc
  | cons d tl ih =>
    intro c hc
    rw [cstr_cons] at hc
    by_cases h : d = 0
    · rw [if_pos h] at hc; cases hc
    · rw [if_neg h] at hc
      rcases List.mem_cons.mp hc with rfl | h2
      · exact h
      · exact ih c h2

/-- the head of the C-string view of junk that does not start with a digit is no digit either -/
theorem cstr_junk (junk : List Nat) (hj : ∀ c tl, junk = c :: tl → isDigit c = false) :
    ∀ c tl, cstr junk = c :: tl → isDigit c = false := by
  intro c tl h
  cases junk with
  | nil => cases h
  | cons d ds =>
    rw [cstr_cons] at h
    by_cases h0 : d = 0
    · rw [if_pos h0] at h; cases h
    · rw [if_neg h0] at h
      injection h with h1 _
      subst h1
      exact hj d ds rfl

/-! ### the digits printed by `%u` / `%d` -/
theorem decDigits_digits (n : Nat) : ∀ d ∈ decDigits n, 48 ≤ d ∧ d ≤ 57 := by
  induction n using decDigits.induct with
  | case1 n h =>
    intro d hd
    rw [decDigits, dif_pos h] at hd
    simp at hd; omega
  | case2 n h ih =>
    intro d hd
    rw [decDigits, dif_neg h] at hd
    rcases List.mem_append.mp hd with h1 | h1
    · exact ih d h1
    · simp at h1; omega

theorem decDigits_isDigit (n : Nat) : ∀ d ∈ decDigits n, isDigit d = true := by
  intro d hd
  have := decDigits_digits n d hd
  simp [isDigit]; omega

theorem decDigits_ne_nil (n : Nat) : decDigits n ≠ [] := by
  obtain ⟨d, ds, e, _, _⟩ := decDigits_head n
  rw [e]; exact List.cons_ne_nil _ _

/-- no leading zero except for the numeral `0` itself -/
theorem decDigits_canonical (n : Nat) : ∃ d ds, decDigits n = d :: ds ∧ (d = 48 → n = 0 ∧ ds = []) := by
  induction n using decDigits.induct with
  | case1 n h =>
    refine ⟨48 + n, [], by rw [decDigits, dif_pos h], ?_⟩
    intro h0; exact ⟨by omega, rfl⟩
  | case2 n h ih =>
    obtain ⟨d, ds, e, hz⟩ := ih
    refine ⟨d, ds ++ [48 + n % 10], by rw [decDigits, dif_neg h, e]; rfl, ?_⟩
    intro h0
    have := (hz h0).1
    omega

theorem decDigits_length (k : Nat) : ∀ n, n < 10 ^ (k + 1) → (decDigits n).length ≤ k + 1 := by
  induction k with
  | zero =>
    intro n hn
    rw [decDigits, dif_pos (by simpa using hn)]
    simp
  | succ k ih =>
    intro n hn
    by_cases h : n < 10
    · rw [decDigits, dif_pos h]; simp
    · rw [decDigits, dif_neg h, List.length_append]
      have : n / 10 < 10 ^ (k + 1) := by
        rw [Nat.pow_succ] at hn
        omega
      have := ih (n / 10) this
      simp; omega

theorem decDigits_length_ge (k : Nat) : ∀ n, 10 ^ k ≤ n → k + 1 ≤ (decDigits n).length := by
  induction k with
  | zero =>
    intro n _
    obtain ⟨d, ds, e, _, _⟩ := decDigits_head n
    rw [e]; simp
  | succ k ih =>
    intro n hn
    have h10 : ¬ n < 10 := by
      have : 1 ≤ 10 ^ k := Nat.pow_pos (by decide)
      rw [Nat.pow_succ] at hn
      omega
    rw [decDigits, dif_neg h10, List.length_append]
    have : 10 ^ k ≤ n / 10 := by
      rw [Nat.pow_succ] at hn
      omega
    have := ih (n / 10) this
    simp; omega

theorem fmtSigned_nonzero (v : Int) : ∀ c ∈ fmtSigned v, c ≠ 0 := by
  intro c hc
  unfold fmtSigned at hc
  by_cases hv : v < 0
  · rw [if_pos hv] at hc
    rcases List.mem_cons.mp hc with rfl | h
    · decide
    · have := decDigits_digits _ c h; omega
  · rw [if_neg hv] at hc
    have := decDigits_digits _ c hc; omega

theorem decDigits_nonzero (n : Nat) : ∀ c ∈ decDigits n, c ≠ 0 := by
  intro c hc
  have := decDigits_digits _ c hc; omega

theorem cstr_fmtSigned (v : Int) : cstr (fmtSigned v) = fmtSigned v := cstr_nonzero _ (fmtSigned_nonzero v)
theorem cstr_decDigits (n : Nat) : cstr (decDigits n) = decDigits n := cstr_nonzero _ (decDigits_nonzero n)

theorem fmtSigned_length (v : Int) (h1 : -9223372036854775808 ≤ v) (h2 : v ≤ 9223372036854775807) :
    (fmtSigned v).length ≤ 20 := by
  unfold fmtSigned
  by_cases hv : v < 0
  · rw [if_pos hv, List.length_cons]
    have := decDigits_length 18 (-v).toNat (by omega)
    omega
  · rw [if_neg hv]
    have := decDigits_length 18 v.toNat (by omega)
    omega

/-! ### numerals with white space, sign, digits, junk: the C-string view keeps the shape -/
theorem space_nonzero (ws : List Nat) (hws : ∀ c ∈ ws, isSpace c = true) : ∀ c ∈ ws, c ≠ 0 := by
  intro c hc h0
  have := hws c hc
  rw [h0] at this
  revert this; decide

theorem digits_nonzero (ds : List Nat) (hds : ∀ d ∈ ds, isDigit d = true) : ∀ c ∈ ds, c ≠ 0 := by
  intro c hc h0
  have := hds c hc
  rw [h0] at this
  revert this; decide

theorem cstr_numeral (ws sign ds junk : List Nat) (hws : ∀ c ∈ ws, isSpace c = true)
    (hsign : sign = [] ∨ sign = [43] ∨ sign = [45]) (hds : ∀ d ∈ ds, isDigit d = true) :
    cstr (ws ++ (sign ++ (ds ++ junk))) = ws ++ (sign ++ (ds ++ cstr junk)) := by
  rw [cstr_append ws _ (space_nonzero ws hws)]
  have hs : ∀ c ∈ sign, c ≠ 0 := by
    rcases hsign with rfl | rfl | rfl <;> intro c hc <;> simp at hc <;> omega
  rw [cstr_append sign _ hs, cstr_append ds _ (digits_nonzero ds hds)]

/-! ### texts without a number -/
theorem strtoMag_noNumber (ws junk : List Nat) (hws : ∀ c ∈ ws, isSpace c = true)
    (hj : Spec.noNumber junk = true) : (strtoMag (ws ++ junk)).2 = 0 := by
  unfold strtoMag
  rw [skipSpace_append ws _ hws]
  cases junk with
  | nil => rfl
  | cons c tl =>
    simp only [Spec.noNumber, Bool.and_eq_true, Bool.not_eq_true', Bool.or_eq_true,
      Bool.or_eq_false_iff, Bool.and_eq_false_iff] at hj
    have hsp : isSpace c = false := by
      simp only [isSpace, Bool.or_eq_false_iff, Bool.and_eq_false_iff, decide_eq_false_iff_not]
      simp only [decide_eq_false_iff_not] at hj
      exact hj.1.1
    rw [skipSpace_nonspace c tl hsp]
    have hdig : isDigit c = false := by
      simp only [isDigit, Bool.and_eq_false_iff, decide_eq_false_iff_not]
      simp only [decide_eq_false_iff_not] at hj
      exact hj.1.2
    have htl : (c = 43 ∨ c = 45) → parseDigits 0 tl = 0 := by
      intro hc
      have h3 := hj.2
      rcases h3 with h3 | h3
      · simp only [decide_eq_false_iff_not] at h3; omega
      · cases tl with
        | nil => rfl
        | cons d tl' =>
          have : isDigit d = false := by simpa [Spec.headIsDigit, isDigit] using h3
          simp [parseDigits, this]
    by_cases h45 : c = 45
    · simp only [h45, if_true]; exact htl (Or.inr h45)
    · by_cases h43 : c = 43
      · simp only [h43, if_true, show ¬ (43:Nat) = 45 by decide, if_false]; exact htl (Or.inl h43)
      · simp only [h45, h43, if_false, parseDigits, hdig, Bool.false_eq_true]

theorem cstr_noNumber (junk : List Nat) (hj : Spec.noNumber junk = true) : Spec.noNumber (cstr junk) = true := by
  cases junk with
  | nil => rfl
  | cons c tl =>
    rw [cstr_cons]
    by_cases h0 : c = 0
    · rw [if_pos h0]; rfl
    · rw [if_neg h0]
      simp only [Spec.noNumber, Bool.and_eq_true] at hj ⊢
      refine ⟨hj.1, ?_⟩
      have h2 := hj.2
      simp only [Bool.or_eq_true, Bool.not_eq_true'] at h2 ⊢
      rcases h2 with h2 | h2
      · exact Or.inl h2
      · right
        cases tl with
        | nil => rfl
        | cons d tl' =>
          rw [cstr_cons]
          by_cases hd : d = 0
          · rw [if_pos hd]; rfl
          · rw [if_neg hd]; exact h2

/-! ### every text is a numeral or holds no number -/
theorem span_space (s : List Nat) : ∃ ws rest, s = ws ++ rest ∧ (∀ c ∈ ws, isSpace c = true) ∧
    (∀ c tl, rest = c :: tl → isSpace c = false) := by
  induction s with
  | nil => exact ⟨[], [], rfl, by simp, by simp⟩
  | cons c tl ih =>
    by_cases h : isSpace c = true
    · obtain ⟨ws, rest, e, h1, h2⟩ := ih
      refine ⟨c :: ws, rest, by rw [e]; rfl, ?_, h2⟩
      intro x hx
      rcases List.mem_cons.mp hx with rfl | hx
      · exact h
      · exact h1 x hx
    · refine ⟨[], c :: tl, rfl, by simp, ?_⟩
      intro x tl' e
      injection e with e1 _
      subst e1
      simpa using h

theorem span_digit (s : List Nat) : ∃ ds junk, s = ds ++ junk ∧ (∀ c ∈ ds, isDigit c = true) ∧
    (∀ c tl, junk = c :: tl → isDigit c = false) := by
  induction s with
  | nil => exact ⟨[], [], rfl, by simp, by simp⟩
  | cons c tl ih =>
    by_cases h : isDigit c = true
    · obtain ⟨ds, junk, e, h1, h2⟩ := ih
      refine ⟨c :: ds, junk, by rw [e]; rfl, ?_, h2⟩
      intro x hx
      rcases List.mem_cons.mp hx with rfl | hx
      · exact h
      · exact h1 x hx
    · refine ⟨[], c :: tl, rfl, by simp, ?_⟩
      intro x tl' e
      injection e with e1 _
      subst e1
      simpa using h

/-! ### `%f` -/
theorem pad6_digits (n : Nat) : ∀ d ∈ pad6 n, 48 ≤ d ∧ d ≤ 57 := by
  intro d hd
  simp only [pad6, List.mem_cons, List.not_mem_nil, or_false] at hd
  omega

theorem foldl_dec_append (a b : List Nat) (acc : Nat) :
    (a ++ b).foldl (fun x d => x * 10 + (d - 48)) acc = b.foldl (fun x d => x * 10 + (d - 48)) (a.foldl (fun x d => x * 10 + (d - 48)) acc) :=
  List.foldl_append ..

/-- the decimal value of `digits(a) ++ pad6(b)` is `a * 10^6 + b` -/
theorem value_int_frac (a b : Nat) (hb : b < 1000000) :
    (decDigits a ++ pad6 b).foldl (fun x d => x * 10 + (d - 48)) 0 = a * 1000000 + b := by
  rw [foldl_dec_append, decimalValue_decDigits_aux, shiftIn_zero]
  simp only [pad6, List.foldl_cons, List.foldl_nil]
  omega

theorem roundHalfEven_exact (q d : Nat) (hd : 0 < d) (h : q % d = 0) : roundHalfEven q d * d = q := by
  unfold roundHalfEven
  simp only [h]
  rw [if_pos (by omega)]
  exact Nat.div_mul_cancel (Nat.dvd_of_mod_eq_zero h)

/-- for `e >= -6` the value times 10^6 is an integer: `%f` prints the exact value -/
theorem scaled6_exact (m : Nat) (e : Int) (he : -6 ≤ e) : exactValue (scaled6 m e) 6 m e := by
  unfold exactValue scaled6
  by_cases h0 : 0 ≤ e
  · rw [if_pos h0, if_pos h0]
  · rw [if_neg h0, if_neg h0]
    have hk : (-e).toNat = 1 ∨ (-e).toNat = 2 ∨ (-e).toNat = 3 ∨ (-e).toNat = 4 ∨ (-e).toNat = 5 ∨ (-e).toNat = 6 := by omega
    have hmod : (m * 1000000) % 2 ^ (-e).toNat = 0 := by
      rcases hk with h | h | h | h | h | h <;> rw [h] <;> omega
    have hpos : 0 < 2 ^ (-e).toNat := Nat.pow_pos (by decide)
    rw [roundHalfEven_exact _ _ hpos hmod]

theorem fmtF_nonzero (x : Dbl) : ∀ c ∈ fmtF x, c ≠ 0 := by
  intro c hc
  cases x with
  | fin neg m e =>
    simp only [fmtF, List.mem_append] at hc
    rcases hc with ((hc | hc) | hc) | hc
    · cases neg <;> simp at hc; omega
    · have := decDigits_digits _ c hc; omega
    · simp at hc; omega
    · have := pad6_digits _ c hc; omega
  | inf neg =>
    simp only [fmtF, List.mem_append] at hc
    rcases hc with hc | hc
    · cases neg <;> simp at hc; omega
    · simp at hc; omega
  | nan neg =>
    simp only [fmtF, List.mem_append] at hc
    rcases hc with hc | hc
    · cases neg <;> simp at hc; omega
    · simp at hc; omega

/-! ### `StrtodExact` is satisfiable: the ideal (unrounded) strtod -/
theorem ten_pow (k : Nat) : 10 ^ k = 2 ^ k * 5 ^ k := by
  rw [← Nat.mul_pow]

theorem ideal_eqv (neg : Bool) (num k m : Nat) (e : Int) (h : exactValue num k m e) :
    Dbl.eqv (.fin neg (num / 5 ^ k) (-(k : Int))) (.fin neg m e) := by
  unfold Dbl.eqv
  refine ⟨rfl, ?_⟩
  have h5 : 0 < 5 ^ k := Nat.pow_pos (by decide)
  unfold exactValue at h
  by_cases he : 0 ≤ e
  · rw [if_pos he] at h
    have hmin : min (-(k : Int)) e = -(k : Int) := by omega
    rw [hmin]
    have e1 : (-(k : Int) - -(k : Int)).toNat = 0 := by omega
    have e2 : (e - -(k : Int)).toNat = e.toNat + k := by omega
    rw [e1, e2, h, ten_pow, Nat.pow_add, Nat.pow_zero, Nat.mul_one]
    rw [show m * 2 ^ e.toNat * (2 ^ k * 5 ^ k) = (m * (2 ^ e.toNat * 2 ^ k)) * 5 ^ k by
      simp only [Nat.mul_assoc]]
    rw [Nat.mul_div_cancel _ h5]
  · rw [if_neg he] at h
    have hj : 0 < 2 ^ (-e).toNat := Nat.pow_pos (by decide)
    have hk2 : 0 < 2 ^ k := Nat.pow_pos (by decide)
    rw [ten_pow] at h
    have hdvd : 5 ^ k ∣ num * 2 ^ (-e).toNat := ⟨m * 2 ^ k, by rw [h]; simp only [Nat.mul_assoc, Nat.mul_comm]⟩
    have hcop : Nat.Coprime (5 ^ k) (2 ^ (-e).toNat) := Nat.Coprime.pow _ _ (by decide)
    obtain ⟨q, hq⟩ := Nat.Coprime.dvd_of_dvd_mul_right hcop hdvd
    rw [hq, Nat.mul_div_cancel_left _ h5]
    -- q * 2^j = m * 2^k
    have hqm : q * 2 ^ (-e).toNat = m * 2 ^ k := by
      have : 5 ^ k * (q * 2 ^ (-e).toNat) = 5 ^ k * (m * 2 ^ k) := by
        rw [← Nat.mul_assoc, ← hq, h]; simp only [Nat.mul_assoc, Nat.mul_comm]
      exact Nat.eq_of_mul_eq_mul_left h5 this
    by_cases hjk : (-e).toNat ≤ k
    · have hmin : min (-(k : Int)) e = -(k : Int) := by omega
      rw [hmin]
      have e1 : (-(k : Int) - -(k : Int)).toNat = 0 := by omega
      have e2 : (e - -(k : Int)).toNat = k - (-e).toNat := by omega
      rw [e1, e2, Nat.pow_zero, Nat.mul_one]
      have : k = (k - (-e).toNat) + (-e).toNat := by omega
      rw [this, Nat.pow_add, ← Nat.mul_assoc] at hqm
      have := Nat.eq_of_mul_eq_mul_right hj hqm
      rw [this]
    · have hmin : min (-(k : Int)) e = e := by omega
      rw [hmin]
      have e1 : (-(k : Int) - e).toNat = (-e).toNat - k := by omega
      have e2 : (e - e).toNat = 0 := by omega
      rw [e1, e2, Nat.pow_zero, Nat.mul_one]
      have : (-e).toNat = ((-e).toNat - k) + k := by omega
      rw [this, Nat.pow_add, ← Nat.mul_assoc] at hqm
      have := Nat.eq_of_mul_eq_mul_right hk2 hqm
      rw [← this]

theorem takeWhile_digits (ip rest : List Nat) (h : ∀ d ∈ ip, isDigit d = true)
    (hr : ∀ c tl, rest = c :: tl → isDigit c = false) :
    (ip ++ rest).takeWhile isDigit = ip ∧ (ip ++ rest).dropWhile isDigit = rest := by
  induction ip with
  | nil =>
    cases rest with
    | nil => exact ⟨rfl, rfl⟩
    | cons c tl =>
      have := hr c tl rfl
      simp [this]
  | cons d ds ih =>
    have hd := h d (List.mem_cons_self ..)
    have := ih (fun x hx => h x (List.mem_cons_of_mem _ hx))
    simp [hd, this.1, this.2]

theorem strtodIdeal_exact : StrtodExact strtodIdeal := by
  intro neg ip fp m e hip hne hfp hex _ _ _
  have hhead : ∃ d ds, ip = d :: ds ∧ d ≠ 45 := by
    cases ip with
    | nil => exact absurd rfl hne
    | cons d ds =>
      refine ⟨d, ds, rfl, ?_⟩
      intro h45
      have := hip d (List.mem_cons_self ..)
      rw [h45] at this
      revert this; decide
  obtain ⟨d, ds, eip, hd45⟩ := hhead
  have h46 : ∀ c tl, (46 :: fp) = c :: tl → isDigit c = false := by
    intro c tl h; injection h with h1 _; rw [← h1]; decide
  have hnil : ∀ c tl, ([] : List Nat) = c :: tl → isDigit c = false := by intro c tl h; cases h
  have t1 := takeWhile_digits ip (46 :: fp) hip h46
  have t2 := takeWhile_digits fp [] hfp hnil
  rw [List.append_nil] at t2
  have key : strtodIdeal ((if neg then [45] else []) ++ (ip ++ (46 :: fp))) =
      .fin neg ((ip ++ fp).foldl (fun acc d => acc * 10 + (d - 48)) 0 / 5 ^ fp.length) (-(fp.length : Int)) := by
    unfold strtodIdeal
    cases neg with
    | true =>
      simp only [if_true, List.cons_append, List.nil_append, List.head?_cons, beq_self_eq_true, List.drop_succ_cons,
        List.drop_zero, t1.1, t1.2, t2.1]
    | false =>
      have hh : ((ip ++ 46 :: fp).head? == some 45) = false := by
        rw [eip]; simp [hd45]
      simp only [Bool.false_eq_true, if_false, List.nil_append, hh, t1.1, t1.2, List.drop_succ_cons, List.drop_zero, t2.1]
  rw [key]
  exact ideal_eqv neg _ _ m e hex

end Nstd.Codec
