import Nstd.Codec.LemmasUtf8
import Nstd.Codec.LemmasValid
/-!
  Lemmas relating the sequences `Unicode::isValid` accepts / `Unicode::fromString` decodes to RFC 3629:
  shape of a structurally complete sequence, its value, shortest form, the ABNF.
-/
namespace Nstd.Codec
open Nstd.Generated.Codec

theorem isCont_form (b : Nat) (h : Spec.isCont b = true) : ∃ y, y < 64 ∧ b = 0x80 + y := by
  simp [Spec.isCont] at h
  exact ⟨b - 0x80, by omega, by omega⟩

theorem isCont_of_form (y : Nat) (h : y < 64) : Spec.isCont (0x80 + y) = true := by
  simp [Spec.isCont]; omega

/-- the four shapes of a structurally complete sequence -/
theorem oneSeq_cases (s : List Nat) (h : Spec.oneSeq s = true) :
    (∃ b, s = [b] ∧ b < 128) ∨
    (∃ x y1, s = [0xC0 + x, 0x80 + y1] ∧ x < 32 ∧ y1 < 64) ∨
    (∃ x y1 y2, s = [0xE0 + x, 0x80 + y1, 0x80 + y2] ∧ x < 16 ∧ y1 < 64 ∧ y2 < 64) ∨
    (∃ x y1 y2 y3, s = [0xF0 + x, 0x80 + y1, 0x80 + y2, 0x80 + y3] ∧ x < 8 ∧ y1 < 64 ∧ y2 < 64 ∧ y3 < 64) := by
  cases s with
  | nil => simp [Spec.oneSeq] at h
  | cons b rest =>
    simp only [Spec.oneSeq, Bool.and_eq_true, bne_iff_ne, ne_eq, beq_iff_eq, List.all_eq_true] at h
    obtain ⟨⟨h0, hl⟩, hc⟩ := h
    unfold Spec.seqLen at h0 hl
    by_cases c1 : b < 0x80
    · rw [if_pos c1] at hl
      left
      have : rest = [] := List.eq_nil_of_length_eq_zero (by omega)
      exact ⟨b, by rw [this], c1⟩
    · rw [if_neg c1] at h0 hl
      by_cases c2 : b < 0xC0
      · rw [if_pos c2] at h0; exact absurd rfl h0
      · rw [if_neg c2] at h0 hl
        by_cases c3 : b < 0xE0
        · rw [if_pos c3] at hl
          right; left
          match rest, hl, hc with
          | [b1], _, hc =>
            obtain ⟨y1, hy1, e1⟩ := isCont_form b1 (hc b1 (by simp))
            exact ⟨b - 0xC0, y1, by rw [e1, List.cons.injEq]; exact ⟨by omega, rfl⟩, by omega, hy1⟩
        · rw [if_neg c3] at h0 hl
          by_cases c4 : b < 0xF0
          · rw [if_pos c4] at hl
            right; right; left
            match rest, hl, hc with
            | [b1, b2], _, hc =>
              obtain ⟨y1, hy1, e1⟩ := isCont_form b1 (hc b1 (by simp))
              obtain ⟨y2, hy2, e2⟩ := isCont_form b2 (hc b2 (by simp))
              exact ⟨b - 0xE0, y1, y2, by rw [e1, e2, List.cons.injEq]; exact ⟨by omega, rfl⟩, by omega, hy1, hy2⟩
          · rw [if_neg c4] at h0 hl
            by_cases c5 : b < 0xF8
            · rw [if_pos c5] at hl
              right; right; right
              match rest, hl, hc with
              | [b1, b2, b3], _, hc =>
                obtain ⟨y1, hy1, e1⟩ := isCont_form b1 (hc b1 (by simp))
                obtain ⟨y2, hy2, e2⟩ := isCont_form b2 (hc b2 (by simp))
                obtain ⟨y3, hy3, e3⟩ := isCont_form b3 (hc b3 (by simp))
                exact ⟨b - 0xF0, y1, y2, y3, by rw [e1, e2, e3, List.cons.injEq]; exact ⟨by omega, rfl⟩, by omega, hy1, hy2, hy3⟩
            · rw [if_neg c5] at h0; exact absurd rfl h0

theorem utf8_len (cp : Nat) : (Spec.utf8 cp).length =
    if cp < 0x80 then 1 else if cp < 0x800 then 2 else if cp < 0x10000 then 3 else 4 := by
  unfold Spec.utf8
  by_cases h1 : cp < 0x80
  · simp [h1]
  · by_cases h2 : cp < 0x800
    · simp [h1, h2]
    · by_cases h3 : cp < 0x10000
      · simp [h1, h2, h3]
      · simp [h1, h2, h3]

theorem toString_eq (cp : Nat) (h : cp < 0x110000) : toString cp = Spec.utf8 cp := by
  unfold toString; rw [append_eq cp h]

theorem toString_above (cp : Nat) (h : 0x110000 ≤ cp) (h2 : cp < 2 ^ 64) : toString cp = [] := by
  unfold toString; rw [append_none cp h h2]

theorem sv1 (b0 : Nat) : Spec.seqValue [b0] = b0 := rfl
theorem sv2 (b0 b1 : Nat) : Spec.seqValue [b0, b1] = (b0 - 0xC0) * 64 + (b1 - 0x80) := rfl
theorem sv3 (b0 b1 b2 : Nat) : Spec.seqValue [b0, b1, b2] = (b0 - 0xE0) * 4096 + (b1 - 0x80) * 64 + (b2 - 0x80) := rfl
theorem sv4 (b0 b1 b2 b3 : Nat) : Spec.seqValue [b0, b1, b2, b3] =
    (b0 - 0xF0) * 262144 + (b1 - 0x80) * 4096 + (b2 - 0x80) * 64 + (b3 - 0x80) := rfl
theorem sh1 (b0 : Nat) : Spec.shortest [b0] = true := rfl
theorem sh2 (b0 b1 : Nat) : Spec.shortest [b0, b1] = decide (0x80 ≤ Spec.seqValue [b0, b1]) := rfl
theorem sh3 (b0 b1 b2 : Nat) : Spec.shortest [b0, b1, b2] = decide (0x800 ≤ Spec.seqValue [b0, b1, b2]) := rfl
theorem sh4 (b0 b1 b2 b3 : Nat) : Spec.shortest [b0, b1, b2, b3] =
    (decide (0x10000 ≤ Spec.seqValue [b0, b1, b2, b3]) && decide (Spec.seqValue [b0, b1, b2, b3] < 0x110000)) := rfl

theorem seqLen_1 (b : Nat) (h : b < 0x80) : Spec.seqLen b = 1 := by
  unfold Spec.seqLen; rw [if_pos h]
theorem seqLen_2 (b : Nat) (h1 : 0xC0 ≤ b) (h2 : b < 0xE0) : Spec.seqLen b = 2 := by
  unfold Spec.seqLen; rw [if_neg (by omega), if_neg (by omega), if_pos h2]
theorem seqLen_3 (b : Nat) (h1 : 0xE0 ≤ b) (h2 : b < 0xF0) : Spec.seqLen b = 3 := by
  unfold Spec.seqLen; rw [if_neg (by omega), if_neg (by omega), if_neg (by omega), if_pos h2]
theorem seqLen_4 (b : Nat) (h1 : 0xF0 ≤ b) (h2 : b < 0xF8) : Spec.seqLen b = 4 := by
  unfold Spec.seqLen; rw [if_neg (by omega), if_neg (by omega), if_neg (by omega), if_neg (by omega), if_pos h2]

theorem oneSeq_unfold (b : Nat) (rest : List Nat) : Spec.oneSeq (b :: rest) =
    (Spec.seqLen b != 0 && rest.length + 1 == Spec.seqLen b && rest.all Spec.isCont) := rfl

theorem ab1 (b0 : Nat) : Spec.abnfSeq [b0] = decide (b0 ≤ 0x7F) := rfl
theorem ab2 (b0 b1 : Nat) : Spec.abnfSeq [b0, b1] = (decide (0xC2 ≤ b0) && decide (b0 ≤ 0xDF) && Spec.isCont b1) := rfl
theorem ab3 (b0 b1 b2 : Nat) : Spec.abnfSeq [b0, b1, b2] =
    (((b0 == 0xE0 && decide (0xA0 ≤ b1) && decide (b1 ≤ 0xBF)) || (decide (0xE1 ≤ b0) && decide (b0 ≤ 0xEC) && Spec.isCont b1) ||
      (b0 == 0xED && decide (0x80 ≤ b1) && decide (b1 ≤ 0x9F)) || (decide (0xEE ≤ b0) && decide (b0 ≤ 0xEF) && Spec.isCont b1)) && Spec.isCont b2) := rfl
theorem ab4 (b0 b1 b2 b3 : Nat) : Spec.abnfSeq [b0, b1, b2, b3] =
    (((b0 == 0xF0 && decide (0x90 ≤ b1) && decide (b1 ≤ 0xBF)) || (decide (0xF1 ≤ b0) && decide (b0 ≤ 0xF3) && Spec.isCont b1) ||
      (b0 == 0xF4 && decide (0x80 ≤ b1) && decide (b1 ≤ 0x8F))) && Spec.isCont b2 && Spec.isCont b3) := rfl
theorem isCont_iff (b : Nat) : Spec.isCont b = true ↔ 0x80 ≤ b ∧ b ≤ 0xBF := by
  unfold Spec.isCont
  rw [Bool.and_eq_true, decide_eq_true_eq, decide_eq_true_eq]
theorem isSurrogate_false_iff (v : Nat) : Spec.isSurrogate v = false ↔ ¬ (0xD800 ≤ v ∧ v ≤ 0xDFFF) := by
  unfold Spec.isSurrogate
  rw [← Bool.not_eq_true, Bool.and_eq_true, decide_eq_true_eq, decide_eq_true_eq]

end Nstd.Codec
