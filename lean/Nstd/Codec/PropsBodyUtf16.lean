import Nstd.Codec.PropsBody
/-!
  Property C18: the `_UNICODE` (UTF-16) branch of `Unicode::append(uint32, String&)` (Unicode.hpp:30-47).  It is not compiled
  on this platform, so no correspondence run can reach it; tools/gen_codec.py translates it (the same body translator, with
  `_UNICODE` defined and `tchar` = 16 bits) into `Nstd.Generated.CodecBody.append_utf16`, and the theorem below states that the
  translated code is the UTF-16 encoding form of RFC 2781 §2.1 for EVERY `uint32` value: one unit for U+0000..U+FFFF outside
  the surrogate range, the surrogate pair `D800 + (U-0x10000)/2^10, DC00 + (U-0x10000) mod 2^10` up to U+10FFFF, nothing
  appended and `false` for surrogate code points and above U+10FFFF.  The tie of this branch is the translation ALONE.
-/
set_option linter.unusedSimpArgs false
namespace Nstd.Codec
open Nstd.Generated

/-- RFC 2781 §2.1 (encoding), `none` = not encodable (surrogate code point or > U+10FFFF) -/
def Spec.utf16 (cp : Nat) : Option (List Nat) :=
  if cp < 0x10000 then (if 0xD800 ≤ cp ∧ cp ≤ 0xDFFF then none else some [cp])
  else if cp < 0x110000 then some [0xD800 + (cp - 0x10000) / 1024, 0xDC00 + (cp - 0x10000) % 1024]
  else none

theorem lowbits : ∀ r, r < 2048 → r &&& 0xF800 = 0 := by decide +kernel
theorem hibits : ∀ q, q < 32 → (((2048 * q) &&& 0xF800 ≠ 0xD800) ↔ q ≠ 27) := by decide +kernel
theorem surrogate_mask_qr (q : Nat) (hq : q < 32) (r : Nat) (hr : r < 2048) :
    (((2048 * q + r) &&& 0xF800 ≠ 0xD800) ↔ q ≠ 27) := by
  have e : 2048 * q + r = 2048 * q ||| r := Nat.two_pow_add_eq_or_of_lt (i := 11) hr q
  rw [e, Nat.and_or_distrib_right, lowbits r hr, Nat.or_zero]
  exact hibits q hq

theorem surrogate_mask (ch : Nat) (h : ch < 65536) : ((ch &&& 0xF800 ≠ 0xD800) ↔ ¬ (0xD800 ≤ ch ∧ ch ≤ 0xDFFF)) := by
  have e : ch = 2048 * (ch / 2048) + ch % 2048 := by omega
  have := surrogate_mask_qr (ch / 2048) (by omega) (ch % 2048) (by omega)
  rw [← e] at this
  rw [this]
  omega
theorem hi_or : ∀ y, y < 1024 → y ||| 0xD800 = 0xD800 + y := by decide +kernel
theorem lo_or : ∀ y, y < 1024 → y ||| 0xDC00 = 0xDC00 + y := by decide +kernel

theorem utf16_agrees (ch : Nat) (h32 : ch < 4294967296) (str : List Nat) :
    CodecBody.append_utf16 ch str = .ok (match Spec.utf16 ch with
      | some ws => (true, str ++ ws)
      | none => (false, str)) := by
  have hm := mask_zero_iff 16 (by omega) ch (by omega)
  simp only [Nat.reducePow, Nat.reduceSub] at hm
  unfold CodecBody.append_utf16 Spec.utf16
  simp only [Nat.reduceSub, hm]
  by_cases h16 : ch < 65536
  · simp only [h16, if_true, surrogate_mask ch h16]
    by_cases hs : 0xD800 ≤ ch ∧ ch ≤ 0xDFFF
    · simp [hs]
    · simp [hs, Nat.mod_eq_of_lt h16]
  · simp only [h16, if_false]
    by_cases h21 : ch < 1114112
    · simp only [h21, if_true]
      have e : (ch + 18446744073709551616 - 65536) % 18446744073709551616 % 4294967296 = ch - 65536 := by omega
      have hx : ch - 65536 < 1048576 := by omega
      have h1 : (ch - 65536) >>> 10 = (ch - 65536) / 1024 := Nat.shiftRight_eq_div_pow _ 10
      have h2 : (ch - 65536) &&& 1023 = (ch - 65536) % 1024 := Nat.and_two_pow_sub_one_eq_mod _ 10
      have h3 : (ch - 65536) / 1024 < 1024 := by omega
      have h4 : (ch - 65536) % 1024 < 1024 := by omega
      simp only [e, h1, h2, hi_or _ h3, lo_or _ h4]
      have h5 : (55296 + (ch - 65536) / 1024) % 65536 = 55296 + (ch - 65536) / 1024 := by omega
      simp [h5]
    · simp [h21]

/-- non-vacuity / examples: U+0041, U+FFFD, the first and last supplementary code points, a surrogate, U+110000 -/
example : CodecBody.append_utf16 0x41 [] = .ok (true, [0x41]) := by decide
example : CodecBody.append_utf16 0x10000 [7] = .ok (true, [7, 0xD800, 0xDC00]) := by decide
example : CodecBody.append_utf16 0x10FFFF [] = .ok (true, [0xDBFF, 0xDFFF]) := by decide
example : CodecBody.append_utf16 0xD800 [] = .ok (false, []) := by decide
example : CodecBody.append_utf16 0x110000 [] = .ok (false, []) := by decide

end Nstd.Codec
