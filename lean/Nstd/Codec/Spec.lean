/-!
  Abstract specifications property C18 talks about, written with arithmetic (div / mod) and
  independently of the code: RFC 3629 (UTF-8), upper-case hexadecimal text, RFC 4648 (base64),
  decimal numerals.
-/
namespace Nstd.Codec.Spec

/-- RFC 3629 section 3: the bytes of the UTF-8 encoding of the scalar value `cp`
    (`0xxxxxxx` / `110xxxxx 10xxxxxx` / `1110xxxx 10xxxxxx 10xxxxxx` / `11110xxx 10xxxxxx 10xxxxxx 10xxxxxx`).
    For the surrogate range D800..DFFF this is the "generalized UTF-8" three byte form. -/
def utf8 (cp : Nat) : List Nat :=
  if cp < 0x80 then [cp]
  else if cp < 0x800 then [0xC0 + cp / 64, 0x80 + cp % 64]
  else if cp < 0x10000 then [0xE0 + cp / 4096, 0x80 + cp / 64 % 64, 0x80 + cp % 64]
  else [0xF0 + cp / 262144, 0x80 + cp / 4096 % 64, 0x80 + cp / 64 % 64, 0x80 + cp % 64]

def isCont (b : Nat) : Bool := 0x80 ≤ b && b ≤ 0xBF

/-- length announced by a lead byte (0 = not a lead byte): RFC 3629 section 3 table, first column -/
def seqLen (b : Nat) : Nat :=
  if b < 0x80 then 1 else if b < 0xC0 then 0 else if b < 0xE0 then 2 else if b < 0xF0 then 3
  else if b < 0xF8 then 4 else 0

/-- structural well-formedness of a UTF-8 byte string (RFC 3629 syntax without the restrictions on
    over-long forms, surrogates and values above U+10FFFF): empty, or a lead byte announcing `n` bytes
    followed by `n - 1` continuation bytes and a well-formed rest -/
def wellFormed (l : List Nat) : Bool :=
  match l with
  | [] => true
  | b :: rest =>
    seqLen b != 0 && decide (seqLen b ≤ rest.length + 1) && (rest.take (seqLen b - 1)).all isCont &&
      wellFormed (rest.drop (seqLen b - 1))
termination_by l.length
decreasing_by simp only [List.length_drop, List.length_cons]; omega

/-- one complete sequence: a lead byte announcing `n` bytes followed by exactly `n - 1` continuation bytes -/
def oneSeq (s : List Nat) : Bool :=
  match s with
  | [] => false
  | b :: rest => seqLen b != 0 && rest.length + 1 == seqLen b && rest.all isCont

/-- the number denoted by the payload bits of a sequence (RFC 3629 section 3, read backwards) -/
def seqValue (s : List Nat) : Nat :=
  match s with
  | [b0] => b0
  | [b0, b1] => (b0 - 0xC0) * 64 + (b1 - 0x80)
  | [b0, b1, b2] => (b0 - 0xE0) * 4096 + (b1 - 0x80) * 64 + (b2 - 0x80)
  | [b0, b1, b2, b3] => (b0 - 0xF0) * 262144 + (b1 - 0x80) * 4096 + (b2 - 0x80) * 64 + (b3 - 0x80)
  | _ => 0

/-- shortest form (not over-long) and at most U+10FFFF: what RFC 3629 demands beyond the syntax, apart from the
    exclusion of the surrogates -/
def shortest (s : List Nat) : Bool :=
  match s.length with
  | 1 => true
  | 2 => 0x80 ≤ seqValue s
  | 3 => 0x800 ≤ seqValue s
  | 4 => 0x10000 ≤ seqValue s && seqValue s < 0x110000
  | _ => false

def isSurrogate (v : Nat) : Bool := 0xD800 ≤ v && v ≤ 0xDFFF

/-- RFC 3629 section 4, the ABNF of one character (`UTF8-1 / UTF8-2 / UTF8-3 / UTF8-4`) byte range by byte range -/
def abnfSeq (s : List Nat) : Bool :=
  match s with
  | [b0] => b0 ≤ 0x7F
  | [b0, b1] => 0xC2 ≤ b0 && b0 ≤ 0xDF && isCont b1
  | [b0, b1, b2] =>
    ((b0 == 0xE0 && 0xA0 ≤ b1 && b1 ≤ 0xBF) || (0xE1 ≤ b0 && b0 ≤ 0xEC && isCont b1) ||
      (b0 == 0xED && 0x80 ≤ b1 && b1 ≤ 0x9F) || (0xEE ≤ b0 && b0 ≤ 0xEF && isCont b1)) && isCont b2
  | [b0, b1, b2, b3] =>
    ((b0 == 0xF0 && 0x90 ≤ b1 && b1 ≤ 0xBF) || (0xF1 ≤ b0 && b0 ≤ 0xF3 && isCont b1) ||
      (b0 == 0xF4 && 0x80 ≤ b1 && b1 ≤ 0x8F)) && isCont b2 && isCont b3
  | _ => false

/-- RFC 3629 well-formedness of a byte string: a concatenation of `abnfSeq` characters -/
def rfc3629 (l : List Nat) : Bool :=
  match l with
  | [] => true
  | b :: rest =>
    seqLen b != 0 && decide (seqLen b ≤ rest.length + 1) && abnfSeq (b :: rest.take (seqLen b - 1)) &&
      rfc3629 (rest.drop (seqLen b - 1))
termination_by l.length
decreasing_by simp only [List.length_drop, List.length_cons]; omega

/-- ASCII code of the upper-case hexadecimal digit `n < 16` -/
def upperHexDigit (n : Nat) : Nat := if n < 10 then 48 + n else 55 + n

/-- upper-case hexadecimal text of a byte string: two digits per byte, high nibble first -/
def upperHex : List Nat → List Nat
  | [] => []
  | b :: rest => upperHexDigit (b / 16) :: upperHexDigit (b % 16) :: upperHex rest

/-- value of a hexadecimal digit (either case), `none` for any other byte -/
def hexDigitVal? (c : Nat) : Option Nat :=
  if 48 ≤ c ∧ c ≤ 57 then some (c - 48)
  else if 65 ≤ c ∧ c ≤ 70 then some (c - 55)
  else if 97 ≤ c ∧ c ≤ 102 then some (c - 87)
  else none

/-- the bytes a hexadecimal text denotes (RFC 4648 section 8 read backwards): `none` for an odd length or a non-digit -/
def unhex : List Nat → Option (List Nat)
  | [] => some []
  | [_] => none
  | h :: l :: rest =>
    match hexDigitVal? h, hexDigitVal? l, unhex rest with
    | some a, some b, some r => some ((a * 16 + b) :: r)
    | _, _, _ => none

/-- RFC 4648 table 1: the character of the 6-bit value `i` -/
def b64Char (i : Nat) : Nat :=
  if i < 26 then 65 + i            -- 'A'..'Z'
  else if i < 52 then 97 + (i - 26) -- 'a'..'z'
  else if i < 62 then 48 + (i - 52) -- '0'..'9'
  else if i = 62 then 43            -- '+'
  else 47                           -- '/'

/-- RFC 4648 section 4: 24-bit groups as four characters, `=` padding for the final 8 / 16 bits -/
def rfc4648Encode : List Nat → List Nat
  | [] => []
  | [a] => [b64Char (a / 4), b64Char (a % 4 * 16), 61, 61]
  | [a, b] => [b64Char (a / 4), b64Char (a % 4 * 16 + b / 16), b64Char (b % 16 * 4), 61]
  | a :: b :: c :: rest =>
    b64Char (a / 4) :: b64Char (a % 4 * 16 + b / 16) :: b64Char (b % 16 * 4 + c / 64) :: b64Char (c % 64) ::
      rfc4648Encode rest

/-- inverse of table 1: the 6-bit value of an alphabet character, `none` for every other byte -/
def b64Val? (ch : Nat) : Option Nat :=
  if 65 ≤ ch ∧ ch ≤ 90 then some (ch - 65)
  else if 97 ≤ ch ∧ ch ≤ 122 then some (ch - 71)
  else if 48 ≤ ch ∧ ch ≤ 57 then some (ch + 4)
  else if ch = 43 then some 62
  else if ch = 47 then some 63
  else none

/-- the 6-bit values in front of the first `=` (everything after it is ignored);
    `none` when a byte outside the alphabet comes before any `=` -/
def b64Scan : List Nat → Option (List Nat)
  | [] => some []
  | b :: rest =>
    if b = 61 then some []
    else match b64Val? b with
      | none => none
      | some v => (b64Scan rest).map (v :: ·)

/-- the complete bytes of the concatenated 6-bit values (a trailing incomplete byte is dropped) -/
def decodeVals : List Nat → List Nat
  | a :: b :: c :: d :: rest => (a * 4 + b / 16) :: (b % 16 * 16 + c / 4) :: (c % 4 * 64 + d) :: decodeVals rest
  | [a, b, c] => [a * 4 + b / 16, b % 16 * 16 + c / 4]
  | [a, b] => [a * 4 + b / 16]
  | _ => []

/-- what `String::fromBase64` returns for an ARBITRARY byte string: the empty string when the length is
    not a multiple of four or a byte outside the alphabet precedes the first `=`, otherwise the complete
    bytes encoded by the symbols in front of the first `=` -/
def b64Decode (inp : List Nat) : List Nat :=
  if inp.length % 4 ≠ 0 then []
  else match b64Scan inp with
    | none => []
    | some vs => decodeVals vs

/-- value of a decimal numeral given as ASCII digits, most significant first -/
def decimalValue (ds : List Nat) : Nat := ds.foldl (fun acc d => acc * 10 + (d - 48)) 0

/-- saturation of a mathematical value to the range of a signed type (what C11 7.22.1.4 prescribes for
    `strtol`/`strtoll` when the correct value is outside the range of representable values) -/
def clamp (lo hi v : Int) : Int := if v < lo then lo else if hi < v then hi else v

/-- the text starts with a decimal digit -/
def headIsDigit : List Nat → Bool
  | [] => false
  | c :: _ => 48 ≤ c && c ≤ 57

/-- a text that holds no number in the sense of C11 7.22.1.4 once the white space is removed: empty, or a first
    char that is neither white space nor a digit and - when it is a sign - is not followed by a digit -/
def noNumber : List Nat → Bool
  | [] => true
  | c :: tl => !(c = 32 || (9 ≤ c && c ≤ 13)) && !(48 ≤ c && c ≤ 57) && (!(c = 43 || c = 45) || !headIsDigit tl)

end Nstd.Codec.Spec
