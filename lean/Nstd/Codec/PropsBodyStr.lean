import Nstd.Codec.PropsBody
import Nstd.Codec.LemmasStr
/-!
  Property C18, tie by translation, part 2: the bodies of `String::fromHex` and `String::fromBase64` (src/String.cpp) as
  translated by tools/gen_codec.py (`Nstd.Generated.CodecBody.fromHex`, `.fromBase64`: the loops as recursive functions on
  fuel, pointer steps, checked alphabet / table reads, checked stores into the result block, `result.reserve(E)` /
  `result.resize(j)` under the buffer protocol of the model) are the model functions `fromHex` / `fromBase64` of
  Model.lean on every input.  The proof of the base64 loop does not depend on the order of the per-byte tests (both sides
  are read off the same statements; the script splits every test and closes the leaves), so the restructured spelling of
  harmless change C18-h1 is re-proved by the same script.
-/
set_option linter.unusedSimpArgs false
set_option linter.unusedVariables false
namespace Nstd.Codec
open Nstd.Generated.Codec
open Nstd.Generated

theorem body_hex_table : CodecBody.fromHex_tab1 = hexAlphabet := by decide

theorem body_fromHex_loop :
    ∀ (rest pre : List Nat) (fuel d : Nat) (out : List Nat), rest.length < fuel →
      CodecBody.fromHex_loop1 (pre ++ rest) (pre ++ rest).length fuel pre.length (pre ++ rest).length out d =
        fromHexLoop rest d out := by
  intro rest
  induction rest with
  | nil =>
    intro pre fuel d out hf
    cases fuel with
    | zero => simp at hf
    | succ n => simp [CodecBody.fromHex_loop1, fromHexLoop]
  | cons b rest ih =>
    intro pre fuel d out hf
    cases fuel with
    | zero => simp at hf
    | succ n =>
      unfold CodecBody.fromHex_loop1 fromHexLoop
      have hlt : pre.length < (pre ++ b :: rest).length := by simp
      have hrd : rdR (pre ++ b :: rest) (pre ++ b :: rest).length pre.length = .ok b := by
        simp [rdR, rd]
      simp only [hlt, if_true, hrd, Res.bind_ok, body_hex_table, hexHi, hexLo]
      have e : pre ++ b :: rest = (pre ++ [b]) ++ rest := by simp
      have e2 : pre.length + 1 = (pre ++ [b]).length := by simp
      rw [e, e2]
      cases h1 : rd hexAlphabet (b >>> 4) with
      | oob => simp
      | ok h =>
        simp only [Res.bind_ok]
        cases h2 : wr out d h with
        | oob => simp
        | ok o1 =>
          simp only [Res.bind_ok]
          cases h3 : rd hexAlphabet (b &&& 15) with
          | oob => simp
          | ok l =>
            simp only [Res.bind_ok]
            cases h4 : wr o1 (d + 1) l with
            | oob => simp
            | ok o2 =>
              simp only [Res.bind_ok]
              exact ih (pre ++ [b]) n (d + 2) o2 (by simpa using hf)

theorem body_fromHex (data : List Nat) (fuel : Nat) (h2 : data.length * 2 < 18446744073709551616) (hf : data.length < fuel) :
    CodecBody.fromHex fuel data data.length 0 data.length = fromHex data := by
  unfold CodecBody.fromHex fromHex
  have := body_fromHex_loop data [] fuel 0 (List.replicate (data.length * 2) 0) hf
  simp only [List.nil_append, List.length_nil, Nat.zero_add] at this ⊢
  rw [Nat.mod_eq_of_lt h2]
  exact this

theorem body_b64_table : CodecBody.fromBase64_tab1 = base64de := by decide

/-- what `fromBase64` does with the outcome of the loop: `return String()` / `result.resize(j); return result;` -/
def b64Finish (r : Option (Nat × List Nat)) : Res (List Nat) :=
  match r with
  | none => .ok []
  | some (j, out) => if j ≤ out.length then .ok (out.take j) else .oob

theorem Res.bind_assoc {α β γ : Type} (r : Res α) (f : α → Res β) (g : β → Res γ) :
    (r.bind f).bind g = r.bind fun a => (f a).bind g := by
  cases r <;> rfl

theorem rdTable_nat (t : List Nat) (b : Nat) : rdTable t (b : Int) = rd t b := by
  simp [rdTable]

theorem body_b64_loop :
    ∀ (rest pre : List Nat) (fuel j : Nat) (out : List Nat), rest.length < fuel →
      CodecBody.fromBase64_loop1 fuel pre.length (pre ++ rest).length (pre ++ rest) j out =
        (b64Loop rest pre.length j out).bind b64Finish := by
  intro rest
  induction rest with
  | nil =>
    intro pre fuel j out hf
    cases fuel with
    | zero => simp at hf
    | succ n => simp [CodecBody.fromBase64_loop1, b64Loop, b64Finish]
  | cons b rest ih =>
    intro pre fuel j out hf
    cases fuel with
    | zero => simp at hf
    | succ n =>
      unfold CodecBody.fromBase64_loop1 b64Loop
      have hlt : pre.length < (pre ++ b :: rest).length := by simp
      have hrd : rdR ((pre ++ b :: rest) ++ [0]) (pre ++ b :: rest).length pre.length = .ok b := by
        simp [rdR, rd]
      have e : pre ++ b :: rest = (pre ++ [b]) ++ rest := by simp
      have e2 : pre.length + 1 = (pre ++ [b]).length := by simp
      have ihn := fun j out => ih (pre ++ [b]) n j out (by simpa using hf)
      simp only [hlt, if_true, hrd, Res.bind_ok, body_b64_table, b64Byte, rdTable_nat, decide_eq_true_eq]
      rw [e, e2]
      simp only [ihn]
      cases hrd2 : rd base64de b <;>
        simp only [Res.bind_ok, Res.bind_oob, b64Switch, b64Phase, b64Set0, b64Set1, b64Set2, b64Or1, b64Or2, b64Or3, and3,
          Res.bind_assoc]
      all_goals clear hrd2 ihn ih
      all_goals repeat' (first
        | rfl
        | (exfalso; omega; done)
        | split
        | (simp only [Res.bind_ok, Res.bind_oob, Res.bind_assoc, b64Finish]))
theorem b64Finish_eq : (fun r : Option (Nat × List Nat) => match r with
      | none => Res.ok []
      | some (j, out) => if j ≤ out.length then Res.ok (out.take j) else Res.oob) = b64Finish := by
  funext r
  cases r with
  | none => rfl
  | some p => cases p; rfl

theorem body_fromBase64 (inp : List Nat) (fuel : Nat) (hl : inp.length < 18446744073709551616) (hf : inp.length < fuel) :
    CodecBody.fromBase64 fuel inp = fromBase64 inp := by
  unfold CodecBody.fromBase64 fromBase64 b64LenRejects b64Reserve
  simp only [decide_eq_true_eq, b64Finish_eq]
  have := body_b64_loop inp [] fuel 0
  simp only [List.nil_append, List.length_nil] at this
  split
  · rfl
  · first
      | exact this _ hf
      | (rw [Nat.mod_eq_of_lt (by omega)]; exact this _ hf)
end Nstd.Codec
