import Nstd.Str.PropsBody2
import Nstd.Str.LemmasTotal2
import Nstd.Codec.PropsNum
import Nstd.Generated.CodecNum
/-!
  Property C18: `fromInt / fromUInt / fromInt64 / fromUInt64 / fromDouble` THROUGH THE TRANSLATED formatting path.

  `String String::fromX(T value) { String result; result.printf("<conv>", value); return result; }` — the wrapper (which
  conversion, which argument) is `Nstd.Generated.CodecNum.fromX` (tools/gen_codec.py part 3, `body_fromInt` …), and
  `String::printf` itself — `detach(0, 200)`, first `vsnprintf` into the capacity, the success test, the length query, the
  second `detach` and `vsnprintf`, `data->len = result` — is `Nstd.Str.Generated.Body.printf`, which the Str area's
  translator (tools/gen_str.py) reads off the CURRENT src/String.cpp and which `Nstd.Str.printf_translated` proves equal to the
  Str model's `printfOut` on every state satisfying the String invariant.  libc enters as ONE stated definition on each side,
  and they agree: `Nstd.Str.Mach.vsnprintf` (stores at most `size - 1` chars and a NUL, the value is the length of the full
  text) and the text of the conversion (`fmtSigned` for `%d` / `%lld`, `decDigits` for `%u` / `%llu`, `fmtF` for `%f`).

  The theorems say: running the translated `String::printf` on ANY String variable of ANY state that satisfies the invariant
  (in particular on the fresh `String result;`) with the text of the conversion succeeds, returns the length of the text,
  leaves every other String untouched and makes the value of the variable EXACTLY `CodecNum.fromX value` — which is the
  canonical numeral of the value, with `-` and the digits of the magnitude for negative values, for EVERY value incl.
  `INT_MIN` / `INT64_MIN` (no negation in the type happens anywhere on this path; seeded change C18-8 replaces the path by a
  hand formatter that negates `INT_MIN`: the numeric translator refuses it and UBSan reports `fi32 80000000`).
  This closes the `String::printf` item of the OPEN block of PropsBodyNum.lean; `String::fromPrintf` (a second copy of the
  two-attempt algorithm, String.cpp:58-97, not translated by either area) stays there.
-/
namespace Nstd.Codec
open Nstd.Generated

/-- The translated `String::printf` (Str area, from the current String.cpp) on the variable `v` of any state with the String
    invariant, for ANY text `out` the libc formatter produces: it does not fault, returns `out.length`, the value of `v`
    becomes `out`, all other variables keep their values, the invariant holds again — and that value is what the Codec
    model's hand translation `printf printfCap out` says. -/
theorem translated_printf_value {s : Nstd.Str.St} (h : Nstd.Str.Inv s) {v : Nat} (hv : v < s.n) (out : List Nat) :
    ∃ s', Nstd.Str.Generated.Body.printf s v out = some (s', (out.length : Int)) ∧
      Nstd.Str.absVar s' v = (printf printfCap out).map some ∧
      (∀ w, w ≠ v → Nstd.Str.absVar s' w = Nstd.Str.absVar s w) ∧ Nstd.Str.Inv s' := by
  obtain ⟨⟨s', r⟩, hr⟩ := Nstd.Str.printfOut_some h hv out
  obtain ⟨E, rfl⟩ := Nstd.Str.eff_printfOut h hv hr
  refine ⟨s', ?_, ?_, E.other, E.inv⟩
  · rw [Nstd.Str.printf_translated h hv out, hr]; rfl
  · rw [E.self, printf_eq]

/-- `fromInt64` / `fromInt` through the translated path, for EVERY value (also `INT64_MIN`, `INT_MIN`): the String holds
    `-` + the digits of `|v|` resp. the digits of `v` -/
theorem fromInt64_through_translated_printf (x : Int) {s : Nstd.Str.St} (h : Nstd.Str.Inv s) {v : Nat} (hv : v < s.n) :
    ∃ s', Nstd.Str.Generated.Body.printf s v (fmtSigned x) = some (s', ((CodecNum.fromInt64 x).length : Int)) ∧
      Nstd.Str.absVar s' v = (CodecNum.fromInt64 x).map some ∧
      CodecNum.fromInt x = CodecNum.fromInt64 x ∧
      CodecNum.fromInt64 x = (if x < 0 then 45 :: decDigits (-x).toNat else decDigits x.toNat) := by
  obtain ⟨s', h1, h2, _, _⟩ := translated_printf_value h hv (fmtSigned x)
  have e : CodecNum.fromInt64 x = fmtSigned x := printf_eq _ _
  refine ⟨s', ?_, ?_, rfl, (fromInt64_text x).1⟩
  · rw [e]; exact h1
  · rw [h2]; rfl

/-- `fromUInt64` / `fromUInt` through the translated path, for EVERY value: the String holds the canonical numeral -/
theorem fromUInt64_through_translated_printf (n : Nat) {s : Nstd.Str.St} (h : Nstd.Str.Inv s) {v : Nat} (hv : v < s.n) :
    ∃ s', Nstd.Str.Generated.Body.printf s v (decDigits n) = some (s', ((CodecNum.fromUInt64 n).length : Int)) ∧
      Nstd.Str.absVar s' v = (CodecNum.fromUInt64 n).map some ∧
      CodecNum.fromUInt n = CodecNum.fromUInt64 n ∧ CodecNum.fromUInt64 n = decDigits n ∧
      Spec.decimalValue (decDigits n) = n := by
  obtain ⟨s', h1, h2, _, _⟩ := translated_printf_value h hv (decDigits n)
  have e : CodecNum.fromUInt64 n = decDigits n := printf_eq _ _
  refine ⟨s', ?_, ?_, rfl, e, (fromUInt64_text n).2.2.2.1⟩
  · rw [e]; exact h1
  · rw [h2]; rfl

/-- `fromDouble` through the translated path (`%f` of any double, also the texts longer than the first buffer: the second
    attempt of the translated `String::printf` runs, `double_text_second_try`) -/
theorem fromDouble_through_translated_printf (x : Dbl) {s : Nstd.Str.St} (h : Nstd.Str.Inv s) {v : Nat} (hv : v < s.n) :
    ∃ s', Nstd.Str.Generated.Body.printf s v (fmtF x) = some (s', ((CodecNum.fromDouble x).length : Int)) ∧
      Nstd.Str.absVar s' v = (CodecNum.fromDouble x).map some ∧ CodecNum.fromDouble x = fmtF x := by
  obtain ⟨s', h1, h2, _, _⟩ := translated_printf_value h hv (fmtF x)
  have e : CodecNum.fromDouble x = fmtF x := printf_eq _ _
  refine ⟨s', ?_, ?_, e⟩
  · rw [e]; exact h1
  · rw [h2]; rfl

/-- non-vacuity: the initial state of the Str model (three default-constructed Strings) satisfies the hypotheses, and the
    minimum values print what they must -/
example : Nstd.Str.Inv (Nstd.Str.init 3 (fun _ => [])) ∧ 0 < (Nstd.Str.init 3 (fun _ => [])).n :=
  ⟨Nstd.Str.inv_init _ _, by decide⟩
example : CodecNum.fromInt (-2147483648) = [45, 50, 49, 52, 55, 52, 56, 51, 54, 52, 56] :=
  ((fromInt64_text _).2.trans (fromInt64_text _).1).trans (by decide +kernel)
example : CodecNum.fromInt64 (-9223372036854775808) =
    [45, 57, 50, 50, 51, 51, 55, 50, 48, 51, 54, 56, 53, 52, 55, 55, 53, 56, 48, 56] :=
  (fromInt64_text _).1.trans (by decide +kernel)

end Nstd.Codec
