import Nstd.Codec.LemmasRfc
/-!
  Property C18, UTF-8 clause, second part: exactly WHICH sequences the decoder/validator accept and how that language
  relates to RFC 3629.  `Unicode::isValid` decides the structural syntax only (`isValid_spec` in Props.lean); here:
  what `fromString` returns on every structurally complete sequence (also over-long forms, surrogates, values above
  U+10FFFF), that `toString ∘ fromString` is the identity exactly on the shortest forms up to U+10FFFF, that the
  RFC 3629 ABNF is exactly "structurally complete, shortest form, not a surrogate", and that every RFC 3629 string is
  accepted (the inclusion is strict: examples).  Only property theorems and non-vacuity examples.
-/
namespace Nstd.Codec
open Nstd.Generated.Codec

/-- `fromString` on EVERY structurally complete sequence (lead byte + the continuation bytes it announces) returns the
    number denoted by its payload bits - also for over-long forms, surrogates and values above U+10FFFF -/
theorem decode_any_sequence (s : List Nat) (h : Spec.oneSeq s = true) :
    fromString s s.length = .ok (Spec.seqValue s) := by
  rcases oneSeq_cases s h with ⟨b, hs, hb⟩ | ⟨x, y1, hs, hx, h1⟩ | ⟨x, y1, y2, hs, hx, h1, h2⟩ |
    ⟨x, y1, y2, y3, hs, hx, h1, h2, h3⟩
  · subst hs; exact dec1 b hb
  · subst hs
    have := dec2 x (0x80 + y1) hx
    rw [sv2]; simp only [List.length_cons, List.length_nil]
    rw [this]; unfold sub32; apply congrArg Res.ok; omega
  · subst hs
    have := dec3 x (0x80 + y1) (0x80 + y2) hx
    rw [sv3]; simp only [List.length_cons, List.length_nil]
    rw [this]; unfold sub32; apply congrArg Res.ok; omega
  · subst hs
    have := dec4 x (0x80 + y1) (0x80 + y2) (0x80 + y3) hx
    rw [sv4]; simp only [List.length_cons, List.length_nil]
    rw [this]; unfold sub32; apply congrArg Res.ok; omega

/-- `toString(fromString(s)) = s` holds for a structurally complete sequence EXACTLY when it is the shortest form of
    a value up to U+10FFFF (surrogates included: generalized UTF-8); an over-long form is re-encoded shorter, a value
    above U+10FFFF gives the empty string -/
theorem encode_decode_iff (s : List Nat) (h : Spec.oneSeq s = true) :
    toString (Spec.seqValue s) = s ↔ Spec.shortest s = true := by
  rcases oneSeq_cases s h with ⟨b, hs, hb⟩ | ⟨x, y1, hs, hx, h1⟩ | ⟨x, y1, y2, hs, hx, h1, h2⟩ |
    ⟨x, y1, y2, y3, hs, hx, h1, h2, h3⟩
  · subst hs
    rw [sv1, sh1, toString_eq b (by omega)]
    unfold Spec.utf8
    rw [if_pos hb]
    exact ⟨fun _ => rfl, fun _ => rfl⟩
  · subst hs
    have hv : Spec.seqValue [0xC0 + x, 0x80 + y1] = x * 64 + y1 := by rw [sv2]; omega
    rw [sh2, hv, toString_eq _ (by omega), decide_eq_true_eq]
    constructor
    · intro e
      have hl := congrArg List.length e
      rw [utf8_len] at hl
      simp only [List.length_cons, List.length_nil] at hl
      by_cases c : x * 64 + y1 < 0x80
      · rw [if_pos c] at hl; omega
      · omega
    · intro c
      unfold Spec.utf8
      rw [if_neg (by omega), if_pos (by omega)]
      rw [List.cons.injEq, List.cons.injEq]
      exact ⟨by omega, by omega, rfl⟩
  · subst hs
    have hv : Spec.seqValue [0xE0 + x, 0x80 + y1, 0x80 + y2] = x * 4096 + y1 * 64 + y2 := by rw [sv3]; omega
    rw [sh3, hv, toString_eq _ (by omega), decide_eq_true_eq]
    constructor
    · intro e
      have hl := congrArg List.length e
      rw [utf8_len] at hl
      simp only [List.length_cons, List.length_nil] at hl
      by_cases c : x * 4096 + y1 * 64 + y2 < 0x800
      · by_cases c0 : x * 4096 + y1 * 64 + y2 < 0x80
        · rw [if_pos c0] at hl; omega
        · rw [if_neg c0, if_pos c] at hl; omega
      · omega
    · intro c
      unfold Spec.utf8
      rw [if_neg (by omega), if_neg (by omega), if_pos (by omega)]
      rw [List.cons.injEq, List.cons.injEq, List.cons.injEq]
      exact ⟨by omega, by omega, by omega, rfl⟩
  · subst hs
    have hv : Spec.seqValue [0xF0 + x, 0x80 + y1, 0x80 + y2, 0x80 + y3] = x * 262144 + y1 * 4096 + y2 * 64 + y3 := by
      rw [sv4]; omega
    rw [sh4, hv, Bool.and_eq_true, decide_eq_true_eq, decide_eq_true_eq]
    by_cases cbig : x * 262144 + y1 * 4096 + y2 * 64 + y3 < 0x110000
    · rw [toString_eq _ cbig]
      constructor
      · intro e
        have hl := congrArg List.length e
        rw [utf8_len] at hl
        simp only [List.length_cons, List.length_nil] at hl
        refine ⟨?_, cbig⟩
        by_cases c : x * 262144 + y1 * 4096 + y2 * 64 + y3 < 0x10000
        · by_cases c0 : x * 262144 + y1 * 4096 + y2 * 64 + y3 < 0x80
          · rw [if_pos c0] at hl; omega
          · by_cases c1 : x * 262144 + y1 * 4096 + y2 * 64 + y3 < 0x800
            · rw [if_neg c0, if_pos c1] at hl; omega
            · rw [if_neg c0, if_neg c1, if_pos c] at hl; omega
        · omega
      · intro c
        unfold Spec.utf8
        rw [if_neg (by omega), if_neg (by omega), if_neg (by omega)]
        rw [List.cons.injEq, List.cons.injEq, List.cons.injEq, List.cons.injEq]
        exact ⟨by omega, by omega, by omega, by omega, rfl⟩
    · rw [toString_above _ (by omega) (by omega)]
      constructor
      · intro e; cases e
      · intro c; omega

/-- the RFC 3629 ABNF of one character (byte ranges `C2..DF`, `E0 A0..BF`, `ED 80..9F`, `F0 90..BF`, `F4 80..8F`, ...) is
    exactly: structurally complete, shortest form up to U+10FFFF, not a surrogate -/
theorem abnf_iff (s : List Nat) :
    Spec.abnfSeq s = true ↔
      Spec.oneSeq s = true ∧ Spec.shortest s = true ∧ Spec.isSurrogate (Spec.seqValue s) = false := by
  constructor
  · intro h
    match s, h with
    | [b0], h =>
      rw [ab1, decide_eq_true_eq] at h
      rw [oneSeq_unfold, seqLen_1 b0 (by omega), sh1, sv1, isSurrogate_false_iff]
      exact ⟨rfl, rfl, by omega⟩
    | [b0, b1], h =>
      rw [ab2] at h
      simp only [Bool.and_eq_true, decide_eq_true_eq, isCont_iff] at h
      rw [oneSeq_unfold, seqLen_2 b0 (by omega) (by omega), sh2, sv2, isSurrogate_false_iff, decide_eq_true_eq]
      refine ⟨?_, by omega, by omega⟩
      have : Spec.isCont b1 = true := (isCont_iff b1).mpr h.2
      simp [this]
    | [b0, b1, b2], h =>
      rw [ab3] at h
      simp only [Bool.and_eq_true, Bool.or_eq_true, decide_eq_true_eq, isCont_iff, beq_iff_eq] at h
      rw [oneSeq_unfold, seqLen_3 b0 (by omega) (by omega), sh3, sv3, isSurrogate_false_iff, decide_eq_true_eq]
      refine ⟨?_, by omega, by omega⟩
      have c1 : Spec.isCont b1 = true := (isCont_iff b1).mpr (by omega)
      have c2 : Spec.isCont b2 = true := (isCont_iff b2).mpr h.2
      simp [c1, c2]
    | [b0, b1, b2, b3], h =>
      rw [ab4] at h
      simp only [Bool.and_eq_true, Bool.or_eq_true, decide_eq_true_eq, isCont_iff, beq_iff_eq] at h
      rw [oneSeq_unfold, seqLen_4 b0 (by omega) (by omega), sh4, sv4, isSurrogate_false_iff]
      refine ⟨?_, by rw [Bool.and_eq_true, decide_eq_true_eq, decide_eq_true_eq]; omega, by omega⟩
      have c1 : Spec.isCont b1 = true := (isCont_iff b1).mpr (by omega)
      have c2 : Spec.isCont b2 = true := (isCont_iff b2).mpr h.1.2
      have c3 : Spec.isCont b3 = true := (isCont_iff b3).mpr h.2
      simp [c1, c2, c3]
    | [], h => cases h
    | _ :: _ :: _ :: _ :: _ :: _, h => cases h
  · intro ⟨h1, h2, h3⟩
    rcases oneSeq_cases s h1 with ⟨b, hs, hb⟩ | ⟨x, y1, hs, hx, hy1⟩ | ⟨x, y1, y2, hs, hx, hy1, hy2⟩ |
      ⟨x, y1, y2, y3, hs, hx, hy1, hy2, hy3⟩
    · subst hs; rw [ab1, decide_eq_true_eq]; omega
    · subst hs
      rw [sh2, sv2, decide_eq_true_eq] at h2
      rw [ab2, isCont_of_form y1 hy1]
      simp only [Bool.and_eq_true, decide_eq_true_eq, and_true]
      omega
    · subst hs
      rw [sh3, sv3, decide_eq_true_eq] at h2
      rw [sv3, isSurrogate_false_iff] at h3
      rw [ab3, isCont_of_form y1 hy1, isCont_of_form y2 hy2]
      simp only [Bool.and_eq_true, Bool.or_eq_true, decide_eq_true_eq, and_true, beq_iff_eq]
      omega
    · subst hs
      rw [sh4, sv4, Bool.and_eq_true, decide_eq_true_eq, decide_eq_true_eq] at h2
      rw [ab4, isCont_of_form y1 hy1, isCont_of_form y2 hy2, isCont_of_form y3 hy3]
      simp only [Bool.and_eq_true, Bool.or_eq_true, decide_eq_true_eq, and_true, beq_iff_eq]
      omega

/-- the language `Unicode::isValid` accepts, as a language: EXACTLY the concatenations of structurally complete sequences
    (any lead byte 00..7F / C0..DF / E0..EF / F0..F7 followed by the announced number of bytes 80..BF) -/
theorem wellFormed_iff_sequences (l : List Nat) :
    Spec.wellFormed l = true ↔ ∃ seqs : List (List Nat), l = seqs.flatten ∧ ∀ s ∈ seqs, Spec.oneSeq s = true := by
  constructor
  · induction l using Spec.wellFormed.induct with
    | case1 => intro _; exact ⟨[], rfl, by simp⟩
    | case2 b rest ih =>
      intro h
      rw [Spec.wellFormed] at h
      simp only [Bool.and_eq_true, decide_eq_true_eq] at h
      obtain ⟨⟨⟨h0, hl⟩, hc⟩, hr⟩ := h
      obtain ⟨seqs, e, hs⟩ := ih hr
      refine ⟨(b :: rest.take (Spec.seqLen b - 1)) :: seqs, ?_, ?_⟩
      · rw [List.flatten_cons, ← e, List.cons_append, List.take_append_drop]
      · intro s hmem
        rcases List.mem_cons.mp hmem with rfl | hm
        · rw [oneSeq_unfold, h0, hc]
          have hne : Spec.seqLen b ≠ 0 := by simpa using h0
          have : (List.take (Spec.seqLen b - 1) rest).length + 1 = Spec.seqLen b := by
            rw [List.length_take]; omega
          rw [this]; simp
        · exact hs s hm
  · intro ⟨seqs, e, hs⟩
    subst e
    induction seqs with
    | nil => exact wf_nil
    | cons s rest ih =>
      have h1 := hs s (List.mem_cons_self ..)
      have ihr := ih (fun x hx => hs x (List.mem_cons_of_mem _ hx))
      cases s with
      | nil => simp [Spec.oneSeq] at h1
      | cons b tl =>
        rw [oneSeq_unfold] at h1
        simp only [Bool.and_eq_true, beq_iff_eq] at h1
        obtain ⟨⟨h0, hl⟩, hc⟩ := h1
        rw [List.flatten_cons, List.cons_append, Spec.wellFormed]
        have e1 : Spec.seqLen b - 1 = tl.length := by omega
        simp only [Bool.and_eq_true, decide_eq_true_eq]
        refine ⟨⟨⟨h0, by rw [List.length_append]; omega⟩, ?_⟩, ?_⟩
        · rw [e1, List.take_left']; exact hc; rfl
        · rw [e1, List.drop_left']; exact ihr; rfl

/-- ... and for the real function on EVERY byte string -/
theorem isValid_language (bs : List UInt8) :
    isValid (bs.map UInt8.toNat) (bs.map UInt8.toNat).length = .ok true ↔
      ∃ seqs : List (List Nat), bs.map UInt8.toNat = seqs.flatten ∧ ∀ s ∈ seqs, Spec.oneSeq s = true := by
  have hb : ∀ b ∈ bs.map UInt8.toNat, b < 256 := by
    intro b hb
    obtain ⟨x, _, rfl⟩ := List.mem_map.mp hb
    exact x.toNat_lt
  have := isValidLoop_spec _ hb (bs.map UInt8.toNat).length 0 (bs.map UInt8.toNat).length (by omega) (by omega)
  rw [List.drop_zero] at this
  unfold isValid
  rw [this, ← wellFormed_iff_sequences]
  constructor
  · intro h; injection h
  · intro h; rw [h]

/-- `Spec.rfc3629` is the concatenation closure of the RFC 3629 ABNF character -/
theorem rfc3629_iff_sequences (l : List Nat) :
    Spec.rfc3629 l = true ↔ ∃ seqs : List (List Nat), l = seqs.flatten ∧ ∀ s ∈ seqs, Spec.abnfSeq s = true := by
  constructor
  · induction l using Spec.rfc3629.induct with
    | case1 => intro _; exact ⟨[], rfl, by simp⟩
    | case2 b rest ih =>
      intro h
      rw [Spec.rfc3629] at h
      simp only [Bool.and_eq_true, decide_eq_true_eq] at h
      obtain ⟨⟨⟨h0, hl⟩, hc⟩, hr⟩ := h
      obtain ⟨seqs, e, hs⟩ := ih hr
      refine ⟨(b :: rest.take (Spec.seqLen b - 1)) :: seqs, ?_, ?_⟩
      · rw [List.flatten_cons, ← e, List.cons_append, List.take_append_drop]
      · intro s hmem
        rcases List.mem_cons.mp hmem with rfl | hm
        · exact hc
        · exact hs s hm
  · intro ⟨seqs, e, hs⟩
    subst e
    induction seqs with
    | nil => rw [List.flatten_nil, Spec.rfc3629]
    | cons s rest ih =>
      have ha := hs s (List.mem_cons_self ..)
      have h1 := ((abnf_iff s).mp ha).1
      have ihr := ih (fun x hx => hs x (List.mem_cons_of_mem _ hx))
      cases s with
      | nil => simp [Spec.oneSeq] at h1
      | cons b tl =>
        rw [oneSeq_unfold] at h1
        simp only [Bool.and_eq_true, beq_iff_eq] at h1
        obtain ⟨⟨h0, hl⟩, hc⟩ := h1
        rw [List.flatten_cons, List.cons_append, Spec.rfc3629]
        have e1 : Spec.seqLen b - 1 = tl.length := by omega
        simp only [Bool.and_eq_true, decide_eq_true_eq]
        refine ⟨⟨⟨h0, by rw [List.length_append]; omega⟩, ?_⟩, ?_⟩
        · rw [e1, List.take_left']; exact ha; rfl
        · rw [e1, List.drop_left']; exact ihr; rfl

/-- every RFC 3629 well-formed byte string is accepted by `Unicode::isValid` (the converse is false: see the examples) -/
theorem rfc3629_accepted (bs : List UInt8) (h : Spec.rfc3629 (bs.map UInt8.toNat) = true) :
    isValid (bs.map UInt8.toNat) (bs.map UInt8.toNat).length = .ok true := by
  have hb : ∀ b ∈ bs.map UInt8.toNat, b < 256 := by
    intro b hb
    obtain ⟨x, _, rfl⟩ := List.mem_map.mp hb
    exact x.toNat_lt
  have key : ∀ l : List Nat, Spec.rfc3629 l = true → Spec.wellFormed l = true := by
    intro l
    induction l using Spec.rfc3629.induct with
    | case1 => intro _; exact wf_nil
    | case2 b rest ih =>
      intro hr
      rw [Spec.rfc3629] at hr
      simp only [Bool.and_eq_true] at hr
      obtain ⟨⟨⟨h0, hl⟩, ha⟩, hrest⟩ := hr
      rw [Spec.wellFormed]
      simp only [Bool.and_eq_true]
      refine ⟨⟨⟨h0, hl⟩, ?_⟩, ih hrest⟩
      have := ((abnf_iff _).mp ha).1
      simp only [Spec.oneSeq, Bool.and_eq_true] at this
      exact this.2
  have := isValidLoop_spec _ hb (bs.map UInt8.toNat).length 0 (bs.map UInt8.toNat).length (by omega) (by omega)
  rw [List.drop_zero, key _ h] at this
  simpa [isValid] using this

/-! what the code accepts beyond RFC 3629 (each is `oneSeq`, hence accepted by `isValid`, by `isValid_spec`) -/
example : Spec.wellFormed [0xC0, 0x80] = true ∧ Spec.rfc3629 [0xC0, 0x80] = false ∧ Spec.seqValue [0xC0, 0x80] = 0 := by
  refine ⟨by simp [Spec.wellFormed, Spec.seqLen, Spec.isCont], by simp [Spec.rfc3629, Spec.seqLen, Spec.abnfSeq], rfl⟩   -- over-long NUL
example : Spec.oneSeq [0xED, 0xA0, 0x80] = true ∧ Spec.abnfSeq [0xED, 0xA0, 0x80] = false ∧
    Spec.seqValue [0xED, 0xA0, 0x80] = 0xD800 ∧ Spec.shortest [0xED, 0xA0, 0x80] = true := by decide     -- surrogate
example : Spec.oneSeq [0xF7, 0xBF, 0xBF, 0xBF] = true ∧ Spec.seqValue [0xF7, 0xBF, 0xBF, 0xBF] = 0x1FFFFF ∧
    Spec.shortest [0xF7, 0xBF, 0xBF, 0xBF] = false := by decide                                          -- above U+10FFFF
example : Spec.abnfSeq [0xE2, 0x82, 0xAC] = true ∧ Spec.seqValue [0xE2, 0x82, 0xAC] = 0x20AC := by decide
example : Spec.rfc3629 [0x41, 0xE2, 0x82, 0xAC] = true := by
  simp [Spec.rfc3629, Spec.seqLen, Spec.abnfSeq, Spec.isCont]

end Nstd.Codec
