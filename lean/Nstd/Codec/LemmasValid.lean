import Nstd.Codec.LemmasUtf8
/-!
  The validator accepts what the encoder emits (C18, extra): byte-wise reading of the
  multi-byte masks `0xc0c0` / `0xc0c0c0` (div/mod, no enumeration), one loop iteration per
  encoded code point, induction over the sequence of code points.
-/
namespace Nstd.Codec
open Nstd.Generated.Codec

theorem or_shl8 (a b : Nat) (ha : a < 256) : a ||| (b <<< 8) = a + b * 256 := by
  rw [Nat.or_comm, ← Nat.shiftLeft_add_eq_or_of_lt (show a < 2 ^ 8 from ha) b, Nat.shiftLeft_eq]
  omega

theorem or_shl16 (a c : Nat) (ha : a < 65536) : a ||| (c <<< 16) = a + c * 65536 := by
  rw [Nat.or_comm, ← Nat.shiftLeft_add_eq_or_of_lt (show a < 2 ^ 16 from ha) c, Nat.shiftLeft_eq]
  omega

/-! the generated continuation-byte tests of `isValid` say what the lemmas below reason about -/
theorem validBad2_eq (b1 : Nat) : validBad2 b1 = decide (b1 &&& 0xc0 ≠ 0x80) := rfl
theorem validBad3_eq (b1 b2 : Nat) : validBad3 b1 b2 = decide ((b1 ||| (b2 <<< 8)) &&& 0xc0c0 ≠ 0x8080) := rfl
theorem validBad4_eq (b1 b2 b3 : Nat) :
    validBad4 b1 b2 b3 = decide ((b1 ||| (b2 <<< 8) ||| (b3 <<< 16)) &&& 0xc0c0c0 ≠ 0x808080) := rfl

theorem cont_ok : ∀ y, y < 64 → (0x80 + y) &&& 0xc0 = 0x80 := by decide

/-- `x & 0xc0c0` byte-wise -/
theorem mask2 (a b : Nat) (ha : a < 256) (_hb : b < 256) (h1 : a &&& 0xc0 = 0x80) (h2 : b &&& 0xc0 = 0x80) :
    (a ||| (b <<< 8)) &&& 0xc0c0 = 0x8080 := by
  rw [or_shl8 a b ha]
  have lo : ((a + b * 256) &&& 0xc0c0) % 2 ^ 8 = 0x80 := by
    rw [Nat.and_mod_two_pow]
    have : (a + b * 256) % 2 ^ 8 = a := by omega
    rw [this]; exact h1
  have hi : ((a + b * 256) &&& 0xc0c0) / 2 ^ 8 = 0x80 := by
    rw [Nat.and_div_two_pow]
    have : (a + b * 256) / 2 ^ 8 = b := by omega
    rw [this]; exact h2
  omega

theorem mask3 (a b c : Nat) (ha : a < 256) (hb : b < 256) (_hc : c < 256) (h1 : a &&& 0xc0 = 0x80)
    (h2 : b &&& 0xc0 = 0x80) (h3 : c &&& 0xc0 = 0x80) :
    (a ||| (b <<< 8) ||| (c <<< 16)) &&& 0xc0c0c0 = 0x808080 := by
  rw [or_shl8 a b ha, or_shl16 _ c (by omega)]
  have lo : ((a + b * 256 + c * 65536) &&& 0xc0c0c0) % 2 ^ 16 = 0x8080 := by
    rw [Nat.and_mod_two_pow]
    have : (a + b * 256 + c * 65536) % 2 ^ 16 = a + b * 256 := by omega
    rw [this, ← or_shl8 a b ha]
    exact mask2 a b ha hb h1 h2
  have hi : ((a + b * 256 + c * 65536) &&& 0xc0c0c0) / 2 ^ 16 = 0x80 := by
    rw [Nat.and_div_two_pow]
    have : (a + b * 256 + c * 65536) / 2 ^ 16 = c := by omega
    rw [this]; exact h3
  omega

theorem rdR_of_drop {mem : List Nat} {end_ p i b : Nat} (h : (mem.drop p)[i]? = some b) (hlt : p + i < end_) :
    rdR mem end_ (p + i) = .ok b := by
  unfold rdR rd
  rw [if_pos hlt]
  rw [List.getElem?_drop] at h
  rw [h]

theorem valid_step1 (mem rest : List Nat) (end_ p len b : Nat) (hd : mem.drop p = b :: rest) (hb : b < 128)
    (hp : p + 1 ≤ end_) (hl : p + len = end_) :
    isValidLoop mem end_ p len = isValidLoop mem end_ (p + 1) (len - 1) := by
  have r0 : rdR mem end_ p = .ok b := rdR_of_drop (i := 0) (by rw [hd]; rfl) (by omega)
  have hlt : p < end_ := by omega
  have hlen : ¬ len < 1 := by omega
  rw [isValidLoop]
  simp [hlt, r0, len_ascii b hb, hlen]

theorem valid_step2 (mem rest : List Nat) (end_ p len x y : Nat)
    (hd : mem.drop p = (0xC0 + x) :: (0x80 + y) :: rest) (hx : x < 32) (hy : y < 64)
    (hp : p + 2 ≤ end_) (hl : p + len = end_) :
    isValidLoop mem end_ p len = isValidLoop mem end_ (p + 2) (len - 2) := by
  have r0 : rdR mem end_ p = .ok (0xC0 + x) := rdR_of_drop (i := 0) (by rw [hd]; rfl) (by omega)
  have r1 : rdR mem end_ (p + 1) = .ok (0x80 + y) := rdR_of_drop (i := 1) (by rw [hd]; rfl) (by omega)
  have hlt : p < end_ := by omega
  have hlen : ¬ len < 2 := by omega
  rw [isValidLoop]
  simp [hlt, r0, r1, len2 x hx, hlen, cont_ok y hy, validBad2_eq]

theorem valid_step3 (mem rest : List Nat) (end_ p len x y z : Nat)
    (hd : mem.drop p = (0xE0 + x) :: (0x80 + y) :: (0x80 + z) :: rest) (hx : x < 16) (hy : y < 64) (hz : z < 64)
    (hp : p + 3 ≤ end_) (hl : p + len = end_) :
    isValidLoop mem end_ p len = isValidLoop mem end_ (p + 3) (len - 3) := by
  have r0 : rdR mem end_ p = .ok (0xE0 + x) := rdR_of_drop (i := 0) (by rw [hd]; rfl) (by omega)
  have r1 : rdR mem end_ (p + 1) = .ok (0x80 + y) := rdR_of_drop (i := 1) (by rw [hd]; rfl) (by omega)
  have r2 : rdR mem end_ (p + 2) = .ok (0x80 + z) := rdR_of_drop (i := 2) (by rw [hd]; rfl) (by omega)
  have hlt : p < end_ := by omega
  have hlen : ¬ len < 3 := by omega
  have m := mask2 (0x80 + y) (0x80 + z) (by omega) (by omega) (cont_ok y hy) (cont_ok z hz)
  rw [isValidLoop]
  simp [hlt, r0, r1, r2, len3 x hx, hlen, m, validBad3_eq]

theorem valid_step4 (mem rest : List Nat) (end_ p len x y z w : Nat)
    (hd : mem.drop p = (0xF0 + x) :: (0x80 + y) :: (0x80 + z) :: (0x80 + w) :: rest)
    (hx : x < 8) (hy : y < 64) (hz : z < 64) (hw : w < 64)
    (hp : p + 4 ≤ end_) (hl : p + len = end_) :
    isValidLoop mem end_ p len = isValidLoop mem end_ (p + 4) (len - 4) := by
  have r0 : rdR mem end_ p = .ok (0xF0 + x) := rdR_of_drop (i := 0) (by rw [hd]; rfl) (by omega)
  have r1 : rdR mem end_ (p + 1) = .ok (0x80 + y) := rdR_of_drop (i := 1) (by rw [hd]; rfl) (by omega)
  have r2 : rdR mem end_ (p + 2) = .ok (0x80 + z) := rdR_of_drop (i := 2) (by rw [hd]; rfl) (by omega)
  have r3 : rdR mem end_ (p + 3) = .ok (0x80 + w) := rdR_of_drop (i := 3) (by rw [hd]; rfl) (by omega)
  have hlt : p < end_ := by omega
  have hlen : ¬ len < 4 := by omega
  have m := mask3 (0x80 + y) (0x80 + z) (0x80 + w) (by omega) (by omega) (by omega)
    (cont_ok y hy) (cont_ok z hz) (cont_ok w hw)
  rw [isValidLoop]
  simp [hlt, r0, r1, r2, r3, len4 x hx, hlen, m, validBad4_eq]

/-- one encoded code point is consumed by one iteration of the validator -/
theorem valid_step (cp : Nat) (hcp : cp < 0x110000) (mem rest : List Nat) (end_ p len : Nat)
    (hd : mem.drop p = Spec.utf8 cp ++ rest) (hp : p + (Spec.utf8 cp).length ≤ end_) (hl : p + len = end_) :
    isValidLoop mem end_ p len =
      isValidLoop mem end_ (p + (Spec.utf8 cp).length) (len - (Spec.utf8 cp).length) := by
  unfold Spec.utf8 at hd hp ⊢
  by_cases h1 : cp < 0x80
  · rw [if_pos h1] at hd hp ⊢
    exact valid_step1 mem rest end_ p len cp hd h1 hp hl
  · rw [if_neg h1] at hd hp ⊢
    by_cases h2 : cp < 0x800
    · rw [if_pos h2] at hd hp ⊢
      exact valid_step2 mem rest end_ p len _ _ hd (by omega) (by omega) hp hl
    · rw [if_neg h2] at hd hp ⊢
      by_cases h3 : cp < 0x10000
      · rw [if_pos h3] at hd hp ⊢
        exact valid_step3 mem rest end_ p len _ _ _ hd (by omega) (by omega) (by omega) hp hl
      · rw [if_neg h3] at hd hp ⊢
        exact valid_step4 mem rest end_ p len _ _ _ _ hd (by omega) (by omega) (by omega) (by omega) hp hl

/-- the concatenated encodings of any sequence of code points are accepted -/
theorem valid_all (cps : List Nat) : (∀ c ∈ cps, c < 0x110000) → ∀ (pre : List Nat),
    isValidLoop (pre ++ (cps.map Spec.utf8).flatten) (pre ++ (cps.map Spec.utf8).flatten).length pre.length
      ((cps.map Spec.utf8).flatten).length = .ok true := by
  induction cps with
  | nil =>
    intro _ pre
    rw [isValidLoop]
    simp
  | cons c cs ih =>
    intro h pre
    have hc : c < 0x110000 := h c (by simp)
    have hcs : ∀ x ∈ cs, x < 0x110000 := fun x hx => h x (by simp [hx])
    simp only [List.map_cons, List.flatten_cons]
    rw [valid_step c hc _ ((cs.map Spec.utf8).flatten) _ _ _ (by simp) (by simp) (by simp)]
    have := ih hcs (pre ++ Spec.utf8 c)
    simp only [List.append_assoc, List.length_append] at this ⊢
    rw [show (Spec.utf8 c).length + ((cs.map Spec.utf8).flatten).length - (Spec.utf8 c).length
      = ((cs.map Spec.utf8).flatten).length by omega]
    exact this


theorem appendAll_valid (cps : List Nat) (h : ∀ c ∈ cps, c < 0x110000) :
    appendAll cps = (true, (cps.map Spec.utf8).flatten) := by
  induction cps with
  | nil => rfl
  | cons c cs ih =>
    have hc : c < 0x110000 := h c (by simp)
    have hcs : ∀ x ∈ cs, x < 0x110000 := fun x hx => h x (by simp [hx])
    rw [appendAll, ih hcs, append_eq c hc]
    rfl

theorem utf8_nonempty_len (cp : Nat) (h : cp < 0x110000) :
    ∃ b tl, Spec.utf8 cp = b :: tl ∧ utf8Length b = (Spec.utf8 cp).length := by
  unfold Spec.utf8
  by_cases h1 : cp < 0x80
  · rw [if_pos h1]; exact ⟨_, _, rfl, len_ascii cp h1⟩
  · rw [if_neg h1]
    by_cases h2 : cp < 0x800
    · rw [if_pos h2]; exact ⟨_, _, rfl, len2 _ (by omega)⟩
    · rw [if_neg h2]
      by_cases h3 : cp < 0x10000
      · rw [if_pos h3]; exact ⟨_, _, rfl, len3 _ (by omega)⟩
      · rw [if_neg h3]; exact ⟨_, _, rfl, len4 _ (by omega)⟩

/-! ### `isValid` computes the structural well-formedness predicate `Spec.wellFormed` -/
theorem utf8Length_class : ∀ b, b < 256 → utf8Length b =
    (if b < 0x80 then 1 else if b < 0xC0 then 0 else if b < 0xE0 then 2 else if b < 0xF0 then 3
     else if b < 0xF8 then 4 else 0) := by decide +kernel

theorem cont_iff : ∀ a, a < 256 → ((a &&& 0xc0 = 0x80) ↔ Spec.isCont a = true) := by decide +kernel

theorem mask2_iff (a b : Nat) (ha : a < 256) (_hb : b < 256) :
    ((a ||| (b <<< 8)) &&& 0xc0c0 = 0x8080) ↔ (a &&& 0xc0 = 0x80 ∧ b &&& 0xc0 = 0x80) := by
  rw [or_shl8 a b ha]
  have lo : ((a + b * 256) &&& 0xc0c0) % 2 ^ 8 = a &&& 0xc0 := by
    rw [Nat.and_mod_two_pow]
    have : (a + b * 256) % 2 ^ 8 = a := by omega
    rw [this]
  have hi : ((a + b * 256) &&& 0xc0c0) / 2 ^ 8 = b &&& 0xc0 := by
    rw [Nat.and_div_two_pow]
    have : (a + b * 256) / 2 ^ 8 = b := by omega
    rw [this]
  have h1 : a &&& 0xc0 ≤ 0xc0 := Nat.and_le_right
  omega

theorem mask3_iff (a b c : Nat) (ha : a < 256) (hb : b < 256) (_hc : c < 256) :
    ((a ||| (b <<< 8) ||| (c <<< 16)) &&& 0xc0c0c0 = 0x808080) ↔
      (a &&& 0xc0 = 0x80 ∧ b &&& 0xc0 = 0x80 ∧ c &&& 0xc0 = 0x80) := by
  rw [or_shl8 a b ha, or_shl16 _ c (by omega)]
  have lo : ((a + b * 256 + c * 65536) &&& 0xc0c0c0) % 2 ^ 16 = (a ||| (b <<< 8)) &&& 0xc0c0 := by
    rw [Nat.and_mod_two_pow]
    have : (a + b * 256 + c * 65536) % 2 ^ 16 = a + b * 256 := by omega
    rw [this, ← or_shl8 a b ha]
  have hi : ((a + b * 256 + c * 65536) &&& 0xc0c0c0) / 2 ^ 16 = c &&& 0xc0 := by
    rw [Nat.and_div_two_pow]
    have : (a + b * 256 + c * 65536) / 2 ^ 16 = c := by omega
    rw [this]
  have m2 := mask2_iff a b ha hb
  have h1 : (a ||| (b <<< 8)) &&& 0xc0c0 ≤ 0xc0c0 := Nat.and_le_right
  omega


theorem drop_cons {mem : List Nat} {p : Nat} (h : p < mem.length) : mem.drop p = mem[p] :: mem.drop (p + 1) :=
  List.drop_eq_getElem_cons h

theorem loop_end (mem : List Nat) (p len : Nat) (h : ¬ p < mem.length) :
    isValidLoop mem mem.length p len = .ok true := by
  rw [isValidLoop, dif_neg h]

/-- one iteration of the validator, by class of the lead byte -/
theorem loop_step (mem : List Nat) (p len : Nat) (hp : p < mem.length) (hl : p + len = mem.length)
    (hb : mem[p] < 256) :
    isValidLoop mem mem.length p len =
      (if mem[p] < 0x80 then isValidLoop mem mem.length (p + 1) (len - 1)
       else if mem[p] < 0xC0 then .ok false
       else if mem[p] < 0xE0 then
         (if h : p + 1 < mem.length then
            (if mem[p + 1] &&& 0xc0 = 0x80 then isValidLoop mem mem.length (p + 2) (len - 2) else .ok false)
          else .ok false)
       else if mem[p] < 0xF0 then
         (if h : p + 2 < mem.length then
            (if (mem[p + 1] ||| (mem[p + 2] <<< 8)) &&& 0xc0c0 = 0x8080 then
               isValidLoop mem mem.length (p + 3) (len - 3) else .ok false)
          else .ok false)
       else if mem[p] < 0xF8 then
         (if h : p + 3 < mem.length then
            (if (mem[p + 1] ||| (mem[p + 2] <<< 8) ||| (mem[p + 3] <<< 16)) &&& 0xc0c0c0 = 0x808080 then
               isValidLoop mem mem.length (p + 4) (len - 4) else .ok false)
          else .ok false)
       else .ok false) := by
  rw [isValidLoop, dif_pos hp, rdR_ok hp (Nat.le_refl _), Res.bind_ok]
  simp only []
  rw [utf8Length_class _ hb]
  by_cases h1 : mem[p] < 0x80
  · have : ¬ len < 1 := by omega
    simp [h1, this]
  · by_cases h2 : mem[p] < 0xC0
    · simp [h1, h2]
    · by_cases h3 : mem[p] < 0xE0
      · by_cases hn : p + 1 < mem.length
        · have : ¬ len < 2 := by omega
          simp [h1, h2, h3, hn, this, rdR_ok hn (Nat.le_refl _), validBad2_eq]
        · have : len < 2 := by omega
          simp [h1, h2, h3, hn, this]
      · by_cases h4 : mem[p] < 0xF0
        · by_cases hn : p + 2 < mem.length
          · have : ¬ len < 3 := by omega
            have hn1 : p + 1 < mem.length := by omega
            simp [h1, h2, h3, h4, hn, this, rdR_ok hn (Nat.le_refl _), rdR_ok hn1 (Nat.le_refl _), validBad3_eq]
          · have : len < 3 := by omega
            simp [h1, h2, h3, h4, hn, this]
        · by_cases h5 : mem[p] < 0xF8
          · by_cases hn : p + 3 < mem.length
            · have : ¬ len < 4 := by omega
              have hn1 : p + 1 < mem.length := by omega
              have hn2 : p + 2 < mem.length := by omega
              simp [h1, h2, h3, h4, h5, hn, this, rdR_ok hn (Nat.le_refl _), rdR_ok hn1 (Nat.le_refl _),
                rdR_ok hn2 (Nat.le_refl _), validBad4_eq]
            · have : len < 4 := by omega
              simp [h1, h2, h3, h4, h5, hn, this]
          · simp [h1, h2, h3, h4, h5]


theorem drop_nil {mem : List Nat} {p : Nat} (h : ¬ p < mem.length) : mem.drop p = [] :=
  List.drop_eq_nil_of_le (by omega)


theorem wf_nil : Spec.wellFormed [] = true := by rw [Spec.wellFormed]

theorem wf_cons2 (b c1 : Nat) (r : List Nat) (h : Spec.seqLen b = 2) :
    Spec.wellFormed (b :: c1 :: r) = (Spec.isCont c1 && Spec.wellFormed r) := by
  rw [Spec.wellFormed, h]
  simp

theorem wf_cons3 (b c1 c2 : Nat) (r : List Nat) (h : Spec.seqLen b = 3) :
    Spec.wellFormed (b :: c1 :: c2 :: r) = (Spec.isCont c1 && Spec.isCont c2 && Spec.wellFormed r) := by
  rw [Spec.wellFormed, h]
  simp [Bool.and_assoc]

theorem wf_cons4 (b c1 c2 c3 : Nat) (r : List Nat) (h : Spec.seqLen b = 4) :
    Spec.wellFormed (b :: c1 :: c2 :: c3 :: r) =
      (Spec.isCont c1 && Spec.isCont c2 && Spec.isCont c3 && Spec.wellFormed r) := by
  rw [Spec.wellFormed, h]
  simp [Bool.and_assoc]

theorem wf_cons1 (b : Nat) (r : List Nat) (h : Spec.seqLen b = 1) :
    Spec.wellFormed (b :: r) = Spec.wellFormed r := by
  rw [Spec.wellFormed, h]
  simp

theorem wf_cons0 (b : Nat) (r : List Nat) (h : Spec.seqLen b = 0) : Spec.wellFormed (b :: r) = false := by
  rw [Spec.wellFormed, h]
  simp

theorem wf_short (b : Nat) (r : List Nat) (h : r.length + 1 < Spec.seqLen b) : Spec.wellFormed (b :: r) = false := by
  rw [Spec.wellFormed]
  have : ¬ Spec.seqLen b ≤ r.length + 1 := by omega
  simp [this]

theorem wf_step (mem : List Nat) (p : Nat) (hp : p < mem.length) :
    Spec.wellFormed (mem.drop p) =
      (if mem[p] < 0x80 then Spec.wellFormed (mem.drop (p + 1))
       else if mem[p] < 0xC0 then false
       else if mem[p] < 0xE0 then
         (if h : p + 1 < mem.length then Spec.isCont mem[p + 1] && Spec.wellFormed (mem.drop (p + 2)) else false)
       else if mem[p] < 0xF0 then
         (if h : p + 2 < mem.length then
            Spec.isCont mem[p + 1] && Spec.isCont mem[p + 2] && Spec.wellFormed (mem.drop (p + 3)) else false)
       else if mem[p] < 0xF8 then
         (if h : p + 3 < mem.length then
            Spec.isCont mem[p + 1] && Spec.isCont mem[p + 2] && Spec.isCont mem[p + 3] &&
              Spec.wellFormed (mem.drop (p + 4)) else false)
       else false) := by
  rw [drop_cons hp]
  have hlen : (mem.drop (p + 1)).length = mem.length - (p + 1) := List.length_drop
  by_cases h1 : mem[p] < 0x80
  · rw [if_pos h1, wf_cons1 _ _ (by unfold Spec.seqLen; rw [if_pos h1])]
  · rw [if_neg h1]
    by_cases h2 : mem[p] < 0xC0
    · rw [if_pos h2, wf_cons0 _ _ (by unfold Spec.seqLen; rw [if_neg h1, if_pos h2])]
    · rw [if_neg h2]
      by_cases h3 : mem[p] < 0xE0
      · have hs : Spec.seqLen mem[p] = 2 := by unfold Spec.seqLen; rw [if_neg h1, if_neg h2, if_pos h3]
        rw [if_pos h3]
        by_cases hn : p + 1 < mem.length
        · rw [dif_pos hn, drop_cons hn, wf_cons2 _ _ _ hs]
        · rw [dif_neg hn, wf_short _ _ (by rw [hs, hlen]; omega)]
      · rw [if_neg h3]
        by_cases h4 : mem[p] < 0xF0
        · have hs : Spec.seqLen mem[p] = 3 := by
            unfold Spec.seqLen; rw [if_neg h1, if_neg h2, if_neg h3, if_pos h4]
          rw [if_pos h4]
          by_cases hn : p + 2 < mem.length
          · have hn1 : p + 1 < mem.length := by omega
            rw [dif_pos hn, drop_cons hn1, drop_cons hn, wf_cons3 _ _ _ _ hs]
          · rw [dif_neg hn, wf_short _ _ (by rw [hs, hlen]; omega)]
        · rw [if_neg h4]
          by_cases h5 : mem[p] < 0xF8
          · have hs : Spec.seqLen mem[p] = 4 := by
              unfold Spec.seqLen; rw [if_neg h1, if_neg h2, if_neg h3, if_neg h4, if_pos h5]
            rw [if_pos h5]
            by_cases hn : p + 3 < mem.length
            · have hn1 : p + 1 < mem.length := by omega
              have hn2 : p + 2 < mem.length := by omega
              rw [dif_pos hn, drop_cons hn1, drop_cons hn2, drop_cons hn, wf_cons4 _ _ _ _ _ hs]
            · rw [dif_neg hn, wf_short _ _ (by rw [hs, hlen]; omega)]
          · rw [if_neg h5, wf_cons0 _ _ (by
              unfold Spec.seqLen; rw [if_neg h1, if_neg h2, if_neg h3, if_neg h4, if_neg h5])]

theorem isCont_false {a : Nat} (ha : a < 256) (h : ¬ a &&& 0xc0 = 0x80) : Spec.isCont a = false := by
  cases h' : Spec.isCont a with
  | false => rfl
  | true => exact absurd ((cont_iff a ha).mpr h') h

theorem isValidLoop_spec (mem : List Nat) (hb : ∀ b ∈ mem, b < 256) :
    ∀ (n p len : Nat), mem.length - p ≤ n → p + len = mem.length →
      isValidLoop mem mem.length p len = .ok (Spec.wellFormed (mem.drop p)) := by
  intro n
  induction n with
  | zero =>
    intro p len hn _
    rw [loop_end mem p len (by omega), drop_nil (by omega), wf_nil]
  | succ n ih =>
    intro p len hn hl
    by_cases hp : p < mem.length
    · have b256 : ∀ i (h : i < mem.length), mem[i] < 256 := fun i h => hb _ (List.getElem_mem h)
      rw [loop_step mem p len hp hl (b256 p hp), wf_step mem p hp]
      by_cases h1 : mem[p] < 0x80
      · simp only [h1, if_true]; exact ih _ _ (by omega) (by omega)
      · by_cases h2 : mem[p] < 0xC0
        · simp only [h1, h2, if_true, if_false]
        · by_cases h3 : mem[p] < 0xE0
          · simp only [h1, h2, h3, if_true, if_false]
            by_cases hn1 : p + 1 < mem.length
            · rw [dif_pos hn1, dif_pos hn1]
              by_cases hc : mem[p + 1] &&& 0xc0 = 0x80
              · rw [if_pos hc, (cont_iff _ (b256 _ hn1)).mp hc, Bool.true_and]
                exact ih _ _ (by omega) (by omega)
              · rw [if_neg hc, isCont_false (b256 _ hn1) hc, Bool.false_and]
            · rw [dif_neg hn1, dif_neg hn1]
          · by_cases h4 : mem[p] < 0xF0
            · simp only [h1, h2, h3, h4, if_true, if_false]
              by_cases hn2 : p + 2 < mem.length
              · have hn1 : p + 1 < mem.length := by omega
                rw [dif_pos hn2, dif_pos hn2]
                have m := mask2_iff _ _ (b256 _ hn1) (b256 _ hn2)
                by_cases hc : (mem[p + 1] ||| (mem[p + 2] <<< 8)) &&& 0xc0c0 = 0x8080
                · obtain ⟨c1, c2⟩ := m.mp hc
                  rw [if_pos hc, (cont_iff _ (b256 _ hn1)).mp c1, (cont_iff _ (b256 _ hn2)).mp c2]
                  simp only [Bool.true_and]
                  exact ih _ _ (by omega) (by omega)
                · rw [if_neg hc]
                  by_cases c1 : mem[p + 1] &&& 0xc0 = 0x80
                  · have c2 : ¬ mem[p + 2] &&& 0xc0 = 0x80 := fun c2 => hc (m.mpr ⟨c1, c2⟩)
                    rw [isCont_false (b256 _ hn2) c2]; simp
                  · rw [isCont_false (b256 _ hn1) c1]; simp
              · rw [dif_neg hn2, dif_neg hn2]
            · by_cases h5 : mem[p] < 0xF8
              · simp only [h1, h2, h3, h4, h5, if_true, if_false]
                by_cases hn3 : p + 3 < mem.length
                · have hn1 : p + 1 < mem.length := by omega
                  have hn2 : p + 2 < mem.length := by omega
                  rw [dif_pos hn3, dif_pos hn3]
                  have m := mask3_iff _ _ _ (b256 _ hn1) (b256 _ hn2) (b256 _ hn3)
                  by_cases hc : (mem[p + 1] ||| (mem[p + 2] <<< 8) ||| (mem[p + 3] <<< 16)) &&& 0xc0c0c0 = 0x808080
                  · obtain ⟨c1, c2, c3⟩ := m.mp hc
                    rw [if_pos hc, (cont_iff _ (b256 _ hn1)).mp c1, (cont_iff _ (b256 _ hn2)).mp c2,
                      (cont_iff _ (b256 _ hn3)).mp c3]
                    simp only [Bool.true_and]
                    exact ih _ _ (by omega) (by omega)
                  · rw [if_neg hc]
                    by_cases c1 : mem[p + 1] &&& 0xc0 = 0x80
                    · by_cases c2 : mem[p + 2] &&& 0xc0 = 0x80
                      · have c3 : ¬ mem[p + 3] &&& 0xc0 = 0x80 := fun c3 => hc (m.mpr ⟨c1, c2, c3⟩)
                        rw [isCont_false (b256 _ hn3) c3]; simp
                      · rw [isCont_false (b256 _ hn2) c2]; simp
                    · rw [isCont_false (b256 _ hn1) c1]; simp
                · rw [dif_neg hn3, dif_neg hn3]
              · simp only [h1, h2, h3, h4, h5, if_false]
    · rw [loop_end mem p len hp, drop_nil hp, wf_nil]

/-! ### the decoders depend only on the range they are handed (hence the `String` overloads, which pass the
      C-string view `s ++ [0]` with `len = s.length`, equal the pointer forms on the exact range) -/
theorem rdR_append (mem ext : List Nat) (len k : Nat) (h : len ≤ mem.length) :
    rdR (mem ++ ext) len k = rdR mem len k := by
  unfold rdR
  by_cases hk : k < len
  · rw [if_pos hk, if_pos hk]
    unfold rd
    rw [List.getElem?_append_left (by omega)]
  · rw [if_neg hk, if_neg hk]

theorem fromString_append (mem ext : List Nat) (len : Nat) (h : len ≤ mem.length) :
    fromString (mem ++ ext) len = fromString mem len := by
  unfold fromString
  simp only [rdR_append mem ext len _ h]

theorem isValidLoop_append (mem ext : List Nat) (end_ : Nat) (h : end_ ≤ mem.length) :
    ∀ (n p len : Nat), end_ - p ≤ n → isValidLoop (mem ++ ext) end_ p len = isValidLoop mem end_ p len := by
  intro n
  induction n with
  | zero =>
    intro p len hn
    rw [isValidLoop, isValidLoop.eq_1 mem, dif_neg (by omega), dif_neg (by omega)]
  | succ n ih =>
    intro p len hn
    rw [isValidLoop, isValidLoop.eq_1 mem]
    by_cases hp : p < end_
    · rw [dif_pos hp, dif_pos hp]
      simp only [rdR_append mem ext end_ _ h]
      rw [ih (p + 4) (len - 4) (by omega), ih (p + 3) (len - 3) (by omega), ih (p + 2) (len - 2) (by omega),
        ih (p + 1) (len - 1) (by omega)]
    · rw [dif_neg hp, dif_neg hp]

theorem isValid_append (mem ext : List Nat) (len : Nat) (h : len ≤ mem.length) :
    isValid (mem ++ ext) len = isValid mem len := by
  unfold isValid
  exact isValidLoop_append mem ext len h len 0 len (by omega)

end Nstd.Codec
