import Nstd.Codec.LemmasUtf8
/-!
  The validator accepts what the encoder emits (C18, extra): byte-wise reading of the
  multi-byte masks `0xc0c0` / `0xc0c0c0` (div/mod, no enumeration), one loop iteration per
  encoded code point, induction over the sequence of code points.
-/
namespace Nstd.Codec
open Nstd.Generated.Codec

theorem or_shl8 (a b : Nat) (ha : a < 256) : a ||| (b <<< 8) = a + b * 256 := by
  rw [Nat.or_comm, ← Nat.shiftLeft_add_eq_or_of_lt (show a < 2 ^ 8 from ha) b, Nat.shiftLeft_eq]
  omega

theorem or_shl16 (a c : Nat) (ha : a < 65536) : a ||| (c <<< 16) = a + c * 65536 := by
  rw [Nat.or_comm, ← Nat.shiftLeft_add_eq_or_of_lt (show a < 2 ^ 16 from ha) c, Nat.shiftLeft_eq]
  omega

theorem cont_ok : ∀ y, y < 64 → (0x80 + y) &&& 0xc0 = 0x80 := by decide

/-- `x & 0xc0c0` byte-wise -/
theorem mask2 (a b : Nat) (ha : a < 256) (_hb : b < 256) (h1 : a &&& 0xc0 = 0x80) (h2 : b &&& 0xc0 = 0x80) :
    (a ||| (b <<< 8)) &&& 0xc0c0 = 0x8080 := by
  rw [or_shl8 a b ha]
  have lo : ((a + b * 256) &&& 0xc0c0) % 2 ^ 8 = 0x80 := by
    rw [Nat.and_mod_two_pow]
    have : (a + b * 256) % 2 ^ 8 = a := by omega
    rw [this]; exact h1
  have hi : ((a + b * 256) &&& 0xc0c0) / 2 ^ 8 = 0x80 := by
    rw [Nat.and_div_two_pow]
    have : (a + b * 256) / 2 ^ 8 = b := by omega
    rw [this]; exact h2
  omega

theorem mask3 (a b c : Nat) (ha : a < 256) (hb : b < 256) (_hc : c < 256) (h1 : a &&& 0xc0 = 0x80)
    (h2 : b &&& 0xc0 = 0x80) (h3 : c &&& 0xc0 = 0x80) :
    (a ||| (b <<< 8) ||| (c <<< 16)) &&& 0xc0c0c0 = 0x808080 := by
  rw [or_shl8 a b ha, or_shl16 _ c (by omega)]
  have lo : ((a + b * 256 + c * 65536) &&& 0xc0c0c0) % 2 ^ 16 = 0x8080 := by
    rw [Nat.and_mod_two_pow]
    have : (a + b * 256 + c * 65536) % 2 ^ 16 = a + b * 256 := by omega
    rw [this, ← or_shl8 a b ha]
    exact mask2 a b ha hb h1 h2
  have hi : ((a + b * 256 + c * 65536) &&& 0xc0c0c0) / 2 ^ 16 = 0x80 := by
    rw [Nat.and_div_two_pow]
    have : (a + b * 256 + c * 65536) / 2 ^ 16 = c := by omega
    rw [this]; exact h3
  omega

theorem rdR_of_drop {mem : List Nat} {end_ p i b : Nat} (h : (mem.drop p)[i]? = some b) (hlt : p + i < end_) :
    rdR mem end_ (p + i) = .ok b := by
  unfold rdR rd
  rw [if_pos hlt]
  rw [List.getElem?_drop] at h
  rw [h]

theorem valid_step1 (mem rest : List Nat) (end_ p len b : Nat) (hd : mem.drop p = b :: rest) (hb : b < 128)
    (hp : p + 1 ≤ end_) (hl : p + len = end_) :
    isValidLoop mem end_ p len = isValidLoop mem end_ (p + 1) (len - 1) := by
  have r0 : rdR mem end_ p = .ok b := rdR_of_drop (i := 0) (by rw [hd]; rfl) (by omega)
  have hlt : p < end_ := by omega
  have hlen : ¬ len < 1 := by omega
  rw [isValidLoop]
  simp [hlt, r0, len_ascii b hb, hlen]

theorem valid_step2 (mem rest : List Nat) (end_ p len x y : Nat)
    (hd : mem.drop p = (0xC0 + x) :: (0x80 + y) :: rest) (hx : x < 32) (hy : y < 64)
    (hp : p + 2 ≤ end_) (hl : p + len = end_) :
    isValidLoop mem end_ p len = isValidLoop mem end_ (p + 2) (len - 2) := by
  have r0 : rdR mem end_ p = .ok (0xC0 + x) := rdR_of_drop (i := 0) (by rw [hd]; rfl) (by omega)
  have r1 : rdR mem end_ (p + 1) = .ok (0x80 + y) := rdR_of_drop (i := 1) (by rw [hd]; rfl) (by omega)
  have hlt : p < end_ := by omega
  have hlen : ¬ len < 2 := by omega
  rw [isValidLoop]
  simp [hlt, r0, r1, len2 x hx, hlen, cont_ok y hy]

theorem valid_step3 (mem rest : List Nat) (end_ p len x y z : Nat)
    (hd : mem.drop p = (0xE0 + x) :: (0x80 + y) :: (0x80 + z) :: rest) (hx : x < 16) (hy : y < 64) (hz : z < 64)
    (hp : p + 3 ≤ end_) (hl : p + len = end_) :
    isValidLoop mem end_ p len = isValidLoop mem end_ (p + 3) (len - 3) := by
  have r0 : rdR mem end_ p = .ok (0xE0 + x) := rdR_of_drop (i := 0) (by rw [hd]; rfl) (by omega)
  have r1 : rdR mem end_ (p + 1) = .ok (0x80 + y) := rdR_of_drop (i := 1) (by rw [hd]; rfl) (by omega)
  have r2 : rdR mem end_ (p + 2) = .ok (0x80 + z) := rdR_of_drop (i := 2) (by rw [hd]; rfl) (by omega)
  have hlt : p < end_ := by omega
  have hlen : ¬ len < 3 := by omega
  have m := mask2 (0x80 + y) (0x80 + z) (by omega) (by omega) (cont_ok y hy) (cont_ok z hz)
  rw [isValidLoop]
  simp [hlt, r0, r1, r2, len3 x hx, hlen, m]

theorem valid_step4 (mem rest : List Nat) (end_ p len x y z w : Nat)
    (hd : mem.drop p = (0xF0 + x) :: (0x80 + y) :: (0x80 + z) :: (0x80 + w) :: rest)
    (hx : x < 8) (hy : y < 64) (hz : z < 64) (hw : w < 64)
    (hp : p + 4 ≤ end_) (hl : p + len = end_) :
    isValidLoop mem end_ p len = isValidLoop mem end_ (p + 4) (len - 4) := by
  have r0 : rdR mem end_ p = .ok (0xF0 + x) := rdR_of_drop (i := 0) (by rw [hd]; rfl) (by omega)
  have r1 : rdR mem end_ (p + 1) = .ok (0x80 + y) := rdR_of_drop (i := 1) (by rw [hd]; rfl) (by omega)
  have r2 : rdR mem end_ (p + 2) = .ok (0x80 + z) := rdR_of_drop (i := 2) (by rw [hd]; rfl) (by omega)
  have r3 : rdR mem end_ (p + 3) = .ok (0x80 + w) := rdR_of_drop (i := 3) (by rw [hd]; rfl) (by omega)
  have hlt : p < end_ := by omega
  have hlen : ¬ len < 4 := by omega
  have m := mask3 (0x80 + y) (0x80 + z) (0x80 + w) (by omega) (by omega) (by omega)
    (cont_ok y hy) (cont_ok z hz) (cont_ok w hw)
  rw [isValidLoop]
  simp [hlt, r0, r1, r2, r3, len4 x hx, hlen, m]

/-- one encoded code point is consumed by one iteration of the validator -/
theorem valid_step (cp : Nat) (hcp : cp < 0x110000) (mem rest : List Nat) (end_ p len : Nat)
    (hd : mem.drop p = Spec.utf8 cp ++ rest) (hp : p + (Spec.utf8 cp).length ≤ end_) (hl : p + len = end_) :
    isValidLoop mem end_ p len =
      isValidLoop mem end_ (p + (Spec.utf8 cp).length) (len - (Spec.utf8 cp).length) := by
  unfold Spec.utf8 at hd hp ⊢
  by_cases h1 : cp < 0x80
  · rw [if_pos h1] at hd hp ⊢
    exact valid_step1 mem rest end_ p len cp hd h1 hp hl
  · rw [if_neg h1] at hd hp ⊢
    by_cases h2 : cp < 0x800
    · rw [if_pos h2] at hd hp ⊢
      exact valid_step2 mem rest end_ p len _ _ hd (by omega) (by omega) hp hl
    · rw [if_neg h2] at hd hp ⊢
      by_cases h3 : cp < 0x10000
      · rw [if_pos h3] at hd hp ⊢
        exact valid_step3 mem rest end_ p len _ _ _ hd (by omega) (by omega) (by omega) hp hl
      · rw [if_neg h3] at hd hp ⊢
        exact valid_step4 mem rest end_ p len _ _ _ _ hd (by omega) (by omega) (by omega) (by omega) hp hl

/-- the concatenated encodings of any sequence of code points are accepted -/
theorem valid_all (cps : List Nat) : (∀ c ∈ cps, c < 0x110000) → ∀ (pre : List Nat),
    isValidLoop (pre ++ (cps.map Spec.utf8).flatten) (pre ++ (cps.map Spec.utf8).flatten).length pre.length
      ((cps.map Spec.utf8).flatten).length = .ok true := by
  induction cps with
  | nil =>
    intro _ pre
    rw [isValidLoop]
    simp
  | cons c cs ih =>
    intro h pre
    have hc : c < 0x110000 := h c (by simp)
    have hcs : ∀ x ∈ cs, x < 0x110000 := fun x hx => h x (by simp [hx])
    simp only [List.map_cons, List.flatten_cons]
    rw [valid_step c hc _ ((cs.map Spec.utf8).flatten) _ _ _ (by simp) (by simp) (by simp)]
    have := ih hcs (pre ++ Spec.utf8 c)
    simp only [List.append_assoc, List.length_append] at this ⊢
    rw [show (Spec.utf8 c).length + ((cs.map Spec.utf8).flatten).length - (Spec.utf8 c).length
      = ((cs.map Spec.utf8).flatten).length by omega]
    exact this


theorem appendAll_valid (cps : List Nat) (h : ∀ c ∈ cps, c < 0x110000) :
    appendAll cps = (true, (cps.map Spec.utf8).flatten) := by
  induction cps with
  | nil => rfl
  | cons c cs ih =>
    have hc : c < 0x110000 := h c (by simp)
    have hcs : ∀ x ∈ cs, x < 0x110000 := fun x hx => h x (by simp [hx])
    rw [appendAll, ih hcs, append_eq c hc]
    rfl

theorem utf8_nonempty_len (cp : Nat) (h : cp < 0x110000) :
    ∃ b tl, Spec.utf8 cp = b :: tl ∧ utf8Length b = (Spec.utf8 cp).length := by
  unfold Spec.utf8
  by_cases h1 : cp < 0x80
  · rw [if_pos h1]; exact ⟨_, _, rfl, len_ascii cp h1⟩
  · rw [if_neg h1]
    by_cases h2 : cp < 0x800
    · rw [if_pos h2]; exact ⟨_, _, rfl, len2 _ (by omega)⟩
    · rw [if_neg h2]
      by_cases h3 : cp < 0x10000
      · rw [if_pos h3]; exact ⟨_, _, rfl, len3 _ (by omega)⟩
      · rw [if_neg h3]; exact ⟨_, _, rfl, len4 _ (by omega)⟩

end Nstd.Codec
