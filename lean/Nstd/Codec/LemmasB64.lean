import Nstd.Codec.LemmasStr
/-!
  `fromBase64` for ARBITRARY input (C18, extra): per input byte the model's guard / table read /
  marker test agree with the specification's classification (alphabet value, `=`, other), per
  group of four positions the loop follows `Spec.b64Scan` / `Spec.decodeVals`.
-/
namespace Nstd.Codec
open Nstd.Generated.Codec

/-! ### classification of one input byte -/
theorem val_small : ∀ b, b < 123 → ∀ v, Spec.b64Val? b = some v → v < 64 ∧ b = Spec.b64Char v ∧ b ≠ 61 := by
  decide +kernel

theorem val_is_char (b v : Nat) (h : Spec.b64Val? b = some v) : v < 64 ∧ b = Spec.b64Char v ∧ b ≠ 61 := by
  by_cases hb : b < 123
  · exact val_small b hb v h
  · exfalso
    unfold Spec.b64Val? at h
    rw [if_neg (by omega), if_neg (by omega), if_neg (by omega), if_neg (by omega), if_neg (by omega)] at h
    cases h

/-- a byte that is neither `=` nor an alphabet character makes the generated per-byte tests reject -/
theorem b64Byte_bad : ∀ b, b < 256 → Spec.b64Val? b = none → b ≠ 61 → b64Byte b = .ok .reject := by
  decide +kernel

theorem b64Loop_bad (b : Nat) (rest : List Nat) (i j : Nat) (out : List Nat) (hb : b < 256)
    (h : Spec.b64Val? b = none) (hp : b ≠ 61) : b64Loop (b :: rest) i j out = .ok none := by
  rw [b64Loop, b64Byte_bad b hb h hp, Res.bind_ok]

theorem scan_pad (rest : List Nat) : Spec.b64Scan (61 :: rest) = some [] := by
  rw [Spec.b64Scan, if_pos rfl]

theorem scan_bad (b : Nat) (rest : List Nat) (h : Spec.b64Val? b = none) (hp : b ≠ 61) :
    Spec.b64Scan (b :: rest) = none := by
  rw [Spec.b64Scan, if_neg hp, h]

theorem scan_val (b v : Nat) (rest : List Nat) (h : Spec.b64Val? b = some v) (hp : b ≠ 61) :
    Spec.b64Scan (b :: rest) = (Spec.b64Scan rest).map (v :: ·) := by
  rw [Spec.b64Scan, if_neg hp, h]

/-! ### the regrouping identities in arithmetic form (small domains) -/
theorem dv0 : ∀ a, a < 64 → ∀ b, b < 64 → b64Set0 a ||| b64Or1 b = a * 4 + b / 16 := by decide +kernel
theorem dv1 : ∀ b, b < 64 → ∀ c, c < 64 → b64Set1 b ||| b64Or2 c = b % 16 * 16 + c / 4 := by decide +kernel
theorem dv2 : ∀ c, c < 64 → ∀ d, d < 64 → b64Set2 c ||| b64Or3 d = c % 4 * 64 + d := by decide +kernel

/-- three way case distinction on an input byte -/
theorem sym_cases (b : Nat) :
    b = 61 ∨ (Spec.b64Val? b = none ∧ b ≠ 61) ∨ (∃ v, Spec.b64Val? b = some v ∧ v < 64 ∧ b = Spec.b64Char v ∧ b ≠ 61) := by
  by_cases hp : b = 61
  · exact Or.inl hp
  · cases h : Spec.b64Val? b with
    | none => exact Or.inr (Or.inl ⟨rfl, hp⟩)
    | some v =>
      obtain ⟨h1, h2, h3⟩ := val_is_char b v h
      exact Or.inr (Or.inr ⟨v, rfl, h1, h2, h3⟩)

/-! ### the loop against the specification, per group of four positions -/
theorem b64_one (v0 : Nat) (rest : List Nat) (i j : Nat) (out : List Nat) (h0 : v0 < 64)
    (hi : i % 4 = 0) (hj : j < out.length) :
    b64Loop (Spec.b64Char v0 :: rest) i j out = b64Loop rest (i + 1) j (out.set j (b64Set0 v0)) := by
  rw [b64Loop_alpha _ _ _ _ _ h0, sw0 _ _ _ _ hi hj, Res.bind_ok]

theorem b64_spec_gen (n : Nat) : ∀ (rest : List Nat), rest.length = 4 * n → (∀ b ∈ rest, b < 256) →
    ∀ (i j : Nat) (out : List Nat), i % 4 = 0 → j + 3 * n ≤ out.length →
    (Spec.b64Scan rest = none ∧ b64Loop rest i j out = .ok none) ∨
    (∃ vs j' out', Spec.b64Scan rest = some vs ∧ b64Loop rest i j out = .ok (some (j', out')) ∧
      out'.take j' = out.take j ++ Spec.decodeVals vs) := by
  induction n with
  | zero =>
    intro rest hlen _ i j out _ _
    have : rest = [] := List.eq_nil_of_length_eq_zero (by omega)
    subst this
    exact Or.inr ⟨[], j, out, rfl, rfl, by simp [Spec.decodeVals]⟩
  | succ n ih =>
    intro rest hlen hb i j out hi hl
    match rest, hlen, hb with
    | [], h, _ => simp at h
    | [_], h, _ => simp at h; omega
    | [_, _], h, _ => simp at h; omega
    | [_, _, _], h, _ => simp at h; omega
    | s0 :: s1 :: s2 :: s3 :: r, hlen, hb =>
      simp only [List.length_cons] at hlen
      have hb0 : s0 < 256 := hb s0 (by simp)
      have hb1 : s1 < 256 := hb s1 (by simp)
      have hb2 : s2 < 256 := hb s2 (by simp)
      have hb3 : s3 < 256 := hb s3 (by simp)
      have hbr : ∀ x ∈ r, x < 256 := fun x hx => hb x (by simp [hx])
      rcases sym_cases s0 with rfl | ⟨hn0, hp0⟩ | ⟨v0, hv0, hlt0, rfl, hp0⟩
      · exact Or.inr ⟨[], j, out, scan_pad _, b64Loop_pad _ _ _ _, by simp [Spec.decodeVals]⟩
      · exact Or.inl ⟨scan_bad _ _ hn0 hp0, b64Loop_bad _ _ _ _ _ hb0 hn0 hp0⟩
      · rcases sym_cases s1 with rfl | ⟨hn1, hp1⟩ | ⟨v1, hv1, hlt1, rfl, hp1⟩
        · refine Or.inr ⟨[v0], j, out.set j (b64Set0 v0), ?_, ?_, ?_⟩
          · rw [scan_val _ _ _ hv0 hp0, scan_pad]; rfl
          · rw [b64_one _ _ _ _ _ hlt0 hi (by omega), b64Loop_pad]
          · rw [List.take_set_of_le (Nat.le_refl _)]; simp [Spec.decodeVals]
        · refine Or.inl ⟨?_, ?_⟩
          · rw [scan_val _ _ _ hv0 hp0, scan_bad _ _ hn1 hp1]; rfl
          · rw [b64_one _ _ _ _ _ hlt0 hi (by omega), b64Loop_bad _ _ _ _ _ hb1 hn1 hp1]
        · rcases sym_cases s2 with rfl | ⟨hn2, hp2⟩ | ⟨v2, hv2, hlt2, rfl, hp2⟩
          · refine Or.inr ⟨[v0, v1], j + 1, (out.set j (b64Set0 v0 ||| b64Or1 v1)).set (j + 1) (b64Set1 v1), ?_, ?_, ?_⟩
            · rw [scan_val _ _ _ hv0 hp0, scan_val _ _ _ hv1 hp1, scan_pad]; rfl
            · rw [b64_two _ _ _ _ _ _ hlt0 hlt1 hi (by omega), b64Loop_pad]
            · rw [take1of2 _ _ _ _ (by omega), dv0 _ hlt0 _ hlt1]; simp [Spec.decodeVals]
          · refine Or.inl ⟨?_, ?_⟩
            · rw [scan_val _ _ _ hv0 hp0, scan_val _ _ _ hv1 hp1, scan_bad _ _ hn2 hp2]; rfl
            · rw [b64_two _ _ _ _ _ _ hlt0 hlt1 hi (by omega), b64Loop_bad _ _ _ _ _ hb2 hn2 hp2]
          · rcases sym_cases s3 with rfl | ⟨hn3, hp3⟩ | ⟨v3, hv3, hlt3, rfl, hp3⟩
            · refine Or.inr ⟨[v0, v1, v2], j + 2, ((out.set j (b64Set0 v0 ||| b64Or1 v1)).set (j + 1)
                (b64Set1 v1 ||| b64Or2 v2)).set (j + 2) (b64Set2 v2), ?_, ?_, ?_⟩
              · rw [scan_val _ _ _ hv0 hp0, scan_val _ _ _ hv1 hp1, scan_val _ _ _ hv2 hp2, scan_pad]; rfl
              · rw [b64_three _ _ _ _ _ _ _ hlt0 hlt1 hlt2 hi (by omega), b64Loop_pad]
              · rw [take2of3 _ _ _ _ _ (by omega), dv0 _ hlt0 _ hlt1, dv1 _ hlt1 _ hlt2]; simp [Spec.decodeVals]
            · refine Or.inl ⟨?_, ?_⟩
              · rw [scan_val _ _ _ hv0 hp0, scan_val _ _ _ hv1 hp1, scan_val _ _ _ hv2 hp2,
                  scan_bad _ _ hn3 hp3]; rfl
              · rw [b64_three _ _ _ _ _ _ _ hlt0 hlt1 hlt2 hi (by omega), b64Loop_bad _ _ _ _ _ hb3 hn3 hp3]
            · have hscan : Spec.b64Scan (Spec.b64Char v0 :: Spec.b64Char v1 :: Spec.b64Char v2 :: Spec.b64Char v3 :: r) =
                  (Spec.b64Scan r).map (fun vs => v0 :: v1 :: v2 :: v3 :: vs) := by
                rw [scan_val _ _ _ hv0 hp0, scan_val _ _ _ hv1 hp1, scan_val _ _ _ hv2 hp2, scan_val _ _ _ hv3 hp3]
                cases Spec.b64Scan r <;> rfl
              rw [hscan, b64_four _ _ _ _ _ _ _ _ hlt0 hlt1 hlt2 hlt3 hi (by omega),
                dv0 _ hlt0 _ hlt1, dv1 _ hlt1 _ hlt2, dv2 _ hlt2 _ hlt3]
              rcases ih r (by omega) hbr (i + 4) (j + 3)
                (((out.set j (v0 * 4 + v1 / 16)).set (j + 1) (v1 % 16 * 16 + v2 / 4)).set (j + 2) (v2 % 4 * 64 + v3))
                (by omega) (by simp only [List.length_set]; omega) with ⟨hs, hloop⟩ | ⟨vs, j', out', hs, hloop, htake⟩
              · exact Or.inl ⟨by rw [hs]; rfl, hloop⟩
              · refine Or.inr ⟨v0 :: v1 :: v2 :: v3 :: vs, j', out', by rw [hs]; rfl, hloop, ?_⟩
                rw [htake, take3of3 _ _ _ _ _ (by omega), Spec.decodeVals]
                simp

/-- `fromBase64` of EVERY byte string is `Spec.b64Decode` of it -/
theorem fromBase64_spec (inp : List Nat) (hb : ∀ b ∈ inp, b < 256) :
    fromBase64 inp = .ok (Spec.b64Decode inp) := by
  unfold fromBase64 Spec.b64Decode
  rw [lenRejects_eq]
  by_cases hm : inp.length % 4 ≠ 0
  · rw [if_pos (by simpa using hm), if_pos hm]
  · rw [if_neg (by simpa using hm), if_neg hm]
    have h4 : inp.length = 4 * (inp.length / 4) := by omega
    have hcap := reserve_enough inp.length (by omega)
    rcases b64_spec_gen (inp.length / 4) inp h4 hb 0 0 (List.replicate (b64Reserve inp.length) 0) rfl
        (by rw [List.length_replicate]; omega) with
      ⟨hs, hloop⟩ | ⟨vs, j', out', hs, hloop, htake⟩
    · rw [hloop, hs]; rfl
    · obtain ⟨r, hr, hbound⟩ := b64Loop_ok inp hb 0 0 inp.length (List.replicate (b64Reserve inp.length) 0)
        (by omega) (by omega) (by rw [List.length_replicate]; omega) (by omega)
      rw [hloop] at hr
      injection hr with hr
      rw [hloop, hs, Res.bind_ok]
      simp only [List.take_zero, List.nil_append] at htake
      simp only [if_pos (hbound j' out' hr.symm), htake]

/-! ### the accepted language: prefixes of alphabet characters -/
/-- the 6-bit values of a run of alphabet characters -/
def b64Vals (pre : List Nat) : List Nat := pre.filterMap Spec.b64Val?

theorem scan_prefix (pre : List Nat) (hpre : ∀ c ∈ pre, (Spec.b64Val? c).isSome = true) (tl : List Nat) :
    Spec.b64Scan (pre ++ tl) = (Spec.b64Scan tl).map (b64Vals pre ++ ·) := by
  induction pre with
  | nil => simp [b64Vals]
  | cons c cs ih =>
    have hc := hpre c (List.mem_cons_self ..)
    obtain ⟨v, hv⟩ := Option.isSome_iff_exists.mp hc
    have h61 := (val_is_char c v hv).2.2
    rw [List.cons_append, scan_val c v _ hv h61, ih (fun x hx => hpre x (List.mem_cons_of_mem _ hx))]
    cases Spec.b64Scan tl with
    | none => rfl
    | some r => simp [b64Vals, hv]

theorem high_not_alphabet (b : Nat) (h : 123 ≤ b) : Spec.b64Val? b = none := by
  unfold Spec.b64Val?
  rw [if_neg (by omega), if_neg (by omega), if_neg (by omega), if_neg (by omega), if_neg (by omega)]

/-- the translated per-byte tests (guard, table read, marker, pad test in their source order) classify ALL 256 byte
    values exactly as the RFC 4648 alphabet does; no table read is out of bounds -/
theorem b64Byte_classifies : ∀ b, b < 256 →
    b64Byte b = .ok (if b = 61 then .stop else match Spec.b64Val? b with | some v => .val v | none => .reject) := by
  decide +kernel

end Nstd.Codec
