import Nstd.Codec.LemmasNum
import Nstd.Codec.LemmasStrtod
/-!
  Property C18, numeric clause at full strength: "String's integer conversions are exact over the full range of
  each integer type" - what `toInt/toUInt/toInt64/toUInt64` (member AND static overloads) return for EVERY text
  (numeral of any magnitude with white space, sign, leading zeros, junk, embedded NUL; text without a number),
  what `fromInt/...` print, the round trips through the static overloads, which branch of `String::printf` runs.
  All statements are relative to the libc DEFINITIONS of Model.lean (ISO C11 7.21.6.1, 7.22.1.2, 7.22.1.4; glibc
  for the case ISO C leaves undefined); those definitions are compared with the real libc by the `lc*` lines of the
  correspondence run.  Only property theorems and non-vacuity examples.
-/
namespace Nstd.Codec
open Nstd.Generated.Codec

/-! ## the two overload families are the same function of the text; an embedded NUL ends the text -/

/-- the static `const char*` overloads and the member overloads return the same value for every text -/
theorem static_member_agree (s : List Nat) :
    toIntS s = toInt s ∧ toUIntS s = toUInt s ∧ toInt64S s = toInt64 s ∧ toUInt64S s = toUInt64 s :=
  ⟨rfl, rfl, rfl, rfl⟩

/-- a String value with an embedded NUL converts like the text in front of it (libc stops at the terminator) -/
theorem embedded_nul_ends_text (a b : List Nat) (h : ∀ c ∈ a, c ≠ 0) :
    toInt (a ++ 0 :: b) = toInt a ∧ toUInt (a ++ 0 :: b) = toUInt a ∧
      toInt64 (a ++ 0 :: b) = toInt64 a ∧ toUInt64 (a ++ 0 :: b) = toUInt64 a := by
  unfold toInt toUInt toInt64 toUInt64
  rw [cstr_nul a b h, cstr_nonzero a h]
  exact ⟨rfl, rfl, rfl, rfl⟩

/-! ## numerals of ANY magnitude: `ws ++ sign ++ digits ++ junk` with at least one digit -/

/-- `toInt64` (= `atoll` = `strtoll`): the value of the numeral saturated to `[INT64_MIN, INT64_MAX]`
    (C11 7.22.1.4p8), for every white space prefix, optional sign, non-empty digit string of any length
    (leading zeros allowed) and any junk that does not start with a digit (it may contain NULs) -/
theorem toInt64_numeral (ws sign ds junk : List Nat) (hws : ∀ c ∈ ws, isSpace c = true)
    (hsign : sign = [] ∨ sign = [43] ∨ sign = [45]) (hds : ∀ d ∈ ds, isDigit d = true) (hne : ds ≠ [])
    (hj : ∀ c tl, junk = c :: tl → isDigit c = false) :
    toInt64 (ws ++ (sign ++ (ds ++ junk))) =
      Spec.clamp (-9223372036854775808) 9223372036854775807
        (if sign = [45] then -(Spec.decimalValue ds : Int) else (Spec.decimalValue ds : Int)) := by
  have hm := strtoMag_numeral ws sign ds (cstr junk) hws hsign hds hne (cstr_junk junk hj)
  rw [← cstr_numeral ws sign ds junk hws hsign hds] at hm
  unfold toInt64 atoll strtoll Spec.clamp
  rw [hm]
  by_cases hs : sign = [45]
  · simp only [hs, decide_true, if_true]
    by_cases hbig : Spec.decimalValue ds > 9223372036854775808
    · rw [if_pos hbig, if_pos (by omega)]
    · rw [if_neg hbig, if_neg (by omega), if_neg (by omega)]
  · simp only [hs, decide_false, if_false, Bool.false_eq_true]
    by_cases hbig : Spec.decimalValue ds > 9223372036854775807
    · rw [if_pos hbig, if_neg (by omega), if_pos (by omega)]
    · rw [if_neg hbig, if_neg (by omega), if_neg (by omega)]

/-- `toUInt64` (= `strtoull`): `UINT64_MAX` when the magnitude exceeds it (with or without a minus sign); otherwise
    the magnitude, negated modulo 2^64 when a minus sign was given (C11 7.22.1.4p5: "negated in the return type") -/
theorem toUInt64_numeral (ws sign ds junk : List Nat) (hws : ∀ c ∈ ws, isSpace c = true)
    (hsign : sign = [] ∨ sign = [43] ∨ sign = [45]) (hds : ∀ d ∈ ds, isDigit d = true) (hne : ds ≠ [])
    (hj : ∀ c tl, junk = c :: tl → isDigit c = false) :
    toUInt64 (ws ++ (sign ++ (ds ++ junk))) =
      (if Spec.decimalValue ds > 18446744073709551615 then 18446744073709551615
       else if sign = [45] then (18446744073709551616 - Spec.decimalValue ds) % 18446744073709551616
       else Spec.decimalValue ds) := by
  have hm := strtoMag_numeral ws sign ds (cstr junk) hws hsign hds hne (cstr_junk junk hj)
  rw [← cstr_numeral ws sign ds junk hws hsign hds] at hm
  unfold toUInt64 strtoull
  rw [hm]
  by_cases hs : sign = [45] <;> simp [hs]

/-- `toUInt` is `(uint)strtoul(..)`: the `unsigned long` result of `toUInt64` truncated to 32 bits
    (so `"4294967296"` gives 0, `"-1"` gives 4294967295, anything above 2^64 gives 4294967295) -/
theorem toUInt_truncates (s : List Nat) : toUInt s = toUInt64 s % 4294967296 := rfl

/-- `toInt` is `atoi`: for a numeral whose value is an `int` it is that value and ISO C defines it;
    outside the `int` range ISO C11 7.22.1.2 leaves `atoi` UNDEFINED (`atoiC11 = none`) and glibc returns the
    saturated `long` converted to `int` modulo 2^32 (which is what the model and the real code on this platform do) -/
theorem toInt_numeral (ws sign ds junk : List Nat) (hws : ∀ c ∈ ws, isSpace c = true)
    (hsign : sign = [] ∨ sign = [43] ∨ sign = [45]) (hds : ∀ d ∈ ds, isDigit d = true) (hne : ds ≠ [])
    (hj : ∀ c tl, junk = c :: tl → isDigit c = false) (v : Int)
    (hv : v = if sign = [45] then -(Spec.decimalValue ds : Int) else (Spec.decimalValue ds : Int)) :
    (-2147483648 ≤ v ∧ v ≤ 2147483647 →
      toInt (ws ++ (sign ++ (ds ++ junk))) = v ∧ atoiC11 (cstr (ws ++ (sign ++ (ds ++ junk)))) = some v) ∧
    (¬ (-2147483648 ≤ v ∧ v ≤ 2147483647) →
      atoiC11 (cstr (ws ++ (sign ++ (ds ++ junk)))) = none ∧
      toInt (ws ++ (sign ++ (ds ++ junk))) =
        wrapInt32 (Spec.clamp (-9223372036854775808) 9223372036854775807 v)) := by
  have h64 := toInt64_numeral ws sign ds junk hws hsign hds hne hj
  rw [← hv] at h64
  unfold toInt64 atoll at h64
  unfold toInt atoi atoiC11 strtol
  rw [h64]
  unfold Spec.clamp wrapInt32
  constructor
  · intro hr
    rw [if_neg (by omega), if_neg (by omega)]
    simp only []
    rw [if_pos hr]
    exact ⟨by omega, rfl⟩
  · intro hr
    refine ⟨?_, rfl⟩
    simp only []
    by_cases h1 : v < -9223372036854775808
    · rw [if_pos h1, if_neg (by omega)]
    · rw [if_neg h1]
      by_cases h2 : 9223372036854775807 < v
      · rw [if_pos h2, if_neg (by omega)]
      · rw [if_neg h2, if_neg hr]

/-! ## texts without a number: every conversion returns 0 (C11 7.22.1.4p7 "no conversion is performed") -/

/-- white space followed by nothing, or by a char that is neither a digit nor a sign in front of a digit
    (letters, a lone sign, `"+-5"`, a NUL ...): all eight conversions return 0 -/
theorem no_number_gives_zero (ws junk : List Nat) (hws : ∀ c ∈ ws, isSpace c = true)
    (hj : Spec.noNumber junk = true) :
    toInt (ws ++ junk) = 0 ∧ toUInt (ws ++ junk) = 0 ∧ toInt64 (ws ++ junk) = 0 ∧ toUInt64 (ws ++ junk) = 0 ∧
      toIntS (ws ++ junk) = 0 ∧ toUIntS (ws ++ junk) = 0 ∧ toInt64S (ws ++ junk) = 0 ∧ toUInt64S (ws ++ junk) = 0 := by
  have hc : cstr (ws ++ junk) = ws ++ cstr junk := cstr_append ws junk (space_nonzero ws hws)
  have hm := strtoMag_noNumber ws (cstr junk) hws (cstr_noNumber junk hj)
  rw [← hc] at hm
  have h64 : strtoll (cstr (ws ++ junk)) = 0 := by
    unfold strtoll
    simp only [hm]
    by_cases hb : (strtoMag (cstr (ws ++ junk))).1 = true <;> simp [hb]
  have hu64 : strtoull (cstr (ws ++ junk)) = 0 := by
    unfold strtoull
    simp only [hm]
    by_cases hb : (strtoMag (cstr (ws ++ junk))).1 = true <;> simp [hb]
  unfold toInt toUInt toInt64 toUInt64 toIntS toUIntS toInt64S toUInt64S atoi atoll strtol strtoul
  rw [h64, hu64]
  exact ⟨by decide, rfl, rfl, rfl, by decide, rfl, rfl, rfl⟩

/-- the two cases are exhaustive: EVERY byte string is white space followed by either a numeral
    (optional sign, at least one digit, junk not starting with a digit) or a text without a number -/
theorem text_cases (s : List Nat) :
    ∃ ws rest, s = ws ++ rest ∧ (∀ c ∈ ws, isSpace c = true) ∧
      (Spec.noNumber rest = true ∨
        ∃ sign ds junk, rest = sign ++ (ds ++ junk) ∧ (sign = [] ∨ sign = [43] ∨ sign = [45]) ∧
          (∀ d ∈ ds, isDigit d = true) ∧ ds ≠ [] ∧ (∀ c tl, junk = c :: tl → isDigit c = false)) := by
  obtain ⟨ws, rest, e, h1, h2⟩ := span_space s
  refine ⟨ws, rest, e, h1, ?_⟩
  cases rest with
  | nil => exact Or.inl rfl
  | cons c tl =>
    have hsp : isSpace c = false := h2 c tl rfl
    have hsp' : (c = 32 || (9 ≤ c && c ≤ 13)) = false := by simpa [isSpace] using hsp
    by_cases hd : isDigit c = true
    · right
      obtain ⟨ds, junk, e2, h3, h4⟩ := span_digit (c :: tl)
      refine ⟨[], ds, junk, by simpa using e2, Or.inl rfl, h3, ?_, h4⟩
      intro hnil
      rw [hnil, List.nil_append] at e2
      exact absurd (h4 c tl e2.symm) (by simp [hd])
    · have hd' : (48 ≤ c && c ≤ 57) = false := by simpa [isDigit] using hd
      by_cases hsg : c = 43 ∨ c = 45
      · by_cases hh : Spec.headIsDigit tl = true
        · right
          obtain ⟨ds, junk, e2, h3, h4⟩ := span_digit tl
          refine ⟨[c], ds, junk, by rw [e2]; rfl, by rcases hsg with h | h <;> simp [h], h3, ?_, h4⟩
          intro hnil
          rw [hnil, List.nil_append] at e2
          cases tl with
          | nil => simp [Spec.headIsDigit] at hh
          | cons d tl' =>
            have := h4 d tl' e2.symm
            simp [Spec.headIsDigit, isDigit] at hh this
            omega
        · left
          simp only [Spec.noNumber, hsp', hd', Bool.not_false, Bool.true_and, Bool.or_eq_true, Bool.not_eq_true']
          right
          simpa using hh
      · left
        simp only [Spec.noNumber, hsp', hd', Bool.not_false, Bool.true_and, Bool.or_eq_true, Bool.not_eq_true']
        left
        simp only [Bool.or_eq_false_iff, decide_eq_false_iff_not]
        omega

/-! ## what `fromInt/fromUInt/fromInt64/fromUInt64` print -/

/-- `fromUInt64(n)` / `fromUInt(n)`: the canonical decimal numeral of `n` - only digits, no leading zero except
    for `"0"`, value `n` - for EVERY `n` -/
theorem fromUInt64_text (n : Nat) :
    fromUInt64 n = decDigits n ∧ fromUInt n = decDigits n ∧ (∀ d ∈ decDigits n, isDigit d = true) ∧
      Spec.decimalValue (decDigits n) = n ∧
      ∃ d ds, decDigits n = d :: ds ∧ (d = 48 → n = 0 ∧ ds = []) := by
  refine ⟨printf_eq _ _, printf_eq _ _, decDigits_isDigit n, ?_, decDigits_canonical n⟩
  unfold Spec.decimalValue
  rw [decimalValue_decDigits_aux, shiftIn_zero]

/-- `fromInt64(v)` / `fromInt(v)`: `-` followed by the numeral of `|v|` for negative `v` (also for the minimum
    values, whose magnitude is not representable in the type), the numeral of `v` otherwise -/
theorem fromInt64_text (v : Int) :
    fromInt64 v = (if v < 0 then 45 :: decDigits (-v).toNat else decDigits v.toNat) ∧ fromInt v = fromInt64 v :=
  ⟨by unfold fromInt64; rw [printf_eq]; rfl, rfl⟩

/-- integer texts have at most 20 chars, so the first `vsnprintf` of `String::printf` (into the 203 byte buffer of
    `detach(0, 200)`) always suffices: the measure-and-print-again branch is not reached by the integer conversions -/
theorem integer_text_first_try (v : Int) (h1 : -9223372036854775808 ≤ v) (h2 : v ≤ 9223372036854775807)
    (n : Nat) (hn : n ≤ 18446744073709551615) :
    printfFirstTry printfCap (fmtSigned v) = true ∧ printfFirstTry printfCap (decDigits n) = true := by
  have a := fmtSigned_length v h1 h2
  have b := decDigits_length 19 n (by omega)
  unfold printfFirstTry vsnprintf printfCap
  simp only [decide_eq_true_eq]
  omega

/-- `String::fromPrintf` returns the formatted text as well (it is `String::printf` on a String of capacity 203) -/
theorem fromPrintf_text (text : List Nat) : fromPrintf text = text := printf_eq printfCap text

/-! ## round trips through the STATIC overloads, every value of each type (incl. the minimum values) -/

theorem static_roundtrips :
    (∀ v : Int, -2147483648 ≤ v → v ≤ 2147483647 → toIntS (fromInt v) = v) ∧
    (∀ v : Nat, v ≤ 4294967295 → toUIntS (fromUInt v) = v) ∧
    (∀ v : Int, -9223372036854775808 ≤ v → v ≤ 9223372036854775807 → toInt64S (fromInt64 v) = v) ∧
    (∀ v : Nat, v ≤ 18446744073709551615 → toUInt64S (fromUInt64 v) = v) := by
  refine ⟨?_, ?_, ?_, ?_⟩
  · intro v h1 h2
    unfold toIntS fromInt atoi strtol
    rw [printf_eq, cstr_fmtSigned, strtoll_fmt v (by omega) (by omega)]
    unfold wrapInt32; omega
  · intro v h
    unfold toUIntS fromUInt strtoul
    rw [printf_eq, cstr_decDigits, strtoull_dec v (by omega)]
    omega
  · intro v h1 h2
    unfold toInt64S fromInt64 atoll
    rw [printf_eq, cstr_fmtSigned, strtoll_fmt v h1 h2]
  · intro v h
    unfold toUInt64S fromUInt64
    rw [printf_eq, cstr_decDigits, strtoull_dec v h]

/-! ## `fromDouble` / `toDouble` (`printf("%f")` / `atof`)

  `%f` is a Lean definition (`fmtF`: exact decimal expansion rounded to six places, ties to even), `strtod` a
  parameter.  The round trip `toDouble(fromDouble(x)) = x` is FALSE in general (six decimals: `2^-7` prints as
  `0.007812`, `1e-7` as `0.000000`); it holds exactly where `%f` is exact: -/

/-- for every finite double that is a multiple of 1/64 (`x = +-m * 2^e`, `e >= -6`: in particular EVERY integer-valued
    double - all integers up to 2^53 and all doubles above - and `-0.0`), `fromDouble` prints the exact value and
    `toDouble` (member and static) gives `x` back, for any `strtod` that is exact on representable values -/
theorem double_roundtrip_exact (strtod : List Nat → Dbl) (hs : StrtodExact strtod)
    (neg : Bool) (m : Nat) (e : Int) (hm : m < 9007199254740992) (he : -6 ≤ e) (he2 : e ≤ 971) :
    Dbl.eqv (toDouble strtod (fromDouble (.fin neg m e))) (.fin neg m e) ∧
      Dbl.eqv (toDoubleS strtod (fromDouble (.fin neg m e))) (.fin neg m e) := by
  have key : Dbl.eqv (strtod (cstr (fromDouble (.fin neg m e)))) (.fin neg m e) := by
    unfold fromDouble
    rw [printf_eq, cstr_nonzero _ (fmtF_nonzero _)]
    have etext : fmtF (.fin neg m e) = (if neg then [45] else []) ++
        (decDigits (scaled6 m e / 1000000) ++ (46 :: pad6 (scaled6 m e % 1000000))) := by
      simp [fmtF]
    rw [etext]
    refine hs neg (decDigits (scaled6 m e / 1000000)) (pad6 (scaled6 m e % 1000000)) m e (decDigits_isDigit _)
      (decDigits_ne_nil _) ?_ ?_ hm (by omega) he2
    · intro d hd
      have := pad6_digits _ d hd
      simp [isDigit]; omega
    · rw [value_int_frac _ _ (Nat.mod_lt _ (by decide))]
      have h6 : (pad6 (scaled6 m e % 1000000)).length = 6 := rfl
      have : scaled6 m e / 1000000 * 1000000 + scaled6 m e % 1000000 = scaled6 m e := by omega
      rw [this, h6]
      exact scaled6_exact m e he
  exact ⟨key, key⟩

/-- the assumption `StrtodExact` is satisfiable (non-vacuity of `double_roundtrip_exact`): the ideal, unrounded `strtod` on the
    texts `[-]digits.digits` (value `num / 10^k` as `(num / 5^k) * 2^-k`) meets it - proved with coprimality of 5^k and 2^j -/
theorem strtod_assumption_satisfiable : StrtodExact strtodIdeal := strtodIdeal_exact

example : Dbl.eqv (toDouble strtodIdeal (fromDouble (.fin true 5 (-1)))) (.fin true 5 (-1)) :=
  (double_roundtrip_exact strtodIdeal strtodIdeal_exact true 5 (-1) (by decide) (by decide) (by decide)).1

/-- the hypothesis is DISCHARGED by a definition: `strtodM` (Model.lean: the executable `strtod` of the driver - decimal
    form with optional fraction / exponent, `inf`, `nan`; exponent of the binary64 grid checked by `expOk`, round to nearest,
    ties to even; compared with the real `atof` on every `pd`/`fd` line) is exact on EVERY text `[-]digits.digits`, with any
    number of digits, whose value is a double (`m < 2^53`, `-1074 <= e <= 971`, subnormals included) -/
theorem strtodM_exact : StrtodExact strtodT := strtodT_exact

/-- hence, with no assumption about `strtod` left: `toDouble(fromDouble x) = x` through the model's `strtod`, for every
    double that is a multiple of 1/64 (every integer-valued double, `-0.0`), member and static overload -/
theorem double_roundtrip_model (neg : Bool) (m : Nat) (e : Int) (hm : m < 9007199254740992) (he : -6 ≤ e) (he2 : e ≤ 971) :
    Dbl.eqv (toDouble strtodT (fromDouble (.fin neg m e))) (.fin neg m e) ∧
      Dbl.eqv (toDoubleS strtodT (fromDouble (.fin neg m e))) (.fin neg m e) :=
  double_roundtrip_exact strtodT strtodT_exact neg m e hm he he2

/-- the rounding step on its own: whenever `num / den` IS a double, `roundToDbl` returns it (any numerator / denominator:
    this also covers texts with an exponent part) -/
theorem roundToDbl_exact_on_doubles (neg : Bool) (num den m : Nat) (E : Int) (hd : 0 < den) (hx : Exact num den m E)
    (hm : m < 9007199254740992) (hE1 : -1074 ≤ E) (hE2 : E ≤ 971) :
    Dbl.eqv (roundToDbl neg num den) (.fin neg m E) := roundToDbl_exact neg num den m E hd hx hm hE1 hE2

/-- CORRECT ROUNDING of `roundToDbl` for EVERY positive rational `num / den` below the overflow threshold (so of `strtodM`
    for every decimal text - any number of significant digits, with or without exponent, normal and subnormal range):
    (1) the exponent `e` it rounds at is the exponent of the binary64 grid at the value; (2) the mantissa `M` is a nearest
    integer to `num / den / 2^e`, the even one on a tie; (3) the result is `M * 2^e` (renormalised when `M = 2^53`,
    infinity when that leaves the range) -/
theorem roundToDbl_correctly_rounded (neg : Bool) (num den : Nat) (hd : 0 < den) (h : pickExp num den ≤ 971) :
    (-1074 ≤ pickExp num den ∧ qOf num den (pickExp num den) < 9007199254740992 ∧
      (pickExp num den = -1074 ∨ 9007199254740992 ≤ qOf num den (pickExp num den - 1))) ∧
    (2 * (roundHalfEven (qNum num (pickExp num den)) (qDen den (pickExp num den)) * qDen den (pickExp num den)) ≤
        2 * qNum num (pickExp num den) + qDen den (pickExp num den) ∧
      2 * qNum num (pickExp num den) ≤
        2 * (roundHalfEven (qNum num (pickExp num den)) (qDen den (pickExp num den)) * qDen den (pickExp num den)) +
          qDen den (pickExp num den) ∧
      ((2 * (roundHalfEven (qNum num (pickExp num den)) (qDen den (pickExp num den)) * qDen den (pickExp num den)) =
          2 * qNum num (pickExp num den) + qDen den (pickExp num den) ∨
        2 * qNum num (pickExp num den) =
          2 * (roundHalfEven (qNum num (pickExp num den)) (qDen den (pickExp num den)) * qDen den (pickExp num den)) +
            qDen den (pickExp num den)) →
        roundHalfEven (qNum num (pickExp num den)) (qDen den (pickExp num den)) % 2 = 0)) ∧
    roundToDbl neg num den =
      (if roundHalfEven (qNum num (pickExp num den)) (qDen den (pickExp num den)) = 9007199254740992 then
        (if 971 < pickExp num den + 1 then .inf neg else .fin neg 4503599627370496 (pickExp num den + 1))
       else .fin neg (roundHalfEven (qNum num (pickExp num den)) (qDen den (pickExp num den))) (pickExp num den)) := by
  refine ⟨pickExp_grid num den h, roundHalfEven_nearest _ _ (qDen_pos den _ hd), ?_⟩
  unfold roundToDbl
  simp only []
  rw [if_neg (by omega)]

/-- overflow: when no exponent up to 971 fits, the value is at least `2^53 * 2^971 = 2^1024` and the result is infinity -/
theorem roundToDbl_overflow (neg : Bool) (num den : Nat) (h : 971 < pickExp num den) :
    roundToDbl neg num den = .inf neg ∧ ∃ x : Int, 971 ≤ x ∧ 9007199254740992 ≤ qOf num den x := by
  constructor
  · unfold roundToDbl
    simp only []
    rw [if_pos h]
  · unfold pickExp at h
    by_cases hok : expOk num den (expHint num den) = true
    · rw [if_pos hok] at h
      unfold expOk at hok
      simp only [Bool.and_eq_true, Bool.or_eq_true, decide_eq_true_eq] at hok
      rcases hok.2 with h2 | h2
      · omega
      · exact ⟨expHint num den - 1, by omega, h2⟩
    · rw [if_neg hok] at h
      obtain ⟨_, _, _, d⟩ := findExp_min num den 2048 (-1074)
      exact ⟨971, Int.le_refl _, d 971 (by omega) h⟩

/-- nstd never produces the hexadecimal form: for EVERY double the text of `fromDouble` is in the modelled part of `strtodM` -/
theorem fromDouble_never_hex (x : Dbl) : strtodM (cstr (fromDouble x)) ≠ none := by
  intro h
  obtain ⟨c, hc, hx⟩ := strtodM_none_has_x _ h
  unfold fromDouble at hc
  rw [printf_eq, cstr_nonzero _ (fmtF_nonzero x)] at hc
  have := fmtF_no_x x c hc
  omega

example : roundToDbl false 9007199254740993 1 = .fin false 4503599627370496 1 := by decide         -- 2^53 + 1: tie, to even
example : roundToDbl false 1 10 = .fin false 7205759403792794 (-56) := by decide                   -- 0.1
example : strtodM [49, 46, 53] = some (.fin false 6755399441055744 (-52)) := by decide             -- "1.5"
example : strtodM [48, 120, 49, 112, 51] = none := by decide                                       -- "0x1p3": hexadecimal form
example : Exact 15 10 3 (-1) := by simp [Exact]

/-- an integer `n` prints as its numeral followed by `.000000` -/
theorem fromDouble_integer (neg : Bool) (n : Nat) :
    fromDouble (.fin neg n 0) = (if neg then [45] else []) ++ decDigits n ++ [46, 48, 48, 48, 48, 48, 48] := by
  unfold fromDouble
  rw [printf_eq]
  simp only [fmtF, scaled6]
  have h1 : n * 2 ^ (0 : Int).toNat * 1000000 / 1000000 = n := by simp
  have h2 : n * 2 ^ (0 : Int).toNat * 1000000 % 1000000 = 0 := by simp
  simp only [show (0 : Int) ≤ 0 by decide, if_true]
  rw [h1, h2]
  have : pad6 0 = [48, 48, 48, 48, 48, 48] := by decide
  rw [this]
  simp

/-- the long outputs of `%f` take the second branch of `String::printf` (measure, `detach(0, result)`, print again;
    the text is the same by `printf_text`): every double of magnitude >= 10^202 -/
theorem double_text_second_try (neg : Bool) (n : Nat) (h : 10 ^ 202 ≤ n) :
    printfFirstTry printfCap (fmtF (.fin neg n 0)) = false := by
  have hl := decDigits_length_ge 202 n h
  have := fromDouble_integer neg n
  unfold fromDouble at this
  rw [printf_eq] at this
  rw [this]
  unfold printfFirstTry vsnprintf printfCap
  simp only [List.length_append, decide_eq_false_iff_not]
  omega

example : fromDouble (.fin true 5 (-1)) = [45, 50, 46, 53, 48, 48, 48, 48, 48] := by             -- "-2.500000"
  simp [fromDouble, printf_eq, fmtF, scaled6, roundHalfEven, decDigits, pad6]
example : fmtF (.fin false 1 (-7)) = [48, 46, 48, 48, 55, 56, 49, 50] := by                      -- 0.0078125 -> "0.007812"
  simp [fmtF, scaled6, roundHalfEven, decDigits, pad6]
example : ¬ exactValue 7812 6 1 (-7) := by simp [exactValue]                                                -- ... which is not 2^-7
example : exactValue 2500000 6 5 (-1) := by simp [exactValue]

/-! ## character classes and case maps (String.hpp `isSpace`, `toLowerCase(char)`, `toUpperCase(char)`; the
     `<cctype>` wrappers are libc in the "C" locale = the definitions `cIs*` of Model.lean)

  `strIsSpaceTable`, `lowerCaseMap`, `upperCaseMap` are the 256 values obtained by EXECUTING the current sources
  (harness/codec_probe.cpp), so these theorems are re-checked against the code on every run. -/

/-- `String::isSpace` is true exactly for the white space `strtol`/`strtoul`/`atoi` skip (C locale `isspace`:
    HT LF VT FF CR SP), for every byte incl. the negative `char`s (bytes >= 0x80) -/
theorem isSpace_is_c_isspace : ∀ b, b < 256 → strIsSpace b = isSpace b := by decide +kernel

/-- the table reads `lowerCaseMap[(uchar&)c]` / `upperCaseMap[(uchar&)c]` are in bounds for every byte, and the maps
    are the ASCII case mappings: `A..Z` <-> `a..z`, every other byte (digits, punctuation, bytes >= 0x80) unchanged -/
theorem case_maps_ascii : ∀ b, b < 256 →
    toLowerCase b = .ok (if cIsUpper b then b + 32 else b) ∧ toUpperCase b = .ok (if cIsLower b then b - 32 else b) := by
  decide +kernel

/-- consequences: idempotent, inverse of each other on letters, and consistent with the ctype classes -/
theorem case_maps_consistent : ∀ b, b < 256 →
    toLowerCase b = .ok (lowerCaseMap.getD b 0) ∧ toUpperCase b = .ok (upperCaseMap.getD b 0) ∧
    toLowerCase (lowerCaseMap.getD b 0) = .ok (lowerCaseMap.getD b 0) ∧
    toUpperCase (upperCaseMap.getD b 0) = .ok (upperCaseMap.getD b 0) ∧
    toLowerCase (upperCaseMap.getD b 0) = .ok (lowerCaseMap.getD b 0) ∧
    toUpperCase (lowerCaseMap.getD b 0) = .ok (upperCaseMap.getD b 0) ∧
    cIsUpper (lowerCaseMap.getD b 0) = false ∧ cIsLower (upperCaseMap.getD b 0) = false ∧
    (cIsAlpha b = true ↔ lowerCaseMap.getD b 0 ≠ upperCaseMap.getD b 0) := by
  decide +kernel

/-- the digits `strtol` consumes / `%d` prints are `isdigit`; classes nest as in ISO C11 7.4.1 -/
theorem ctype_classes : ∀ b, b < 256 →
    cIsDigit b = isDigit b ∧ (cIsAlnum b = (cIsAlpha b || cIsDigit b)) ∧ (cIsDigit b = true → cIsXDigit b = true) ∧
      (cIsPunct b = true → cIsPrint b = true ∧ cIsAlnum b = false ∧ strIsSpace b = false) := by
  decide +kernel

/-! ## non-vacuity -/
example : toInt64 [57, 50, 50, 51, 51, 55, 50, 48, 51, 54, 56, 53, 52, 55, 55, 53, 56, 48, 56] = 9223372036854775807 := by
  decide                                                          -- "9223372036854775808" saturates
example : toUInt64 [45, 49] = 18446744073709551615 := by decide   -- "-1"
example : toUInt [52, 50, 57, 52, 57, 54, 55, 50, 57, 54] = 0 := by decide   -- "4294967296" truncates
example : toInt [50, 49, 52, 55, 52, 56, 51, 54, 52, 56] = -2147483648 := by decide  -- "2147483648": ISO C undefined, glibc wraps
example : atoiC11 [50, 49, 52, 55, 52, 56, 51, 54, 52, 56] = none := by decide
example : toInt [43, 45, 53] = 0 ∧ Spec.noNumber [43, 45, 53] = true := by decide     -- "+-5"
example : toInt64 [32, 55, 0, 57] = 7 := by decide                                    -- " 7\0" "9"

end Nstd.Codec
