import Nstd.Common.Basic
import Nstd.Codec.Model
import Nstd.Codec.Spec
/-
  Line protocol of the Codec area (property C18).  Stateless: every op line is one call (or one
  batch of calls, summarised by a count and an FNV-1a digest) of the modelled functions.

    cp <start> <count>     toString/fromString/isValid/length for the code points start..start+count-1
                           -> `cp <round trips ok> <digest>`
    cp1 <cp>               -> `cp1 <toString bytes> <fromString> <isValid> <length(first byte)>`
    len <byte>             -> `len <n>`
    dec <bytes>            fromString + isValid on the exactly sized range -> `dec <value> <valid>`
    decpre <bytes> <k>     all k-byte suffixes (k <= 2) appended to the prefix -> `decpre <count> <digest>`
    u32s <cp,cp,..>        append(data, size, str) -> `u32s <flag> <bytes>`
    hex <bytes>            fromHex -> `hex <bytes of the text>`
    b64 <bytes>            fromBase64 -> `b64 <bytes>`
    b64pre <bytes> <k>     all k-symbol suffixes (k <= 3) over the 68-symbol set -> `b64pre <count> <digest>`
    fi32|fu32|fi64|fu64 <hex two's complement>   from*/to* round trip -> `<op> <text> <fromPrintf text> <member to*, hex> <static to*, hex>`
    pi32|pu32|pi64|pu64 <bytes of the text>      to* of arbitrary text -> `<op> <member, hex> <static, hex>`
    lcs <fn> <bytes>       the libc DEFINITION of atoi|atol|atoll|strtol|strtoul|strtoll|strtoull on the C string -> `lcs <hex>`
    lcf <d|u|lld|llu> <hex64> <cap>   the libc DEFINITION of snprintf(buf, cap, "%<conv>", v) -> `lcf <stored bytes> <return value>`
    cls <byte>             isSpace + the eight ctype wrappers + toLowerCase/toUpperCase -> `cls <9 flags> <lower> <upper>`
    fd <hex64>             fromDouble of the double with that bit pattern, toDouble of the text -> `fd <text> <fromPrintf("%f"): same|text> <bits> <first try?>`
    pd <bytes>             toDouble (member, static) of arbitrary text -> `pd <bits> <bits>` (strtodM of Model.lean: executable
                           correctly rounding strtod, tested against libc, no theorem)
  A modelled out-of-range access prints `OOB`.
  Spec lines (answered by this driver only; the check compares them with Python, so that the
  specifications the theorems are stated against are themselves tested):
    spec-utf8 <start> <count>  -> `spec-utf8 <digest of the concatenated Spec.utf8 encodings>`
    spec-b64 <bytes>           -> `spec-b64 <Spec.rfc4648Encode>`
    spec-b64d <bytes>          -> `spec-b64d <Spec.b64Decode>`
    spec-hex <bytes>           -> `spec-hex <Spec.upperHex>`
    spec-wf <bytes>            -> `spec-wf <Spec.wellFormed>`
    spec-rfc <bytes>           -> `spec-rfc <Spec.rfc3629> <Spec.oneSeq> <Spec.seqValue> <Spec.shortest>`
    spec-dec <decimal>         -> `spec-dec <decDigits as text> <Spec.decimalValue of it>`
-/
open Nstd.Common Nstd.Generated.Codec
namespace Nstd.Codec

def fnvInit : UInt64 := 0xcbf29ce484222325
def fnvByte (h : UInt64) (b : Nat) : UInt64 := (h ^^^ (UInt64.ofNat (b % 256))) * 0x100000001b3
def fnvBytes (h : UInt64) (bs : List Nat) : UInt64 := bs.foldl fnvByte h
def fnvU32 (h : UInt64) (v : Nat) : UInt64 :=
  fnvByte (fnvByte (fnvByte (fnvByte h v) (v / 256)) (v / 65536)) (v / 16777216)

def hexN (digits : Nat) (v : Nat) : String :=
  String.ofList ((List.range digits).reverse.map fun k => hexDigit (v / 16 ^ k % 16))

def hexVal? (s : String) : Option Nat :=
  s.toList.foldl (fun acc c => do
    let a ← acc
    let d ← hexVal c
    pure (a * 16 + d)) (some 0)

/-- the symbols of the exhaustive base64 scope: alphabet, '=', 0x80, 0xFF, '{' -/
def b64Symbols : List Nat :=
  ("ABCDEFGHIJKLMNOPQRSTUVWXYZabcdefghijklmnopqrstuvwxyz0123456789+/".toList.map Char.toNat) ++ [61, 0x80, 0xFF, 123]

def showRes {α : Type} (r : Res α) (f : α → String) : String :=
  match r with
  | .ok a => f a
  | .oob => "OOB"

def b2s (b : Bool) : String := if b then "1" else "0"

/-- observations of one code point: (toString bytes, fromString, isValid, length of first byte) -/
def cpObs (cp : Nat) : Res (List Nat × Nat × Bool × Nat) :=
  let s := toString cp
  -- the String overloads (C-string view), as called by a user; `dec` lines go through the pointer forms
  (fromStringS s).bind fun v => (isValidS s).bind fun ok =>
    .ok (s, v, ok, match s with | b :: _ => utf8Length b | [] => 255)

def cpBatch (start count : Nat) : String := Id.run do
  let mut h := fnvInit
  let mut good := 0
  let mut oob := false
  for k in [0:count] do
    let cp := start + k
    match cpObs cp with
    | .oob => oob := true
    | .ok (s, v, ok, l) =>
      h := fnvByte h s.length
      h := fnvBytes h s
      h := fnvU32 h v
      h := fnvByte h (if ok then 1 else 0)
      h := fnvByte h l
      if v == cp && !s.isEmpty then good := good + 1
  if oob then "OOB" else s!"cp {good} {hexN 16 h.toNat}"

def decObs (bs : List Nat) : Res (Nat × Bool) :=
  (fromString bs bs.length).bind fun v => (isValid bs bs.length).bind fun ok => .ok (v, ok)

/-- all words of length `k` over `alpha`, in lexicographic order of positions -/
def wordsOver (alpha : List Nat) : Nat → List (List Nat)
  | 0 => [[]]
  | k + 1 => alpha.flatMap fun a => (wordsOver alpha k).map fun w => a :: w

def decPre (pre : List Nat) (k : Nat) : String := Id.run do
  let mut h := fnvInit
  let mut n := 0
  let mut oob := false
  for w in wordsOver (List.range 256) k do
    match decObs (pre ++ w) with
    | .oob => oob := true
    | .ok (v, ok) =>
      h := fnvU32 h v
      h := fnvByte h (if ok then 1 else 0)
      n := n + 1
  if oob then "OOB" else s!"decpre {n} {hexN 16 h.toNat}"

def b64Pre (pre : List Nat) (k : Nat) : String := Id.run do
  let mut h := fnvInit
  let mut n := 0
  let mut oob := false
  for w in wordsOver b64Symbols k do
    match fromBase64 (pre ++ w) with
    | .oob => oob := true
    | .ok r =>
      h := fnvByte h r.length
      h := fnvBytes h r
      n := n + 1
  if oob then "OOB" else s!"b64pre {n} {hexN 16 h.toNat}"

def asciiStr (bs : List Nat) : String := String.ofList (bs.map Char.ofNat)

def toSigned (bits : Nat) (v : Nat) : Int := if v < 2 ^ (bits - 1) then (v : Int) else (v : Int) - (2 ^ bits : Nat)
def ofSigned (bits : Nat) (v : Int) : Nat := (v % ((2 ^ bits : Nat) : Int)).toNat

/-! ### doubles: bit patterns, and an executable correctly rounding `strtod` for the decimal / inf / nan forms -/

def dblOfBits (v : Nat) : Dbl :=
  let neg := v / 2 ^ 63 % 2 == 1
  let ex : Nat := v / 2 ^ 52 % 2048
  let fr : Nat := v % 2 ^ 52
  if ex == 2047 then (if fr == 0 then .inf neg else .nan neg)
  else if ex == 0 then .fin neg fr (-1074)
  else .fin neg (fr + 2 ^ 52) ((ex : Int) - 1075)

/-- canonical bit pattern (the `m` of a finite value below 2^53; `e >= -1074`; normalised here) -/
def bitsOfDbl : Dbl → Nat
  | .inf neg => (if neg then 2 ^ 63 else 0) + 2047 * 2 ^ 52
  | .nan neg => (if neg then 2 ^ 63 else 0) + 2047 * 2 ^ 52 + 2 ^ 51
  | .fin neg m e =>
    let s := if neg then 2 ^ 63 else 0
    if m == 0 then s
    else Id.run do
      -- normalise: shift m up while m < 2^52 and e > -1074
      let mut m := m
      let mut e := e
      for _ in [0:53] do
        if m < 2 ^ 52 ∧ e > -1074 then
          m := m * 2
          e := e - 1
      if m < 2 ^ 52 then s + m
      else if e + 1075 ≥ 2047 then s + 2047 * 2 ^ 52
      else s + (e + 1075).toNat * 2 ^ 52 + (m - 2 ^ 52)

def showDbl (r : Option Dbl) : String :=
  match r with
  | some d => hexN 16 (bitsOfDbl d)
  | none => "unmodelled-hex-float"

def parseCps (s : String) : Option (List Nat) :=
  if s == "-" then some [] else (s.splitOn ",").mapM fun t => do
    let v ← t.toNat?
    if v < 4294967296 then some v else none

def stepLine (st : Unit) (ws : List String) : Unit × String :=
  (st, match ws with
  | ["reset"] => "ok"
  | ["cp", a, n] =>
    match a.toNat?, n.toNat? with
    | some a, some n => if a + n ≤ 4294967296 then cpBatch a n else "bad-op"
    | _, _ => "bad-op"
  | ["cp1", a] =>
    match a.toNat? with
    | some cp =>
      if cp < 4294967296 then
        showRes (cpObs cp) fun (s, v, ok, l) => s!"cp1 {toHex s} {v} {b2s ok} {if l == 255 then "-" else s!"{l}"}"
      else "bad-op"
    | none => "bad-op"
  | ["len", b] =>
    match b.toNat? with
    | some b => if b < 256 then s!"len {utf8Length b}" else "bad-op"
    | none => "bad-op"
  | ["dec", d] =>
    match Nstd.Common.fromHex d with
    | some bs => showRes (decObs bs) fun (v, ok) => s!"dec {v} {b2s ok}"
    | none => "bad-op"
  | ["decpre", d, k] =>
    match Nstd.Common.fromHex d, k.toNat? with
    | some bs, some k => if k ≤ 2 then decPre bs k else "bad-op"
    | _, _ => "bad-op"
  | ["u32s", l] =>
    match parseCps l with
    | some cps => let r := appendAll cps; s!"u32s {b2s r.1} {toHex r.2}"
    | none => "bad-op"
  | ["hex", d] =>
    match Nstd.Common.fromHex d with
    | some bs => showRes (Nstd.Codec.fromHex bs) fun t => s!"hex {toHex t}"
    | none => "bad-op"
  | ["b64", d] =>
    match Nstd.Common.fromHex d with
    | some bs => showRes (fromBase64 bs) fun t => s!"b64 {toHex t}"
    | none => "bad-op"
  | ["b64pre", d, k] =>
    match Nstd.Common.fromHex d, k.toNat? with
    | some bs, some k => if k ≤ 3 then b64Pre bs k else "bad-op"
    | _, _ => "bad-op"
  | ["fi32", x] =>
    match hexVal? x with
    | some v => if x.length == 8 then
        let t := fromInt (toSigned 32 v); s!"fi32 {asciiStr t} {asciiStr (fromPrintf (fmtSigned (toSigned 32 v)))} {hexN 8 (ofSigned 32 (toInt t))} {hexN 8 (ofSigned 32 (toIntS t))}" else "bad-op"
    | none => "bad-op"
  | ["fu32", x] =>
    match hexVal? x with
    | some v => if x.length == 8 then
        let t := fromUInt v; s!"fu32 {asciiStr t} {asciiStr (fromPrintf (decDigits v))} {hexN 8 (toUInt t)} {hexN 8 (toUIntS t)}" else "bad-op"
    | none => "bad-op"
  | ["fi64", x] =>
    match hexVal? x with
    | some v => if x.length == 16 then
        let t := fromInt64 (toSigned 64 v); s!"fi64 {asciiStr t} {asciiStr (fromPrintf (fmtSigned (toSigned 64 v)))} {hexN 16 (ofSigned 64 (toInt64 t))} {hexN 16 (ofSigned 64 (toInt64S t))}" else "bad-op"
    | none => "bad-op"
  | ["fu64", x] =>
    match hexVal? x with
    | some v => if x.length == 16 then
        let t := fromUInt64 v; s!"fu64 {asciiStr t} {asciiStr (fromPrintf (decDigits v))} {hexN 16 (toUInt64 t)} {hexN 16 (toUInt64S t)}" else "bad-op"
    | none => "bad-op"
  | ["pi32", d] =>
    match Nstd.Common.fromHex d with
    | some bs => s!"pi32 {hexN 8 (ofSigned 32 (toInt bs))} {hexN 8 (ofSigned 32 (toIntS bs))}"
    | none => "bad-op"
  | ["pu32", d] =>
    match Nstd.Common.fromHex d with
    | some bs => s!"pu32 {hexN 8 (toUInt bs)} {hexN 8 (toUIntS bs)}"
    | none => "bad-op"
  | ["pi64", d] =>
    match Nstd.Common.fromHex d with
    | some bs => s!"pi64 {hexN 16 (ofSigned 64 (toInt64 bs))} {hexN 16 (ofSigned 64 (toInt64S bs))}"
    | none => "bad-op"
  | ["pu64", d] =>
    match Nstd.Common.fromHex d with
    | some bs => s!"pu64 {hexN 16 (toUInt64 bs)} {hexN 16 (toUInt64S bs)}"
    | none => "bad-op"
  | ["lcs", fn, d] =>
    match Nstd.Common.fromHex d with
    | some bs =>
      let t := cstr bs
      if fn == "atoi" then s!"lcs {hexN 8 (ofSigned 32 (atoi t))}"
      else if fn == "atol" || fn == "strtol" then s!"lcs {hexN 16 (ofSigned 64 (strtol t))}"
      else if fn == "atoll" then s!"lcs {hexN 16 (ofSigned 64 (atoll t))}"
      else if fn == "strtoll" then s!"lcs {hexN 16 (ofSigned 64 (strtoll t))}"
      else if fn == "strtoul" then s!"lcs {hexN 16 (strtoul t)}"
      else if fn == "strtoull" then s!"lcs {hexN 16 (strtoull t)}"
      else "bad-op"
    | none => "bad-op"
  | ["lcf", conv, x, cap] =>
    match hexVal? x, cap.toNat? with
    | some v, some cap =>
      if x.length != 16 || cap > 64 then "bad-op"
      else
        let text? : Option (List Nat) :=
          if conv == "d" then some (fmtSigned (toSigned 32 (v % 2 ^ 32)))
          else if conv == "u" then some (decDigits (v % 2 ^ 32))
          else if conv == "lld" then some (fmtSigned (toSigned 64 v))
          else if conv == "llu" then some (decDigits v)
          else none
        match text? with
        | some text => let r := vsnprintf cap text; s!"lcf {toHex r.1} {r.2}"
        | none => "bad-op"
    | _, _ => "bad-op"
  | ["cls", b] =>
    match b.toNat? with
    | some b =>
      if b < 256 then
        let fl := [strIsSpace b, cIsAlnum b, cIsAlpha b, cIsDigit b, cIsLower b, cIsPrint b, cIsPunct b, cIsUpper b, cIsXDigit b]
        showRes ((toLowerCase b).bind fun l => (toUpperCase b).bind fun u => .ok (l, u)) fun (l, u) =>
          s!"cls {String.join (fl.map b2s)} {l} {u}"
      else "bad-op"
    | none => "bad-op"
  | ["fd", x] =>
    match hexVal? x with
    | some v =>
      if x.length == 16 then
        let d := dblOfBits v
        let t := fromDouble d
        s!"fd {asciiStr t} {if fromPrintf (fmtF d) == t then "same" else asciiStr (fromPrintf (fmtF d))} {showDbl (toDouble (fun s => (strtodM s).getD (.nan false)) t |> some)} {b2s (printfFirstTry printfCap (fmtF d))}"
      else "bad-op"
    | none => "bad-op"
  | ["pd", d] =>
    match Nstd.Common.fromHex d with
    | some bs => s!"pd {showDbl (strtodM (cstr bs))} {showDbl (strtodM (cstr bs))}"
    | none => "bad-op"
  | ["spec-utf8", a, n] =>
    match a.toNat?, n.toNat? with
    | some a, some n =>
      if a + n ≤ 1114112 then
        let h := (List.range n).foldl (fun h k => let e := Spec.utf8 (a + k); fnvBytes (fnvByte h e.length) e) fnvInit
        s!"spec-utf8 {hexN 16 h.toNat}"
      else "bad-op"
    | _, _ => "bad-op"
  | ["spec-b64", d] =>
    match Nstd.Common.fromHex d with
    | some bs => s!"spec-b64 {toHex (Spec.rfc4648Encode bs)}"
    | none => "bad-op"
  | ["spec-b64d", d] =>
    match Nstd.Common.fromHex d with
    | some bs => s!"spec-b64d {toHex (Spec.b64Decode bs)}"
    | none => "bad-op"
  | ["spec-hex", d] =>
    match Nstd.Common.fromHex d with
    | some bs => s!"spec-hex {toHex (Spec.upperHex bs)}"
    | none => "bad-op"
  | ["spec-wf", d] =>
    match Nstd.Common.fromHex d with
    | some bs => s!"spec-wf {b2s (Spec.wellFormed bs)}"
    | none => "bad-op"
  | ["spec-rfc", d] =>
    match Nstd.Common.fromHex d with
    | some bs => s!"spec-rfc {b2s (Spec.rfc3629 bs)} {b2s (Spec.oneSeq bs)} {Spec.seqValue bs} {b2s (Spec.shortest bs)}"
    | none => "bad-op"
  | ["spec-dec", n] =>
    match n.toNat? with
    | some n => s!"spec-dec {asciiStr (decDigits n)} {Spec.decimalValue (decDigits n)}"
    | none => "bad-op"
  | _ => "bad-op")

end Nstd.Codec

def main : IO Unit := Nstd.Common.ioLoop () Nstd.Codec.stepLine
