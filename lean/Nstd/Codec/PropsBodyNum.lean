import Nstd.Codec.Model
import Nstd.Generated.CodecNum
/-!
  Property C18, tie by translation, part 3: the numeric wrappers of src/String.cpp.
  `Nstd.Generated.CodecNum` is written by tools/gen_codec.py (part 3) from the CURRENT source text of the ten one-line
  parsers (`toInt`, `toUInt`, `toInt64`, `toUInt64`, `toDouble`, member and static: String.cpp:124-128, 161-165) and the
  five formatters (`fromInt` … `fromDouble`: 206-239): WHICH libc function is called, with which arguments
  (`(text)` resp. `(text, 0, 10)`), how its result converts to the declared return type (e.g. `unsigned long` -> `uint`
  is `% 2^32`), which `printf` conversion prints which C type.  The theorems say that these are the wrappers of
  Model.lean, about which PropsNum.lean speaks (all relative to the libc DEFINITIONS of Model.lean).  A wrapper that calls
  another function (seeded change C18-2: `strtoll` inside `toUInt64(const char*)`) or formats differently (C18-4, C18-8:
  hand-written digit loops) is refused by the translator or makes one of these `rfl`s fail.
-/
namespace Nstd.Codec
open Nstd.Generated

theorem body_toInt : CodecNum.toInt = toInt := rfl
theorem body_toUInt : CodecNum.toUInt = toUInt := rfl
theorem body_toInt64 : CodecNum.toInt64 = toInt64 := rfl
theorem body_toUInt64 : CodecNum.toUInt64 = toUInt64 := rfl
theorem body_toDouble : CodecNum.toDouble = toDouble := rfl
theorem body_toIntS : CodecNum.toIntS = toIntS := rfl
theorem body_toUIntS : CodecNum.toUIntS = toUIntS := rfl
theorem body_toInt64S : CodecNum.toInt64S = toInt64S := rfl
theorem body_toUInt64S : CodecNum.toUInt64S = toUInt64S := rfl
theorem body_toDoubleS : CodecNum.toDoubleS = toDoubleS := rfl
theorem body_fromInt : CodecNum.fromInt = fromInt := rfl
theorem body_fromUInt : CodecNum.fromUInt = fromUInt := rfl
theorem body_fromInt64 : CodecNum.fromInt64 = fromInt64 := rfl
theorem body_fromUInt64 : CodecNum.fromUInt64 = fromUInt64 := rfl
theorem body_fromDouble : CodecNum.fromDouble = fromDouble := rfl

/-- the eight `<cctype>` wrappers (String.cpp:168-175) hand the BYTE value (`(uchar&)c`) to the libc function of the "C" locale
    definitions `cIs*` the driver prints on every `cls` line, and test `!= 0` -/
theorem body_ctype_wrappers :
    CodecNum.isAlphanumeric = cIsAlnum ∧ CodecNum.isAlpha = cIsAlpha ∧ CodecNum.isDigit = cIsDigit ∧
    CodecNum.isLowerCase = cIsLower ∧ CodecNum.isPrint = cIsPrint ∧ CodecNum.isPunct = cIsPunct ∧
    CodecNum.isUpperCase = cIsUpper ∧ CodecNum.isHexDigit = cIsXDigit :=
  ⟨rfl, rfl, rfl, rfl, rfl, rfl, rfl, rfl⟩

/-
  OPEN (not translated, hand translation tied by the correspondence run only):
  * `String::fromPrintf` (String.cpp:58-97): a second copy of the two-attempt algorithm over `vsnprintf` (on `String s(200)`), translated
    by neither this area nor Str; the model function `fromPrintf` mirrors it by hand (`fromPrintf_text`).  `String::printf`
    (17-56) itself is CLOSED: PropsBodyFmt.lean goes through the Str area's translation of its body (`printf_translated`) - the
    Codec model's `printf printfCap text` is shown to be the value the translated body leaves in the String.
  * `cstr`: what `operator const char*` hands to libc (the chars up to the first NUL) is the model's reading of area Str.
  * the libc functions themselves (`atoi`, `strtoul`, `vsnprintf`, ...) are DEFINITIONS in Model.lean, compared with the real libc
    on the `lcs` / `lcf` / `cls` / `fd` lines of every run.
-/

/-- The boundary rows of the numeric clause, evaluated on the model (the same texts are in corpus/C18/unsigned-negation.txt and
    run through the real `String::to*` and through direct calls of the real libc on every check): the negation rule of
    `strtoul`/`strtoull` ("-1" is the maximum, "-18446744073709551615" is 1), saturation at `ULLONG_MAX`, `LLONG_MIN/MAX`,
    truncation of the `unsigned long` to `uint`, and what glibc's `atoi` does beyond the `int` range (conversion modulo 2^32 of
    the saturated `long`; undefined by ISO C: `toInt_numeral`) -/
theorem numeric_boundary_table :
    toUInt64 [45, 49] = 18446744073709551615 ∧
    toUInt64S [45, 49] = 18446744073709551615 ∧
    toUInt [45, 49] = 4294967295 ∧
    toUIntS [45, 49] = 4294967295 ∧
    toUInt64 [49, 56, 52, 52, 54, 55, 52, 52, 48, 55, 51, 55, 48, 57, 53, 53, 49, 54, 49, 53] = 18446744073709551615 ∧
    toUInt64 [49, 56, 52, 52, 54, 55, 52, 52, 48, 55, 51, 55, 48, 57, 53, 53, 49, 54, 49, 54] = 18446744073709551615 ∧
    toUInt64 [45, 49, 56, 52, 52, 54, 55, 52, 52, 48, 55, 51, 55, 48, 57, 53, 53, 49, 54, 49, 53] = 1 ∧
    toUInt64 [45, 49, 56, 52, 52, 54, 55, 52, 52, 48, 55, 51, 55, 48, 57, 53, 53, 49, 54, 49, 54] = 18446744073709551615 ∧
    toUInt64 [45, 57, 50, 50, 51, 51, 55, 50, 48, 51, 54, 56, 53, 52, 55, 55, 53, 56, 48, 56] = 9223372036854775808 ∧
    toUInt64 [32, 9, 43, 48, 48, 55, 120] = 7 ∧
    toUInt [52, 50, 57, 52, 57, 54, 55, 50, 57, 53] = 4294967295 ∧
    toUInt [52, 50, 57, 52, 57, 54, 55, 50, 57, 54] = 0 ∧
    toUInt [52, 50, 57, 52, 57, 54, 55, 50, 57, 55] = 1 ∧
    toUInt [45, 52, 50, 57, 52, 57, 54, 55, 50, 57, 53] = 1 ∧
    toUInt [45, 52, 50, 57, 52, 57, 54, 55, 50, 57, 54] = 0 ∧
    toUInt [49, 56, 52, 52, 54, 55, 52, 52, 48, 55, 51, 55, 48, 57, 53, 53, 49, 54, 49, 54] = 4294967295 ∧
    toInt64 [57, 50, 50, 51, 51, 55, 50, 48, 51, 54, 56, 53, 52, 55, 55, 53, 56, 48, 55] = 9223372036854775807 ∧
    toInt64 [57, 50, 50, 51, 51, 55, 50, 48, 51, 54, 56, 53, 52, 55, 55, 53, 56, 48, 56] = 9223372036854775807 ∧
    toInt64 [45, 57, 50, 50, 51, 51, 55, 50, 48, 51, 54, 56, 53, 52, 55, 55, 53, 56, 48, 56] = (-9223372036854775808) ∧
    toInt64 [45, 57, 50, 50, 51, 51, 55, 50, 48, 51, 54, 56, 53, 52, 55, 55, 53, 56, 48, 57] = (-9223372036854775808) ∧
    toInt64S [57, 57, 57, 57, 57, 57, 57, 57, 57, 57, 57, 57, 57, 57, 57, 57, 57, 57, 57, 57, 57, 57, 57, 57, 57, 57] = 9223372036854775807 ∧
    toInt [50, 49, 52, 55, 52, 56, 51, 54, 52, 55] = 2147483647 ∧
    toInt [45, 50, 49, 52, 55, 52, 56, 51, 54, 52, 56] = (-2147483648) ∧
    toInt [50, 49, 52, 55, 52, 56, 51, 54, 52, 56] = (-2147483648) ∧
    toInt [45, 50, 49, 52, 55, 52, 56, 51, 54, 52, 57] = 2147483647 ∧
    toInt [52, 50, 57, 52, 57, 54, 55, 50, 57, 54] = 0 ∧
    toIntS [57, 50, 50, 51, 51, 55, 50, 48, 51, 54, 56, 53, 52, 55, 55, 53, 56, 48, 56] = (-1) := by
  decide +kernel

end Nstd.Codec
