import Nstd.Codec.Model
import Nstd.Codec.Spec
/-!
  Lemmas for the integer conversions (C18): `String::printf` returns the formatted text for
  every buffer capacity; parsing the decimal digits of `n` gives `n` (induction over the
  digit recursion, no bound on `n`).
-/
namespace Nstd.Codec

theorem printf_eq (cap : Nat) (text : List Nat) : printf cap text = text := by
  unfold printf vsnprintf
  simp only []
  by_cases h : text.length < cap
  · have e1 : text.take (cap - 1) = text := List.take_of_length_le (by omega)
    rw [if_pos h, e1, List.take_of_length_le (Nat.le_refl _)]
  · rw [if_neg h]
    simp

/-- accumulate the decimal digits of `n` into `acc`, mirroring `decDigits` -/
def shiftIn (acc n : Nat) : Nat :=
  if h : n < 10 then acc * 10 + n else shiftIn acc (n / 10) * 10 + n % 10
termination_by n
decreasing_by omega

theorem shiftIn_zero (n : Nat) : shiftIn 0 n = n := by
  induction n using shiftIn.induct with
  | case1 n h => rw [shiftIn, dif_pos h]; omega
  | case2 n h ih => rw [shiftIn, dif_neg h, ih]; omega

theorem parseDigits_dec (n : Nat) : ∀ (acc : Nat) (tl : List Nat),
    parseDigits acc (decDigits n ++ tl) = parseDigits (shiftIn acc n) tl := by
  induction n using decDigits.induct with
  | case1 n h =>
    intro acc tl
    rw [decDigits, dif_pos h, shiftIn, dif_pos h]
    simp only [List.cons_append, List.nil_append, parseDigits]
    have : isDigit (48 + n) = true := by simp [isDigit]; omega
    rw [if_pos this]
    congr 1; omega
  | case2 n h ih =>
    intro acc tl
    rw [decDigits, dif_neg h, shiftIn, dif_neg h, List.append_assoc, ih]
    simp only [List.cons_append, List.nil_append, parseDigits]
    have : isDigit (48 + n % 10) = true := by simp [isDigit]; omega
    rw [if_pos this]
    congr 1; omega

theorem parseDigits_decDigits (n : Nat) : parseDigits 0 (decDigits n) = n := by
  have := parseDigits_dec n 0 []
  rw [List.append_nil, shiftIn_zero] at this
  exact this

theorem decDigits_head (n : Nat) : ∃ d ds, decDigits n = d :: ds ∧ 48 ≤ d ∧ d ≤ 57 := by
  induction n using decDigits.induct with
  | case1 n h => exact ⟨48 + n, [], by rw [decDigits, dif_pos h], by omega, by omega⟩
  | case2 n h ih =>
    obtain ⟨d, ds, e, h1, h2⟩ := ih
    exact ⟨d, ds ++ [48 + n % 10], by rw [decDigits, dif_neg h, e]; rfl, h1, h2⟩

theorem strtoMag_unsigned (n : Nat) : strtoMag (decDigits n) = (false, n) := by
  obtain ⟨d, ds, e, h1, h2⟩ := decDigits_head n
  have hp := parseDigits_decDigits n
  rw [e] at hp
  have hs : isSpace d = false := by simp [isSpace]; omega
  have h45 : d ≠ 45 := by omega
  have h43 : d ≠ 43 := by omega
  simp [strtoMag, e, skipSpace, hs, h45, h43, hp]

theorem strtoMag_neg (n : Nat) : strtoMag (45 :: decDigits n) = (true, n) := by
  have hs : isSpace 45 = false := by decide
  simp [strtoMag, skipSpace, hs, parseDigits_decDigits]


theorem decimalValue_decDigits_aux (n : Nat) : ∀ acc : Nat,
    (decDigits n).foldl (fun a d => a * 10 + (d - 48)) acc = shiftIn acc n := by
  induction n using decDigits.induct with
  | case1 n h =>
    intro acc
    rw [decDigits, dif_pos h, shiftIn, dif_pos h]
    simp only [List.foldl_cons, List.foldl_nil]
    omega
  | case2 n h ih =>
    intro acc
    rw [decDigits, dif_neg h, shiftIn, dif_neg h, List.foldl_append, ih]
    simp only [List.foldl_cons, List.foldl_nil]
    omega

theorem strtoull_dec (n : Nat) (h : n ≤ 18446744073709551615) : strtoull (decDigits n) = n := by
  unfold strtoull
  rw [strtoMag_unsigned]
  simp only []
  rw [if_neg (by omega)]
  simp

theorem strtoll_fmt (v : Int) (h1 : -9223372036854775808 ≤ v) (h2 : v ≤ 9223372036854775807) :
    strtoll (fmtSigned v) = v := by
  unfold strtoll fmtSigned
  by_cases hv : v < 0
  · rw [if_pos hv, strtoMag_neg]
    simp only [if_true]
    rw [if_neg (by omega)]
    omega
  · rw [if_neg hv, strtoMag_unsigned]
    simp only [Bool.false_eq_true, if_false]
    rw [if_neg (by omega)]
    omega

end Nstd.Codec
