import Nstd.Codec.Model
import Nstd.Codec.Spec
/-!
  Lemmas for the integer conversions (C18): `String::printf` returns the formatted text for
  every buffer capacity; parsing the decimal digits of `n` gives `n` (induction over the
  digit recursion, no bound on `n`).
-/
namespace Nstd.Codec

theorem printf_eq (cap : Nat) (text : List Nat) : printf cap text = text := by
  unfold printf vsnprintf
  simp only []
  by_cases h : text.length < cap
  · have e1 : text.take (cap - 1) = text := List.take_of_length_le (by omega)
    rw [if_pos h, e1, List.take_of_length_le (Nat.le_refl _)]
  · rw [if_neg h]
    simp

/-- accumulate the decimal digits of `n` into `acc`, mirroring `decDigits` -/
def shiftIn (acc n : Nat) : Nat :=
  if h : n < 10 then acc * 10 + n else shiftIn acc (n / 10) * 10 + n % 10
termination_by n
decreasing_by omega

theorem shiftIn_zero (n : Nat) : shiftIn 0 n = n := by
  induction n using shiftIn.induct with
  | case1 n h => rw [shiftIn, dif_pos h]; omega
  | case2 n h ih => rw [shiftIn, dif_neg h, ih]; omega

theorem parseDigits_dec (n : Nat) : ∀ (acc : Nat) (tl : List Nat),
    parseDigits acc (decDigits n ++ tl) = parseDigits (shiftIn acc n) tl := by
  induction n using decDigits.induct with
  | case1 n h =>
    intro acc tl
    rw [decDigits, dif_pos h, shiftIn, dif_pos h]
    simp only [List.cons_append, List.nil_append, parseDigits]
    have : isDigit (48 + n) = true := by simp [isDigit]; omega
    rw [if_pos this]
    congr 1; omega
  | case2 n h ih =>
    intro acc tl
    rw [decDigits, dif_neg h, shiftIn, dif_neg h, List.append_assoc, ih]
    simp only [List.cons_append, List.nil_append, parseDigits]
    have : isDigit (48 + n % 10) = true := by simp [isDigit]; omega
    rw [if_pos this]
    congr 1; omega

theorem parseDigits_decDigits (n : Nat) : parseDigits 0 (decDigits n) = n := by
  have := parseDigits_dec n 0 []
  rw [List.append_nil, shiftIn_zero] at this
  exact this

theorem decDigits_head (n : Nat) : ∃ d ds, decDigits n = d :: ds ∧ 48 ≤ d ∧ d ≤ 57 := by
  induction n using decDigits.induct with
  | case1 n h => exact ⟨48 + n, [], by rw [decDigits, dif_pos h], by omega, by omega⟩
  | case2 n h ih =>
    obtain ⟨d, ds, e, h1, h2⟩ := ih
    exact ⟨d, ds ++ [48 + n % 10], by rw [decDigits, dif_neg h, e]; rfl, h1, h2⟩

theorem strtoMag_unsigned (n : Nat) : strtoMag (decDigits n) = (false, n) := by
  obtain ⟨d, ds, e, h1, h2⟩ := decDigits_head n
  have hp := parseDigits_decDigits n
  rw [e] at hp
  have hs : isSpace d = false := by simp [isSpace]; omega
  have h45 : d ≠ 45 := by omega
  have h43 : d ≠ 43 := by omega
  simp [strtoMag, e, skipSpace, hs, h45, h43, hp]

theorem strtoMag_neg (n : Nat) : strtoMag (45 :: decDigits n) = (true, n) := by
  have hs : isSpace 45 = false := by decide
  simp [strtoMag, skipSpace, hs, parseDigits_decDigits]


theorem decimalValue_decDigits_aux (n : Nat) : ∀ acc : Nat,
    (decDigits n).foldl (fun a d => a * 10 + (d - 48)) acc = shiftIn acc n := by
  induction n using decDigits.induct with
  | case1 n h =>
    intro acc
    rw [decDigits, dif_pos h, shiftIn, dif_pos h]
    simp only [List.foldl_cons, List.foldl_nil]
    omega
  | case2 n h ih =>
    intro acc
    rw [decDigits, dif_neg h, shiftIn, dif_neg h, List.foldl_append, ih]
    simp only [List.foldl_cons, List.foldl_nil]
    omega

theorem strtoull_dec (n : Nat) (h : n ≤ 18446744073709551615) : strtoull (decDigits n) = n := by
  unfold strtoull
  rw [strtoMag_unsigned]
  simp only []
  rw [if_neg (by omega)]
  simp

theorem strtoll_fmt (v : Int) (h1 : -9223372036854775808 ≤ v) (h2 : v ≤ 9223372036854775807) :
    strtoll (fmtSigned v) = v := by
  unfold strtoll fmtSigned
  by_cases hv : v < 0
  · rw [if_pos hv, strtoMag_neg]
    simp only [if_true]
    rw [if_neg (by omega)]
    omega
  · rw [if_neg hv, strtoMag_unsigned]
    simp only [Bool.false_eq_true, if_false]
    rw [if_neg (by omega)]
    omega

/-! ### arbitrary numerals: white space, optional sign, digits (leading zeros allowed), trailing junk -/
theorem skipSpace_append (ws rest : List Nat) (hws : ∀ c ∈ ws, isSpace c = true) :
    skipSpace (ws ++ rest) = skipSpace rest := by
  induction ws with
  | nil => rfl
  | cons c cs ih =>
    have hc : isSpace c = true := hws c (List.mem_cons_self ..)
    simp only [List.cons_append, skipSpace, hc, if_true]
    exact ih (fun x hx => hws x (List.mem_cons_of_mem _ hx))

theorem skipSpace_nonspace (c : Nat) (cs : List Nat) (h : isSpace c = false) : skipSpace (c :: cs) = c :: cs := by
  simp [skipSpace, h]

theorem parseDigits_numeral (ds : List Nat) : ∀ (acc : Nat) (junk : List Nat), (∀ d ∈ ds, isDigit d = true) →
    (∀ c tl, junk = c :: tl → isDigit c = false) →
    parseDigits acc (ds ++ junk) = ds.foldl (fun a d => a * 10 + (d - 48)) acc := by
  induction ds with
  | nil =>
    intro acc junk _ hj
    cases junk with
    | nil => rfl
    | cons c tl => simp [parseDigits, hj c tl rfl]
  | cons d ds ih =>
    intro acc junk hd hj
    have h0 : isDigit d = true := hd d (List.mem_cons_self ..)
    simp only [List.cons_append, parseDigits, h0, if_true, List.foldl_cons]
    exact ih _ junk (fun x hx => hd x (List.mem_cons_of_mem _ hx)) hj

theorem digit_facts (d : Nat) (h : isDigit d = true) : isSpace d = false ∧ d ≠ 45 ∧ d ≠ 43 := by
  simp [isDigit] at h
  refine ⟨?_, by omega, by omega⟩
  simp [isSpace]; omega

/-- `strtoMag` of a numeral: sign flag and `Spec.decimalValue` of the digit string -/
theorem strtoMag_numeral (ws sign ds junk : List Nat) (hws : ∀ c ∈ ws, isSpace c = true)
    (hsign : sign = [] ∨ sign = [43] ∨ sign = [45]) (hds : ∀ d ∈ ds, isDigit d = true) (hne : ds ≠ [])
    (hj : ∀ c tl, junk = c :: tl → isDigit c = false) :
    strtoMag (ws ++ (sign ++ (ds ++ junk))) = (decide (sign = [45]), Spec.decimalValue ds) := by
  unfold strtoMag Spec.decimalValue
  rw [skipSpace_append ws _ hws]
  rcases hsign with rfl | rfl | rfl
  · cases ds with
    | nil => exact absurd rfl hne
    | cons d ds' =>
      obtain ⟨f1, f2, f3⟩ := digit_facts d (hds d (List.mem_cons_self ..))
      rw [List.nil_append, List.cons_append, skipSpace_nonspace _ _ f1]
      simp only [if_neg f2, if_neg f3]
      rw [← List.cons_append, parseDigits_numeral _ 0 junk hds hj]
      simp
  · have hs : isSpace 43 = false := by decide
    rw [List.cons_append, List.nil_append, skipSpace_nonspace _ _ hs]
    simp only [show ¬ (43 : Nat) = 45 by decide, if_false, if_true]
    rw [parseDigits_numeral _ 0 junk hds hj]
    simp
  · have hs : isSpace 45 = false := by decide
    rw [List.cons_append, List.nil_append, skipSpace_nonspace _ _ hs]
    simp only [if_true]
    rw [parseDigits_numeral _ 0 junk hds hj]
    simp

end Nstd.Codec
