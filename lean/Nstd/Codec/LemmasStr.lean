import Nstd.Codec.LemmasUtf8
/-!
  Lemmas for fromHex / fromBase64 (C18): table facts over the GENERATED tables by `decide`, the bit
  identities of the 4 -> 3 regrouping over small domains, the loop of `fromBase64` per group
  of symbols, and the bounds invariant of its table reads and output writes.
-/
namespace Nstd.Codec
open Nstd.Generated.Codec

/-- the values of a `UInt8` list are bytes -/
theorem bytes_lt (bs : List UInt8) : ∀ b ∈ bs.map UInt8.toNat, b < 256 := by
  intro b hb
  obtain ⟨x, _, rfl⟩ := List.mem_map.mp hb
  exact x.toNat_lt

/-! ### hex -/
theorem hexAlphabet_upper : ∀ n, n < 16 → rd hexAlphabet n = .ok (Spec.upperHexDigit n) := by decide
theorem hexHi_eq (b : Nat) : hexHi b = b / 16 := Nat.shiftRight_eq_div_pow b 4
theorem hexLo_eq (b : Nat) : hexLo b = b % 16 := Nat.and_two_pow_sub_one_eq_mod b 4

/-! ### base64 tables -/
set_option maxRecDepth 4000 in
theorem b64_table_len : base64de.length = 123 := by decide
/-- the generated per-byte tests (`b64Byte`, in the source order of guard / table read / marker / pad tests)
    map every alphabet character to its value ... -/
theorem b64Byte_char : ∀ v, v < 64 → b64Byte (Spec.b64Char v) = .ok (.val v) := by decide +kernel
/-- ... leave the loop at `=` ... -/
theorem b64Byte_pad : b64Byte 61 = .ok .stop := by decide +kernel
/-- ... and never index the decode table out of bounds, whatever the byte (this is D26: false for the signed
    comparison, which lets bytes >= 0x80 reach `base64de[128..255]`) -/
theorem b64Byte_no_oob : ∀ b, b < 256 → b64Byte b ≠ .oob := by decide +kernel

theorem b64Byte_ok (b : Nat) (h : b < 256) : ∃ s, b64Byte b = .ok s := by
  cases hb : b64Byte b with
  | ok s => exact ⟨s, rfl⟩
  | oob => exact absurd hb (b64Byte_no_oob b h)

/-! ### bit identities of the 4 -> 3 regrouping (small domains) -/
theorem b64_byte0 : ∀ a, a < 256 → ∀ h, h < 16 →
    b64Set0 (a / 4) ||| b64Or1 (a % 4 * 16 + h) = a := by decide +kernel
theorem b64_byte1 : ∀ a2, a2 < 4 → ∀ b, b < 256 → ∀ c2, c2 < 4 →
    b64Set1 (a2 * 16 + b / 16) ||| b64Or2 (b % 16 * 4 + c2) = b := by decide +kernel
theorem b64_byte2 : ∀ b4, b4 < 16 → ∀ c, c < 256 →
    b64Set2 (b4 * 4 + c / 64) ||| b64Or3 (c % 64) = c := by decide +kernel

/-! ### the loop of fromBase64 -/
theorem take_succ_set {l : List Nat} {j v : Nat} (h : j < l.length) :
    (l.set j v).take (j + 1) = l.take j ++ [v] := by
  rw [List.take_add_one, List.take_set_of_le (Nat.le_refl j), List.getElem?_set_self h]
  rfl

theorem wr_ok {out : List Nat} {j v : Nat} (h : j < out.length) : wr out j v = .ok (out.set j v) := by
  unfold wr; rw [if_pos h]

theorem rd_set_self {out : List Nat} {j v : Nat} (h : j < out.length) : rd (out.set j v) j = .ok v := by
  unfold rd; rw [List.getElem?_set_self h]

theorem and3 (i : Nat) : i &&& 3 = i % 4 := Nat.and_two_pow_sub_one_eq_mod i 2
theorem phase_eq (i : Nat) : b64Phase i = i % 4 := and3 i

/-- the generated length test rejects exactly the lengths that are not a multiple of four -/
theorem lenRejects_eq (n : Nat) : b64LenRejects n = decide (n % 4 ≠ 0) := by
  first
  | rfl
  | (unfold b64LenRejects; rw [and3])

/-- the generated `reserve` request holds the 3 bytes per 4 symbols the loop stores -/
theorem reserve_enough (n : Nat) (h : n % 4 = 0) : 3 * (n / 4) ≤ b64Reserve n := by
  unfold b64Reserve
  omega

theorem b64Loop_alpha (v : Nat) (rest : List Nat) (i j : Nat) (out : List Nat) (hv : v < 64) :
    b64Loop (Spec.b64Char v :: rest) i j out =
      (b64Switch i v j out).bind fun r => b64Loop rest (i + 1) r.1 r.2 := by
  rw [b64Loop, b64Byte_char v hv, Res.bind_ok]

theorem b64Loop_pad (rest : List Nat) (i j : Nat) (out : List Nat) :
    b64Loop (61 :: rest) i j out = .ok (some (j, out)) := by
  rw [b64Loop, b64Byte_pad, Res.bind_ok]

theorem sw0 (i c j : Nat) (out : List Nat) (hi : i % 4 = 0) (hj : j < out.length) :
    b64Switch i c j out = .ok (j, out.set j (b64Set0 c)) := by
  unfold b64Switch
  rw [phase_eq, if_pos hi, wr_ok hj]; rfl

theorem sw1 (i c j x : Nat) (out : List Nat) (hi : i % 4 = 1) (hj : j + 1 < out.length) :
    b64Switch i c j (out.set j x) =
      .ok (j + 1, (out.set j (x ||| b64Or1 c)).set (j + 1) (b64Set1 c)) := by
  unfold b64Switch
  rw [phase_eq, if_neg (by omega), if_pos hi, rd_set_self (by omega), Res.bind_ok,
    wr_ok (by rw [List.length_set]; omega), Res.bind_ok, List.set_set,
    wr_ok (by rw [List.length_set]; omega)]; rfl

theorem sw2 (i c j x : Nat) (out : List Nat) (hi : i % 4 = 2) (hj : j + 1 < out.length) :
    b64Switch i c j (out.set j x) =
      .ok (j + 1, (out.set j (x ||| b64Or2 c)).set (j + 1) (b64Set2 c)) := by
  unfold b64Switch
  rw [phase_eq, if_neg (by omega), if_neg (by omega), if_pos hi, rd_set_self (by omega), Res.bind_ok,
    wr_ok (by rw [List.length_set]; omega), Res.bind_ok, List.set_set,
    wr_ok (by rw [List.length_set]; omega)]; rfl

theorem sw3 (i c j x : Nat) (out : List Nat) (hi : i % 4 = 3) (hj : j < out.length) :
    b64Switch i c j (out.set j x) = .ok (j + 1, out.set j (x ||| b64Or3 c)) := by
  unfold b64Switch
  rw [phase_eq, if_neg (by omega), if_neg (by omega), if_neg (by omega), rd_set_self (by omega), Res.bind_ok,
    wr_ok (by rw [List.length_set]; omega), Res.bind_ok, List.set_set]

/-- two symbols: the first output byte is complete, the second started -/
theorem b64_two (v0 v1 : Nat) (rest : List Nat) (i j : Nat) (out : List Nat) (h0 : v0 < 64) (h1 : v1 < 64)
    (hi : i % 4 = 0) (hj : j + 1 < out.length) :
    b64Loop (Spec.b64Char v0 :: Spec.b64Char v1 :: rest) i j out =
      b64Loop rest (i + 2) (j + 1)
        ((out.set j (b64Set0 v0 ||| b64Or1 v1)).set (j + 1) (b64Set1 v1)) := by
  rw [b64Loop_alpha _ _ _ _ _ h0, sw0 _ _ _ _ hi (by omega), Res.bind_ok,
    b64Loop_alpha _ _ _ _ _ h1, sw1 _ _ _ _ _ (by omega) hj, Res.bind_ok]

theorem b64_three (v0 v1 v2 : Nat) (rest : List Nat) (i j : Nat) (out : List Nat) (h0 : v0 < 64) (h1 : v1 < 64)
    (h2 : v2 < 64) (hi : i % 4 = 0) (hj : j + 2 < out.length) :
    b64Loop (Spec.b64Char v0 :: Spec.b64Char v1 :: Spec.b64Char v2 :: rest) i j out =
      b64Loop rest (i + 3) (j + 2)
        (((out.set j (b64Set0 v0 ||| b64Or1 v1)).set (j + 1)
          (b64Set1 v1 ||| b64Or2 v2)).set (j + 2) (b64Set2 v2)) := by
  rw [b64_two _ _ _ _ _ _ h0 h1 hi (by omega), b64Loop_alpha _ _ _ _ _ h2,
    sw2 _ _ _ _ _ (by omega) (by rw [List.length_set]; omega), Res.bind_ok]

theorem b64_four (v0 v1 v2 v3 : Nat) (rest : List Nat) (i j : Nat) (out : List Nat) (h0 : v0 < 64) (h1 : v1 < 64)
    (h2 : v2 < 64) (h3 : v3 < 64) (hi : i % 4 = 0) (hj : j + 2 < out.length) :
    b64Loop (Spec.b64Char v0 :: Spec.b64Char v1 :: Spec.b64Char v2 :: Spec.b64Char v3 :: rest) i j out =
      b64Loop rest (i + 4) (j + 3)
        (((out.set j (b64Set0 v0 ||| b64Or1 v1)).set (j + 1)
          (b64Set1 v1 ||| b64Or2 v2)).set (j + 2) (b64Set2 v2 ||| b64Or3 v3)) := by
  rw [b64_three _ _ _ _ _ _ _ h0 h1 h2 hi hj, b64Loop_alpha _ _ _ _ _ h3,
    sw3 _ _ _ _ _ (by omega) (by simp only [List.length_set]; omega), Res.bind_ok]


theorem enc_length_mod (bs : List Nat) : (Spec.rfc4648Encode bs).length % 4 = 0 := by
  induction bs using Spec.rfc4648Encode.induct with
  | case1 => rfl
  | case2 a => simp [Spec.rfc4648Encode]
  | case3 a b => simp [Spec.rfc4648Encode]
  | case4 a b c rest ih =>
    rw [Spec.rfc4648Encode]
    simp only [List.length_cons]
    omega

theorem take1of2 (out : List Nat) (j a b : Nat) (h : j + 1 < out.length) :
    ((out.set j a).set (j + 1) b).take (j + 1) = out.take j ++ [a] := by
  rw [List.take_set_of_le (Nat.le_refl _), take_succ_set (by omega)]

theorem take2of3 (out : List Nat) (j a b c : Nat) (h : j + 2 < out.length) :
    (((out.set j a).set (j + 1) b).set (j + 2) c).take (j + 2) = out.take j ++ [a, b] := by
  rw [List.take_set_of_le (Nat.le_refl _), show j + 2 = (j + 1) + 1 from rfl,
    take_succ_set (by rw [List.length_set]; omega), take_succ_set (by omega)]
  simp

theorem take3of3 (out : List Nat) (j a b c : Nat) (h : j + 2 < out.length) :
    (((out.set j a).set (j + 1) b).set (j + 2) c).take (j + 3) = out.take j ++ [a, b, c] := by
  rw [show j + 3 = (j + 2) + 1 from rfl, take_succ_set (by simp only [List.length_set]; omega),
    show j + 2 = (j + 1) + 1 from rfl, take_succ_set (by rw [List.length_set]; omega), take_succ_set (by omega)]
  simp

theorem b64_decode_gen (bs : List Nat) :
    (∀ b ∈ bs, b < 256) → ∀ (i j : Nat) (out : List Nat), i % 4 = 0 →
      j + 3 * ((Spec.rfc4648Encode bs).length / 4) ≤ out.length →
      ∃ out', b64Loop (Spec.rfc4648Encode bs) i j out = .ok (some (j + bs.length, out')) ∧
        out'.take (j + bs.length) = out.take j ++ bs := by
  induction bs using Spec.rfc4648Encode.induct with
  | case1 =>
    intro _ i j out _ _
    exact ⟨out, rfl, by simp⟩
  | case2 a =>
    intro hb i j out hi hl
    have ha : a < 256 := hb a (by simp)
    simp only [Spec.rfc4648Encode, List.length_cons, List.length_nil] at hl ⊢
    rw [b64_two _ _ _ _ _ _ (by omega) (by omega) hi (by omega), b64Loop_pad]
    refine ⟨_, rfl, ?_⟩
    have e := b64_byte0 a ha 0 (by omega)
    simp only [Nat.add_zero] at e
    rw [e, take1of2 _ _ _ _ (by omega)]
  | case3 a b =>
    intro hb i j out hi hl
    have ha : a < 256 := hb a (by simp)
    have hb' : b < 256 := hb b (by simp)
    simp only [Spec.rfc4648Encode, List.length_cons, List.length_nil] at hl ⊢
    rw [b64_three _ _ _ _ _ _ _ (by omega) (by omega) (by omega) hi (by omega), b64Loop_pad]
    refine ⟨_, rfl, ?_⟩
    have e0 := b64_byte0 a ha (b / 16) (by omega)
    have e1 := b64_byte1 (a % 4) (by omega) b hb' 0 (by omega)
    simp only [Nat.add_zero] at e1
    rw [e0, e1, take2of3 _ _ _ _ _ (by omega)]
  | case4 a b c rest ih =>
    intro hb i j out hi hl
    have ha : a < 256 := hb a (by simp)
    have hb' : b < 256 := hb b (by simp)
    have hc : c < 256 := hb c (by simp)
    have hrest : ∀ x ∈ rest, x < 256 := fun x hx => hb x (by simp [hx])
    have hmod := enc_length_mod rest
    simp only [Spec.rfc4648Encode, List.length_cons] at hl ⊢
    rw [b64_four _ _ _ _ _ _ _ _ (by omega) (by omega) (by omega) (by omega) hi (by omega)]
    have e0 := b64_byte0 a ha (b / 16) (by omega)
    have e1 := b64_byte1 (a % 4) (by omega) b hb' (c / 64) (by omega)
    have e2 := b64_byte2 (b % 16) (by omega) c hc
    rw [e0, e1, e2]
    obtain ⟨out', h1, h2⟩ := ih hrest (i + 4) (j + 3) (((out.set j a).set (j + 1) b).set (j + 2) c) (by omega)
      (by simp only [List.length_set]; omega)
    refine ⟨out', ?_, ?_⟩
    · rw [h1]; congr 3; omega
    · rw [show j + (rest.length + 1 + 1 + 1) = j + 3 + rest.length by omega, h2, take3of3 _ _ _ _ _ (by omega)]
      simp


theorem take2of2 (out : List Nat) (j a b : Nat) (h : j + 1 < out.length) :
    ((out.set j a).set (j + 1) b).take (j + 2) = out.take j ++ [a, b] := by
  rw [show j + 2 = (j + 1) + 1 from rfl, take_succ_set (by rw [List.length_set]; omega), take_succ_set (by omega)]
  simp

/-! ### the loop of fromHex -/
theorem fromHexLoop_upper (data : List Nat) : (∀ b ∈ data, b < 256) → ∀ (d : Nat) (out : List Nat),
    d + data.length * 2 ≤ out.length →
    ∃ out', fromHexLoop data d out = .ok out' ∧ out'.length = out.length ∧
      out'.take (d + data.length * 2) = out.take d ++ Spec.upperHex data := by
  induction data with
  | nil =>
    intro _ d out _
    exact ⟨out, rfl, rfl, by simp [Spec.upperHex]⟩
  | cons b rest ih =>
    intro h d out hl
    have hb : b < 256 := h b (List.mem_cons_self ..)
    have hr : ∀ x ∈ rest, x < 256 := fun x hx => h x (List.mem_cons_of_mem _ hx)
    simp only [List.length_cons] at hl
    rw [fromHexLoop, hexHi_eq, hexLo_eq, hexAlphabet_upper _ (by omega), hexAlphabet_upper _ (by omega),
      Res.bind_ok, wr_ok (by omega), Res.bind_ok, Res.bind_ok, wr_ok (by rw [List.length_set]; omega), Res.bind_ok]
    obtain ⟨out', h1, h2, h3⟩ := ih hr (d + 2)
      ((out.set d (Spec.upperHexDigit (b / 16))).set (d + 1) (Spec.upperHexDigit (b % 16)))
      (by rw [List.length_set, List.length_set]; omega)
    refine ⟨out', h1, by rw [h2, List.length_set, List.length_set], ?_⟩
    rw [List.length_cons, show d + (rest.length + 1) * 2 = d + 2 + rest.length * 2 by omega, h3,
      take2of2 _ _ _ _ (by omega)]
    simp [Spec.upperHex]

theorem fromHex_upper (bs : List Nat) (h : ∀ b ∈ bs, b < 256) : fromHex bs = .ok (Spec.upperHex bs) := by
  unfold fromHex
  obtain ⟨out', h1, h2, h3⟩ := fromHexLoop_upper bs h 0 (List.replicate (bs.length * 2) 0) (by simp)
  rw [h1]
  simp only [Nat.zero_add, List.take_zero, List.nil_append, List.length_replicate] at h2 h3
  rw [← h3, List.take_of_length_le (by omega)]

theorem fromBase64_rfc (bs : List Nat) (hb : ∀ b ∈ bs, b < 256) :
    fromBase64 (Spec.rfc4648Encode bs) = .ok bs := by
  unfold fromBase64
  have hmod := enc_length_mod bs
  rw [lenRejects_eq, if_neg (by simp [hmod])]
  obtain ⟨out', h1, h2⟩ := b64_decode_gen bs hb 0 0 (List.replicate (b64Reserve (Spec.rfc4648Encode bs).length) 0) rfl
    (by rw [List.length_replicate, Nat.zero_add]; exact reserve_enough _ hmod)
  rw [h1, Res.bind_ok]
  simp only [Nat.zero_add, List.take_zero, List.nil_append] at h2 ⊢
  have hj : bs.length ≤ out'.length := by
    have := congrArg List.length h2
    rw [List.length_take] at this
    omega
  rw [if_pos hj, h2]

/-! ### bounds of every table read and every `out[j]` access, for arbitrary input bytes -/
theorem b64Switch_ok (i c j n : Nat) (out : List Nat) (hj : j = 3 * (i / 4) + (i % 4 - 1))
    (hi : i < n) (hn : n % 4 = 0) (hcap : 3 * (n / 4) ≤ out.length) :
    ∃ j' out', b64Switch i c j out = .ok (j', out') ∧ out'.length = out.length ∧
      j' = 3 * ((i + 1) / 4) + ((i + 1) % 4 - 1) := by
  unfold b64Switch
  rw [phase_eq]
  by_cases h0 : i % 4 = 0
  · rw [if_pos h0, wr_ok (by omega)]
    exact ⟨_, _, rfl, by rw [List.length_set], by omega⟩
  · rw [if_neg h0]
    by_cases h1 : i % 4 = 1
    · rw [if_pos h1, rd_ok (by omega), Res.bind_ok, wr_ok (by omega), Res.bind_ok,
        wr_ok (by rw [List.length_set]; omega)]
      exact ⟨_, _, rfl, by simp only [List.length_set], by omega⟩
    · rw [if_neg h1]
      by_cases h2 : i % 4 = 2
      · rw [if_pos h2, rd_ok (by omega), Res.bind_ok, wr_ok (by omega), Res.bind_ok,
          wr_ok (by rw [List.length_set]; omega)]
        exact ⟨_, _, rfl, by simp only [List.length_set], by omega⟩
      · rw [if_neg h2, rd_ok (by omega), Res.bind_ok, wr_ok (by omega)]
        exact ⟨_, _, rfl, by simp only [List.length_set], by omega⟩

theorem b64Loop_ok (rest : List Nat) : (∀ b ∈ rest, b < 256) → ∀ (i j n : Nat) (out : List Nat),
    i + rest.length = n → n % 4 = 0 → 3 * (n / 4) ≤ out.length → j = 3 * (i / 4) + (i % 4 - 1) →
    ∃ r, b64Loop rest i j out = .ok r ∧ ∀ j' out', r = some (j', out') → j' ≤ out'.length := by
  induction rest with
  | nil =>
    intro _ i j n out hl hn hcap hj
    refine ⟨_, rfl, ?_⟩
    intro j' out' e
    simp only [Option.some.injEq, Prod.mk.injEq] at e
    obtain ⟨rfl, rfl⟩ := e
    simp only [List.length_nil] at hl
    omega
  | cons b rest ih =>
    intro hb i j n out hl hn hcap hj
    obtain ⟨s, hs⟩ := b64Byte_ok b (hb b (List.mem_cons_self ..))
    rw [b64Loop, hs, Res.bind_ok]
    simp only [List.length_cons] at hl
    cases s with
    | stop =>
      refine ⟨_, rfl, ?_⟩
      intro j' out' e
      simp only [Option.some.injEq, Prod.mk.injEq] at e
      obtain ⟨rfl, rfl⟩ := e
      omega
    | reject => exact ⟨_, rfl, fun _ _ e => by cases e⟩
    | val c =>
      obtain ⟨j', out', hsw, hlen, hj'⟩ := b64Switch_ok i c j n out hj (by omega) hn hcap
      simp only [hsw, Res.bind_ok]
      exact ih (fun x hx => hb x (List.mem_cons_of_mem _ hx)) (i + 1) j' n out' (by omega) hn (by omega) hj'

/-- for every input the loop ends with `j` inside the reserved bytes: `result.resize(j)` stays in place -/
theorem fromBase64_ok (inp : List Nat) (hb : ∀ b ∈ inp, b < 256) : ∃ r, fromBase64 inp = .ok r := by
  unfold fromBase64
  rw [lenRejects_eq]
  by_cases hm : inp.length % 4 ≠ 0
  · exact ⟨_, by rw [if_pos (by simpa using hm)]⟩
  · rw [if_neg (by simpa using hm)]
    have h4 : inp.length % 4 = 0 := by omega
    obtain ⟨r, hr, hbound⟩ := b64Loop_ok inp hb 0 0 inp.length (List.replicate (b64Reserve inp.length) 0) (by omega) h4
      (by rw [List.length_replicate]; exact reserve_enough _ h4) (by omega)
    rw [hr, Res.bind_ok]
    cases r with
    | none => exact ⟨_, rfl⟩
    | some p =>
      obtain ⟨j', out'⟩ := p
      exact ⟨out'.take j', by simp only [if_pos (hbound j' out' rfl)]⟩


/-! ### helpers of `hex_injective_and_concatenates` -/

theorem upperHex_append (a b : List Nat) : Spec.upperHex (a ++ b) = Spec.upperHex a ++ Spec.upperHex b := by
  induction a with
  | nil => rfl
  | cons x r ih => simp only [List.cons_append, Spec.upperHex, ih]

theorem map_toNat_inj : ∀ (a b : List UInt8), a.map UInt8.toNat = b.map UInt8.toNat → a = b
  | [], [], _ => rfl
  | [], _ :: _, h => by simp at h
  | _ :: _, [], h => by simp at h
  | x :: a, y :: b, h => by
    simp only [List.map_cons, List.cons.injEq] at h
    rw [UInt8.toNat_inj.mp h.1, map_toNat_inj a b h.2]


theorem upperHex_chars : ∀ (bs : List Nat), (∀ b ∈ bs, b < 256) → ∀ c ∈ Spec.upperHex bs, (48 ≤ c ∧ c ≤ 57) ∨ (65 ≤ c ∧ c ≤ 70)
  | [], _, c, hc => by simp [Spec.upperHex] at hc
  | b :: rest, hb, c, hc => by
    have hd : ∀ n, n < 16 → (48 ≤ Spec.upperHexDigit n ∧ Spec.upperHexDigit n ≤ 57) ∨ (65 ≤ Spec.upperHexDigit n ∧ Spec.upperHexDigit n ≤ 70) := by decide
    have hlt := hb b (List.mem_cons_self ..)
    simp only [Spec.upperHex, List.mem_cons] at hc
    rcases hc with rfl | rfl | hc
    · exact hd _ (by omega)
    · exact hd _ (Nat.mod_lt _ (by decide))
    · exact upperHex_chars rest (fun x hx => hb x (List.mem_cons_of_mem _ hx)) c hc

end Nstd.Codec
