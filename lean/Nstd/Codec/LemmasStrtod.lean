import Nstd.Codec.LemmasNum
/-!
  `roundToDbl` / `strtodM` are exact on representable values: when `num / den = m * 2^E` with `m < 2^53`,
  `-1074 <= E <= 971`, the rounding returns that double.  The exponent estimate of `pickExp` is not trusted: it is
  checked by `expOk`, and both the checked estimate and the fallback search give an exponent `e <= E` whose scaled
  value has at most 53 bits, which is all the proof needs.
-/
namespace Nstd.Codec
open Nstd.Generated.Codec

/-- `num / den = m * 2^E`, cross-multiplied -/
def Exact (num den m : Nat) (E : Int) : Prop :=
  if 0 ≤ E then num = m * 2 ^ E.toNat * den else num * 2 ^ (-E).toNat = m * den

theorem pow_split (a b : Nat) (h : b ≤ a) : 2 ^ a = 2 ^ (a - b) * 2 ^ b := by
  rw [← Nat.pow_add]; congr 1; omega

theorem two_pow_pos (a : Nat) : 0 < 2 ^ a := Nat.pow_pos (by decide)

theorem one_le_two_pow (a : Nat) : 1 ≤ 2 ^ a := two_pow_pos a

theorem qDen_pos (den : Nat) (e : Int) (hd : 0 < den) : 0 < qDen den e := by
  unfold qDen
  by_cases h : 0 ≤ e
  · rw [if_pos h]; exact Nat.mul_pos hd (two_pow_pos _)
  · rw [if_neg h]; exact hd

/-- at an exponent `e <= E` the scaled value is the integer `m * 2^(E-e)` -/
theorem q_exact (num den m : Nat) (E e : Int) (hx : Exact num den m E) (he : e ≤ E) :
    qNum num e = (m * 2 ^ (E - e).toNat) * qDen den e := by
  unfold Exact at hx
  unfold qNum qDen
  by_cases h0 : 0 ≤ e
  · have hE : 0 ≤ E := by omega
    rw [if_pos hE] at hx
    rw [if_pos h0, if_pos h0, hx]
    have e1 : (E - e).toNat = E.toNat - e.toNat := by omega
    rw [e1, pow_split E.toNat e.toNat (by omega)]
    simp only [Nat.mul_assoc, Nat.mul_comm, Nat.mul_left_comm]
  · rw [if_neg h0, if_neg h0]
    by_cases hE : 0 ≤ E
    · rw [if_pos hE] at hx
      have e1 : (E - e).toNat = E.toNat + (-e).toNat := by omega
      rw [hx, e1, Nat.pow_add]
      simp only [Nat.mul_assoc, Nat.mul_comm, Nat.mul_left_comm]
    · rw [if_neg hE] at hx
      have e1 : (E - e).toNat = (-e).toNat - (-E).toNat := by omega
      rw [e1, pow_split (-e).toNat (-E).toNat (by omega)]
      calc num * (2 ^ ((-e).toNat - (-E).toNat) * 2 ^ (-E).toNat)
          = (num * 2 ^ (-E).toNat) * 2 ^ ((-e).toNat - (-E).toNat) := by
            simp only [Nat.mul_assoc, Nat.mul_comm, Nat.mul_left_comm]
        _ = (m * den) * 2 ^ ((-e).toNat - (-E).toNat) := by rw [hx]
        _ = m * 2 ^ ((-e).toNat - (-E).toNat) * den := by
            simp only [Nat.mul_assoc, Nat.mul_comm, Nat.mul_left_comm]

/-- at an exponent `e' >= E` the floor of the scaled value is at most `m` -/
theorem qOf_le (num den m : Nat) (E e' : Int) (hx : Exact num den m E) (he : E ≤ e') :
    qOf num den e' ≤ m := by
  unfold Exact at hx
  unfold qOf qNum qDen
  apply Nat.div_le_of_le_mul
  by_cases hE : 0 ≤ E
  · have h0 : 0 ≤ e' := by omega
    rw [if_pos hE] at hx
    rw [if_pos h0, if_pos h0, hx]
    have hp : 2 ^ E.toNat ≤ 2 ^ e'.toNat := Nat.pow_le_pow_right (by decide) (by omega)
    calc m * 2 ^ E.toNat * den ≤ m * 2 ^ e'.toNat * den :=
          Nat.mul_le_mul_right _ (Nat.mul_le_mul_left _ hp)
      _ = den * 2 ^ e'.toNat * m := by simp only [Nat.mul_assoc, Nat.mul_comm, Nat.mul_left_comm]
  · rw [if_neg hE] at hx
    by_cases h0 : 0 ≤ e'
    · rw [if_pos h0, if_pos h0]
      calc num ≤ num * 2 ^ (-E).toNat := Nat.le_mul_of_pos_right _ (two_pow_pos _)
        _ = m * den := hx
        _ = den * 1 * m := by simp only [Nat.mul_one, Nat.mul_comm]
        _ ≤ den * 2 ^ e'.toNat * m := Nat.mul_le_mul_right _ (Nat.mul_le_mul_left _ (one_le_two_pow _))
    · rw [if_neg h0, if_neg h0]
      have hp : 2 ^ (-e').toNat ≤ 2 ^ (-E).toNat := Nat.pow_le_pow_right (by decide) (by omega)
      calc num * 2 ^ (-e').toNat ≤ num * 2 ^ (-E).toNat := Nat.mul_le_mul_left _ hp
        _ = m * den := hx
        _ = den * m := Nat.mul_comm _ _

theorem qOf_exact (num den m : Nat) (E e : Int) (hd : 0 < den) (hx : Exact num den m E) (he : e ≤ E) :
    qOf num den e = m * 2 ^ (E - e).toNat := by
  unfold qOf
  rw [q_exact num den m E e hx he, Nat.mul_div_cancel _ (qDen_pos den e hd)]

theorem round_exact (num den m : Nat) (E e : Int) (hd : 0 < den) (hx : Exact num den m E) (he : e ≤ E) :
    roundHalfEven (qNum num e) (qDen den e) = m * 2 ^ (E - e).toNat := by
  have hq := q_exact num den m E e hx he
  have hp := qDen_pos den e hd
  have hmod : qNum num e % qDen den e = 0 := by rw [hq]; exact Nat.mul_mod_left _ _
  have := roundHalfEven_exact _ _ hp hmod
  rw [hq] at this
  rw [hq]
  exact Nat.eq_of_mul_eq_mul_right hp this

/-- the fallback search stops at or before any exponent whose scaled value fits -/
theorem findExp_spec (num den : Nat) (E : Int) (hfit : qOf num den E < 9007199254740992) :
    ∀ (fuel : Nat) (e : Int), e ≤ E → (E - e).toNat < fuel →
      e ≤ findExp num den fuel e ∧ findExp num den fuel e ≤ E ∧
        qOf num den (findExp num den fuel e) < 9007199254740992 := by
  intro fuel
  induction fuel with
  | zero => intro e _ h; omega
  | succ f ih =>
    intro e he hf
    rw [findExp]
    by_cases hq : qOf num den e < 9007199254740992
    · rw [if_pos hq]; exact ⟨Int.le_refl _, he, hq⟩
    · rw [if_neg hq]
      have hne : e ≠ E := by intro h; rw [h] at hq; exact hq hfit
      have := ih (e + 1) (by omega) (by omega)
      exact ⟨by omega, this.2.1, this.2.2⟩

/-- whichever way it was found, the exponent used by `roundToDbl` is in `[-1074, E]` and its scaled value fits 53 bits -/
theorem pickExp_props (num den m : Nat) (E : Int) (hx : Exact num den m E)
    (hm : m < 9007199254740992) (hE1 : -1074 ≤ E) (hE2 : E ≤ 971) :
    -1074 ≤ pickExp num den ∧ pickExp num den ≤ E ∧ qOf num den (pickExp num den) < 9007199254740992 := by
  have hfit : qOf num den E < 9007199254740992 := Nat.lt_of_le_of_lt (qOf_le num den m E E hx (Int.le_refl _)) hm
  unfold pickExp
  by_cases hok : expOk num den (expHint num den) = true
  · rw [if_pos hok]
    unfold expOk at hok
    simp only [Bool.and_eq_true, Bool.or_eq_true, decide_eq_true_eq] at hok
    obtain ⟨⟨h1, h2⟩, h3⟩ := hok
    refine ⟨h1, ?_, h2⟩
    rcases h3 with h3 | h3
    · omega
    · -- one binade lower the value needs more than 53 bits, so that exponent is below E
      apply Classical.byContradiction
      intro hgt
      have := qOf_le num den m E (expHint num den - 1) hx (by omega)
      omega
  · rw [if_neg hok]
    have := findExp_spec num den E hfit 2048 (-1074) hE1 (by omega)
    exact ⟨this.1, this.2.1, this.2.2⟩

/-- `roundToDbl` returns the double itself when `num / den` is one -/
theorem roundToDbl_exact (neg : Bool) (num den m : Nat) (E : Int) (hd : 0 < den) (hx : Exact num den m E)
    (hm : m < 9007199254740992) (hE1 : -1074 ≤ E) (hE2 : E ≤ 971) :
    Dbl.eqv (roundToDbl neg num den) (.fin neg m E) := by
  obtain ⟨h1, h2, h3⟩ := pickExp_props num den m E hx hm hE1 hE2
  unfold roundToDbl
  simp only []
  rw [if_neg (by omega), round_exact num den m E _ hd hx h2]
  have hq := qOf_exact num den m E _ hd hx h2
  rw [hq] at h3
  rw [if_neg (by omega)]
  unfold Dbl.eqv
  refine ⟨rfl, ?_⟩
  have hmin : min (pickExp num den) E = pickExp num den := by omega
  rw [hmin]
  have e0 : (pickExp num den - pickExp num den).toNat = 0 := by omega
  rw [e0, Nat.pow_zero, Nat.mul_one]

/-! ### correct rounding for every rational -/
/-- `roundHalfEven q d` is a nearest integer to `q / d`, the even one on a tie -/
theorem roundHalfEven_nearest (q d : Nat) (hd : 0 < d) :
    2 * (roundHalfEven q d * d) ≤ 2 * q + d ∧ 2 * q ≤ 2 * (roundHalfEven q d * d) + d ∧
      ((2 * (roundHalfEven q d * d) = 2 * q + d ∨ 2 * q = 2 * (roundHalfEven q d * d) + d) → roundHalfEven q d % 2 = 0) := by
  have hq : d * (q / d) + q % d = q := Nat.div_add_mod q d
  have hr : q % d < d := Nat.mod_lt _ hd
  unfold roundHalfEven
  simp only []
  generalize q / d = k at hq ⊢
  generalize q % d = r at hq hr ⊢
  have e1 : (k + 1) * d = d * k + d := by rw [Nat.add_mul, Nat.one_mul, Nat.mul_comm]
  have e0 : k * d = d * k := Nat.mul_comm _ _
  generalize hP : d * k = P at hq e1 e0
  by_cases h1 : 2 * r < d
  · rw [if_pos h1, e0]; omega
  · rw [if_neg h1]
    by_cases h2 : 2 * r > d
    · rw [if_pos h2, e1]; omega
    · rw [if_neg h2]
      by_cases h3 : k % 2 = 0
      · rw [if_pos h3, e0]; omega
      · rw [if_neg h3, e1]; omega

theorem findExp_min (num den : Nat) : ∀ (fuel : Nat) (e : Int),
    e ≤ findExp num den fuel e ∧ findExp num den fuel e ≤ e + fuel ∧
      (findExp num den fuel e < e + fuel → qOf num den (findExp num den fuel e) < 9007199254740992) ∧
      (∀ x, e ≤ x → x < findExp num den fuel e → 9007199254740992 ≤ qOf num den x) := by
  intro fuel
  induction fuel with
  | zero => intro e; rw [findExp]; exact ⟨Int.le_refl _, by omega, by omega, by intro x h1 h2; omega⟩
  | succ f ih =>
    intro e
    rw [findExp]
    by_cases hq : qOf num den e < 9007199254740992
    · rw [if_pos hq]; exact ⟨Int.le_refl _, by omega, fun _ => hq, by intro x h1 h2; omega⟩
    · rw [if_neg hq]
      obtain ⟨a, b, c, d⟩ := ih (e + 1)
      refine ⟨by omega, by omega, ?_, ?_⟩
      · intro h; exact c (by omega)
      · intro x h1 h2
        by_cases hx : x = e
        · rw [hx]; omega
        · exact d x (by omega) h2

/-- the exponent `roundToDbl` rounds at is the exponent of the binary64 grid at `num / den` (unless the value overflows):
    at least -1074, the scaled value has at most 53 bits, and - except on the subnormal grid - one binade lower it has more -/
theorem pickExp_grid (num den : Nat) (h : pickExp num den ≤ 971) :
    -1074 ≤ pickExp num den ∧ qOf num den (pickExp num den) < 9007199254740992 ∧
      (pickExp num den = -1074 ∨ 9007199254740992 ≤ qOf num den (pickExp num den - 1)) := by
  unfold pickExp at h ⊢
  by_cases hok : expOk num den (expHint num den) = true
  · rw [if_pos hok]
    unfold expOk at hok
    simp only [Bool.and_eq_true, Bool.or_eq_true, decide_eq_true_eq] at hok
    exact ⟨hok.1.1, hok.1.2, hok.2⟩
  · rw [if_neg hok] at h ⊢
    obtain ⟨a, b, c, d⟩ := findExp_min num den 2048 (-1074)
    refine ⟨a, c (by omega), ?_⟩
    by_cases he : findExp num den 2048 (-1074) = -1074
    · exact Or.inl he
    · exact Or.inr (d _ (by omega) (by omega))

/-! ### parsing `[-]digits.digits` -/
theorem takeDigits_spec (ip rest : List Nat) (h : ∀ d ∈ ip, isDigit d = true)
    (hr : ∀ c tl, rest = c :: tl → isDigit c = false) : takeDigits (ip ++ rest) = (ip, rest) := by
  induction ip with
  | nil =>
    cases rest with
    | nil => rfl
    | cons c tl => simp [takeDigits, hr c tl rfl]
  | cons d ds ih =>
    have hd := h d (List.mem_cons_self ..)
    have := ih (fun x hx => h x (List.mem_cons_of_mem _ hx))
    simp [takeDigits, hd, this]

theorem digit_lower (d : Nat) (h : isDigit d = true) : lowerAscii d = d ∧ 48 ≤ d ∧ d ≤ 57 := by
  simp [isDigit] at h
  refine ⟨?_, h.1, h.2⟩
  unfold lowerAscii
  rw [if_neg (by omega)]

theorem exactValue_eq_Exact (num k m : Nat) (e : Int) : exactValue num k m e = Exact num (10 ^ k) m e := rfl

/-- `strtodM` (as the total `strtodT`) meets `StrtodExact`: a text `[-]digits.digits` whose value is a double converts to it -/
theorem strtodT_exact : StrtodExact strtodT := by
  intro neg ip fp m e hip hne hfp hex hm he1 he2
  cases ip with
  | nil => exact absurd rfl hne
  | cons d ds =>
    obtain ⟨hlow, hd1, hd2⟩ := digit_lower d (hip d (List.mem_cons_self ..))
    have hsp : isSpace d = false := by simp [isSpace]; omega
    have h46 : ∀ c tl, (46 :: fp) = c :: tl → isDigit c = false := by
      intro c tl h; injection h with h1 _; rw [← h1]; decide
    have hnil : ∀ c tl, ([] : List Nat) = c :: tl → isDigit c = false := by intro c tl h; cases h
    have t1 := takeDigits_spec (d :: ds) (46 :: fp) hip h46
    have t2 := takeDigits_spec fp [] hfp hnil
    rw [List.append_nil] at t2
    -- the text behind the sign is neither the hexadecimal form nor inf / nan
    have hhex : isHexPrefix (d :: ds ++ 46 :: fp) = false := by
      cases ds with
      | nil =>
        cases fp with
        | nil => rfl
        | cons f fs =>
          have : (lowerAscii 46 == 120) = false := by decide
          simp [isHexPrefix, this]
      | cons d2 ds2 =>
        obtain ⟨hl2, h21, h22⟩ := digit_lower d2 (hip d2 (by simp))
        have hne2 : (lowerAscii d2 == 120) = false := by rw [hl2]; simp; omega
        cases ds2 with
        | nil => simp [isHexPrefix, hne2]
        | cons d3 ds3 => simp [isHexPrefix, hne2]
    have hinf : startsCI (d :: ds ++ 46 :: fp) [105, 110, 102] = false := by
      have : (lowerAscii d == 105) = false := by rw [hlow]; simp; omega
      simp [startsCI, this]
    have hnan : startsCI (d :: ds ++ 46 :: fp) [110, 97, 110] = false := by
      have : (lowerAscii d == 110) = false := by rw [hlow]; simp; omega
      simp [startsCI, this]
    have hM : strtodM ((if neg then [45] else []) ++ (d :: ds ++ 46 :: fp)) =
        some (strtodDecimal neg (d :: ds ++ 46 :: fp)) := by
      unfold strtodM
      cases neg with
      | true =>
        have hs45 : isSpace 45 = false := by decide
        simp only [if_true, List.cons_append, List.nil_append, skipSpace, hs45, Bool.false_eq_true, if_false, signSplit]
        rw [List.cons_append] at hhex hinf hnan
        simp only [hhex, hinf, hnan, Bool.false_eq_true, if_false]
      | false =>
        simp only [Bool.false_eq_true, if_false, List.nil_append, List.cons_append, skipSpace, hsp, signSplit,
          if_neg (show ¬ d = 45 by omega), if_neg (show ¬ d = 43 by omega)]
        rw [List.cons_append] at hhex hinf hnan
        simp only [hhex, hinf, hnan, Bool.false_eq_true, if_false]
    unfold strtodT
    rw [hM, Option.getD_some]
    -- the decimal form
    unfold strtodDecimal
    simp only [t1, if_true, t2]
    have hne1 : ¬ ((d :: ds).isEmpty = true ∧ fp.isEmpty = true) := by simp
    rw [if_neg hne1]
    have hexp : expPart [] = 0 := rfl
    rw [hexp]
    have hdv : decVal (d :: ds ++ fp) = (d :: ds ++ fp).foldl (fun acc d => acc * 10 + (d - 48)) 0 := rfl
    rw [hdv]
    rw [exactValue_eq_Exact] at hex
    by_cases hz : (d :: ds ++ fp).foldl (fun acc d => acc * 10 + (d - 48)) 0 = 0
    · rw [if_pos hz]
      rw [hz] at hex
      have hm0 : m = 0 := by
        unfold Exact at hex
        have hp10 : 0 < 10 ^ fp.length := Nat.pow_pos (by decide)
        by_cases h0 : 0 ≤ e
        · rw [if_pos h0] at hex
          have := Nat.mul_eq_zero.mp hex.symm
          rcases this with h | h
          · rcases Nat.mul_eq_zero.mp h with h | h
            · exact h
            · exact absurd h (Nat.ne_of_gt (two_pow_pos _))
          · omega
        · rw [if_neg h0, Nat.zero_mul] at hex
          rcases Nat.mul_eq_zero.mp hex.symm with h | h
          · exact h
          · omega
      rw [hm0]
      unfold Dbl.eqv
      exact ⟨rfl, by simp⟩
    · rw [if_neg hz, if_neg (by omega), if_neg (by simp only [List.length_append]; omega)]
      by_cases hk : fp.length = 0
      · have hp0 : (0 : Int) - (fp.length : Int) = 0 := by omega
        rw [hp0, if_pos (Int.le_refl _)]
        apply roundToDbl_exact neg _ 1 m e (by decide) ?_ hm he1 he2
        rw [hk, Nat.pow_zero] at hex
        unfold Exact at hex ⊢
        simpa using hex
      · rw [if_neg (by omega)]
        have hk2 : (-((0 : Int) - (fp.length : Int))).toNat = fp.length := by omega
        rw [hk2]
        exact roundToDbl_exact neg _ _ m e (Nat.pow_pos (by decide)) hex hm he1 he2

/-! ### the hexadecimal form is never produced by `%f` -/
theorem lowerAscii_x (c : Nat) (h : lowerAscii c = 120) : c = 120 ∨ c = 88 := by
  unfold lowerAscii at h
  by_cases hc : 65 ≤ c ∧ c ≤ 90
  · rw [if_pos hc] at h; omega
  · rw [if_neg hc] at h; omega

theorem isHexPrefix_has_x (r : List Nat) (h : isHexPrefix r = true) : ∃ c ∈ r, c = 120 ∨ c = 88 := by
  match r, h with
  | z :: c :: c2 :: tl, h =>
    simp only [isHexPrefix, Bool.and_eq_true, beq_iff_eq] at h
    exact ⟨c, by simp, lowerAscii_x c h.1.2⟩

theorem mem_skipSpace (s : List Nat) (c : Nat) (h : c ∈ skipSpace s) : c ∈ s := by
  induction s with
  | nil => exact h
  | cons d ds ih =>
    rw [skipSpace] at h
    by_cases hd : isSpace d = true
    · rw [if_pos hd] at h; exact List.mem_cons_of_mem _ (ih h)
    · rw [if_neg hd] at h; exact h

theorem mem_signSplit (r : List Nat) (c : Nat) (h : c ∈ (signSplit r).2) : c ∈ r := by
  cases r with
  | nil => simp [signSplit] at h
  | cons d t =>
    unfold signSplit at h
    by_cases h45 : d = 45
    · simp only [h45, if_true] at h; exact List.mem_cons_of_mem _ h
    · by_cases h43 : d = 43
      · simp only [h43, if_true, show ¬ (43 : Nat) = 45 by decide, if_false] at h; exact List.mem_cons_of_mem _ h
      · simp only [h45, h43, if_false] at h; exact h

/-- `strtodM` answers `none` (hexadecimal form) only for a text containing `x` or `X` -/
theorem strtodM_none_has_x (s : List Nat) (h : strtodM s = none) : ∃ c ∈ s, c = 120 ∨ c = 88 := by
  unfold strtodM at h
  simp only [] at h
  by_cases hh : isHexPrefix (signSplit (skipSpace s)).2 = true
  · obtain ⟨c, hc, hx⟩ := isHexPrefix_has_x _ hh
    exact ⟨c, mem_skipSpace s c (mem_signSplit _ c hc), hx⟩
  · rw [if_neg hh] at h
    by_cases h1 : startsCI (signSplit (skipSpace s)).2 [105, 110, 102] = true
    · rw [if_pos h1] at h; cases h
    · rw [if_neg h1] at h
      by_cases h2 : startsCI (signSplit (skipSpace s)).2 [110, 97, 110] = true
      · rw [if_pos h2] at h; cases h
      · rw [if_neg h2] at h; cases h

theorem fmtF_no_x (x : Dbl) : ∀ c ∈ fmtF x, c ≠ 120 ∧ c ≠ 88 := by
  intro c hc
  cases x with
  | fin neg m e =>
    simp only [fmtF, List.mem_append] at hc
    rcases hc with ((hc | hc) | hc) | hc
    · cases neg <;> simp at hc; omega
    · have := decDigits_digits _ c hc; omega
    · simp at hc; omega
    · have := pad6_digits _ c hc; omega
  | inf neg =>
    simp only [fmtF, List.mem_append] at hc
    rcases hc with hc | hc
    · cases neg <;> simp at hc; omega
    · simp at hc; omega
  | nan neg =>
    simp only [fmtF, List.mem_append] at hc
    rcases hc with hc | hc
    · cases neg <;> simp at hc; omega
    · simp at hc; omega


end Nstd.Codec
