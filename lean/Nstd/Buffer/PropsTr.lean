import Nstd.Buffer.TrTactic
/-
  Property C08, tie by translation.  `Nstd/Generated/BufferBody.lean` is regenerated on every run by tools/gen_buffer.py
  from the CURRENT include/nstd/Buffer.hpp: the C++ method bodies, statement by statement, over the checked-memory machine
  of CMem.lean (pointers = (block, offset), the four fields of `class Buffer`).  The theorems below say that each generated
  method IS the hand-written method of Model.lean (with today's capacity policy: wish 0) on every state that represents a
  model state: for every Buffer `b` that satisfies the representation invariant `BInv`, whose block is live in the ledger
  `L` (`LiveIn`, `Bounded` – what `Inv` gives for every variable of every reachable state), every argument:
      (generated method on `objOf b`, heap `heapOf b L arg`) = (model method on `b`, ledger `L`)
  as values of `Option (object, its blocks, ledger)` – the same faults, the same resulting pointers / offsets / `_capacity`,
  the same bytes in the same blocks, the same allocation ledger.  A change of a body in Buffer.hpp changes the generated
  definition and the proof below no longer checks.
  `(pointer, size)` and `const Buffer&` arguments are memory outside the object's block here (`arg lo`, either side of the
  heap); the alias variants of Model.lean / Raw.lean (`…Self`, `…Sub`, `…Ptr`) are hand translations tied by the
  correspondence run only.
-/
namespace Nstd.Buffer
open C

/-- a `(pointer, size)` argument outside the object: the pointer, and `const Buffer& other` with exposed bytes `d` -/
def argPtr (lo : Bool) : Ptr := ⟨.arg lo, 0⟩
def argObj (lo : Bool) (d : List Byte) (anyBuffer : Ptr) (anyCap : Nat) : Obj := ⟨anyBuffer, ⟨.arg lo, 0⟩, ⟨.arg lo, d.length⟩, anyCap⟩

/-- `resize`: reallocate / non-owning / in place / compact to front -/
theorem tr_resize (v : Nat) (b : Buf) (hb : BInv v b) (L : Ledger) (hl : LiveIn b L) (hbd : Bounded L)
    (arg : List Byte) (size : Nat) :
    (Gen.resize v (objOf b) size (heapOf b L arg)).map out =
      (b.resize size (capOf (Gen.resize v (objOf b) size (heapOf b L arg))) L).map outB := by
  obtain ⟨st, s, e, cap⟩ := b
  cases st with
  | own id m =>
    own_setup hb hl hbd
    by_cases h1 : size > cap
    · by_cases h2 : e - s < size
      · tr_simp [Gen.resize, Buf.resize]
      · exfalso; omega
    · by_cases h3 : s + size ≤ cap <;> tr_simp [Gen.resize, Buf.resize]
  | att m =>
    simp only [BInv] at hb
    obtain ⟨rfl, hse, hem⟩ := hb
    by_cases h1 : size > 0
    · by_cases h2 : e - s < size <;> tr_simp [Gen.resize, Buf.resize]
    · tr_simp [Gen.resize, Buf.resize]
  | dflt c =>
    simp only [BInv] at hb
    obtain ⟨rfl, rfl, rfl, rfl⟩ := hb
    by_cases h1 : size > 0 <;> tr_simp [Gen.resize, Buf.resize]

/-- `removeFront` -/
theorem tr_removeFront (v : Nat) (b : Buf) (hb : BInv v b) (L : Ledger) (hl : LiveIn b L) (hbd : Bounded L)
    (arg : List Byte) (n : Nat) :
    (Gen.removeFront v (objOf b) n (heapOf b L arg)).map out = (Buf.removeFront v b n L).map outB := by
  obtain ⟨st, s, e, cap⟩ := b
  cases st with
  | own id m =>
    own_setup hb hl hbd
    by_cases h1 : s + n ≥ e <;> tr_simp [Gen.removeFront, Buf.removeFront]
  | att m =>
    simp only [BInv] at hb
    obtain ⟨rfl, hse, hem⟩ := hb
    by_cases h1 : s + n ≥ e <;> tr_simp [Gen.removeFront, Buf.removeFront]
  | dflt c =>
    simp only [BInv] at hb
    obtain ⟨rfl, rfl, rfl, rfl⟩ := hb
    tr_simp [Gen.removeFront, Buf.removeFront]

/-- `removeBack` -/
theorem tr_removeBack (v : Nat) (b : Buf) (hb : BInv v b) (L : Ledger) (hl : LiveIn b L) (hbd : Bounded L)
    (arg : List Byte) (n : Nat) :
    (Gen.removeBack v (objOf b) n (heapOf b L arg)).map out = (Buf.removeBack v b n L).map outB := by
  obtain ⟨st, s, e, cap⟩ := b
  cases st with
  | own id m =>
    own_setup hb hl hbd
    by_cases h1 : s + n ≥ e
    · tr_simp [Gen.removeBack, Buf.removeBack]
    · have h2 : n ≤ e := by omega
      tr_simp [Gen.removeBack, Buf.removeBack]
  | att m =>
    simp only [BInv] at hb
    obtain ⟨rfl, hse, hem⟩ := hb
    by_cases h1 : s + n ≥ e
    · tr_simp [Gen.removeBack, Buf.removeBack]
    · have h2 : n ≤ e := by omega
      tr_simp [Gen.removeBack, Buf.removeBack]
  | dflt c =>
    simp only [BInv] at hb
    obtain ⟨rfl, rfl, rfl, rfl⟩ := hb
    tr_simp [Gen.removeBack, Buf.removeBack]

/-- `clear` -/
theorem tr_clear (v : Nat) (b : Buf) (hb : BInv v b) (L : Ledger) (hl : LiveIn b L) (hbd : Bounded L) (arg : List Byte) :
    (Gen.clear v (objOf b) (heapOf b L arg)).map out = (Buf.clear b L).map outB := by
  obtain ⟨st, s, e, cap⟩ := b
  cases st with
  | own id m =>
    own_setup hb hl hbd
    tr_simp [Gen.clear, Buf.clear]
  | att m => tr_simp [Gen.clear, Buf.clear]
  | dflt c => tr_simp [Gen.clear, Buf.clear]

/-- `free` -/
theorem tr_free (v : Nat) (b : Buf) (hb : BInv v b) (L : Ledger) (hl : LiveIn b L) (hbd : Bounded L) (arg : List Byte) :
    (Gen.free v (objOf b) (heapOf b L arg)).map out = (Buf.free v b L).map outB := by
  obtain ⟨st, s, e, cap⟩ := b
  cases st with
  | own id m =>
    own_setup hb hl hbd
    tr_simp [Gen.free, Buf.free]
  | att m => tr_simp [Gen.free, Buf.free]
  | dflt c => tr_simp [Gen.free, Buf.free]

/-- `attach(data, length)`: `data` = the start of the attached range -/
theorem tr_attach (v : Nat) (b : Buf) (hb : BInv v b) (L : Ledger) (hl : LiveIn b L) (hbd : Bounded L) (arg : List Byte)
    (range : List Byte) :
    (Gen.attach v (objOf b) ⟨.att, 0⟩ range.length (heapOf b L arg)).map out = (Buf.attach b range L).map outB := by
  obtain ⟨st, s, e, cap⟩ := b
  cases st with
  | own id m =>
    own_setup hb hl hbd
    tr_simp [Gen.attach, Buf.attach]
  | att m => tr_simp [Gen.attach, Buf.attach]
  | dflt c => tr_simp [Gen.attach, Buf.attach]

/-- `reserve` -/
theorem tr_reserve (v : Nat) (b : Buf) (hb : BInv v b) (L : Ledger) (hl : LiveIn b L) (hbd : Bounded L)
    (arg : List Byte) (n : Nat) :
    (Gen.reserve v (objOf b) n (heapOf b L arg)).map out =
      (b.reserve n (capOf (Gen.reserve v (objOf b) n (heapOf b L arg))) L).map outB := by
  obtain ⟨st, s, e, cap⟩ := b
  cases st with
  | own id m =>
    own_setup hb hl hbd
    by_cases h1 : n ≤ cap
    · tr_simp [Gen.reserve, Buf.reserve]
    · by_cases h2 : n < e - s
      · exfalso; omega
      · tr_simp [Gen.reserve, Buf.reserve]
  | att m =>
    simp only [BInv] at hb
    obtain ⟨rfl, hse, hem⟩ := hb
    by_cases h1 : n ≤ 0
    · tr_simp [Gen.reserve, Buf.reserve]
    · by_cases h2 : n < e - s <;> tr_simp [Gen.reserve, Buf.reserve]
  | dflt c =>
    simp only [BInv] at hb
    obtain ⟨rfl, rfl, rfl, rfl⟩ := hb
    by_cases h1 : n ≤ 0 <;> tr_simp [Gen.reserve, Buf.reserve]

/-- `prepend(data, size)` with `data` outside the object: head-room / shift in place / reallocate -/
theorem tr_prepend (v : Nat) (b : Buf) (hb : BInv v b) (L : Ledger) (hl : LiveIn b L) (hbd : Bounded L)
    (data : List Byte) (lo : Bool) :
    (Gen.prepend v (objOf b) (argPtr lo) data.length (heapOf b L data)).map out =
      (b.prepend data (capOf (Gen.prepend v (objOf b) (argPtr lo) data.length (heapOf b L data))) L).map outB := by
  obtain ⟨st, s, e, cap⟩ := b
  cases st with
  | own id m =>
    own_setup hb hl hbd
    by_cases h1 : data.length ≤ s
    · cases lo <;> tr_simp [Gen.prepend, Buf.prepend, argPtr]
    · by_cases h2 : data.length + (e - s) ≤ cap
      · cases lo <;> tr_simp [Gen.prepend, Buf.prepend, argPtr]
      · cases lo <;> tr_simp [Gen.prepend, Buf.prepend, argPtr]
  | att m =>
    simp only [BInv] at hb
    obtain ⟨rfl, hse, hem⟩ := hb
    cases lo <;> tr_simp [Gen.prepend, Buf.prepend, argPtr]
  | dflt c =>
    simp only [BInv] at hb
    obtain ⟨rfl, rfl, rfl, rfl⟩ := hb
    cases lo <;> tr_simp [Gen.prepend, Buf.prepend, argPtr]


/-- `assign(data, size)` with `data` outside the object (Model.lean releases the old block before it allocates, Buffer.hpp
    after it copied: the same result) -/
theorem tr_assign (v : Nat) (b : Buf) (hb : BInv v b) (L : Ledger) (hl : LiveIn b L) (hbd : Bounded L)
    (data : List Byte) (lo : Bool) :
    (Gen.assign v (objOf b) (argPtr lo) data.length (heapOf b L data)).map out =
      (b.assign data (capOf (Gen.assign v (objOf b) (argPtr lo) data.length (heapOf b L data))) L).map outB := by
  obtain ⟨st, s, e, cap⟩ := b
  cases st with
  | own id m =>
    own_setup hb hl hbd
    by_cases h1 : data.length > cap <;> tr_simp [Gen.assign, Buf.assign, argPtr]
  | att m =>
    simp only [BInv] at hb
    obtain ⟨rfl, hse, hem⟩ := hb
    by_cases h1 : data.length > 0 <;> tr_simp [Gen.assign, Buf.assign, argPtr]
  | dflt c =>
    simp only [BInv] at hb
    obtain ⟨rfl, rfl, rfl, rfl⟩ := hb
    by_cases h1 : data.length > 0 <;> tr_simp [Gen.assign, Buf.assign, argPtr]

/-- `operator=(const Buffer& other)`, `other` another object with exposed bytes `data` -/
theorem tr_assignBuf (v w : Nat) (b : Buf) (hb : BInv v b) (L : Ledger) (hl : LiveIn b L) (hbd : Bounded L)
    (data : List Byte) (lo : Bool) (ob : Ptr) (oc : Nat) :
    (Gen.assignBuf v (objOf b) w (argObj lo data ob oc) (heapOf b L data)).map out =
      (b.assign data (capOf (Gen.assignBuf v (objOf b) w (argObj lo data ob oc) (heapOf b L data))) L).map outB := by
  obtain ⟨st, s, e, cap⟩ := b
  cases st with
  | own id m =>
    own_setup hb hl hbd
    by_cases h1 : data.length > cap <;> tr_simp [Gen.assignBuf, Buf.assign, argObj]
  | att m =>
    simp only [BInv] at hb
    obtain ⟨rfl, hse, hem⟩ := hb
    by_cases h1 : data.length > 0 <;> tr_simp [Gen.assignBuf, Buf.assign, argObj]
  | dflt c =>
    simp only [BInv] at hb
    obtain ⟨rfl, rfl, rfl, rfl⟩ := hb
    by_cases h1 : data.length > 0 <;> tr_simp [Gen.assignBuf, Buf.assign, argObj]

/-- `swap`: the two objects exchange their fields; a default Buffer is re-pointed at its own `_capacity` -/
theorem tr_swap (v w : Nat) (a b : Buf) (ha : BInv v a) (hb : BInv w b) (h : Heap) :
    Gen.swap v (objOf a) w (objOf b) h = some ((objOf (b.rehome v w), objOf (a.rehome w v)), h) := by
  obtain ⟨sa, s1, e1, c1⟩ := a
  obtain ⟨sb, s2, e2, c2⟩ := b
  cases sa <;> cases sb <;> simp only [BInv] at ha hb <;>
    simp [Gen.swap, objOf, Buf.rehome, bind, pure, branch, val, peq, cellPtr, nullPtr, *]

end Nstd.Buffer
