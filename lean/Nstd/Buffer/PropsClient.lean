import Nstd.Buffer.ClientHist
/-
  Property C08, client level, whole histories: EVERY history of client events – `ClientImpl::write(data, size)` and
  write-readiness events of any number of clients, interleaved in any order, with ANY answer of `send` at every call
  (would block, error, any count) and any capacity policy – executed by the client model `clientStep` (Client.lean: the
  two code sites of Server.cpp over the Buffer model; the very function the correspondence run executes for `cw`/`cr`
  lines against the real Server.cpp) never makes the Buffer model fault, and every client's `_sendBuffer` holds exactly
  the bytes the stream-conservation view says are pending: (bytes written) minus (bytes `send` accepted).

  This is the composition that the previous rounds left open: client history ⇒ `Admissible` interleaving of backlog
  operations ⇒ `backlog_faithful_multi`; it is proved directly by induction over the event list with `multi_run`
  (Backlog.lean) applied to the Buffer operations of each event.
-/
namespace Nstd.Buffer

/-- the Buffer operations of a write are admissible and leave exactly the pending bytes of the stream view -/
theorem write_track (s : CSt) (k : Nat) (d : List Nat) (o : Outcome) (hd : s.dead = false) :
    Admissible s.track (writeOps s.pending.length d o).1 ∧
    (trackAll s.track (writeOps s.pending.length d o).1).unsent = (cspecStep s k (.write d o)).pending ∧
    (trackAll s.track (writeOps s.pending.length d o).1).peak ≤ (cspecStep s k (.write d o)).peak ∧
    max s.wish k ≤ (cspecStep s k (.write d o)).wish ∧
    (cspecStep s k (.write d o)).dead = (writeOps s.pending.length d o).2.1 := by
  obtain ⟨p, dead, peak, wish⟩ := s
  simp only at hd
  subst hd
  cases p with
  | nil =>
    cases o with
    | wb =>
      by_cases h0 : d.length = 0
      · have : d = [] := List.eq_nil_of_length_eq_zero h0
        subst this
        simp [writeOps, cspecStep, Outcome.closes, Outcome.accepted, Admissible, trackAll, CSt.track, Track.unsent]
      · have h1 : ¬ 0 ≥ d.length := by omega
        simp [writeOps, cspecStep, Outcome.closes, Outcome.accepted, Admissible, trackAll, track, CSt.track,
          Track.unsent, h1]
    | err =>
      simp [writeOps, cspecStep, Outcome.closes, Admissible, trackAll, CSt.track, Track.unsent]
    | cnt kk =>
      by_cases h0 : (if kk < d.length then kk else d.length) = 0
      · simp [writeOps, cspecStep, Outcome.closes, Admissible, trackAll, CSt.track, Track.unsent, h0]
      · by_cases h1 : (if kk < d.length then kk else d.length) ≥ d.length
        · have h2 : d.length ≤ (if kk < d.length then kk else d.length) := h1
          simp [writeOps, cspecStep, Outcome.closes, Outcome.accepted, Admissible, trackAll, CSt.track, Track.unsent,
            h0, h1, List.drop_eq_nil_of_le h2]
        · simp only [ge_iff_le] at h1
          simp [writeOps, cspecStep, Outcome.closes, Outcome.accepted, Admissible, trackAll, track, CSt.track,
            Track.unsent, h0, h1]
  | cons x p =>
    simp [writeOps, cspecStep, Admissible, trackAll, track, CSt.track, Track.unsent]

/-- the Buffer operations of a write-readiness event on a non-empty backlog -/
theorem ready_track (s : CSt) (k : Nat) (o : Outcome) (hd : s.dead = false) (hne : s.pending ≠ []) :
    Admissible s.track (readyOps s.pending.length o).1 ∧
    (trackAll s.track (readyOps s.pending.length o).1).unsent = (cspecStep s k (.ready o)).pending ∧
    (trackAll s.track (readyOps s.pending.length o).1).peak ≤ (cspecStep s k (.ready o)).peak ∧
    max s.wish k ≤ (cspecStep s k (.ready o)).wish ∧
    (cspecStep s k (.ready o)).dead = (readyOps s.pending.length o).2.1 := by
  obtain ⟨p, dead, peak, wish⟩ := s
  simp only at hd hne
  subst hd
  have hl : p.length ≠ 0 := fun h => hne (List.eq_nil_of_length_eq_zero h)
  cases o with
  | wb =>
    simp [readyOps, cspecStep, Outcome.closes, Outcome.accepted, Admissible, trackAll, CSt.track, Track.unsent, hne, hl]
  | err =>
    simp [readyOps, cspecStep, Outcome.closes, Admissible, trackAll, track, CSt.track, Track.unsent, hne, hl]
  | cnt kk =>
    by_cases h0 : (if kk < p.length then kk else p.length) = 0
    · simp [readyOps, cspecStep, Outcome.closes, Admissible, trackAll, track, CSt.track, Track.unsent, hne, hl, h0]
    · by_cases h1 : p.length - (if kk < p.length then kk else p.length) = 0
      · have h2 : p.length ≤ (if kk < p.length then kk else p.length) := by omega
        have h3 : (if kk < p.length then kk else p.length) ≤ p.length := by split <;> omega
        simp [readyOps, cspecStep, Outcome.closes, Outcome.accepted, Admissible, trackAll, track, CSt.track,
          Track.unsent, hne, hl, h0, h1, List.drop_eq_nil_of_le h2, h3]
      · have h3 : (if kk < p.length then kk else p.length) ≤ p.length := by split <;> omega
        simp [readyOps, cspecStep, Outcome.closes, Outcome.accepted, Admissible, trackAll, track, CSt.track,
          Track.unsent, hne, hl, h0, h1, h3]

theorem update_self {α : Type} (S : Nat → α) (c : Nat) : (fun v => if v = c then S c else S v) = S := by
  funext v
  by_cases h : v = c <;> simp [h]

/-- one client event from a state that agrees with the stream view -/
theorem client_step_ok {n : Nat} {d : DState} {qs : List Spec.Queue} {S : Nat → CSt} (h : CInv n d qs S) (c k : Nat)
    (hc : c < n) (ev : CEv) :
    ∃ d' r qs', clientStep d k c ev = some (d', r) ∧
      CInv n d' qs' (fun v => if v = c then cspecStep (S c) k ev else S v) := by
  have hcl : c < d.st.bufs.length := h.len ▸ hc
  have hb : d.st.bufs[c]? = some d.st.bufs[c] := List.getElem?_eq_getElem hcl
  obtain ⟨_, _, hdc⟩ := h.vars c _ hb
  have hgd : d.dead.getD c true = (S c).dead := by
    rw [List.getD_eq_getElem?_getD, hdc]; rfl
  have hsz := cinv_size h hb
  cases hlive : (S c).dead with
  | true =>
    -- a closed client ignores events
    refine ⟨d, .dead, qs, ?_, ?_⟩
    · cases ev <;> simp [clientStep, hdc, hlive]
    · have : cspecStep (S c) k ev = S c := by cases ev <;> simp [cspecStep, hlive]
      rw [this, update_self]
      exact h
  | false =>
    have hset : ∀ (flag : Bool) (sd : Bool), sd = flag → d.dead.length = n ∧ ∀ v,
        (if flag = true then d.dead.set c true else d.dead)[v]? =
          if v = c then (if v < n then some sd else none) else d.dead[v]? := by
      intro flag sd hsd
      refine ⟨h.dlen, fun v => ?_⟩
      subst hsd
      by_cases hv : v = c
      · subst hv
        cases sd
        · simp [hdc, hc, hlive]
        · simp [List.getElem?_set, h.dlen, hc]
      · have hv' : ¬ c = v := fun e => hv e.symm
        cases sd <;> simp [List.getElem?_set, hv, hv']
    have hlen_set : ∀ (flag : Bool), (if flag = true then d.dead.set c true else d.dead).length = n := by
      intro flag; cases flag <;> simp [h.dlen]
    cases ev with
    | write data o =>
      obtain ⟨t1, t2, t3, t4, t5⟩ := write_track (S c) k data o hlive
      rcases hw : writeOps (S c).pending.length data o with ⟨ops, closing, sent⟩
      rw [hw] at t1 t2 t3 t5
      simp only at t1 t2 t3 t5
      obtain ⟨st', qs', hrun, hinv'⟩ := bops_ok h c k hc ops t1 (cspecStep (S c) k (.write data o))
        (if closing = true then d.dead.set c true else d.dead) t2 t3 t4 (hlen_set closing) (hset closing _ t5).2
      refine ⟨_, .wrote closing sent (if closing = true then 0 else ((st'.getBuf c).map Buf.size).getD 0), qs', ?_, hinv'⟩
      simp [clientStep, hdc, hlive, State.getBuf, hb, hsz, hw, hrun]
    | ready o =>
      by_cases hne : (S c).pending = []
      · refine ⟨d, .idle, qs, ?_, ?_⟩
        · simp [clientStep, hdc, hlive, State.getBuf, hb, hsz, hne]
        · have : cspecStep (S c) k (.ready o) = S c := by simp [cspecStep, hlive, hne]
          rw [this, update_self]
          exact h
      · have hl : (S c).pending.length ≠ 0 := fun e => hne (List.eq_nil_of_length_eq_zero e)
        obtain ⟨t1, t2, t3, t4, t5⟩ := ready_track (S c) k o hlive hne
        rcases hw : readyOps (S c).pending.length o with ⟨ops, closed, sent, onWrite⟩
        rw [hw] at t1 t2 t3 t5
        simp only at t1 t2 t3 t5
        obtain ⟨st', qs', hrun, hinv'⟩ := bops_ok h c k hc ops t1 (cspecStep (S c) k (.ready o))
          (if closed = true then d.dead.set c true else d.dead) t2 t3 t4 (hlen_set closed) (hset closed _ t5).2
        refine ⟨_, .readied closed sent onWrite (S c).pending.length, qs', ?_, hinv'⟩
        simp [clientStep, hdc, hlive, State.getBuf, hb, hsz, hw, hrun, hl]

/-- whole histories, from any state that agrees with the stream view -/
theorem crun_ok {n : Nat} : ∀ (evs : List (Nat × CEv × Nat)) (d : DState) (qs : List Spec.Queue) (S : Nat → CSt),
    CInv n d qs S → (∀ p ∈ evs, p.1 < n) → ∃ d' qs', crun d evs = some d' ∧ CInv n d' qs' (cspecRun S evs)
  | [], d, qs, S, h, _ => ⟨d, qs, rfl, h⟩
  | (c, ev, k) :: evs, d, qs, S, h, hvs => by
    obtain ⟨d1, r, qs1, h1, hi1⟩ := client_step_ok h c k (hvs (c, ev, k) (by simp)) ev
    obtain ⟨d2, qs2, h2, hi2⟩ := crun_ok evs d1 qs1 _ hi1 (fun p hp => hvs p (by simp [hp]))
    exact ⟨d2, qs2, by simp [crun, h1, h2], hi2⟩

theorem cinit_inv (n : Nat) (regs : List (List Byte)) : CInv n (cinit n regs) (Spec.init n) (fun _ => {}) := by
  refine ⟨init_inv n regs, init_rel n regs, by simp [cinit, init], by simp [cinit], fun v b hb => ?_⟩
  obtain ⟨hv, rfl⟩ := init_bufs n regs v b hb
  refine ⟨?_, by simp [Buf.default], by simp [cinit, hv]⟩
  simp [Spec.get, Spec.init, List.getD_eq_getElem?_getD, hv, bytesOf]

/-- **Every client history is faithful** (Server.cpp:333-362,441-477 over Buffer.hpp).  `n` clients with default-constructed
    `_sendBuffer`s; ANY list of events `(client, write data | write-readiness, answer of send, capacity wish)`: the client
    model never faults, and afterwards for every client: it is closed exactly when the stream view says so (a `send` failed
    or accepted nothing); its `_sendBuffer` exposes exactly the pending bytes of the stream view – everything written minus
    everything `send` accepted, nothing once closed; `size()` is their number; an owning Buffer keeps its terminator; and
    its `_capacity` is at most the high-water mark of ITS pending bytes (or its largest capacity wish). -/
theorem client_backlog_faithful (n : Nat) (regs : List (List Byte)) (evs : List (Nat × CEv × Nat))
    (hvs : ∀ p ∈ evs, p.1 < n) :
    ∃ d, crun (cinit n regs) evs = some d ∧ ∀ c, c < n → ∃ b, d.st.getBuf c = some b ∧
      d.dead[c]? = some (cspecRun (fun _ => {}) evs c).dead ∧
      contents d.st c = some (bytesOf (cspecRun (fun _ => {}) evs c).pending) ∧
      b.size = (cspecRun (fun _ => {}) evs c).pending.length ∧
      (b.owning = true → Nstd.Buffer.terminator d.st c = some (some (some 0))) ∧
      b.cap ≤ max (cspecRun (fun _ => {}) evs c).peak (cspecRun (fun _ => {}) evs c).wish := by
  obtain ⟨d, qs, hrun, hi⟩ := crun_ok evs _ _ _ (cinit_inv n regs) hvs
  refine ⟨d, hrun, fun c hc => ?_⟩
  have hcl : c < d.st.bufs.length := hi.len ▸ hc
  have hb : d.st.bufs[c]? = some d.st.bufs[c] := List.getElem?_eq_getElem hcl
  obtain ⟨hq, hcap, hdead⟩ := hi.vars c _ hb
  have hm := hi.rel.2 c _ hb
  rw [hq] at hm
  have hd := match_bytesOf_eq hm
  refine ⟨_, hb, hdead, hd ▸ contents_state hi.inv hcl, cinv_size hi hb, fun ho => terminator_of_inv hi.inv hb ho, hcap⟩

/-- the stream view is conservation of bytes: while a client is open, what is pending after an event is what was pending
    plus what was written minus what `send` accepted; `send` accepts at most what it is offered -/
theorem stream_conservation (s : CSt) (k : Nat) (ev : CEv) (hd : (cspecStep s k ev).dead = false) :
    ∃ written accepted, accepted ≤ (s.pending ++ written).length ∧
      (cspecStep s k ev).pending = (s.pending ++ written).drop accepted ∧
      (match ev with | .write dta _ => written = dta | .ready _ => written = []) := by
  cases ev with
  | write dta o =>
    by_cases h1 : s.dead = true
    · simp only [cspecStep, h1, if_true] at hd ⊢
      cases hd
    · by_cases h2 : s.pending = []
      · by_cases h3 : o.closes dta.length = true
        · simp [cspecStep, h1, h2, h3] at hd
        · refine ⟨dta, o.accepted dta.length, ?_, by simp [cspecStep, h1, h2, h3], rfl⟩
          cases o <;> simp [Outcome.accepted, h2] <;> split <;> omega
      · exact ⟨dta, 0, by simp, by simp [cspecStep, h1, h2], rfl⟩
  | ready o =>
    by_cases h1 : s.dead = true
    · simp only [cspecStep, h1, if_true] at hd ⊢
      cases hd
    · by_cases h2 : s.pending = []
      · exact ⟨[], 0, by simp, by simp [cspecStep, h1, h2], rfl⟩
      · by_cases h3 : o.closes s.pending.length = true
        · simp [cspecStep, h1, h2, h3] at hd
        · refine ⟨[], o.accepted s.pending.length, ?_, by simp [cspecStep, h1, h2, h3], rfl⟩
          cases o <;> simp [Outcome.accepted] <;> split <;> omega

/-! ### non-vacuity -/

/-- two clients: client 0 writes 5 bytes of which `send` takes 2, client 1 writes 2 bytes into a blocked socket, client 0
    writes 2 more (appended behind the backlog, `send` not called), a readiness event of client 0 sends 4 of the 5 pending
    bytes, client 1's `send` fails (closed), client 0 drains (storage freed) -/
def exClients : List (Nat × CEv × Nat) :=
  [(0, .write [1, 2, 3, 4, 5] (.cnt 2), 0), (1, .write [9, 8] .wb, 0), (0, .write [6, 7] (.cnt 99), 0),
   (0, .ready (.cnt 4), 0), (1, .ready .err, 0), (0, .write [10] .wb, 0)]

example : (cspecRun (fun _ => {}) exClients 0).pending = [7, 10] ∧ (cspecRun (fun _ => {}) exClients 0).peak = 5 ∧
    (cspecRun (fun _ => {}) exClients 1).dead = true := by decide

example : ∃ d b, crun (cinit 2 []) exClients = some d ∧ d.st.getBuf 0 = some b ∧ contents d.st 0 = some [some 7, some 10] ∧
    b.cap = 5 ∧ d.dead = [false, true] ∧ d.st.led.live.length = 1 := ⟨_, _, rfl, rfl, rfl, rfl, rfl, rfl⟩

end Nstd.Buffer
