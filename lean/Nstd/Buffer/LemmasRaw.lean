import Nstd.Buffer.LemmasCap
import Nstd.Buffer.Raw
/-
  Lemmas about `(pointer, size)` arguments that point into the Buffer's own block (Raw.lean): one lemma per method
  (no fault, invariant, exact bytes, ledger), the specification slice, the step lemma and its lifting to mixed histories.
-/
namespace Nstd.Buffer
set_option linter.unusedVariables false

theorem store_len_eq (s : Store) : s.len = s.mem.length := by cases s <;> rfl

/-! ### per method -/

theorem prependPtr_ok {v : Nat} {b : Buf} {L : Ledger} (hb : BInv v b) (hL : LiveIn b L) (hbd : Bounded L) (src len k : Nat)
    (h : src + len ≤ b.store.mem.length) :
    OkM (b.prependPtr src len k) L (fun b' L' => LStep b.ownId b'.ownId L L' ∧ BInv v b' ∧
      b'.data = rd b.store.mem src len ++ b.data) := by
  unfold LiveIn Bounded at *
  obtain ⟨st, s, e, cap⟩ := b
  cases st with
  | own id m =>
    simp only [BInv] at hb
    simp only [Store.mem] at h
    simp only [Buf.ownId, Option.some.injEq, forall_eq'] at hL
    by_cases hs : len ≤ s
    · obtain ⟨q, rfl⟩ : ∃ q, s = q + len := ⟨s - len, by omega⟩
      simp only [Buf.prependPtr]
      buf_wp
      simp only [Nat.add_sub_cancel]
      mem_finish
    · simp only [Buf.prependPtr]
      buf_wp
      mem_finish
  | att m => simp only [BInv] at hb; simp only [Store.mem] at h; simp only [Buf.prependPtr]; buf_wp; mem_finish
  | dflt c => simp only [BInv] at hb; simp only [Store.mem, List.length_nil] at h; simp only [Buf.prependPtr]; buf_wp; mem_finish

theorem assignPtr_ok {v : Nat} {b : Buf} {L : Ledger} (hb : BInv v b) (hL : LiveIn b L) (hbd : Bounded L) (src len k : Nat)
    (h : src + len ≤ b.store.mem.length) :
    OkM (b.assignPtr src len k) L (fun b' L' => LStep b.ownId b'.ownId L L' ∧ BInv v b' ∧
      b'.data = rd b.store.mem src len) := by
  unfold LiveIn Bounded at *
  obtain ⟨st, s, e, cap⟩ := b
  cases st <;> simp only [BInv] at hb <;> simp only [Store.mem, List.length_nil] at h <;>
    (try simp only [Buf.ownId, Option.some.injEq, forall_eq', reduceCtorEq, false_implies, implies_true] at hL) <;>
    simp only [Buf.assignPtr] <;> buf_wp <;> mem_finish

end Nstd.Buffer
