import Nstd.Buffer.LemmasCap
import Nstd.Buffer.Raw
/-
  Lemmas about `(pointer, size)` arguments that point into the Buffer's own block (Raw.lean): one lemma per method
  (no fault, invariant, exact bytes, ledger), the specification slice, the step lemma and its lifting to mixed histories.
-/
namespace Nstd.Buffer
set_option linter.unusedVariables false

theorem store_len_eq (s : Store) : s.len = s.mem.length := by cases s <;> rfl

/-! ### per method -/

theorem prependPtr_ok {v : Nat} {b : Buf} {L : Ledger} (hb : BInv v b) (hL : LiveIn b L) (hbd : Bounded L) (src len k : Nat)
    (h : src + len ≤ b.store.mem.length) :
    OkM (b.prependPtr src len k) L (fun b' L' => LStep b.ownId b'.ownId L L' ∧ BInv v b' ∧
      b'.data = rd b.store.mem src len ++ b.data) := by
  unfold LiveIn Bounded at *
  obtain ⟨st, s, e, cap⟩ := b
  cases st with
  | own id m =>
    simp only [BInv] at hb
    simp only [Store.mem] at h
    simp only [Buf.ownId, Option.some.injEq, forall_eq'] at hL
    by_cases hs : len ≤ s
    · obtain ⟨q, rfl⟩ : ∃ q, s = q + len := ⟨s - len, by omega⟩
      simp only [Buf.prependPtr]
      buf_wp
      simp only [Nat.add_sub_cancel]
      mem_finish
    · simp only [Buf.prependPtr]
      buf_wp
      mem_finish
  | att m => simp only [BInv] at hb; simp only [Store.mem] at h; simp only [Buf.prependPtr]; buf_wp; mem_finish
  | dflt c => simp only [BInv] at hb; simp only [Store.mem, List.length_nil] at h; simp only [Buf.prependPtr]; buf_wp; mem_finish

theorem assignPtr_ok {v : Nat} {b : Buf} {L : Ledger} (hb : BInv v b) (hL : LiveIn b L) (hbd : Bounded L) (src len k : Nat)
    (h : src + len ≤ b.store.mem.length) :
    OkM (b.assignPtr src len k) L (fun b' L' => LStep b.ownId b'.ownId L L' ∧ BInv v b' ∧
      b'.data = rd b.store.mem src len) := by
  unfold LiveIn Bounded at *
  obtain ⟨st, s, e, cap⟩ := b
  cases st <;> simp only [BInv] at hb <;> simp only [Store.mem, List.length_nil] at h <;>
    (try simp only [Buf.ownId, Option.some.injEq, forall_eq', reduceCtorEq, false_implies, implies_true] at hL) <;>
    simp only [Buf.assignPtr] <;> buf_wp <;> mem_finish

theorem appendPtr_ok_own {v : Nat} {id : Nat} {m : List Byte} {s e cap : Nat} {L : Ledger}
    (hb : m.length = cap + 1 ∧ s ≤ e ∧ e ≤ cap ∧ m[e]? = some (some 0)) (hL : id ∈ L.live) (hbd : ∀ i ∈ L.live, i < L.next) (src len k : Nat)
    (h : src + len ≤ m.length) (hc : src ≤ cap ∧ (src < s ∨ src + len > e)) :
    OkM (Buf.appendPtr { store := .own id m, s := s, e := e, cap := cap } src len k) L (fun b' L' => LStep (some id) b'.ownId L L' ∧ BInv v b' ∧
      b'.data = rd m s (e - s) ++ rd m src len) := by
  obtain ⟨n, rfl⟩ : ∃ n, e = s + n := ⟨e - s, by omega⟩
  simp only [Buf.appendPtr, Buf.owning, hc, and_self, if_true]
  simp only [Buf.append, okM_bind, okM_liftO, ok_ptrSub']
  buf_wp
  simp only [Nat.add_sub_cancel_left, ← Nat.add_assoc, Nat.add_sub_cancel, Nat.sub_zero]
  mem_finish

theorem appendPtr_ok_own2 {v : Nat} {id : Nat} {m : List Byte} {s e cap : Nat} {L : Ledger}
    (hb : m.length = cap + 1 ∧ s ≤ e ∧ e ≤ cap ∧ m[e]? = some (some 0)) (hL : id ∈ L.live) (hbd : ∀ i ∈ L.live, i < L.next) (src len k : Nat)
    (h : src + len ≤ m.length) (hc : ¬ (src ≤ cap ∧ (src < s ∨ src + len > e))) :
    OkM (Buf.appendPtr { store := .own id m, s := s, e := e, cap := cap } src len k) L (fun b' L' => LStep (some id) b'.ownId L L' ∧ BInv v b' ∧
      b'.data = rd m s (e - s) ++ rd m src len) := by
  have hcase : (s ≤ src ∧ src + len ≤ e) ∨ (src = cap + 1 ∧ len = 0) := by omega
  rcases hcase with ⟨h1, h2⟩ | ⟨rfl, rfl⟩
  · obtain ⟨off, rfl⟩ : ∃ off, src = s + off := ⟨src - s, by omega⟩
    obtain ⟨n, rfl⟩ : ∃ n, e = s + n := ⟨e - s, by omega⟩
    have hin : s ≤ s + off ∧ s + off ≤ s + n := by omega
    simp only [Buf.appendPtr, Buf.owning, hc, if_false, true_and, hin, and_self, if_true, okM_bind, okM_liftO, ok_ptrSub']
    buf_wp
    simp only [Nat.add_sub_cancel_left, ← Nat.add_assoc, Nat.add_sub_cancel]
    mem_finish
  · have hin : ¬ (s ≤ cap + 1 ∧ cap + 1 ≤ e) := by omega
    simp only [Buf.appendPtr, Buf.owning, hc, if_false, true_and, hin, okM_bind, okM_liftO, ok_ptrSub']
    buf_wp
    mem_finish

theorem appendPtr_ok {v : Nat} {b : Buf} {L : Ledger} (hb : BInv v b) (hL : LiveIn b L) (hbd : Bounded L) (src len k : Nat)
    (h : src + len ≤ b.store.mem.length) :
    OkM (b.appendPtr src len k) L (fun b' L' => LStep b.ownId b'.ownId L L' ∧ BInv v b' ∧
      b'.data = b.data ++ rd b.store.mem src len) := by
  unfold LiveIn Bounded at *
  obtain ⟨st, s, e, cap⟩ := b
  cases st with
  | own id m =>
    simp only [BInv] at hb
    simp only [Store.mem] at h
    simp only [Buf.ownId, Option.some.injEq, forall_eq'] at hL
    by_cases hc : src ≤ cap ∧ (src < s ∨ src + len > e)
    · exact appendPtr_ok_own hb hL hbd src len k h hc
    · exact appendPtr_ok_own2 hb hL hbd src len k h hc
  | att m =>
    simp only [BInv] at hb; simp only [Store.mem] at h
    simp only [Buf.appendPtr, okM_bind, okM_liftO, ok_ptrSub']
    buf_wp; mem_finish
  | dflt c =>
    simp only [BInv] at hb; simp only [Store.mem, List.length_nil] at h
    simp only [Buf.appendPtr, okM_bind, okM_liftO, ok_ptrSub']
    buf_wp; mem_finish

/-! ### the specification slice -/

theorem slice_get (q : Spec.Queue) (back fwd len i : Nat) :
    (Spec.slice q back fwd len)[i]? =
      if i < len then some (if back ≤ fwd + i then (q[fwd + i - back]?).getD none else none) else none := by
  unfold Spec.slice
  rw [List.getElem?_map]
  by_cases h : i < len
  · simp [List.getElem?_range h, h]
  · simp [h, List.getElem?_eq_none (l := List.range len) (by simpa using h)]

theorem slice_length (q : Spec.Queue) (back fwd len : Nat) : (Spec.slice q back fwd len).length = len := by
  simp [Spec.slice]

/-- the slice of the specification queue matches the bytes of the block the pointer denotes -/
theorem Match.slice {sp m : List Byte} {s e back fwd len : Nat} (hm : Match sp (rd m s (e - s))) (hse : s ≤ e) (he : e ≤ m.length)
    (hb : back ≤ s + fwd) (hl : s + fwd - back + len ≤ m.length) :
    Match (Spec.slice sp back fwd len) (rd m (s + fwd - back) len) := by
  rw [match_iff] at hm ⊢
  obtain ⟨hlen, hp⟩ := hm
  simp only [rd_length] at hlen
  refine ⟨by simp only [slice_length, rd_length]; omega, fun i => ?_⟩
  rw [slice_get, rd_get]
  by_cases hi : i < len
  · simp only [hi, if_true]
    by_cases hbi : back ≤ fwd + i
    · simp only [hbi, if_true]
      have hj := hp (fwd + i - back)
      rw [rd_get] at hj
      by_cases hjn : fwd + i - back < e - s
      · simp only [hjn, if_true] at hj
        have hidx : s + (fwd + i - back) = s + fwd - back + i := by omega
        rw [hidx] at hj
        rcases hj with hj | hj
        · left; rw [hj]; rfl
        · right
          rw [hj]
          have hlt : s + fwd - back + i < m.length := by omega
          rw [List.getElem?_eq_getElem hlt]
          rfl
      · left
        have : sp[fwd + i - back]? = none := List.getElem?_eq_none (by omega)
        rw [this]; rfl
    · left; simp [hbi]
  · right; simp [hi]

/-! ### program states -/

/-- well-formed raw operation in state `st`: the variable exists and the range lies inside its block -/
def WFRaw (st : State) : RawOp → Prop
  | .prepend v back fwd len => ∃ b, st.bufs[v]? = some b ∧ b.fits back fwd len
  | .append v back fwd len => ∃ b, st.bufs[v]? = some b ∧ b.fits back fwd len
  | .assign v back fwd len => ∃ b, st.bufs[v]? = some b ∧ b.fits back fwd len

/-- `upd_ok` for a method that may depend on the variable's current state -/
theorem upd_ok_at {st : State} {qs : List Spec.Queue} {v : Nat} {f : Buf → M Buf} {b : Buf}
    (g : Spec.Queue → Spec.Queue) (hi : Inv st) (hr : Rel qs st) (hb : st.bufs[v]? = some b)
    (hf : BInv v b → LiveIn b st.led → Bounded st.led → ∀ sp, Match sp b.data →
      OkM (f b) st.led (fun b' L' => LStep b.ownId b'.ownId st.led L' ∧ BInv v b' ∧ Match (g sp) b'.data)) :
    Ok (st.upd v f) (Post st (qs.set v (g (Spec.get qs v)))) := by
  have hv : v < st.bufs.length := (List.getElem?_eq_some_iff.1 hb).1
  have hbb : st.bufs[v] = b := by
    have := List.getElem?_eq_getElem hv
    rw [hb] at this
    exact (Option.some.inj this).symm
  obtain ⟨b', L', hb', hstep, hinv, hm⟩ :=
    hf (hi.1 v _ hb) (liveIn_of_inv hi hb) hi.2.bounded _ (hr.2 v _ hb)
  refine ⟨st.setBL v b' L', ?_, setBL_post hi hr hv hinv hm (hbb ▸ hstep)⟩
  simp [State.upd, State.getBuf, hb, hb', State.setBL]

theorem data_eq_rd (b : Buf) : b.data = rd b.store.mem b.s (b.e - b.s) := rfl

theorem binv_window {v : Nat} {b : Buf} (hb : BInv v b) : b.s ≤ b.e ∧ b.e ≤ b.store.mem.length := by
  obtain ⟨st, s, e, cap⟩ := b
  cases st <;> simp only [BInv] at hb <;> simp only [Store.mem] <;> grind

theorem stepRaw_ok {st : State} {qs : List Spec.Queue} (hi : Inv st) (hr : Rel qs st) (k : Nat) (r : RawOp)
    (hw : WFRaw st r) : Ok (stepRaw st k r) (Post st (Spec.stepRaw qs r)) := by
  cases r with
  | prepend v back fwd len =>
    obtain ⟨b, hb, hfit⟩ := hw
    have hfit' := hfit
    unfold Buf.fits at hfit'
    rw [store_len_eq] at hfit'
    refine upd_ok_at (fun sp => Spec.slice sp back fwd len ++ sp) hi hr hb (fun hbi hl hbd sp hm => ?_)
    obtain ⟨hse, he⟩ := binv_window hbi
    simp only [withPtr, hfit, if_true]
    refine (prependPtr_ok hbi hl hbd _ len k hfit'.2).mono (fun b' L' h => ⟨h.1, h.2.1, ?_⟩)
    rw [h.2.2]
    exact (Match.slice (data_eq_rd b ▸ hm) hse he hfit'.1 hfit'.2).append hm
  | append v back fwd len =>
    obtain ⟨b, hb, hfit⟩ := hw
    have hfit' := hfit
    unfold Buf.fits at hfit'
    rw [store_len_eq] at hfit'
    refine upd_ok_at (fun sp => sp ++ Spec.slice sp back fwd len) hi hr hb (fun hbi hl hbd sp hm => ?_)
    obtain ⟨hse, he⟩ := binv_window hbi
    simp only [withPtr, hfit, if_true]
    refine (appendPtr_ok hbi hl hbd _ len k hfit'.2).mono (fun b' L' h => ⟨h.1, h.2.1, ?_⟩)
    rw [h.2.2]
    exact hm.append (Match.slice (data_eq_rd b ▸ hm) hse he hfit'.1 hfit'.2)
  | assign v back fwd len =>
    obtain ⟨b, hb, hfit⟩ := hw
    have hfit' := hfit
    unfold Buf.fits at hfit'
    rw [store_len_eq] at hfit'
    refine upd_ok_at (fun sp => Spec.slice sp back fwd len) hi hr hb (fun hbi hl hbd sp hm => ?_)
    obtain ⟨hse, he⟩ := binv_window hbi
    simp only [withPtr, hfit, if_true]
    refine (assignPtr_ok hbi hl hbd _ len k hfit'.2).mono (fun b' L' h => ⟨h.1, h.2.1, ?_⟩)
    rw [h.2.2]
    exact Match.slice (data_eq_rd b ▸ hm) hse he hfit'.1 hfit'.2

/-- a raw operation that succeeds had its range inside the block (the model rejects everything else) -/
theorem stepRaw_wf {st st' : State} {k : Nat} {r : RawOp} (h : stepRaw st k r = some st') : WFRaw st r := by
  have key : ∀ {v back fwd len : Nat} {f : Buf → Nat → M Buf}, st.upd v (withPtr back fwd len f) = some st' →
      ∃ b, st.bufs[v]? = some b ∧ b.fits back fwd len := by
    intro v back fwd len f h
    obtain ⟨b, b', L', hb, hf, _⟩ := upd_elim h
    refine ⟨b, hb, ?_⟩
    by_cases hfit : b.fits back fwd len
    · exact hfit
    · simp [withPtr, hfit, fault] at hf
  cases r with
  | prepend v back fwd len => exact key h
  | append v back fwd len => exact key h
  | assign v back fwd len => exact key h

/-- well-formed mixed operation in state `st` -/
def WFX (st : State) : XOp → Prop
  | .std op => WFOp st.bufs.length st.regs op
  | .raw r => WFRaw st r

/-- a mixed history is well-formed when every operation is well-formed in the state it is executed in -/
def WFRunX : State → List (XOp × Nat) → Prop
  | _, [] => True
  | st, (op, k) :: ops => WFX st op ∧ ∀ st1, stepX st k op = some st1 → WFRunX st1 ops

theorem stepX_ok {st : State} {qs : List Spec.Queue} (hi : Inv st) (hr : Rel qs st) (k : Nat) (op : XOp)
    (hw : WFX st op) : Ok (stepX st k op) (Post st (Spec.stepX st.regs qs op)) := by
  cases op with
  | std op => exact step_ok hi hr k op hw
  | raw r => exact stepRaw_ok hi hr k r hw

theorem stepX_wf {st st' : State} {k : Nat} {op : XOp} (h : stepX st k op = some st') : WFX st op := by
  cases op with
  | std op => exact step_wf h
  | raw r => exact stepRaw_wf h

theorem runX_ok : ∀ (ops : List (XOp × Nat)) {st : State} {qs : List Spec.Queue}, Inv st → Rel qs st → WFRunX st ops →
    Ok (runX st ops) (Post st (Spec.runX st.regs qs (ops.map Prod.fst)))
  | [], st, qs, hi, hr, _ => (ok_some _ _).2 ⟨hi, hr, rfl, rfl⟩
  | (op, k) :: ops, st, qs, hi, hr, hw => by
    obtain ⟨st1, h1, p1⟩ := stepX_ok hi hr k op hw.1
    obtain ⟨st2, h2, p2⟩ := runX_ok ops p1.1 p1.2.1 (hw.2 st1 h1)
    refine ⟨st2, ?_, p1.trans (p1.2.2.1 ▸ p2)⟩
    simp [runX, h1, h2]

theorem runX_post : ∀ (ops : List (XOp × Nat)) {st st' : State} {qs : List Spec.Queue}, Inv st → Rel qs st →
    runX st ops = some st' → Post st (Spec.runX st.regs qs (ops.map Prod.fst)) st'
  | [], st, st', qs, hi, hr, h => by
    simp only [runX, Option.some.injEq] at h
    subst h
    exact ⟨hi, hr, rfl, rfl⟩
  | (op, k) :: ops, st, st', qs, hi, hr, h => by
    cases h1 : stepX st k op with
    | none => simp [runX, h1] at h
    | some st1 =>
      have h2 : runX st1 ops = some st' := by simpa [runX, h1] using h
      obtain ⟨st1', h1', p1⟩ := stepX_ok hi hr k op (stepX_wf h1)
      rw [h1] at h1'
      cases h1'
      have p2 := runX_post ops p1.1 p1.2.1 h2
      exact p1.trans (p1.2.2.1 ▸ p2)

/-! ### capacity of mixed histories -/

theorem prependPtr_cap {v : Nat} {b : Buf} {L : Ledger} (hb : BInv v b) (hL : LiveIn b L) (hbd : Bounded L) (src len k : Nat)
    (h : src + len ≤ b.store.mem.length) :
    OkM (b.prependPtr src len k) L (fun b' _ => b'.cap ≤ max b.cap (max (len + (b.e - b.s)) k)) := by
  unfold LiveIn Bounded at *
  obtain ⟨st, s, e, cap⟩ := b
  cases st with
  | own id m =>
    simp only [BInv] at hb
    simp only [Store.mem] at h
    simp only [Buf.ownId, Option.some.injEq, forall_eq'] at hL
    by_cases hs : len ≤ s
    · obtain ⟨q, rfl⟩ : ∃ q, s = q + len := ⟨s - len, by omega⟩
      simp only [Buf.prependPtr]
      buf_wp
      simp only [Nat.add_sub_cancel]
      mem_finish
    · simp only [Buf.prependPtr]
      buf_wp
      mem_finish
  | att m => simp only [BInv] at hb; simp only [Store.mem] at h; simp only [Buf.prependPtr]; buf_wp; mem_finish
  | dflt c => simp only [BInv] at hb; simp only [Store.mem, List.length_nil] at h; simp only [Buf.prependPtr]; buf_wp; mem_finish

theorem assignPtr_cap {v : Nat} {b : Buf} {L : Ledger} (hb : BInv v b) (hL : LiveIn b L) (hbd : Bounded L) (src len k : Nat)
    (h : src + len ≤ b.store.mem.length) :
    OkM (b.assignPtr src len k) L (fun b' _ => b'.cap ≤ max b.cap (max len k)) := by
  unfold LiveIn Bounded at *
  obtain ⟨st, s, e, cap⟩ := b
  cases st <;> simp only [BInv] at hb <;> simp only [Store.mem, List.length_nil] at h <;>
    (try simp only [Buf.ownId, Option.some.injEq, forall_eq', reduceCtorEq, false_implies, implies_true] at hL) <;>
    simp only [Buf.assignPtr] <;> buf_wp <;> mem_finish

theorem appendPtr_cap {v : Nat} {b : Buf} {L : Ledger} (hb : BInv v b) (hL : LiveIn b L) (hbd : Bounded L) (src len k : Nat)
    (h : src + len ≤ b.store.mem.length) :
    OkM (b.appendPtr src len k) L (fun b' _ => b'.cap ≤ max b.cap (max ((b.e - b.s) + len) k)) := by
  unfold LiveIn Bounded at *
  obtain ⟨st, s, e, cap⟩ := b
  cases st with
  | own id m =>
    simp only [BInv] at hb
    simp only [Store.mem] at h
    simp only [Buf.ownId, Option.some.injEq, forall_eq'] at hL
    by_cases hc : src ≤ cap ∧ (src < s ∨ src + len > e)
    · obtain ⟨n, rfl⟩ : ∃ n, e = s + n := ⟨e - s, by omega⟩
      simp only [Buf.appendPtr, Buf.owning, hc, and_self, if_true]
      simp only [Buf.append, okM_bind, okM_liftO, ok_ptrSub']
      buf_wp
      simp only [Nat.add_sub_cancel_left, ← Nat.add_assoc, Nat.add_sub_cancel, Nat.sub_zero]
      mem_finish
    · have hcase : (s ≤ src ∧ src + len ≤ e) ∨ (src = cap + 1 ∧ len = 0) := by omega
      rcases hcase with ⟨h1, h2⟩ | ⟨rfl, rfl⟩
      · obtain ⟨off, rfl⟩ : ∃ off, src = s + off := ⟨src - s, by omega⟩
        obtain ⟨n, rfl⟩ : ∃ n, e = s + n := ⟨e - s, by omega⟩
        have hin : s ≤ s + off ∧ s + off ≤ s + n := by omega
        simp only [Buf.appendPtr, Buf.owning, hc, if_false, true_and, hin, and_self, if_true, okM_bind, okM_liftO, ok_ptrSub']
        buf_wp
        simp only [Nat.add_sub_cancel_left, ← Nat.add_assoc, Nat.add_sub_cancel]
        mem_finish
      · have hin : ¬ (s ≤ cap + 1 ∧ cap + 1 ≤ e) := by omega
        simp only [Buf.appendPtr, Buf.owning, hc, if_false, true_and, hin, okM_bind, okM_liftO, ok_ptrSub']
        buf_wp
        mem_finish
  | att m =>
    simp only [BInv] at hb; simp only [Store.mem] at h
    simp only [Buf.appendPtr, okM_bind, okM_liftO, ok_ptrSub']
    buf_wp; mem_finish
  | dflt c =>
    simp only [BInv] at hb; simp only [Store.mem, List.length_nil] at h
    simp only [Buf.appendPtr, okM_bind, okM_liftO, ok_ptrSub']
    buf_wp; mem_finish

namespace Spec

/-- the size a mixed operation requests -/
def demandX (qs : List Queue) : XOp → Nat
  | .std op => demand qs op
  | .raw (.prepend v _ _ len) => len + (get qs v).length
  | .raw (.append v _ _ len) => (get qs v).length + len
  | .raw (.assign _ _ _ len) => len

def peakX (regs : List (List Byte)) : List Queue → List (XOp × Nat) → Nat
  | _, [] => 0
  | qs, (op, k) :: ops => max (max (demandX qs op) k) (peakX regs (stepX regs qs op) ops)

end Spec

theorem stepRaw_cap {st st' : State} {qs : List Spec.Queue} {N k : Nat} {r : RawOp} (hi : Inv st) (hr : Rel qs st)
    (h : stepRaw st k r = some st') (hN : CapLe N st) : CapLe (max N (max (Spec.demandX qs (.raw r)) k)) st' := by
  have hw := stepRaw_wf h
  have len_of : ∀ {u : Nat} {b : Buf}, st.bufs[u]? = some b → (Spec.get qs u).length = b.e - b.s := by
    intro u b hb
    rw [(hr.2 u b hb).length, data_length (hi.1 u b hb)]
  cases r with
  | prepend v back fwd len =>
    obtain ⟨b0, hb0, hfit⟩ := hw
    refine upd_cap hi h hN (fun b hb hbi hl hbd => ?_)
    rw [hb0] at hb; cases hb
    have hfit' := hfit; unfold Buf.fits at hfit'; rw [store_len_eq] at hfit'
    simp only [withPtr, hfit, if_true]
    refine (prependPtr_cap hbi hl hbd _ len k hfit'.2).mono (fun b' _ hc => ?_)
    have := len_of hb0
    simp only [Spec.demandX]; omega
  | append v back fwd len =>
    obtain ⟨b0, hb0, hfit⟩ := hw
    refine upd_cap hi h hN (fun b hb hbi hl hbd => ?_)
    rw [hb0] at hb; cases hb
    have hfit' := hfit; unfold Buf.fits at hfit'; rw [store_len_eq] at hfit'
    simp only [withPtr, hfit, if_true]
    refine (appendPtr_cap hbi hl hbd _ len k hfit'.2).mono (fun b' _ hc => ?_)
    have := len_of hb0
    simp only [Spec.demandX]; omega
  | assign v back fwd len =>
    obtain ⟨b0, hb0, hfit⟩ := hw
    refine upd_cap hi h hN (fun b hb hbi hl hbd => ?_)
    rw [hb0] at hb; cases hb
    have hfit' := hfit; unfold Buf.fits at hfit'; rw [store_len_eq] at hfit'
    simp only [withPtr, hfit, if_true]
    refine (assignPtr_cap hbi hl hbd _ len k hfit'.2).mono (fun b' _ hc => ?_)
    simp only [Spec.demandX]; omega

theorem runX_cap : ∀ (ops : List (XOp × Nat)) {st st' : State} {qs : List Spec.Queue} {N : Nat}, Inv st → Rel qs st →
    runX st ops = some st' → CapLe N st → CapLe (max N (Spec.peakX st.regs qs ops)) st'
  | [], st, st', qs, N, hi, hr, h, hN => by
    simp only [runX, Option.some.injEq] at h
    subst h
    intro u b hb
    have := hN u b hb
    simp only [Spec.peakX]
    omega
  | (op, k) :: ops, st, st', qs, N, hi, hr, h, hN => by
    cases h1 : stepX st k op with
    | none => simp [runX, h1] at h
    | some st1 =>
      have h2 : runX st1 ops = some st' := by simpa [runX, h1] using h
      obtain ⟨st1', h1', p1⟩ := stepX_ok hi hr k op (stepX_wf h1)
      rw [h1] at h1'
      cases h1'
      have c1 : CapLe (max N (max (Spec.demandX qs op) k)) st1 := by
        cases op with
        | std o => exact step_cap hi hr h1 hN
        | raw r => exact stepRaw_cap hi hr h1 hN
      have c2 := runX_cap ops p1.1 p1.2.1 h2 c1
      rw [p1.2.2.1] at c2
      intro u b hb
      have := c2 u b hb
      simp only [Spec.peakX]
      omega

/-- the terminator of an owning variable in any state satisfying the invariant -/
theorem terminator_of_inv {st : State} (hi : Inv st) {v : Nat} {b : Buf} (hb : st.getBuf v = some b)
    (hown : b.owning = true) : Nstd.Buffer.terminator st v = some (some (some 0)) := by
  have hbi := hi.1 v b hb
  have hlive := hi.2.live_of_owned v b
  obtain ⟨store, s, e, cap⟩ := b
  cases store with
  | own id m =>
    simp only [BInv] at hbi
    obtain ⟨hl, _, he, ht⟩ := hbi
    have hid : id ∈ st.led.live := hlive id hb rfl
    have hlt : e < m.length := by omega
    have hget : m[e] = some 0 := by
      rw [List.getElem?_eq_getElem hlt] at ht
      exact Option.some.inj ht
    have hrd : rdList m e 1 = some [some 0] := by
      have h1 : e + 1 ≤ m.length := by omega
      simp only [rdList, h1, if_true, Option.some.injEq]
      rw [List.drop_eq_getElem_cons hlt, hget]
      simp
    have hload : (Store.own id m).load e 1 st.led = some ([some 0], st.led) := by
      have : OkM ((Store.own id m).load e 1) st.led (fun c L' => c = [some 0] ∧ L' = st.led) := by
        simp only [Store.load, okM_bind, okM_checkLive, okM_liftO, hrd, ok_some]
        simp [hid]
      obtain ⟨c, L', hc, rfl, rfl⟩ := this
      exact hc
    simp only [Nstd.Buffer.terminator, hb, Option.bind_eq_bind, Option.bind_some, hload]
    rfl
  | att m => simp [Buf.owning] at hown
  | dflt c => simp [Buf.owning] at hown

end Nstd.Buffer
