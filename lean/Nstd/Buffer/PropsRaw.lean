import Nstd.Buffer.LemmasRaw
/-
  Property C08, `(pointer, size)` arguments that point into the Buffer's own ALLOCATION: the head-room in front of
  `bufferStart`, the exposed bytes, the terminator and the spare capacity behind `bufferEnd` (or anywhere into the
  attached range) – `b.prepend((const byte*)b - 3, 2)`, `b.append((const byte*)b + b.size(), n)`,
  `b.assign((const byte*)b, b.size() + 1)`, ….  Model: Raw.lean (`prependPtr`, `appendPtr`, `assignPtr` follow the
  three methods of Buffer.hpp with the source pointer inside the object's block; mixed histories `runX` of the 21
  operations of Model.lean and the three raw operations).  Specification: the argument denotes the queue's bytes where it
  overlaps the exposed bytes and unspecified bytes elsewhere (`Spec.slice`).

  The argument range must lie inside the block (`Buf.fits`: anything else is memory the caller does not own; the model
  faults, `raw_outside_block_faults`) – a condition on the state the call is made in, therefore well-formedness of a
  mixed history is `WFRunX` (every operation is well-formed in the state it is executed in).
-/
namespace Nstd.Buffer

/-- mixed histories extend the histories of Model.lean -/
theorem runX_extends_run (st : State) (ops : List (Op × Nat)) :
    runX st (ops.map (fun p => (XOp.std p.1, p.2))) = run st ops := by
  induction ops generalizing st with
  | nil => rfl
  | cons p ops ih =>
    obtain ⟨op, k⟩ := p
    simp only [List.map_cons, runX, run, stepX]
    cases step st k op with
    | none => rfl
    | some st1 => simpa using ih st1

/-- **No out-of-range access, no use of released storage, no overlapping `memcpy`** for histories that pass pointers
    into the Buffer's own allocation: every mixed history whose operations are well-formed where they are executed
    (indices exist, attached ranges inside their region, raw ranges inside the block of their variable) runs without a
    fault – whatever part of the allocation the ranges cover and whatever branch (head-room, in place, compact,
    reallocate) the methods take. -/
theorem raw_no_fault (nvars : Nat) (regs : List (List Byte)) (ops : List (XOp × Nat))
    (hwf : WFRunX (init nvars regs) ops) : ∃ st, runX (init nvars regs) ops = some st := by
  obtain ⟨st, h, _⟩ := runX_ok ops (qs := Spec.init nvars) (init_inv nvars regs) (init_rel nvars regs) hwf
  exact ⟨st, h⟩

/-- from every state a mixed history reaches, a raw argument whose range lies inside the block of its variable is
    accepted: the operation does not fault -/
theorem raw_arg_accepted (nvars : Nat) (regs : List (List Byte)) (ops : List (XOp × Nat)) (st : State)
    (hrun : runX (init nvars regs) ops = some st) (k : Nat) (r : RawOp) (hw : WFRaw st r) :
    ∃ st', stepRaw st k r = some st' := by
  have hp := runX_post ops (qs := Spec.init nvars) (init_inv nvars regs) (init_rel nvars regs) hrun
  obtain ⟨st', h, _⟩ := stepRaw_ok hp.1 hp.2.1 k r hw
  exact ⟨st', h⟩

/-- **Byte queue, terminator, attached memory, ledger** after any mixed history the model does not fault on: attached
    regions unchanged; every variable's exposed bytes match the reference byte queue (a raw argument contributes the
    queue's own bytes where it overlaps them, unspecified bytes where it covers head-room / terminator / spare
    capacity); an owning variable has its terminating zero; every live allocation belongs to exactly one variable and
    every owned block is live. -/
theorem raw_correct (nvars : Nat) (regs : List (List Byte)) (ops : List (XOp × Nat)) (st : State)
    (hrun : runX (init nvars regs) ops = some st) :
    st.regs = regs ∧
    (∀ v, v < nvars → ∃ b c, st.getBuf v = some b ∧ contents st v = some c ∧
      Match (Spec.get (Spec.runX regs (Spec.init nvars) (ops.map Prod.fst)) v) c ∧
      (b.owning = true → Nstd.Buffer.terminator st v = some (some (some 0)))) ∧
    (∀ id, id ∈ st.led.live → ∃ v b, st.getBuf v = some b ∧ b.ownId = some id) ∧
    (∀ v b id, st.getBuf v = some b → b.ownId = some id →
      id ∈ st.led.live ∧ ∀ w b', st.getBuf w = some b' → b'.ownId = some id → w = v) := by
  have hp := runX_post ops (qs := Spec.init nvars) (init_inv nvars regs) (init_rel nvars regs) hrun
  have hlen : st.bufs.length = nvars := by simpa [init] using hp.2.2.2
  refine ⟨hp.2.2.1, fun v hv => ?_, hp.1.2.owned_of_live, fun v b id hb hid =>
    ⟨hp.1.2.live_of_owned v b id hb hid, fun w b' hw hid' => hp.1.2.excl w v b' b id hw hb hid' hid⟩⟩
  have hb : st.getBuf v = some st.bufs[v] := List.getElem?_eq_getElem (hlen ▸ hv)
  exact ⟨_, st.bufs[v].data, hb, contents_state hp.1 (hlen ▸ hv), hp.2.1.2 v _ hb,
    fun ho => terminator_of_inv hp.1 hb ho⟩

/-- **Capacity policy bound for mixed histories** (`capacity_policy_bound` extended to the raw operations): after any mixed
    history every `_capacity` is at most the largest size an operation requested (`Spec.demandX`: for a raw argument of
    `len` bytes the size of the result) or the environment wished for. -/
theorem capacity_policy_bound_raw (nvars : Nat) (regs : List (List Byte)) (ops : List (XOp × Nat)) (st : State)
    (hrun : runX (init nvars regs) ops = some st) (v : Nat) (b : Buf) (hb : st.getBuf v = some b) :
    b.cap ≤ Spec.peakX regs (Spec.init nvars) ops := by
  have h0 : CapLe 0 (init nvars regs) := by
    intro u bu hu
    obtain ⟨_, rfl⟩ := init_bufs nvars regs u bu hu
    simp [Buf.default]
  have := runX_cap ops (init_inv nvars regs) (init_rel nvars regs) hrun h0 v b hb
  simpa [init] using this

/-- a range that is not inside the block of the variable is not an argument the model accepts: the raw operation
    faults (so `WFRunX` asks for nothing that the model does not need) -/
theorem raw_outside_block_faults (st : State) (k v back fwd len : Nat) (b : Buf) (hb : st.getBuf v = some b)
    (h : ¬ b.fits back fwd len) :
    stepRaw st k (.prepend v back fwd len) = none ∧ stepRaw st k (.append v back fwd len) = none ∧
      stepRaw st k (.assign v back fwd len) = none := by
  simp [stepRaw, State.upd, hb, withPtr, h, fault]

/-! ### non-vacuity: the inputs that made the unrepaired Buffer.hpp fault -/

/-- `b.prepend((const byte*)b - 3, 2)` with 4 bytes of head-room: source `[1,3)` and destination `[2,4)` of the
    allocation overlap (was a `memcpy`) -/
example : ∃ st, runX (init 1 []) [(.std (.ctorData 0 [1, 2, 3, 4, 5, 6, 7, 8]), 0), (.std (.removeFront 0 4), 0),
      (.raw (.prepend 0 3 0 2), 0)] = some st ∧
    contents st 0 = some [some 2, some 3, some 5, some 6, some 7, some 8] := ⟨_, rfl, rfl⟩

/-- `b.append((const byte*)b - 2, 3)`: the data lies in the head-room and the exposed bytes of a block that the growing
    `resize` deletes (was a use after free); `b.append((const byte*)b + 2, 4)` runs from the exposed bytes into the spare
    capacity (was an overlapping `memcpy`): unspecified bytes of the fresh allocation are appended -/
example : ∃ st, runX (init 1 []) [(.std (.ctorData 0 [1, 2, 3, 4]), 0), (.std (.removeFront 0 2), 0),
      (.raw (.append 0 2 0 3), 0)] = some st ∧
    contents st 0 = some [some 3, some 4, some 1, some 2, some 3] ∧ st.led.live = [2] := ⟨_, rfl, rfl, rfl⟩
example : ∃ st, runX (init 1 []) [(.std (.ctorCap 0 16), 0), (.std (.appendData 0 [1, 2, 3, 4]), 0),
      (.raw (.append 0 0 2 4), 0)] = some st ∧
    contents st 0 = some [some 1, some 2, some 3, some 4, some 3, some 4, some 0, none] := ⟨_, rfl, rfl⟩

/-- `b.assign((const byte*)b, b.size() + 1)`: the whole allocation including the terminator, one byte more than the
    capacity (the old block was deleted before it was copied) -/
example : ∃ st, runX (init 1 []) [(.std (.ctorData 0 [1, 2, 3]), 0), (.raw (.assign 0 0 0 4), 0)] = some st ∧
    contents st 0 = some [some 1, some 2, some 3, some 0] ∧ st.led.live = [1] := ⟨_, rfl, rfl, rfl⟩

/-- the hypotheses of `raw_no_fault` are met by such a history, and a range that leaves the allocation is refused -/
example : WFRunX (init 1 []) [(.std (.ctorData 0 [1, 2, 3]), 0), (.raw (.assign 0 0 0 4), 0)] := by
  refine ⟨by simp [WFX, WFOp, init], fun st1 h1 => ⟨?_, fun _ _ => trivial⟩⟩
  have : st1 = (runX (init 1 []) [(.std (.ctorData 0 [1, 2, 3]), 0)]).get (by decide) := by
    simp only [runX, h1, Option.bind_eq_bind, Option.bind_some, Option.get_some]
  subst this
  exact ⟨_, rfl, by decide⟩
example : runX (init 1 []) [(.std (.ctorData 0 [1, 2, 3]), 0), (.raw (.assign 0 0 0 5), 0)] = none := by decide

end Nstd.Buffer
