import Nstd.Buffer.Spec
/-
  `(pointer, size)` arguments that point anywhere into the Buffer's own ALLOCATION – head-room in front of
  `bufferStart`, the exposed bytes, the terminator and the spare capacity behind `bufferEnd` – or anywhere into the
  attached range.  Core Lean only (the driver links this file).

  `prependPtr` / `appendPtr` / `assignPtr` follow `prepend(const byte*, usize)`, `append(const byte*, usize)` and
  `assign(const byte*, usize)` of Buffer.hpp with `data = block + src`, `src` an offset into the block `bufferStart`
  points into (for an owning Buffer the allocation of `_capacity + 1` bytes).  The loads go through the same checked
  memory as everything else: a range that leaves the block, a read of a block that has been `delete[]`d, or a
  `Memory::copy` (= `memcpy`) of overlapping ranges is a fault.

  The operations `RawOp` give the pointer relative to `bufferStart` (`data = bufferStart + fwd - back`), so that the
  byte-queue specification can say which bytes the argument denotes: the bytes of the queue where the range overlaps the
  exposed bytes, unspecified bytes elsewhere (`Spec.slice`).  A range that does not lie inside the block is not a
  valid argument (the caller passes memory it does not own): the model faults (`stepRaw`).
-/
namespace Nstd.Buffer

/-- length of the block `bufferStart` points into: the allocation, the attached range, or nothing -/
def Store.len : Store → Nat
  | .own _ m => m.length
  | .att m => m.length
  | .dflt _ => 0

/-- `prepend(data, size)` with `data = block + src` -/
def Buf.prependPtr (b : Buf) (src len : Nat) (k : Nat) : M Buf :=
  let size := len
  if b.owning = true ∧ size ≤ b.s then do
    -- room in front; `Memory::move`: the data may lie in the head-room itself
    let d ← b.store.load src size
    let st ← b.store.write (b.s - size) d
    pure { b with store := st, s := b.s - size }
  else
    let oldSize := b.e - b.s
    let required := size + oldSize
    -- `data + size <= buffer || data > buffer + _capacity` with `data = buffer + src`
    if b.owning = true ∧ required ≤ b.cap ∧ (src + size ≤ 0 ∨ src > b.cap) then do
      let old ← b.store.load b.s oldSize
      let st ← b.store.write size old            -- `Memory::move`
      let d ← st.load src size                   -- the data is read after the shift
      if noOverlap 0 src size then do
        let st ← st.write 0 d
        let st ← st.write required [some 0]
        pure { b with store := st, s := 0, e := required }
      else fault
    else do
      -- reallocate: both copies read the old block, which is deleted afterwards
      let cap := newCap required k
      let st ← newBlock (cap + 1)
      let d ← b.store.load src size
      let st ← st.write 0 d
      let old ← b.store.load b.s oldSize
      let st ← st.write size old
      b.store.release
      let st ← st.write required [some 0]
      pure { store := st, s := 0, e := required, cap := cap }

/-- `append(data, size)` with `data = block + src` -/
def Buf.appendPtr (b : Buf) (src len : Nat) (k : Nat) : M Buf :=
  -- `if(buffer && data >= buffer && data <= buffer + _capacity && (data < bufferStart || data + size > bufferEnd))
  --    return append(Buffer(data, size));`
  if b.owning = true ∧ src ≤ b.cap ∧ (src < b.s ∨ src + len > b.e) then do
    let d ← b.store.load src len
    let tmp ← Buf.ctorData d 0                   -- the temporary `Buffer(data, size)`
    let td ← tmp.contents
    let b' ← b.append td k                       -- `append(const Buffer&)`
    tmp.destroy                                  -- `~Buffer()` of the temporary
    pure b'
  else do
    let size := len
    let inside := b.owning = true ∧ b.s ≤ src ∧ src ≤ b.e
    let b' ← b.resize (b.e - b.s + size) k
    let dst ← liftO (ptrSub b'.e size)
    if inside then do
      -- `data = bufferStart + offset`
      let d ← b'.store.load (b'.s + (src - b.s)) size
      if noOverlap dst (b'.s + (src - b.s)) size then do
        let st ← b'.store.write dst d
        Buf.termIfOwning { b' with store := st }
      else fault
    else do
      -- `data` still points where it pointed (attached range, capacity cell): `resize` does not touch that memory
      let d ← b.store.load src size
      let st ← b'.store.write dst d
      Buf.termIfOwning { b' with store := st }

/-- `assign(data, size)` with `data = block + src` -/
def Buf.assignPtr (b : Buf) (src len : Nat) (k : Nat) : M Buf :=
  let size := len
  if size > b.cap then do
    let cap := newCap size k
    let st ← newBlock (cap + 1)
    let d ← b.store.load src size     -- `Memory::copy(newBuffer, data, size)`: the old block is still there
    let st ← st.write 0 d
    b.store.release
    let st ← st.write size [some 0]
    pure { store := st, s := 0, e := size, cap := cap }
  else
    match b.store with
    | .own _ _ => do
      let d ← b.store.load src size
      let st ← b.store.write 0 d       -- `Memory::move` (overlap allowed)
      let st ← st.write size [some 0]
      pure { b with store := st, s := 0, e := size }
    | _ => pure { b with e := b.s }

/-- a `(pointer, size)` argument into the variable's own block: `data = bufferStart + fwd - back`, `len` bytes -/
inductive RawOp where
  | prepend (v back fwd len : Nat)
  | append (v back fwd len : Nat)
  | assign (v back fwd len : Nat)
  deriving Repr, Inhabited

/-- the range `[bufferStart + fwd - back, … + len)` lies inside the block `bufferStart` points into -/
def Buf.fits (b : Buf) (back fwd len : Nat) : Prop := back ≤ b.s + fwd ∧ b.s + fwd - back + len ≤ b.store.len

instance (b : Buf) (back fwd len : Nat) : Decidable (b.fits back fwd len) := by unfold Buf.fits; infer_instance

/-- run a method with a raw pointer argument; a range outside the block is not an argument the caller may pass -/
def withPtr (back fwd len : Nat) (f : Buf → Nat → M Buf) (b : Buf) : M Buf :=
  if b.fits back fwd len then f b (b.s + fwd - back) else fault

def stepRaw (st : State) (k : Nat) : RawOp → Option State
  | .prepend v back fwd len => st.upd v (withPtr back fwd len (fun b src => b.prependPtr src len k))
  | .append v back fwd len => st.upd v (withPtr back fwd len (fun b src => b.appendPtr src len k))
  | .assign v back fwd len => st.upd v (withPtr back fwd len (fun b src => b.assignPtr src len k))

/-- histories that mix the operations of Model.lean with raw pointer arguments -/
inductive XOp where
  | std (op : Op)
  | raw (r : RawOp)
  deriving Repr, Inhabited

def stepX (st : State) (k : Nat) : XOp → Option State
  | .std op => step st k op
  | .raw r => stepRaw st k r

def runX (st : State) : List (XOp × Nat) → Option State
  | [] => some st
  | (op, k) :: ops => do let st ← stepX st k op; runX st ops

namespace Spec

/-- the bytes a pointer `bufferStart + fwd - back` of `len` bytes denotes in the byte-queue view: the queue's bytes where
    the range overlaps the exposed bytes, unspecified bytes (head-room, terminator, spare capacity) elsewhere -/
def slice (q : Queue) (back fwd len : Nat) : Queue :=
  (List.range len).map (fun i => if back ≤ fwd + i then (q[fwd + i - back]?).getD none else none)

def stepRaw (qs : List Queue) : RawOp → List Queue
  | .prepend v back fwd len => qs.set v (slice (get qs v) back fwd len ++ get qs v)
  | .append v back fwd len => qs.set v (get qs v ++ slice (get qs v) back fwd len)
  | .assign v back fwd len => qs.set v (slice (get qs v) back fwd len)

def stepX (regs : List (List Byte)) (qs : List Queue) : XOp → List Queue
  | .std op => step regs qs op
  | .raw r => stepRaw qs r

def runX (regs : List (List Byte)) (qs : List Queue) : List XOp → List Queue
  | [] => qs
  | op :: ops => runX regs (stepX regs qs op) ops

end Spec

end Nstd.Buffer
