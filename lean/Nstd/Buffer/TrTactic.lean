import Lean.Elab.Tactic
import Nstd.Generated.BufferBody
import Nstd.Buffer.LemmasBuf
/-
  Proof automation for PropsTr*.lean: symbolic execution of a generated method body (Nstd/Generated/BufferBody.lean over the
  machine of CMem.lean) and of the hand-written model method (Model.lean) side by side.
-/
namespace Nstd.Buffer
open C

theorem rdList_some {m : List Byte} {off n : Nat} (h : off + n ≤ m.length) : rdList m off n = some (rd m off n) := by
  simp [rdList, rd, h]
theorem wrList_some {m : List Byte} {off : Nat} {d : List Byte} (h : off + d.length ≤ m.length) :
    wrList m off d = some (wr m off d) := by
  simp [wrList, wr, h]
theorem rdList_none {m : List Byte} {off n : Nat} (h : ¬ off + n ≤ m.length) : rdList m off n = none := by
  simp [rdList, h]
theorem wrList_none {m : List Byte} {off : Nat} {d : List Byte} (h : ¬ off + d.length ≤ m.length) :
    wrList m off d = none := by
  simp [wrList, h]

theorem rd_all (d : List Byte) : rd d 0 d.length = d := by simp [rd]

theorem rd_zero (m : List Byte) (off : Nat) : rd m off 0 = [] := by simp [rd]

/-- the `_capacity` the translated method leaves behind (0 when it faults): the capacity wish under which the model method is
    compared with it – the model allocates `max needed wish`, so with today's source (which allocates exactly what is needed) this
    is the model's wish-0 behaviour, and a source that allocates more (another growth policy) is still the model method -/
def capOf (r : Option (C.Obj × C.Heap)) : Nat :=
  match r with
  | some r => r.1.capacity
  | none => 0

theorem ble_dec (a b : Nat) : Nat.ble a b = decide (a ≤ b) := by
  by_cases h : a ≤ b
  · simp [h, Nat.ble_eq]
  · have : ¬ (Nat.ble a b = true) := fun hh => h (Nat.ble_eq ▸ hh)
    simp [h, this]
theorem blt_dec (a b : Nat) : Nat.blt a b = decide (a < b) := by
  by_cases h : a < b
  · simp [h, Nat.blt_eq]
  · have : ¬ (Nat.blt a b = true) := fun hh => h (Nat.blt_eq ▸ hh)
    simp [h, this]

/-- conditions are decided by `omega` from the case hypotheses, whatever way the source spells them -/
theorem dec_true {p : Prop} [Decidable p] (h : p) : decide p = true := by simp [h]
theorem dec_false {p : Prop} [Decidable p] (h : ¬ p) : decide p = false := by simp [h]

/-- unfold both machines and compute; side conditions of the checked loads/stores by `omega` -/
macro "tr_simp1" "[" ts:Lean.Parser.Tactic.simpLemma,* "]" loc:(Lean.Parser.Tactic.location)? : tactic => `(tactic|
  simp (disch := ((try simp only [rd_length, wr_length, fresh_length, List.length_cons, List.length_nil, List.length_map, bytesOf]); omega))
    [tr_gen, capOf, ble_dec, blt_dec, Base.isNull, Nat.max_self, Nat.max_eq_left, Nat.max_eq_right, objOf, heapOf, blocksOf, attOf, out, outB, bind, pure, branch, val, C.led, ngt, nlt, nge, nle, neq, nadd, nsub, nmul, ndiv, nshr, nshl, Nat.pow_one, pdiff, padd, psub,
     ple, plt, pge, pgt, peq, prel, tern, band, bor, bnot, truthy, nullPtr, cellPtr,
     newArr, memcopy, memmove, load, store, store0, deleteArr, getBlk, setBlk, disjoint, allocId, checkLive, deleteId, newBlock,
     Store.load, Store.write, Store.release, liftO, newCap, ptrSub, Buf.termIfOwning, Buf.home, Buf.owning, Buf.default, cfault, fault,
     noOverlap, rd_all, rd_zero, rdList_some, wrList_some, List.lookup, List.filter_cons, List.filter_nil, List.map_cons, List.map_nil, $ts,*, *] $[$loc]?)

/-- decide the conditions the computation is stuck at from the case hypotheses (`omega`), however the source spells them -/
macro "tr_fix" loc:(Lean.Parser.Tactic.location)? : tactic => `(tactic|
  simp (disch := ((try simp only [rd_length, wr_length, fresh_length, List.length_cons, List.length_nil, List.length_map, bytesOf]); omega)) only
    [dec_true, dec_false, if_pos, if_neg] $[$loc]?)

open Lean Elab Tactic Meta in
/-- case split on the first closed condition (`decide p` / `if p then … else …`) the goal (or the hypothesis `hG`) still contains -/
elab "split_cond" h:(" at " ident)? : tactic => withMainContext do
  let g ← match h with
    | some stx => do
        let id : TSyntax `ident := ⟨stx.raw[1]⟩
        let fv ← getFVarId id
        instantiateMVars (← fv.getType)
    | none => getMainTarget
  let cond? := g.find? (fun e =>
    (e.isAppOfArity ``Decidable.decide 2 && !(e.getArg! 0).hasLooseBVars) ||
    (e.isAppOfArity ``ite 5 && !(e.getArg! 1).hasLooseBVars))
  match cond? with
  | none => throwError "split_cond: no undecided condition"
  | some e =>
    let p := if e.isAppOfArity ``Decidable.decide 2 then e.getArg! 0 else e.getArg! 1
    let (s1, s2) ← (← getMainGoal).byCases p `hsc
    replaceMainGoal [s1.mvarId, s2.mvarId]

/-- symbolic execution; when it stops at a condition spelled differently from the case hypotheses, decide it and go on -/
macro "tr_simp" "[" ts:Lean.Parser.Tactic.simpLemma,* "]" : tactic => `(tactic| (
  tr_simp1 [$ts,*]
  all_goals try (tr_fix; tr_simp1 [$ts,*])
  all_goals try (tr_fix; tr_simp1 [$ts,*])
  -- a condition that the case hypotheses do not determine (a rewrite of the source may test something else): split on it
  all_goals try (split_cond <;> (first | (exfalso; omega) | (exfalso; simp_all; done) | (tr_simp1 [$ts,*]; all_goals try (tr_fix; tr_simp1 [$ts,*]))))
  all_goals try (split_cond <;> (first | (exfalso; omega) | (exfalso; simp_all; done) | (tr_simp1 [$ts,*]; all_goals try (tr_fix; tr_simp1 [$ts,*]))))
  all_goals try (split_cond <;> (first | (exfalso; omega) | (exfalso; simp_all; done) | (tr_simp1 [$ts,*]; all_goals try (tr_fix; tr_simp1 [$ts,*]))))
  all_goals try (first | (simp; done) | (refine ⟨_, _, ⟨rfl, rfl⟩, ?_⟩; first | (simp; done) | (simp; all_goals (congr <;> omega)) | (and_intros <;> first | rfl | (congr <;> omega)) | (simp; all_goals (apply List.ext_getElem?; intro i; grind))))))

set_option hygiene false in
/-- the generated run was named (`generalize hG : Gen.f … = g`): compute it ONCE in `hG` (deciding / splitting conditions as `tr_simp`
    does), substitute, then compute the model side -/
macro "tr_once" "[" ts:Lean.Parser.Tactic.simpLemma,* "]" : tactic => `(tactic| (
  tr_simp1 [$ts,*] at hG
  all_goals try (tr_fix at hG; tr_simp1 [$ts,*] at hG)
  all_goals try (tr_fix at hG; tr_simp1 [$ts,*] at hG)
  all_goals try (split_cond at hG <;> (first | (exfalso; omega) | (exfalso; simp_all; done) | (tr_simp1 [$ts,*] at hG; all_goals try (tr_fix at hG; tr_simp1 [$ts,*] at hG))))
  all_goals try (split_cond at hG <;> (first | (exfalso; omega) | (exfalso; simp_all; done) | (tr_simp1 [$ts,*] at hG; all_goals try (tr_fix at hG; tr_simp1 [$ts,*] at hG))))
  all_goals try (split_cond at hG <;> (first | (exfalso; omega) | (exfalso; simp_all; done) | (tr_simp1 [$ts,*] at hG; all_goals try (tr_fix at hG; tr_simp1 [$ts,*] at hG))))
  all_goals (subst hG; tr_simp [$ts,*])))

set_option hygiene false in
/-- the facts about an owning object `own id m` with ledger `L` that the computation needs -/
macro "own_setup" hb:ident hl:ident hbd:ident : tactic => `(tactic| (
  simp only [BInv] at $hb:ident
  obtain ⟨hm, hse, hec, _⟩ := $hb:ident
  have hlive := $hl:ident _ rfl
  have hlt := $hbd:ident _ hlive
  have hne := Nat.ne_of_lt hlt
  have hne' := Nat.ne_of_gt hlt
  have hq1 := beq_false_of_ne hne
  have hq2 := beq_false_of_ne hne'
  have hq3 : (_ != _) = true := bne_iff_ne.2 hne
  have hq4 : (_ != _) = true := bne_iff_ne.2 hne'))

end Nstd.Buffer
