import Nstd.Buffer.LemmasBuf
import Nstd.Buffer.Spec
/-
  State-level lemmas: the refinement relation `Match` pointwise, the invariant `Inv` of a
  program state, the simulation relation `Rel` to the byte-queue specification, and the
  per-operation step lemma `step_ok` lifted to operation lists (`run_ok`, `run_post`).
-/
namespace Nstd.Buffer
theorem match_iff {sp c : List Byte} :
    Match sp c ↔ sp.length = c.length ∧ ∀ i : Nat, sp[i]? = some none ∨ sp[i]? = c[i]? := by
  constructor
  · intro h
    induction h with
    | nil => simp
    | cons hab _ ih =>
      refine ⟨by simp [ih.1], fun i => ?_⟩
      cases i with
      | zero => rcases hab with h | h <;> simp [h]
      | succ i => simpa using ih.2 i
  · intro ⟨hl, hp⟩
    induction sp generalizing c with
    | nil =>
      cases c with
      | nil => exact Match.nil
      | cons _ _ => simp at hl
    | cons a sp ih =>
      cases c with
      | nil => simp at hl
      | cons b c =>
        refine Match.cons ?_ (ih (by simpa using hl) (fun i => by simpa using hp (i + 1)))
        have := hp 0
        simp at this
        exact this

theorem Match.rfl (c : List Byte) : Match c c := match_iff.2 ⟨by simp, fun _ => Or.inr (by simp)⟩

theorem Match.length {sp c : List Byte} (h : Match sp c) : sp.length = c.length := (match_iff.1 h).1

theorem Match.append {sp c sp' c' : List Byte} (h : Match sp c) (h' : Match sp' c') : Match (sp ++ sp') (c ++ c') := by
  rw [match_iff] at *
  grind

theorem Match.take {sp c : List Byte} (h : Match sp c) (n : Nat) : Match (sp.take n) (c.take n) := by
  rw [match_iff] at *
  grind

theorem Match.drop {sp c : List Byte} (h : Match sp c) (n : Nat) : Match (sp.drop n) (c.drop n) := by
  rw [match_iff] at *
  grind

theorem Match.resize {sp c c' : List Byte} (h : Match sp c) (n : Nat) (hl : c'.length = n)
    (ht : ∀ i : Nat, i < n → i < c.length → c'[i]? = c[i]?) : Match (Spec.resize sp n) c' := by
  rw [match_iff] at *
  unfold Spec.resize
  grind


/-! ### program states -/

/-- every Buffer variable satisfies its representation invariant -/
def BufsInv (st : State) : Prop := ∀ v b, st.bufs[v]? = some b → BInv v b

/-- the allocation ledger agrees with the variables: the block of every owning variable is live
    (no dangling `buffer`), every live block is owned by a variable (no leak), no block is owned
    by two variables, all live ids were handed out before -/
structure LInv (st : State) : Prop where
  live_of_owned : ∀ (v : Nat) (b : Buf) (id : Nat), st.bufs[v]? = some b → b.ownId = some id → id ∈ st.led.live
  owned_of_live : ∀ id : Nat, id ∈ st.led.live → ∃ (v : Nat) (b : Buf), st.bufs[v]? = some b ∧ b.ownId = some id
  excl : ∀ (v w : Nat) (b b' : Buf) (id : Nat), st.bufs[v]? = some b → st.bufs[w]? = some b' → b.ownId = some id → b'.ownId = some id → v = w
  bounded : ∀ i : Nat, i ∈ st.led.live → i < st.led.next

def Inv (st : State) : Prop := BufsInv st ∧ LInv st

/-- simulation: the specification has one queue per variable and it matches the exposed bytes -/
def Rel (qs : List Spec.Queue) (st : State) : Prop :=
  qs.length = st.bufs.length ∧ ∀ v b, st.bufs[v]? = some b → Match (Spec.get qs v) b.data

/-- what every operation preserves, relative to the state `st` before it -/
def Post (st : State) (qs' : List Spec.Queue) (st' : State) : Prop :=
  Inv st' ∧ Rel qs' st' ∧ st'.regs = st.regs ∧ st'.bufs.length = st.bufs.length

theorem get_set (qs : List Spec.Queue) (v u : Nat) (q : Spec.Queue) (hv : v < qs.length) :
    Spec.get (qs.set v q) u = if v = u then q else Spec.get qs u := by
  unfold Spec.get
  rw [List.getD_eq_getElem?_getD, List.getD_eq_getElem?_getD, List.getElem?_set]
  by_cases h : v = u
  · subst h; simp [hv]
  · simp [h]

/-- the state after a method of `v` returned `b'` and the ledger `L'` -/
def State.setBL (st : State) (v : Nat) (b' : Buf) (L' : Ledger) : State :=
  { st with bufs := st.bufs.set v b', led := L' }

theorem getElem?_setBL (st : State) (v u : Nat) (b' : Buf) (L' : Ledger) (hv : v < st.bufs.length) :
    (st.setBL v b' L').bufs[u]? = if v = u then some b' else st.bufs[u]? := by
  simp only [State.setBL, List.getElem?_set]
  by_cases h : v = u
  · subst h; simp [hv]
  · simp [h]

theorem setBL_linv {st : State} {v : Nat} {b' : Buf} {L' : Ledger} (hl : LInv st) (hv : v < st.bufs.length)
    (hs : LStep st.bufs[v].ownId b'.ownId st.led L') : LInv (st.setBL v b' L') := by
  have hbv : st.bufs[v]? = some st.bufs[v] := List.getElem?_eq_getElem hv
  obtain ⟨hmem, hfresh, hnext⟩ := hs
  have hled : (st.setBL v b' L').led = L' := rfl
  constructor
  · intro u b id hu hid
    rw [getElem?_setBL _ _ _ _ _ hv] at hu
    rw [hled, hmem]
    by_cases h : v = u
    · simp only [h, if_true, Option.some.injEq] at hu
      subst hu
      exact Or.inl hid
    · simp only [h, if_false] at hu
      refine Or.inr ⟨hl.live_of_owned u b id hu hid, fun ho => h ?_⟩
      exact hl.excl v u _ b id hbv hu ho hid
  · intro id hid
    rw [hled, hmem] at hid
    rcases hid with h | ⟨h1, h2⟩
    · exact ⟨v, b', by rw [getElem?_setBL _ _ _ _ _ hv]; simp, h⟩
    · obtain ⟨u, b, hu, hb⟩ := hl.owned_of_live id h1
      have huv : v ≠ u := by
        intro huv
        subst huv
        rw [hbv] at hu
        cases hu
        exact h2 hb
      exact ⟨u, b, by rw [getElem?_setBL _ _ _ _ _ hv]; simp [huv, hu], hb⟩
  · intro u w b b2 id hu hw hb hb2
    rw [getElem?_setBL _ _ _ _ _ hv] at hu hw
    have key : ∀ x bx, v ≠ x → st.bufs[x]? = some bx → bx.ownId = some id → b'.ownId = some id → False := by
      intro x bx hx hbx hidx hid'
      have hlive := hl.live_of_owned x bx id hbx hidx
      rcases hfresh with h | h | ⟨h, _⟩ | ⟨h, _⟩
      · exact hx (hl.excl v x _ bx id hbv hbx (h ▸ hid') hidx)
      · rw [h] at hid'; cases hid'
      · rw [h] at hid'
        cases hid'
        exact Nat.lt_irrefl _ (hl.bounded _ hlive)
      · rw [h] at hid'
        cases hid'
        have := hl.bounded _ hlive
        omega
    by_cases h1 : v = u <;> by_cases h2 : v = w
    · exact h1.symm.trans h2
    · simp only [h1, if_true, Option.some.injEq] at hu
      simp only [h2, if_false] at hw
      subst hu
      exact (key w b2 h2 hw hb2 hb).elim
    · simp only [h2, if_true, Option.some.injEq] at hw
      simp only [h1, if_false] at hu
      subst hw
      exact (key u b h1 hu hb hb2).elim
    · simp only [h1, if_false] at hu
      simp only [h2, if_false] at hw
      exact hl.excl u w b b2 id hu hw hb hb2
  · intro i hi
    rw [hled] at hi ⊢
    rw [hmem] at hi
    rcases hi with h | ⟨h1, _⟩
    · rcases hfresh with h' | h' | ⟨h', hlt⟩ | ⟨h', hlt⟩
      · have := hl.bounded i (hl.live_of_owned v _ i hbv (h' ▸ h))
        omega
      · rw [h'] at h; cases h
      · rw [h'] at h; cases h; exact hlt
      · rw [h'] at h; cases h; exact hlt
    · have := hl.bounded i h1
      omega

theorem setBL_post {st : State} {qs : List Spec.Queue} {v : Nat} {b' : Buf} {L' : Ledger} {sp' : Spec.Queue}
    (hi : Inv st) (hr : Rel qs st) (hv : v < st.bufs.length) (hb : BInv v b') (hm : Match sp' b'.data)
    (hs : LStep st.bufs[v].ownId b'.ownId st.led L') :
    Post st (qs.set v sp') (st.setBL v b' L') := by
  refine ⟨⟨?_, setBL_linv hi.2 hv hs⟩, ⟨?_, ?_⟩, rfl, ?_⟩
  · intro u b hu
    rw [getElem?_setBL _ _ _ _ _ hv] at hu
    by_cases h : v = u
    · subst h; simp at hu; subst hu; exact hb
    · simp [h] at hu; exact hi.1 u b hu
  · simp [State.setBL, hr.1]
  · intro u b hu
    rw [getElem?_setBL _ _ _ _ _ hv] at hu
    rw [get_set _ _ _ _ (hr.1 ▸ hv)]
    by_cases h : v = u
    · subst h; simp at hu; subst hu; simpa using hm
    · simp [h] at hu; simpa [h] using hr.2 u b hu
  · simp [State.setBL]

theorem Post.trans {st st' st'' : State} {qs' qs'' : List Spec.Queue}
    (h : Post st qs' st') (h' : Post st' qs'' st'') : Post st qs'' st'' :=
  ⟨h'.1, h'.2.1, h'.2.2.1.trans h.2.2.1, h'.2.2.2.trans h.2.2.2⟩

theorem liveIn_of_inv {st : State} (hi : Inv st) {v : Nat} {b : Buf} (hb : st.bufs[v]? = some b) :
    LiveIn b st.led := fun id hid => hi.2.live_of_owned v b id hb hid

theorem upd_ok {st : State} {qs : List Spec.Queue} {v : Nat} {f : Buf → M Buf}
    (g : Spec.Queue → Spec.Queue) (hi : Inv st) (hr : Rel qs st) (hv : v < st.bufs.length)
    (hf : ∀ b, BInv v b → LiveIn b st.led → Bounded st.led → ∀ sp, Match sp b.data →
      OkM (f b) st.led (fun b' L' => LStep b.ownId b'.ownId st.led L' ∧ BInv v b' ∧ Match (g sp) b'.data)) :
    Ok (st.upd v f) (Post st (qs.set v (g (Spec.get qs v)))) := by
  have hb : st.bufs[v]? = some st.bufs[v] := List.getElem?_eq_getElem hv
  obtain ⟨b', L', hb', hstep, hinv, hm⟩ :=
    hf _ (hi.1 v _ hb) (liveIn_of_inv hi hb) hi.2.bounded _ (hr.2 v _ hb)
  refine ⟨st.setBL v b' L', ?_, setBL_post hi hr hv hinv hm hstep⟩
  simp [State.upd, State.getBuf, hb, hb', State.setBL]

theorem contents_state {st : State} (hi : Inv st) {w : Nat} (hw : w < st.bufs.length) :
    contents st w = some st.bufs[w].data := by
  have hb : st.bufs[w]? = some st.bufs[w] := List.getElem?_eq_getElem hw
  simp [contents, State.getBuf, hb, contents_ok (hi.1 w _ hb) (liveIn_of_inv hi hb)]

theorem updFrom_ok {st : State} {qs : List Spec.Queue} {v w : Nat} {f : Buf → List Byte → M Buf}
    (g : Spec.Queue → Spec.Queue → Spec.Queue) (hi : Inv st) (hr : Rel qs st)
    (hv : v < st.bufs.length) (hw : w < st.bufs.length)
    (hf : ∀ b, BInv v b → LiveIn b st.led → Bounded st.led → ∀ sp spd d, Match sp b.data → Match spd d →
      OkM (f b d) st.led (fun b' L' => LStep b.ownId b'.ownId st.led L' ∧ BInv v b' ∧ Match (g sp spd) b'.data)) :
    Ok (st.updFrom v w f) (Post st (qs.set v (g (Spec.get qs v) (Spec.get qs w)))) := by
  have hb : st.bufs[w]? = some st.bufs[w] := List.getElem?_eq_getElem hw
  have hc := contents_state hi hw
  have := upd_ok (f := fun b => f b st.bufs[w].data) (fun sp => g sp (Spec.get qs w)) hi hr hv
    (fun b hbi hli hbd sp hm => hf b hbi hli hbd sp _ _ hm (hr.2 w _ hb))
  simpa [State.updFrom, hc] using this

theorem upd_some {st st' : State} {v : Nat} {f : Buf → M Buf} (h : st.upd v f = some st') :
    v < st.bufs.length := by
  unfold State.upd State.getBuf at h
  by_cases hv : v < st.bufs.length
  · exact hv
  · simp [List.getElem?_eq_none (Nat.le_of_not_lt hv)] at h

theorem updFrom_some {st st' : State} {v w : Nat} {f : Buf → List Byte → M Buf}
    (h : st.updFrom v w f = some st') : v < st.bufs.length ∧ w < st.bufs.length := by
  unfold State.updFrom at h
  cases hc : contents st w with
  | none => simp [hc] at h
  | some d =>
    simp [hc] at h
    refine ⟨upd_some h, ?_⟩
    unfold contents State.getBuf at hc
    by_cases hw : w < st.bufs.length
    · exact hw
    · simp [List.getElem?_eq_none (Nat.le_of_not_lt hw)] at hc

end Nstd.Buffer
