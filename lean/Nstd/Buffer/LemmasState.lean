import Nstd.Buffer.LemmasBuf
import Nstd.Buffer.Spec
/-
  State-level lemmas: the refinement relation `Match` pointwise, the invariant `Inv` of a
  program state, the simulation relation `Rel` to the byte-queue specification, and the
  per-operation step lemma `step_ok` lifted to operation lists (`run_ok`, `run_post`).
-/
namespace Nstd.Buffer
theorem match_iff {sp c : List Byte} :
    Match sp c ↔ sp.length = c.length ∧ ∀ i : Nat, sp[i]? = some none ∨ sp[i]? = c[i]? := by
  constructor
  · intro h
    induction h with
    | nil => simp
    | cons hab _ ih =>
      refine ⟨by simp [ih.1], fun i => ?_⟩
      cases i with
      | zero => rcases hab with h | h <;> simp [h]
      | succ i => simpa using ih.2 i
  · intro ⟨hl, hp⟩
    induction sp generalizing c with
    | nil =>
      cases c with
      | nil => exact Match.nil
      | cons _ _ => simp at hl
    | cons a sp ih =>
      cases c with
      | nil => simp at hl
      | cons b c =>
        refine Match.cons ?_ (ih (by simpa using hl) (fun i => by simpa using hp (i + 1)))
        have := hp 0
        simp at this
        exact this

theorem Match.rfl (c : List Byte) : Match c c := match_iff.2 ⟨by simp, fun _ => Or.inr (by simp)⟩

theorem Match.length {sp c : List Byte} (h : Match sp c) : sp.length = c.length := (match_iff.1 h).1

theorem Match.append {sp c sp' c' : List Byte} (h : Match sp c) (h' : Match sp' c') : Match (sp ++ sp') (c ++ c') := by
  rw [match_iff] at *
  grind

theorem Match.take {sp c : List Byte} (h : Match sp c) (n : Nat) : Match (sp.take n) (c.take n) := by
  rw [match_iff] at *
  grind

theorem Match.drop {sp c : List Byte} (h : Match sp c) (n : Nat) : Match (sp.drop n) (c.drop n) := by
  rw [match_iff] at *
  grind

theorem Match.resize {sp c c' : List Byte} (h : Match sp c) (n : Nat) (hl : c'.length = n)
    (ht : ∀ i : Nat, i < n → i < c.length → c'[i]? = c[i]?) : Match (Spec.resize sp n) c' := by
  rw [match_iff] at *
  unfold Spec.resize
  grind


/-! ### program states -/

/-- every Buffer variable satisfies its representation invariant -/
def Inv (st : State) : Prop := ∀ v b, st.bufs[v]? = some b → BInv v b

/-- simulation: the specification has one queue per variable and it matches the exposed bytes -/
def Rel (qs : List Spec.Queue) (st : State) : Prop :=
  qs.length = st.bufs.length ∧ ∀ v b, st.bufs[v]? = some b → Match (Spec.get qs v) b.data

/-- what every operation preserves, relative to the state `st` before it -/
def Post (st : State) (qs' : List Spec.Queue) (st' : State) : Prop :=
  Inv st' ∧ Rel qs' st' ∧ st'.regs = st.regs ∧ st'.bufs.length = st.bufs.length

theorem get_set (qs : List Spec.Queue) (v u : Nat) (q : Spec.Queue) (hv : v < qs.length) :
    Spec.get (qs.set v q) u = if v = u then q else Spec.get qs u := by
  unfold Spec.get
  rw [List.getD_eq_getElem?_getD, List.getD_eq_getElem?_getD, List.getElem?_set]
  by_cases h : v = u
  · subst h; simp [hv]
  · simp [h]

theorem setBuf_post {st : State} {qs : List Spec.Queue} {v : Nat} {b' : Buf} {sp' : Spec.Queue}
    (hi : Inv st) (hr : Rel qs st) (hv : v < st.bufs.length) (hb : BInv v b') (hm : Match sp' b'.data) :
    Post st (qs.set v sp') (st.setBuf v b') := by
  refine ⟨?_, ⟨?_, ?_⟩, rfl, ?_⟩
  · intro u b hu
    simp only [State.setBuf, List.getElem?_set] at hu
    by_cases h : v = u
    · subst h; simp [hv] at hu; subst hu; exact hb
    · simp [h] at hu; exact hi u b hu
  · simp [State.setBuf, hr.1]
  · intro u b hu
    simp only [State.setBuf, List.getElem?_set] at hu
    rw [get_set _ _ _ _ (hr.1 ▸ hv)]
    by_cases h : v = u
    · subst h; simp [hv] at hu; subst hu; simpa using hm
    · simp [h] at hu; simpa [h] using hr.2 u b hu
  · simp [State.setBuf]

theorem Post.trans {st st' st'' : State} {qs' qs'' : List Spec.Queue}
    (h : Post st qs' st') (h' : Post st' qs'' st'') : Post st qs'' st'' :=
  ⟨h'.1, h'.2.1, h'.2.2.1.trans h.2.2.1, h'.2.2.2.trans h.2.2.2⟩

theorem upd_ok {st : State} {qs : List Spec.Queue} {v : Nat} {f : Buf → Option Buf}
    (g : Spec.Queue → Spec.Queue) (hi : Inv st) (hr : Rel qs st) (hv : v < st.bufs.length)
    (hf : ∀ b, BInv v b → ∀ sp, Match sp b.data → Ok (f b) (fun b' => BInv v b' ∧ Match (g sp) b'.data)) :
    Ok (st.upd v f) (Post st (qs.set v (g (Spec.get qs v)))) := by
  have hb : st.bufs[v]? = some st.bufs[v] := List.getElem?_eq_getElem hv
  obtain ⟨b', hb', hinv, hm⟩ := hf _ (hi v _ hb) _ (hr.2 v _ hb)
  refine ⟨st.setBuf v b', ?_, setBuf_post hi hr hv hinv hm⟩
  simp [State.upd, State.getBuf, hb, hb']

theorem updFrom_ok {st : State} {qs : List Spec.Queue} {v w : Nat} {f : Buf → List Byte → Option Buf}
    (g : Spec.Queue → Spec.Queue → Spec.Queue) (hi : Inv st) (hr : Rel qs st)
    (hv : v < st.bufs.length) (hw : w < st.bufs.length)
    (hf : ∀ b, BInv v b → ∀ sp spd d, Match sp b.data → Match spd d →
      Ok (f b d) (fun b' => BInv v b' ∧ Match (g sp spd) b'.data)) :
    Ok (st.updFrom v w f) (Post st (qs.set v (g (Spec.get qs v) (Spec.get qs w)))) := by
  have hb : st.bufs[w]? = some st.bufs[w] := List.getElem?_eq_getElem hw
  have hc : contents st w = some st.bufs[w].data := by
    simp [contents, State.getBuf, hb, contents_ok (hi w _ hb)]
  have := upd_ok (f := fun b => f b st.bufs[w].data) (fun sp => g sp (Spec.get qs w)) hi hr hv
    (fun b hbi sp hm => hf b hbi sp _ _ hm (hr.2 w _ hb))
  simpa [State.updFrom, hc] using this

theorem upd_some {st st' : State} {v : Nat} {f : Buf → Option Buf} (h : st.upd v f = some st') :
    v < st.bufs.length := by
  unfold State.upd State.getBuf at h
  by_cases hv : v < st.bufs.length
  · exact hv
  · simp [List.getElem?_eq_none (Nat.le_of_not_lt hv)] at h

theorem updFrom_some {st st' : State} {v w : Nat} {f : Buf → List Byte → Option Buf}
    (h : st.updFrom v w f = some st') : v < st.bufs.length ∧ w < st.bufs.length := by
  unfold State.updFrom at h
  cases hc : contents st w with
  | none => simp [hc] at h
  | some d =>
    simp [hc] at h
    refine ⟨upd_some h, ?_⟩
    unfold contents State.getBuf at hc
    by_cases hw : w < st.bufs.length
    · exact hw
    · simp [List.getElem?_eq_none (Nat.le_of_not_lt hw)] at hc

end Nstd.Buffer
