import Nstd.Buffer.Model
import Nstd.Buffer.TrAttr
/-
  Target language of the translator `tools/gen_buffer.py`: the C++ bodies of Buffer.hpp are regenerated, statement by
  statement, into Lean functions over THIS machine (`lean/Nstd/Generated/BufferBody.lean`).  `PropsTr.lean` proves that
  the generated functions are the hand-written step functions of Model.lean on every state that represents a model state.

  Objects are the four fields of `class Buffer` as they stand in the header: three `byte*` and `_capacity`.
  A pointer is (base, offset).  Bases: `null`; `blk id` = the block `new char[]` handed out with ledger id `id`; `att` = the
  attached range (caller memory); `cell c` = the `_capacity` field of Buffer variable `c` (where the pointers of a default
  Buffer point); `arg lo` = the memory of a `(pointer, size)` / `const Buffer&` argument that lies outside the object's own
  block, `lo` = it lies at lower addresses than the heap blocks.

  Assumption of the pointer comparisons (`<=`, `>`, …) between DIFFERENT blocks (used by Buffer.hpp only to find out
  whether `data` points into the object's own block): distinct blocks do not touch – a pointer into or one past a block
  never equals a pointer into or one past another block – so the result is the order of the blocks in the address space
  (`arg lo`); comparing pointers of any other two different bases is a fault of the machine (never reached on represented
  states).  Equality `==` of pointers is equality of base and offset.

  Memory accesses are checked exactly as in Model.lean (same `rdList`/`wrList`/ledger primitives, same order): a load or
  store outside the block, through a deleted block, a store of ≥ 1 byte into attached/argument memory or the capacity
  cell, `Memory::copy` (= `memcpy`) of overlapping ranges, `delete[]` of a block that is not live: fault (`none`).
-/
namespace Nstd.Buffer.C

inductive Base where
  | null
  | blk (id : Nat)
  | att
  | cell (c : Nat)
  | arg (lo : Bool)
  deriving DecidableEq, Repr, Inhabited

def Base.isNull : Base → Bool
  | .null => true
  | _ => false

structure Ptr where
  base : Base
  off : Nat
  deriving DecidableEq, Repr, Inhabited

/-- `class Buffer { byte* buffer; byte* bufferStart; byte* bufferEnd; usize _capacity; }` -/
structure Obj where
  buffer : Ptr
  bufferStart : Ptr
  bufferEnd : Ptr
  capacity : Nat
  deriving DecidableEq, Repr, Inhabited

structure Heap where
  /-- the `new char[]` blocks reachable from the object(s) the method works on -/
  blocks : List (Nat × List Byte)
  /-- the attached range -/
  att : List Byte
  /-- the memory of the argument -/
  arg : List Byte
  led : Ledger
  deriving Repr, Inhabited

def CM (α : Type) : Type := Heap → Option (α × Heap)

instance : Monad CM where
  pure a := fun h => some (a, h)
  bind x f := fun h =>
    match x h with
    | some (a, h') => f a h'
    | none => none

def cfault {α : Type} : CM α := fun _ => none

/-- evaluate an expression (a fault of the evaluation is a fault of the method) -/
def val {α : Type} (o : Option α) : CM α := fun h => o.map (fun a => (a, h))

/-- run a ledger operation of Model.lean -/
def led {α : Type} (x : M α) : CM α := fun h =>
  match x h.led with
  | some (a, L) => some (a, { h with led := L })
  | none => none

/-! ### expressions (`none` = the C++ expression has no defined value) -/

def padd (p : Option Ptr) (n : Option Nat) : Option Ptr :=
  match p, n with
  | some p, some n => some ⟨p.base, p.off + n⟩
  | _, _ => none

def psub (p : Option Ptr) (n : Option Nat) : Option Ptr :=
  match p, n with
  | some p, some n => if n ≤ p.off then some ⟨p.base, p.off - n⟩ else none
  | _, _ => none

/-- `p - q` of two pointers into the same block, `q ≤ p` (every such difference in Buffer.hpp is cast to / used as `usize`) -/
def pdiff (p q : Option Ptr) : Option Nat :=
  match p, q with
  | some p, some q => if p.base = q.base ∧ p.base ≠ .null ∧ q.off ≤ p.off then some (p.off - q.off) else none
  | _, _ => none

/-- the two numbers whose order is the order of the pointers -/
def prel (p q : Ptr) : Option (Nat × Nat) :=
  if p.base = q.base then some (p.off, q.off) else
  match p.base, q.base with
  | .arg lo, .blk _ => some (if lo then (0, 1) else (1, 0))
  | .blk _, .arg lo => some (if lo then (1, 0) else (0, 1))
  | _, _ => none

def ple (p q : Option Ptr) : Option Bool :=
  match p, q with
  | some p, some q => (prel p q).map (fun r => Nat.ble r.1 r.2)
  | _, _ => none
def plt (p q : Option Ptr) : Option Bool :=
  match p, q with
  | some p, some q => (prel p q).map (fun r => Nat.blt r.1 r.2)
  | _, _ => none
def pge (p q : Option Ptr) : Option Bool := ple q p
def pgt (p q : Option Ptr) : Option Bool := plt q p
def peq (p q : Option Ptr) : Option Bool :=
  match p, q with
  | some p, some q => some (decide (p = q))
  | _, _ => none

def nadd (a b : Option Nat) : Option Nat :=
  match a, b with
  | some a, some b => some (a + b)
  | _, _ => none
/-- `a - b` on `usize`: defined here only when it does not wrap -/
def nsub (a b : Option Nat) : Option Nat :=
  match a, b with
  | some a, some b => if b ≤ a then some (a - b) else none
  | _, _ => none
def nmul (a b : Option Nat) : Option Nat :=
  match a, b with
  | some a, some b => some (a * b)
  | _, _ => none
/-- `a / b` (division by 0 has no defined value) -/
def ndiv (a b : Option Nat) : Option Nat :=
  match a, b with
  | some a, some b => if b = 0 then none else some (a / b)
  | _, _ => none
/-- `a >> b` -/
def nshr (a b : Option Nat) : Option Nat :=
  match a, b with
  | some a, some b => some (a / 2 ^ b)
  | _, _ => none
/-- `a << b` (no wrap-around) -/
def nshl (a b : Option Nat) : Option Nat :=
  match a, b with
  | some a, some b => some (a * 2 ^ b)
  | _, _ => none
def nle (a b : Option Nat) : Option Bool :=
  match a, b with
  | some a, some b => some (Nat.ble a b)
  | _, _ => none
def nlt (a b : Option Nat) : Option Bool :=
  match a, b with
  | some a, some b => some (Nat.blt a b)
  | _, _ => none
def nge (a b : Option Nat) : Option Bool := nle b a
def ngt (a b : Option Nat) : Option Bool := nlt b a
def neq (a b : Option Nat) : Option Bool :=
  match a, b with
  | some a, some b => some (decide (a = b))
  | _, _ => none

/-- `p` used as a condition: `p != 0` -/
def truthy (p : Option Ptr) : Option Bool := p.map (fun p => !p.base.isNull)
def bnot (a : Option Bool) : Option Bool := a.map (fun a => !a)
/-- `a && b`: `b` is evaluated only when `a` is true -/
def band (a b : Option Bool) : Option Bool :=
  match a with
  | some true => b
  | some false => some false
  | none => none
/-- `a || b`: `b` is evaluated only when `a` is false -/
def bor (a b : Option Bool) : Option Bool :=
  match a with
  | some true => some true
  | some false => b
  | none => none
/-- `c ? a : b` -/
def tern {α : Type} (c : Option Bool) (a b : Option α) : Option α :=
  match c with
  | some true => a
  | some false => b
  | none => none

def nullPtr : Ptr := ⟨.null, 0⟩
/-- `(byte*)&x._capacity` of Buffer variable `c` -/
def cellPtr (c : Nat) : Ptr := ⟨.cell c, 0⟩

/-! ### statements -/

/-- `if(c) t else e` -/
def branch {α : Type} (c : Option Bool) (t e : CM α) : CM α :=
  match c with
  | some true => t
  | some false => e
  | none => cfault

def getBlk (id : Nat) : CM (List Byte) := fun h => (h.blocks.lookup id).map (fun m => (m, h))

def setBlk (id : Nat) (m : List Byte) : CM Unit := fun h =>
  some ((), { h with blocks := h.blocks.map (fun p => if p.1 == id then (id, m) else p) })

/-- load `n` bytes at `p` -/
def load (p : Ptr) (n : Nat) : CM (List Byte) :=
  match p.base with
  | .blk id => do led (checkLive id); let m ← getBlk id; val (rdList m p.off n)
  | .att => fun h => (rdList h.att p.off n).map (fun d => (d, h))
  | .arg _ => fun h => (rdList h.arg p.off n).map (fun d => (d, h))
  | .cell _ => if n = 0 then pure [] else cfault
  | .null => cfault

/-- store the bytes `d` at `p` -/
def store (p : Ptr) (d : List Byte) : CM Unit :=
  match p.base with
  | .blk id => do led (checkLive id); let m ← getBlk id; let m' ← val (wrList m p.off d); setBlk id m'
  | .att => fun h => if d.length = 0 ∧ p.off ≤ h.att.length then some ((), h) else none
  | .arg _ => if d.length = 0 then pure () else cfault
  | .cell _ => if d.length = 0 then pure () else cfault
  | .null => cfault

/-- `*p = 0;` -/
def store0 (p : Option Ptr) : CM Unit := do let p ← val p; store p [some 0]

/-- the ranges `[dst, dst+n)` and `[src, src+n)` do not overlap (different blocks never do) -/
def disjoint (dst src : Ptr) (n : Nat) : Bool :=
  dst.base != src.base || noOverlap dst.off src.off n

/-- `Memory::copy(dst, src, n)` = `memcpy` -/
def memcopy (dst src : Option Ptr) (n : Option Nat) : CM Unit := do
  let dst ← val dst; let src ← val src; let n ← val n
  let d ← load src n
  if disjoint dst src n then store dst d else cfault

/-- `Memory::move(dst, src, n)` = `memmove` -/
def memmove (dst src : Option Ptr) (n : Option Nat) : CM Unit := do
  let dst ← val dst; let src ← val src; let n ← val n
  let d ← load src n
  store dst d

/-- `(byte*)new char[n]` -/
def newArr (n : Option Nat) : CM Ptr := do
  let n ← val n
  let id ← led allocId
  fun h => some (⟨.blk id, 0⟩, { h with blocks := (id, fresh n) :: h.blocks })

/-- `delete[] (char*)p` (a null pointer is fine; anything but the start of a live block is a fault) -/
def deleteArr (p : Option Ptr) : CM Unit := do
  let p ← val p
  match p.base with
  | .null => pure ()
  | .blk id =>
    if p.off = 0 then do
      led (deleteId id)
      fun h => some ((), { h with blocks := h.blocks.filter (fun q => q.1 != id) })
    else cfault
  | _ => cfault

/-! ### representation of a model state -/

def objOf (b : Buf) : Obj :=
  match b.store with
  | .own id _ => ⟨⟨.blk id, 0⟩, ⟨.blk id, b.s⟩, ⟨.blk id, b.e⟩, b.cap⟩
  | .att _ => ⟨nullPtr, ⟨.att, b.s⟩, ⟨.att, b.e⟩, b.cap⟩
  | .dflt c => ⟨nullPtr, ⟨.cell c, b.s⟩, ⟨.cell c, b.e⟩, b.cap⟩

def blocksOf (b : Buf) : List (Nat × List Byte) :=
  match b.store with
  | .own id m => [(id, m)]
  | _ => []

def attOf (b : Buf) : List Byte :=
  match b.store with
  | .att m => m
  | _ => []

def heapOf (b : Buf) (L : Ledger) (arg : List Byte) : Heap := { blocks := blocksOf b, att := attOf b, arg := arg, led := L }

/-- what the method leaves behind: the object, its blocks, the ledger -/
def out (r : Obj × Heap) : Obj × List (Nat × List Byte) × Ledger := (r.1, r.2.blocks, r.2.led)

def outB (r : Buf × Ledger) : Obj × List (Nat × List Byte) × Ledger := (objOf r.1, blocksOf r.1, r.2)

end Nstd.Buffer.C
