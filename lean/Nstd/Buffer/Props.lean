import Nstd.Buffer.Model
namespace Nstd.Buffer
theorem placeholder : (init 2 []).bufs.length = 2 := by decide
end Nstd.Buffer
