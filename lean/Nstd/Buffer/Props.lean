import Nstd.Buffer.LemmasCap
/-
  Property C08: "After any sequence of append, prepend, assign, resize, reserve, removeFront,
  removeBack, clear, free, swap, copy and attach, a Buffer exposes exactly the bytes a reference
  byte queue holds (bytes newly exposed by a growing resize are unspecified), and whenever it
  owns its storage one readable zero byte follows the last data byte.  It never reads or writes
  outside its own allocation or the attached range."

  The theorems are about the model `Nstd.Buffer.run` (Model.lean) started in `init nvars regs`
  (`nvars` default-constructed Buffer variables, `regs` = attachable caller memory) and hold
  for EVERY history = list of (operation, capacity wish) pairs: the capacity a method gives a block
  it allocates is `max needed wish` (Model.lean `newCap`), i.e. the theorems hold for every capacity
  POLICY that allocates at least what the method needs (wish 0 everywhere = today's Buffer.hpp),
  for EVERY operation list, every number of variables and every region content; no bound on
  sizes, offsets or the length of the history.  A fault (`none`) of the model is an access
  outside the object's own allocation / the attached range, a store into attached memory, an
  access to a block that has been `delete[]`d, or a `delete[]` of a block that is not live
  (double free) – see `ledger_faults` and Model.lean.
-/
namespace Nstd.Buffer

/-- **No out-of-range access.**  Every history of well-formed operations (variable indices
    exist, every attached range lies inside its region) runs without a fault, whatever the
    sizes, head-room, capacities and ownership states it goes through – including histories
    that mix `attach` with owning operations, that hand the same region to several buffers,
    that pass a buffer to itself and that prepend / append / assign a sub-range of the buffer's own
    bytes through a raw `(pointer, size)` argument. -/
theorem no_fault (nvars : Nat) (regs : List (List Byte)) (ops : List (Op × Nat))
    (hwf : ∀ p ∈ ops, WFOp nvars regs p.1) :
    ∃ st, run (init nvars regs) ops = some st := by
  have hw : ∀ p ∈ ops, WFOp (init nvars regs).bufs.length (init nvars regs).regs p.1 := by
    simpa [init] using hwf
  obtain ⟨st, h, _⟩ := run_ok ops (qs := Spec.init nvars) (init_inv nvars regs) (init_rel nvars regs) hw
  exact ⟨st, h⟩

/-- **Terminator.**  In every reachable state, whenever a Buffer owns storage, the byte after
    the data is readable (inside the allocation) and is `0`. -/
theorem terminator_zero (nvars : Nat) (regs : List (List Byte)) (ops : List (Op × Nat)) (st : State)
    (hrun : run (init nvars regs) ops = some st) (v : Nat) (b : Buf)
    (hb : st.getBuf v = some b) (hown : b.owning = true) :
    Nstd.Buffer.terminator st v = some (some (some 0)) := by
  have hp := run_post ops (qs := Spec.init nvars) (init_inv nvars regs) (init_rel nvars regs) hrun
  have hbi := hp.1.1 v b hb
  have hlive := hp.1.2.live_of_owned v b
  obtain ⟨store, s, e, cap⟩ := b
  cases store with
  | own id m =>
    simp only [BInv] at hbi
    obtain ⟨hl, _, he, ht⟩ := hbi
    have hid : id ∈ st.led.live := hlive id hb rfl
    have hlt : e < m.length := by omega
    have hget : m[e] = some 0 := by
      rw [List.getElem?_eq_getElem hlt] at ht
      exact Option.some.inj ht
    have hrd : rdList m e 1 = some [some 0] := by
      have h1 : e + 1 ≤ m.length := by omega
      simp only [rdList, h1, if_true, Option.some.injEq]
      rw [List.drop_eq_getElem_cons hlt, hget]
      simp
    have hload : (Store.own id m).load e 1 st.led = some ([some 0], st.led) := by
      have : OkM ((Store.own id m).load e 1) st.led (fun c L' => c = [some 0] ∧ L' = st.led) := by
        simp only [Store.load, okM_bind, okM_checkLive, okM_liftO, hrd, ok_some]
        simp [hid]
      obtain ⟨c, L', hc, rfl, rfl⟩ := this
      exact hc
    simp only [Nstd.Buffer.terminator, hb, Option.bind_eq_bind, Option.bind_some, hload]
    rfl
  | att m => simp [Buf.owning] at hown
  | dflt c => simp [Buf.owning] at hown

/-- **Byte-queue refinement.**  After any history the exposed bytes of every variable can be
    read without a fault and match the reference byte queue of `Spec.lean` run on the same
    history (`Match`: equal length, every specified byte equal; bytes newly exposed by a growing
    `resize` are unspecified in the specification and match anything). -/
theorem refines (nvars : Nat) (regs : List (List Byte)) (ops : List (Op × Nat)) (st : State)
    (hrun : run (init nvars regs) ops = some st) (v : Nat) (hv : v < nvars) :
    ∃ c, contents st v = some c ∧ Match (Spec.get (Spec.run regs (Spec.init nvars) (ops.map Prod.fst)) v) c := by
  have hp := run_post ops (qs := Spec.init nvars) (init_inv nvars regs) (init_rel nvars regs) hrun
  have hlen : st.bufs.length = nvars := by simpa [init] using hp.2.2.2
  have hb : st.bufs[v]? = some st.bufs[v] := List.getElem?_eq_getElem (hlen ▸ hv)
  exact ⟨st.bufs[v].data, contents_state hp.1 (hlen ▸ hv), hp.2.1.2 v _ hb⟩

/-- **Attached memory is never modified.**  The attachable regions are the same after any
    history.  (In the model a store of at least one byte through a pointer into attached memory
    is a fault – `att_store_faults` – so together with `no_fault` no such store is ever attempted.) -/
theorem attached_untouched (nvars : Nat) (regs : List (List Byte)) (ops : List (Op × Nat)) (st : State)
    (hrun : run (init nvars regs) ops = some st) : st.regs = regs :=
  (run_post ops (qs := Spec.init nvars) (init_inv nvars regs) (init_rel nvars regs) hrun).2.2.1

/-- the model treats every store of ≥ 1 byte into attached memory (or the `_capacity` cell) as a fault -/
theorem att_store_faults (m : List Byte) (off : Nat) (d : List Byte) (L : Ledger) (h : d ≠ []) :
    (Store.att m).write off d L = none ∧ ∀ c, (Store.dflt c).write off d L = none := by
  have : d.length ≠ 0 := fun h0 => h (List.eq_nil_of_length_eq_zero h0)
  simp [Store.write, this, fault]

/-! ### allocation ledger: no leak, no dangling `buffer`, no double free, no use of a freed block -/

/-- **No leak.**  In every reachable state every live allocation (`new char[]` not yet `delete[]`d)
    is the `buffer` of some variable. -/
theorem no_leak (nvars : Nat) (regs : List (List Byte)) (ops : List (Op × Nat)) (st : State)
    (hrun : run (init nvars regs) ops = some st) (id : Nat) (hid : id ∈ st.led.live) :
    ∃ v b, st.getBuf v = some b ∧ b.ownId = some id :=
  (run_post ops (qs := Spec.init nvars) (init_inv nvars regs) (init_rel nvars regs) hrun).1.2.owned_of_live id hid

/-- **No dangling pointer, exclusive ownership.**  In every reachable state the block an owning
    variable points to is live, and no two variables point to the same block (so that the
    destructors delete every block exactly once). -/
theorem owned_blocks_live_and_exclusive (nvars : Nat) (regs : List (List Byte)) (ops : List (Op × Nat)) (st : State)
    (hrun : run (init nvars regs) ops = some st) (v : Nat) (b : Buf) (id : Nat)
    (hb : st.getBuf v = some b) (hid : b.ownId = some id) :
    id ∈ st.led.live ∧ ∀ w b', st.getBuf w = some b' → b'.ownId = some id → w = v := by
  have hl := (run_post ops (qs := Spec.init nvars) (init_inv nvars regs) (init_rel nvars regs) hrun).1.2
  exact ⟨hl.live_of_owned v b id hb hid, fun w b' hw hid' => hl.excl w v b' b id hw hb hid' hid⟩

/-- **Double free and use after free are faults of the model** – hence excluded for every
    well-formed history by `no_fault`: `delete[]` of a block that is not live faults, and so does
    every load/store (even of zero bytes) through a pointer into a block that is not live. -/
theorem ledger_faults (id : Nat) (L : Ledger) (h : id ∉ L.live) (m : List Byte) (off n : Nat) (d : List Byte) :
    (Store.own id m).release L = none ∧ (Store.own id m).load off n L = none ∧
      (Store.own id m).write off d L = none := by
  simp [Store.release, Store.load, Store.write, deleteId, checkLive, h, bind]

/-- after `delete[]` the block is not live any more (a second `delete[]` or an access faults) and the
    other live blocks stay live -/
theorem delete_removes (id : Nat) (L L' : Ledger) (m : List Byte) (h : (Store.own id m).release L = some ((), L')) :
    id ∉ L'.live ∧ ∀ j, j ≠ id → (j ∈ L'.live ↔ j ∈ L.live) := by
  simp only [Store.release, deleteId] at h
  by_cases hl : id ∈ L.live
  · simp only [hl, if_true, Option.some.injEq, Prod.mk.injEq, true_and] at h
    subst h
    simp
    intro j hj
    simp [hj]
  · simp [hl] at h

/-- `operator==` / `operator!=` read only the exposed bytes: in every reachable state the comparison
    of two variables does not fault and is the equality of their contents. -/
theorem compare_no_fault (nvars : Nat) (regs : List (List Byte)) (ops : List (Op × Nat)) (st : State)
    (hrun : run (init nvars regs) ops = some st) (v w : Nat) (hv : v < nvars) (hw : w < nvars) :
    ∃ cv cw, contents st v = some cv ∧ contents st w = some cw ∧ equalBufs st v w = some (cv == cw) := by
  obtain ⟨cv, hcv, _⟩ := refines nvars regs ops st hrun v hv
  obtain ⟨cw, hcw, _⟩ := refines nvars regs ops st hrun w hw
  exact ⟨cv, cw, hcv, hcw, by simp [equalBufs, hcv, hcw]⟩

/-- `operator!=` reads only the exposed bytes too and is the negation of `operator==` in every reachable state. -/
theorem compare_ne (nvars : Nat) (regs : List (List Byte)) (ops : List (Op × Nat)) (st : State)
    (hrun : run (init nvars regs) ops = some st) (v w : Nat) (hv : v < nvars) (hw : w < nvars) :
    ∃ e, equalBufs st v w = some e ∧ notEqualBufs st v w = some (!e) := by
  obtain ⟨cv, cw, hcv, hcw, he⟩ := compare_no_fault nvars regs ops st hrun v w hv hw
  refine ⟨_, he, ?_⟩
  simp only [notEqualBufs, hcv, hcw, Option.bind_eq_bind, Option.bind_some, Option.pure_def, Option.some.injEq]
  by_cases h : cv = cw
  · subst h; simp
  · have hb : (cv == cw) = false := by simpa using h
    have hn : (cv != cw) = true := by simpa using h
    simp [hb, hn]

/-! ### capacity, `reserve`, the observers `size()` / `isEmpty()` / `capacity()` -/

/-- **Capacity policy bound.**  After any history the `_capacity` of every variable is at most the largest size any
    operation of the history requested (`Spec.demand`, computed on the reference byte queue: the result size of a growing
    method, the argument of `Buffer(capacity)` / `reserve`) or the environment wished for (`Spec.peak` = the maximum
    over the history of both).  With today's policy (wish 0 everywhere) the capacity never exceeds the largest size
    ever requested – whatever the number of operations: a window that slides (`append` / `removeFront`) re-uses its
    allocation (compact-to-front branch of `resize`) instead of growing it. -/
theorem capacity_policy_bound (nvars : Nat) (regs : List (List Byte)) (ops : List (Op × Nat)) (st : State)
    (hrun : run (init nvars regs) ops = some st) (v : Nat) (b : Buf) (hb : st.getBuf v = some b) :
    b.cap ≤ Spec.peak regs (Spec.init nvars) ops := by
  have h0 : CapLe 0 (init nvars regs) := by
    intro u bu hu
    obtain ⟨_, rfl⟩ := init_bufs nvars regs u bu hu
    simp [Buf.default]
  have := run_cap ops (init_inv nvars regs) (init_rel nvars regs) hrun h0 v b hb
  simpa [init] using this

/-- **`reserve` keeps the content.**  In every reachable state `reserve(n)` on any variable succeeds, leaves a capacity
    of at least `n` that is not smaller than before, and the exposed bytes of every variable (and its size) are the same. -/
theorem reserve_keeps_content (nvars : Nat) (regs : List (List Byte)) (ops : List (Op × Nat)) (st : State)
    (hrun : run (init nvars regs) ops = some st) (v n k : Nat) (hv : v < nvars) :
    ∃ st' b b', step st k (.reserve v n) = some st' ∧ st.getBuf v = some b ∧ st'.getBuf v = some b' ∧
      n ≤ b'.cap ∧ b.cap ≤ b'.cap ∧ b'.size = b.size ∧ ∀ w, w < nvars → contents st' w = contents st w := by
  have hp := run_post ops (qs := Spec.init nvars) (init_inv nvars regs) (init_rel nvars regs) hrun
  have hlen : st.bufs.length = nvars := by simpa [init] using hp.2.2.2
  obtain ⟨st', hst', hpost⟩ := step_ok hp.1 hp.2.1 k (.reserve v n) (by simpa [WFOp, hlen] using hv)
  obtain ⟨b, b', L', hb, hfb, rfl⟩ := upd_elim (f := fun b => b.reserve n k) hst'
  have hbi := hp.1.1 v b hb
  have hli := liveIn_of_inv hp.1 hb
  have h1 := (okM_of_some hfb _).1 (reserve_ok hbi hli hp.1.2.bounded n k)
  have h2 := (okM_of_some hfb _).1 (reserve_cap hbi hli hp.1.2.bounded n k)
  have hvl : v < st.bufs.length := hlen ▸ hv
  refine ⟨_, b, b', hst', hb, ?_, h2.1, h2.2.1, h2.2.2.2, fun w hw => ?_⟩
  · simp [State.getBuf, State.setBL, hvl]
  · have hwl : w < st.bufs.length := hlen ▸ hw
    have hwl' : w < (st.setBL v b' L').bufs.length := by simpa [State.setBL] using hwl
    rw [contents_state hpost.1 hwl', contents_state hp.1 hwl]
    have hg := getElem?_setBL st v w b' L' hvl
    rw [List.getElem?_eq_getElem hwl'] at hg
    by_cases hvw : v = w
    · subst hvw
      simp only [if_true, Option.some.injEq] at hg
      have hbb : st.bufs[v] = b := by
        have := List.getElem?_eq_getElem hvl
        rw [hb] at this
        exact (Option.some.inj this).symm
      rw [hg, h1.2.2, hbb]
    · simp only [hvw, if_false] at hg
      rw [List.getElem?_eq_getElem hwl] at hg
      rw [Option.some.inj hg]

/-- **Observers.**  In every reachable state `size()` is the number of exposed bytes (= the length of the reference byte
    queue), `isEmpty()` says whether there are none, an owning Buffer's bytes and terminator fit its `capacity()`
    (`size() ≤ capacity()`), and a Buffer that owns nothing reports the capacity 0. -/
theorem observers_agree (nvars : Nat) (regs : List (List Byte)) (ops : List (Op × Nat)) (st : State)
    (hrun : run (init nvars regs) ops = some st) (v : Nat) (b : Buf) (hb : st.getBuf v = some b) :
    ∃ c, contents st v = some c ∧ b.size = c.length ∧
      b.size = (Spec.get (Spec.run regs (Spec.init nvars) (ops.map Prod.fst)) v).length ∧
      (b.isEmpty = true ↔ c = []) ∧ (b.owning = true → b.size ≤ b.cap) ∧ (b.owning = false → b.cap = 0) := by
  have hp := run_post ops (qs := Spec.init nvars) (init_inv nvars regs) (init_rel nvars regs) hrun
  have hvl : v < st.bufs.length := (List.getElem?_eq_some_iff.1 hb).1
  have hbb : st.bufs[v] = b := by
    have := List.getElem?_eq_getElem hvl
    rw [State.getBuf] at hb
    rw [hb] at this
    exact (Option.some.inj this).symm
  have hbi := hp.1.1 v b hb
  have hdl := data_length hbi
  refine ⟨b.data, hbb ▸ contents_state hp.1 hvl, by simp [Buf.size, hdl], ?_, ?_, ?_, ?_⟩
  · have hm : (Spec.get (Spec.run regs (Spec.init nvars) (ops.map Prod.fst)) v).length = b.data.length :=
      (hp.2.1.2 v b hb).length
    rw [hm, hdl]; rfl
  · rw [← List.length_eq_zero_iff, hdl]
    obtain ⟨store, s, e, cap⟩ := b
    cases store <;> simp only [BInv] at hbi <;> simp only [Buf.isEmpty, beq_iff_eq] <;> omega
  · obtain ⟨store, s, e, cap⟩ := b
    cases store <;> simp only [BInv] at hbi <;> simp [Buf.owning, Buf.size] <;> omega
  · obtain ⟨store, s, e, cap⟩ := b
    cases store <;> simp only [BInv] at hbi <;> simp [Buf.owning] <;> omega

/-- all four statements at once for well-formed histories -/
theorem buffer_correct (nvars : Nat) (regs : List (List Byte)) (ops : List (Op × Nat))
    (hwf : ∀ p ∈ ops, WFOp nvars regs p.1) :
    ∃ st, run (init nvars regs) ops = some st ∧ st.regs = regs ∧
      ∀ v, v < nvars → ∃ b c, st.getBuf v = some b ∧ contents st v = some c ∧
        Match (Spec.get (Spec.run regs (Spec.init nvars) (ops.map Prod.fst)) v) c ∧
        (b.owning = true → Nstd.Buffer.terminator st v = some (some (some 0))) := by
  obtain ⟨st, hrun⟩ := no_fault nvars regs ops hwf
  refine ⟨st, hrun, attached_untouched nvars regs ops st hrun, fun v hv => ?_⟩
  obtain ⟨c, hc, hm⟩ := refines nvars regs ops st hrun v hv
  have hp := run_post ops (qs := Spec.init nvars) (init_inv nvars regs) (init_rel nvars regs) hrun
  have hlen : st.bufs.length = nvars := by simpa [init] using hp.2.2.2
  have hb : st.getBuf v = some st.bufs[v] := List.getElem?_eq_getElem (hlen ▸ hv)
  exact ⟨_, c, hb, hc, hm, fun ho => terminator_zero nvars regs ops st hrun v _ hb ho⟩

/-! ### non-vacuity: concrete histories meeting the hypotheses, with non-trivial outcomes -/

/-- two variables, two regions as in the harness -/
def exRegs : List (List Byte) := [[some 0x10, some 0x11, some 0x12, some 0x13], [some 0x20, some 0x21]]

/-- a history that goes through attach, the reallocating / shifting / head-room branches of prepend,
    compaction in resize, self-append, prepend of a sub-range of the buffer itself, swap, and ends with two non-empty buffers -/
def exHist : List Op :=
  [.attach 0 0 1 3, .appendData 0 [1, 2], .removeFront 0 2, .prependData 0 [7], .prependData 0 [8, 9],
   .resize 0 7, .appendBuf 0 0, .ctorCap 1 4, .appendBuf 1 0, .removeBack 1 10, .swap 0 1,
   .prependBuf 1 1, .assignBuf 0 0, .prependSub 0 1 2, .reserve 0 20, .attach 1 1 0 2, .removeBack 1 1]

/-- the history with the capacity policy of today's Buffer.hpp (no wish) … -/
def exOps : List (Op × Nat) := exHist.map (fun op => (op, 0))

/-- … and with an environment that asks for capacity 16 at every step -/
def exOps16 : List (Op × Nat) := exHist.map (fun op => (op, 16))

example : ∀ p ∈ exOps, WFOp 2 exRegs p.1 := by
  simp [exOps, exHist, WFOp, exRegs]

/-- the hypotheses of `terminator_zero`/`refines`/`attached_untouched` are met by a run ending in an
    owning buffer with six bytes and an attached buffer with one byte -/
example : ∃ st b, run (init 2 exRegs) exOps = some st ∧ st.getBuf 0 = some b ∧ b.owning = true ∧
    contents st 0 = some [some 9, some 7, some 8, some 9, some 7, some 0x13] ∧
    contents st 1 = some [some 0x20] := by
  refine ⟨_, _, rfl, rfl, rfl, rfl, rfl⟩

/-- ledger non-vacuity: that history allocates nine blocks and ends with exactly one live block, the
    `buffer` of variable 0 -/
example : ∃ st b, run (init 2 exRegs) exOps = some st ∧ st.led.next = 9 ∧ st.led.live = [8] ∧
    st.getBuf 0 = some b ∧ b.ownId = some 8 := by
  refine ⟨_, _, rfl, rfl, rfl, rfl, rfl⟩

/-- capacity-policy non-vacuity: with an environment that asks for capacity 16 at every step the same
    history exposes the same bytes, but takes other branches (5 allocations instead of 9) -/
example : ∃ st b, run (init 2 exRegs) exOps16 = some st ∧ st.led.next = 5 ∧ st.led.live = [4] ∧
    st.getBuf 0 = some b ∧ b.cap = 20 ∧
    contents st 0 = some [some 9, some 7, some 8, some 9, some 7, some 0x13] ∧
    contents st 1 = some [some 0x20] := by
  refine ⟨_, _, rfl, rfl, rfl, rfl, rfl, rfl, rfl⟩

/-- own sub-ranges as `(pointer, size)` arguments: `b.append((const byte*)b + 1, 2)` reallocates (the old block is
    deleted before the bytes are copied – the pointer is re-derived), `b.assign((const byte*)b + 2, 3)` overlaps -/
example : ∃ st, run (init 1 []) [(.ctorData 0 [1, 2, 3], 0), (.appendSub 0 1 2, 0), (.assignSub 0 2 3, 0)] = some st ∧
    contents st 0 = some [some 3, some 2, some 3] ∧ st.led.live = [1] := by
  exact ⟨_, rfl, rfl, rfl⟩

/-- the ledger does catch a use after free and a double free (what `no_fault` excludes) -/
example : ((do (Store.own 0 [none]).release; (Store.own 0 [none]).load 0 0 : M (List Byte))
      { next := 1, live := [0] }).isNone = true ∧
    ((do (Store.own 0 [none]).release; (Store.own 0 [none]).release : M Unit)
      { next := 1, live := [0] }).isNone = true := by
  exact ⟨rfl, rfl⟩

/-- `Match` is not trivially true: a specified byte must be equal, lengths must agree -/
example : ¬ Match [some 1] [some 2] := by
  intro h; cases h with | cons h _ => rcases h with h | h <;> simp at h
example : ¬ Match [none] [] := by intro h; cases h
example : Match [none, some 3] [some 9, some 3] :=
  .cons (.inl rfl) (.cons (.inr rfl) .nil)

/-- the model does fault on ill-formed use: an attached range outside its region -/
example : run (init 2 exRegs) [(.attach 0 1 1 2, 0)] = none := by decide

/-- and the checked memory does catch out-of-range accesses (what `no_fault` excludes) -/
example : wrList [none, none] 1 [some 0, some 0] = none ∧ rdList [some 1] 1 1 = none := by decide

end Nstd.Buffer
