import Nstd.Buffer.LemmasStep
/-
  Property C08: "After any sequence of append, prepend, assign, resize, reserve, removeFront,
  removeBack, clear, free, swap, copy and attach, a Buffer exposes exactly the bytes a reference
  byte queue holds (bytes newly exposed by a growing resize are unspecified), and whenever it
  owns its storage one readable zero byte follows the last data byte.  It never reads or writes
  outside its own allocation or the attached range."

  The theorems are about the model `Nstd.Buffer.run` (Model.lean) started in `init nvars regs`
  (`nvars` default-constructed Buffer variables, `regs` = attachable caller memory) and hold
  for EVERY operation list, every number of variables and every region content; no bound on
  sizes, offsets or the length of the history.  A fault (`none`) of the model is an access
  outside the object's own allocation / the attached range, a store into attached memory, or
  a read of a freed block (Model.lean).
-/
namespace Nstd.Buffer

/-- **No out-of-range access.**  Every history of well-formed operations (variable indices
    exist, every attached range lies inside its region) runs without a fault, whatever the
    sizes, head-room, capacities and ownership states it goes through – including histories
    that mix `attach` with owning operations, that hand the same region to several buffers,
    that pass a buffer to itself and that prepend a sub-range of the buffer's own bytes. -/
theorem no_fault (nvars : Nat) (regs : List (List Byte)) (ops : List Op)
    (hwf : ∀ op ∈ ops, WFOp nvars regs op) :
    ∃ st, run (init nvars regs) ops = some st := by
  have hw : ∀ op ∈ ops, WFOp (init nvars regs).bufs.length (init nvars regs).regs op := by
    simpa [init] using hwf
  obtain ⟨st, h, _⟩ := run_ok ops (qs := Spec.init nvars) (init_inv nvars regs) (init_rel nvars regs) hw
  exact ⟨st, h⟩

/-- **Terminator.**  In every reachable state, whenever a Buffer owns storage, the byte after
    the data is readable (inside the allocation) and is `0`. -/
theorem terminator_zero (nvars : Nat) (regs : List (List Byte)) (ops : List Op) (st : State)
    (hrun : run (init nvars regs) ops = some st) (v : Nat) (b : Buf)
    (hb : st.getBuf v = some b) (hown : b.owning = true) :
    Nstd.Buffer.terminator st v = some (some (some 0)) := by
  have hp := run_post ops (qs := Spec.init nvars) (init_inv nvars regs) (init_rel nvars regs) hrun
  have hbi := hp.1 v b hb
  obtain ⟨store, s, e, cap⟩ := b
  cases store with
  | own m =>
    simp only [BInv] at hbi
    obtain ⟨hl, _, he, ht⟩ := hbi
    have hlt : e < m.length := by omega
    have hget : m[e] = some 0 := by
      rw [List.getElem?_eq_getElem hlt] at ht
      exact Option.some.inj ht
    have hrd : rdList m e 1 = some [some 0] := by
      have h1 : e + 1 ≤ m.length := by omega
      simp only [rdList, h1, if_true, Option.some.injEq]
      rw [List.drop_eq_getElem_cons hlt, hget]
      simp
    simp only [Nstd.Buffer.terminator, hb, Option.bind_eq_bind, Option.bind_some, hrd]
    rfl
  | att m => simp [Buf.owning] at hown
  | dflt c => simp [Buf.owning] at hown

/-- **Byte-queue refinement.**  After any history the exposed bytes of every variable can be
    read without a fault and match the reference byte queue of `Spec.lean` run on the same
    history (`Match`: equal length, every specified byte equal; bytes newly exposed by a growing
    `resize` are unspecified in the specification and match anything). -/
theorem refines (nvars : Nat) (regs : List (List Byte)) (ops : List Op) (st : State)
    (hrun : run (init nvars regs) ops = some st) (v : Nat) (hv : v < nvars) :
    ∃ c, contents st v = some c ∧ Match (Spec.get (Spec.run regs (Spec.init nvars) ops) v) c := by
  have hp := run_post ops (qs := Spec.init nvars) (init_inv nvars regs) (init_rel nvars regs) hrun
  have hlen : st.bufs.length = nvars := by simpa [init] using hp.2.2.2
  have hb : st.bufs[v]? = some st.bufs[v] := List.getElem?_eq_getElem (hlen ▸ hv)
  refine ⟨st.bufs[v].data, ?_, hp.2.1.2 v _ hb⟩
  simp [contents, State.getBuf, hb, contents_ok (hp.1 v _ hb)]

/-- **Attached memory is never modified.**  The attachable regions are the same after any
    history.  (In the model a store of at least one byte through a pointer into attached memory
    is a fault – `att_store_faults` – so together with `no_fault` no such store is ever attempted.) -/
theorem attached_untouched (nvars : Nat) (regs : List (List Byte)) (ops : List Op) (st : State)
    (hrun : run (init nvars regs) ops = some st) : st.regs = regs :=
  (run_post ops (qs := Spec.init nvars) (init_inv nvars regs) (init_rel nvars regs) hrun).2.2.1

/-- the model treats every store of ≥ 1 byte into attached memory (or the `_capacity` cell) as a fault -/
theorem att_store_faults (m : List Byte) (off : Nat) (d : List Byte) (h : d ≠ []) :
    (Store.att m).write off d = none ∧ ∀ c, (Store.dflt c).write off d = none := by
  have : d.length ≠ 0 := fun h0 => h (List.eq_nil_of_length_eq_zero h0)
  simp [Store.write, this]

/-- `operator==` / `operator!=` read only the exposed bytes: in every reachable state the comparison
    of two variables does not fault and is the equality of their contents. -/
theorem compare_no_fault (nvars : Nat) (regs : List (List Byte)) (ops : List Op) (st : State)
    (hrun : run (init nvars regs) ops = some st) (v w : Nat) (hv : v < nvars) (hw : w < nvars) :
    ∃ cv cw, contents st v = some cv ∧ contents st w = some cw ∧ equalBufs st v w = some (cv == cw) := by
  obtain ⟨cv, hcv, _⟩ := refines nvars regs ops st hrun v hv
  obtain ⟨cw, hcw, _⟩ := refines nvars regs ops st hrun w hw
  exact ⟨cv, cw, hcv, hcw, by simp [equalBufs, hcv, hcw]⟩

/-- all four statements at once for well-formed histories -/
theorem buffer_correct (nvars : Nat) (regs : List (List Byte)) (ops : List Op)
    (hwf : ∀ op ∈ ops, WFOp nvars regs op) :
    ∃ st, run (init nvars regs) ops = some st ∧ st.regs = regs ∧
      ∀ v, v < nvars → ∃ b c, st.getBuf v = some b ∧ contents st v = some c ∧
        Match (Spec.get (Spec.run regs (Spec.init nvars) ops) v) c ∧
        (b.owning = true → Nstd.Buffer.terminator st v = some (some (some 0))) := by
  obtain ⟨st, hrun⟩ := no_fault nvars regs ops hwf
  refine ⟨st, hrun, attached_untouched nvars regs ops st hrun, fun v hv => ?_⟩
  obtain ⟨c, hc, hm⟩ := refines nvars regs ops st hrun v hv
  have hp := run_post ops (qs := Spec.init nvars) (init_inv nvars regs) (init_rel nvars regs) hrun
  have hlen : st.bufs.length = nvars := by simpa [init] using hp.2.2.2
  have hb : st.getBuf v = some st.bufs[v] := List.getElem?_eq_getElem (hlen ▸ hv)
  exact ⟨_, c, hb, hc, hm, fun ho => terminator_zero nvars regs ops st hrun v _ hb ho⟩

/-! ### non-vacuity: concrete histories meeting the hypotheses, with non-trivial outcomes -/

/-- two variables, two regions as in the harness -/
def exRegs : List (List Byte) := [[some 0x10, some 0x11, some 0x12, some 0x13], [some 0x20, some 0x21]]

/-- a history that goes through attach, the reallocating / shifting / head-room branches of prepend,
    compaction in resize, self-append, prepend of a sub-range of the buffer itself, swap, and ends with two non-empty buffers -/
def exOps : List Op :=
  [.attach 0 0 1 3, .appendData 0 [1, 2], .removeFront 0 2, .prependData 0 [7], .prependData 0 [8, 9],
   .resize 0 7, .appendBuf 0 0, .ctorCap 1 4, .appendBuf 1 0, .removeBack 1 10, .swap 0 1,
   .prependBuf 1 1, .assignBuf 0 0, .prependSub 0 1 2, .reserve 0 20, .attach 1 1 0 2, .removeBack 1 1]

example : ∀ op ∈ exOps, WFOp 2 exRegs op := by
  simp [exOps, WFOp, exRegs]

/-- the hypotheses of `terminator_zero`/`refines`/`attached_untouched` are met by a run ending in an
    owning buffer with six bytes and an attached buffer with one byte -/
example : ∃ st b, run (init 2 exRegs) exOps = some st ∧ st.getBuf 0 = some b ∧ b.owning = true ∧
    contents st 0 = some [some 9, some 7, some 8, some 9, some 7, some 0x13] ∧
    contents st 1 = some [some 0x20] := by
  refine ⟨_, _, rfl, rfl, rfl, rfl, rfl⟩

/-- `Match` is not trivially true: a specified byte must be equal, lengths must agree -/
example : ¬ Match [some 1] [some 2] := by
  intro h; cases h with | cons h _ => rcases h with h | h <;> simp at h
example : ¬ Match [none] [] := by intro h; cases h
example : Match [none, some 3] [some 9, some 3] :=
  .cons (.inl rfl) (.cons (.inr rfl) .nil)

/-- the model does fault on ill-formed use: an attached range outside its region -/
example : run (init 2 exRegs) [.attach 0 1 1 2] = none := by decide

/-- and the checked memory does catch out-of-range accesses (what `no_fault` excludes) -/
example : wrList [none, none] 1 [some 0, some 0] = none ∧ rdList [some 1] 1 1 = none := by decide

end Nstd.Buffer
