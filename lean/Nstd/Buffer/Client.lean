import Nstd.Buffer.Model
/-
  The send backlog of a server client, as Server.cpp uses it (core Lean only: the driver links this file).

  `BOp` – the operations Server.cpp performs on `ClientImpl::_sendBuffer`.
  `COp` – what happens to a client: `write` = `Server::Private::ClientImpl::write(data, size)` (Server.cpp:441-477),
  `ready` = one write-readiness event handled by `Server::Private::run` (Server.cpp:333-362), each with the answer of
  `send` SHOULD it be called.  `writeOps` / `readyOps` follow the two code sites line by line and say which Buffer
  operations they perform, given `size()` of the backlog before.
-/
namespace Nstd.Buffer

/-- the operations Server.cpp performs on a client's send backlog -/
inductive BOp where
  /-- `_sendBuffer.append(data + sent, size - sent)` (Server.cpp:469,473) -/
  | append (d : List Nat)
  /-- `_sendBuffer.removeFront(sent)` (Server.cpp:353) -/
  | removeFront (n : Nat)
  | clear
  /-- `_sendBuffer.free()` (Server.cpp:346,357) -/
  | free
  deriving Repr

/-- the Buffer operation on variable `v` -/
def BOp.op (v : Nat) : BOp → Op
  | .append d => .appendData v d
  | .removeFront n => .removeFront v n
  | .clear => .clear v
  | .free => .free v

/-- the answer of `send(data, n)`: would block, error, or `k` bytes accepted (`min k n`; 0 = connection closed) -/
inductive Outcome where
  | wb
  | err
  | cnt (k : Nat)
  deriving Repr, Inhabited

/-- `ClientImpl::write(data, size)` on a backlog of `size` bytes: the Buffer operations, whether the client was queued
    for closing, and the number of bytes `send` accepted (`none` = `send` was not called) -/
def writeOps (size : Nat) (d : List Nat) : Outcome → List BOp × Bool × Option Nat
  | o =>
    if size = 0 then
      -- `if (_sendBuffer.isEmpty()) { ssize sent = send(data, size); switch (sent) …`
      match o with
      | .err => ([], true, some 0)
      | .wb =>
        -- `sent = 0; break;` … `if ((usize)sent >= size) return true;` … `_sendBuffer.append(data + sent, size - sent);`
        if 0 ≥ d.length then ([], false, some 0) else ([.append d], false, some 0)
      | .cnt k =>
        let sent := if k < d.length then k else d.length
        if sent = 0 then ([], true, some 0)                 -- `case 0:` the connection is closed
        else if sent ≥ d.length then ([], false, some sent)
        else ([.append (d.drop sent)], false, some sent)
    else
      -- `else _sendBuffer.append(data, size);`
      ([.append d], false, none)

/-- one write-readiness event of a client whose backlog holds `size` bytes (Server.cpp:333-362): the Buffer operations,
    whether the client was closed, the bytes `send` accepted, whether `onWrite` was called -/
def readyOps (size : Nat) : Outcome → List BOp × Bool × Option Nat × Bool
  | o =>
    if size ≠ 0 then
      -- `ssize sent = client.send(client._sendBuffer, client._sendBuffer.size());`
      match o with
      | .wb => ([], false, some 0, false)                    -- `continue;`
      | .err => ([.free], true, some 0, false)               -- `client._sendBuffer.free(); … onClosed(); continue;`
      | .cnt k =>
        let sent := if k < size then k else size
        if sent = 0 then ([.free], true, some 0, false)
        else if size - sent = 0 then ([.removeFront sent, .free], false, some sent, true)   -- drained: `free()`, `onWrite()`
        else ([.removeFront sent], false, some sent, false)
    else
      ([.free], false, none, true)

/-! ### whole client histories (the function the driver executes for `cw` / `cr` lines) -/

/-- what happens to a client: `write` = `ClientImpl::write(data, size)`, `ready` = one write-readiness event, each with the
    answer `send` gives should it be called -/
inductive CEv where
  | write (d : List Nat) (o : Outcome)
  | ready (o : Outcome)
  deriving Repr, Inhabited

/-- the Buffer variables (variable `c` = `_sendBuffer` of client `c`) and which clients were closed -/
structure DState where
  st : State
  dead : List Bool

/-- `n` clients with default-constructed `_sendBuffer`s -/
def cinit (n : Nat) (regs : List (List Byte)) : DState := { st := init n regs, dead := List.replicate n false }

def runBOps (st : State) (k : Nat) (c : Nat) : List BOp → Option State
  | [] => some st
  | b :: bs => do let st ← step st k (b.op c); runBOps st k c bs

/-- what the event reported (printed by the driver) -/
inductive CRes where
  | dead
  | idle
  | wrote (closing : Bool) (sent : Option Nat) (post : Nat)
  | readied (closed : Bool) (sent : Option Nat) (onWrite : Bool) (offered : Nat)
  deriving Repr, Inhabited

/-- one client event on the Buffer model; `none` = the Buffer model faulted (or `c` is not a client).  `k` = capacity wish
    for the client's Buffer.  A closed client ignores events; a write-readiness event reaches only a client that is
    registered for write-readiness, i.e. whose backlog is not empty (`idle` otherwise). -/
def clientStep (d : DState) (k c : Nat) : CEv → Option (DState × CRes)
  | .write data o =>
    if d.dead.getD c true then some (d, .dead) else
    match d.st.getBuf c with
    | none => none
    | some b =>
      let (ops, closing, sent) := writeOps b.size data o
      match runBOps d.st k c ops with
      | none => none
      | some st' =>
        let post := if closing then 0 else (st'.getBuf c).map Buf.size |>.getD 0
        some ({ st := st', dead := if closing then d.dead.set c true else d.dead }, .wrote closing sent post)
  | .ready o =>
    if d.dead.getD c true then some (d, .dead) else
    match d.st.getBuf c with
    | none => none
    | some b =>
      if b.size = 0 then some (d, .idle) else
      let (ops, closed, sent, onWrite) := readyOps b.size o
      match runBOps d.st k c ops with
      | none => none
      | some st' => some ({ st := st', dead := if closed then d.dead.set c true else d.dead }, .readied closed sent onWrite b.size)

/-- a history of client events: (client, event, capacity wish) -/
def crun (d : DState) : List (Nat × CEv × Nat) → Option DState
  | [] => some d
  | (c, ev, k) :: evs => do let (d', _) ← clientStep d k c ev; crun d' evs

end Nstd.Buffer
