import Nstd.Buffer.LemmasState
/-
  The per-operation step lemma and its lifting to operation lists.
-/
namespace Nstd.Buffer

theorem match_bytesOf (d : List Nat) : Match (bytesOf d) (bytesOf d) := Match.rfl _

/-- `LStep` when nothing happens to the ledger -/
theorem LStep.refl {o : Option Nat} {L : Ledger} (hl : ∀ i, o = some i → i ∈ L.live) : LStep o o L L :=
  ⟨fun i => ⟨fun hi' => by
      by_cases hh : o = some i
      · exact Or.inl hh
      · exact Or.inr ⟨hi', hh⟩, fun hi' => by
      rcases hi' with hh | hh
      · exact hl i hh
      · exact hh.1⟩, Or.inl rfl, Nat.le_refl _⟩

theorem swap_ok {st : State} {qs : List Spec.Queue} {v w : Nat} (k : Nat) (hi : Inv st) (hr : Rel qs st)
    (hw : v < st.bufs.length ∧ w < st.bufs.length) :
    Ok (step st k (.swap v w)) (Post st (Spec.step st.regs qs (.swap v w))) := by
  obtain ⟨hv, hw⟩ := hw
  have hbv : st.bufs[v]? = some st.bufs[v] := List.getElem?_eq_getElem hv
  have hbw : st.bufs[w]? = some st.bufs[w] := List.getElem?_eq_getElem hw
  obtain ⟨ra1, ra2, ra3⟩ := rehome_ok (owner := w) (hi.1 v _ hbv)
  obtain ⟨rb1, rb2, rb3⟩ := rehome_ok (owner := v) (hi.1 w _ hbw)
  refine ⟨{ st with bufs := (st.bufs.set v (st.bufs[w].rehome v w)).set w (st.bufs[v].rehome w v) }, ?_, ?_⟩
  · simp [step, State.getBuf, hbv, hbw]
  · -- the buffers after the swap, pointwise
    have hget : ∀ u : Nat, ((st.bufs.set v (st.bufs[w].rehome v w)).set w (st.bufs[v].rehome w v))[u]? =
        if w = u then some (st.bufs[v].rehome w v) else if v = u then some (st.bufs[w].rehome v w) else st.bufs[u]? := by
      intro u
      rw [List.getElem?_set, List.getElem?_set]
      by_cases h1 : w = u
      · subst h1; simp [hw]
      · by_cases h2 : v = u
        · subst h2; simp [h1, hv]
        · simp [h1, h2]
    refine ⟨⟨?_, ?_⟩, ⟨?_, ?_⟩, rfl, by simp⟩
    · intro u b hu
      rw [hget] at hu
      by_cases h1 : w = u
      · subst h1; simp at hu; subst hu; exact ra1
      · by_cases h2 : v = u
        · subst h2; simp [h1] at hu; subst hu; exact rb1
        · simp [h1, h2] at hu; exact hi.1 u b hu
    · -- ledger invariant: the two blocks change hands
      have hown : ∀ (u : Nat) (b : Buf), ((st.bufs.set v (st.bufs[w].rehome v w)).set w (st.bufs[v].rehome w v))[u]? = some b →
          ∃ u' b0, st.bufs[u']? = some b0 ∧ b.ownId = b0.ownId ∧
            (u' = if w = u then v else if v = u then w else u) := by
        intro u b hu
        rw [hget] at hu
        by_cases h1 : w = u
        · subst h1; simp at hu; subst hu; exact ⟨v, _, hbv, ra3, by simp⟩
        · by_cases h2 : v = u
          · subst h2; simp [h1] at hu; subst hu; exact ⟨w, _, hbw, rb3, by simp [h1]⟩
          · simp [h1, h2] at hu; exact ⟨u, b, hu, rfl, by simp [h1, h2]⟩
      constructor
      · intro u b id hu hid
        obtain ⟨u', b0, h0, he, _⟩ := hown u b hu
        exact hi.2.live_of_owned u' b0 id h0 (he ▸ hid)
      · intro id hid
        obtain ⟨u, b, hu, hb⟩ := hi.2.owned_of_live id hid
        by_cases h1 : u = v
        · subst h1
          rw [hbv] at hu; cases hu
          exact ⟨w, _, by rw [hget]; simp, ra3.trans hb⟩
        · by_cases h2 : u = w
          · subst h2
            rw [hbw] at hu; cases hu
            refine ⟨v, _, ?_, rb3.trans hb⟩
            rw [hget]
            simp [h1]
          · refine ⟨u, b, ?_, hb⟩
            rw [hget]
            simp [Ne.symm h1, Ne.symm h2, hu]
      · intro u1 u2 b1 b2 id h1 h2 hb1 hb2
        obtain ⟨x1, c1, hc1, he1, hx1⟩ := hown u1 b1 h1
        obtain ⟨x2, c2, hc2, he2, hx2⟩ := hown u2 b2 h2
        have hx := hi.2.excl x1 x2 c1 c2 id hc1 hc2 (he1 ▸ hb1) (he2 ▸ hb2)
        rw [hx1, hx2] at hx
        by_cases a1 : w = u1 <;> by_cases a2 : w = u2 <;> by_cases a3 : v = u1 <;> by_cases a4 : v = u2 <;>
          simp [a1, a2, a3, a4] at hx <;> omega
      · exact hi.2.bounded
    · simp [Spec.step, hr.1]
    · intro u b hu
      rw [hget] at hu
      simp only [Spec.step]
      have hv' : v < qs.length := hr.1 ▸ hv
      have hw' : w < (qs.set v (Spec.get qs w)).length := by simp [hr.1 ▸ hw]
      rw [get_set _ _ _ _ hw', get_set _ _ _ _ hv']
      by_cases h1 : w = u
      · subst h1; simp at hu; subst hu; simp only [if_true]; rw [ra2]; exact hr.2 v _ hbv
      · by_cases h2 : v = u
        · subst h2; simp [h1] at hu; subst hu; simp only [h1, if_false, if_true]; rw [rb2]; exact hr.2 w _ hbw
        · simp [h1, h2] at hu; simp only [h1, h2, if_false]; exact hr.2 u b hu

/-- every well-formed operation succeeds from a state satisfying the invariant, re-establishes
    the invariant, simulates the specification step, and leaves regions/variable count alone -/
theorem step_ok {st : State} {qs : List Spec.Queue} (hi : Inv st) (hr : Rel qs st) (k : Nat) (op : Op)
    (hw : WFOp st.bufs.length st.regs op) :
    Ok (step st k op) (Post st (Spec.step st.regs qs op)) := by
  cases op with
  | ctorDefault v =>
    exact upd_ok (fun _ => []) hi hr hw (fun b _ hl hbd _ _ => (free_ok (v := v) hl hbd).mono
      (fun _ _ h => ⟨h.1, h.2.1, h.2.2 ▸ Match.nil⟩))
  | ctorCap v n =>
    exact upd_ok (fun _ => []) hi hr hw (fun b _ hl hbd _ _ => (ctorCap_ok v n k hl hbd).mono
      (fun _ _ h => ⟨h.1, h.2.1, h.2.2 ▸ Match.nil⟩))
  | ctorData v d =>
    exact upd_ok (fun _ => bytesOf d) hi hr hw (fun b _ hl hbd _ _ => (ctorData_ok v (bytesOf d) k hl hbd).mono
      (fun _ _ h => ⟨h.1, h.2.1, h.2.2 ▸ Match.rfl _⟩))
  | ctorCopy v w =>
    obtain ⟨hv, hw⟩ := hw
    simp only [step, Spec.step]
    by_cases h : v = w
    · subst h
      simp only [if_true]
      exact upd_ok (fun sp => sp) hi hr hv (fun b hb hl hbd sp hm => (okM_pure _ _ _).2
        ⟨LStep.refl hl, hb, hm⟩)
    · simp only [h, if_false]
      exact updFrom_ok (fun _ spd => spd) hi hr hv hw (fun b _ hl hbd _ spd d _ hd => (ctorData_ok v d k hl hbd).mono
        (fun _ _ h => ⟨h.1, h.2.1, h.2.2 ▸ hd⟩))
  | attach v r off len =>
    obtain ⟨hv, region, hreg, hlen⟩ := hw
    have hrd : rdList region off len = some ((region.drop off).take len) := by simp [rdList, hlen]
    have hsp : Spec.range st.regs r off len = (region.drop off).take len := by
      simp [Spec.range, List.getD_eq_getElem?_getD, hreg]
    have := upd_ok (f := fun b => b.attach ((region.drop off).take len))
      (fun _ => (region.drop off).take len) hi hr hv (fun b _ hl hbd _ _ => (attach_ok v _ hl hbd).mono
        (fun _ _ h => ⟨h.1, h.2.1, h.2.2 ▸ Match.rfl _⟩))
    simpa [step, Spec.step, hreg, hrd, hsp] using this
  | assignBuf v w =>
    obtain ⟨hv, hw⟩ := hw
    simp only [step, Spec.step]
    by_cases h : v = w
    · subst h
      simp only [if_true]
      exact upd_ok (fun sp => sp) hi hr hv (fun b hb hl hbd sp hm => (assignSelf_ok hb hl hbd k).mono
        (fun _ _ h => ⟨h.1, h.2.1, h.2.2 ▸ hm⟩))
    · simp only [h, if_false]
      exact updFrom_ok (fun _ spd => spd) hi hr hv hw (fun b hb hl hbd _ spd d _ hd => (assign_ok hb hl hbd d k).mono
        (fun _ _ h => ⟨h.1, h.2.1, h.2.2 ▸ hd⟩))
  | assignData v d =>
    exact upd_ok (fun _ => bytesOf d) hi hr hw (fun b hb hl hbd _ _ => (assign_ok hb hl hbd (bytesOf d) k).mono
      (fun _ _ h => ⟨h.1, h.2.1, h.2.2 ▸ Match.rfl _⟩))
  | prependData v d =>
    exact upd_ok (fun sp => bytesOf d ++ sp) hi hr hw (fun b hb hl hbd sp hm => (prepend_ok hb hl hbd (bytesOf d) k).mono
      (fun _ _ h => ⟨h.1, h.2.1, h.2.2 ▸ (Match.rfl _).append hm⟩))
  | prependBuf v w =>
    obtain ⟨hv, hw⟩ := hw
    simp only [step, Spec.step]
    by_cases h : v = w
    · subst h
      simp only [if_true]
      exact upd_ok (fun sp => sp ++ sp) hi hr hv (fun b hb hl hbd sp hm => (prependSelf_ok hb hl hbd k).mono
        (fun _ _ h => ⟨h.1, h.2.1, h.2.2 ▸ hm.append hm⟩))
    · simp only [h, if_false]
      exact updFrom_ok (fun sp spd => spd ++ sp) hi hr hv hw (fun b hb hl hbd sp spd d hm hd => (prepend_ok hb hl hbd d k).mono
        (fun _ _ h => ⟨h.1, h.2.1, h.2.2 ▸ hd.append hm⟩))
  | prependSub v off len =>
    exact upd_ok (fun sp => (sp.drop off).take len ++ sp) hi hr hw (fun b hb hl hbd sp hm =>
      (prependSubClamped_ok hb hl hbd off len k).mono (fun _ _ h => ⟨h.1, h.2.1, h.2.2 ▸ ((hm.drop off).take len).append hm⟩))
  | appendSub v off len =>
    exact upd_ok (fun sp => sp ++ (sp.drop off).take len) hi hr hw (fun b hb hl hbd sp hm =>
      (appendSubClamped_ok hb hl hbd off len k).mono (fun _ _ h => ⟨h.1, h.2.1, h.2.2 ▸ hm.append ((hm.drop off).take len)⟩))
  | assignSub v off len =>
    exact upd_ok (fun sp => (sp.drop off).take len) hi hr hw (fun b hb hl hbd sp hm =>
      (assignSubClamped_ok hb hl hbd off len k).mono (fun _ _ h => ⟨h.1, h.2.1, h.2.2 ▸ (hm.drop off).take len⟩))
  | appendData v d =>
    exact upd_ok (fun sp => sp ++ bytesOf d) hi hr hw (fun b hb hl hbd sp hm => (append_ok hb hl hbd (bytesOf d) k).mono
      (fun _ _ h => ⟨h.1, h.2.1, h.2.2 ▸ hm.append (Match.rfl _)⟩))
  | appendBuf v w =>
    obtain ⟨hv, hw⟩ := hw
    simp only [step, Spec.step]
    by_cases h : v = w
    · subst h
      simp only [if_true]
      exact upd_ok (fun sp => sp ++ sp) hi hr hv (fun b hb hl hbd sp hm => (appendSelf_ok hb hl hbd k).mono
        (fun _ _ h => ⟨h.1, h.2.1, h.2.2 ▸ hm.append hm⟩))
    · simp only [h, if_false]
      exact updFrom_ok (fun sp spd => sp ++ spd) hi hr hv hw (fun b hb hl hbd sp spd d hm hd => (append_ok hb hl hbd d k).mono
        (fun _ _ h => ⟨h.1, h.2.1, h.2.2 ▸ hm.append hd⟩))
  | resize v n =>
    exact upd_ok (fun sp => Spec.resize sp n) hi hr hw (fun b hb hl hbd sp hm => (resize_ok hb hl hbd n k).mono
      (fun _ _ h => ⟨h.1, h.2.1, hm.resize n h.2.2.1 h.2.2.2⟩))
  | removeFront v n =>
    exact upd_ok (fun sp => Spec.removeFront sp n) hi hr hw (fun b hb hl hbd sp hm => (removeFront_ok hb hl hbd n).mono
      (fun _ _ h => ⟨h.1, h.2.1, h.2.2 ▸ hm.drop n⟩))
  | removeBack v n =>
    exact upd_ok (fun sp => Spec.removeBack sp n) hi hr hw (fun b hb hl hbd sp hm => (removeBack_ok hb hl hbd n).mono
      (fun _ _ h => ⟨h.1, h.2.1, by rw [h.2.2, ← hm.length]; exact hm.take _⟩))
  | reserve v n =>
    have := upd_ok (fun sp => sp) hi hr hw (fun b hb hl hbd sp hm => (reserve_ok hb hl hbd n k).mono
      (fun _ _ h => ⟨h.1, h.2.1, h.2.2 ▸ hm⟩))
    have hs : qs.set v (Spec.get qs v) = qs := by
      apply List.ext_getElem?
      intro i
      rw [List.getElem?_set]
      by_cases h : v = i
      · subst h
        have hv : v < qs.length := hr.1 ▸ hw
        simp [Spec.get, hv]
      · simp [h]
    rw [hs] at this
    exact this
  | clear v =>
    exact upd_ok (fun _ => []) hi hr hw (fun b hb hl hbd _ _ => (clear_ok hb hl hbd).mono
      (fun _ _ h => ⟨h.1, h.2.1, h.2.2 ▸ Match.nil⟩))
  | swap v w => exact swap_ok k hi hr hw
  | free v =>
    exact upd_ok (fun _ => []) hi hr hw (fun b _ hl hbd _ _ => (free_ok (v := v) hl hbd).mono
      (fun _ _ h => ⟨h.1, h.2.1, h.2.2 ▸ Match.nil⟩))

/-- an operation that succeeds was well-formed (the model rejects everything else) -/
theorem step_wf {st st' : State} {k : Nat} {op : Op} (h : step st k op = some st') : WFOp st.bufs.length st.regs op := by
  cases op with
  | ctorDefault v => exact upd_some h
  | ctorCap v n => exact upd_some h
  | ctorData v d => exact upd_some h
  | ctorCopy v w =>
    simp only [step] at h
    by_cases hvw : v = w
    · subst hvw; simp only [if_true] at h; exact ⟨upd_some h, upd_some h⟩
    · simp only [hvw, if_false] at h; exact updFrom_some h
  | attach v r off len =>
    simp only [step] at h
    cases hreg : st.regs[r]? with
    | none => simp [hreg] at h
    | some region =>
      by_cases hlen : off + len ≤ region.length
      · simp [hreg, rdList, hlen] at h
        exact ⟨upd_some h, region, hreg, hlen⟩
      · simp [hreg, rdList, hlen] at h
  | assignBuf v w =>
    simp only [step] at h
    by_cases hvw : v = w
    · subst hvw; simp only [if_true] at h; exact ⟨upd_some h, upd_some h⟩
    · simp only [hvw, if_false] at h; exact updFrom_some h
  | assignData v d => exact upd_some h
  | prependData v d => exact upd_some h
  | prependBuf v w =>
    simp only [step] at h
    by_cases hvw : v = w
    · subst hvw; simp only [if_true] at h; exact ⟨upd_some h, upd_some h⟩
    · simp only [hvw, if_false] at h; exact updFrom_some h
  | prependSub v off len => exact upd_some h
  | appendSub v off len => exact upd_some h
  | assignSub v off len => exact upd_some h
  | appendData v d => exact upd_some h
  | appendBuf v w =>
    simp only [step] at h
    by_cases hvw : v = w
    · subst hvw; simp only [if_true] at h; exact ⟨upd_some h, upd_some h⟩
    · simp only [hvw, if_false] at h; exact updFrom_some h
  | resize v n => exact upd_some h
  | removeFront v n => exact upd_some h
  | removeBack v n => exact upd_some h
  | reserve v n => exact upd_some h
  | clear v => exact upd_some h
  | swap v w =>
    simp only [step, State.getBuf] at h
    by_cases hv : v < st.bufs.length
    · by_cases hw : w < st.bufs.length
      · exact ⟨hv, hw⟩
      · simp [List.getElem?_eq_none (Nat.le_of_not_lt hw)] at h
    · simp [List.getElem?_eq_none (Nat.le_of_not_lt hv)] at h
  | free v => exact upd_some h

/-! ### operation lists -/

/-- well-formed histories never fault and preserve everything, whatever capacity the environment asks
    for at each step (`no_fault`, `refines`, ... follow) -/
theorem run_ok : ∀ (ops : List (Op × Nat)) {st : State} {qs : List Spec.Queue}, Inv st → Rel qs st →
    (∀ p ∈ ops, WFOp st.bufs.length st.regs p.1) →
    Ok (run st ops) (Post st (Spec.run st.regs qs (ops.map Prod.fst)))
  | [], st, qs, hi, hr, _ => (ok_some _ _).2 ⟨hi, hr, rfl, rfl⟩
  | (op, k) :: ops, st, qs, hi, hr, hw => by
    obtain ⟨st1, h1, p1⟩ := step_ok hi hr k op (hw (op, k) (by simp))
    have hw1 : ∀ p ∈ ops, WFOp st1.bufs.length st1.regs p.1 := by
      intro o ho
      rw [p1.2.2.1, p1.2.2.2]
      exact hw o (by simp [ho])
    obtain ⟨st2, h2, p2⟩ := run_ok ops p1.1 p1.2.1 hw1
    refine ⟨st2, ?_, p1.trans (p1.2.2.1 ▸ p2)⟩
    simp [run, h1, h2]

/-- the same for any history on which the model does not fault -/
theorem run_post : ∀ (ops : List (Op × Nat)) {st st' : State} {qs : List Spec.Queue}, Inv st → Rel qs st →
    run st ops = some st' → Post st (Spec.run st.regs qs (ops.map Prod.fst)) st'
  | [], st, st', qs, hi, hr, h => by
    simp only [run, Option.some.injEq] at h
    subst h
    exact ⟨hi, hr, rfl, rfl⟩
  | (op, k) :: ops, st, st', qs, hi, hr, h => by
    cases h1 : step st k op with
    | none => simp [run, h1] at h
    | some st1 =>
      have h2 : run st1 ops = some st' := by simpa [run, h1] using h
      obtain ⟨st1', h1', p1⟩ := step_ok hi hr k op (step_wf h1)
      rw [h1] at h1'
      cases h1'
      have p2 := run_post ops p1.1 p1.2.1 h2
      exact p1.trans (p1.2.2.1 ▸ p2)

theorem init_bufs (nv : Nat) (regs : List (List Byte)) (v : Nat) (b : Buf)
    (hb : (init nv regs).bufs[v]? = some b) : v < nv ∧ b = Buf.default v := by
  simp only [init, List.getElem?_map] at hb
  by_cases h : v < nv
  · simp [List.getElem?_range h] at hb
    exact ⟨h, hb.symm⟩
  · simp [List.getElem?_eq_none (l := List.range nv) (by simpa using h)] at hb

theorem init_inv (nv : Nat) (regs : List (List Byte)) : Inv (init nv regs) := by
  refine ⟨fun v b hb => ?_, ⟨?_, ?_, ?_, ?_⟩⟩
  · obtain ⟨_, rfl⟩ := init_bufs nv regs v b hb
    exact (default_ok v).1
  · intro v b id hb hid
    obtain ⟨_, rfl⟩ := init_bufs nv regs v b hb
    rw [(default_ok v).2.2] at hid
    cases hid
  · intro id hid
    simp [init] at hid
  · intro v w b b' id hb _ hid _
    obtain ⟨_, rfl⟩ := init_bufs nv regs v b hb
    rw [(default_ok v).2.2] at hid
    cases hid
  · intro i hi
    simp [init] at hi

theorem init_rel (nv : Nat) (regs : List (List Byte)) : Rel (Spec.init nv) (init nv regs) := by
  refine ⟨by simp [Spec.init, init], fun v b hb => ?_⟩
  obtain ⟨h, rfl⟩ := init_bufs nv regs v b hb
  rw [(default_ok v).2.1]
  simp [Spec.get, Spec.init, List.getD_eq_getElem?_getD, h]
  exact Match.nil

end Nstd.Buffer
