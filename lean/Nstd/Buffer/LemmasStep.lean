import Nstd.Buffer.LemmasState
/-
  The per-operation step lemma and its lifting to operation lists.
-/
namespace Nstd.Buffer

theorem match_bytesOf (d : List Nat) : Match (bytesOf d) (bytesOf d) := Match.rfl _

/-- every well-formed operation succeeds from a state satisfying the invariant, re-establishes
    the invariant, simulates the specification step, and leaves regions/variable count alone -/
theorem step_ok {st : State} {qs : List Spec.Queue} (hi : Inv st) (hr : Rel qs st) (op : Op)
    (hw : WFOp st.bufs.length st.regs op) :
    Ok (step st op) (Post st (Spec.step st.regs qs op)) := by
  cases op with
  | ctorDefault v =>
    exact upd_ok (fun _ => []) hi hr hw (fun _ _ _ _ => (ok_some _ _).2
      ⟨(default_ok v).1, (default_ok v).2 ▸ Match.nil⟩)
  | ctorCap v n =>
    exact upd_ok (fun _ => []) hi hr hw (fun _ _ _ _ => (ctorCap_ok v n).mono
      (fun _ h => ⟨h.1, h.2 ▸ Match.nil⟩))
  | ctorData v d =>
    exact upd_ok (fun _ => bytesOf d) hi hr hw (fun _ _ _ _ => (ctorData_ok v (bytesOf d)).mono
      (fun _ h => ⟨h.1, h.2 ▸ Match.rfl _⟩))
  | ctorCopy v w =>
    obtain ⟨hv, hw⟩ := hw
    simp only [step, Spec.step]
    by_cases h : v = w
    · subst h
      simp only [if_true]
      exact upd_ok (fun sp => sp) hi hr hv (fun b hb sp hm => (ok_some _ _).2 ⟨hb, hm⟩)
    · simp only [h, if_false]
      exact updFrom_ok (fun _ spd => spd) hi hr hv hw (fun _ _ _ spd d _ hd => (ctorData_ok v d).mono
        (fun _ h => ⟨h.1, h.2 ▸ hd⟩))
  | attach v r off len =>
    obtain ⟨hv, region, hreg, hlen⟩ := hw
    have hrd : rdList region off len = some ((region.drop off).take len) := by simp [rdList, hlen]
    have hsp : Spec.range st.regs r off len = (region.drop off).take len := by
      simp [Spec.range, List.getD_eq_getElem?_getD, hreg]
    have := upd_ok (f := fun _ => some (Buf.attach ((region.drop off).take len)))
      (fun _ => (region.drop off).take len) hi hr hv (fun _ _ _ _ => (ok_some _ _).2
        ⟨(attach_ok v _).1, (attach_ok v _).2 ▸ Match.rfl _⟩)
    simpa [step, Spec.step, hreg, hrd, hsp] using this
  | assignBuf v w =>
    obtain ⟨hv, hw⟩ := hw
    simp only [step, Spec.step]
    by_cases h : v = w
    · subst h
      simp only [if_true]
      exact upd_ok (fun sp => sp) hi hr hv (fun b hb sp hm => (assignSelf_ok hb).mono
        (fun _ h => ⟨h.1, h.2 ▸ hm⟩))
    · simp only [h, if_false]
      exact updFrom_ok (fun _ spd => spd) hi hr hv hw (fun b hb _ spd d _ hd => (assign_ok hb d).mono
        (fun _ h => ⟨h.1, h.2 ▸ hd⟩))
  | assignData v d =>
    exact upd_ok (fun _ => bytesOf d) hi hr hw (fun b hb _ _ => (assign_ok hb (bytesOf d)).mono
      (fun _ h => ⟨h.1, h.2 ▸ Match.rfl _⟩))
  | prependData v d =>
    exact upd_ok (fun sp => bytesOf d ++ sp) hi hr hw (fun b hb sp hm => (prepend_ok hb (bytesOf d)).mono
      (fun _ h => ⟨h.1, h.2 ▸ (Match.rfl _).append hm⟩))
  | prependBuf v w =>
    obtain ⟨hv, hw⟩ := hw
    simp only [step, Spec.step]
    by_cases h : v = w
    · subst h
      simp only [if_true]
      exact upd_ok (fun sp => sp ++ sp) hi hr hv (fun b hb sp hm => (prependSelf_ok hb).mono
        (fun _ h => ⟨h.1, h.2 ▸ hm.append hm⟩))
    · simp only [h, if_false]
      exact updFrom_ok (fun sp spd => spd ++ sp) hi hr hv hw (fun b hb sp spd d hm hd => (prepend_ok hb d).mono
        (fun _ h => ⟨h.1, h.2 ▸ hd.append hm⟩))
  | prependSub v off len =>
    exact upd_ok (fun sp => (sp.drop off).take len ++ sp) hi hr hw (fun b hb sp hm =>
      (prependSubClamped_ok hb off len).mono (fun _ h => ⟨h.1, h.2 ▸ ((hm.drop off).take len).append hm⟩))
  | appendData v d =>
    exact upd_ok (fun sp => sp ++ bytesOf d) hi hr hw (fun b hb sp hm => (append_ok hb (bytesOf d)).mono
      (fun _ h => ⟨h.1, h.2 ▸ hm.append (Match.rfl _)⟩))
  | appendBuf v w =>
    obtain ⟨hv, hw⟩ := hw
    simp only [step, Spec.step]
    by_cases h : v = w
    · subst h
      simp only [if_true]
      exact upd_ok (fun sp => sp ++ sp) hi hr hv (fun b hb sp hm => (appendSelf_ok hb).mono
        (fun _ h => ⟨h.1, h.2 ▸ hm.append hm⟩))
    · simp only [h, if_false]
      exact updFrom_ok (fun sp spd => sp ++ spd) hi hr hv hw (fun b hb sp spd d hm hd => (append_ok hb d).mono
        (fun _ h => ⟨h.1, h.2 ▸ hm.append hd⟩))
  | resize v n =>
    exact upd_ok (fun sp => Spec.resize sp n) hi hr hw (fun b hb sp hm => (resize_ok hb n).mono
      (fun _ h => ⟨h.1, hm.resize n h.2.1 h.2.2⟩))
  | removeFront v n =>
    exact upd_ok (fun sp => Spec.removeFront sp n) hi hr hw (fun b hb sp hm => (removeFront_ok hb n).mono
      (fun _ h => ⟨h.1, h.2 ▸ hm.drop n⟩))
  | removeBack v n =>
    exact upd_ok (fun sp => Spec.removeBack sp n) hi hr hw (fun b hb sp hm => (removeBack_ok hb n).mono
      (fun _ h => ⟨h.1, by rw [h.2, ← hm.length]; exact hm.take _⟩))
  | reserve v n =>
    have := upd_ok (fun sp => sp) hi hr hw (fun b hb sp hm => (reserve_ok hb n).mono
      (fun _ h => ⟨h.1, h.2 ▸ hm⟩))
    have hs : qs.set v (Spec.get qs v) = qs := by
      apply List.ext_getElem?
      intro i
      rw [List.getElem?_set]
      by_cases h : v = i
      · subst h
        have hv : v < qs.length := hr.1 ▸ hw
        simp [Spec.get, hv]
      · simp [h]
    rw [hs] at this
    exact this
  | clear v =>
    exact upd_ok (fun _ => []) hi hr hw (fun b hb _ _ => (clear_ok hb).mono
      (fun _ h => ⟨h.1, h.2 ▸ Match.nil⟩))
  | swap v w =>
    obtain ⟨hv, hw⟩ := hw
    have hbv : st.bufs[v]? = some st.bufs[v] := List.getElem?_eq_getElem hv
    have hbw : st.bufs[w]? = some st.bufs[w] := List.getElem?_eq_getElem hw
    have h1 := setBuf_post (sp' := Spec.get qs w) hi hr hv (rehome_ok (owner := v) (hi w _ hbw)).1
      ((rehome_ok (owner := v) (hi w _ hbw)).2 ▸ hr.2 w _ hbw)
    have hw' : w < (st.setBuf v (st.bufs[w].rehome v w)).bufs.length := by rw [h1.2.2.2]; exact hw
    have h2 := setBuf_post (sp' := Spec.get qs v) h1.1 h1.2.1 hw' (rehome_ok (owner := w) (hi v _ hbv)).1
      ((rehome_ok (owner := w) (hi v _ hbv)).2 ▸ hr.2 v _ hbv)
    refine ⟨_, ?_, h1.trans h2⟩
    simp [step, State.getBuf, hbv, hbw]
  | free v =>
    exact upd_ok (fun _ => []) hi hr hw (fun _ _ _ _ => (ok_some _ _).2
      ⟨(default_ok v).1, (default_ok v).2 ▸ Match.nil⟩)

/-- an operation that succeeds was well-formed (the model rejects everything else) -/
theorem step_wf {st st' : State} {op : Op} (h : step st op = some st') : WFOp st.bufs.length st.regs op := by
  cases op with
  | ctorDefault v => exact upd_some h
  | ctorCap v n => exact upd_some h
  | ctorData v d => exact upd_some h
  | ctorCopy v w =>
    simp only [step] at h
    by_cases hvw : v = w
    · subst hvw; simp only [if_true] at h; exact ⟨upd_some h, upd_some h⟩
    · simp only [hvw, if_false] at h; exact updFrom_some h
  | attach v r off len =>
    simp only [step] at h
    cases hreg : st.regs[r]? with
    | none => simp [hreg] at h
    | some region =>
      by_cases hlen : off + len ≤ region.length
      · simp [hreg, rdList, hlen] at h
        exact ⟨upd_some h, region, hreg, hlen⟩
      · simp [hreg, rdList, hlen] at h
  | assignBuf v w =>
    simp only [step] at h
    by_cases hvw : v = w
    · subst hvw; simp only [if_true] at h; exact ⟨upd_some h, upd_some h⟩
    · simp only [hvw, if_false] at h; exact updFrom_some h
  | assignData v d => exact upd_some h
  | prependData v d => exact upd_some h
  | prependBuf v w =>
    simp only [step] at h
    by_cases hvw : v = w
    · subst hvw; simp only [if_true] at h; exact ⟨upd_some h, upd_some h⟩
    · simp only [hvw, if_false] at h; exact updFrom_some h
  | prependSub v off len => exact upd_some h
  | appendData v d => exact upd_some h
  | appendBuf v w =>
    simp only [step] at h
    by_cases hvw : v = w
    · subst hvw; simp only [if_true] at h; exact ⟨upd_some h, upd_some h⟩
    · simp only [hvw, if_false] at h; exact updFrom_some h
  | resize v n => exact upd_some h
  | removeFront v n => exact upd_some h
  | removeBack v n => exact upd_some h
  | reserve v n => exact upd_some h
  | clear v => exact upd_some h
  | swap v w =>
    simp only [step, State.getBuf] at h
    by_cases hv : v < st.bufs.length
    · by_cases hw : w < st.bufs.length
      · exact ⟨hv, hw⟩
      · simp [List.getElem?_eq_none (Nat.le_of_not_lt hw)] at h
    · simp [List.getElem?_eq_none (Nat.le_of_not_lt hv)] at h
  | free v => exact upd_some h

/-! ### operation lists -/

/-- well-formed histories never fault and preserve everything (`no_fault`, `refines`, ... follow) -/
theorem run_ok : ∀ (ops : List Op) {st : State} {qs : List Spec.Queue}, Inv st → Rel qs st →
    (∀ op ∈ ops, WFOp st.bufs.length st.regs op) →
    Ok (run st ops) (Post st (Spec.run st.regs qs ops))
  | [], st, qs, hi, hr, _ => (ok_some _ _).2 ⟨hi, hr, rfl, rfl⟩
  | op :: ops, st, qs, hi, hr, hw => by
    obtain ⟨st1, h1, p1⟩ := step_ok hi hr op (hw op (by simp))
    have hw1 : ∀ o ∈ ops, WFOp st1.bufs.length st1.regs o := by
      intro o ho
      rw [p1.2.2.1, p1.2.2.2]
      exact hw o (by simp [ho])
    obtain ⟨st2, h2, p2⟩ := run_ok ops p1.1 p1.2.1 hw1
    refine ⟨st2, ?_, p1.trans (p1.2.2.1 ▸ p2)⟩
    simp [run, h1, h2]

/-- the same for any history on which the model does not fault -/
theorem run_post : ∀ (ops : List Op) {st st' : State} {qs : List Spec.Queue}, Inv st → Rel qs st →
    run st ops = some st' → Post st (Spec.run st.regs qs ops) st'
  | [], st, st', qs, hi, hr, h => by
    simp only [run, Option.some.injEq] at h
    subst h
    exact ⟨hi, hr, rfl, rfl⟩
  | op :: ops, st, st', qs, hi, hr, h => by
    cases h1 : step st op with
    | none => simp [run, h1] at h
    | some st1 =>
      have h2 : run st1 ops = some st' := by simpa [run, h1] using h
      obtain ⟨st1', h1', p1⟩ := step_ok hi hr op (step_wf h1)
      rw [h1] at h1'
      cases h1'
      have p2 := run_post ops p1.1 p1.2.1 h2
      exact p1.trans (p1.2.2.1 ▸ p2)

theorem init_inv (nv : Nat) (regs : List (List Byte)) : Inv (init nv regs) := by
  intro v b hb
  simp only [init, List.getElem?_map] at hb
  by_cases h : v < nv
  · simp [List.getElem?_range h] at hb
    subst hb
    exact (default_ok v).1
  · simp [List.getElem?_eq_none (l := List.range nv) (by simpa using h)] at hb

theorem init_rel (nv : Nat) (regs : List (List Byte)) : Rel (Spec.init nv) (init nv regs) := by
  refine ⟨by simp [Spec.init, init], fun v b hb => ?_⟩
  by_cases h : v < nv
  · simp [init, List.getElem?_range h] at hb
    subst hb
    rw [(default_ok v).2]
    simp [Spec.get, Spec.init, List.getD_eq_getElem?_getD, h]
    exact Match.nil
  · simp [init, List.getElem?_eq_none (l := List.range nv) (by simpa using h)] at hb

end Nstd.Buffer
