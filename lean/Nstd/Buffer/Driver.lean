import Nstd.Common.Basic
import Nstd.Buffer.Model
import Nstd.Buffer.Raw
import Nstd.Buffer.Client
/-
  Line protocol of the Buffer area.  One op per line; after every op the driver prints
  the observation line for the whole state:
     `<v0> | <v1> | ... # <reg0> <reg1> ... @ <cap0> <cap1> ...`    with  `<v> = size bytes owned term`
  bytes in hex with `??` for unspecified bytes; `term` = `00`, some other byte, `??`, or `-`
  when the buffer does not own storage.  A fault prints `FAULT` and the state is reset.
  An op line may end in `cap=<n>`: the capacity the implementation reported after that operation; the
  model then gives a block allocated by the operation the capacity `max needed n` (capacity policy is
  an environment parameter of the model); without it the model uses the exact capacity Buffer.hpp uses today.
  `eq v w` prints the result of the comparison, `state v` the white-box view
  `state <size> <_capacity> <head-room|-> <own|att|dflt|stale> size=<size()> empty=<isEmpty()> capacity=<capacity()>` of one variable (ties the
  branch-selecting state of the model to the implementation), `heap` the number of live
  allocations (ties the allocation ledger); none of them changes the state.
-/
open Nstd.Common
namespace Nstd.Buffer

def byteStr : Byte → String
  | some b => byteHex b
  | none => "??"

def bytesStr (bs : List Byte) : String :=
  if bs.isEmpty then "-" else String.join (bs.map byteStr)

def obsVar (st : State) (v : Nat) : String :=
  match contents st v, terminator st v, st.getBuf v with
  | some c, some t, some b =>
    s!"{c.length} {bytesStr c} {if b.owning then 1 else 0} " ++
      (match t with | some x => byteStr x | none => "-")
  | _, _, _ => "FAULT"

def obs (st : State) : String :=
  " | ".intercalate ((List.range st.bufs.length).map (obsVar st)) ++ " # " ++
    " ".intercalate (st.regs.map bytesStr) ++ " @ " ++
    " ".intercalate (st.bufs.map (fun b => toString b.cap))

def regionInit : List (List Byte) :=
  [ (List.range 8).map (fun i => some (0x10 + i)), (List.range 5).map (fun i => some (0x20 + i)) ]

def init0 : State := init 2 regionInit

def parseOp (ws : List String) : Option Op :=
  match ws with
  | ["new", v] => do pure (.ctorDefault (← v.toNat?))
  | ["newcap", v, n] => do pure (.ctorCap (← v.toNat?) (← n.toNat?))
  | ["newdata", v, d] => do pure (.ctorData (← v.toNat?) (← fromHex d))
  | ["copy", v, w] => do pure (.ctorCopy (← v.toNat?) (← w.toNat?))
  | ["attach", v, r, o, l] => do pure (.attach (← v.toNat?) (← r.toNat?) (← o.toNat?) (← l.toNat?))
  | ["assignb", v, w] => do pure (.assignBuf (← v.toNat?) (← w.toNat?))
  | ["assign", v, d] => do pure (.assignData (← v.toNat?) (← fromHex d))
  | ["prepend", v, d] => do pure (.prependData (← v.toNat?) (← fromHex d))
  | ["prependb", v, w] => do pure (.prependBuf (← v.toNat?) (← w.toNat?))
  | ["prependsub", v, o, l] => do pure (.prependSub (← v.toNat?) (← o.toNat?) (← l.toNat?))
  | ["appendsub", v, o, l] => do pure (.appendSub (← v.toNat?) (← o.toNat?) (← l.toNat?))
  | ["assignsub", v, o, l] => do pure (.assignSub (← v.toNat?) (← o.toNat?) (← l.toNat?))
  | ["append", v, d] => do pure (.appendData (← v.toNat?) (← fromHex d))
  | ["appendb", v, w] => do pure (.appendBuf (← v.toNat?) (← w.toNat?))
  | ["resize", v, n] => do pure (.resize (← v.toNat?) (← n.toNat?))
  | ["removeFront", v, n] => do pure (.removeFront (← v.toNat?) (← n.toNat?))
  | ["removeBack", v, n] => do pure (.removeBack (← v.toNat?) (← n.toNat?))
  | ["reserve", v, n] => do pure (.reserve (← v.toNat?) (← n.toNat?))
  | ["clear", v] => do pure (.clear (← v.toNat?))
  | ["swap", v, w] => do pure (.swap (← v.toNat?) (← w.toNat?))
  | ["free", v] => do pure (.free (← v.toNat?))
  | _ => none

def stdLine (st : State) (k : Nat) (ws : List String) : State × String :=
  match parseOp ws with
  | none => (st, "bad-op")
  | some op =>
    match step st k op with
    | some st' => (st', obs st')
    | none => (init0, "FAULT")

/-- `prependraw|appendraw|assignraw v off n`: a `(pointer, size)` argument anywhere in the variable's own allocation, given
    by its offset from `buffer` and clamped to the allocation (non-owning: offset from `bufferStart`, clamped to the
    exposed bytes) – the same resolution the harness does on the real object.  The observation ends in ` ~ back fwd len`. -/
def rawLine (st : State) (k : Nat) (kind : String) (v off n : Nat) : State × String :=
  match st.getBuf v with
  | none => (st, "bad-op")
  | some b =>
    let blockLen := if b.owning then b.cap + 1 else b.e - b.s
    let s := if b.owning then b.s else 0
    let off := if off < blockLen then off else blockLen
    let n := if n < blockLen - off then n else blockLen - off
    let back := if off < s then s - off else 0
    let fwd := if off > s then off - s else 0
    let r := if kind == "prependraw" then RawOp.prepend v back fwd n
      else if kind == "appendraw" then RawOp.append v back fwd n else RawOp.assign v back fwd n
    match stepRaw st k r with
    | some st' => (st', obs st' ++ s!" ~ {back} {fwd} {n}")
    | none => (init0, "FAULT")

def stepLine (st : State) (ws : List String) : State × String :=
  match ws with
  | ["reset"] => (init0, obs init0)
  | ["eq", v, w] =>
    match v.toNat?, w.toNat? with
    | some v, some w =>
      (st, match equalBufs st v w with | some b => s!"eq {if b then 1 else 0}" | none => "FAULT")
    | _, _ => (st, "bad-op")
  | ["heap"] =>
    -- number of live allocations (`new char[]` not yet `delete[]`d)
    (st, s!"heap {st.led.live.length}")
  | ["state", v] =>
    -- white-box view of one variable: size, _capacity, head-room and where the pointers point
    match v.toNat? with
    | some v =>
      (st, match st.getBuf v with
        | some b =>
          (match b.store with
          | .own _ _ => s!"state {b.e - b.s} {b.cap} {b.s} own"
          | .att _ => s!"state {b.e - b.s} {b.cap} - att"
          | .dflt c => s!"state {b.e - b.s} {b.cap} - {if c == v then "dflt" else "stale"}") ++
            s!" size={b.size} empty={if b.isEmpty then 1 else 0} capacity={b.cap}"
        | none => "bad-op")
    | none => (st, "bad-op")
  | _ =>
    -- an optional last token `cap=<n>`: the capacity the implementation reports after this operation
    let (ws, k) := match ws.getLast? with
      | some t => if t.startsWith "cap=" then (ws.dropLast, ((t.drop 4).toNat?).getD 0) else (ws, 0)
      | none => (ws, 0)
    match ws with
    | [kind, v, off, n] =>
      if kind == "prependraw" || kind == "appendraw" || kind == "assignraw" then
        match v.toNat?, off.toNat?, n.toNat? with
        | some v, some off, some n => rawLine st k kind v off n
        | _, _, _ => (st, "bad-op")
      else stdLine st k ws
    | _ => stdLine st k ws

/-! ### the backlog-client stream (harness/buffer_backlog.cpp: the real `ClientImpl::write` and write-readiness handler of
    Server.cpp with `send` scripted).  Variables 0 and 1 are the `_sendBuffer`s of two clients.
      `cw c <hex> <outcome>`  – `client c .write(data, size)`;   `cr c <outcome>` – one write-readiness event of client `c`
    `<outcome>` = what `send` answers should it be called: `wb`, `err` or the number of bytes it accepts.
    Observation: `<result> | <client 0> | <client 1>`, a client = `size bytes owned term cap=<_capacity> hr=<head-room|-> <kind>`
    or `dead` once it was closed. -/

def dinit : DState := cinit 2 regionInit

def parseOutcome (t : String) : Option Outcome :=
  if t == "wb" then some .wb else if t == "err" then some .err else t.toNat?.map .cnt

def clientObs (d : DState) (c : Nat) : String :=
  if d.dead.getD c true then "dead" else
  match d.st.getBuf c with
  | none => "bad"
  | some b =>
    obsVar d.st c ++ s!" cap={b.cap} " ++
      (match b.store with
        | .own _ _ => s!"hr={b.s} own"
        | .att _ => "hr=- att"
        | .dflt x => if x == c then "hr=- dflt" else "hr=- stale")

def sendStr (offered : Nat) (o : Outcome) : Option Nat → String
  | none => "send=-"
  | some k => match o with
    | .wb => s!"send={offered}>wb"
    | .err => s!"send={offered}>err"
    | .cnt _ => s!"send={offered}>{k}"

/-- executes `clientStep` (Client.lean – the function `client_backlog_faithful` speaks about) and prints its result -/
def clientEvent (d : DState) (k c : Nat) (ev : CEv) : DState × String :=
  let fin (d : DState) (res : String) := (d, res ++ " | " ++ clientObs d 0 ++ " | " ++ clientObs d 1)
  if c ≥ 2 then (d, "bad-op") else
  match clientStep d k c ev with
  | none => (dinit, "FAULT")
  | some (d', r) =>
    match r, ev with
    | .dead, _ => fin d' "dead"
    | .idle, _ => fin d' "idle"
    | .wrote closing sent post, .write data o =>
      fin d' s!"ret={if closing then 0 else 1} post={post} {sendStr data.length o sent}"
    | .readied closed sent onWrite offered, .ready o =>
      fin d' s!"cb={if closed then "C" else if onWrite then "W" else "-"} {sendStr offered o sent}"
    | _, _ => (d, "bad-op")

def clientLine (d : DState) (k : Nat) (ws : List String) : DState × String :=
  match ws with
  | ["cw", c, hex, o] =>
    match c.toNat?, fromHex hex, parseOutcome o with
    | some c, some data, some o => clientEvent d k c (.write data o)
    | _, _, _ => (d, "bad-op")
  | ["cr", c, o] =>
    match c.toNat?, parseOutcome o with
    | some c, some o => clientEvent d k c (.ready o)
    | _, _ => (d, "bad-op")
  | _ => (d, "bad-op")

def dstepLine (d : DState) (ws : List String) : DState × String :=
  match ws with
  | ["reset"] => (dinit, obs init0)
  | "cw" :: _ | "cr" :: _ =>
    -- an optional last token `cap=<n>`: the capacity the implementation reports for the client's Buffer after the op
    let (ws, k) := match ws.getLast? with
      | some t => if t.startsWith "cap=" then (ws.dropLast, ((t.drop 4).toNat?).getD 0) else (ws, 0)
      | none => (ws, 0)
    clientLine d k ws
  | _ =>
    let (st', out) := stepLine d.st ws
    ({ d with st := st' }, out)

end Nstd.Buffer

def main : IO Unit := Nstd.Common.ioLoop Nstd.Buffer.dinit Nstd.Buffer.dstepLine
