import Nstd.Buffer.PropsTr
/-
  Property C08, tie by translation (continued): both `append` overloads.  See PropsTr.lean.
-/
namespace Nstd.Buffer
open C

set_option maxHeartbeats 2000000 in
/-- `append(const Buffer& data)`, `data` another object with exposed bytes `data` -/
theorem tr_appendBuf (v w : Nat) (b : Buf) (hb : BInv v b) (L : Ledger) (hl : LiveIn b L) (hbd : Bounded L)
    (data : List Byte) (lo : Bool) (ob : Ptr) (oc : Nat) :
    (Gen.appendBuf v (objOf b) w (argObj lo data ob oc) (heapOf b L data)).map out =
      (b.append data (capOf (Gen.appendBuf v (objOf b) w (argObj lo data ob oc) (heapOf b L data))) L).map outB := by
  obtain ⟨st, s, e, cap⟩ := b
  cases st with
  | own id m =>
    own_setup hb hl hbd
    by_cases h1 : e - s + data.length > cap
    · by_cases h2 : e - s < e - s + data.length
      · tr_simp [Buf.append, Buf.resize, argObj]
      · have h3 : data.length = 0 := by omega
        exfalso; omega
    · have hx : data.length ≤ s + (e - s + data.length) := by omega
      by_cases h3 : s + (e - s + data.length) ≤ cap <;> tr_simp [Buf.append, Buf.resize, argObj]
  | att m =>
    simp only [BInv] at hb
    obtain ⟨rfl, hse, hem⟩ := hb
    have hsm : s ≤ m.length := by omega
    by_cases hd : data = []
    · subst hd
      by_cases h1 : e - s > 0 <;> tr_simp [Buf.append, Buf.resize, argObj]
    · have hpos : data.length > 0 := List.length_pos_iff.2 hd
      have h1 : e - s + data.length > 0 := by omega
      have h2 : e - s < e - s + data.length := by omega
      tr_simp [Buf.append, Buf.resize, argObj]
  | dflt c =>
    simp only [BInv] at hb
    obtain ⟨rfl, rfl, rfl, rfl⟩ := hb
    by_cases h1 : data.length > 0
    · tr_simp [Buf.append, Buf.resize, argObj]
    · have h4 : data = [] := List.eq_nil_of_length_eq_zero (by omega)
      subst h4
      tr_simp [Buf.append, Buf.resize, argObj]

set_option maxHeartbeats 2000000 in
/-- `append(data, size)` with `data` outside the object: the copy-first test and `inside` are false, then as `append(const Buffer&)` -/
theorem tr_append (v t : Nat) (b : Buf) (hb : BInv v b) (L : Ledger) (hl : LiveIn b L) (hbd : Bounded L)
    (data : List Byte) (lo : Bool) :
    (Gen.append v t (objOf b) (argPtr lo) data.length (heapOf b L data)).map out =
      (b.append data (capOf (Gen.append v t (objOf b) (argPtr lo) data.length (heapOf b L data))) L).map outB := by
  obtain ⟨st, s, e, cap⟩ := b
  cases st with
  | own id m =>
    own_setup hb hl hbd
    by_cases h1 : e - s + data.length > cap
    · by_cases h2 : e - s < e - s + data.length
      · cases lo <;> (unfold Gen.append; simp only [objOf, argPtr, branch, band, bor, truthy, pge, ple, plt, pgt, prel, padd, bind, pure, val, Option.map, reduceCtorEq, if_false, if_true, decide_true, decide_false, Nat.not_lt_zero, Nat.le_zero_eq, Nat.one_ne_zero, Nat.zero_lt_one, Bool.false_eq_true]; tr_simp [Buf.append, Buf.resize])
      · have h3 : data.length = 0 := by omega
        exfalso; omega
    · have hx : data.length ≤ s + (e - s + data.length) := by omega
      by_cases h3 : s + (e - s + data.length) ≤ cap <;> cases lo <;> (unfold Gen.append; simp only [objOf, argPtr, branch, band, bor, truthy, pge, ple, plt, pgt, prel, padd, bind, pure, val, Option.map, reduceCtorEq, if_false, if_true, decide_true, decide_false, Nat.not_lt_zero, Nat.le_zero_eq, Nat.one_ne_zero, Nat.zero_lt_one, Bool.false_eq_true]; tr_simp [Buf.append, Buf.resize])
  | att m =>
    simp only [BInv] at hb
    obtain ⟨rfl, hse, hem⟩ := hb
    have hsm : s ≤ m.length := by omega
    by_cases hd : data = []
    · subst hd
      by_cases h1 : e - s > 0 <;> cases lo <;> (unfold Gen.append; simp only [objOf, argPtr, branch, band, bor, truthy, pge, ple, plt, pgt, prel, padd, bind, pure, val, Option.map, reduceCtorEq, if_false, if_true, decide_true, decide_false, Nat.not_lt_zero, Nat.le_zero_eq, Nat.one_ne_zero, Nat.zero_lt_one, Bool.false_eq_true]; tr_simp [Buf.append, Buf.resize])
    · have hpos : data.length > 0 := List.length_pos_iff.2 hd
      have h1 : e - s + data.length > 0 := by omega
      have h2 : e - s < e - s + data.length := by omega
      cases lo <;> (unfold Gen.append; simp only [objOf, argPtr, branch, band, bor, truthy, pge, ple, plt, pgt, prel, padd, bind, pure, val, Option.map, reduceCtorEq, if_false, if_true, decide_true, decide_false, Nat.not_lt_zero, Nat.le_zero_eq, Nat.one_ne_zero, Nat.zero_lt_one, Bool.false_eq_true]; tr_simp [Buf.append, Buf.resize])
  | dflt c =>
    simp only [BInv] at hb
    obtain ⟨rfl, rfl, rfl, rfl⟩ := hb
    by_cases h1 : data.length > 0
    · cases lo <;> (unfold Gen.append; simp only [objOf, argPtr, branch, band, bor, truthy, pge, ple, plt, pgt, prel, padd, bind, pure, val, Option.map, reduceCtorEq, if_false, if_true, decide_true, decide_false, Nat.not_lt_zero, Nat.le_zero_eq, Nat.one_ne_zero, Nat.zero_lt_one, Bool.false_eq_true]; tr_simp [Buf.append, Buf.resize])
    · have h4 : data = [] := List.eq_nil_of_length_eq_zero (by omega)
      subst h4
      cases lo <;> (unfold Gen.append; simp only [objOf, argPtr, branch, band, bor, truthy, pge, ple, plt, pgt, prel, padd, bind, pure, val, Option.map, reduceCtorEq, if_false, if_true, decide_true, decide_false, Nat.not_lt_zero, Nat.le_zero_eq, Nat.one_ne_zero, Nat.zero_lt_one, Bool.false_eq_true]; tr_simp [Buf.append, Buf.resize])

end Nstd.Buffer
