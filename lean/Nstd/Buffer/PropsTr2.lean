import Nstd.Buffer.PropsTr
/-
  Property C08, tie by translation (continued): both `append` overloads.  See PropsTr.lean.  The generated run is computed once
  (`tr_once`), one lemma per ownership state so that every declaration stays within the default heartbeat budget.
-/
namespace Nstd.Buffer
open C

theorem tr_appendBuf_own_grow (v w : Nat) (id : Nat) (m : List Byte) (s e cap : Nat) (L : Ledger)
    (hb : BInv v ⟨.own id m, s, e, cap⟩) (hl : LiveIn ⟨.own id m, s, e, cap⟩ L) (hbd : Bounded L) (data : List Byte) (lo : Bool) (ob : Ptr) (oc : Nat) :
    e - s + data.length > cap →
    (Gen.appendBuf v (objOf ⟨.own id m, s, e, cap⟩) w (argObj lo data ob oc) (heapOf ⟨.own id m, s, e, cap⟩ L data)).map out =
      (Buf.append ⟨.own id m, s, e, cap⟩ data (capOf (Gen.appendBuf v (objOf ⟨.own id m, s, e, cap⟩) w (argObj lo data ob oc) (heapOf ⟨.own id m, s, e, cap⟩ L data))) L).map outB := by
  own_setup hb hl hbd
  generalize hG : Gen.appendBuf _ _ _ _ _ = g
  intro h1
  have h2 : e - s < e - s + data.length := by omega
  tr_once [Buf.append, Buf.resize, argObj]
theorem tr_appendBuf_own_fits (v w : Nat) (id : Nat) (m : List Byte) (s e cap : Nat) (L : Ledger)
    (hb : BInv v ⟨.own id m, s, e, cap⟩) (hl : LiveIn ⟨.own id m, s, e, cap⟩ L) (hbd : Bounded L) (data : List Byte) (lo : Bool) (ob : Ptr) (oc : Nat) :
    ¬ e - s + data.length > cap →
    (Gen.appendBuf v (objOf ⟨.own id m, s, e, cap⟩) w (argObj lo data ob oc) (heapOf ⟨.own id m, s, e, cap⟩ L data)).map out =
      (Buf.append ⟨.own id m, s, e, cap⟩ data (capOf (Gen.appendBuf v (objOf ⟨.own id m, s, e, cap⟩) w (argObj lo data ob oc) (heapOf ⟨.own id m, s, e, cap⟩ L data))) L).map outB := by
  own_setup hb hl hbd
  generalize hG : Gen.appendBuf _ _ _ _ _ = g
  intro h1
  have hx : data.length ≤ s + (e - s + data.length) := by omega
  by_cases h3 : s + (e - s + data.length) ≤ cap
  · tr_once [Buf.append, Buf.resize, argObj]
  · tr_once [Buf.append, Buf.resize, argObj]
theorem tr_appendBuf_att (v w : Nat) (m : List Byte) (s e cap : Nat) (L : Ledger)
    (hb : BInv v ⟨.att m, s, e, cap⟩) (hl : LiveIn ⟨.att m, s, e, cap⟩ L) (hbd : Bounded L) (data : List Byte) (lo : Bool) (ob : Ptr) (oc : Nat) :
    (Gen.appendBuf v (objOf ⟨.att m, s, e, cap⟩) w (argObj lo data ob oc) (heapOf ⟨.att m, s, e, cap⟩ L data)).map out =
      (Buf.append ⟨.att m, s, e, cap⟩ data (capOf (Gen.appendBuf v (objOf ⟨.att m, s, e, cap⟩) w (argObj lo data ob oc) (heapOf ⟨.att m, s, e, cap⟩ L data))) L).map outB := by
  simp only [BInv] at hb
  obtain ⟨rfl, hse, hem⟩ := hb
  have hsm : s ≤ m.length := by omega
  generalize hG : Gen.appendBuf _ _ _ _ _ = g
  by_cases hd : data = []
  · subst hd
    by_cases h1 : e - s > 0
    · tr_once [Buf.append, Buf.resize, argObj]
    · tr_once [Buf.append, Buf.resize, argObj]
  · have hpos : data.length > 0 := List.length_pos_iff.2 hd
    have h1 : e - s + data.length > 0 := by omega
    have h2 : e - s < e - s + data.length := by omega
    tr_once [Buf.append, Buf.resize, argObj]
theorem tr_appendBuf_dflt (v w : Nat) (c s e cap : Nat) (L : Ledger)
    (hb : BInv v ⟨.dflt c, s, e, cap⟩) (hl : LiveIn ⟨.dflt c, s, e, cap⟩ L) (hbd : Bounded L) (data : List Byte) (lo : Bool) (ob : Ptr) (oc : Nat) :
    (Gen.appendBuf v (objOf ⟨.dflt c, s, e, cap⟩) w (argObj lo data ob oc) (heapOf ⟨.dflt c, s, e, cap⟩ L data)).map out =
      (Buf.append ⟨.dflt c, s, e, cap⟩ data (capOf (Gen.appendBuf v (objOf ⟨.dflt c, s, e, cap⟩) w (argObj lo data ob oc) (heapOf ⟨.dflt c, s, e, cap⟩ L data))) L).map outB := by
  simp only [BInv] at hb
  obtain ⟨rfl, rfl, rfl, rfl⟩ := hb
  generalize hG : Gen.appendBuf _ _ _ _ _ = g
  by_cases h1 : data.length > 0
  · tr_once [Buf.append, Buf.resize, argObj]
  · have h4 : data = [] := List.eq_nil_of_length_eq_zero (by omega)
    subst h4
    tr_once [Buf.append, Buf.resize, argObj]
/-- `append(const Buffer& data)`, `data` another object with exposed bytes `data` -/
theorem tr_appendBuf (v w : Nat) (b : Buf) (hb : BInv v b) (L : Ledger) (hl : LiveIn b L) (hbd : Bounded L)
    (data : List Byte) (lo : Bool) (ob : Ptr) (oc : Nat) :
    (Gen.appendBuf v (objOf b) w (argObj lo data ob oc) (heapOf b L data)).map out =
      (b.append data (capOf (Gen.appendBuf v (objOf b) w (argObj lo data ob oc) (heapOf b L data))) L).map outB := by
  obtain ⟨st, s, e, cap⟩ := b
  cases st with
  | own id m =>
    by_cases h1 : e - s + data.length > cap
    · exact tr_appendBuf_own_grow v w id m s e cap L hb hl hbd data lo ob oc h1
    · exact tr_appendBuf_own_fits v w id m s e cap L hb hl hbd data lo ob oc h1
  | att m => exact tr_appendBuf_att v w m s e cap L hb hl hbd data lo ob oc
  | dflt c => exact tr_appendBuf_dflt v w c s e cap L hb hl hbd data lo ob oc

theorem tr_append_own_grow (v w : Nat) (id : Nat) (m : List Byte) (s e cap : Nat) (L : Ledger)
    (hb : BInv v ⟨.own id m, s, e, cap⟩) (hl : LiveIn ⟨.own id m, s, e, cap⟩ L) (hbd : Bounded L) (data : List Byte) (lo : Bool) :
    e - s + data.length > cap →
    (Gen.append v w (objOf ⟨.own id m, s, e, cap⟩) (argPtr lo) data.length (heapOf ⟨.own id m, s, e, cap⟩ L data)).map out =
      (Buf.append ⟨.own id m, s, e, cap⟩ data (capOf (Gen.append v w (objOf ⟨.own id m, s, e, cap⟩) (argPtr lo) data.length (heapOf ⟨.own id m, s, e, cap⟩ L data))) L).map outB := by
  own_setup hb hl hbd
  generalize hG : Gen.append _ _ _ _ _ _ = g
  intro h1
  have h2 : e - s < e - s + data.length := by omega
  cases lo <;> tr_once [Buf.append, Buf.resize, argPtr]
theorem tr_append_own_fits (v w : Nat) (id : Nat) (m : List Byte) (s e cap : Nat) (L : Ledger)
    (hb : BInv v ⟨.own id m, s, e, cap⟩) (hl : LiveIn ⟨.own id m, s, e, cap⟩ L) (hbd : Bounded L) (data : List Byte) (lo : Bool) :
    ¬ e - s + data.length > cap →
    (Gen.append v w (objOf ⟨.own id m, s, e, cap⟩) (argPtr lo) data.length (heapOf ⟨.own id m, s, e, cap⟩ L data)).map out =
      (Buf.append ⟨.own id m, s, e, cap⟩ data (capOf (Gen.append v w (objOf ⟨.own id m, s, e, cap⟩) (argPtr lo) data.length (heapOf ⟨.own id m, s, e, cap⟩ L data))) L).map outB := by
  own_setup hb hl hbd
  generalize hG : Gen.append _ _ _ _ _ _ = g
  intro h1
  have hx : data.length ≤ s + (e - s + data.length) := by omega
  by_cases h3 : s + (e - s + data.length) ≤ cap
  · cases lo <;> tr_once [Buf.append, Buf.resize, argPtr]
  · cases lo <;> tr_once [Buf.append, Buf.resize, argPtr]
theorem tr_append_att (v w : Nat) (m : List Byte) (s e cap : Nat) (L : Ledger)
    (hb : BInv v ⟨.att m, s, e, cap⟩) (hl : LiveIn ⟨.att m, s, e, cap⟩ L) (hbd : Bounded L) (data : List Byte) (lo : Bool)  :
    (Gen.append v w (objOf ⟨.att m, s, e, cap⟩) (argPtr lo) data.length (heapOf ⟨.att m, s, e, cap⟩ L data)).map out =
      (Buf.append ⟨.att m, s, e, cap⟩ data (capOf (Gen.append v w (objOf ⟨.att m, s, e, cap⟩) (argPtr lo) data.length (heapOf ⟨.att m, s, e, cap⟩ L data))) L).map outB := by
  simp only [BInv] at hb
  obtain ⟨rfl, hse, hem⟩ := hb
  have hsm : s ≤ m.length := by omega
  generalize hG : Gen.append _ _ _ _ _ _ = g
  by_cases hd : data = []
  · subst hd
    by_cases h1 : e - s > 0
    · cases lo <;> tr_once [Buf.append, Buf.resize, argPtr]
    · cases lo <;> tr_once [Buf.append, Buf.resize, argPtr]
  · have hpos : data.length > 0 := List.length_pos_iff.2 hd
    have h1 : e - s + data.length > 0 := by omega
    have h2 : e - s < e - s + data.length := by omega
    cases lo <;> tr_once [Buf.append, Buf.resize, argPtr]
theorem tr_append_dflt (v w : Nat) (c s e cap : Nat) (L : Ledger)
    (hb : BInv v ⟨.dflt c, s, e, cap⟩) (hl : LiveIn ⟨.dflt c, s, e, cap⟩ L) (hbd : Bounded L) (data : List Byte) (lo : Bool)  :
    (Gen.append v w (objOf ⟨.dflt c, s, e, cap⟩) (argPtr lo) data.length (heapOf ⟨.dflt c, s, e, cap⟩ L data)).map out =
      (Buf.append ⟨.dflt c, s, e, cap⟩ data (capOf (Gen.append v w (objOf ⟨.dflt c, s, e, cap⟩) (argPtr lo) data.length (heapOf ⟨.dflt c, s, e, cap⟩ L data))) L).map outB := by
  simp only [BInv] at hb
  obtain ⟨rfl, rfl, rfl, rfl⟩ := hb
  generalize hG : Gen.append _ _ _ _ _ _ = g
  by_cases h1 : data.length > 0
  · cases lo <;> tr_once [Buf.append, Buf.resize, argPtr]
  · have h4 : data = [] := List.eq_nil_of_length_eq_zero (by omega)
    subst h4
    cases lo <;> tr_once [Buf.append, Buf.resize, argPtr]
/-- `append(data, size)` with `data` outside the object: the copy-first test and `inside` are false, then as `append(const Buffer&)` -/
theorem tr_append (v w : Nat) (b : Buf) (hb : BInv v b) (L : Ledger) (hl : LiveIn b L) (hbd : Bounded L)
    (data : List Byte) (lo : Bool)  :
    (Gen.append v w (objOf b) (argPtr lo) data.length (heapOf b L data)).map out =
      (b.append data (capOf (Gen.append v w (objOf b) (argPtr lo) data.length (heapOf b L data))) L).map outB := by
  obtain ⟨st, s, e, cap⟩ := b
  cases st with
  | own id m =>
    by_cases h1 : e - s + data.length > cap
    · exact tr_append_own_grow v w id m s e cap L hb hl hbd data lo h1
    · exact tr_append_own_fits v w id m s e cap L hb hl hbd data lo h1
  | att m => exact tr_append_att v w m s e cap L hb hl hbd data lo
  | dflt c => exact tr_append_dflt v w c s e cap L hb hl hbd data lo

end Nstd.Buffer
