import Nstd.Buffer.PropsTr
/-
  Property C08, tie by translation (continued): both `append` overloads.  See PropsTr.lean.
-/
namespace Nstd.Buffer
open C

/-- `append(const Buffer& data)`, `data` another object with exposed bytes `data` -/
theorem tr_appendBuf (v w : Nat) (b : Buf) (hb : BInv v b) (L : Ledger) (hl : LiveIn b L) (hbd : Bounded L)
    (data : List Byte) (lo : Bool) (ob : Ptr) (oc : Nat) :
    (Gen.appendBuf v (objOf b) w (argObj lo data ob oc) (heapOf b L data)).map out = (b.append data 0 L).map outB := by
  obtain ⟨st, s, e, cap⟩ := b
  cases st with
  | own id m =>
    own_setup hb hl hbd
    by_cases h1 : e - s + data.length > cap
    · by_cases h2 : e - s < e - s + data.length
      · tr_simp [Gen.appendBuf, Gen.resize, Buf.append, Buf.resize, argObj]
      · have h3 : data.length = 0 := by omega
        exfalso; omega
    · have hx : data.length ≤ s + (e - s + data.length) := by omega
      by_cases h3 : s + (e - s + data.length) ≤ cap <;> tr_simp [Gen.appendBuf, Gen.resize, Buf.append, Buf.resize, argObj]
  | att m =>
    simp only [BInv] at hb
    obtain ⟨rfl, hse, hem⟩ := hb
    have hsm : s ≤ m.length := by omega
    by_cases hd : data = []
    · subst hd
      by_cases h1 : e - s > 0 <;> tr_simp [Gen.appendBuf, Gen.resize, Buf.append, Buf.resize, argObj]
    · have hpos : data.length > 0 := List.length_pos_iff.2 hd
      have h1 : e - s + data.length > 0 := by omega
      have h2 : e - s < e - s + data.length := by omega
      tr_simp [Gen.appendBuf, Gen.resize, Buf.append, Buf.resize, argObj]
  | dflt c =>
    simp only [BInv] at hb
    obtain ⟨rfl, rfl, rfl, rfl⟩ := hb
    by_cases h1 : data.length > 0
    · tr_simp [Gen.appendBuf, Gen.resize, Buf.append, Buf.resize, argObj]
    · have h4 : data = [] := List.eq_nil_of_length_eq_zero (by omega)
      subst h4
      tr_simp [Gen.appendBuf, Gen.resize, Buf.append, Buf.resize, argObj]

/-
  OPEN: the same equality for `append(const byte* data, usize size)` –
    theorem tr_append … : (Gen.append v t (objOf b) (argPtr lo) data.length (heapOf b L data)).map out = (b.append data 0 L).map outB
  The body IS translated (Gen.append, incl. the copy-first path `return append(Buffer(data, size))` through the generated
  constructor / append(const Buffer&) / destructor) and re-generated on every run, but the symbolic execution of its three
  large branches exceeds the proof budget of this round; the method is tied by the correspondence run as before.
-/

end Nstd.Buffer
