import Nstd.Buffer.Props
import Nstd.Buffer.Backlog
import Nstd.Buffer.LemmasRaw
/-
  Property C08, client level: the send backlog of a server client (src/Socket/Server.cpp:343-357,459-475).

  `Server::Client::write` appends the part of the data that `send` did not accept to `_sendBuffer`
  (`_sendBuffer.append(data + sent, size - sent)`), the write-readiness handler sends the backlog and removes what was
  accepted (`_sendBuffer.removeFront(sent)`, `sent ≤ _sendBuffer.size()`), and `free()` (or `clear()`) drops the storage
  when the backlog has drained or the client is closed.  `_sendBuffer` is a default-constructed `Buffer` member.

  `backlog_faithful`: for EVERY sequence of these operations (any chunk sizes, any accepted counts, any capacity
  policy) the Buffer model does not fault, exposes exactly the bytes handed to it that have not been sent yet, keeps
  its terminator, and its capacity is bounded by the high-water mark of the number of unsent bytes (and the capacity
  wishes): a window that slides through the allocation is moved to the front (compact-to-front branch of `resize`),
  it does not make the allocation grow.
-/
namespace Nstd.Buffer

/-- **The send backlog is faithful.**  `nvars` default-constructed Buffers; on variable `v` any sequence of
    `append chunk` / `removeFront k` (`k ≤ size()`) / `clear` / `free`, each with any capacity wish of the environment:
    the model does not fault, the Buffer exposes exactly the unsent suffix of the concatenation of the appended chunks,
    `size()` is its length, an owning Buffer keeps the terminating zero, and the capacity never exceeds the high-water
    mark of the unsent bytes (or the largest capacity wish; with today's policy – all wishes 0 – the high-water mark
    itself), however many bytes have passed through the backlog. -/
theorem backlog_faithful (nvars : Nat) (regs : List (List Byte)) (v : Nat) (hv : v < nvars) (bs : List (BOp × Nat))
    (hadm : Admissible {} (bs.map Prod.fst)) :
    ∃ st b, run (init nvars regs) (backlogOps v bs) = some st ∧ st.getBuf v = some b ∧
      contents st v = some (bytesOf (trackAll {} (bs.map Prod.fst)).unsent) ∧
      b.size = (trackAll {} (bs.map Prod.fst)).unsent.length ∧
      (b.owning = true → Nstd.Buffer.terminator st v = some (some (some 0))) ∧
      b.cap ≤ max (trackAll {} (bs.map Prod.fst)).peak (wishMax bs) := by
  have hwf : ∀ p ∈ backlogOps v bs, WFOp nvars regs p.1 := by
    intro p hp
    simp only [backlogOps, List.mem_map] at hp
    obtain ⟨q, _, rfl⟩ := hp
    cases h : q.1 <;> simpa [BOp.op, WFOp, h] using hv
  obtain ⟨st, hrun⟩ := no_fault nvars regs (backlogOps v bs) hwf
  have hsp := spec_backlog regs v bs (Spec.init nvars) {} (by simpa [Spec.init] using hv) (Nat.le_refl _)
    (by simp [Spec.get, Spec.init, List.getD_eq_getElem?_getD, hv, Track.unsent, bytesOf]) hadm
  obtain ⟨c, hc, hm⟩ := refines nvars regs (backlogOps v bs) st hrun v hv
  rw [hsp.1] at hm
  have hceq := match_bytesOf_eq hm
  have hp := run_post (backlogOps v bs) (qs := Spec.init nvars) (init_inv nvars regs) (init_rel nvars regs) hrun
  have hlen : st.bufs.length = nvars := by simpa [init] using hp.2.2.2
  have hb : st.getBuf v = some st.bufs[v] := List.getElem?_eq_getElem (hlen ▸ hv)
  obtain ⟨c', hc', hsz, _⟩ := observers_agree nvars regs (backlogOps v bs) st hrun v _ hb
  rw [hc] at hc'
  cases hc'
  refine ⟨st, _, hrun, hb, hceq ▸ hc, ?_, fun ho => terminator_zero nvars regs _ st hrun v _ hb ho, ?_⟩
  · rw [hsz, hceq]; simp [bytesOf]
  · exact Nat.le_trans (capacity_policy_bound nvars regs _ st hrun v _ hb) hsp.2

/-- **Several clients, interleaved.**  Any number of clients (variables), each with its own send backlog; any
    interleaving of their `append | removeFront k≤size | clear | free` operations with any capacity wishes: the model
    does not fault and EVERY client's Buffer exposes exactly ITS unsent suffix, keeps its terminator, and its capacity is
    bounded by ITS OWN high-water mark (and its own largest wish) – the other clients' traffic does not matter. -/
theorem backlog_faithful_multi (nvars : Nat) (regs : List (List Byte)) (ops : List MOp)
    (hvs : ∀ p ∈ ops, p.1 < nvars) (hadm : ∀ v, Admissible {} ((proj v ops).map Prod.fst)) :
    ∃ st, run (init nvars regs) (mops ops) = some st ∧ ∀ v, v < nvars → ∃ b, st.getBuf v = some b ∧
      contents st v = some (bytesOf (trackAll {} ((proj v ops).map Prod.fst)).unsent) ∧
      b.size = (trackAll {} ((proj v ops).map Prod.fst)).unsent.length ∧
      (b.owning = true → Nstd.Buffer.terminator st v = some (some (some 0))) ∧
      b.cap ≤ max (trackAll {} ((proj v ops).map Prod.fst)).peak (wishMax (proj v ops)) := by
  have h0 : ∀ v b, (init nvars regs).bufs[v]? = some b →
      Spec.get (Spec.init nvars) v = bytesOf (({} : Track)).unsent ∧ ({} : Track).sent ≤ ({} : Track).all.length ∧
        b.cap ≤ max ({} : Track).peak 0 := by
    intro v b hb
    obtain ⟨hv, rfl⟩ := init_bufs nvars regs v b hb
    refine ⟨?_, Nat.le_refl _, by simp [Buf.default]⟩
    simp [Spec.get, Spec.init, List.getD_eq_getElem?_getD, hv, Track.unsent, bytesOf]
  obtain ⟨st, qs, hrun, hi, hr, hlen, hfin⟩ := multi_run ops (init nvars regs) (Spec.init nvars) (fun _ => {}) (fun _ => 0)
    (init_inv nvars regs) (init_rel nvars regs) (by simpa [init] using hvs) h0 hadm
  have hl : st.bufs.length = nvars := by simpa [init] using hlen
  refine ⟨st, hrun, fun v hv => ?_⟩
  have hvl : v < st.bufs.length := hl ▸ hv
  have hb : st.getBuf v = some st.bufs[v] := List.getElem?_eq_getElem hvl
  obtain ⟨hq, hcap⟩ := hfin v _ hb
  have hm := hr.2 v _ hb
  rw [hq] at hm
  have hd := match_bytesOf_eq hm
  have hc := contents_state hi hvl
  refine ⟨_, hb, hd ▸ hc, ?_, fun ho => terminator_of_inv hi hb ho, by simpa using hcap⟩
  rw [Buf.size, ← data_length (hi.1 v _ hb), hd]
  simp [bytesOf]

/-- **The client model performs only the backlog protocol.**  `writeOps` / `readyOps` (Client.lean) follow
    `ClientImpl::write` (Server.cpp:441-477) and the write-readiness branch of `run()` (Server.cpp:333-362) and are
    executed against the real code by the backlog-client stream (harness/buffer_backlog.cpp).  Whatever `send` answers:
    a write only appends; a write-readiness event only removes `sent ≤ size()` bytes at the front and/or frees – the
    operations `Admissible` allows – and never touches an empty backlog other than by `free`. -/
theorem client_model_follows_protocol (size : Nat) (d : List Nat) (o : Outcome) :
    (∀ b ∈ (writeOps size d o).1, ∃ d', b = BOp.append d') ∧
    (∀ b ∈ (readyOps size o).1, b = BOp.free ∨ ∃ n, b = BOp.removeFront n ∧ 0 < n ∧ n ≤ size) := by
  constructor
  · intro b hb
    unfold writeOps at hb
    cases o <;> simp only [] at hb <;> (repeat' split at hb) <;> simp at hb <;> exact ⟨_, hb⟩
  · intro b hb
    unfold readyOps at hb
    cases o <;> simp only [] at hb <;> (repeat' split at hb) <;> simp at hb
    all_goals first
      | exact Or.inl hb
      | exact Or.inr ⟨_, hb, by omega, by omega⟩
      | (rcases hb with hb | hb
         · exact Or.inr ⟨_, hb, by omega, by omega⟩
         · exact Or.inl hb)

/-! ### non-vacuity -/

/-- a backlog history whose window slides through the allocation: 10 bytes, 6 sent, 5 more (compact to front: the
    capacity stays 10), 9 sent, free, 3 bytes -/
def exBacklog : List (BOp × Nat) :=
  [(.append [1, 2, 3, 4, 5, 6, 7, 8, 9, 10], 0), (.removeFront 6, 0), (.append [11, 12, 13, 14, 15], 0),
   (.removeFront 9, 0), (.append [16], 0)]

example : Admissible {} (exBacklog.map Prod.fst) := by
  simp [exBacklog, Admissible, track, Track.unsent]

/-- the hypotheses are met and the outcome is not trivial: 16 bytes went through, the unsent suffix is `[16]`, the
    high-water mark and the final capacity are 10 (the window was compacted, not reallocated: one allocation) -/
example : ∃ st b, run (init 1 []) (backlogOps 0 exBacklog) = some st ∧ st.getBuf 0 = some b ∧
    contents st 0 = some [some 16] ∧ (trackAll {} (exBacklog.map Prod.fst)).unsent = [16] ∧
    (trackAll {} (exBacklog.map Prod.fst)).peak = 10 ∧ b.cap = 10 ∧ st.led.next = 1 := by
  exact ⟨_, _, rfl, rfl, rfl, rfl, rfl, rfl, rfl⟩

/-- `Admissible` is needed: removing more than the backlog holds is not the protocol -/
example : ¬ Admissible {} [.append [1], .removeFront 2] := by
  simp [Admissible, track, Track.unsent]

end Nstd.Buffer
