import Nstd.Buffer.Backlog
import Nstd.Buffer.LemmasRaw
/-
  Whole client histories: the stream-conservation specification of a server client's send backlog (`CSt`, `cspecStep`,
  `cspecRun`) and the invariant that ties `clientStep` (Client.lean: the real code's two sites over the Buffer model) to it.
  Used by PropsClient.lean.
-/
namespace Nstd.Buffer

/-- what an observer of the byte stream knows about one client -/
structure CSt where
  /-- bytes written by the application and not yet accepted by `send` -/
  pending : List Nat := []
  /-- the connection was closed (`send` failed or accepted nothing) -/
  dead : Bool := false
  /-- high-water mark of `pending.length` -/
  peak : Nat := 0
  /-- largest capacity wish of the environment so far -/
  wish : Nat := 0
  deriving Repr

/-- how many of `offered` bytes `send` accepts -/
def Outcome.accepted (offered : Nat) : Outcome → Nat
  | .wb => 0
  | .err => 0
  | .cnt k => if k < offered then k else offered

/-- `send` reports an error, or accepts nothing without blocking: the connection is gone -/
def Outcome.closes (offered : Nat) : Outcome → Bool
  | .wb => false
  | .err => true
  | .cnt k => (if k < offered then k else offered) = 0

/-- stream conservation: `pending' = (pending ++ written).drop accepted`.  `send` is called by a write only when nothing is
    pending (it is then offered the data), by a write-readiness event only when something is pending (it is offered all of
    it); a failing `send` closes the client. -/
def cspecStep (s : CSt) (k : Nat) : CEv → CSt
  | .write d o =>
    if s.dead then s else
    if s.pending = [] then
      if o.closes d.length then { pending := [], dead := true, peak := s.peak, wish := max s.wish k }
      else
        let p := (s.pending ++ d).drop (o.accepted d.length)
        { pending := p, dead := false, peak := max s.peak p.length, wish := max s.wish k }
    else
      let p := s.pending ++ d
      { pending := p, dead := false, peak := max s.peak p.length, wish := max s.wish k }
  | .ready o =>
    if s.dead then s else
    if s.pending = [] then s else
    if o.closes s.pending.length then { pending := [], dead := true, peak := s.peak, wish := max s.wish k }
    else { pending := s.pending.drop (o.accepted s.pending.length), dead := false, peak := s.peak, wish := max s.wish k }

def cspecRun (S : Nat → CSt) : List (Nat × CEv × Nat) → Nat → CSt
  | [] => S
  | (c, ev, k) :: evs => cspecRun (fun v => if v = c then cspecStep (S c) k ev else S v) evs

/-- the track a client starts an event with: everything pending, nothing of it sent -/
def CSt.track (s : CSt) : Track := { all := s.pending, sent := 0, peak := s.peak }

/-- model state and stream view agree -/
structure CInv (n : Nat) (d : DState) (qs : List Spec.Queue) (S : Nat → CSt) : Prop where
  inv : Inv d.st
  rel : Rel qs d.st
  len : d.st.bufs.length = n
  dlen : d.dead.length = n
  vars : ∀ v b, d.st.bufs[v]? = some b → Spec.get qs v = bytesOf (S v).pending ∧ b.cap ≤ max (S v).peak (S v).wish ∧
    d.dead[v]? = some (S v).dead

theorem run_mops_eq (c k : Nat) : ∀ (bs : List BOp) (st : State),
    run st (mops (bs.map (fun b => (c, b, k)))) = runBOps st k c bs
  | [], st => rfl
  | b :: bs, st => by
    simp only [List.map_cons, mops, run, runBOps]
    cases h : step st k (b.op c) with
    | none => rfl
    | some st' =>
      have := run_mops_eq c k bs st'
      simp only [mops] at this
      simpa using this

theorem proj_single (c k v : Nat) (bs : List BOp) :
    proj v (bs.map (fun b => (c, b, k))) = if c = v then bs.map (fun b => (b, k)) else [] := by
  induction bs with
  | nil => simp [proj]
  | cons b bs ih =>
    simp only [List.map_cons, proj_cons, ih]
    by_cases h : c = v <;> simp [h]

theorem wishMax_const (k : Nat) (bs : List BOp) : wishMax (bs.map (fun b => (b, k))) ≤ k := by
  induction bs with
  | nil => simp [wishMax]
  | cons b bs ih => simp only [List.map_cons, wishMax]; omega

/-- the Buffer operations of one event of client `c`, run from a state that agrees with the stream view: no fault, and the
    state agrees with the stream view in which `c`'s pending bytes are the unsent suffix after those operations -/
theorem bops_ok {n : Nat} {d : DState} {qs : List Spec.Queue} {S : Nat → CSt} (h : CInv n d qs S) (c k : Nat) (hc : c < n)
    (bs : List BOp) (hadm : Admissible (S c).track bs) (s' : CSt) (dead' : List Bool)
    (hp : (trackAll (S c).track bs).unsent = s'.pending) (hpk : (trackAll (S c).track bs).peak ≤ s'.peak)
    (hw : max (S c).wish k ≤ s'.wish) (hdl : dead'.length = n)
    (hdead : ∀ v, dead'[v]? = if v = c then (if v < n then some s'.dead else none) else d.dead[v]?) :
    ∃ st' qs', runBOps d.st k c bs = some st' ∧
      CInv n { st := st', dead := dead' } qs' (fun v => if v = c then s' else S v) := by
  have hvs : ∀ p ∈ bs.map (fun b => (c, b, k)), p.1 < d.st.bufs.length := by
    intro p hp
    simp only [List.mem_map] at hp
    obtain ⟨_, _, rfl⟩ := hp
    exact h.len ▸ hc
  have hinv : ∀ v b, d.st.bufs[v]? = some b → Spec.get qs v = bytesOf ((S v).track).unsent ∧
      ((S v).track).sent ≤ ((S v).track).all.length ∧ b.cap ≤ max ((S v).track).peak ((S v).wish) := by
    intro v b hb
    obtain ⟨h1, h2, _⟩ := h.vars v b hb
    exact ⟨by simpa [CSt.track, Track.unsent] using h1, by simp [CSt.track], by simpa [CSt.track] using h2⟩
  have hadm' : ∀ v, Admissible ((S v).track) ((proj v (bs.map (fun b => (c, b, k)))).map Prod.fst) := by
    intro v
    rw [proj_single]
    by_cases hv : c = v
    · subst hv
      simpa [List.map_map, Function.comp_def] using hadm
    · simp [hv, Admissible]
  obtain ⟨st', qs', hrun, hi, hr, hl, hfin⟩ := multi_run (bs.map (fun b => (c, b, k))) d.st qs (fun v => (S v).track)
    (fun v => (S v).wish) h.inv h.rel hvs hinv hadm'
  rw [run_mops_eq] at hrun
  refine ⟨st', qs', hrun, ⟨hi, hr, hl.trans h.len, hdl, fun v b hb => ?_⟩⟩
  obtain ⟨f1, f2⟩ := hfin v b hb
  have hvn : v < n := by
    have : v < st'.bufs.length := by
      by_cases hlt : v < st'.bufs.length
      · exact hlt
      · simp [List.getElem?_eq_none (Nat.le_of_not_lt hlt)] at hb
    have := h.len
    omega
  rw [proj_single] at f1 f2
  by_cases hv : c = v
  · subst hv
    rw [if_pos rfl] at f1 f2
    have hmm : (bs.map (fun b => (b, k))).map Prod.fst = bs := by simp [List.map_map, Function.comp_def]
    rw [hmm] at f1 f2
    have hwm := wishMax_const k bs
    refine ⟨by simpa [hp] using f1, ?_, by simp [hdead, hvn]⟩
    simp only [if_true]
    omega
  · have hv' : ¬ v = c := fun e => hv e.symm
    rw [if_neg hv] at f1 f2
    simp only [List.map_nil, trackAll, wishMax] at f1 f2
    have hb0 : ∃ b0, d.st.bufs[v]? = some b0 := by
      have : v < d.st.bufs.length := by have := h.len; omega
      exact ⟨_, List.getElem?_eq_getElem this⟩
    obtain ⟨b0, hb0⟩ := hb0
    obtain ⟨_, _, g3⟩ := h.vars v b0 hb0
    refine ⟨by simpa [hv', CSt.track, Track.unsent] using f1, ?_, by simp [hdead, hv', g3]⟩
    simp only [hv', if_false]
    simp only [CSt.track] at f2
    omega

/-- `size()` of the model's Buffer is the number of pending bytes -/
theorem cinv_size {n : Nat} {d : DState} {qs : List Spec.Queue} {S : Nat → CSt} (h : CInv n d qs S) {c : Nat} {b : Buf}
    (hb : d.st.bufs[c]? = some b) : b.size = (S c).pending.length := by
  have hm := h.rel.2 c b hb
  rw [(h.vars c b hb).1] at hm
  rw [Buf.size, ← data_length (h.inv.1 c b hb), ← hm.length]
  simp [bytesOf]

end Nstd.Buffer
