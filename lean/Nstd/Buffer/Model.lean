/-
  Executable model of `Buffer` (include/nstd/Buffer.hpp), method by method and branch
  by branch, over *checked* memory.  Core Lean only (the compiled driver links this file).

  Every `Buffer` object owns its allocation exclusively (no sharing, no reference count),
  therefore the model gives every object its memory *by value*:

    * `own id m` – `buffer` points to block `id` made by `new char[m.length]`; `bufferStart`
                  and `bufferEnd` are the offsets `s`, `e` into that block
    * `att m`   – `buffer == 0`; `bufferStart`/`bufferEnd` are offsets into the *attached
                  range* (caller memory, `m` = its bytes).  The model has no way of
                  modifying attached memory: a store of ≥ 1 byte through such a pointer is
                  a fault
    * `dflt c`  – `buffer == 0`; `bufferStart`/`bufferEnd` point at the `_capacity` field
                  of Buffer variable `c` (the default state); only zero-length accesses
                  are allowed there

  Every load/store is validated against the extent of the block it goes to; a violation
  makes the operation return `none` (= fault), which is what the property's "never reads
  or writes outside its own allocation or the attached range" forbids.

  The methods taking `(const byte* data, usize size)` / `const Buffer& other` receive the
  bytes of the argument by value when the argument is not the object itself (an operation
  on variable `v` cannot change the memory of another variable, so the moment of reading
  does not matter); the alias cases `a = a`, `a.append(a)`, `a.prepend(a)` have dedicated
  functions (`assignSelf`, `appendSelf`, `prependSelf`, and `prependSub`/`appendSub`/`assignSub` for
  `a.prepend((const byte*)a + off, len)` etc.) that follow the same C++ text with
  the source pointer pointing into the object's own memory.

  Allocation ledger: every `new char[n]` takes a fresh block id from the `Ledger` and adds it
  to the set of live blocks, every `delete[]` removes the id (a `delete[]` of a block that is
  not live = double free = fault), and every load/store through an owned pointer checks that
  the block is still live (use of a freed block = fault).  All methods run in the monad
  `M α = Ledger → Option (α × Ledger)`; `new`, `delete[]` and the accesses appear in the order
  of the C++ text.  Not modelled: allocation failure.

  Capacity policy: *which* capacity a method gives the block it allocates is not part of the
  contract of Buffer (only: at least what the method needs).  Every allocating method therefore
  takes a parameter `k` (the capacity the environment asks for; `0` = no wish) and allocates
  `newCap required k = max required k` (+1 for the terminator).  With `k = 0` this is exactly
  what Buffer.hpp does today.  The theorems hold for every `k` at every step; the
  correspondence run passes the capacity the implementation reports after the operation, so the
  branch decisions of later operations (which depend on `_capacity`) follow the implementation.
-/
namespace Nstd.Buffer

/-- a byte of memory; `none` = unspecified (fresh allocation) -/
abbrev Byte := Option Nat

/-! ### checked memory blocks -/

def rdList (m : List Byte) (off n : Nat) : Option (List Byte) :=
  if off + n ≤ m.length then some ((m.drop off).take n) else none

def wrList (m : List Byte) (off : Nat) (d : List Byte) : Option (List Byte) :=
  if off + d.length ≤ m.length then some (m.take off ++ d ++ m.drop (off + d.length)) else none

/-- content of `new char[n]` -/
def fresh (n : Nat) : List Byte := List.replicate n none

/-! ### allocation ledger -/

/-- ids handed out so far are `< next`; `live` = blocks allocated and not yet deleted -/
structure Ledger where
  next : Nat
  live : List Nat
  deriving Repr, Inhabited

/-- computations over the ledger that may fault -/
def M (α : Type) : Type := Ledger → Option (α × Ledger)

instance : Monad M where
  pure a := fun L => some (a, L)
  bind x f := fun L =>
    match x L with
    | some (a, L') => f a L'
    | none => none

/-- a ledger-independent checked operation -/
def liftO {α : Type} (o : Option α) : M α := fun L => o.map (fun a => (a, L))

def fault {α : Type} : M α := fun _ => none

/-- `new char[...]`: a fresh block id -/
def allocId : M Nat := fun L => some (L.next, { next := L.next + 1, live := L.next :: L.live })

/-- an access through a pointer into block `id`: the block must be live -/
def checkLive (id : Nat) : M Unit := fun L => if id ∈ L.live then some ((), L) else none

/-- `delete[]` of block `id`: it must be live (otherwise double free) -/
def deleteId (id : Nat) : M Unit := fun L =>
  if id ∈ L.live then some ((), { L with live := L.live.filter (fun i => i != id) }) else none

inductive Store where
  | own (id : Nat) (m : List Byte)
  | att (m : List Byte)
  | dflt (cell : Nat)
  deriving Repr, Inhabited

/-- load `n` bytes at offset `off` of the block `bufferStart` points into -/
def Store.load : Store → Nat → Nat → M (List Byte)
  | .own id m, off, n => do checkLive id; liftO (rdList m off n)
  | .att m, off, n => liftO (rdList m off n)
  | .dflt _, _, n => if n = 0 then pure [] else fault   -- the capacity field is never read as data

/-- store `d` at offset `off` of the block `bufferStart` points into -/
def Store.write : Store → Nat → List Byte → M Store
  | .own id m, off, d => do
    checkLive id
    let m' ← liftO (wrList m off d)
    pure (.own id m')
  -- attached memory is never modified (a zero-length `memcpy` touches nothing)
  | .att m, off, d => if d.length = 0 ∧ off ≤ m.length then pure (.att m) else fault
  -- the capacity field is never written through a data pointer
  | .dflt c, _, d => if d.length = 0 then pure (.dflt c) else fault

/-- `delete[] (char*)buffer` (a null pointer is fine) -/
def Store.release : Store → M Unit
  | .own id _ => deleteId id
  | _ => pure ()

/-- `(byte*)new char[n]` -/
def newBlock (n : Nat) : M Store := do
  let id ← allocId
  pure (.own id (fresh n))

/-- one `Buffer` object: `buffer`/block, `bufferStart = block + s`, `bufferEnd = block + e`, `_capacity` -/
structure Buf where
  store : Store
  s : Nat
  e : Nat
  cap : Nat
  deriving Repr, Inhabited

/-- `buffer != 0` -/
def Buf.owning (b : Buf) : Bool :=
  match b.store with
  | .own _ _ => true
  | _ => false

/-- the id of the block `buffer` points to -/
def Buf.ownId (b : Buf) : Option Nat :=
  match b.store with
  | .own id _ => some id
  | _ => none

/-- `Memory::copy` = `memcpy`: source and destination ranges in the same block must not overlap -/
def noOverlap (dst src n : Nat) : Bool :=
  n = 0 || dst = src || dst + n ≤ src || src + n ≤ dst

/-- the capacity of a newly allocated block: what the method needs, or more if the environment asks for more -/
def newCap (required k : Nat) : Nat := max required k

/-- `p - n` on a pointer at offset `p` (leaving the block downwards is a fault) -/
def ptrSub (p n : Nat) : Option Nat := if n ≤ p then some (p - n) else none

/-! ### constructors / destructor -/

/-- `Buffer()` of variable `self` -/
def Buf.default (self : Nat) : Buf := { store := .dflt self, s := 0, e := 0, cap := 0 }

/-- `~Buffer()` -/
def Buf.destroy (b : Buf) : M Unit := b.store.release

/-- `Buffer(usize capacity)` -/
def Buf.ctorCap (capacity : Nat) (k : Nat) : M Buf := do
  let cap := newCap capacity k
  let st ← newBlock (cap + 1)
  let st ← st.write 0 [some 0]
  pure { store := st, s := 0, e := 0, cap := cap }

/-- `Buffer(const byte* data, usize size)`; also `Buffer(const Buffer& other)` with the
    bytes `[other.bufferStart, other.bufferEnd)` already loaded -/
def Buf.ctorData (data : List Byte) (k : Nat) : M Buf := do
  let size := data.length
  let cap := newCap size k
  let st ← newBlock (cap + 1)
  let st ← st.write 0 data
  let st ← st.write size [some 0]
  pure { store := st, s := 0, e := size, cap := cap }

/-- the exposed bytes `[bufferStart, bufferEnd)` (a checked load) -/
def Buf.contents (b : Buf) : M (List Byte) := b.store.load b.s (b.e - b.s)

/-- `size()`: `bufferEnd - bufferStart` -/
def Buf.size (b : Buf) : Nat := b.e - b.s

/-- `isEmpty()`: `bufferStart == bufferEnd` -/
def Buf.isEmpty (b : Buf) : Bool := b.s == b.e

/-- `capacity()`: `_capacity` -/
def Buf.capacity (b : Buf) : Nat := b.cap

/-! ### methods -/

/-- `attach(data, length)`; `range` = the bytes of the attached range -/
def Buf.attach (b : Buf) (range : List Byte) : M Buf := do
  b.store.release
  pure { store := .att range, s := 0, e := range.length, cap := 0 }

/-- `operator=(const Buffer& other)` for `&other != this` and `assign(const byte* data, usize size)`
    (the two bodies differ only in `Memory::move` vs `Memory::copy`, which agree for
    a source outside the block) -/
def Buf.assign (b : Buf) (data : List Byte) (k : Nat) : M Buf :=
  let size := data.length
  if size > b.cap then do
    b.store.release
    let cap := newCap size k
    let st ← newBlock (cap + 1)
    let st ← st.write 0 data
    let st ← st.write size [some 0]
    pure { store := st, s := 0, e := size, cap := cap }
  else
    match b.store with
    | .own _ _ => do
      let st ← b.store.write 0 data
      let st ← st.write size [some 0]
      pure { b with store := st, s := 0, e := size }
    | _ =>
      -- `else if(!buffer) { bufferEnd = bufferStart; return; }`
      pure { b with e := b.s }

/-- `a = a` -/
def Buf.assignSelf (b : Buf) (k : Nat) : M Buf :=
  let size := b.e - b.s
  if size > b.cap then do
    b.store.release
    let cap := newCap size k
    let st ← newBlock (cap + 1)
    let d ← b.store.load b.s size     -- `other.bufferStart` still points into the old block
    let st ← st.write 0 d
    let st ← st.write size [some 0]
    pure { store := st, s := 0, e := size, cap := cap }
  else
    match b.store with
    | .own _ _ => do
      let d ← b.store.load b.s size
      let st ← b.store.write 0 d       -- `Memory::move` (overlap allowed)
      let st ← st.write size [some 0]
      pure { b with store := st, s := 0, e := size }
    | _ => pure { b with e := b.s }

/-- `prepend(const byte* data, usize size)` / `prepend(const Buffer& data)` with `data` outside
    the object's own block (so the test `data + size <= buffer || data > buffer + _capacity`
    of the second branch holds) -/
def Buf.prepend (b : Buf) (data : List Byte) (k : Nat) : M Buf :=
  let size := data.length
  if b.owning = true ∧ size ≤ b.s then do
    -- room in front
    let st ← b.store.write (b.s - size) data
    pure { b with store := st, s := b.s - size }
  else
    let oldSize := b.e - b.s
    let required := size + oldSize
    if b.owning = true ∧ required ≤ b.cap then do
      -- shift in place
      let old ← b.store.load b.s oldSize
      let st ← b.store.write size old            -- `Memory::move`
      let st ← st.write 0 data
      let st ← st.write required [some 0]
      pure { b with store := st, s := 0, e := required }
    else do
      -- reallocate
      let cap := newCap required k
      let st ← newBlock (cap + 1)
      let st ← st.write 0 data
      let old ← b.store.load b.s oldSize
      let st ← st.write size old
      b.store.release
      let st ← st.write required [some 0]
      pure { store := st, s := 0, e := required, cap := cap }

/-- `a.prepend(a)`: `data == bufferStart`, `size == bufferEnd - bufferStart` -/
def Buf.prependSelf (b : Buf) (k : Nat) : M Buf :=
  let size := b.e - b.s
  if b.owning = true ∧ size ≤ b.s then do
    let d ← b.store.load b.s size
    if noOverlap (b.s - size) b.s size then do
      let st ← b.store.write (b.s - size) d
      pure { b with store := st, s := b.s - size }
    else fault
  else
    let oldSize := b.e - b.s
    let required := size + oldSize
    -- `data + size <= buffer || data > buffer + _capacity` with `data = buffer + s`
    if b.owning = true ∧ required ≤ b.cap ∧ (b.s + size ≤ 0 ∨ b.s > b.cap) then do
      let old ← b.store.load b.s oldSize
      let st ← b.store.write size old
      let d ← st.load b.s size                   -- the data is read after the shift
      if noOverlap 0 b.s size then do
        let st ← st.write 0 d
        let st ← st.write required [some 0]
        pure { b with store := st, s := 0, e := required }
      else fault
    else do
      let cap := newCap required k
      let st ← newBlock (cap + 1)
      let d ← b.store.load b.s size
      let st ← st.write 0 d
      let old ← b.store.load b.s oldSize
      let st ← st.write size old
      b.store.release
      let st ← st.write required [some 0]
      pure { store := st, s := 0, e := required, cap := cap }

/-- `a.prepend((const byte*)a + off, len)` with `off + len ≤ a.size()`: the data is a sub-range of the
    object's own window (this is the case the test `data + size <= buffer || data > buffer + _capacity`
    of the second branch exists for) -/
def Buf.prependSub (b : Buf) (off len : Nat) (k : Nat) : M Buf :=
  let size := len
  let src := b.s + off                         -- `data` as an offset into the block
  if b.owning = true ∧ size ≤ b.s then do
    let d ← b.store.load src size
    if noOverlap (b.s - size) src size then do
      let st ← b.store.write (b.s - size) d
      pure { b with store := st, s := b.s - size }
    else fault
  else
    let oldSize := b.e - b.s
    let required := size + oldSize
    if b.owning = true ∧ required ≤ b.cap ∧ (src + size ≤ 0 ∨ src > b.cap) then do
      let old ← b.store.load b.s oldSize
      let st ← b.store.write size old
      let d ← st.load src size                   -- the data is read after the shift
      if noOverlap 0 src size then do
        let st ← st.write 0 d
        let st ← st.write required [some 0]
        pure { b with store := st, s := 0, e := required }
      else fault
    else do
      let cap := newCap required k
      let st ← newBlock (cap + 1)
      let d ← b.store.load src size
      let st ← st.write 0 d
      let old ← b.store.load b.s oldSize
      let st ← st.write size old
      b.store.release
      let st ← st.write required [some 0]
      pure { store := st, s := 0, e := required, cap := cap }

/-- the op line `prependsub v off len` clamps the sub-range to the window (so that it is always a
    valid argument): `off' = min off size`, `len' = min len (size - off')` -/
def Buf.prependSubClamped (b : Buf) (off len : Nat) (k : Nat) : M Buf :=
  let size := b.e - b.s
  let off' := if off < size then off else size
  let len' := if len < size - off' then len else size - off'
  b.prependSub off' len' k

/-- `resize(usize size)` -/
def Buf.resize (b : Buf) (size : Nat) (k : Nat) : M Buf :=
  if size > b.cap then do
    let cap := newCap size k
    let st ← newBlock (cap + 1)
    let oldSize := b.e - b.s
    let old ← b.store.load b.s (if oldSize < size then oldSize else size)
    let st ← st.write 0 old
    b.store.release
    let st ← st.write size [some 0]
    pure { store := st, s := 0, e := size, cap := cap }
  else
    match b.store with
    | .own _ _ =>
      if b.s + size ≤ b.cap then do
        let st ← b.store.write (b.s + size) [some 0]
        pure { b with store := st, e := b.s + size }
      else do
        -- compact to the front
        let old ← b.store.load b.s (b.e - b.s)
        let st ← b.store.write 0 old             -- `Memory::move`
        let st ← st.write size [some 0]
        pure { b with store := st, s := 0, e := size }
    | _ =>
      -- `else if(!buffer) bufferEnd = bufferStart;`
      pure { b with e := b.s }

/-- the final `if(buffer) *bufferEnd = 0;` of both `append`s and of `removeBack` -/
def Buf.termIfOwning (b : Buf) : M Buf :=
  match b.store with
  | .own _ _ => do
    let st ← b.store.write b.e [some 0]
    pure { b with store := st }
  | _ => pure b

/-- `append(const byte* data, usize size)` / `append(const Buffer& data)` for `&data != this` -/
def Buf.append (b : Buf) (data : List Byte) (k : Nat) : M Buf := do
  let size := data.length
  let b ← b.resize (b.e - b.s + size) k
  let dst ← liftO (ptrSub b.e size)
  let st ← b.store.write dst data
  Buf.termIfOwning { b with store := st }

/-- `a.append(a)`: size is taken before, `data.bufferStart` after the `resize` -/
def Buf.appendSelf (b : Buf) (k : Nat) : M Buf := do
  let size := b.e - b.s
  let b ← b.resize (b.e - b.s + size) k
  let dst ← liftO (ptrSub b.e size)
  let d ← b.store.load b.s size
  if noOverlap dst b.s size then do
    let st ← b.store.write dst d
    Buf.termIfOwning { b with store := st }
  else fault

/-- `a.append((const byte*)a + off, len)` with `off + len ≤ a.size()`: the data is a sub-range of the object's
    own window.  `append` remembers the offset of such a pointer (`buffer && bufferStart <= data && data <=
    bufferEnd`) and re-derives it after `resize`, which may have moved or reallocated the bytes -/
def Buf.appendSub (b : Buf) (off len : Nat) (k : Nat) : M Buf := do
  let size := len
  let inside := b.owning = true ∧ b.s ≤ b.s + off ∧ b.s + off ≤ b.e
  let b' ← b.resize (b.e - b.s + size) k
  let dst ← liftO (ptrSub b'.e size)
  if inside then do
    -- `data = bufferStart + offset`
    let d ← b'.store.load (b'.s + off) size
    if noOverlap dst (b'.s + off) size then do
      let st ← b'.store.write dst d
      Buf.termIfOwning { b' with store := st }
    else fault
  else do
    -- `data` still points into the attached range (or at the capacity cell), which `resize` does not touch
    let d ← b.store.load (b.s + off) size
    let st ← b'.store.write dst d
    Buf.termIfOwning { b' with store := st }

/-- `a.assign((const byte*)a + off, len)` with `off + len ≤ a.size()`; `assign` copies with `Memory::move` -/
def Buf.assignSub (b : Buf) (off len : Nat) (k : Nat) : M Buf :=
  let size := len
  let src := b.s + off
  if size > b.cap then do
    b.store.release
    let cap := newCap size k
    let st ← newBlock (cap + 1)
    let d ← b.store.load src size     -- `data` still points into the old block / the attached range
    let st ← st.write 0 d
    let st ← st.write size [some 0]
    pure { store := st, s := 0, e := size, cap := cap }
  else
    match b.store with
    | .own _ _ => do
      let d ← b.store.load src size
      let st ← b.store.write 0 d       -- `Memory::move` (overlap allowed)
      let st ← st.write size [some 0]
      pure { b with store := st, s := 0, e := size }
    | _ => pure { b with e := b.s }

/-- the op lines `appendsub` / `assignsub v off len` clamp the sub-range to the window like `prependsub` -/
def Buf.appendSubClamped (b : Buf) (off len : Nat) (k : Nat) : M Buf :=
  let size := b.e - b.s
  let off' := if off < size then off else size
  let len' := if len < size - off' then len else size - off'
  b.appendSub off' len' k

def Buf.assignSubClamped (b : Buf) (off len : Nat) (k : Nat) : M Buf :=
  let size := b.e - b.s
  let off' := if off < size then off else size
  let len' := if len < size - off' then len else size - off'
  b.assignSub off' len' k

/-- `bufferStart = bufferEnd = buffer ? buffer : (byte*)&_capacity` -/
def Buf.home (self : Nat) (b : Buf) : Buf :=
  match b.store with
  | .own _ _ => { b with s := 0, e := 0 }
  | _ => { b with store := .dflt self, s := 0, e := 0 }

def Buf.removeFront (self : Nat) (b : Buf) (size : Nat) : M Buf :=
  if b.s + size ≥ b.e then
    Buf.termIfOwning (b.home self)
  else
    pure { b with s := b.s + size }

def Buf.removeBack (self : Nat) (b : Buf) (size : Nat) : M Buf :=
  if b.s + size ≥ b.e then
    Buf.termIfOwning (b.home self)
  else do
    let e ← liftO (ptrSub b.e size)
    Buf.termIfOwning { b with e := e }

def Buf.reserve (b : Buf) (capacity : Nat) (k : Nat) : M Buf :=
  if capacity ≤ b.cap then pure b
  else do
    let size := b.e - b.s
    let capacity := newCap (if capacity < size then size else capacity) k
    let st ← newBlock (capacity + 1)
    let old ← b.store.load b.s size
    let st ← st.write 0 old
    b.store.release
    let st ← st.write size [some 0]
    pure { store := st, s := 0, e := size, cap := capacity }

def Buf.clear (b : Buf) : M Buf :=
  match b.store with
  | .own _ _ => do
    let st ← b.store.write 0 [some 0]
    pure { b with store := st, s := 0, e := 0 }
  | _ => pure { b with e := b.s }

/-- `free()` of variable `self` -/
def Buf.free (self : Nat) (b : Buf) : M Buf := do
  b.store.release
  pure (Buf.default self)

/-- second half of `swap`: `if(bufferStart == (byte*)&other._capacity) bufferStart = bufferEnd = (byte*)&_capacity;` -/
def Buf.rehome (owner other : Nat) (b : Buf) : Buf :=
  match b.store with
  | .dflt c => if c = other ∧ b.s = 0 then { b with store := .dflt owner, s := 0, e := 0 } else b
  | _ => b

/-! ### program state: the Buffer variables, the attachable caller memory, the allocation ledger -/

structure State where
  bufs : List Buf
  regs : List (List Byte)
  led : Ledger
  deriving Repr, Inhabited

def init (nvars : Nat) (regs : List (List Byte)) : State :=
  { bufs := (List.range nvars).map Buf.default, regs := regs, led := { next := 0, live := [] } }

def State.getBuf (st : State) (v : Nat) : Option Buf := st.bufs[v]?

/-- run a method on variable `v` -/
def State.upd (st : State) (v : Nat) (f : Buf → M Buf) : Option State := do
  let b ← st.getBuf v
  let (b', led') ← f b st.led
  pure { st with bufs := st.bufs.set v b', led := led' }

/-- exposed bytes of variable `v` -/
def contents (st : State) (v : Nat) : Option (List Byte) := do
  let b ← st.getBuf v
  let (c, _) ← b.contents st.led
  pure c

def equalBufs (st : State) (v w : Nat) : Option Bool := do
  let a ← contents st v
  let b ← contents st w
  pure (a == b)

/-- the byte following the data when the storage is owned -/
def terminator (st : State) (v : Nat) : Option (Option Byte) := do
  let b ← st.getBuf v
  match b.store with
  | .own _ _ => do
    let (t, _) ← b.store.load b.e 1 st.led
    pure (some (t.headD none))
  | _ => pure none

/-! ### operations as data -/

inductive Op where
  | ctorDefault (v : Nat)
  | ctorCap (v n : Nat)
  | ctorData (v : Nat) (d : List Nat)
  | ctorCopy (v w : Nat)
  | attach (v r off len : Nat)
  | assignBuf (v w : Nat)
  | assignData (v : Nat) (d : List Nat)
  | prependData (v : Nat) (d : List Nat)
  | prependBuf (v w : Nat)
  | prependSub (v off len : Nat)
  | appendSub (v off len : Nat)
  | assignSub (v off len : Nat)
  | appendData (v : Nat) (d : List Nat)
  | appendBuf (v w : Nat)
  | resize (v n : Nat)
  | removeFront (v n : Nat)
  | removeBack (v n : Nat)
  | reserve (v n : Nat)
  | clear (v : Nat)
  | swap (v w : Nat)
  | free (v : Nat)
  deriving Repr, Inhabited

def bytesOf (d : List Nat) : List Byte := d.map some

/-- a method of `v` taking the bytes of `w ≠ v` -/
def State.updFrom (st : State) (v w : Nat) (f : Buf → List Byte → M Buf) : Option State := do
  let d ← contents st w
  st.upd v (fun b => f b d)

/-- one operation; `k` = the capacity the environment asks for should the operation allocate (`0` = no wish) -/
def step (st : State) (k : Nat) : Op → Option State
  -- the constructors re-create variable `v` in place: `v.~Buffer(); new (&v) Buffer(...)`
  | .ctorDefault v => st.upd v (fun b => do b.destroy; pure (Buf.default v))
  | .ctorCap v n => st.upd v (fun b => do b.destroy; Buf.ctorCap n k)
  | .ctorData v d => st.upd v (fun b => do b.destroy; Buf.ctorData (bytesOf d) k)
  | .ctorCopy v w =>
    -- the harness skips `copy v v` (an object cannot be copy-constructed from itself)
    if v = w then st.upd v pure else st.updFrom v w (fun b d => do b.destroy; Buf.ctorData d k)
  | .attach v r off len => do
    let region ← st.regs[r]?
    let range ← rdList region off len
    st.upd v (fun b => b.attach range)
  | .assignBuf v w => if v = w then st.upd v (fun b => b.assignSelf k) else st.updFrom v w (fun b d => b.assign d k)
  | .assignData v d => st.upd v (fun b => b.assign (bytesOf d) k)
  | .prependData v d => st.upd v (fun b => b.prepend (bytesOf d) k)
  | .prependBuf v w => if v = w then st.upd v (fun b => b.prependSelf k) else st.updFrom v w (fun b d => b.prepend d k)
  | .prependSub v off len => st.upd v (fun b => b.prependSubClamped off len k)
  | .appendSub v off len => st.upd v (fun b => b.appendSubClamped off len k)
  | .assignSub v off len => st.upd v (fun b => b.assignSubClamped off len k)
  | .appendData v d => st.upd v (fun b => b.append (bytesOf d) k)
  | .appendBuf v w => if v = w then st.upd v (fun b => b.appendSelf k) else st.updFrom v w (fun b d => b.append d k)
  | .resize v n => st.upd v (fun b => b.resize n k)
  | .removeFront v n => st.upd v (fun b => b.removeFront v n)
  | .removeBack v n => st.upd v (fun b => b.removeBack v n)
  | .reserve v n => st.upd v (fun b => b.reserve n k)
  | .clear v => st.upd v Buf.clear
  | .swap v w => do
    let a ← st.getBuf v
    let b ← st.getBuf w
    let bufs := st.bufs.set v (b.rehome v w)
    pure { st with bufs := bufs.set w (a.rehome w v) }
  | .free v => st.upd v (Buf.free v)

/-- a history: operations, each with the capacity wish of the environment for that step -/
def run (st : State) : List (Op × Nat) → Option State
  | [] => some st
  | (op, k) :: ops => do let st ← step st k op; run st ops

end Nstd.Buffer
