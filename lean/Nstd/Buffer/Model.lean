/-
  Executable model of `Buffer` (include/nstd/Buffer.hpp), method by method, over
  *checked* memory.  Every pointer of the C++ object is a (block reference, offset)
  pair; every load/store is validated against the extent of the block it goes to.
  A violation makes the operation return `none` (= fault), which is what the
  property's "never reads or writes outside its own allocation or the attached
  range" forbids.  Core Lean only (the compiled driver links this file).

  Pointer targets:
    * `heap id`  – an allocation made by `new char[n]` (n bytes, initially unspecified)
    * `reg r`    – attachable caller memory (region `r`), never allocated/freed by Buffer
    * `cell v`   – the `_capacity` field of Buffer variable `v` (the default state
                   points `bufferStart`/`bufferEnd` at the object's own field)
-/
namespace Nstd.Buffer

/-- a byte of memory; `none` = unspecified (fresh allocation) -/
abbrev Byte := Option Nat

inductive Ref where
  | heap (id : Nat)
  | reg (r : Nat)
  | cell (v : Nat)
  deriving DecidableEq, Repr, Inhabited

/-- one `Buffer` object: `buffer`, `bufferStart = (ref, s)`, `bufferEnd = (ref, e)`, `_capacity` -/
structure Buf where
  buffer : Option Nat
  ref : Ref
  s : Nat
  e : Nat
  cap : Nat
  deriving Repr, Inhabited

structure State where
  bufs : List Buf                    -- the Buffer variables
  heap : List (Option (List Byte))   -- allocations; `none` = freed
  regs : List (List Byte)            -- attachable regions
  deriving Repr, Inhabited

def defaultBuf (v : Nat) : Buf := { buffer := none, ref := .cell v, s := 0, e := 0, cap := 0 }

def init (nvars : Nat) (regs : List (List Byte)) : State :=
  { bufs := (List.range nvars).map defaultBuf, heap := [], regs := regs }

/-! ### checked memory -/

def rdList (m : List Byte) (off n : Nat) : Option (List Byte) :=
  if off + n ≤ m.length then some ((m.drop off).take n) else none

def wrList (m : List Byte) (off : Nat) (d : List Byte) : Option (List Byte) :=
  if off + d.length ≤ m.length then some (m.take off ++ d ++ m.drop (off + d.length)) else none

def State.block (st : State) : Ref → Option (List Byte)
  | .heap id => (st.heap.getD id none)
  | .reg r => st.regs[r]?
  | .cell _ => none

/-- load `n` bytes at `(ref, off)` -/
def State.load (st : State) (ref : Ref) (off n : Nat) : Option (List Byte) :=
  match ref with
  | .cell _ => if n = 0 then some [] else none     -- the capacity field is never read as data
  | _ => do
    let m ← st.block ref
    rdList m off n

/-- store `d` at `(ref, off)` on behalf of Buffer variable `self` -/
def State.store (st : State) (self : Nat) (ref : Ref) (off : Nat) (d : List Byte) : Option State :=
  match ref with
  | .heap id => do
    let m ← st.heap.getD id none
    let m' ← wrList m off d
    pure { st with heap := st.heap.set id (some m') }
  | .reg r => do
    let m ← st.regs[r]?
    let m' ← wrList m off d
    pure { st with regs := st.regs.set r m' }
  | .cell _ =>
    -- the capacity field is never written through a data pointer
    if d.isEmpty then some st else none

def State.alloc (st : State) (n : Nat) : State × Nat :=
  ({ st with heap := st.heap ++ [some (List.replicate n none)] }, st.heap.length)

/-- `delete[] buffer` (a null pointer is fine, a freed block is a double free) -/
def State.free (st : State) : Option Nat → Option State
  | none => some st
  | some id =>
    match st.heap.getD id none with
    | none => none
    | some _ => some { st with heap := st.heap.set id none }

def overlap (r1 : Ref) (o1 : Nat) (r2 : Ref) (o2 n : Nat) : Bool :=
  r1 = r2 && n != 0 && o1 != o2 && o1 < o2 + n && o2 < o1 + n

/-- `Memory::copy` = `memcpy`: source and destination must not overlap -/
def State.copy (st : State) (self : Nat) (dr : Ref) (doff : Nat) (sr : Ref) (soff n : Nat) : Option State :=
  if overlap dr doff sr soff n then none
  else do
    let d ← st.load sr soff n
    -- the destination range must be valid even for n = 0 only if n > 0 (memcpy of 0 bytes touches nothing)
    st.store self dr doff d

/-- `Memory::move` = `memmove` -/
def State.move (st : State) (self : Nat) (dr : Ref) (doff : Nat) (sr : Ref) (soff n : Nat) : Option State := do
  let d ← st.load sr soff n
  st.store self dr doff d

def State.getBuf (st : State) (v : Nat) : Option Buf := st.bufs[v]?
def State.setBuf (st : State) (v : Nat) (b : Buf) : State := { st with bufs := st.bufs.set v b }

/-- where `buffer ? buffer : (byte*)&_capacity` points -/
def homeRef (v : Nat) (b : Buf) : Ref :=
  match b.buffer with
  | some id => .heap id
  | none => .cell v

/-! ### constructors / destructor -/

def destroy (st : State) (v : Nat) : Option State := do
  let b ← st.getBuf v
  st.free b.buffer

def ctorDefault (st : State) (v : Nat) : State := st.setBuf v (defaultBuf v)

/-- `Buffer(usize capacity)` -/
def ctorCap (st : State) (v : Nat) (capacity : Nat) : Option State := do
  let (st, id) := st.alloc (capacity + 1)
  let st := st.setBuf v { buffer := some id, ref := .heap id, s := 0, e := 0, cap := capacity }
  st.store v (.heap id) 0 [some 0]

/-- `Buffer(const byte* data, usize size)` with the data given by value -/
def ctorData (st : State) (v : Nat) (data : List Byte) : Option State := do
  let size := data.length
  let (st, id) := st.alloc (size + 1)
  let st := st.setBuf v { buffer := some id, ref := .heap id, s := 0, e := size, cap := size }
  let st ← st.store v (.heap id) 0 data
  st.store v (.heap id) size [some 0]

/-- `Buffer(const Buffer& other)` constructing variable `v` from `w` -/
def ctorCopy (st : State) (v w : Nat) : Option State := do
  let o ← st.getBuf w
  let size := o.e - o.s
  let (st, id) := st.alloc (size + 1)
  let st := st.setBuf v { buffer := some id, ref := .heap id, s := 0, e := size, cap := size }
  let st ← st.copy v (.heap id) 0 o.ref o.s size
  st.store v (.heap id) size [some 0]

/-! ### methods (`src` describes where the `data` pointer of the C++ call points) -/

/-- source of a `(const byte* data, usize size)` argument: caller memory holding `bytes`
    (modelled by value) -/
def storeArg (st : State) (self : Nat) (dr : Ref) (doff : Nat) (data : List Byte) : Option State :=
  st.store self dr doff data

def attach (st : State) (v r off len : Nat) : Option State := do
  let b ← st.getBuf v
  let st ← st.free b.buffer
  pure (st.setBuf v { b with buffer := none, ref := .reg r, s := off, e := off + len, cap := 0 })

/-- `operator=(const Buffer& other)` -/
def assignBuf (st : State) (v w : Nat) : Option State := do
  let b ← st.getBuf v
  let o ← st.getBuf w
  let size := o.e - o.s
  if size > b.cap then do
    let st ← st.free b.buffer
    let (st, id) := st.alloc (size + 1)
    -- `other` is re-read after the allocation (it may be `*this`)
    let st := st.setBuf v { b with buffer := some id, cap := size }
    let o ← st.getBuf w
    let st ← st.copy v (.heap id) 0 o.ref o.s size
    let b ← st.getBuf v
    let st := st.setBuf v { b with ref := .heap id, s := 0, e := size }
    st.store v (.heap id) size [some 0]
  else
    match b.buffer with
    | none =>
      -- not owning: become empty (nothing to copy since size ≤ cap = 0)
      pure (st.setBuf v { b with e := b.s })
    | some id => do
      let st ← st.move v (.heap id) 0 o.ref o.s size
      let b ← st.getBuf v
      let st := st.setBuf v { b with ref := .heap id, s := 0, e := size }
      st.store v (.heap id) size [some 0]

/-- `assign(const byte* data, usize size)` -/
def assignData (st : State) (v : Nat) (data : List Byte) : Option State := do
  let b ← st.getBuf v
  let size := data.length
  if size > b.cap then do
    let st ← st.free b.buffer
    let (st, id) := st.alloc (size + 1)
    let st := st.setBuf v { b with buffer := some id, cap := size, ref := .heap id, s := 0, e := size }
    let st ← st.store v (.heap id) 0 data
    st.store v (.heap id) size [some 0]
  else
    match b.buffer with
    | none => pure (st.setBuf v { b with e := b.s })
    | some id => do
      let st ← st.store v (.heap id) 0 data
      let b ← st.getBuf v
      let st := st.setBuf v { b with ref := .heap id, s := 0, e := size }
      st.store v (.heap id) size [some 0]

/-- generic prepend; the source bytes are loaded through `src` *at the moment the code
    copies them* (so a source aliasing the buffer sees the intermediate state) -/
def prependGen (st : State) (v : Nat) (size : Nat) (aliases : Bool)
    (copyArg : State → Ref → Nat → Option State) : Option State := do
  let b ← st.getBuf v
  let owning := b.buffer.isSome
  if owning && b.s ≥ size then do
    -- `bufferStart - buffer >= size`: room in front
    let st := st.setBuf v { b with s := b.s - size }
    copyArg st b.ref (b.s - size)
  else
    let oldSize := b.e - b.s
    let required := size + oldSize
    if owning && b.cap ≥ required && !aliases then do
      let st ← st.move v b.ref size b.ref b.s oldSize
      let st ← copyArg st b.ref 0
      let b ← st.getBuf v
      let st := st.setBuf v { b with s := 0, e := required }
      st.store v b.ref required [some 0]
    else do
      let (st, id) := st.alloc (required + 1)
      let b ← st.getBuf v
      let st := st.setBuf v { b with cap := required }
      let st ← copyArg st (.heap id) 0
      let st ← st.copy v (.heap id) size b.ref b.s oldSize
      let st ← st.free b.buffer
      let b ← st.getBuf v
      let st := st.setBuf v { b with buffer := some id, ref := .heap id, s := 0, e := required }
      st.store v (.heap id) required [some 0]

def prependData (st : State) (v : Nat) (data : List Byte) : Option State :=
  prependGen st v data.length false (fun st dr doff => st.store v dr doff data)

/-- `prepend(const Buffer& data)`: pointer and size are taken from `w` before the call -/
def prependBuf (st : State) (v w : Nat) : Option State := do
  let o ← st.getBuf w
  let size := o.e - o.s
  prependGen st v size (v == w) (fun st dr doff => st.copy v dr doff o.ref o.s size)

/-- `resize(usize size)` -/
def resize (st : State) (v : Nat) (size : Nat) : Option State := do
  let b ← st.getBuf v
  if size > b.cap then do
    let (st, id) := st.alloc (size + 1)
    let st := st.setBuf v { b with cap := size }
    let old := b.e - b.s
    let st ← st.copy v (.heap id) 0 b.ref b.s (if old < size then old else size)
    let st ← st.free b.buffer
    let b ← st.getBuf v
    let st := st.setBuf v { b with buffer := some id, ref := .heap id, s := 0, e := size }
    st.store v (.heap id) size [some 0]
  else
    match b.buffer with
    | some id =>
      if b.s + size ≤ b.cap then do
        let st := st.setBuf v { b with e := b.s + size }
        st.store v (.heap id) (b.s + size) [some 0]
      else do
        let st ← st.move v (.heap id) 0 b.ref b.s (b.e - b.s)
        let b ← st.getBuf v
        let st := st.setBuf v { b with s := 0, e := size }
        st.store v (.heap id) size [some 0]
    | none =>
      -- not owning and size ≤ cap = 0: shrink the window to nothing
      pure (st.setBuf v { b with e := b.s })

/-- `append(const byte* data, usize size)` -/
def appendData (st : State) (v : Nat) (data : List Byte) : Option State := do
  let b ← st.getBuf v
  let st ← resize st v (b.e - b.s + data.length)
  let b ← st.getBuf v
  -- (the trailing `*bufferEnd = 0` of the C++ code is only executed when owning and then
  --  re-writes the terminator that `resize` has already stored)
  st.store v b.ref (b.e - data.length) data

/-- `append(const Buffer& data)`; `data` is re-read after `resize` (it may be `*this`) -/
def appendBuf (st : State) (v w : Nat) : Option State := do
  let b ← st.getBuf v
  let o ← st.getBuf w
  let size := o.e - o.s
  let st ← resize st v (b.e - b.s + size)
  let b ← st.getBuf v
  let o ← st.getBuf w
  st.copy v b.ref (b.e - size) o.ref o.s size

def removeFront (st : State) (v : Nat) (size : Nat) : Option State := do
  let b ← st.getBuf v
  if b.s + size ≥ b.e then
    let st := st.setBuf v { b with ref := homeRef v b, s := 0, e := 0 }
    match b.buffer with
    | some id => st.store v (.heap id) 0 [some 0]
    | none => pure st
  else
    pure (st.setBuf v { b with s := b.s + size })

def removeBack (st : State) (v : Nat) (size : Nat) : Option State := do
  let b ← st.getBuf v
  if b.s + size ≥ b.e then
    let st := st.setBuf v { b with ref := homeRef v b, s := 0, e := 0 }
    match b.buffer with
    | some id => st.store v (.heap id) 0 [some 0]
    | none => pure st
  else
    let st := st.setBuf v { b with e := b.e - size }
    match b.buffer with
    | some _ => st.store v b.ref (b.e - size) [some 0]
    | none => pure st

def reserve (st : State) (v : Nat) (capacity : Nat) : Option State := do
  let b ← st.getBuf v
  if capacity ≤ b.cap then pure st
  else do
    let size := b.e - b.s
    let capacity := if capacity < size then size else capacity
    let (st, id) := st.alloc (capacity + 1)
    let st := st.setBuf v { b with cap := capacity }
    let st ← st.copy v (.heap id) 0 b.ref b.s size
    let st ← st.free b.buffer
    let b ← st.getBuf v
    let st := st.setBuf v { b with buffer := some id, ref := .heap id, s := 0, e := size }
    st.store v (.heap id) size [some 0]

def clear (st : State) (v : Nat) : Option State := do
  let b ← st.getBuf v
  match b.buffer with
  | some id =>
    let st := st.setBuf v { b with ref := .heap id, s := 0, e := 0 }
    st.store v (.heap id) 0 [some 0]
  | none => pure (st.setBuf v { b with e := b.s })

/-- re-point a default-state pointer at the object that now holds it -/
def rehome (owner : Nat) (b : Buf) : Buf :=
  match b.ref with
  | .cell _ => { b with ref := .cell owner }
  | _ => b

def swap (st : State) (v w : Nat) : Option State := do
  let a ← st.getBuf v
  let b ← st.getBuf w
  let st := st.setBuf v (rehome v b)
  pure (st.setBuf w (rehome w a))

def free (st : State) (v : Nat) : Option State := do
  let b ← st.getBuf v
  let st ← st.free b.buffer
  pure (st.setBuf v (defaultBuf v))

/-- exposed bytes of variable `v` -/
def contents (st : State) (v : Nat) : Option (List Byte) := do
  let b ← st.getBuf v
  st.load b.ref b.s (b.e - b.s)

def equalBufs (st : State) (v w : Nat) : Option Bool := do
  let a ← contents st v
  let b ← contents st w
  pure (a == b)

/-- the byte following the data when the storage is owned -/
def terminator (st : State) (v : Nat) : Option (Option Byte) := do
  let b ← st.getBuf v
  match b.buffer with
  | none => pure none
  | some _ => do
    let t ← st.load b.ref b.e 1
    pure (some (t.headD none))

/-! ### operations as data -/

inductive Op where
  | ctorDefault (v : Nat)
  | ctorCap (v n : Nat)
  | ctorData (v : Nat) (d : List Nat)
  | ctorCopy (v w : Nat)
  | attach (v r off len : Nat)
  | assignBuf (v w : Nat)
  | assignData (v : Nat) (d : List Nat)
  | prependData (v : Nat) (d : List Nat)
  | prependBuf (v w : Nat)
  | appendData (v : Nat) (d : List Nat)
  | appendBuf (v w : Nat)
  | resize (v n : Nat)
  | removeFront (v n : Nat)
  | removeBack (v n : Nat)
  | reserve (v n : Nat)
  | clear (v : Nat)
  | swap (v w : Nat)
  | free (v : Nat)
  deriving Repr, Inhabited

def bytesOf (d : List Nat) : List Byte := d.map some

def step (st : State) : Op → Option State
  | .ctorDefault v => do let st ← destroy st v; pure (ctorDefault st v)
  | .ctorCap v n => do let st ← destroy st v; ctorCap st v n
  | .ctorData v d => do let st ← destroy st v; ctorData st v (bytesOf d)
  | .ctorCopy v w =>
    -- `Buffer tmp(w); v.~Buffer(); new (&v) Buffer(tmp)` is what the harness does when v = w;
    -- for v ≠ w the old object is destroyed first
    if v = w then some st else do let st ← destroy st v; ctorCopy st v w
  | .attach v r off len => attach st v r off len
  | .assignBuf v w => assignBuf st v w
  | .assignData v d => assignData st v (bytesOf d)
  | .prependData v d => prependData st v (bytesOf d)
  | .prependBuf v w => prependBuf st v w
  | .appendData v d => appendData st v (bytesOf d)
  | .appendBuf v w => appendBuf st v w
  | .resize v n => resize st v n
  | .removeFront v n => removeFront st v n
  | .removeBack v n => removeBack st v n
  | .reserve v n => reserve st v n
  | .clear v => clear st v
  | .swap v w => swap st v w
  | .free v => free st v

def run (st : State) : List Op → Option State
  | [] => some st
  | op :: ops => do let st ← step st op; run st ops

end Nstd.Buffer
