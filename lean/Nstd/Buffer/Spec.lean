import Nstd.Buffer.Model
/-
  The abstract specification property C08 talks about: every Buffer variable is a plain
  byte queue (a list of bytes).  A byte `none` is *unspecified* (the bytes newly exposed
  by a growing `resize`); the refinement relation `Match` lets an unspecified byte of the
  specification match any byte of the implementation.
-/
namespace Nstd.Buffer
namespace Spec

/-- a byte queue; `none` = unspecified byte -/
abbrev Queue := List Byte

def get (qs : List Queue) (v : Nat) : Queue := qs.getD v []

/-- `resize(n)`: keep the first `n` bytes, newly exposed bytes are unspecified -/
def resize (q : Queue) (n : Nat) : Queue := q.take n ++ List.replicate (n - q.length) none

def removeFront (q : Queue) (n : Nat) : Queue := q.drop n

def removeBack (q : Queue) (n : Nat) : Queue := q.take (q.length - n)

/-- the bytes `[off, off+len)` of attachable region `r` -/
def range (regs : List (List Byte)) (r off len : Nat) : Queue := ((regs.getD r []).drop off).take len

def init (nvars : Nat) : List Queue := List.replicate nvars []

def step (regs : List (List Byte)) (qs : List Queue) : Op → List Queue
  | .ctorDefault v => qs.set v []
  | .ctorCap v _ => qs.set v []
  | .ctorData v d => qs.set v (bytesOf d)
  | .ctorCopy v w => qs.set v (get qs w)
  | .attach v r off len => qs.set v (range regs r off len)
  | .assignBuf v w => qs.set v (get qs w)
  | .assignData v d => qs.set v (bytesOf d)
  | .prependData v d => qs.set v (bytesOf d ++ get qs v)
  | .prependBuf v w => qs.set v (get qs w ++ get qs v)
  | .prependSub v off len => qs.set v (((get qs v).drop off).take len ++ get qs v)
  | .appendSub v off len => qs.set v (get qs v ++ ((get qs v).drop off).take len)
  | .assignSub v off len => qs.set v (((get qs v).drop off).take len)
  | .appendData v d => qs.set v (get qs v ++ bytesOf d)
  | .appendBuf v w => qs.set v (get qs v ++ get qs w)
  | .resize v n => qs.set v (resize (get qs v) n)
  | .removeFront v n => qs.set v (removeFront (get qs v) n)
  | .removeBack v n => qs.set v (removeBack (get qs v) n)
  | .reserve _ _ => qs
  | .clear v => qs.set v []
  | .swap v w => (qs.set v (get qs w)).set w (get qs v)
  | .free v => qs.set v []

def run (regs : List (List Byte)) (qs : List Queue) : List Op → List Queue
  | [] => qs
  | op :: ops => run regs (step regs qs op) ops

/-- the size an operation asks its Buffer to hold – what `_capacity` has to cover afterwards (`Buffer(capacity)` and
    `reserve` ask for a capacity directly, every growing method for the size of its result) -/
def demand (qs : List Queue) : Op → Nat
  | .ctorCap _ n => n
  | .ctorData _ d => d.length
  | .ctorCopy v w => if v = w then 0 else (get qs w).length
  | .assignBuf _ w => (get qs w).length
  | .assignData _ d => d.length
  | .prependData v d => d.length + (get qs v).length
  | .prependBuf v w => (get qs w).length + (get qs v).length
  | .prependSub v off len => (((get qs v).drop off).take len).length + (get qs v).length
  | .appendSub v off len => (get qs v).length + (((get qs v).drop off).take len).length
  | .assignSub v off len => (((get qs v).drop off).take len).length
  | .appendData v d => (get qs v).length + d.length
  | .appendBuf v w => (get qs v).length + (get qs w).length
  | .resize _ n => n
  | .reserve v n => max n (get qs v).length
  | _ => 0

/-- the largest size requested / capacity wished for along a history -/
def peak (regs : List (List Byte)) : List Queue → List (Op × Nat) → Nat
  | _, [] => 0
  | qs, (op, k) :: ops => max (max (demand qs op) k) (peak regs (step regs qs op) ops)

end Spec

/-- a specification byte matches an implementation byte: unspecified matches anything -/
def ByteMatch (sp c : Byte) : Prop := sp = none ∨ sp = c

/-- a specification queue matches the exposed bytes of a Buffer: same length, bytes match pairwise -/
inductive Match : List Byte → List Byte → Prop
  | nil : Match [] []
  | cons {a b : Byte} {sp c : List Byte} : ByteMatch a b → Match sp c → Match (a :: sp) (b :: c)

/-- well-formed operation: variable indices exist, an attached range lies inside its region -/
def WFOp (nvars : Nat) (regs : List (List Byte)) : Op → Prop
  | .ctorDefault v => v < nvars
  | .ctorCap v _ => v < nvars
  | .ctorData v _ => v < nvars
  | .ctorCopy v w => v < nvars ∧ w < nvars
  | .attach v r off len => v < nvars ∧ ∃ region, regs[r]? = some region ∧ off + len ≤ region.length
  | .assignBuf v w => v < nvars ∧ w < nvars
  | .assignData v _ => v < nvars
  | .prependData v _ => v < nvars
  | .prependBuf v w => v < nvars ∧ w < nvars
  | .prependSub v _ _ => v < nvars
  | .appendSub v _ _ => v < nvars
  | .assignSub v _ _ => v < nvars
  | .appendData v _ => v < nvars
  | .appendBuf v w => v < nvars ∧ w < nvars
  | .resize v _ => v < nvars
  | .removeFront v _ => v < nvars
  | .removeBack v _ => v < nvars
  | .reserve v _ => v < nvars
  | .clear v => v < nvars
  | .swap v w => v < nvars ∧ w < nvars
  | .free v => v < nvars

end Nstd.Buffer
