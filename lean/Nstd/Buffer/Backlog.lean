import Nstd.Buffer.LemmasCap
import Nstd.Buffer.Client
/-
  Definitions and helper lemmas for the client-level theorem `backlog_faithful` (PropsBacklog.lean): the operations
  Server.cpp performs on a client's send backlog, what the client knows about it (`Track`), and the reference byte
  queue run on such a history (`spec_backlog`).
-/
namespace Nstd.Buffer

/-- what the client knows about its backlog -/
structure Track where
  /-- the concatenation of the chunks appended since the backlog was last dropped -/
  all : List Nat := []
  /-- how many of those bytes have been sent (removed at the front) -/
  sent : Nat := 0
  /-- high-water mark of the number of unsent bytes (over the whole history) -/
  peak : Nat := 0
  deriving Repr

/-- the unsent suffix of the concatenation of the appended chunks -/
def Track.unsent (t : Track) : List Nat := t.all.drop t.sent

def track (t : Track) : BOp → Track
  | .append d => { all := t.all ++ d, sent := t.sent, peak := max t.peak ((t.all ++ d).length - t.sent) }
  | .removeFront n => { all := t.all, sent := t.sent + n, peak := t.peak }
  | .clear => { all := [], sent := 0, peak := t.peak }
  | .free => { all := [], sent := 0, peak := t.peak }

def trackAll (t : Track) : List BOp → Track
  | [] => t
  | b :: bs => trackAll (track t b) bs

/-- the protocol: `removeFront k` only with `k ≤ size()` (`send` accepts at most what it is given) -/
def Admissible : Track → List BOp → Prop
  | _, [] => True
  | t, b :: bs => (match b with | .removeFront n => n ≤ t.unsent.length | _ => True) ∧ Admissible (track t b) bs

/-- the largest capacity wish of the environment along the history (0 = today's Buffer.hpp throughout) -/
def wishMax : List (BOp × Nat) → Nat
  | [] => 0
  | p :: bs => max p.2 (wishMax bs)

/-- the history on variable `v` -/
def backlogOps (v : Nat) (bs : List (BOp × Nat)) : List (Op × Nat) := bs.map (fun p => (p.1.op v, p.2))

theorem match_bytesOf_eq {x : List Nat} {c : List Byte} (h : Match (bytesOf x) c) : c = bytesOf x := by
  rw [match_iff] at h
  apply List.ext_getElem?
  intro i
  rcases h.2 i with h1 | h1
  · simp [bytesOf] at h1
  · exact h1.symm

theorem peak_mono : ∀ (bs : List BOp) (t : Track), t.peak ≤ (trackAll t bs).peak
  | [], t => Nat.le_refl _
  | b :: bs, t => by
    have h := peak_mono bs (track t b)
    have : t.peak ≤ (track t b).peak := by cases b <;> simp only [track] <;> omega
    simp only [trackAll]
    omega

/-- the reference byte queue run on a backlog history is the unsent suffix, and the sizes it requests never exceed the
    high-water mark -/
theorem spec_backlog (regs : List (List Byte)) (v : Nat) : ∀ (bs : List (BOp × Nat)) (qs : List Spec.Queue) (t : Track),
    v < qs.length → t.sent ≤ t.all.length → Spec.get qs v = bytesOf t.unsent → Admissible t (bs.map Prod.fst) →
    Spec.get (Spec.run regs qs ((backlogOps v bs).map Prod.fst)) v = bytesOf (trackAll t (bs.map Prod.fst)).unsent ∧
      Spec.peak regs qs (backlogOps v bs) ≤ max (trackAll t (bs.map Prod.fst)).peak (wishMax bs)
  | [], qs, t, _, _, hq, _ => by
    simp [backlogOps, Spec.run, trackAll, hq, Spec.peak]
  | (b, k) :: bs, qs, t, hv, hs, hq, hadm => by
    obtain ⟨hb, hadm⟩ := hadm
    have hlen : (Spec.get qs v).length = t.all.length - t.sent := by
      rw [hq]; simp [bytesOf, Track.unsent]
    have key : ∀ (q' : Spec.Queue), Spec.step regs qs (b.op v) = qs.set v q' → q' = bytesOf (track t b).unsent →
        (track t b).sent ≤ (track t b).all.length → Spec.demand qs (b.op v) ≤ (track t b).peak →
        Spec.get (Spec.run regs qs ((backlogOps v ((b, k) :: bs)).map Prod.fst)) v =
            bytesOf (trackAll t (((b, k) :: bs).map Prod.fst)).unsent ∧
          Spec.peak regs qs (backlogOps v ((b, k) :: bs)) ≤ max (trackAll t (((b, k) :: bs).map Prod.fst)).peak (wishMax ((b, k) :: bs)) := by
      intro q' hstep hq' hs' hdem
      have ih := spec_backlog regs v bs (qs.set v q') (track t b) (by simpa using hv) hs'
        (by rw [get_set _ _ _ _ hv]; simpa using hq') hadm
      have hmono := peak_mono (bs.map Prod.fst) (track t b)
      refine ⟨?_, ?_⟩
      · simpa [backlogOps, Spec.run, trackAll, hstep] using ih.1
      · have h2 := ih.2
        simp only [backlogOps, List.map_cons, Spec.peak, trackAll, wishMax, hstep] at h2 ⊢
        omega
    cases b with
    | append d =>
      refine key (Spec.get qs v ++ bytesOf d) rfl ?_ (by simp [track]; omega) ?_
      · rw [hq]
        simp only [track, Track.unsent, bytesOf, List.drop_append_of_le_length hs, List.map_append]
      · simp only [BOp.op, Spec.demand, track, hlen, List.length_append]
        omega
    | removeFront n =>
      have hn : n ≤ t.all.length - t.sent := by simpa [Track.unsent] using hb
      refine key (Spec.removeFront (Spec.get qs v) n) rfl ?_ (by simp [track]; omega) (by simp [BOp.op, Spec.demand])
      rw [hq]
      simp [track, Track.unsent, bytesOf, Spec.removeFront, List.map_drop, List.drop_drop]
    | clear =>
      exact key [] rfl (by simp [track, Track.unsent, bytesOf]) (by simp [track]) (by simp [BOp.op, Spec.demand])
    | free =>
      exact key [] rfl (by simp [track, Track.unsent, bytesOf]) (by simp [track]) (by simp [BOp.op, Spec.demand])

/-! ### several clients, interleaved -/

/-- one backlog operation on the reference byte queue of variable `c` -/
theorem bop_spec (regs : List (List Byte)) (qs : List Spec.Queue) (c : Nat) (t : Track) (b : BOp) (hc : c < qs.length)
    (hs : t.sent ≤ t.all.length) (hq : Spec.get qs c = bytesOf t.unsent)
    (hb : match b with | .removeFront n => n ≤ t.unsent.length | _ => True) :
    Spec.step regs qs (b.op c) = qs.set c (bytesOf (track t b).unsent) ∧ (track t b).sent ≤ (track t b).all.length ∧
      Spec.demand qs (b.op c) ≤ (track t b).peak := by
  have hlen : (Spec.get qs c).length = t.all.length - t.sent := by
    rw [hq]; simp [bytesOf, Track.unsent]
  cases b with
  | append d =>
    refine ⟨?_, by simp [track]; omega, ?_⟩
    · simp only [BOp.op, Spec.step, hq]
      simp only [track, Track.unsent, bytesOf, List.drop_append_of_le_length hs, List.map_append]
    · simp only [BOp.op, Spec.demand, track, hlen, List.length_append]
      omega
  | removeFront n =>
    have hn : n ≤ t.all.length - t.sent := by simpa [Track.unsent] using hb
    refine ⟨?_, by simp [track]; omega, by simp [BOp.op, Spec.demand]⟩
    simp only [BOp.op, Spec.step, hq]
    simp [track, Track.unsent, bytesOf, Spec.removeFront, List.map_drop, List.drop_drop]
  | clear => exact ⟨by simp [BOp.op, Spec.step, track, Track.unsent, bytesOf], by simp [track], by simp [BOp.op, Spec.demand]⟩
  | free => exact ⟨by simp [BOp.op, Spec.step, track, Track.unsent, bytesOf], by simp [track], by simp [BOp.op, Spec.demand]⟩

/-- a history of several clients: (client variable, operation, capacity wish) -/
abbrev MOp := Nat × BOp × Nat

def mops (ops : List MOp) : List (Op × Nat) := ops.map (fun p => (p.2.1.op p.1, p.2.2))

/-- what client `v` does in the history -/
def proj (v : Nat) (ops : List MOp) : List (BOp × Nat) := (ops.filter (fun p => p.1 == v)).map (fun p => p.2)

theorem proj_cons (v : Nat) (p : MOp) (ops : List MOp) :
    proj v (p :: ops) = if p.1 = v then p.2 :: proj v ops else proj v ops := by
  by_cases h : p.1 = v <;> simp [proj, List.filter_cons, h]

theorem bop_target (c : Nat) (b : BOp) : (b.op c).target = c := by cases b <;> rfl

theorem bop_not_swap (c : Nat) (b : BOp) : ∀ x y, b.op c ≠ .swap x y := by cases b <;> intro x y h <;> cases h

/-- interleaved backlog histories of any number of clients, from any state in which every variable's reference queue is
    its tracked unsent suffix and its capacity is within its own high-water mark / wishes -/
theorem multi_run : ∀ (ops : List MOp) (st : State) (qs : List Spec.Queue) (T : Nat → Track) (W : Nat → Nat),
    Inv st → Rel qs st → (∀ p ∈ ops, p.1 < st.bufs.length) →
    (∀ v b, st.bufs[v]? = some b → Spec.get qs v = bytesOf (T v).unsent ∧ (T v).sent ≤ (T v).all.length ∧
      b.cap ≤ max (T v).peak (W v)) →
    (∀ v, Admissible (T v) ((proj v ops).map Prod.fst)) →
    ∃ st' qs', run st (mops ops) = some st' ∧ Inv st' ∧ Rel qs' st' ∧ st'.bufs.length = st.bufs.length ∧
      ∀ v b, st'.bufs[v]? = some b →
        Spec.get qs' v = bytesOf (trackAll (T v) ((proj v ops).map Prod.fst)).unsent ∧
        b.cap ≤ max (trackAll (T v) ((proj v ops).map Prod.fst)).peak (max (W v) (wishMax (proj v ops)))
  | [], st, qs, T, W, hi, hr, _, hinv, _ => by
    refine ⟨st, qs, rfl, hi, hr, rfl, fun v b hb => ?_⟩
    obtain ⟨h1, _, h3⟩ := hinv v b hb
    simp only [proj, List.filter_nil, List.map_nil, trackAll, wishMax]
    exact ⟨h1, by omega⟩
  | (c, bop, k) :: ops, st, qs, T, W, hi, hr, hvs, hinv, hadm => by
    have hc : c < st.bufs.length := hvs (c, bop, k) (by simp)
    have hbc : st.bufs[c]? = some st.bufs[c] := List.getElem?_eq_getElem hc
    obtain ⟨hqc, hsc, hcapc⟩ := hinv c _ hbc
    have hadc := hadm c
    simp only [proj_cons, if_true, List.map_cons] at hadc
    obtain ⟨hb, hadc'⟩ := hadc
    obtain ⟨hstep, hs', hdem⟩ := bop_spec st.regs qs c (T c) bop (hr.1 ▸ hc) hsc hqc hb
    obtain ⟨st1, h1, p1⟩ := step_ok hi hr k (bop.op c) (by cases bop <;> simpa [BOp.op, WFOp] using hc)
    have hpv := step_cap_var hi hr h1 (bop_not_swap c bop) c (bop_target c bop)
    -- the tracks / wishes after this operation
    let T' : Nat → Track := fun v => if v = c then track (T c) bop else T v
    let W' : Nat → Nat := fun v => if v = c then max (W c) k else W v
    have hinv' : ∀ v b, st1.bufs[v]? = some b → Spec.get (Spec.step st.regs qs (bop.op c)) v = bytesOf (T' v).unsent ∧
        (T' v).sent ≤ (T' v).all.length ∧ b.cap ≤ max (T' v).peak (W' v) := by
      intro v b hbv
      obtain ⟨b0, hb0, hcap, hsame⟩ := hpv v b hbv
      obtain ⟨hq0, hs0, hc0⟩ := hinv v b0 hb0
      rw [hstep, get_set _ _ _ _ (hr.1 ▸ hc)]
      by_cases hv : c = v
      · subst hv
        simp only [T', W', if_true]
        refine ⟨by simp, hs', ?_⟩
        simp only [if_true] at hcap
        have hm : (T c).peak ≤ (track (T c) bop).peak := by cases bop <;> simp only [track] <;> omega
        omega
      · have hv' : ¬ v = c := fun h => hv h.symm
        simp only [T', W', hv, hv', if_false]
        rw [hsame hv]
        exact ⟨hq0, hs0, hc0⟩
    have hadm' : ∀ v, Admissible (T' v) ((proj v ops).map Prod.fst) := by
      intro v
      have := hadm v
      simp only [proj_cons] at this
      by_cases hv : c = v
      · subst hv
        simp only [T', if_true]
        exact hadc'
      · have hv' : ¬ v = c := fun h => hv h.symm
        simp only [hv, if_false] at this
        simp only [T', hv', if_false]
        exact this
    have hvs' : ∀ p ∈ ops, p.1 < st1.bufs.length := by
      intro p hp
      rw [p1.2.2.2]
      exact hvs p (by simp [hp])
    obtain ⟨st2, qs2, h2, hi2, hr2, hl2, hfin⟩ := multi_run ops st1 _ T' W' p1.1 p1.2.1 hvs' hinv' hadm'
    refine ⟨st2, qs2, ?_, hi2, hr2, hl2.trans p1.2.2.2, fun v b hbv => ?_⟩
    · simp [mops, run, h1] at h2 ⊢
      exact h2
    · obtain ⟨f1, f2⟩ := hfin v b hbv
      simp only [proj_cons]
      by_cases hv : c = v
      · subst hv
        simp only [T', W', if_true, List.map_cons, trackAll, wishMax] at f1 f2 ⊢
        exact ⟨f1, by omega⟩
      · have hv' : ¬ v = c := fun h => hv h.symm
        simp only [T', W', hv, hv', if_false] at f1 f2 ⊢
        exact ⟨f1, f2⟩

end Nstd.Buffer
