import Nstd.Buffer.LemmasCap
import Nstd.Buffer.Client
/-
  Definitions and helper lemmas for the client-level theorem `backlog_faithful` (PropsBacklog.lean): the operations
  Server.cpp performs on a client's send backlog, what the client knows about it (`Track`), and the reference byte
  queue run on such a history (`spec_backlog`).
-/
namespace Nstd.Buffer

/-- what the client knows about its backlog -/
structure Track where
  /-- the concatenation of the chunks appended since the backlog was last dropped -/
  all : List Nat := []
  /-- how many of those bytes have been sent (removed at the front) -/
  sent : Nat := 0
  /-- high-water mark of the number of unsent bytes (over the whole history) -/
  peak : Nat := 0
  deriving Repr

/-- the unsent suffix of the concatenation of the appended chunks -/
def Track.unsent (t : Track) : List Nat := t.all.drop t.sent

def track (t : Track) : BOp → Track
  | .append d => { all := t.all ++ d, sent := t.sent, peak := max t.peak ((t.all ++ d).length - t.sent) }
  | .removeFront n => { all := t.all, sent := t.sent + n, peak := t.peak }
  | .clear => { all := [], sent := 0, peak := t.peak }
  | .free => { all := [], sent := 0, peak := t.peak }

def trackAll (t : Track) : List BOp → Track
  | [] => t
  | b :: bs => trackAll (track t b) bs

/-- the protocol: `removeFront k` only with `k ≤ size()` (`send` accepts at most what it is given) -/
def Admissible : Track → List BOp → Prop
  | _, [] => True
  | t, b :: bs => (match b with | .removeFront n => n ≤ t.unsent.length | _ => True) ∧ Admissible (track t b) bs

/-- the largest capacity wish of the environment along the history (0 = today's Buffer.hpp throughout) -/
def wishMax : List (BOp × Nat) → Nat
  | [] => 0
  | p :: bs => max p.2 (wishMax bs)

/-- the history on variable `v` -/
def backlogOps (v : Nat) (bs : List (BOp × Nat)) : List (Op × Nat) := bs.map (fun p => (p.1.op v, p.2))

theorem match_bytesOf_eq {x : List Nat} {c : List Byte} (h : Match (bytesOf x) c) : c = bytesOf x := by
  rw [match_iff] at h
  apply List.ext_getElem?
  intro i
  rcases h.2 i with h1 | h1
  · simp [bytesOf] at h1
  · exact h1.symm

theorem peak_mono : ∀ (bs : List BOp) (t : Track), t.peak ≤ (trackAll t bs).peak
  | [], t => Nat.le_refl _
  | b :: bs, t => by
    have h := peak_mono bs (track t b)
    have : t.peak ≤ (track t b).peak := by cases b <;> simp only [track] <;> omega
    simp only [trackAll]
    omega

/-- the reference byte queue run on a backlog history is the unsent suffix, and the sizes it requests never exceed the
    high-water mark -/
theorem spec_backlog (regs : List (List Byte)) (v : Nat) : ∀ (bs : List (BOp × Nat)) (qs : List Spec.Queue) (t : Track),
    v < qs.length → t.sent ≤ t.all.length → Spec.get qs v = bytesOf t.unsent → Admissible t (bs.map Prod.fst) →
    Spec.get (Spec.run regs qs ((backlogOps v bs).map Prod.fst)) v = bytesOf (trackAll t (bs.map Prod.fst)).unsent ∧
      Spec.peak regs qs (backlogOps v bs) ≤ max (trackAll t (bs.map Prod.fst)).peak (wishMax bs)
  | [], qs, t, _, _, hq, _ => by
    simp [backlogOps, Spec.run, trackAll, hq, Spec.peak]
  | (b, k) :: bs, qs, t, hv, hs, hq, hadm => by
    obtain ⟨hb, hadm⟩ := hadm
    have hlen : (Spec.get qs v).length = t.all.length - t.sent := by
      rw [hq]; simp [bytesOf, Track.unsent]
    have key : ∀ (q' : Spec.Queue), Spec.step regs qs (b.op v) = qs.set v q' → q' = bytesOf (track t b).unsent →
        (track t b).sent ≤ (track t b).all.length → Spec.demand qs (b.op v) ≤ (track t b).peak →
        Spec.get (Spec.run regs qs ((backlogOps v ((b, k) :: bs)).map Prod.fst)) v =
            bytesOf (trackAll t (((b, k) :: bs).map Prod.fst)).unsent ∧
          Spec.peak regs qs (backlogOps v ((b, k) :: bs)) ≤ max (trackAll t (((b, k) :: bs).map Prod.fst)).peak (wishMax ((b, k) :: bs)) := by
      intro q' hstep hq' hs' hdem
      have ih := spec_backlog regs v bs (qs.set v q') (track t b) (by simpa using hv) hs'
        (by rw [get_set _ _ _ _ hv]; simpa using hq') hadm
      have hmono := peak_mono (bs.map Prod.fst) (track t b)
      refine ⟨?_, ?_⟩
      · simpa [backlogOps, Spec.run, trackAll, hstep] using ih.1
      · have h2 := ih.2
        simp only [backlogOps, List.map_cons, Spec.peak, trackAll, wishMax, hstep] at h2 ⊢
        omega
    cases b with
    | append d =>
      refine key (Spec.get qs v ++ bytesOf d) rfl ?_ (by simp [track]; omega) ?_
      · rw [hq]
        simp only [track, Track.unsent, bytesOf, List.drop_append_of_le_length hs, List.map_append]
      · simp only [BOp.op, Spec.demand, track, hlen, List.length_append]
        omega
    | removeFront n =>
      have hn : n ≤ t.all.length - t.sent := by simpa [Track.unsent] using hb
      refine key (Spec.removeFront (Spec.get qs v) n) rfl ?_ (by simp [track]; omega) (by simp [BOp.op, Spec.demand])
      rw [hq]
      simp [track, Track.unsent, bytesOf, Spec.removeFront, List.map_drop, List.drop_drop]
    | clear =>
      exact key [] rfl (by simp [track, Track.unsent, bytesOf]) (by simp [track]) (by simp [BOp.op, Spec.demand])
    | free =>
      exact key [] rfl (by simp [track, Track.unsent, bytesOf]) (by simp [track]) (by simp [BOp.op, Spec.demand])

end Nstd.Buffer
