import Nstd.Buffer.Model
/-
  Proof infrastructure for the Buffer model:
   * `wr` / `rd`: total versions of a checked store / load with pointwise lemmas,
   * `Ok o P`: "`o` does not fault and its result satisfies `P`" with a small
     weakest-precondition calculus for the `Option` monad,
   * `BInv`: the representation invariant of one Buffer object, `Buf.data`: its exposed bytes.
-/
namespace Nstd.Buffer

/-- result of a checked store (the memory is unchanged when the store is out of range) -/
def wr (m : List Byte) (off : Nat) (d : List Byte) : List Byte :=
  if off + d.length ≤ m.length then m.take off ++ d ++ m.drop (off + d.length) else m

/-- result of a load -/
def rd (m : List Byte) (off n : Nat) : List Byte := (m.drop off).take n

@[simp, grind =] theorem wr_length (m off d) : (wr m off d).length = m.length := by
  unfold wr; split <;> simp; omega

@[simp, grind =] theorem rd_length (m off n) : (rd m off n).length = min n (m.length - off) := by
  simp [rd]

@[simp, grind =] theorem fresh_length (n) : (fresh n).length = n := by simp [fresh]

@[grind =] theorem wr_get (m off d) (i : Nat) :
    (wr m off d)[i]? =
      if off + d.length ≤ m.length ∧ off ≤ i ∧ i < off + d.length then d[i - off]? else m[i]? := by
  unfold wr
  by_cases h : off + d.length ≤ m.length
  · have hm : min off m.length = off := by omega
    simp only [h, if_true, true_and, List.append_assoc]
    rw [List.getElem?_append, List.getElem?_append]
    simp only [List.length_take, hm, List.getElem?_take, List.getElem?_drop]
    by_cases h1 : i < off
    · have : ¬ (off ≤ i ∧ i < off + d.length) := by omega
      simp [h1, this]
    · by_cases h2 : i - off < d.length
      · have : (off ≤ i ∧ i < off + d.length) := by omega
        simp [h1, h2, this]
      · have : ¬ (off ≤ i ∧ i < off + d.length) := by omega
        simp only [h1, h2, this, if_false]
        congr 1; omega
  · simp [h]

@[grind =] theorem rd_get (m off n) (i : Nat) :
    (rd m off n)[i]? = if i < n then m[off + i]? else none := by
  unfold rd; grind

@[grind =] theorem fresh_get (n i : Nat) : (fresh n)[i]? = if i < n then some none else none := by
  unfold fresh; grind

/-! ### success-with-postcondition for the `Option` monad -/

/-- `o` succeeds (no fault) and its result satisfies `P` -/
def Ok {α : Type} (o : Option α) (P : α → Prop) : Prop := ∃ a, o = some a ∧ P a

theorem ok_some {α} (a : α) (P : α → Prop) : Ok (some a) P ↔ P a := by simp [Ok]
theorem ok_pure {α} (a : α) (P : α → Prop) : Ok (pure a) P ↔ P a := by simp [Ok]
theorem ok_none {α} (P : α → Prop) : Ok (none : Option α) P ↔ False := by simp [Ok]
theorem ok_bind {α β} (x : Option α) (f : α → Option β) (P : β → Prop) :
    Ok (x >>= f) P ↔ Ok x (fun a => Ok (f a) P) := by
  cases x <;> simp [Ok]
theorem ok_map {α β} (x : Option α) (f : α → β) (P : β → Prop) :
    Ok (x.map f) P ↔ Ok x (fun a => P (f a)) := by
  cases x <;> simp [Ok]
theorem ok_ite {α} (c : Prop) [Decidable c] (x y : Option α) (P : α → Prop) :
    Ok (if c then x else y) P ↔ (c → Ok x P) ∧ (¬ c → Ok y P) := by
  by_cases h : c <;> simp [h]

theorem Ok.mono {α} {o : Option α} {P Q : α → Prop} (h : Ok o P) (hpq : ∀ a, P a → Q a) : Ok o Q := by
  obtain ⟨a, ha, hp⟩ := h
  exact ⟨a, ha, hpq a hp⟩

theorem ok_wrList (m off d) (P : List Byte → Prop) :
    Ok (wrList m off d) P ↔ off + d.length ≤ m.length ∧ P (wr m off d) := by
  unfold wrList wr; by_cases h : off + d.length ≤ m.length <;> simp [h, Ok]

theorem ok_rdList (m off n) (P : List Byte → Prop) :
    Ok (rdList m off n) P ↔ off + n ≤ m.length ∧ P (rd m off n) := by
  unfold rdList rd; by_cases h : off + n ≤ m.length <;> simp [h, Ok]

theorem ok_ptrSub (p n) (P : Nat → Prop) : Ok (ptrSub p n) P ↔ n ≤ p ∧ ∀ q, p = q + n → P q := by
  unfold ptrSub
  by_cases h : n ≤ p
  · simp only [h, if_true, Ok, Option.some.injEq, exists_eq_left', true_and]
    constructor
    · intro hp q hq
      have : p - n = q := by omega
      exact this ▸ hp
    · intro hq
      exact hq (p - n) (by omega)
  · simp [h, Ok]

/-! ### the same for the ledger monad `M` -/

/-- `x` started in ledger `L` succeeds (no fault) and result and final ledger satisfy `P` -/
def OkM {α : Type} (x : M α) (L : Ledger) (P : α → Ledger → Prop) : Prop :=
  ∃ a L', x L = some (a, L') ∧ P a L'

theorem okM_of_some {α} {x : M α} {L : Ledger} {a : α} {L' : Ledger} (h : x L = some (a, L'))
    (P : α → Ledger → Prop) : OkM x L P ↔ P a L' := by
  constructor
  · rintro ⟨a', L'', h', hp⟩
    rw [h] at h'
    cases h'
    exact hp
  · intro hp
    exact ⟨a, L', h, hp⟩
theorem okM_of_none {α} {x : M α} {L : Ledger} (h : x L = none) (P : α → Ledger → Prop) :
    OkM x L P ↔ False := by
  constructor
  · rintro ⟨a', L'', h', _⟩
    rw [h] at h'
    cases h'
  · exact False.elim

theorem okM_pure {α} (a : α) (L : Ledger) (P : α → Ledger → Prop) : OkM (pure a) L P ↔ P a L :=
  okM_of_some rfl P
theorem okM_bind {α β} (x : M α) (f : α → M β) (L : Ledger) (P : β → Ledger → Prop) :
    OkM (x >>= f) L P ↔ OkM x L (fun a L' => OkM (f a) L' P) := by
  cases h : x L with
  | none =>
    have h2 : (x >>= f) L = none := by simp [bind, h]
    rw [okM_of_none h, okM_of_none h2]
  | some r =>
    obtain ⟨a, L'⟩ := r
    rw [okM_of_some h]
    have h2 : (x >>= f) L = f a L' := by simp [bind, h]
    simp only [OkM, h2]
theorem okM_liftO {α} (o : Option α) (L : Ledger) (P : α → Ledger → Prop) :
    OkM (liftO o) L P ↔ Ok o (fun a => P a L) := by
  cases o with
  | none => rw [okM_of_none (by simp [liftO])]; simp [Ok]
  | some a => rw [okM_of_some (a := a) (L' := L) (by simp [liftO])]; simp [Ok]
theorem okM_fault {α} (L : Ledger) (P : α → Ledger → Prop) : OkM (fault : M α) L P ↔ False :=
  okM_of_none rfl P
theorem okM_ite {α} (c : Prop) [Decidable c] (x y : M α) (L : Ledger) (P : α → Ledger → Prop) :
    OkM (if c then x else y) L P ↔ (c → OkM x L P) ∧ (¬ c → OkM y L P) := by
  by_cases h : c <;> simp [h]
theorem okM_allocId (L : Ledger) (P : Nat → Ledger → Prop) :
    OkM allocId L P ↔ P L.next { next := L.next + 1, live := L.next :: L.live } :=
  okM_of_some rfl P
theorem okM_checkLive (id : Nat) (L : Ledger) (P : Unit → Ledger → Prop) :
    OkM (checkLive id) L P ↔ id ∈ L.live ∧ P () L := by
  by_cases h : id ∈ L.live
  · rw [okM_of_some (a := ()) (L' := L) (by simp [checkLive, h])]; simp [h]
  · rw [okM_of_none (by simp [checkLive, h])]; simp [h]
theorem okM_deleteId (id : Nat) (L : Ledger) (P : Unit → Ledger → Prop) :
    OkM (deleteId id) L P ↔ id ∈ L.live ∧ P () { next := L.next, live := L.live.filter (fun i => i != id) } := by
  by_cases h : id ∈ L.live
  · rw [okM_of_some (a := ()) (L' := { next := L.next, live := L.live.filter (fun i => i != id) })
      (by simp [deleteId, h])]; simp [h]
  · rw [okM_of_none (by simp [deleteId, h])]; simp [h]

theorem OkM.mono {α} {x : M α} {L : Ledger} {P Q : α → Ledger → Prop} (h : OkM x L P)
    (hpq : ∀ a L', P a L' → Q a L') : OkM x L Q := by
  obtain ⟨a, L', ha, hp⟩ := h
  exact ⟨a, L', ha, hpq a L' hp⟩

/-! ### one Buffer object -/

/-- the bytes of the block `bufferStart` points into -/
def Store.mem : Store → List Byte
  | .own _ m => m
  | .att m => m
  | .dflt _ => []

/-- the exposed bytes `[bufferStart, bufferEnd)` -/
def Buf.data (b : Buf) : List Byte := rd b.store.mem b.s (b.e - b.s)

/-- representation invariant of Buffer variable `v`:
     owning   – the block has `_capacity + 1` bytes, `0 ≤ s ≤ e ≤ _capacity`, block[e] = 0
     attached – `_capacity = 0`, the window lies inside the attached range
     default  – the pointers point at the object's own `_capacity` field, everything is 0 -/
def BInv (v : Nat) (b : Buf) : Prop :=
  match b.store with
  | .own _ m => m.length = b.cap + 1 ∧ b.s ≤ b.e ∧ b.e ≤ b.cap ∧ m[b.e]? = some (some 0)
  | .att m => b.cap = 0 ∧ b.s ≤ b.e ∧ b.e ≤ m.length
  | .dflt c => c = v ∧ b.s = 0 ∧ b.e = 0 ∧ b.cap = 0

/-- how a method may change the ledger, `o`/`o'` = block owned by the object before/after: the live
    set loses `o` unless kept and gains `o'`; a new block is fresh (the first or – when the method made a temporary
    Buffer first – the second id handed out by the method) -/
def LStep (o o' : Option Nat) (L L' : Ledger) : Prop :=
  (∀ i, i ∈ L'.live ↔ (o' = some i ∨ (i ∈ L.live ∧ o ≠ some i))) ∧
  (o' = o ∨ o' = none ∨ (o' = some L.next ∧ L.next < L'.next) ∨ (o' = some (L.next + 1) ∧ L.next + 1 < L'.next)) ∧
  L.next ≤ L'.next

/-- unfold a Buffer method into its weakest precondition -/
macro "buf_wp" : tactic => `(tactic|
  simp only [Buf.ctorCap, Buf.ctorData, Buf.attach, Buf.assign, Buf.assignSelf, Buf.prepend, Buf.prependSelf, Buf.prependSub, Buf.appendSub, Buf.assignSub,
    Buf.resize, Buf.termIfOwning, Buf.append, Buf.appendSelf, Buf.home, Buf.removeFront, Buf.removeBack,
    Buf.reserve, Buf.clear, Buf.default, Buf.contents, Buf.free, Buf.destroy, Buf.ownId, newBlock, Store.release,
    Buf.owning, Store.write, Store.load, noOverlap, LStep, newCap,
    okM_bind, okM_pure, okM_liftO, okM_fault, okM_ite, okM_allocId, okM_checkLive, okM_deleteId,
    List.mem_cons, List.mem_filter, bne_iff_ne, ne_eq, Option.some.injEq, reduceCtorEq,
    ok_bind, ok_ite, ok_map, ok_wrList, ok_rdList, ok_ptrSub, ok_pure, ok_some, ok_none,
    BInv, Buf.data, Store.mem, wr_length, rd_length, fresh_length, List.length_cons, List.length_nil,
    Bool.or_eq_true, decide_eq_true_eq, Bool.false_eq_true, false_and, true_and, ite_true, ite_false,
    if_true, if_false, not_true, not_false_eq_true, false_implies, implies_true, and_true, true_implies])

/-- split the weakest precondition and discharge arithmetic / pointwise memory goals -/
macro "mem_finish" : tactic => `(tactic| (
  repeat' first | intro _ | apply And.intro
  all_goals first | omega | skip
  all_goals first | (apply List.ext_getElem?; intro i; grind) | grind))

end Nstd.Buffer
