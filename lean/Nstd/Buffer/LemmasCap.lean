import Nstd.Buffer.LemmasStep
/-
  Capacity: which `_capacity` a method leaves behind.  One lemma per method (`…_cap`): the new capacity is at
  most the larger of the old capacity and `max (size the method needs) (capacity wish of the environment)`;
  `step_cap` lifts this to program states and `Spec.demand` (the size an operation requests, computed from the
  byte-queue specification), `run_cap` to histories.  Also `reserve_cap`: `reserve(n)` leaves a capacity `≥ n`.
-/
namespace Nstd.Buffer
set_option linter.unusedVariables false

theorem data_length {v : Nat} {b : Buf} (hb : BInv v b) : b.data.length = b.e - b.s := by
  obtain ⟨st, s, e, cap⟩ := b
  cases st <;> simp only [BInv] at hb <;> simp only [Buf.data, Store.mem, rd_length] <;> grind

/-- `operator!=`: `size != other.size || Memory::compare(other.bufferStart, bufferStart, size) != 0` -/
def notEqualBufs (st : State) (v w : Nat) : Option Bool := do
  let a ← contents st v
  let b ← contents st w
  pure (a.length != b.length || a != b)

/-! ### per method -/

theorem free_cap {v : Nat} {b : Buf} {L : Ledger} (hL : LiveIn b L) (hbd : Bounded L) :
    OkM (Buf.free v b) L (fun b' _ => b'.cap = 0) := by
  unfold LiveIn Bounded at *
  obtain ⟨st, s, e, cap⟩ := b
  cases st <;>
    (try simp only [Buf.ownId, Option.some.injEq, forall_eq', reduceCtorEq, false_implies, implies_true] at hL) <;>
    buf_wp <;> mem_finish

theorem ctorCap_cap (n k : Nat) {b : Buf} {L : Ledger} (hL : LiveIn b L) (hbd : Bounded L) :
    OkM (do b.destroy; Buf.ctorCap n k) L (fun b' _ => b'.cap = max n k) := by
  unfold LiveIn Bounded at *
  obtain ⟨st, s, e, cap⟩ := b
  cases st <;>
    (try simp only [Buf.ownId, Option.some.injEq, forall_eq', reduceCtorEq, false_implies, implies_true] at hL) <;>
    buf_wp <;> mem_finish

theorem ctorData_cap (d : List Byte) (k : Nat) {b : Buf} {L : Ledger} (hL : LiveIn b L) (hbd : Bounded L) :
    OkM (do b.destroy; Buf.ctorData d k) L (fun b' _ => b'.cap = max d.length k) := by
  unfold LiveIn Bounded at *
  obtain ⟨st, s, e, cap⟩ := b
  cases st <;>
    (try simp only [Buf.ownId, Option.some.injEq, forall_eq', reduceCtorEq, false_implies, implies_true] at hL) <;>
    buf_wp <;> mem_finish

theorem attach_cap (range : List Byte) {b : Buf} {L : Ledger} (hL : LiveIn b L) (hbd : Bounded L) :
    OkM (b.attach range) L (fun b' _ => b'.cap = 0) := by
  unfold LiveIn Bounded at *
  obtain ⟨st, s, e, cap⟩ := b
  cases st <;>
    (try simp only [Buf.ownId, Option.some.injEq, forall_eq', reduceCtorEq, false_implies, implies_true] at hL) <;>
    buf_wp <;> mem_finish

theorem assign_cap {v : Nat} {b : Buf} {L : Ledger} (hb : BInv v b) (hL : LiveIn b L) (hbd : Bounded L) (d : List Byte) (k : Nat) :
    OkM (b.assign d k) L (fun b' _ => b'.cap ≤ max b.cap (max d.length k)) := by
  unfold LiveIn Bounded at *
  buf_method b hb hL

theorem assignSelf_cap {v : Nat} {b : Buf} {L : Ledger} (hb : BInv v b) (hL : LiveIn b L) (hbd : Bounded L) (k : Nat) :
    OkM (b.assignSelf k) L (fun b' _ => b'.cap ≤ max b.cap (max (b.e - b.s) k)) := by
  unfold LiveIn Bounded at *
  buf_method b hb hL

theorem prepend_cap {v : Nat} {b : Buf} {L : Ledger} (hb : BInv v b) (hL : LiveIn b L) (hbd : Bounded L) (d : List Byte) (k : Nat) :
    OkM (b.prepend d k) L (fun b' _ => b'.cap ≤ max b.cap (max (d.length + (b.e - b.s)) k)) := by
  unfold LiveIn Bounded at *
  buf_method b hb hL

theorem prependSelf_cap {v : Nat} {b : Buf} {L : Ledger} (hb : BInv v b) (hL : LiveIn b L) (hbd : Bounded L) (k : Nat) :
    OkM (b.prependSelf k) L (fun b' _ => b'.cap ≤ max b.cap (max ((b.e - b.s) + (b.e - b.s)) k)) := by
  unfold LiveIn Bounded at *
  buf_method b hb hL

theorem prependSub_cap {v : Nat} {b : Buf} {L : Ledger} (hb : BInv v b) (hL : LiveIn b L) (hbd : Bounded L) (off len k : Nat)
    (h : off + len ≤ b.e - b.s) :
    OkM (b.prependSub off len k) L (fun b' _ => b'.cap ≤ max b.cap (max (len + (b.e - b.s)) k)) := by
  unfold LiveIn Bounded at *
  obtain ⟨st, s, e, cap⟩ := b
  cases st with
  | own id m =>
    simp only [BInv] at hb
    simp only [] at h
    simp only [Buf.ownId, Option.some.injEq, forall_eq'] at hL
    by_cases hs : len ≤ s
    · obtain ⟨q, rfl⟩ : ∃ q, s = q + len := ⟨s - len, by omega⟩
      buf_wp
      mem_finish
    · buf_wp
      mem_finish
  | att m => simp only [BInv] at hb; simp only [] at h; buf_wp; mem_finish
  | dflt c => simp only [BInv] at hb; simp only [] at h; buf_wp; mem_finish

theorem assignSub_cap {v : Nat} {b : Buf} {L : Ledger} (hb : BInv v b) (hL : LiveIn b L) (hbd : Bounded L) (off len k : Nat)
    (h : off + len ≤ b.e - b.s) :
    OkM (b.assignSub off len k) L (fun b' _ => b'.cap ≤ max b.cap (max len k)) := by
  unfold LiveIn Bounded at *
  obtain ⟨st, s, e, cap⟩ := b
  cases st <;> simp only [BInv] at hb <;> simp only [] at h <;>
    (try simp only [Buf.ownId, Option.some.injEq, forall_eq', reduceCtorEq, false_implies, implies_true] at hL) <;>
    buf_wp <;> mem_finish

theorem appendSub_cap {v : Nat} {b : Buf} {L : Ledger} (hb : BInv v b) (hL : LiveIn b L) (hbd : Bounded L) (off len k : Nat)
    (h : off + len ≤ b.e - b.s) :
    OkM (b.appendSub off len k) L (fun b' _ => b'.cap ≤ max b.cap (max ((b.e - b.s) + len) k)) := by
  unfold LiveIn Bounded at *
  obtain ⟨st, s, e, cap⟩ := b
  cases st with
  | own id m =>
    simp only [BInv] at hb
    simp only [] at h
    simp only [Buf.ownId, Option.some.injEq, forall_eq'] at hL
    obtain ⟨n, rfl⟩ : ∃ n, e = s + n := ⟨e - s, by omega⟩
    simp only [Nat.add_sub_cancel_left] at h
    simp only [Buf.appendSub, okM_bind, okM_liftO, ok_ptrSub']
    buf_wp
    simp only [Nat.add_sub_cancel_left, ← Nat.add_assoc, Nat.add_sub_cancel]
    mem_finish
  | att m => simp only [BInv] at hb; simp only [] at h; buf_wp; mem_finish
  | dflt c => simp only [BInv] at hb; simp only [] at h; buf_wp; mem_finish

/-- the clamp of the op lines `prependsub`/`appendsub`/`assignsub` yields a sub-range of the window of the length the
    byte-queue view gives it -/
theorem clamp_len {b : Buf} {v : Nat} (hb : BInv v b) (off len : Nat) :
    let size := b.e - b.s
    let off' := if off < size then off else size
    let len' := if len < size - off' then len else size - off'
    off' + len' ≤ b.e - b.s ∧ len' = ((b.data.drop off).take len).length := by
  have hlen := data_length hb
  refine ⟨by split <;> split <;> omega, ?_⟩
  simp only [List.length_take, List.length_drop, hlen]
  split <;> split <;> omega

theorem prependSubClamped_cap {v : Nat} {b : Buf} {L : Ledger} (hb : BInv v b) (hL : LiveIn b L) (hbd : Bounded L) (off len k : Nat) :
    OkM (b.prependSubClamped off len k) L (fun b' _ =>
      b'.cap ≤ max b.cap (max (((b.data.drop off).take len).length + b.data.length) k)) := by
  obtain ⟨h1, h2⟩ := clamp_len hb off len
  unfold Buf.prependSubClamped
  refine (prependSub_cap hb hL hbd _ _ k h1).mono (fun b' _ h => ?_)
  rw [← h2, data_length hb]
  exact h

theorem appendSubClamped_cap {v : Nat} {b : Buf} {L : Ledger} (hb : BInv v b) (hL : LiveIn b L) (hbd : Bounded L) (off len k : Nat) :
    OkM (b.appendSubClamped off len k) L (fun b' _ =>
      b'.cap ≤ max b.cap (max (b.data.length + ((b.data.drop off).take len).length) k)) := by
  obtain ⟨h1, h2⟩ := clamp_len hb off len
  unfold Buf.appendSubClamped
  refine (appendSub_cap hb hL hbd _ _ k h1).mono (fun b' _ h => ?_)
  rw [← h2, data_length hb]
  exact h

theorem assignSubClamped_cap {v : Nat} {b : Buf} {L : Ledger} (hb : BInv v b) (hL : LiveIn b L) (hbd : Bounded L) (off len k : Nat) :
    OkM (b.assignSubClamped off len k) L (fun b' _ =>
      b'.cap ≤ max b.cap (max ((b.data.drop off).take len).length k)) := by
  obtain ⟨h1, h2⟩ := clamp_len hb off len
  unfold Buf.assignSubClamped
  refine (assignSub_cap hb hL hbd _ _ k h1).mono (fun b' _ h => ?_)
  rw [← h2]
  exact h

theorem resize_cap {v : Nat} {b : Buf} {L : Ledger} (hb : BInv v b) (hL : LiveIn b L) (hbd : Bounded L) (n k : Nat) :
    OkM (b.resize n k) L (fun b' _ => b'.cap ≤ max b.cap (max n k)) := by
  unfold LiveIn Bounded at *
  buf_method b hb hL

theorem append_cap {v : Nat} {b : Buf} {L : Ledger} (hb : BInv v b) (hL : LiveIn b L) (hbd : Bounded L) (d : List Byte) (k : Nat) :
    OkM (b.append d k) L (fun b' _ => b'.cap ≤ max b.cap (max ((b.e - b.s) + d.length) k)) := by
  unfold LiveIn Bounded at *
  buf_method b hb hL

theorem appendSelf_cap {v : Nat} {b : Buf} {L : Ledger} (hb : BInv v b) (hL : LiveIn b L) (hbd : Bounded L) (k : Nat) :
    OkM (b.appendSelf k) L (fun b' _ => b'.cap ≤ max b.cap (max ((b.e - b.s) + (b.e - b.s)) k)) := by
  unfold LiveIn Bounded at *
  buf_method b hb hL

theorem removeFront_cap {v : Nat} {b : Buf} {L : Ledger} (hb : BInv v b) (hL : LiveIn b L) (hbd : Bounded L) (n : Nat) :
    OkM (b.removeFront v n) L (fun b' _ => b'.cap = b.cap) := by
  unfold LiveIn Bounded at *
  buf_method b hb hL

theorem removeBack_cap {v : Nat} {b : Buf} {L : Ledger} (hb : BInv v b) (hL : LiveIn b L) (hbd : Bounded L) (n : Nat) :
    OkM (b.removeBack v n) L (fun b' _ => b'.cap = b.cap) := by
  unfold LiveIn Bounded at *
  buf_method b hb hL

/-- `reserve(n)`: the capacity is at least `n` afterwards, never shrinks, and is bounded by old capacity / request / wish -/
theorem reserve_cap {v : Nat} {b : Buf} {L : Ledger} (hb : BInv v b) (hL : LiveIn b L) (hbd : Bounded L) (n k : Nat) :
    OkM (b.reserve n k) L (fun b' _ => n ≤ b'.cap ∧ b.cap ≤ b'.cap ∧ b'.cap ≤ max b.cap (max (max n (b.e - b.s)) k) ∧
      b'.e - b'.s = b.e - b.s) := by
  unfold LiveIn Bounded at *
  buf_method b hb hL

theorem clear_cap {v : Nat} {b : Buf} {L : Ledger} (hb : BInv v b) (hL : LiveIn b L) (hbd : Bounded L) :
    OkM b.clear L (fun b' _ => b'.cap = b.cap) := by
  unfold LiveIn Bounded at *
  buf_method b hb hL

theorem rehome_cap (owner other : Nat) (b : Buf) : (b.rehome owner other).cap = b.cap := by
  obtain ⟨st, s, e, cap⟩ := b
  cases st <;> simp only [Buf.rehome]
  split <;> rfl

/-! ### program states -/

/-- every variable's `_capacity` is at most `N` -/
abbrev CapLe (N : Nat) (st : State) : Prop := ∀ (v : Nat) (b : Buf), st.bufs[v]? = some b → b.cap ≤ N

theorem upd_elim {st st' : State} {v : Nat} {f : Buf → M Buf} (h : st.upd v f = some st') :
    ∃ b b' L', st.bufs[v]? = some b ∧ f b st.led = some (b', L') ∧ st' = st.setBL v b' L' := by
  unfold State.upd State.getBuf at h
  cases hb : st.bufs[v]? with
  | none => simp [hb] at h
  | some b =>
    cases hf : f b st.led with
    | none => simp [hb, hf] at h
    | some r =>
      obtain ⟨b', L'⟩ := r
      simp [hb, hf] at h
      exact ⟨b, b', L', rfl, hf, by rw [← h]; rfl⟩

theorem updFrom_elim {st st' : State} {v w : Nat} {f : Buf → List Byte → M Buf} (hi : Inv st)
    (h : st.updFrom v w f = some st') :
    ∃ bw, st.bufs[w]? = some bw ∧ st.upd v (fun b => f b bw.data) = some st' := by
  obtain ⟨hv, hw⟩ := updFrom_some h
  have hc := contents_state hi hw
  simp [State.updFrom, hc] at h
  exact ⟨st.bufs[w], List.getElem?_eq_getElem hw, h⟩

theorem upd_cap {st st' : State} {v : Nat} {f : Buf → M Buf} {N R : Nat} (hi : Inv st) (h : st.upd v f = some st')
    (hN : CapLe N st)
    (hf : ∀ b, st.bufs[v]? = some b → BInv v b → LiveIn b st.led → Bounded st.led →
      OkM (f b) st.led (fun b' _ => b'.cap ≤ max b.cap R)) :
    CapLe (max N R) st' := by
  obtain ⟨b, b', L', hb, hfb, rfl⟩ := upd_elim h
  have hv : v < st.bufs.length := (List.getElem?_eq_some_iff.1 hb).1
  have hc := (okM_of_some hfb _).1 (hf b hb (hi.1 v b hb) (liveIn_of_inv hi hb) hi.2.bounded)
  have hbN := hN v b hb
  intro u bu hu
  rw [getElem?_setBL _ _ _ _ _ hv] at hu
  by_cases huv : v = u
  · simp only [huv, if_true, Option.some.injEq] at hu
    subst hu
    omega
  · simp only [huv, if_false] at hu
    have := hN u bu hu
    omega

theorem bytesOf_length (d : List Nat) : (bytesOf d).length = d.length := by simp [bytesOf]

/-- the first variable an operation works on -/
def Op.target : Op → Nat
  | .ctorDefault v | .ctorCap v _ | .ctorData v _ | .ctorCopy v _ | .attach v _ _ _ | .assignBuf v _ | .assignData v _
  | .prependData v _ | .prependBuf v _ | .prependSub v _ _ | .appendSub v _ _ | .assignSub v _ _ | .appendData v _
  | .appendBuf v _ | .resize v _ | .removeFront v _ | .removeBack v _ | .reserve v _ | .clear v | .swap v _ | .free v => v

/-- per variable: a method of `v` changes no other variable, and `v`'s capacity grows at most to `R` -/
abbrev PerVar (v R : Nat) (st st' : State) : Prop :=
  ∀ (u : Nat) (b' : Buf), st'.bufs[u]? = some b' → ∃ b, st.bufs[u]? = some b ∧ b'.cap ≤ max b.cap (if v = u then R else 0) ∧
    (v ≠ u → b' = b)

theorem PerVar.capLe {v R N : Nat} {st st' : State} (h : PerVar v R st st') (hN : CapLe N st) : CapLe (max N R) st' := by
  intro u b' hb'
  obtain ⟨b, hb, hc, _⟩ := h u b' hb'
  have := hN u b hb
  split at hc <;> omega

theorem upd_cap_var {st st' : State} {v : Nat} {f : Buf → M Buf} {R : Nat} (hi : Inv st) (h : st.upd v f = some st')
    (hf : ∀ b, st.bufs[v]? = some b → BInv v b → LiveIn b st.led → Bounded st.led →
      OkM (f b) st.led (fun b' _ => b'.cap ≤ max b.cap R)) :
    PerVar v R st st' := by
  obtain ⟨b, b', L', hb, hfb, rfl⟩ := upd_elim h
  have hv : v < st.bufs.length := (List.getElem?_eq_some_iff.1 hb).1
  have hc := (okM_of_some hfb _).1 (hf b hb (hi.1 v b hb) (liveIn_of_inv hi hb) hi.2.bounded)
  intro u bu hu
  rw [getElem?_setBL _ _ _ _ _ hv] at hu
  by_cases huv : v = u
  · simp only [huv, if_true, Option.some.injEq] at hu
    subst hu
    exact ⟨b, huv ▸ hb, by simp only [huv, if_true]; exact hc, fun hne => absurd huv hne⟩
  · simp only [huv, if_false] at hu
    exact ⟨bu, hu, by omega, fun _ => rfl⟩

/-- one operation other than `swap`, per variable: only the target variable changes, and its capacity grows at most to
    the size the operation requests (byte-queue view) or the capacity wish of the environment -/
theorem step_cap_var {st st' : State} {qs : List Spec.Queue} {k : Nat} {op : Op} (hi : Inv st) (hr : Rel qs st)
    (h : step st k op = some st') (hns : ∀ a b, op ≠ .swap a b) (tv : Nat) (htv : op.target = tv) :
    PerVar tv (max (Spec.demand qs op) k) st st' := by
  have len_of : ∀ {u : Nat} {b : Buf}, st.bufs[u]? = some b → (Spec.get qs u).length = b.e - b.s := by
    intro u b hb
    rw [(hr.2 u b hb).length, data_length (hi.1 u b hb)]
  have dlen_of : ∀ {u : Nat} {b : Buf}, st.bufs[u]? = some b → b.data.length = b.e - b.s :=
    fun hb => data_length (hi.1 _ _ hb)
  cases op with
  | ctorDefault v =>
    simp only [Op.target] at htv; subst htv
    exact upd_cap_var hi h (fun b hb hbi hl hbd => (free_cap (v := v) hl hbd).mono (fun b' _ hc => by omega))
  | ctorCap v n =>
    simp only [Op.target] at htv; subst htv
    exact upd_cap_var hi h (fun b hb hbi hl hbd => (ctorCap_cap n k hl hbd).mono (fun b' _ hc => by
      simp only [Spec.demand]; omega))
  | ctorData v d =>
    simp only [Op.target] at htv; subst htv
    exact upd_cap_var hi h (fun b hb hbi hl hbd => (ctorData_cap (bytesOf d) k hl hbd).mono (fun b' _ hc => by
      simp only [Spec.demand]; rw [bytesOf_length] at hc; omega))
  | ctorCopy v w =>
    simp only [Op.target] at htv; subst htv
    simp only [step] at h
    by_cases hvw : v = w
    · subst hvw
      simp only [if_true] at h
      exact upd_cap_var hi h (fun b hb hbi hl hbd => (okM_pure _ _ _).2 (by omega))
    · simp only [hvw, if_false] at h
      obtain ⟨bw, hbw, h⟩ := updFrom_elim hi h
      have := len_of hbw
      have := dlen_of hbw
      exact upd_cap_var hi h (fun b hb hbi hl hbd => (ctorData_cap bw.data k hl hbd).mono (fun b' _ hc => by
        simp only [Spec.demand, hvw, if_false]; omega))
  | attach v r off len =>
    simp only [Op.target] at htv; subst htv
    simp only [step] at h
    cases hreg : st.regs[r]? with
    | none => simp [hreg] at h
    | some region =>
      cases hrd : rdList region off len with
      | none => simp [hreg, hrd] at h
      | some range =>
        simp [hreg, hrd] at h
        exact upd_cap_var hi h (fun b hb hbi hl hbd => (attach_cap range hl hbd).mono (fun b' _ hc => by omega))
  | assignBuf v w =>
    simp only [Op.target] at htv; subst htv
    simp only [step] at h
    by_cases hvw : v = w
    · subst hvw
      simp only [if_true] at h
      exact upd_cap_var hi h (fun b hb hbi hl hbd => (assignSelf_cap hbi hl hbd k).mono (fun b' _ hc => by
        have := len_of hb
        simp only [Spec.demand]; omega))
    · simp only [hvw, if_false] at h
      obtain ⟨bw, hbw, h⟩ := updFrom_elim hi h
      have := len_of hbw
      have := dlen_of hbw
      exact upd_cap_var hi h (fun b hb hbi hl hbd => (assign_cap hbi hl hbd bw.data k).mono (fun b' _ hc => by
        simp only [Spec.demand]; omega))
  | assignData v d =>
    simp only [Op.target] at htv; subst htv
    exact upd_cap_var hi h (fun b hb hbi hl hbd => (assign_cap hbi hl hbd (bytesOf d) k).mono (fun b' _ hc => by
      simp only [Spec.demand]; rw [bytesOf_length] at hc; omega))
  | prependData v d =>
    simp only [Op.target] at htv; subst htv
    exact upd_cap_var hi h (fun b hb hbi hl hbd => (prepend_cap hbi hl hbd (bytesOf d) k).mono (fun b' _ hc => by
      have := len_of hb
      simp only [Spec.demand]; rw [bytesOf_length] at hc; omega))
  | prependBuf v w =>
    simp only [Op.target] at htv; subst htv
    simp only [step] at h
    by_cases hvw : v = w
    · subst hvw
      simp only [if_true] at h
      exact upd_cap_var hi h (fun b hb hbi hl hbd => (prependSelf_cap hbi hl hbd k).mono (fun b' _ hc => by
        have := len_of hb
        simp only [Spec.demand]; omega))
    · simp only [hvw, if_false] at h
      obtain ⟨bw, hbw, h⟩ := updFrom_elim hi h
      have := len_of hbw
      have := dlen_of hbw
      exact upd_cap_var hi h (fun b hb hbi hl hbd => (prepend_cap hbi hl hbd bw.data k).mono (fun b' _ hc => by
        have := len_of hb
        simp only [Spec.demand]; omega))
  | prependSub v off len =>
    simp only [Op.target] at htv; subst htv
    exact upd_cap_var hi h (fun b hb hbi hl hbd => (prependSubClamped_cap hbi hl hbd off len k).mono (fun b' _ hc => by
      have h1 := (hr.2 v b hb).length
      have h2 := (((hr.2 v b hb).drop off).take len).length
      simp only [Spec.demand]; omega))
  | appendSub v off len =>
    simp only [Op.target] at htv; subst htv
    exact upd_cap_var hi h (fun b hb hbi hl hbd => (appendSubClamped_cap hbi hl hbd off len k).mono (fun b' _ hc => by
      have h1 := (hr.2 v b hb).length
      have h2 := (((hr.2 v b hb).drop off).take len).length
      simp only [Spec.demand]; omega))
  | assignSub v off len =>
    simp only [Op.target] at htv; subst htv
    exact upd_cap_var hi h (fun b hb hbi hl hbd => (assignSubClamped_cap hbi hl hbd off len k).mono (fun b' _ hc => by
      have h2 := (((hr.2 v b hb).drop off).take len).length
      simp only [Spec.demand]; omega))
  | appendData v d =>
    simp only [Op.target] at htv; subst htv
    exact upd_cap_var hi h (fun b hb hbi hl hbd => (append_cap hbi hl hbd (bytesOf d) k).mono (fun b' _ hc => by
      have := len_of hb
      simp only [Spec.demand]; rw [bytesOf_length] at hc; omega))
  | appendBuf v w =>
    simp only [Op.target] at htv; subst htv
    simp only [step] at h
    by_cases hvw : v = w
    · subst hvw
      simp only [if_true] at h
      exact upd_cap_var hi h (fun b hb hbi hl hbd => (appendSelf_cap hbi hl hbd k).mono (fun b' _ hc => by
        have := len_of hb
        simp only [Spec.demand]; omega))
    · simp only [hvw, if_false] at h
      obtain ⟨bw, hbw, h⟩ := updFrom_elim hi h
      have := len_of hbw
      have := dlen_of hbw
      exact upd_cap_var hi h (fun b hb hbi hl hbd => (append_cap hbi hl hbd bw.data k).mono (fun b' _ hc => by
        have := len_of hb
        simp only [Spec.demand]; omega))
  | resize v n =>
    simp only [Op.target] at htv; subst htv
    exact upd_cap_var hi h (fun b hb hbi hl hbd => (resize_cap hbi hl hbd n k).mono (fun b' _ hc => by
      simp only [Spec.demand]; omega))
  | removeFront v n =>
    simp only [Op.target] at htv; subst htv
    exact upd_cap_var hi h (fun b hb hbi hl hbd => (removeFront_cap hbi hl hbd n).mono (fun b' _ hc => by omega))
  | removeBack v n =>
    simp only [Op.target] at htv; subst htv
    exact upd_cap_var hi h (fun b hb hbi hl hbd => (removeBack_cap hbi hl hbd n).mono (fun b' _ hc => by omega))
  | reserve v n =>
    simp only [Op.target] at htv; subst htv
    exact upd_cap_var hi h (fun b hb hbi hl hbd => (reserve_cap hbi hl hbd n k).mono (fun b' _ hc => by
      have := len_of hb
      simp only [Spec.demand]; omega))
  | clear v =>
    simp only [Op.target] at htv; subst htv
    exact upd_cap_var hi h (fun b hb hbi hl hbd => (clear_cap hbi hl hbd).mono (fun b' _ hc => by omega))
  | swap v w => exact absurd rfl (hns v w)
  | free v =>
    simp only [Op.target] at htv; subst htv
    exact upd_cap_var hi h (fun b hb hbi hl hbd => (free_cap (v := v) hl hbd).mono (fun b' _ hc => by omega))


/-- one operation: no capacity exceeds the previous bound, the size the operation requests (byte-queue view) and the
    capacity wish of the environment -/
theorem step_cap {st st' : State} {qs : List Spec.Queue} {N k : Nat} {op : Op} (hi : Inv st) (hr : Rel qs st)
    (h : step st k op = some st') (hN : CapLe N st) : CapLe (max N (max (Spec.demand qs op) k)) st' := by
  by_cases hs : ∃ a b, op = .swap a b
  · obtain ⟨v, w, rfl⟩ := hs
    simp only [step, State.getBuf] at h
    cases hbv : st.bufs[v]? with
    | none => simp [hbv] at h
    | some a =>
      cases hbw : st.bufs[w]? with
      | none => simp [hbv, hbw] at h
      | some b =>
        simp [hbv, hbw] at h
        subst h
        intro u bu hu
        simp only [List.getElem?_set] at hu
        have ha := hN v a hbv
        have hb := hN w b hbw
        split at hu
        · split at hu
          · simp only [Option.some.injEq] at hu; subst hu; rw [rehome_cap]; omega
          · cases hu
        · split at hu
          · split at hu
            · simp only [Option.some.injEq] at hu; subst hu; rw [rehome_cap]; omega
            · cases hu
          · have := hN u bu hu
            omega

  · exact (step_cap_var hi hr h (fun a b he => hs ⟨a, b, he⟩) _ rfl).capLe hN

/-- histories: every capacity is bounded by the largest size requested / capacity wished for along the history -/
theorem run_cap : ∀ (ops : List (Op × Nat)) {st st' : State} {qs : List Spec.Queue} {N : Nat}, Inv st → Rel qs st →
    run st ops = some st' → CapLe N st → CapLe (max N (Spec.peak st.regs qs ops)) st'
  | [], st, st', qs, N, hi, hr, h, hN => by
    simp only [run, Option.some.injEq] at h
    subst h
    intro u b hb
    have := hN u b hb
    simp only [Spec.peak]
    omega
  | (op, k) :: ops, st, st', qs, N, hi, hr, h, hN => by
    cases h1 : step st k op with
    | none => simp [run, h1] at h
    | some st1 =>
      have h2 : run st1 ops = some st' := by simpa [run, h1] using h
      obtain ⟨st1', h1', p1⟩ := step_ok hi hr k op (step_wf h1)
      rw [h1] at h1'
      cases h1'
      have c1 := step_cap hi hr h1 hN
      have c2 := run_cap ops p1.1 p1.2.1 h2 c1
      rw [p1.2.2.1] at c2
      intro u b hb
      have := c2 u b hb
      simp only [Spec.peak]
      omega

end Nstd.Buffer
