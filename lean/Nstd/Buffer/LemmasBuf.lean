import Nstd.Buffer.LemmasMem
/-
  One lemma per Buffer method: on an object satisfying the representation invariant the
  method does not fault, re-establishes the invariant and exposes exactly the stated bytes.
-/
namespace Nstd.Buffer

/-- prove a per-method lemma: case split on the ownership state, unfold, discharge -/
macro "buf_method" b:ident hb:ident : tactic => `(tactic| (
  obtain ⟨st, s, e, cap⟩ := $b:ident
  cases st <;> simp only [BInv] at $hb:ident <;> buf_wp <;> mem_finish))

theorem default_ok (v : Nat) : BInv v (Buf.default v) ∧ (Buf.default v).data = [] := by
  buf_wp; simp [rd]

theorem ctorCap_ok (v n : Nat) : Ok (Buf.ctorCap n) (fun b' => BInv v b' ∧ b'.data = []) := by
  buf_wp; mem_finish

theorem ctorData_ok (v : Nat) (d : List Byte) : Ok (Buf.ctorData d) (fun b' => BInv v b' ∧ b'.data = d) := by
  buf_wp; mem_finish

theorem attach_ok (v : Nat) (range : List Byte) :
    BInv v (Buf.attach range) ∧ (Buf.attach range).data = range := by
  buf_wp; mem_finish

theorem contents_ok {v : Nat} {b : Buf} (hb : BInv v b) : b.contents = some b.data := by
  have : Ok b.contents (fun c => c = b.data) := by
    buf_method b hb
  obtain ⟨c, hc, rfl⟩ := this
  exact hc

theorem assign_ok {v : Nat} {b : Buf} (hb : BInv v b) (d : List Byte) :
    Ok (b.assign d) (fun b' => BInv v b' ∧ b'.data = d) := by
  buf_method b hb

theorem assignSelf_ok {v : Nat} {b : Buf} (hb : BInv v b) :
    Ok b.assignSelf (fun b' => BInv v b' ∧ b'.data = b.data) := by
  buf_method b hb

theorem prepend_ok {v : Nat} {b : Buf} (hb : BInv v b) (d : List Byte) :
    Ok (b.prepend d) (fun b' => BInv v b' ∧ b'.data = d ++ b.data) := by
  buf_method b hb

theorem prependSelf_ok {v : Nat} {b : Buf} (hb : BInv v b) :
    Ok b.prependSelf (fun b' => BInv v b' ∧ b'.data = b.data ++ b.data) := by
  buf_method b hb

theorem rd_rd (m : List Byte) (s n off len : Nat) (h : off + len ≤ n) :
    rd (rd m s n) off len = rd m (s + off) len := by
  apply List.ext_getElem?
  intro i
  simp only [rd_get]
  by_cases hi : i < len
  · have : off + i < n := by omega
    simp only [hi, this, if_true, Nat.add_assoc]
  · simp [hi]

theorem prependSub_ok {v : Nat} {b : Buf} (hb : BInv v b) (off len : Nat) (h : off + len ≤ b.e - b.s) :
    Ok (b.prependSub off len) (fun b' => BInv v b' ∧ b'.data = rd b.data off len ++ b.data) := by
  obtain ⟨st, s, e, cap⟩ := b
  cases st with
  | own m =>
    simp only [BInv] at hb
    simp only [] at h
    by_cases hs : len ≤ s
    · obtain ⟨q, rfl⟩ : ∃ q, s = q + len := ⟨s - len, by omega⟩
      buf_wp
      simp only [rd_rd _ _ _ _ _ h, Nat.add_sub_cancel]
      mem_finish
    · buf_wp
      simp only [rd_rd _ _ _ _ _ h]
      mem_finish
  | att m => simp only [BInv] at hb; simp only [] at h; buf_wp; simp only [rd_rd _ _ _ _ _ h]; mem_finish
  | dflt c => simp only [BInv] at hb; simp only [] at h; buf_wp; simp only [rd_rd _ _ _ _ _ h]; mem_finish
theorem prependSubClamped_ok {v : Nat} {b : Buf} (hb : BInv v b) (off len : Nat) :
    Ok (b.prependSubClamped off len) (fun b' => BInv v b' ∧ b'.data = (b.data.drop off).take len ++ b.data) := by
  have hlen : b.data.length = b.e - b.s := by
    obtain ⟨st, s, e, cap⟩ := b
    cases st <;> simp only [BInv] at hb <;> simp only [Buf.data, Store.mem, rd_length] <;> grind
  unfold Buf.prependSubClamped
  refine (prependSub_ok hb _ _ (by split <;> split <;> omega)).mono (fun b' h => ⟨h.1, ?_⟩)
  rw [h.2]
  congr 1
  apply List.ext_getElem?
  intro i
  simp only [rd_get, List.getElem?_take, List.getElem?_drop]
  grind

theorem resize_ok {v : Nat} {b : Buf} (hb : BInv v b) (n : Nat) :
    Ok (b.resize n) (fun b' => BInv v b' ∧ b'.data.length = n ∧
      ∀ i : Nat, i < n → i < b.data.length → b'.data[i]? = b.data[i]?) := by
  buf_method b hb

theorem append_ok {v : Nat} {b : Buf} (hb : BInv v b) (d : List Byte) :
    Ok (b.append d) (fun b' => BInv v b' ∧ b'.data = b.data ++ d) := by
  buf_method b hb

theorem appendSelf_ok {v : Nat} {b : Buf} (hb : BInv v b) :
    Ok b.appendSelf (fun b' => BInv v b' ∧ b'.data = b.data ++ b.data) := by
  buf_method b hb

theorem removeFront_ok {v : Nat} {b : Buf} (hb : BInv v b) (n : Nat) :
    Ok (b.removeFront v n) (fun b' => BInv v b' ∧ b'.data = b.data.drop n) := by
  buf_method b hb

theorem removeBack_ok {v : Nat} {b : Buf} (hb : BInv v b) (n : Nat) :
    Ok (b.removeBack v n) (fun b' => BInv v b' ∧ b'.data = b.data.take (b.data.length - n)) := by
  buf_method b hb

theorem reserve_ok {v : Nat} {b : Buf} (hb : BInv v b) (n : Nat) :
    Ok (b.reserve n) (fun b' => BInv v b' ∧ b'.data = b.data) := by
  buf_method b hb

theorem clear_ok {v : Nat} {b : Buf} (hb : BInv v b) :
    Ok b.clear (fun b' => BInv v b' ∧ b'.data = []) := by
  buf_method b hb

theorem rehome_ok {owner other : Nat} {b : Buf} (hb : BInv other b) :
    BInv owner (b.rehome owner other) ∧ (b.rehome owner other).data = b.data := by
  obtain ⟨st, s, e, cap⟩ := b
  cases st <;> simp only [BInv] at hb <;> simp only [Buf.rehome] <;> buf_wp
  · exact hb
  · exact hb
  · obtain ⟨rfl, rfl, rfl, rfl⟩ := hb
    simp

end Nstd.Buffer
