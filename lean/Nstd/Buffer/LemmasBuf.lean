import Nstd.Buffer.LemmasMem
/-
  One lemma per Buffer method: on an object satisfying the representation invariant whose block
  (if any) is live, the method does not fault (no out-of-range access, no access to a freed
  block, no double free), re-establishes the invariant, exposes exactly the stated bytes and
  changes the allocation ledger as `LStep` says.
-/
namespace Nstd.Buffer
set_option linter.unusedVariables false   -- `hbd` is used by `grind` only

/-- prove a per-method lemma: case split on the ownership state, unfold, discharge -/
macro "buf_method" b:ident hb:ident hL:ident : tactic => `(tactic| (
  obtain ⟨st, s, e, cap⟩ := $b:ident
  cases st <;> simp only [BInv] at $hb:ident <;>
    (try simp only [Buf.ownId, Option.some.injEq, forall_eq', reduceCtorEq, false_implies, implies_true] at $hL:ident) <;>
    buf_wp <;> mem_finish))

/-- the object's block is live -/
def LiveIn (b : Buf) (L : Ledger) : Prop := ∀ id, b.ownId = some id → id ∈ L.live

/-- all live ids were handed out before -/
def Bounded (L : Ledger) : Prop := ∀ i ∈ L.live, i < L.next

theorem default_ok (v : Nat) : BInv v (Buf.default v) ∧ (Buf.default v).data = [] ∧ (Buf.default v).ownId = none := by
  buf_wp; simp [rd]

theorem free_ok {v : Nat} {b : Buf} {L : Ledger} (hL : LiveIn b L) (hbd : Bounded L) :
    OkM (Buf.free v b) L (fun b' L' => LStep b.ownId b'.ownId L L' ∧ BInv v b' ∧ b'.data = []) := by
  unfold LiveIn Bounded at *
  obtain ⟨st, s, e, cap⟩ := b
  cases st <;>
    (try simp only [Buf.ownId, Option.some.injEq, forall_eq', reduceCtorEq, false_implies, implies_true] at hL) <;>
    buf_wp <;> mem_finish

theorem ctorCap_ok (v n k : Nat) {b : Buf} {L : Ledger} (hL : LiveIn b L) (hbd : Bounded L) :
    OkM (do b.destroy; Buf.ctorCap n k) L (fun b' L' => LStep b.ownId b'.ownId L L' ∧ BInv v b' ∧ b'.data = []) := by
  unfold LiveIn Bounded at *
  obtain ⟨st, s, e, cap⟩ := b
  cases st <;>
    (try simp only [Buf.ownId, Option.some.injEq, forall_eq', reduceCtorEq, false_implies, implies_true] at hL) <;>
    buf_wp <;> mem_finish

theorem ctorData_ok (v : Nat) (d : List Byte) (k : Nat) {b : Buf} {L : Ledger} (hL : LiveIn b L) (hbd : Bounded L) :
    OkM (do b.destroy; Buf.ctorData d k) L (fun b' L' => LStep b.ownId b'.ownId L L' ∧ BInv v b' ∧ b'.data = d) := by
  unfold LiveIn Bounded at *
  obtain ⟨st, s, e, cap⟩ := b
  cases st <;>
    (try simp only [Buf.ownId, Option.some.injEq, forall_eq', reduceCtorEq, false_implies, implies_true] at hL) <;>
    buf_wp <;> mem_finish

theorem attach_ok (v : Nat) (range : List Byte) {b : Buf} {L : Ledger} (hL : LiveIn b L) (hbd : Bounded L) :
    OkM (b.attach range) L (fun b' L' => LStep b.ownId b'.ownId L L' ∧ BInv v b' ∧ b'.data = range) := by
  unfold LiveIn Bounded at *
  obtain ⟨st, s, e, cap⟩ := b
  cases st <;>
    (try simp only [Buf.ownId, Option.some.injEq, forall_eq', reduceCtorEq, false_implies, implies_true] at hL) <;>
    buf_wp <;> mem_finish

theorem contents_ok {v : Nat} {b : Buf} {L : Ledger} (hb : BInv v b) (hL : LiveIn b L) :
    b.contents L = some (b.data, L) := by
  have : OkM b.contents L (fun c L' => c = b.data ∧ L' = L) := by
    unfold LiveIn at hL
    buf_method b hb hL
  obtain ⟨c, L', hc, rfl, rfl⟩ := this
  exact hc

theorem assign_ok {v : Nat} {b : Buf} {L : Ledger} (hb : BInv v b) (hL : LiveIn b L) (hbd : Bounded L) (d : List Byte) (k : Nat) :
    OkM (b.assign d k) L (fun b' L' => LStep b.ownId b'.ownId L L' ∧ BInv v b' ∧ b'.data = d) := by
  unfold LiveIn Bounded at *
  buf_method b hb hL

theorem assignSelf_ok {v : Nat} {b : Buf} {L : Ledger} (hb : BInv v b) (hL : LiveIn b L) (hbd : Bounded L) (k : Nat) :
    OkM (b.assignSelf k) L (fun b' L' => LStep b.ownId b'.ownId L L' ∧ BInv v b' ∧ b'.data = b.data) := by
  unfold LiveIn Bounded at *
  buf_method b hb hL

theorem prepend_ok {v : Nat} {b : Buf} {L : Ledger} (hb : BInv v b) (hL : LiveIn b L) (hbd : Bounded L) (d : List Byte) (k : Nat) :
    OkM (b.prepend d k) L (fun b' L' => LStep b.ownId b'.ownId L L' ∧ BInv v b' ∧ b'.data = d ++ b.data) := by
  unfold LiveIn Bounded at *
  buf_method b hb hL

theorem prependSelf_ok {v : Nat} {b : Buf} {L : Ledger} (hb : BInv v b) (hL : LiveIn b L) (hbd : Bounded L) (k : Nat) :
    OkM (b.prependSelf k) L (fun b' L' => LStep b.ownId b'.ownId L L' ∧ BInv v b' ∧ b'.data = b.data ++ b.data) := by
  unfold LiveIn Bounded at *
  buf_method b hb hL

theorem rd_rd (m : List Byte) (s n off len : Nat) (h : off + len ≤ n) :
    rd (rd m s n) off len = rd m (s + off) len := by
  apply List.ext_getElem?
  intro i
  simp only [rd_get]
  by_cases hi : i < len
  · have : off + i < n := by omega
    simp only [hi, this, if_true, Nat.add_assoc]
  · simp [hi]

theorem prependSub_ok {v : Nat} {b : Buf} {L : Ledger} (hb : BInv v b) (hL : LiveIn b L) (hbd : Bounded L) (off len k : Nat) (h : off + len ≤ b.e - b.s) :
    OkM (b.prependSub off len k) L (fun b' L' => LStep b.ownId b'.ownId L L' ∧ BInv v b' ∧ b'.data = rd b.data off len ++ b.data) := by
  unfold LiveIn Bounded at *
  obtain ⟨st, s, e, cap⟩ := b
  cases st with
  | own id m =>
    simp only [BInv] at hb
    simp only [] at h
    simp only [Buf.ownId, Option.some.injEq, forall_eq'] at hL
    by_cases hs : len ≤ s
    · obtain ⟨q, rfl⟩ : ∃ q, s = q + len := ⟨s - len, by omega⟩
      buf_wp
      simp only [rd_rd _ _ _ _ _ h, Nat.add_sub_cancel]
      mem_finish
    · buf_wp
      simp only [rd_rd _ _ _ _ _ h]
      mem_finish
  | att m => simp only [BInv] at hb; simp only [] at h; buf_wp; simp only [rd_rd _ _ _ _ _ h]; mem_finish
  | dflt c => simp only [BInv] at hb; simp only [] at h; buf_wp; simp only [rd_rd _ _ _ _ _ h]; mem_finish

theorem prependSubClamped_ok {v : Nat} {b : Buf} {L : Ledger} (hb : BInv v b) (hL : LiveIn b L) (hbd : Bounded L) (off len k : Nat) :
    OkM (b.prependSubClamped off len k) L (fun b' L' => LStep b.ownId b'.ownId L L' ∧ BInv v b' ∧ b'.data = (b.data.drop off).take len ++ b.data) := by
  have hlen : b.data.length = b.e - b.s := by
    obtain ⟨st, s, e, cap⟩ := b
    cases st <;> simp only [BInv] at hb <;> simp only [Buf.data, Store.mem, rd_length] <;> grind
  unfold Buf.prependSubClamped
  refine (prependSub_ok hb hL hbd _ _ k (by split <;> split <;> omega)).mono (fun b' L' h => ⟨h.1, h.2.1, ?_⟩)
  rw [h.2.2]
  congr 1
  apply List.ext_getElem?
  intro i
  simp only [rd_get, List.getElem?_take, List.getElem?_drop]
  grind

theorem assignSub_ok {v : Nat} {b : Buf} {L : Ledger} (hb : BInv v b) (hL : LiveIn b L) (hbd : Bounded L) (off len k : Nat) (h : off + len ≤ b.e - b.s) :
    OkM (b.assignSub off len k) L (fun b' L' => LStep b.ownId b'.ownId L L' ∧ BInv v b' ∧ b'.data = rd b.data off len) := by
  unfold LiveIn Bounded at *
  obtain ⟨st, s, e, cap⟩ := b
  cases st <;> simp only [BInv] at hb <;> simp only [] at h <;>
    (try simp only [Buf.ownId, Option.some.injEq, forall_eq', reduceCtorEq, false_implies, implies_true] at hL) <;>
    buf_wp <;> simp only [rd_rd _ _ _ _ _ h] <;> mem_finish

theorem ok_ptrSub' (p n) (P : Nat → Prop) : Ok (ptrSub p n) P ↔ n ≤ p ∧ P (p - n) := by
  unfold ptrSub; by_cases h : n ≤ p <;> simp [h, Ok]

theorem appendSub_ok {v : Nat} {b : Buf} {L : Ledger} (hb : BInv v b) (hL : LiveIn b L) (hbd : Bounded L) (off len k : Nat) (h : off + len ≤ b.e - b.s) :
    OkM (b.appendSub off len k) L (fun b' L' => LStep b.ownId b'.ownId L L' ∧ BInv v b' ∧ b'.data = b.data ++ rd b.data off len) := by
  unfold LiveIn Bounded at *
  obtain ⟨st, s, e, cap⟩ := b
  cases st with
  | own id m =>
    simp only [BInv] at hb
    simp only [] at h
    simp only [Buf.ownId, Option.some.injEq, forall_eq'] at hL
    obtain ⟨n, rfl⟩ : ∃ n, e = s + n := ⟨e - s, by omega⟩
    simp only [Nat.add_sub_cancel_left] at h
    simp only [Buf.appendSub, okM_bind, okM_liftO, ok_ptrSub']
    buf_wp
    simp only [Nat.add_sub_cancel_left, ← Nat.add_assoc, Nat.add_sub_cancel, rd_rd _ _ _ _ _ h]
    mem_finish
  | att m => simp only [BInv] at hb; simp only [] at h; buf_wp; simp only [rd_rd _ _ _ _ _ h]; mem_finish
  | dflt c => simp only [BInv] at hb; simp only [] at h; buf_wp; simp only [rd_rd _ _ _ _ _ h]; mem_finish

theorem clamp_rd {b : Buf} {v : Nat} (hb : BInv v b) (off len : Nat) :
    let size := b.e - b.s
    let off' := if off < size then off else size
    let len' := if len < size - off' then len else size - off'
    off' + len' ≤ b.e - b.s ∧ rd b.data off' len' = (b.data.drop off).take len := by
  have hlen : b.data.length = b.e - b.s := by
    obtain ⟨st, s, e, cap⟩ := b
    cases st <;> simp only [BInv] at hb <;> simp only [Buf.data, Store.mem, rd_length] <;> grind
  refine ⟨by split <;> split <;> omega, ?_⟩
  apply List.ext_getElem?
  intro i
  simp only [rd_get, List.getElem?_take, List.getElem?_drop]
  grind

theorem appendSubClamped_ok {v : Nat} {b : Buf} {L : Ledger} (hb : BInv v b) (hL : LiveIn b L) (hbd : Bounded L) (off len k : Nat) :
    OkM (b.appendSubClamped off len k) L (fun b' L' => LStep b.ownId b'.ownId L L' ∧ BInv v b' ∧
      b'.data = b.data ++ (b.data.drop off).take len) := by
  obtain ⟨h1, h2⟩ := clamp_rd hb off len
  unfold Buf.appendSubClamped
  refine (appendSub_ok hb hL hbd _ _ k h1).mono (fun b' L' h => ⟨h.1, h.2.1, ?_⟩)
  rw [h.2.2, h2]

theorem assignSubClamped_ok {v : Nat} {b : Buf} {L : Ledger} (hb : BInv v b) (hL : LiveIn b L) (hbd : Bounded L) (off len k : Nat) :
    OkM (b.assignSubClamped off len k) L (fun b' L' => LStep b.ownId b'.ownId L L' ∧ BInv v b' ∧
      b'.data = (b.data.drop off).take len) := by
  obtain ⟨h1, h2⟩ := clamp_rd hb off len
  unfold Buf.assignSubClamped
  refine (assignSub_ok hb hL hbd _ _ k h1).mono (fun b' L' h => ⟨h.1, h.2.1, ?_⟩)
  rw [h.2.2, h2]

theorem resize_ok {v : Nat} {b : Buf} {L : Ledger} (hb : BInv v b) (hL : LiveIn b L) (hbd : Bounded L) (n k : Nat) :
    OkM (b.resize n k) L (fun b' L' => LStep b.ownId b'.ownId L L' ∧ BInv v b' ∧ b'.data.length = n ∧
      ∀ i : Nat, i < n → i < b.data.length → b'.data[i]? = b.data[i]?) := by
  unfold LiveIn Bounded at *
  buf_method b hb hL

theorem append_ok {v : Nat} {b : Buf} {L : Ledger} (hb : BInv v b) (hL : LiveIn b L) (hbd : Bounded L) (d : List Byte) (k : Nat) :
    OkM (b.append d k) L (fun b' L' => LStep b.ownId b'.ownId L L' ∧ BInv v b' ∧ b'.data = b.data ++ d) := by
  unfold LiveIn Bounded at *
  buf_method b hb hL

theorem appendSelf_ok {v : Nat} {b : Buf} {L : Ledger} (hb : BInv v b) (hL : LiveIn b L) (hbd : Bounded L) (k : Nat) :
    OkM (b.appendSelf k) L (fun b' L' => LStep b.ownId b'.ownId L L' ∧ BInv v b' ∧ b'.data = b.data ++ b.data) := by
  unfold LiveIn Bounded at *
  buf_method b hb hL

theorem removeFront_ok {v : Nat} {b : Buf} {L : Ledger} (hb : BInv v b) (hL : LiveIn b L) (hbd : Bounded L) (n : Nat) :
    OkM (b.removeFront v n) L (fun b' L' => LStep b.ownId b'.ownId L L' ∧ BInv v b' ∧ b'.data = b.data.drop n) := by
  unfold LiveIn Bounded at *
  buf_method b hb hL

theorem removeBack_ok {v : Nat} {b : Buf} {L : Ledger} (hb : BInv v b) (hL : LiveIn b L) (hbd : Bounded L) (n : Nat) :
    OkM (b.removeBack v n) L (fun b' L' => LStep b.ownId b'.ownId L L' ∧ BInv v b' ∧ b'.data = b.data.take (b.data.length - n)) := by
  unfold LiveIn Bounded at *
  buf_method b hb hL

theorem reserve_ok {v : Nat} {b : Buf} {L : Ledger} (hb : BInv v b) (hL : LiveIn b L) (hbd : Bounded L) (n k : Nat) :
    OkM (b.reserve n k) L (fun b' L' => LStep b.ownId b'.ownId L L' ∧ BInv v b' ∧ b'.data = b.data) := by
  unfold LiveIn Bounded at *
  buf_method b hb hL

theorem clear_ok {v : Nat} {b : Buf} {L : Ledger} (hb : BInv v b) (hL : LiveIn b L) (hbd : Bounded L) :
    OkM b.clear L (fun b' L' => LStep b.ownId b'.ownId L L' ∧ BInv v b' ∧ b'.data = []) := by
  unfold LiveIn Bounded at *
  buf_method b hb hL

theorem rehome_ok {owner other : Nat} {b : Buf} (hb : BInv other b) :
    BInv owner (b.rehome owner other) ∧ (b.rehome owner other).data = b.data ∧
      (b.rehome owner other).ownId = b.ownId := by
  obtain ⟨st, s, e, cap⟩ := b
  cases st <;> simp only [BInv] at hb <;> simp only [Buf.rehome] <;> buf_wp
  · exact hb
  · exact hb
  · obtain ⟨rfl, rfl, rfl, rfl⟩ := hb
    simp

end Nstd.Buffer
