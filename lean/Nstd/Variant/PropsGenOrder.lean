import Nstd.Variant.DeepPriv
import Nstd.Variant.PropsGen
/-
  Property C07, tie by translation: the two places where tools/gen_variant.py emits statements in another order than the C++
  text are justified here as lemmas about the heap model (independent writes commute):

  * `release_frame` — a block `x` that no payload stores a handle to and that the released Variant does not point to is
    invisible to `release`: replacing its slot by anything (`putAt h x o`) before or after the release gives the same heap.
  * `hoist_order` — SOURCE order "allocate the new block with whatever its `ref` field contains, `clear()`, then write
    `->ref = N`" = TRANSLATED order "allocate with `ref = N`, then `clear()`" (the accessor's clone branch).
  * `destroy_order` — SOURCE order "destroy the elements of the payload, then `delete[]` the block" = TRANSLATED order
    "`delete[]` the block, then destroy the elements" (`clear()` on the last handle).

  Hypotheses: `Bounded` (live ids are below `next`) and "no payload stores a handle to `x`" (`stored … x = 0`) — both hold in
  every reachable state of the deep model for a fresh id resp. for a block whose count has just gone from 1 to 0 (`DInv`:
  count = handles).
-/
set_option linter.unusedSimpArgs false
set_option linter.unusedVariables false
namespace Nstd.Variant
open Nstd.Variant.Deep Nstd.Variant.Raw Nstd.Generated

/-- overwrite the slot of block `x` -/
def putAt (h : Heap) (x : Nat) (o : Option Deep.Block) : Heap := { h with heap := upd h.heap x o }

theorem upd_comm {α} (f : Nat → α) (i j : Nat) (a b : α) (h : i ≠ j) : upd (upd f i a) j b = upd (upd f j b) i a := by
  funext k; simp only [upd]; by_cases h1 : k = j <;> by_cases h2 : k = i <;> simp [h1, h2] <;> omega

theorem putAt_heap_ne (h : Heap) (x b : Nat) (o : Option Deep.Block) (hne : b ≠ x) : (putAt h x o).heap b = h.heap b := by
  simp [putAt, upd, hne]

theorem foldlM_release_frame (f : Nat) (x : Nat) (o : Option Deep.Block)
    (ih : ∀ (h : Heap) (c : Cell), Bounded h → cellCnt c x = 0 → stored h.heap h.next x = 0 →
      release f (putAt h x o) c = (release f h c).map (fun h' => putAt h' x o)) :
    ∀ (cs : List Cell) (h : Heap), Bounded h → cntCells cs x = 0 → stored h.heap h.next x = 0 →
      cs.foldlM (fun s' c' => release f s' c') (putAt h x o) = (cs.foldlM (fun s' c' => release f s' c') h).map (fun h' => putAt h' x o) := by
  intro cs
  induction cs with
  | nil => intro h _ _ _; simp
  | cons c t iht =>
    intro h hb hc hs
    rw [foldlM_release_cons, foldlM_release_cons]
    rw [cntCells_cons] at hc
    rw [ih h c hb (by omega) hs]
    cases h1 : release f h c with
    | none => simp
    | some h1' =>
      have k1 := release_keeps f h c h1' x h1 hb (by omega) hs
      simp only [Option.map_some]
      exact iht h1' k1.bnd (by omega) k1.unst

/-- `release` does not see a block nobody points to -/
theorem release_frame (x : Nat) (o : Option Deep.Block) : ∀ (f : Nat) (h : Heap) (c : Cell), Bounded h → cellCnt c x = 0 →
    stored h.heap h.next x = 0 → release f (putAt h x o) c = (release f h c).map (fun h' => putAt h' x o) := by
  intro f
  induction f with
  | zero => intro h c _ _ _; simp [release]
  | succ f ih =>
    intro h c hb hc hs
    cases c with
    | null => simp [release]
    | inl y => simp [release]
    | ptr b =>
      have hne : b ≠ x := by intro e; subst e; simp [cellCnt_ptr] at hc
      simp only [release, putAt_heap_ne h x b o hne]
      cases hbb : h.heap b with
      | none => simp
      | some blk =>
        simp only []
        by_cases hr : blk.ref = 1
        · simp only [hr, if_true]
          have hlt := hb b blk hbb
          have hcells := cnt_le_stored h hb b blk hbb x
          have k0b : Bounded { h with heap := upd h.heap b none } := bounded_upd_live h hb b none (Or.inr rfl)
          have k0s : stored (upd h.heap b none) h.next x = 0 := by
            have := stored_upd h.heap b none h.next x hlt
            simp only [hbb, cntBlk] at this
            omega
          have e : ({ putAt h x o with heap := upd (putAt h x o).heap b none } : Heap) = putAt { h with heap := upd h.heap b none } x o := by
            simp only [putAt]; rw [upd_comm _ _ _ _ _ (Ne.symm hne)]
          rw [e]
          exact foldlM_release_frame f x o ih blk.pay.cells _ k0b (by omega) k0s
        · simp only [hr, if_false, Option.map_some, Option.some.injEq]
          simp only [putAt]; rw [upd_comm _ _ _ _ _ (Ne.symm hne)]

theorem releaseAll_frame (x : Nat) (o : Option Deep.Block) (f : Nat) (cs : List Cell) (h : Heap) (hb : Bounded h)
    (hc : cntCells cs x = 0) (hs : stored h.heap h.next x = 0) :
    releaseAll f (putAt h x o) cs = (releaseAll f h cs).map (fun h' => putAt h' x o) :=
  foldlM_release_frame f x o (release_frame x o f) cs h hb hc hs

/-- the heap `Raw.allocInit` builds: a new block at the fresh id with count `r` -/
def allocRef (s : Heap) (p : Pay) (r : Nat) : Heap := { s with heap := upd s.heap s.next (some ⟨r, p⟩), next := s.next + 1 }

theorem allocInit_eq (s : Heap) (p : Pay) (k r : Nat) (h : p.type = k) : allocInit s p k r = some (allocRef s p r, s.next) := by
  simp [allocInit, allocRef, h]

/-- **Hoisting of `->ref = N`.**  Source order: the block is allocated with an uninitialised count `r0`, `clear()` runs, then
    the count is written.  Translated order: allocated with `N`, then `clear()`.  Same heap (and the same fault behaviour),
    whatever `r0` was, when nobody holds a handle to the fresh id. -/
theorem hoist_order (f : Nat) (s : Heap) (pc : Pay) (c : Cell) (r0 N : Nat) (hb : Bounded s)
    (hfresh : stored s.heap s.next s.next = 0) (hpc : cntCells pc.cells s.next = 0) (hc : cellCnt c s.next = 0) :
    (release f (allocRef s pc r0) c).map (fun h' => putAt h' s.next (some ⟨N, pc⟩)) = release f (allocRef s pc N) c := by
  have hb' : Bounded (allocRef s pc r0) := by
    intro j blk hj
    simp only [allocRef] at hj ⊢
    by_cases e : j = s.next
    · omega
    · simp [upd, e] at hj; have := hb j blk hj; omega
  have hs' : stored (allocRef s pc r0).heap (allocRef s pc r0).next s.next = 0 := by
    simp only [allocRef, stored, upd_same, cntBlk, stored_upd_ge s.heap s.next _ s.next s.next (Nat.le_refl _)]
    omega
  have := release_frame s.next (some ⟨N, pc⟩) f (allocRef s pc r0) c hb' hc hs'
  rw [← this]
  congr 1
  simp [putAt, allocRef, upd_upd2]

/-- **Element destruction vs `delete[]`.**  Source order: `->~T()` destroys the elements while the block (count 0) still exists,
    then `delete[]`.  Translated order: the block goes first, then the elements are destroyed.  Same heap, when no payload holds a
    handle to the block (its count was 1 and that handle is the one being released). -/
theorem destroy_order (f : Nat) (h : Heap) (x : Nat) (blk : Deep.Block) (hx : h.heap x = some blk) (hb : Bounded h)
    (hs : stored h.heap h.next x = 0) :
    (releaseAll f h blk.pay.cells).map (fun h' => putAt h' x none) = releaseAll f (putAt h x none) blk.pay.cells := by
  have hc : cntCells blk.pay.cells x = 0 := by have := cnt_le_stored h hb x blk hx x; omega
  exact (releaseAll_frame x none f blk.pay.cells h hb hc hs).symm

/-- the same in the vocabulary of the translated `clear()`: `destroyAll` then `Obj.free` = `Obj.free` then `destroyAll` -/
theorem destroy_order_raw (f : Nat) (h : Heap) (this : Obj) (x : Nat) (blk : Deep.Block) (hd : this.data = .blk x)
    (hx : h.heap x = some blk) (hb : Bounded h) (hs : stored h.heap h.next x = 0) :
    (destroyAll (release f) h blk.pay.cells).bind (fun h' => Obj.free h' this)
      = (Obj.free h this).bind (fun h' => destroyAll (release f) h' blk.pay.cells) := by
  have hc : cntCells blk.pay.cells x = 0 := by have := cnt_le_stored h hb x blk hx x; omega
  have hfree : Obj.free h this = some (putAt h x none) := by simp [Obj.free, hd, hx, putAt]
  rw [hfree, Option.bind_some]
  show (releaseAll f h blk.pay.cells).bind _ = releaseAll f (putAt h x none) blk.pay.cells
  rw [← destroy_order f h x blk hx hb hs]
  cases hr : releaseAll f h blk.pay.cells with
  | none => simp
  | some h' =>
    have k := releaseAll_keeps f blk.pay.cells h h' x hr hb hc hs
    simp [Obj.free, hd, k.same, hx, putAt]

/-! non-vacuity: a heap with one list block whose count has just reached 0 (destroy_order) / with the fresh id 1 (hoist_order) -/
example : ∃ (h : Heap) (blk : Deep.Block), h.heap 0 = some blk ∧ blk.pay.cells ≠ [] ∧ Bounded h ∧ stored h.heap h.next 0 = 0 ∧
    stored h.heap h.next h.next = 0 :=
  ⟨⟨fun b => if b = 0 then some ⟨0, .list [.inl (.int 1)]⟩ else none, 1⟩, ⟨0, .list [.inl (.int 1)]⟩, rfl, by simp [Pay.cells],
    (by intro j blk hj; by_cases e : j = 0 <;> simp [e] at hj ⊢), by simp [stored, cntBlk, Pay.cells, cntCells, isPtrTo],
    by simp [stored, cntBlk, Pay.cells, cntCells, isPtrTo]⟩

end Nstd.Variant
