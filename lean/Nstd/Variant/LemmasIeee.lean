import Nstd.Variant.Ieee
/-
  `dOfInt` (Ieee.lean) is the correctly rounded — round to nearest, ties to even — conversion of an integer to
  binary64, for every |n| < 2^64.

  Values are compared without rationals: `dVal2 d` is the magnitude of the finite double `d` scaled by 2^1074
  (an integer for every double, subnormals included); the integer `p` corresponds to `p · 2^1074`.
-/
namespace Nstd.Variant

/-- magnitude of a finite double (bits without sign) times 2^1074 -/
def dVal2 (d : Nat) : Nat := (dMag d).1 * 2 ^ (dMag d).2

theorem e52 : (2 : Nat) ^ 52 = 4503599627370496 := by decide
theorem e53 : (2 : Nat) ^ 53 = 9007199254740992 := by decide

/-! ### bit fields of `X · 2^52 + F` -/

theorem dExp_mk (X F : Nat) (hX : X < 2048) (hF : F < 2 ^ 52) : dExp (X * 2 ^ 52 + F) = X := by
  simp only [dExp, e52] at *; omega

theorem dFrac_mk (X F : Nat) (hF : F < 2 ^ 52) : dFrac (X * 2 ^ 52 + F) = F := by
  simp only [dFrac, e52] at *; omega

/-- value of the normal double with exponent field `X ≥ 1` and significand `M ∈ [2^52, 2^53)` -/
theorem dVal2_normal (X M : Nat) (hX1 : 1 ≤ X) (hX : X < 2048) (hM1 : 2 ^ 52 ≤ M) (hM2 : M < 2 ^ 53) :
    dVal2 (X * 2 ^ 52 + (M - 2 ^ 52)) = M * 2 ^ (X - 1) := by
  have hF : M - 2 ^ 52 < 2 ^ 52 := by simp only [e52, e53] at *; omega
  have hx : (X == 0) = false := by simp; omega
  simp only [dVal2, dMag, dExp_mk X _ hX hF, dFrac_mk X _ hF, hx, Bool.false_eq_true, if_false]
  congr 1; omega

/-- …and with the significand carried to `2^53` (the bits are those of the next binade) -/
theorem dVal2_carry (X M : Nat) (hX1 : 1 ≤ X) (hX : X + 1 < 2048) (hM1 : 2 ^ 52 ≤ M) (hM2 : M ≤ 2 ^ 53) :
    dVal2 (X * 2 ^ 52 + (M - 2 ^ 52)) = M * 2 ^ (X - 1) := by
  by_cases h : M < 2 ^ 53
  · exact dVal2_normal X M hX1 (by omega) hM1 h
  · have hM : M = 2 ^ 53 := by omega
    subst hM
    have : X * 2 ^ 52 + (2 ^ 53 - 2 ^ 52) = (X + 1) * 2 ^ 52 + (2 ^ 52 - 2 ^ 52) := by simp only [e52, e53]; omega
    rw [this, dVal2_normal (X + 1) (2 ^ 52) (by omega) hX (Nat.le_refl _) (by simp only [e52, e53]; omega)]
    have : X + 1 - 1 = (X - 1) + 1 := by omega
    have hpw : (2 : Nat) ^ (X - 1 + 1) = 2 ^ (X - 1) * 2 := Nat.pow_succ 2 (X - 1)
    rw [this, hpw, e52, e53]; omega

/-! ### the finite doubles are ordered like their bit patterns -/

theorem dVal2_lt_succ (b : Nat) (h : b + 1 < 2047 * 2 ^ 52) : dVal2 b < dVal2 (b + 1) := by
  have hb : b = (b / 2 ^ 52) * 2 ^ 52 + b % 2 ^ 52 := by simp only [e52]; omega
  generalize hXd : b / 2 ^ 52 = X at hb
  generalize hFd : b % 2 ^ 52 = F at hb
  have hF : F < 2 ^ 52 := by rw [← hFd]; exact Nat.mod_lt _ (by simp only [e52]; omega)
  have hX : X < 2047 := by simp only [e52] at *; omega
  subst hb
  by_cases hc : F + 1 < 2 ^ 52
  · -- same binade
    have e1 : X * 2 ^ 52 + F + 1 = X * 2 ^ 52 + (F + 1) := by omega
    rw [e1]
    simp only [dVal2, dMag, dExp_mk X F (by omega) hF, dFrac_mk X F hF, dExp_mk X (F + 1) (by omega) hc, dFrac_mk X (F + 1) hc]
    by_cases hx : X = 0
    · subst hx; simp
    · have : (X == 0) = false := by simpa using hx
      simp only [this, Bool.false_eq_true, if_false]
      exact Nat.mul_lt_mul_of_pos_right (by omega) (Nat.pow_pos (by omega))
  · -- last double of the binade
    have hFe : F = 2 ^ 52 - 1 := by omega
    have e1 : X * 2 ^ 52 + F + 1 = (X + 1) * 2 ^ 52 + 0 := by simp only [e52] at *; omega
    have hX1 : X + 1 < 2047 := by simp only [e52] at *; omega
    rw [e1]
    have h0 : (0 : Nat) < 2 ^ 52 := by simp only [e52]; omega
    simp only [dVal2, dMag, dExp_mk X F (by omega) hF, dFrac_mk X F hF, dExp_mk (X + 1) 0 (by omega) h0, dFrac_mk (X + 1) 0 h0]
    have : (X + 1 == 0) = false := by simp
    simp only [this, Bool.false_eq_true, if_false, Nat.zero_add, Nat.add_sub_cancel]
    by_cases hx : X = 0
    · subst hx; simp only [hFe, e52]; decide
    · have : (X == 0) = false := by simpa using hx
      simp only [this, Bool.false_eq_true, if_false]
      have hpw : (2 : Nat) ^ X = 2 ^ (X - 1) * 2 := by
        have hXs : X = (X - 1) + 1 := by omega
        rw [hXs, Nat.add_sub_cancel]; exact Nat.pow_succ 2 (X - 1)
      rw [hpw]
      have hp : 0 < 2 ^ (X - 1) := Nat.pow_pos (by omega)
      generalize 2 ^ (X - 1) = T at hp ⊢
      rw [hFe]
      simp only [e52]
      omega

theorem dVal2_mono (a b : Nat) (hab : a ≤ b) (hb : b < 2047 * 2 ^ 52) : dVal2 a ≤ dVal2 b := by
  induction b with
  | zero => have : a = 0 := by omega
            subst this; exact Nat.le_refl _
  | succ b ih =>
    by_cases e : a = b + 1
    · subst e; exact Nat.le_refl _
    · have := ih (by omega) (by omega)
      have := dVal2_lt_succ b hb
      omega

/-- between two doubles with adjacent bit patterns lies no finite double -/
theorem no_double_between (lo d : Nat) (hlo : lo + 1 < 2047 * 2 ^ 52) (hd : d < 2047 * 2 ^ 52) :
    ¬ (dVal2 lo < dVal2 d ∧ dVal2 d < dVal2 (lo + 1)) := by
  rintro ⟨h1, h2⟩
  by_cases h : d ≤ lo
  · have := dVal2_mono d lo h (by omega); omega
  · have := dVal2_mono (lo + 1) d (by omega) hd; omega

/-! ### the normalisation step on integers -/

theorem log2_one : Nat.log2 1 = 0 := by decide

/-- for `2^L ≤ p < 2^(L+1)` the pair scaled by `L - 52` has its quotient in `[2^52, 2^53)` -/
theorem scaledBy_int (p L : Nat) (h1 : 2 ^ L ≤ p) (h2 : p < 2 ^ (L + 1)) :
    scaledBy p 1 ((L : Int) - 52) = (if 52 ≤ L then (p, 2 ^ (L - 52)) else (p * 2 ^ (52 - L), 1)) ∧
    2 ^ 52 ≤ (scaledBy p 1 ((L : Int) - 52)).1 / (scaledBy p 1 ((L : Int) - 52)).2 ∧
    (scaledBy p 1 ((L : Int) - 52)).1 / (scaledBy p 1 ((L : Int) - 52)).2 < 2 ^ 53 := by
  by_cases hL : 52 ≤ L
  · have hk : ((L : Int) - 52) ≥ 0 := by omega
    have ht : ((L : Int) - 52).toNat = L - 52 := by omega
    have hs : scaledBy p 1 ((L : Int) - 52) = (p, 2 ^ (L - 52)) := by
      simp only [scaledBy, hk, if_true, ht, Nat.one_mul]
    have hpos : 0 < 2 ^ (L - 52) := Nat.pow_pos (by omega)
    have hLe : L = 52 + (L - 52) := by omega
    refine ⟨by simp [hs, hL], ?_, ?_⟩
    · rw [hs]; simp only
      rw [Nat.le_div_iff_mul_le hpos, ← Nat.pow_add, ← hLe]; exact h1
    · rw [hs]; simp only
      rw [Nat.div_lt_iff_lt_mul hpos, ← Nat.pow_add]
      have : 53 + (L - 52) = L + 1 := by omega
      rw [this]; exact h2
  · have hk : ¬ ((L : Int) - 52) ≥ 0 := by omega
    have ht : (-((L : Int) - 52)).toNat = 52 - L := by omega
    have hs : scaledBy p 1 ((L : Int) - 52) = (p * 2 ^ (52 - L), 1) := by
      simp only [scaledBy, hk, if_false, ht]
    have hLe : 52 = L + (52 - L) := by omega
    refine ⟨by simp [hs, hL], ?_, ?_⟩
    · rw [hs]; simp only [Nat.div_one]
      calc 2 ^ 52 = 2 ^ L * 2 ^ (52 - L) := by rw [← Nat.pow_add, ← hLe]
        _ ≤ p * 2 ^ (52 - L) := Nat.mul_le_mul_right _ h1
    · rw [hs]; simp only [Nat.div_one]
      calc p * 2 ^ (52 - L) < 2 ^ (L + 1) * 2 ^ (52 - L) := Nat.mul_lt_mul_of_pos_right h2 (Nat.pow_pos (by omega))
        _ = 2 ^ 53 := by rw [← Nat.pow_add]; congr 1; omega

theorem normK_int (p L : Nat) (h1 : 2 ^ L ≤ p) (h2 : p < 2 ^ (L + 1)) : normK p 1 = (L : Int) - 52 := by
  have hp : p ≠ 0 := by have := Nat.pow_pos (n := L) (show 0 < 2 by omega); omega
  have hlog : Nat.log2 p = L := (Nat.log2_eq_iff hp).2 ⟨h1, h2⟩
  obtain ⟨_, hq1, hq2⟩ := scaledBy_int p L h1 h2
  have hk0 : ((Nat.log2 p : Int) - (Nat.log2 1 : Int) - 52) = (L : Int) - 52 := by rw [hlog, log2_one]; omega
  simp only [normK, hk0]
  have n1 : ¬ (scaledBy p 1 ((L : Int) - 52)).1 / (scaledBy p 1 ((L : Int) - 52)).2 < 2 ^ 52 := by omega
  simp only [n1, if_false]
  have n2 : ¬ (scaledBy p 1 ((L : Int) - 52)).1 / (scaledBy p 1 ((L : Int) - 52)).2 ≥ 2 ^ 53 := by omega
  simp only [n2, if_false]
  have n3 : ¬ ((L : Int) - 52 < -1074) := by omega
  simp only [n3, if_false]

/-! ### rounding -/

theorem roundHalfEven_spec (p d : Nat) :
    (roundHalfEven p d = p / d ∧ 2 * (p % d) ≤ d ∧ (2 * (p % d) = d → (p / d) % 2 = 0)) ∨
    (roundHalfEven p d = p / d + 1 ∧ d ≤ 2 * (p % d) ∧ (2 * (p % d) = d → (p / d + 1) % 2 = 0)) := by
  unfold roundHalfEven
  simp only
  by_cases h1 : 2 * (p % d) > d
  · right; simp only [h1, if_true]; exact ⟨trivial, by omega, by omega⟩
  · simp only [h1, if_false]
    by_cases h2 : (2 * (p % d) == d) = true
    · have h2' : 2 * (p % d) = d := by simpa using h2
      simp only [h2, if_true]
      by_cases h3 : (p / d % 2 == 1) = true
      · have : p / d % 2 = 1 := by simpa using h3
        right; simp only [h3, if_true]; exact ⟨trivial, by omega, by omega⟩
      · have : ¬ p / d % 2 = 1 := by simpa using h3
        left; simp only [h3]; exact ⟨by simp, by omega, by omega⟩
    · have h2' : ¬ 2 * (p % d) = d := by simpa using h2
      left; simp only [h2]; exact ⟨by simp, by omega, by omega⟩

theorem roundHalfEven_one (p : Nat) : roundHalfEven p 1 = p := by
  unfold roundHalfEven; simp [Nat.mod_one]

/-- significand of the result -/
def sigOf (p L : Nat) : Nat := if 52 ≤ L then roundHalfEven p (2 ^ (L - 52)) else p * 2 ^ (52 - L)

/-- closed form of `dOfRat p 1` for `2^L ≤ p < 2^(L+1)`, `L ≤ 63`: exponent field `L + 1023` and significand `sigOf p L`
    (`2^53` stands for the carry into the next binade) -/
theorem dOfRat_int (p L : Nat) (h1 : 2 ^ L ≤ p) (h2 : p < 2 ^ (L + 1)) (hL : L ≤ 63) :
    2 ^ 52 ≤ sigOf p L ∧ sigOf p L ≤ 2 ^ 53 ∧ dOfRat p 1 = (L + 1023) * 2 ^ 52 + (sigOf p L - 2 ^ 52) := by
  have hp : p ≠ 0 := by have := Nat.pow_pos (n := L) (show 0 < 2 by omega); omega
  obtain ⟨hs, hq1, hq2⟩ := scaledBy_int p L h1 h2
  have hM : roundHalfEven (scaledBy p 1 ((L : Int) - 52)).1 (scaledBy p 1 ((L : Int) - 52)).2 = sigOf p L := by
    rw [hs]; unfold sigOf
    by_cases h : 52 ≤ L
    · simp only [h, if_true]
    · simp only [h, if_false, roundHalfEven_one]
  have hb : 2 ^ 52 ≤ sigOf p L ∧ sigOf p L ≤ 2 ^ 53 := by
    rw [← hM]
    rcases roundHalfEven_spec (scaledBy p 1 ((L : Int) - 52)).1 (scaledBy p 1 ((L : Int) - 52)).2 with ⟨e, _, _⟩ | ⟨e, _, _⟩ <;>
      rw [e] <;> omega
  refine ⟨hb.1, hb.2, ?_⟩
  have hp0 : (p == 0) = false := by simpa using hp
  simp only [dOfRat, hp0, Bool.false_eq_true, if_false, normK_int p L h1 h2, hM]
  unfold dPack
  by_cases hc : sigOf p L = 2 ^ 53
  · have : (sigOf p L == 2 ^ 53) = true := by simpa using hc
    simp only [this, if_true]
    have n1 : ¬ ((L : Int) - 52 + 1 + 52 > 1023) := by omega
    have n2 : ¬ ((2 : Nat) ^ 52 < 2 ^ 52) := by omega
    have t : ((L : Int) - 52 + 1 + 1075).toNat = L + 1024 := by omega
    simp only [n1, n2, if_false, t, hc, e52, e53]; omega
  · have : (sigOf p L == 2 ^ 53) = false := by simpa using hc
    simp only [this, Bool.false_eq_true, if_false]
    have n1 : ¬ ((L : Int) - 52 + 52 > 1023) := by omega
    have n2 : ¬ (sigOf p L < 2 ^ 52) := by omega
    have t : ((L : Int) - 52 + 1075).toNat = L + 1023 := by omega
    simp only [n1, n2, if_false, t]

/-- MAIN (magnitudes).  For every `p < 2^64` there are finite doubles `lo`, `hi` (bit patterns) with `lo ≤ p ≤ hi`,
    equal or adjacent — so no double lies strictly between them (`no_double_between`) —, `dOfRat p 1` is one of them,
    namely the nearer one, a tie goes to the even significand, and the result is exact for `p ≤ 2^53`. -/
theorem dOfRat_int_rounded (p : Nat) (h64 : p < 2 ^ 64) :
    ∃ lo hi : Nat, hi + 1 < 2047 * 2 ^ 52 ∧ (hi = lo ∨ hi = lo + 1) ∧
      dVal2 lo ≤ p * 2 ^ 1074 ∧ p * 2 ^ 1074 ≤ dVal2 hi ∧
      (dOfRat p 1 = lo ∨ dOfRat p 1 = hi) ∧
      (dOfRat p 1 = lo → 2 * (p * 2 ^ 1074) ≤ dVal2 lo + dVal2 hi ∧
        (2 * (p * 2 ^ 1074) = dVal2 lo + dVal2 hi → hi = lo ∨ lo % 2 = 0)) ∧
      (dOfRat p 1 = hi → dVal2 lo + dVal2 hi ≤ 2 * (p * 2 ^ 1074) ∧
        (2 * (p * 2 ^ 1074) = dVal2 lo + dVal2 hi → hi = lo ∨ hi % 2 = 0)) ∧
      (p ≤ 2 ^ 53 → dVal2 (dOfRat p 1) = p * 2 ^ 1074) := by
  by_cases hp0 : p = 0
  · subst hp0
    refine ⟨0, 0, by simp only [e52]; omega, Or.inl rfl, ?_, ?_, Or.inl (by simp [dOfRat]), ?_, ?_, ?_⟩ <;>
      simp [dOfRat, dVal2, dMag, dExp, dFrac]
  have hlog1 := Nat.log2_self_le hp0
  have hlog2 := @Nat.lt_log2_self p
  generalize hLd : Nat.log2 p = L at hlog1 hlog2
  have hL : L ≤ 63 := by
    have : Nat.log2 p < 64 := (Nat.log2_lt hp0).2 h64
    omega
  obtain ⟨hM1, hM2, hres⟩ := dOfRat_int p L hlog1 hlog2 hL
  by_cases h52 : 52 ≤ L
  · -- rounding binades
    have hT : 0 < 2 ^ 1074 := Nat.pow_pos (by omega)
    have hsig : sigOf p L = roundHalfEven p (2 ^ (L - 52)) := by simp [sigOf, h52]
    obtain ⟨hs, hq1, hq2⟩ := scaledBy_int p L hlog1 hlog2
    rw [hs] at hq1 hq2; simp only [h52, if_true] at hq1 hq2
    have hD : 0 < 2 ^ (L - 52) := Nat.pow_pos (by omega)
    have hdm := Nat.div_add_mod p (2 ^ (L - 52))
    have hr := Nat.mod_lt p hD
    have hexp : L + 1023 - 1 = (L - 52) + 1074 := by omega
    have vlo : dVal2 ((L + 1023) * 2 ^ 52 + (p / 2 ^ (L - 52) - 2 ^ 52)) = (p / 2 ^ (L - 52) * 2 ^ (L - 52)) * 2 ^ 1074 := by
      rw [dVal2_normal _ _ (by omega) (by omega) hq1 hq2, hexp, Nat.pow_add, Nat.mul_assoc]
    have vhi : dVal2 ((L + 1023) * 2 ^ 52 + (p / 2 ^ (L - 52) + 1 - 2 ^ 52)) = ((p / 2 ^ (L - 52) + 1) * 2 ^ (L - 52)) * 2 ^ 1074 := by
      rw [dVal2_carry _ _ (by omega) (by omega) (by omega) (by omega), hexp, Nat.pow_add, Nat.mul_assoc]
    have hhi : (L + 1023) * 2 ^ 52 + (p / 2 ^ (L - 52) + 1 - 2 ^ 52) = (L + 1023) * 2 ^ 52 + (p / 2 ^ (L - 52) - 2 ^ 52) + 1 := by omega
    generalize hq : p / 2 ^ (L - 52) = q at *
    generalize hrr : p % 2 ^ (L - 52) = r at *
    generalize hDD : 2 ^ (L - 52) = D at *
    have hqd : (q + 1) * D = q * D + D := by rw [Nat.add_mul, Nat.one_mul]
    have hpq : p = q * D + r := by rw [Nat.mul_comm q D]; exact hdm.symm
    generalize hQD : q * D = QD at *
    generalize hT' : 2 ^ 1074 = T at *
    clear hT'
    refine ⟨(L + 1023) * 2 ^ 52 + (q - 2 ^ 52), (L + 1023) * 2 ^ 52 + (q - 2 ^ 52) + 1, by simp only [e52, e53] at *; omega,
      Or.inr rfl, ?_, ?_, ?_, ?_, ?_, ?_⟩
    · rw [vlo]; exact Nat.mul_le_mul_right T (by omega)
    · rw [← hhi, vhi, hqd]; exact Nat.mul_le_mul_right T (by omega)
    · rw [hres, hsig]
      rcases roundHalfEven_spec p D with ⟨e, _, _⟩ | ⟨e, _, _⟩
      · left; rw [e, hq]
      · right; rw [e, hq]; omega
    · intro hlo
      rw [hres, hsig] at hlo
      have hrq : roundHalfEven p D = q := by
        rcases roundHalfEven_spec p D with ⟨e, _, _⟩ | ⟨e, _, _⟩
        · rw [e, hq]
        · rw [e, hq] at hlo ⊢; omega
      rcases roundHalfEven_spec p D with ⟨e, c1, c2⟩ | ⟨e, c1, c2⟩
      · simp only [hq, hrr] at c1 c2
        rw [← hhi, vlo, vhi, hqd, ← Nat.add_mul, ← Nat.mul_assoc]
        refine ⟨Nat.mul_le_mul_right T (by omega), ?_⟩
        intro heq
        have := Nat.eq_of_mul_eq_mul_right hT heq
        right
        have := c2 (by omega)
        simp only [e52] at *; omega
      · rw [e, hq] at hrq; omega
    · intro hhi'
      rw [hres, hsig] at hhi'
      rcases roundHalfEven_spec p D with ⟨e, c1, c2⟩ | ⟨e, c1, c2⟩
      · rw [e, hq] at hhi'; omega
      · simp only [hq, hrr] at c1 c2
        rw [← hhi, vlo, vhi, hqd, ← Nat.add_mul, ← Nat.mul_assoc]
        refine ⟨Nat.mul_le_mul_right T (by omega), ?_⟩
        intro heq
        have := Nat.eq_of_mul_eq_mul_right hT heq
        right
        have := c2 (by omega)
        simp only [e52] at *; omega
    · intro h53
      -- p ≤ 2^53 with L ≥ 52: the remainder is 0
      have hr0 : r = 0 := by
        by_cases hL52 : L = 52
        · have hD1 : D = 1 := by rw [← hDD, hL52]
          omega
        · have hL53 : L = 53 := by
            by_cases hlt : 54 ≤ L
            · have : 2 ^ 54 ≤ 2 ^ L := Nat.pow_le_pow_right (by omega) hlt
              have e54 : (2 : Nat) ^ 54 = 18014398509481984 := by decide
              simp only [e53, e54] at *; omega
            · omega
          have hD2 : D = 2 := by rw [← hDD, hL53]
          have hp53 : 2 ^ 53 ≤ p := by rw [hL53] at hlog1; exact hlog1
          subst hD2
          simp only [e53] at *
          omega
      rw [hres, hsig]
      rcases roundHalfEven_spec p D with ⟨e, _, _⟩ | ⟨e, c1, _⟩
      · rw [e, hq, vlo, hpq, hr0, Nat.add_zero]
      · rw [hrr, hr0] at c1
        exact absurd (Nat.lt_of_lt_of_le hD c1) (Nat.lt_irrefl 0)
  · -- exact binades
    have hsig : sigOf p L = p * 2 ^ (52 - L) := by simp [sigOf, h52]
    have hval : dVal2 (dOfRat p 1) = p * 2 ^ 1074 := by
      rw [hres]
      by_cases hc : sigOf p L < 2 ^ 53
      · have hpw : 2 ^ (52 - L) * 2 ^ (L + 1023 - 1) = 2 ^ 1074 := by
          have hex : 52 - L + (L + 1023 - 1) = 1074 := by omega
          rw [← Nat.pow_add, hex]
        rw [dVal2_normal _ _ (by omega) (by omega) hM1 hc, hsig, Nat.mul_assoc, hpw]
      · -- impossible: p·2^(52-L) < 2^53
        obtain ⟨hs, _, hq2⟩ := scaledBy_int p L hlog1 hlog2
        rw [hs] at hq2; simp only [h52, if_false, Nat.div_one] at hq2
        rw [hsig] at hc; omega
    refine ⟨dOfRat p 1, dOfRat p 1, ?_, Or.inl rfl, by rw [hval]; exact Nat.le_refl _, by rw [hval]; exact Nat.le_refl _,
      Or.inl rfl, ?_, ?_, fun _ => hval⟩
    · rw [hres]; simp only [e52, e53] at *; omega
    · intro _; rw [hval]; exact ⟨by omega, fun _ => Or.inl rfl⟩
    · intro _; rw [hval]; exact ⟨by omega, fun _ => Or.inl rfl⟩

end Nstd.Variant
